(* KeysOrder.v — C07: the byte order on strings is a strict total order; sort_strs / dedup produce the
   unique (strictly) sorted list of a set of strings. *)
From Coq Require Import ZArith NArith Bool Lia List.
From PcoreV Require Import Model.Base Model.Keys.
Import ListNotations.

Lemma str_ltb_irrefl a : str_ltb a a = false.
Proof.
  induction a as [|x a IH]; cbn; [reflexivity|].
  rewrite N.ltb_irrefl, N.eqb_refl. exact IH.
Qed.

Lemma str_ltb_tri a b : str_ltb a b = false -> str_ltb b a = false -> a = b.
Proof.
  revert b; induction a as [|x a IH]; intros [|y b]; cbn; try congruence.
  destruct (N.ltb_spec x y) as [Hxy|Hxy]; [discriminate|].
  destruct (N.ltb_spec y x) as [Hyx|Hyx]; [discriminate|].
  assert (x = y) by lia. subst y. rewrite N.eqb_refl.
  intros H1 H2. f_equal. apply IH; assumption.
Qed.

Lemma str_ltb_trans a b c : str_ltb a b = true -> str_ltb b c = true -> str_ltb a c = true.
Proof.
  revert b c; induction a as [|x a IH]; intros [|y b] [|z c]; cbn; try congruence.
  destruct (N.ltb_spec x y) as [Hxy|Hxy].
  - intros _. destruct (N.ltb_spec y z) as [Hyz|Hyz].
    + intros _. destruct (N.ltb_spec x z); [reflexivity|lia].
    + destruct (N.eqb_spec y z) as [->|Hne]; [|discriminate].
      intros _. destruct (N.ltb_spec x z); [reflexivity|lia].
  - destruct (N.eqb_spec x y) as [->|Hne]; [|discriminate].
    intros Hab. destruct (N.ltb_spec y z) as [Hyz|Hyz]; [reflexivity|].
    destruct (N.eqb_spec y z) as [->|Hne]; [|discriminate].
    intros Hbc. eapply IH; eassumption.
Qed.

Lemma str_ltb_asym a b : str_ltb a b = true -> str_ltb b a = false.
Proof.
  intros H. destruct (str_ltb b a) eqn:E; [|reflexivity].
  pose proof (str_ltb_trans _ _ _ H E) as Hc. rewrite str_ltb_irrefl in Hc. discriminate.
Qed.

Lemma str_ltb_neq a b : str_ltb a b = true -> a <> b.
Proof. intros H ->. rewrite str_ltb_irrefl in H. discriminate. Qed.

(* ------------------------------------------------------------------------------------------ *)

Lemma ins_In x l z : In z (ins x l) <-> z = x \/ In z l.
Proof.
  induction l as [|y l IH]; cbn.
  - intuition.
  - destruct (str_ltb x y); cbn; [intuition|]. rewrite IH. intuition.
Qed.

Lemma sort_cons x l : sort_strs (x :: l) = ins x (sort_strs l).
Proof. reflexivity. Qed.

Lemma sort_In l z : In z (sort_strs l) <-> In z l.
Proof.
  induction l as [|x l IH]; [cbn; tauto|].
  rewrite sort_cons, ins_In, IH. cbn. intuition.
Qed.

Lemma ins_length x l : length (ins x l) = S (length l).
Proof. induction l as [|y l IH]; cbn; [reflexivity|]. destruct (str_ltb x y); cbn [length]; rewrite ?IH; reflexivity. Qed.

Lemma sort_length l : length (sort_strs l) = length l.
Proof. induction l as [|x l IH]; [reflexivity|]. rewrite sort_cons, ins_length, IH. reflexivity. Qed.

(* every later element is not smaller *)
Fixpoint sorted (l : list str) : Prop :=
  match l with
  | [] => True
  | x :: l' => (forall y, In y l' -> str_ltb y x = false) /\ sorted l'
  end.
(* every later element is greater *)
Fixpoint ssorted (l : list str) : Prop :=
  match l with
  | [] => True
  | x :: l' => (forall y, In y l' -> str_ltb x y = true) /\ ssorted l'
  end.

Lemma ins_sorted x l : sorted l -> sorted (ins x l).
Proof.
  induction l as [|y l IH]; cbn; [tauto|].
  intros [Hy Hl]. destruct (str_ltb x y) eqn:E; cbn.
  - split; [|tauto]. intros z [<-|Hz].
    + apply str_ltb_asym; assumption.
    + destruct (str_ltb z x) eqn:E2; [|reflexivity].
      rewrite <- (Hy z Hz). symmetry. eapply str_ltb_trans; eassumption.
  - split; [|apply IH; assumption].
    intros z Hz. apply ins_In in Hz. destruct Hz as [->|Hz]; [assumption|auto].
Qed.

Lemma sort_sorted l : sorted (sort_strs l).
Proof. induction l as [|x l IH]; [exact I|]. rewrite sort_cons. apply ins_sorted; assumption. Qed.

Lemma ins_NoDup x l : ~ In x l -> NoDup l -> NoDup (ins x l).
Proof.
  induction l as [|y l IH]; cbn; intros Hx Hl.
  - constructor; [tauto|constructor].
  - destruct (str_ltb x y).
    + constructor; [cbn; tauto|assumption].
    + inversion Hl as [|? ? Hy Hl']; subst. constructor.
      * rewrite ins_In. intros [->|H]; tauto.
      * apply IH; tauto.
Qed.

Lemma sort_NoDup l : NoDup l -> NoDup (sort_strs l).
Proof.
  induction l as [|x l IH]; intros H; [constructor|].
  rewrite sort_cons. inversion H; subst. apply ins_NoDup; [rewrite sort_In; assumption|auto].
Qed.

Lemma sorted_NoDup_ssorted l : sorted l -> NoDup l -> ssorted l.
Proof.
  induction l as [|x l IH]; cbn; [tauto|].
  intros [Hx Hl] Hn. inversion Hn as [|? ? Hnx Hnl]; subst. split; [|auto].
  intros y Hy. destruct (str_ltb x y) eqn:E; [reflexivity|].
  exfalso. apply Hnx. rewrite (str_ltb_tri x y E (Hx y Hy)). assumption.
Qed.

Lemma dedup_In l z : In z (dedup l) <-> In z l.
Proof.
  induction l as [|x l IH]; [tauto|].
  destruct l as [|y l']; [cbn; tauto|].
  change (dedup (x :: y :: l')) with (if str_eqb x y then dedup (y :: l') else x :: dedup (y :: l')).
  destruct (str_eqb_spec x y) as [->|Hne].
  - rewrite IH. cbn. tauto.
  - cbn [In]. rewrite IH. cbn. tauto.
Qed.

Lemma dedup_ssorted l : sorted l -> ssorted (dedup l).
Proof.
  induction l as [|x l IH]; [cbn; tauto|].
  destruct l as [|y l']; [cbn; tauto|].
  change (dedup (x :: y :: l')) with (if str_eqb x y then dedup (y :: l') else x :: dedup (y :: l')).
  intros [Hx Hl]. destruct (str_eqb_spec x y) as [->|Hne]; [auto|].
  split; [|auto].
  intros z Hz. rewrite dedup_In in Hz.
  destruct (str_ltb x z) eqn:E; [reflexivity|]. exfalso.
  pose proof (str_ltb_tri x z E (Hx z Hz)) as ->.
  (* z = x occurs after y, and y after x: y <= z = x <= y *)
  destruct Hz as [->|Hz]; [congruence|].
  destruct Hl as [Hy _]. apply Hne.
  apply str_ltb_tri; [|apply Hx; cbn; tauto].
  destruct (str_ltb z y) eqn:E2; [|reflexivity]. rewrite (Hy z Hz) in *.
  exfalso. pose proof (Hx y (or_introl eq_refl)). congruence.
Qed.

Lemma ssorted_ext l l' : ssorted l -> ssorted l' -> (forall z, In z l <-> In z l') -> l = l'.
Proof.
  revert l'; induction l as [|x l IH]; intros [|y l']; cbn; intros Hs Hs' Hi.
  - reflexivity.
  - exfalso. apply (Hi y). tauto.
  - exfalso. apply (Hi x). tauto.
  - destruct Hs as [Hx Hl], Hs' as [Hy Hl'].
    assert (x = y) as ->.
    { destruct (proj1 (Hi x) (or_introl eq_refl)) as [E|Hxl']; [congruence|].
      destruct (proj2 (Hi y) (or_introl eq_refl)) as [E|Hyl]; [congruence|].
      pose proof (str_ltb_asym _ _ (Hy x Hxl')) as H1. rewrite (Hx y Hyl) in H1. discriminate. }
    f_equal. apply IH; [assumption|assumption|].
    intros z; split; intros Hz.
    + destruct (proj1 (Hi z) (or_intror Hz)) as [E|H]; [|assumption].
      subst z. pose proof (Hx y Hz) as H1. rewrite str_ltb_irrefl in H1. discriminate.
    + destruct (proj2 (Hi z) (or_intror Hz)) as [E|H]; [|assumption].
      subst z. pose proof (Hy y Hz) as H1. rewrite str_ltb_irrefl in H1. discriminate.
Qed.

(* ------------------------------------------------------------------------------------------ *)
(* the two facts the key proofs use *)

Lemma sort_dedup_In l z : In z (sort_dedup l) <-> In z l.
Proof. unfold sort_dedup. rewrite dedup_In, sort_In. tauto. Qed.

Lemma sort_dedup_ext l l' : (forall z, In z l <-> In z l') -> sort_dedup l = sort_dedup l'.
Proof.
  intros H. apply ssorted_ext.
  - apply dedup_ssorted, sort_sorted.
  - apply dedup_ssorted, sort_sorted.
  - intros z. rewrite !sort_dedup_In. apply H.
Qed.

Lemma sort_dedup_eq_iff l l' : sort_dedup l = sort_dedup l' <-> (forall z, In z l <-> In z l').
Proof.
  split; [|apply sort_dedup_ext].
  intros H z. rewrite <- (sort_dedup_In l), <- (sort_dedup_In l'), H. tauto.
Qed.

Lemma sort_nodup_eq_iff l l' : NoDup l -> NoDup l' ->
  (sort_strs l = sort_strs l' <-> (forall z, In z l <-> In z l')).
Proof.
  intros Hn Hn'. split.
  - intros H z. rewrite <- (sort_In l), <- (sort_In l'), H. tauto.
  - intros H. apply ssorted_ext.
    + apply sorted_NoDup_ssorted; [apply sort_sorted|apply sort_NoDup; assumption].
    + apply sorted_NoDup_ssorted; [apply sort_sorted|apply sort_NoDup; assumption].
    + intros z. rewrite !sort_In. apply H.
Qed.

Lemma sort_Forall (P : str -> Prop) l : Forall P l -> Forall P (sort_strs l).
Proof. rewrite !Forall_forall. intros H z Hz. apply H, sort_In, Hz. Qed.

Lemma sort_dedup_Forall (P : str -> Prop) l : Forall P l -> Forall P (sort_dedup l).
Proof. rewrite !Forall_forall. intros H z Hz. apply H, sort_dedup_In, Hz. Qed.
