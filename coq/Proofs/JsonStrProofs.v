(* JsonStrProofs.v - the string lexeme jsonStreamer.write produces is a JSON string lexeme and decodes to
   utf8_coerce of the string, for EVERY byte string (Model/JsonStr.v). *)
From Coq Require Import NArith Bool List Lia.
From PcoreV Require Import Model.Base Model.Json Model.JsonStr Proofs.JsonProofs.
Import ListNotations.
Local Open Scope N_scope.

Lemma pre_some l x : pre l (Some x) = Some (l ++ x).
Proof. reflexivity. Qed.

(* ---------------------------------------------------------------------------------------------- *)
(* one ASCII byte: whatever appendString writes for it, the reader makes that byte of it *)

Lemma unq_ascii : forall b rest, N.ltb b 128 = true -> unq (esc_ascii b ++ rest) = pre [b] (unq rest).
Proof.
  intros b rest Hb.
  destruct b as [|p]; [reflexivity|].
  do 8 (try (destruct p as [p|p|]; try discriminate Hb; try reflexivity)).
Qed.

Lemma unq_ufffd rest : unq (ufffd_text ++ rest) = pre replacement (unq rest).
Proof. reflexivity. Qed.

(* ---------------------------------------------------------------------------------------------- *)
(* a byte >= 128 is none of the bytes the reader treats specially *)

Lemma high_byte b : N.ltb b 128 = false -> (b =? 34) = false /\ (b =? 92) = false /\ (b <? 32) = false.
Proof.
  intros H. apply N.ltb_ge in H. repeat split.
  - apply N.eqb_neq. lia.
  - apply N.eqb_neq. lia.
  - apply N.ltb_ge. lia.
Qed.

Lemma unq_high b0 r0 : N.ltb b0 128 = false ->
  unq (b0 :: r0) =
    let bad := pre replacement (unq r0) in
    match r0 with
    | [] => bad
    | b1 :: r1 =>
      if two_ok b0 b1 then pre [b0; b1] (unq r1)
      else match r1 with
           | [] => bad
           | b2 :: r2 =>
             if three_ok b0 b1 b2 then pre [b0; b1; b2] (unq r2)
             else match r2 with
                  | [] => bad
                  | b3 :: r3 => if four_ok b0 b1 b2 b3 then pre [b0; b1; b2; b3] (unq r3) else bad
                  end
           end
    end.
Proof.
  intros H. destruct (high_byte b0 H) as (H1 & H2 & H3).
  cbn [unq]. rewrite H1, H2, H3.
  change (b0 <? 128) with (N.ltb b0 128). rewrite H. reflexivity.
Qed.

Lemma unq_two b0 b1 rest : N.ltb b0 128 = false -> two_ok b0 b1 = true ->
  unq (b0 :: b1 :: rest) = pre [b0; b1] (unq rest).
Proof. intros H H2. rewrite (unq_high b0 _ H). cbv zeta. rewrite H2. reflexivity. Qed.

Lemma unq_three b0 b1 b2 rest : N.ltb b0 128 = false -> two_ok b0 b1 = false -> three_ok b0 b1 b2 = true ->
  unq (b0 :: b1 :: b2 :: rest) = pre [b0; b1; b2] (unq rest).
Proof. intros H H2 H3. rewrite (unq_high b0 _ H). cbv zeta. rewrite H2, H3. reflexivity. Qed.

Lemma unq_four b0 b1 b2 b3 rest : N.ltb b0 128 = false -> two_ok b0 b1 = false -> three_ok b0 b1 b2 = false ->
  four_ok b0 b1 b2 b3 = true ->
  unq (b0 :: b1 :: b2 :: b3 :: rest) = pre [b0; b1; b2; b3] (unq rest).
Proof. intros H H2 H3 H4. rewrite (unq_high b0 _ H). cbv zeta. rewrite H2, H3, H4. reflexivity. Qed.

Lemma linesep_inv b0 b1 b2 : is_linesep b0 b1 b2 = true -> b0 = 226 /\ b1 = 128 /\ (b2 = 168 \/ b2 = 169).
Proof.
  unfold is_linesep. intros H.
  apply andb_prop in H. destruct H as [H H2]. apply andb_prop in H. destruct H as [H0 H1].
  apply N.eqb_eq in H0. apply N.eqb_eq in H1. apply orb_prop in H2.
  repeat split; try assumption.
  destruct H2 as [H2|H2]; apply N.eqb_eq in H2; [left|right]; exact H2.
Qed.

(* ---------------------------------------------------------------------------------------------- *)
(* the round trip of the body *)

Lemma unq_esc_n : forall n s, (length s <= n)%nat -> unq (esc_body s ++ [34]) = Some (utf8_coerce s).
Proof.
  induction n as [|n IH]; intros s Hn.
  - destruct s; [reflexivity|cbn [length] in Hn; lia].
  - destruct s as [|b0 r0]; [reflexivity|].
    cbn [esc_body utf8_coerce]. cbn [length] in Hn.
    assert (Hbad : unq ((ufffd_text ++ esc_body r0) ++ [34]) = Some (replacement ++ utf8_coerce r0)).
    { rewrite <- app_assoc, unq_ufffd, IH by lia. reflexivity. }
    destruct (N.ltb b0 128) eqn:H1.
    { rewrite <- app_assoc, (unq_ascii b0 _ H1), IH by lia. reflexivity. }
    destruct r0 as [|b1 r1]; [exact Hbad|]. cbn [length] in Hn.
    destruct (two_ok b0 b1) eqn:H2.
    { cbn [app]. rewrite (unq_two b0 b1 _ H1 H2), IH by lia. reflexivity. }
    destruct r1 as [|b2 r2]; [exact Hbad|]. cbn [length] in Hn.
    destruct (three_ok b0 b1 b2) eqn:H3.
    { destruct (is_linesep b0 b1 b2) eqn:H5.
      - destruct (linesep_inv _ _ _ H5) as (-> & -> & [-> | ->]).
        + rewrite <- app_assoc.
          change (unq ([92; 117; 50; 48; 50; hexd (168 mod 16)] ++ esc_body r2 ++ [34]))
            with (pre [226; 128; 168] (unq (esc_body r2 ++ [34]))).
          rewrite IH by lia. reflexivity.
        + rewrite <- app_assoc.
          change (unq ([92; 117; 50; 48; 50; hexd (169 mod 16)] ++ esc_body r2 ++ [34]))
            with (pre [226; 128; 169] (unq (esc_body r2 ++ [34]))).
          rewrite IH by lia. reflexivity.
      - cbn [app]. rewrite (unq_three b0 b1 b2 _ H1 H2 H3), IH by lia. reflexivity. }
    destruct r2 as [|b3 r3]; [exact Hbad|]. cbn [length] in Hn.
    destruct (four_ok b0 b1 b2 b3) eqn:H4; [|exact Hbad].
    cbn [app]. rewrite (unq_four b0 b1 b2 b3 _ H1 H2 H3 H4), IH by lia. reflexivity.
Qed.

Theorem unquote_escape s : json_unquote (json_escape s) = Some (utf8_coerce s).
Proof. unfold json_unquote, json_escape. cbn [N.eqb Pos.eqb]. apply (unq_esc_n (length s)). lia. Qed.

Theorem escape_lexeme_ok s : str_lexeme_ok (json_escape s) = true.
Proof. unfold str_lexeme_ok. rewrite unquote_escape. reflexivity. Qed.

(* the token model of Model/Json.v is the byte model seen through the tokenizer *)
Theorem write_string_token x : str_token (write_string x) = TStr (utf8_coerce x).
Proof. unfold str_token, write_string. rewrite unquote_escape. reflexivity. Qed.

Theorem write_is_write_string x : write (SStr x) = Ok [str_token (write_string x)].
Proof. rewrite write_string_token. reflexivity. Qed.

(* every Unicode character is kept by the bytes written: valid UTF-8 decodes to itself *)
Theorem unquote_escape_valid s : utf8_valid s = true -> json_unquote (write_string s) = Some s.
Proof. intros H. unfold write_string. rewrite unquote_escape, (utf8_valid_coerce s H). reflexivity. Qed.

(* ---------------------------------------------------------------------------------------------- *)
(* the seeded change C11-m8 is told apart: a string whose content is backslash u 0 0 2 6 *)

Definition amp_witness : str := [92; 117; 48; 48; 50; 54].

Lemma amp_replace_refuted :
  str_lexeme_ok (write_string_amp amp_witness) = false /\ str_token (write_string_amp amp_witness) = TBad /\
  str_token (write_string amp_witness) = TStr amp_witness.
Proof. vm_compute. repeat split. Qed.
