(* Proofs about Model/DescribeNested.v: the describer for expected types with aliases at any position is total, empty
   exactly when the actual type is assignable to the resolved type, and reports below the given path - by structural
   induction over the expected type, from the per-describer lemmas of Proofs/DescribeProofs.v (which are about the
   non-recursive describers over ANY describers of the contained types). *)
From Coq Require Import ZArith NArith Bool List Arith Lia.
From PcoreV Require Import Model.Base Model.Ty Model.Lattice Model.Describe Model.DescribeHist Model.DescribeNested
  Proofs.DescribeProofs Proofs.DescribeHistProofs.
Import ListNotations.

(* ---- induction over xty with the nested occurrences ---- *)
Section XtyInd.
  Variable P : xty -> Prop.
  Hypothesis HTy : forall t, P (XTy t).
  Hypothesis HAlias : forall r, P r -> P (XAlias r).
  Hypothesis HOptional : forall t, P t -> P (XOptional t).
  Hypothesis HArray : forall et lo hi, P et -> P (XArray et lo hi).
  Hypothesis HHash : forall k v lo hi, P k -> P v -> P (XHash k v lo hi).
  Hypothesis HTuple : forall ts g lo hi, Forall P ts -> P (XTuple ts g lo hi).
  Hypothesis HStruct : forall ms, Forall (fun m => P (snd (snd m))) ms -> P (XStruct ms).
  Hypothesis HVariant : forall ts, Forall P ts -> P (XVariant ts).

  Fixpoint xty_ind' (x : xty) : P x :=
    match x with
    | XTy t => HTy t
    | XAlias r => HAlias r (xty_ind' r)
    | XOptional t => HOptional t (xty_ind' t)
    | XArray et lo hi => HArray et lo hi (xty_ind' et)
    | XHash k v lo hi => HHash k v lo hi (xty_ind' k) (xty_ind' v)
    | XTuple ts g lo hi =>
        HTuple ts g lo hi ((fix go (l : list xty) : Forall P l :=
                              match l with [] => Forall_nil _ | y :: r => Forall_cons _ (xty_ind' y) (go r) end) ts)
    | XStruct ms =>
        HStruct ms ((fix go (l : list (str * (ty * xty))) : Forall (fun m => P (snd (snd m))) l :=
                       match l with
                       | [] => Forall_nil _
                       | (n, (k, v)) :: r => @Forall_cons _ (fun m => P (snd (snd m))) (n, (k, v)) r (xty_ind' v) (go r)
                       end) ms)
    | XVariant ts =>
        HVariant ts ((fix go (l : list xty) : Forall P l :=
                        match l with [] => Forall_nil _ | y :: r => Forall_cons _ (xty_ind' y) (go r) end) ts)
    end.
End XtyInd.

Section NestedProofs.
  Variable rx : str -> str -> bool.
  Variable teq : ty -> ty -> bool.
  Notation xidesc := (xidesc rx teq).

  Lemma xidesc_total : forall x o, total (xidesc x o).
  Proof.
    intro x. induction x as [t|r IHr|t IHt|et lo hi IHet|k v lo hi IHk IHv|ts g lo hi IHts|ms IHms|ts IHts] using xty_ind';
      intros o a p; cbn [DescribeNested.xidesc].
    - destruct o; [apply idesc_total|apply idesc_total|apply idesc_al_total].
    - apply guarded_ok. apply IHr.
    - apply guarded_ok. apply describe_optional_ok. apply IHt.
    - apply guarded_ok. apply describe_array_ok. apply IHet.
    - apply guarded_ok. apply describe_hash_ok; [apply IHk|apply IHv].
    - apply guarded_ok. apply describe_tuple_ok. apply Forall_map.
      eapply Forall_impl; [|exact IHts]. intros y Hy. apply Hy.
    - apply guarded_ok. apply describe_struct_ok. apply Forall_map.
      eapply Forall_impl; [|exact IHms]. intros [n [k v]] Hv. cbn [snd] in Hv. split; cbn [fst snd].
      + destruct k; apply idesc_total.
      + apply Hv.
    - apply guarded_ok.
      assert (Hv : okr (describe_variant rx (is_oopt o) (map (fun vt => (xres vt, xidesc vt (xorig vt))) ts) a p)).
      { apply describe_variant_ok. apply Forall_map. eapply Forall_impl; [|exact IHts]. intros y Hy. cbn [snd]. apply Hy. }
      destruct o; [exact Hv|exact Hv|apply alias_single_ok; exact Hv].
  Qed.

  Lemma xidesc_keeps : forall x o, keeps (xidesc x o).
  Proof.
    intro x. induction x as [t|r IHr|t IHt|et lo hi IHet|k v lo hi IHk IHv|ts g lo hi IHts|ms IHms|ts IHts] using xty_ind';
      intros o a p; cbn [DescribeNested.xidesc].
    - destruct o; [apply idesc_keeps|apply idesc_keeps|apply idesc_al_keeps].
    - apply all_below_guarded. apply IHr.
    - apply all_below_guarded. apply describe_optional_below. apply IHt.
    - apply all_below_guarded. apply describe_array_below. apply IHet.
    - apply all_below_guarded. apply describe_hash_below; [apply IHk|apply IHv].
    - apply all_below_guarded. apply describe_tuple_below. apply Forall_map.
      eapply Forall_impl; [|exact IHts]. intros y Hy. apply Hy.
    - apply all_below_guarded. apply describe_struct_below. apply Forall_map.
      eapply Forall_impl; [|exact IHms]. intros [n [k v]] Hv. cbn [snd] in Hv. split; cbn [fst snd].
      + destruct k; apply idesc_keeps.
      + apply Hv.
    - apply all_below_guarded.
      assert (Hv : all_below p (describe_variant rx (is_oopt o) (map (fun vt => (xres vt, xidesc vt (xorig vt))) ts) a p)).
      { apply describe_variant_below. apply Forall_map. eapply Forall_impl; [|exact IHts]. intros y Hy. cbn [snd]. apply Hy. }
      destruct o; [exact Hv|exact Hv|apply alias_single_below; exact Hv].
  Qed.

  (* emptiness is decided by the guard of internalDescribe at the top: no induction *)
  Lemma idesc_al_empty_iff t a p : idesc_al rx teq t a p = Ok [] <-> asg rx true t a = true.
  Proof.
    destruct t; cbn [idesc_al]; try apply idesc_empty_iff; apply guarded_empty_iff; exact teq.
  Qed.

  Lemma xidesc_empty_iff x o a p : xidesc x o a p = Ok [] <-> xasg rx x a = true.
  Proof.
    unfold xasg. destruct x; cbn [DescribeNested.xidesc]; try (apply guarded_empty_iff; exact teq).
    cbn [xres]. destruct o; [apply idesc_empty_iff|apply idesc_empty_iff|apply idesc_al_empty_iff].
  Qed.

  Theorem xdescribe_total e a p : exists ms, xdescribe rx teq e a p = Ok ms.
  Proof. apply xidesc_total. Qed.

  Theorem xdescribe_empty_iff e a p : xdescribe rx teq e a p = Ok [] <-> xasg rx e a = true.
  Proof. apply xidesc_empty_iff. Qed.

  Theorem xdescribe_below e a p ms : xdescribe rx teq e a p = Ok ms -> Forall (below p) ms.
  Proof. apply xidesc_keeps. Qed.

  Theorem xdescribe_names_subject e a subj p ms :
    xdescribe rx teq e a (subj :: p) = Ok ms -> Forall (fun m => hd_error (snd m) = Some subj) ms.
  Proof.
    intros E. eapply Forall_impl; [|apply (xdescribe_below _ _ _ _ E)].
    intros [c q] [r Hr]. cbn in Hr |- *. subst q. reflexivity.
  Qed.

  (* the model agrees with the models it extends: an alias-free lattice type, and a chain of aliases at the top *)
  Lemma xdescribe_lattice t a p : xdescribe rx teq (XTy t) a p = describe rx teq t a p.
  Proof. unfold xdescribe, describe. cbn [xorig DescribeNested.xidesc]. destruct (is_optional_ty t); reflexivity. Qed.
End NestedProofs.

(* ---- the model extends the named-type model of DescribeHist.v: a chain of aliases at the top ---- *)
Fixpoint x_of_nty (e : nty) : xty :=
  match e with NTy t => XTy t | NAlias _ r => XAlias (x_of_nty r) end.

Section NestedExtends.
  Variable rx : str -> str -> bool.
  Variable teq : ty -> ty -> bool.

  Lemma xres_of_nty e : xres (x_of_nty e) = nresolve e.
  Proof. induction e as [t|n r IH]; cbn [x_of_nty xres nresolve]; auto. Qed.

  Lemma xidesc_of_nty_alias : forall n r a p, xidesc rx teq (x_of_nty (NAlias n r)) OAlias a p = ndesc rx teq (NAlias n r) a p.
  Proof.
    intros n r. revert n. induction r as [t|n2 r2 IH]; intros n a p.
    - reflexivity.
    - change (x_of_nty (NAlias n (NAlias n2 r2))) with (XAlias (x_of_nty (NAlias n2 r2))).
      cbn [DescribeNested.xidesc ndesc]. rewrite IH. cbn [xres nresolve]. rewrite (xres_of_nty (NAlias n2 r2)). reflexivity.
  Qed.

  Theorem xdescribe_of_nty e a p : xdescribe rx teq (x_of_nty e) a p = ndescribe rx teq e a p.
  Proof.
    destruct e as [t|n r].
    - apply xdescribe_lattice.
    - unfold xdescribe, ndescribe. cbn [xorig x_of_nty].
      change (XAlias (x_of_nty r)) with (x_of_nty (NAlias n r)). apply xidesc_of_nty_alias.
  Qed.
End NestedExtends.

(* ---- histories over expected types with nested aliases ---- *)
Section NestedHistProofs.
  Variable rx : str -> str -> bool.
  Variable teq : ty -> ty -> bool.

  Theorem xrun_alone (w : xworld) cs : xrun rx teq w [] cs = map (xalone rx teq w) cs.
  Proof. apply hrun_alone. Qed.

  Lemma xalone_names_subject (w : xworld) c :
    Forall (fun m => hd_error (snd m) = Some (subject_elem (call_name c))) (answer_mismatches (xalone rx teq w c)).
  Proof.
    unfold xalone, alone.
    assert (D : forall name e a ms, xdescribe_mismatch rx teq name e a = Ok ms ->
                Forall (fun m => hd_error (snd m) = Some (subject_elem name)) ms).
    { intros name e a ms H. unfold xdescribe_mismatch, subject_path in H. eapply xdescribe_names_subject; eauto. }
    assert (TM : forall name e a, Forall (fun m => hd_error (snd m) = Some (subject_elem name))
                 (answer_mismatches (AOut (tm_error xty ty (xdescribe_mismatch rx teq) name e a)))).
    { intros name e a. unfold tm_error. destruct (xdescribe_mismatch rx teq name e a) as [ms|s] eqn:H; cbn; [eauto|constructor]. }
    assert (ME : forall name e a, Forall (fun m => hd_error (snd m) = Some (subject_elem name))
                 (answer_mismatches (AOut (m_error xty ty (xdescribe_mismatch rx teq) name e a)))).
    { intros name e a. unfold m_error. destruct (xdescribe_mismatch rx teq name e a) as [ms|s] eqn:H; cbn; [|constructor].
      destruct ms as [|m ms]; [constructor; [reflexivity|constructor]|eauto]. }
    destruct c as [name e a|p e a|p e a|p e v|p e v]; cbn [step call_name fst].
    - destruct (nth_error (w_es w) e) as [te|]; [|constructor]. destruct (nth_error (w_as w) a) as [ta|]; [|constructor].
      cbn. destruct (xdescribe_mismatch rx teq name te ta) as [ms|s] eqn:H; [eauto|constructor].
    - destruct (nth_error (w_es w) e) as [te|]; [|constructor]. destruct (nth_error (w_as w) a) as [ta|]; [|constructor].
      cbn [fst]. destruct (xasg rx te ta); [constructor|apply TM].
    - destruct (nth_error (w_es w) e) as [te|]; [|constructor]. destruct (nth_error (w_as w) a) as [ta|]; [|constructor].
      cbn [fst]. apply TM.
    - destruct (nth_error (w_es w) e) as [te|]; [|constructor]. destruct (nth_error (w_vs w) v) as [tv|]; [|constructor].
      destruct (xinst rx te (fst tv)); [constructor|]. cbn. apply ME.
    - destruct (nth_error (w_es w) e) as [te|]; [|constructor]. destruct (nth_error (w_vs w) v) as [tv|]; [|constructor].
      cbn. apply ME.
  Qed.

  Theorem xrun_names_its_subject (w : xworld) cs i c ans :
    nth_error cs i = Some c -> nth_error (xrun rx teq w [] cs) i = Some ans ->
    Forall (fun m => hd_error (snd m) = Some (subject_elem (call_name c))) (answer_mismatches ans).
  Proof.
    intros Hc Ha. unfold xrun in Ha. rewrite (nth_error_hrun _ _ _ _ _ _ _ w cs i c Hc) in Ha.
    injection Ha as <-. apply xalone_names_subject.
  Qed.

  Theorem xrun_describe_empty_iff (w : xworld) cs i name e a te ta :
    nth_error cs i = Some (CDescribe name e a) -> nth_error (w_es w) e = Some te -> nth_error (w_as w) a = Some ta ->
    exists ms, nth_error (xrun rx teq w [] cs) i = Some (ADesc (Ok ms)) /\ (ms = [] <-> xasg rx te ta = true).
  Proof.
    intros Hc He Ha. unfold xrun. rewrite (nth_error_hrun _ _ _ _ _ _ _ w cs i _ Hc).
    unfold alone. cbn [step]. rewrite He, Ha. cbn [fst].
    destruct (xdescribe_total rx teq te ta (subject_path name)) as [ms E].
    exists ms. unfold xdescribe_mismatch. rewrite E. split; [reflexivity|].
    rewrite <- (xdescribe_empty_iff rx teq te ta (subject_path name)). rewrite E. split; congruence.
  Qed.

  Theorem xrun_assert_instance (w : xworld) cs i p e v te tv :
    nth_error cs i = Some (CAssertInstance p e v) -> nth_error (w_es w) e = Some te -> nth_error (w_vs w) v = Some tv ->
    (xinst rx te (fst tv) = true /\ nth_error (xrun rx teq w [] cs) i = Some (AOut (Ok Returns))) \/
    (xinst rx te (fst tv) = false /\
     exists m ms, nth_error (xrun rx teq w [] cs) i = Some (AOut (Ok (Raises TypeMismatchIssue (m :: ms))))).
  Proof.
    intros Hc He Hv. unfold xrun. rewrite (nth_error_hrun _ _ _ _ _ _ _ w cs i _ Hc).
    unfold alone. cbn [step]. rewrite He, Hv.
    destruct (xinst rx te (fst tv)) eqn:I; [left; split; reflexivity|right; split; [reflexivity|]].
    cbn. unfold m_error, xdescribe_mismatch.
    destruct (xdescribe_total rx teq te (snd tv) (subject_path (get_prefix p))) as [ms E]. rewrite E. cbn.
    destruct ms as [|m ms]; eauto.
  Qed.
End NestedHistProofs.
