(* LatticeUnfold.v — the one-level unfolding of `asg` as a NON-recursive function of an oracle G for
   the nested calls (open recursion), and the proof that `asg` is its fixed point.  All later proofs
   use `asg_unfold` and never look inside the nested fixpoint again. *)
From Coq Require Import ZArith NArith Bool List.
From PcoreV Require Import Model.Base Model.Ty Model.Lattice.
Import ListNotations.
Open Scope Z_scope.

Section Unfold.
  Variable rx : str -> str -> bool.
  Variable hs : bool.
  Variable G : ty -> ty -> bool.

  Definition tpairs :=
    fix pairs (ts : list ty) (os : list ty) {struct ts} : bool :=
      match ts, os with
      | [], _ => true
      | _, [] => true
      | [t], o :: os' => G t o && forallb (G t) os'
      | t :: ts', [o] => G t o && forallb (fun t' => G t' o) ts'
      | t :: ts', o :: os' => G t o && pairs ts' os'
      end.

  (* a.IsAssignable(b) *)
  Definition recv (a b : ty) : bool :=
    match a with
    | TAny | TUnit => true
    | TUndef => is_undef b
    | TDefault => match b with TDefault => true | _ => false end
    | TBoolean v =>
        match b with
        | TBoolean w => match v with None => true | Some x => option_eqb Bool.eqb (Some x) w end
        | _ => false
        end
    | TInteger lo hi => match b with TInteger lo' hi' => size_sub lo hi lo' hi' | _ => false end
    | TFloat lo hi => match b with TFloat lo' hi' => size_sub lo hi lo' hi' | _ => false end
    | TNumeric => match b with TInteger _ _ | TFloat _ _ | TNumeric => true | _ => false end
    | TScalar =>
        match b with
        | TScalar | TScalarData => true
        | _ => flat FString b || flat FNumeric b || flat FBoolean b || flat FRegexp b
        end
    | TScalarData =>
        match b with
        | TScalarData => true
        | _ => flat FString b || flat FInteger b || flat FBoolean b || flat FFloat b
        end
    | TString =>
        match b with TString | TStringSz _ _ | TStringVal _ | TEnum _ _ | TPattern _ => true | _ => false end
    | TStringSz lo hi =>
        match b with
        | TStringVal s => in_size lo hi (rune_count s)
        | TStringSz lo' hi' => size_sub lo hi lo' hi'
        | TEnum _ vs => negb (Nat.eqb (length vs) 0) && forallb (fun s => in_size lo hi (rune_count s)) vs
        | _ => false
        end
    | TStringVal s => match b with TStringVal s' => str_eqb s s' | _ => false end
    | TEnum ci vs =>
        match vs with
        | [] => match b with TString | TStringSz _ _ | TStringVal _ | TEnum _ _ | TPattern _ => true | _ => false end
        | _ =>
          match b with
          | TStringVal s => enum_inst ci vs s
          | TEnum ci' vs' =>
              negb (Nat.eqb (length vs') 0) && (ci || negb ci') && forallb (enum_inst ci vs) vs'
          | _ => false
          end
        end
    | TPattern rxs =>
        match rxs with
        | [] =>      (* patterntype.go:97: no patterns = whatever String accepts *)
            match b with TString | TStringSz _ _ | TStringVal _ | TEnum _ _ | TPattern _ => true | _ => false end
        | _ =>
            match b with
            | TPattern rxs' => negb (Nat.eqb (length rxs') 0) && forallb (fun p => mem_str p rxs) rxs'
            | TStringVal s => matches_any rx rxs s
            | TEnum ci vs => negb ci && negb (Nat.eqb (length vs) 0) && forallb (matches_any rx rxs) vs
            | _ => false
            end
        end
    | TRegexp p => match b with TRegexp p' => str_eqb p [] || str_eqb p p' | _ => false end
    | TBinary => match b with TBinary => true | _ => false end
    | TCollection lo hi =>
        match b with
        | TCollection lo' hi' | TArray _ lo' hi' | THash _ _ lo' hi' | TTuple _ _ lo' hi' => size_sub lo hi lo' hi'
        | TStruct ms => size_sub lo hi (struct_required ms) (zlen ms)
        | _ => false
        end
    | TArray e lo hi =>
        match b with
        | TArray e' lo' hi' => size_sub lo hi lo' hi' && ((hi' <=? 0) || G e e')
        | TTuple ts _ lo' hi' =>
            size_sub lo hi lo' hi' &&
            ((hi' <=? 0) ||
             match ts with
             | [] => G e TAny
             | _ => forallb (G e) ts
             end)
        | _ => false
        end
    | THash k v lo hi =>
        match b with
        | THash k' v' lo' hi' => size_sub lo hi lo' hi' && ((hi' <=? 0) || (G k k' && G v v'))
        | TStruct ms =>
            size_sub lo hi (struct_required ms) (zlen ms) &&
            forallb (fun m => G k (actual_key (fst (snd m))) && G v (snd (snd m))) ms
        | _ => false
        end
    | TTuple ts _ lo hi =>
        match b with
        | TArray e' lo' hi' => size_sub lo hi lo' hi' && ((hi' <=? 0) || forallb (fun t => G t e') ts)
        | TTuple os _ lo' hi' =>
            size_sub lo hi lo' hi' &&
            match ts with
            | [] => true
            | _ => (hi' <=? 0) || match os with [] => forallb (fun t => G t TAny) ts | _ => tpairs ts os end
            end
        | _ => false
        end
    | TStruct ms =>
        match b with
        | TStruct ms' =>
            forallb (fun m => match find_member (fst m) ms' with
                              | None => key_optional (fst (snd m))
                              | Some (k', v') => G (fst (snd m)) k' && G (snd (snd m)) v'
                              end) ms &&
            Z.eqb (zlen (filter (fun m => match find_member (fst m) ms' with Some _ => true | None => false end) ms))
                  (zlen ms')
        | THash k' v' lo' hi' =>
            hs &&
            forallb (fun m => key_optional (fst (snd m)) || G (snd (snd m)) v') ms &&
            (Z.eqb (struct_required ms) 0 || flat FString k') &&
            size_sub (struct_required ms) (zlen ms) lo' hi'
        | _ => false
        end
    | TVariant ts => existsb (fun t => G t b) ts
    | TOptional t => flat FUndef b || G t b
    | TNotUndef t => negb (nullable b) && G t b
    | TType t => match b with TType t' => G t t' | _ => false end
    | TSensitive t => match b with TSensitive t' => G t t' | _ => false end
    | TOther _ => false
    end.

  (* GuardedIsAssignable(a, b) *)
  Definition gstep (a b : ty) : bool :=
    if is_any a then true else
    match b with
    | TUnit => true
    | TNotUndef nt => if G a nt then true else if nullable nt then recv a b else false
    | TOptional ot => if nullable a then G a ot else false
    | TVariant ts => forallb (G a) ts
    | _ => recv a b
    end.
End Unfold.

Lemma asg_unfold rx hs a b : asg rx hs a b = gstep rx hs (asg rx hs) a b.
Proof. destruct a; destruct b; reflexivity. Qed.
