(* C06: an answer of the assignability test of the printer model (Model/ResolveAlias.v asg / asg_left) does not depend on
   the depth bound: once the test answers true / false / raises with some fuel, it gives the same answer with more. *)
From Coq Require Import List Arith Bool Lia.
Import ListNotations.
From PcoreV Require Import Model.ResolveAlias.

Local Arguments Nat.eqb : simpl never.
Local Arguments same_ptr : simpl never.
Local Arguments aty_eqb : simpl never.
Local Arguments seen_pair : simpl never.
Local Arguments resolved_of : simpl never.

Lemma same_shape_unk r : same_shape_result r <> TUnk -> r = TT.
Proof. destruct r; cbn [same_shape_result]; congruence. Qed.

Lemma asg_unfold st f g a b :
  asg (S f) st g a b = ltac:(let t := eval cbn [asg] in (asg (S f) st g a b) in exact t).
Proof. reflexivity. Qed.

Lemma asg_left_unfold st f g a b :
  asg_left (S f) st g a b = ltac:(let t := eval cbn [asg_left] in (asg_left (S f) st g a b) in exact t).
Proof. reflexivity. Qed.

Ltac step IHa :=
  match goal with
  | Hne : context [asg ?f ?st ?g ?x ?y] |- context [asg (S ?f) ?st ?g ?x ?y] =>
    let E := fresh "E" in
    destruct (asg f st g x y) eqn:E;
    [ rewrite (IHa g x y _ E ltac:(discriminate))
    | rewrite (IHa g x y _ E ltac:(discriminate))
    | rewrite (IHa g x y _ E ltac:(discriminate))
    | exfalso; apply Hne; reflexivity ]
  end.

Lemma asg_mono st : forall f,
  (forall g a b r, asg f st g a b = r -> r <> TUnk -> asg (S f) st g a b = r) /\
  (forall g a b r, asg_left f st g a b = r -> r <> TUnk -> asg_left (S f) st g a b = r).
Proof.
  induction f as [|f [IHa IHl]].
  - split; intros g a b r H Hne; cbn [asg asg_left] in H; congruence.
  - split.
    + intros g a b r H Hne. subst r.
      rewrite (asg_unfold st (S f) g a b). rewrite (asg_unfold st f g a b) in Hne |- *.
      destruct (same_ptr a b); [reflexivity|]. cbn zeta in *.
      assert (forall r1 r2 : tri, (r1 <> TUnk -> r2 = r1) ->
                (if aty_eqb a b then same_shape_result r1 else r1) <> TUnk ->
                (if aty_eqb a b then same_shape_result r2 else r2) = (if aty_eqb a b then same_shape_result r1 else r1)) as Hw.
      { intros r1 r2 H12 Hn. destruct (aty_eqb a b).
        - pose proof (same_shape_unk _ Hn) as ->. rewrite (H12 ltac:(discriminate)). reflexivity.
        - rewrite (H12 Hn). reflexivity. }
      apply Hw; [|exact Hne]. clear Hw Hne. intros Hne.
      destruct b as [|tb]; [apply IHl; [reflexivity|exact Hne]|].
      destruct tb as [|m|m|k x|k x y|]; try (apply IHl; [reflexivity|exact Hne]).
      * destruct (seen_pair g a (AT (TAlias m))); [reflexivity|].
        destruct (resolved_of st m); [|reflexivity]. apply IHa; [reflexivity|exact Hne].
      * destruct k; try (apply IHl; [reflexivity|exact Hne]).
        -- step IHa; try reflexivity. apply IHa; [reflexivity|exact Hne].
        -- step IHa; try reflexivity.
           step IHa; try reflexivity. apply IHl; [reflexivity|exact Hne].
      * destruct k; try (apply IHl; [reflexivity|exact Hne]).
        step IHa; try reflexivity. apply IHa; [reflexivity|exact Hne].
    + intros g a b r H Hne. subst r.
      rewrite (asg_left_unfold st (S f) g a b). rewrite (asg_left_unfold st f g a b) in Hne |- *.
      destruct a as [|ta]; [reflexivity|].
      destruct ta as [|n|n|k x|k x y|]; try reflexivity.
      * destruct (seen_pair g (AT (TAlias n)) b); [reflexivity|].
        destruct (resolved_of st n); [|reflexivity]. apply IHa; [reflexivity|exact Hne].
      * destruct k.
        -- destruct b as [|[|m|m|k' y|k' y z|]]; try reflexivity; destruct k'; try reflexivity.
           ++ apply IHa; [reflexivity|exact Hne].
           ++ step IHa; try reflexivity. apply IHa; [reflexivity|exact Hne].
        -- step IHa; try reflexivity. apply IHa; [reflexivity|exact Hne].
        -- step IHa; try reflexivity. apply IHa; [reflexivity|exact Hne].
        -- destruct b as [|[|m|m|k' y|k' y z|]]; try reflexivity; destruct k'; try reflexivity.
           apply IHa; [reflexivity|exact Hne].
      * destruct k.
        -- destruct b as [|[|m|m|k' x'|k' x' y'|]]; try reflexivity; destruct k'; try reflexivity.
           step IHa; try reflexivity. apply IHa; [reflexivity|exact Hne].
        -- destruct b as [|[|m|m|k' x'|k' x' y'|]]; try reflexivity; destruct k'; try reflexivity.
           step IHa; try reflexivity. apply IHa; [reflexivity|exact Hne].
        -- step IHa; try reflexivity. apply IHa; [reflexivity|exact Hne].
Qed.

(* any larger depth bound gives the same answer *)
Lemma asg_stable st g a b r : forall d f, asg f st g a b = r -> r <> TUnk -> asg (d + f) st g a b = r.
Proof.
  induction d as [|d IH]; intros f H Hne; [exact H|].
  cbn [Nat.add]. apply (proj1 (asg_mono st (d + f))); [apply IH; assumption | exact Hne].
Qed.
