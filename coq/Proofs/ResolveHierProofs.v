(* ResolveHierProofs.v — lemmas about Model/ResolveHier.v (equality section of Object types with ancestors,
   navigation of Like types). *)
From Coq Require Import ZArith Arith Bool List Lia.
From PcoreV Require Import Model.Base Model.ResolveHier.
Import ListNotations.

Local Arguments Nat.ltb : simpl never.
Local Open Scope nat_scope.

(* ---- findEqualityDefiner --------------------------------------------------------------------------------------- *)

Lemma definer_loop_spec : forall fuel cur a idx,
  cur <> [] -> length cur <= fuel ->
  definer_loop fuel cur a idx = HDefiner (idx + leading_including (tl cur) a).
Proof.
  induction fuel as [|f IH]; intros cur a idx Hne Hlen.
  - destruct cur as [|x up]; [congruence | cbn [length] in Hlen; lia].
  - destruct cur as [|x up]; [congruence|].
    cbn [definer_loop tl].
    destruct up as [|y up'].
    + cbn [leading_including]. f_equal. lia.
    + cbn [leading_including].
      destruct (names_includes (equality_attributes (y :: up')) a) eqn:Hinc.
      * rewrite IH; [| discriminate | cbn [length] in *; lia].
        cbn [tl]. f_equal. lia.
      * f_equal. lia.
Qed.

Lemma leading_including_le : forall anc a, leading_including anc a <= length anc.
Proof.
  induction anc as [|x up IH]; intros a; cbn [leading_including length]; [lia|].
  destruct (names_includes (equality_attributes (x :: up)) a); [specialize (IH a)|]; lia.
Qed.

Lemma find_equality_definer_spec : forall t anc a,
  find_equality_definer (t :: anc) a = HDefiner (leading_including anc a).
Proof.
  intros t anc a. unfold find_equality_definer.
  rewrite definer_loop_spec; [reflexivity | discriminate | lia].
Qed.

(* the definer is the parent exactly when the grandparent's equality does not include the attribute; it is the
   type itself only when the parent's does not (the caller never asks then) *)
Lemma leading_including_parent : forall p up a,
  names_includes (equality_attributes (p :: up)) a = true ->
  1 <= leading_including (p :: up) a.
Proof. intros p up a H. cbn [leading_including]. rewrite H. lia. Qed.

(* ---- the loop of seeded change C06-m7 spins --------------------------------------------------------------------- *)

Lemma definer_m7_loop_spins : forall fuel anc a tp pidx,
  anc <> [] -> names_includes (equality_attributes anc) a = true ->
  definer_m7_loop fuel anc a tp anc pidx = HOutOfFuel.
Proof.
  induction fuel as [|f IH]; intros anc a tp pidx Hne Hinc; [reflexivity|].
  cbn [definer_m7_loop]. destruct anc as [|x up]; [congruence|].
  rewrite Hinc. apply IH; [discriminate | exact Hinc].
Qed.

(* the attribute is in the equality of the parent and of the grandparent: no amount of fuel suffices *)
Lemma definer_m7_spins : forall fuel p1 p2 up a,
  names_includes (equality_attributes (p1 :: p2 :: up)) a = true ->
  names_includes (equality_attributes (p2 :: up)) a = true ->
  definer_m7 fuel (p1 :: p2 :: up) a = HOutOfFuel.
Proof.
  intros fuel p1 p2 up a H1 H2. unfold definer_m7. cbn [tl].
  destruct fuel as [|f]; [reflexivity|].
  cbn [definer_m7_loop]. rewrite H2.
  apply definer_m7_loop_spins; [discriminate | exact H1].
Qed.

(* one level up the changed loop answers as the code does (the suite and every earlier input stay quiet) *)
Lemma definer_m7_agrees_one_level : forall fuel t p1 up a,
  names_includes (equality_attributes up) a = false \/ up = [] ->
  definer_m7 (S fuel) (p1 :: up) a = HDefiner 1 /\
  (names_includes (equality_attributes (p1 :: up)) a = true ->
   find_equality_definer (t :: p1 :: up) a = HDefiner 1).
Proof.
  intros fuel t p1 up a H. split.
  - unfold definer_m7. cbn [tl definer_m7_loop].
    destruct up as [|p2 up']; [reflexivity|].
    destruct H as [H|H]; [rewrite H; reflexivity | discriminate].
  - intros Hinc. rewrite find_equality_definer_spec. cbn [leading_including]. rewrite Hinc.
    destruct up as [|p2 up']; [reflexivity|].
    cbn [leading_including]. destruct H as [H|H]; [rewrite H; reflexivity | discriminate].
Qed.

(* ---- the equality section ----------------------------------------------------------------------------------------- *)

Definition q_fine (r : qres) : Prop := r <> QFault /\ r <> QOutOfFuel.

Lemma equality_loop_total : forall t anc names, q_fine (equality_loop t anc names).
Proof.
  intros t anc names. induction names as [|n rest IH]; cbn [equality_loop].
  - split; discriminate.
  - destruct (match find_member false (lv_members t) n with
              | Some k => Some k
              | None => match find_member true (lv_members t) n with
                        | Some k => Some k
                        | None => parent_member anc n
                        end
              end) as [[| |]|]; try (split; discriminate).
    destruct (match anc with [] => false | _ :: _ => names_includes (equality_attributes anc) n end); [|exact IH].
    rewrite find_equality_definer_spec.
    pose proof (leading_including_le anc n) as Hle.
    destruct (nth_error (t :: anc) (leading_including anc n)) eqn:Hn.
    + split; discriminate.
    + apply nth_error_None in Hn. cbn [length] in Hn. lia.
Qed.

Lemma init_equality_total : forall t anc, q_fine (init_equality t anc).
Proof.
  intros t anc. unfold init_equality. destruct (lv_equality t); [apply equality_loop_total | split; discriminate].
Qed.

Lemma resolve_chain_total : forall chain, q_fine (resolve_chain chain).
Proof.
  induction chain as [|t anc IH]; cbn [resolve_chain]; [split; discriminate|].
  destruct (resolve_chain anc); try exact IH; try (split; discriminate).
  apply init_equality_total.
Qed.

(* the reading of the redefinition error: the name worded is that of the ancestor leading_including levels up *)
Lemma equality_loop_redefined : forall t anc n rest,
  find_member false (lv_members t) n = None -> find_member true (lv_members t) n = None ->
  parent_member anc n = Some MkAttr ->
  names_includes (equality_attributes anc) n = true -> anc <> [] ->
  exists lv, nth_error (t :: anc) (leading_including anc n) = Some lv /\
             1 <= leading_including anc n /\
             equality_loop t anc (n :: rest) = QRedefined (lv_name lv).
Proof.
  intros t anc n rest Ha Hf Hp Hinc Hne.
  destruct anc as [|p up]; [congruence|].
  pose proof (leading_including_le (p :: up) n) as Hle.
  destruct (nth_error (t :: p :: up) (leading_including (p :: up) n)) as [lv|] eqn:Hn.
  - exists lv. split; [reflexivity|]. split; [apply leading_including_parent; exact Hinc|].
    cbn [equality_loop]. rewrite Ha, Hf, Hp, Hinc, find_equality_definer_spec, Hn. reflexivity.
  - apply nth_error_None in Hn. cbn [length] in *. lia.
Qed.

(* ---- TupleType.At -------------------------------------------------------------------------------------------------- *)

Lemma tuple_at_no_fault : forall ts max i, tuple_at ts max i <> TAFault.
Proof.
  intros ts max i. unfold tuple_at.
  destruct (0 <=? i)%Z eqn:H0; [|discriminate].
  destruct (i <? Z.of_nat (length ts))%Z eqn:H1.
  - destruct (nth_error ts (Z.to_nat i)) eqn:Hn; [discriminate|].
    apply nth_error_None in Hn. apply Z.leb_le in H0. apply Z.ltb_lt in H1. lia.
  - destruct (negb (length ts =? 0)) eqn:H2; cbn [andb]; [|discriminate].
    destruct (i <? max)%Z; [|discriminate].
    destruct (nth_error ts (length ts - 1)) eqn:Hn; [discriminate|].
    apply nth_error_None in Hn. apply negb_true_iff in H2. apply Nat.eqb_neq in H2. lia.
Qed.

(* the finding fixed by 820b5a6: the default Tuple (no types, unbounded) asked for its first element *)
Lemma tuple_at_unfixed_faults : tuple_at_unfixed [] max_int64 0 = TAFault.
Proof. reflexivity. Qed.

Lemma tuple_at_unfixed_agrees : forall ts max i, ts <> [] -> tuple_at_unfixed ts max i = tuple_at ts max i.
Proof.
  intros ts max i Hne. unfold tuple_at_unfixed, tuple_at.
  destruct ts as [|t ts']; [congruence|].
  cbn [length Nat.eqb negb andb]. replace (S (length ts') - 1) with (length ts') by lia. reflexivity.
Qed.

(* ---- navigation of a Like type ---------------------------------------------------------------------------------------- *)

Lemma navigate_type_fine : forall t m idx,
  navigate_type t m idx <> NFault /\ navigate_type t m idx <> NFound VGoNil.
Proof.
  induction t as [ms|ms|ts max| |r IH|ms]; intros m idx; cbn [navigate_type].
  - destruct (lassoc ms m) as [[[|] a]|]; split; discriminate.
  - destruct (lassoc ms m); split; discriminate.
  - destruct idx as [n|]; [|split; discriminate].
    pose proof (tuple_at_no_fault ts max n) as Hat.
    destruct (tuple_at ts max n); [split; discriminate | split; discriminate | congruence].
  - split; discriminate.
  - apply IH.
  - destruct (lassoc ms m) as [[v|]|]; split; discriminate.
Qed.

Lemma like_path_no_fault : forall parts v, v <> VGoNil -> like_path v parts <> RFault.
Proof.
  induction parts as [|[m idx] rest IH]; intros v Hv; cbn [like_path].
  - destruct v; discriminate.
  - destruct v as [| |t]; [congruence | cbn [navigate]; discriminate |].
    cbn [navigate]. pose proof (navigate_type_fine t m idx) as [Hf Hn].
    destruct (navigate_type t m idx) as [v'| | |]; try discriminate; [|congruence].
    apply IH. intros ->. congruence.
Qed.

Lemma like_resolve_no_fault : forall base parts, like_resolve base parts <> RFault.
Proof. intros. apply like_path_no_fault. discriminate. Qed.

Lemma resolved_parent_no_fault : forall t, resolved_parent t <> LPFault.
Proof. induction t as [ms|ms|ts max| |r IH|ms]; cbn [resolved_parent]; try discriminate. exact IH. Qed.

Lemma like_parent_no_fault : forall base parts, like_parent base parts <> LPFault.
Proof.
  intros base parts. unfold like_parent. pose proof (like_resolve_no_fault base parts) as H.
  destruct (like_resolve base parts) as [t| | |]; try discriminate; [apply resolved_parent_no_fault | congruence].
Qed.

(* an alias that is not resolved yet at the end of a chain of aliases *)
Fixpoint spine_unresolved (t : lty) : bool :=
  match t with
  | LAliasUnresolved => true
  | LAlias r => spine_unresolved r
  | _ => false
  end.

Lemma navigate_unresolved : forall t m idx, spine_unresolved t = true -> navigate_type t m idx = NUnresolvedAlias.
Proof.
  induction t; intros m idx H; cbn [spine_unresolved] in H; try discriminate; cbn [navigate_type]; [reflexivity | auto].
Qed.

(* navigating into an alias that has no resolved type yet is the reported error PCORE_UNRESOLVED_TYPE *)
Lemma like_unresolved_alias : forall t p ps, spine_unresolved t = true -> like_resolve t (p :: ps) = RUnresolvedAlias.
Proof.
  intros t [m idx] ps H. unfold like_resolve. cbn [like_path navigate]. rewrite navigate_unresolved by exact H. reflexivity.
Qed.

(* seeded change C06-m8 (the field instead of the accessor) dereferences nil exactly there, and agrees elsewhere *)
Lemma navigate_m8_faults : forall t m idx, spine_unresolved t = true -> navigate_type_m8 t m idx = NFault.
Proof.
  induction t; intros m idx H; cbn [spine_unresolved] in H; try discriminate; cbn [navigate_type_m8]; [reflexivity | auto].
Qed.

Lemma navigate_m8_agrees : forall t m idx, spine_unresolved t = false -> navigate_type_m8 t m idx = navigate_type t m idx.
Proof.
  induction t; intros m idx H; cbn [spine_unresolved] in H; try discriminate; cbn [navigate_type_m8 navigate_type]; auto.
Qed.
