(* LexerColumns.v — the text of a token never has more characters than the reader's column after it. *)
From Coq Require Import ZArith NArith Bool List Lia.
From PcoreV Require Import Model.Base Model.Lexer Proofs.LexerProofs.
Import ListNotations.
Open Scope Z_scope.

Local Arguments N.eqb : simpl never.
Local Arguments N.ltb : simpl never.
Local Arguments N.leb : simpl never.
Local Arguments Z.add : simpl never.
Local Arguments Z.sub : simpl never.
Local Arguments skipn : simpl never.
Local Arguments encode_rune : simpl never.
Local Arguments decode_rune : simpl never.

(* ------------------------------------------------------------------------------------------------ *)
(* the text of a token has at most as many characters as the reader's column after it: the parse error location
   `column - characters of the last token` (parser.go:149) is never negative *)

Lemma rd_next_col rd r rd' : rd_next rd = (r, rd') ->
  (r <> 10%N -> r_col rd <= r_col rd') /\
  (r <> 10%N -> r <> 0%N -> r_col rd' = r_col rd + 1) /\
  (0 <= r_col rd -> 0 <= r_col rd').
Proof.
  unfold rd_next. destruct rd as [rest past l c]; cbn [r_rest r_past r_line r_col].
  destruct rest as [|b t].
  - destruct past; intros E; inversion E; subst; cbn [r_col]; repeat split; intros; try lia; congruence.
  - destruct (N.ltb b 128).
    + destruct (N.eqb_spec b 10) as [->|Hn]; intros E; inversion E; subst; cbn [r_col];
        repeat split; intros; try lia; congruence.
    + destruct (decode_rune (b :: t)) as [c0 size]. intros E; inversion E; subst; cbn [r_col].
      repeat split; intros; lia.
Qed.

Lemma rd_next_peek rd : fst (rd_next rd) = rd_peek rd.
Proof.
  unfold rd_next, rd_peek. destruct (r_rest rd) as [|b t].
  - destruct (r_past rd); reflexivity.
  - destruct (N.ltb b 128).
    + destruct (N.eqb b 10); reflexivity.
    + destruct (decode_rune (b :: t)); reflexivity.
Qed.

(* buf was written rune by rune, not more runes than the reader's column *)
Definition binv (buf : str) (rd : reader) : Prop :=
  exists rs, buf = flat_map encode_rune rs /\ Z.of_nat (length rs) <= r_col rd.

Lemma binv_nil rd : 0 <= r_col rd -> binv [] rd.
Proof. intros H. exists []. cbn. split; [reflexivity|lia]. Qed.

Lemma binv_app buf rd r rd' : binv buf rd -> r_col rd + 1 <= r_col rd' -> binv (buf ++ encode_rune r) rd'.
Proof.
  intros (rs & -> & Hl) Hc. exists (rs ++ [r]). rewrite flat_map_app. cbn [flat_map]. rewrite app_nil_r.
  split; [reflexivity|]. rewrite app_length. cbn [length]. lia.
Qed.

Lemma binv_mono buf rd rd' : binv buf rd -> r_col rd <= r_col rd' -> binv buf rd'.
Proof. intros (rs & -> & Hl) Hc. exists rs. split; [reflexivity|lia]. Qed.

Lemma binv_count buf rd : binv buf rd -> rune_count buf <= r_col rd.
Proof. intros (rs & -> & Hl). rewrite rune_count_flat_map. exact Hl. Qed.

Definition bres {A} (proj : A -> str) (res : lres A) : Prop :=
  match res with
  | LOk a rd' => binv (proj a) rd'
  | _ => True
  end.

Lemma bres_lmap {A B} (f : A -> B) (pa : A -> str) (pb : B -> str) (res : lres A) :
  (forall a, pb (f a) = pa a) -> bres pa res -> bres pb (lmap f res).
Proof. intros H. destruct res; cbn; auto. rewrite H. auto. Qed.

Local Open Scope N_scope.

Lemma is_digit_nz r : is_digit r = true -> r <> 0 /\ r <> 10.
Proof. unfold is_digit, in_rng. intros H. apply andb_prop in H. destruct H as [H _]. apply N.leb_le in H. lia. Qed.

Lemma is_hex_nz r : is_hex r = true -> r <> 0 /\ r <> 10.
Proof.
  unfold is_hex, is_digit, in_rng. intros H.
  repeat (apply orb_prop in H; destruct H as [H|H]); apply andb_prop in H; destruct H as [H _]; apply N.leb_le in H; lia.
Qed.

Lemma is_upper_nz r : is_upper r = true -> r <> 0 /\ r <> 10.
Proof. unfold is_upper, in_rng. intros H. apply andb_prop in H. destruct H as [H _]. apply N.leb_le in H. lia. Qed.

Lemma is_lower_nz r : is_lower r = true -> r <> 0 /\ r <> 10.
Proof. unfold is_lower, in_rng. intros H. apply andb_prop in H. destruct H as [H _]. apply N.leb_le in H. lia. Qed.

Lemma is_word_nz r : is_word r = true -> r <> 0 /\ r <> 10.
Proof.
  unfold is_word. intros H.
  repeat (apply orb_prop in H; destruct H as [H|H]).
  - apply N.eqb_eq in H. lia.
  - apply is_digit_nz; auto.
  - apply is_upper_nz; auto.
  - apply is_lower_nz; auto.
Qed.

Local Open Scope Z_scope.

(* one Next that returned r, neither end nor line feed: the column advanced by one *)
Ltac col_step E Ha Hb Hc := pose proof (rd_next_col _ _ _ E) as (Ha & Hb & Hc).

Ltac peek_step rd r' rd1 E Ha Hb Hc :=
  let HP := fresh "Hpk" in
  pose proof (rd_next_peek rd) as HP;
  destruct (rd_next rd) as [r' rd1] eqn:E; cbn [fst] in HP; col_step E Ha Hb Hc.

Ltac neqs :=
  repeat match goal with
         | H : (_ || _)%bool = false |- _ => apply orb_false_elim in H; destruct H
         | H : N.eqb _ _ = false |- _ => apply N.eqb_neq in H
         | H : N.eqb _ _ = true |- _ => apply N.eqb_eq in H
         end.

Lemma consume_unsigned_integer_bres ol fuel : forall rd buf,
  binv buf rd -> bres (fun b => b) (consume_unsigned_integer ol fuel rd buf).
Proof.
  induction fuel as [|f IH]; intros rd buf Hb; [exact I|].
  cbn [consume_unsigned_integer].
  break_if; [exact I|]. break_if; [exact Hb|]. break_if; [exact I|].
  break_if.
  - peek_step rd r' rd1 E Ha1 Ha2 Ha3. apply is_digit_nz in Eb2. destruct Eb2.
    apply IH. eapply binv_app; eauto. rewrite Ha2; try lia; congruence.
  - break_if; [destruct (rd_next rd); exact I|exact Hb].
Qed.

Lemma consume_exponent_bres ol fuel rd buf :
  binv buf rd -> bres (fun b => b) (consume_exponent ol fuel rd buf).
Proof.
  intros Hb. unfold consume_exponent.
  destruct (rd_next rd) as [r rd1] eqn:E. col_step E Ha1 Ha2 Ha3.
  break_if; [exact I|]. break_if.
  - destruct (rd_next rd1) as [r2 rd2] eqn:E2. col_step E2 Hb1 Hb2 Hb3.
    break_if; [|exact I]. apply is_digit_nz in Eb1. destruct Eb1.
    neqs. apply consume_unsigned_integer_bres.
    eapply binv_app; [eapply binv_app; [exact Hb|]|].
    + assert (r <> 10%N) by (apply orb_prop in Eb0; destruct Eb0 as [Eb0|Eb0]; apply N.eqb_eq in Eb0; lia).
      rewrite Ha2; auto; lia.
    + rewrite Hb2; auto; lia.
  - break_if; [|exact I]. apply is_digit_nz in Eb1. destruct Eb1.
    apply consume_unsigned_integer_bres. eapply binv_app; eauto. rewrite Ha2; auto; lia.
Qed.

Lemma consume_hex_integer_bres fuel : forall rd buf,
  binv buf rd -> bres (fun b => b) (consume_hex_integer fuel rd buf).
Proof.
  induction fuel as [|f IH]; intros rd buf Hb; [exact I|].
  cbn [consume_hex_integer].
  break_if; [exact Hb|]. break_if; [|exact Hb].
  peek_step rd r' rd1 E Ha1 Ha2 Ha3. apply is_hex_nz in Eb0. destruct Eb0.
  apply IH. eapply binv_app; eauto. rewrite Ha2; try lia; congruence.
Qed.

Lemma consume_number_loop_bres ol fuel : forall rd buf t fz,
  binv buf rd -> bres fst (consume_number_loop ol fuel rd buf t fz).
Proof.
  induction fuel as [|f IH]; intros rd buf t fz Hb; [exact I|].
  cbn [consume_number_loop].
  break_if; [exact Hb|].
  break_if.
  { peek_step rd r' rd1 E Ha1 Ha2 Ha3. neqs.
    apply IH. eapply binv_app; eauto. rewrite Ha2; try lia; congruence. }
  break_if.
  { peek_step rd r' rd1 E Ha1 Ha2 Ha3.
    eapply bres_lmap with (pa := fun b => b); [reflexivity|].
    apply consume_exponent_bres. eapply binv_app; eauto.
    assert (r' <> 10%N /\ r' <> 0%N).
    { rewrite Hpk. apply orb_prop in Eb1. destruct Eb1 as [H|H]; apply N.eqb_eq in H; rewrite H; split; discriminate. }
    rewrite Ha2; try lia; tauto. }
  break_if.
  { destruct fz; [|exact I].
    peek_step rd r' rd1 E Ha1 Ha2 Ha3.
    destruct (rd_next rd1) as [r2 rd2] eqn:E2. col_step E2 Hb1 Hb2 Hb3.
    break_if; [|exact I]. apply is_hex_nz in Eb3. destruct Eb3.
    eapply bres_lmap with (pa := fun b => b); [reflexivity|].
    apply consume_hex_integer_bres.
    assert (r' <> 10%N /\ r' <> 0%N).
    { rewrite Hpk. apply orb_prop in Eb2. destruct Eb2 as [H'|H']; apply N.eqb_eq in H'; rewrite H'; split; discriminate. }
    eapply binv_app; [eapply binv_app; [exact Hb|]|].
    - rewrite Ha2; try lia; tauto.
    - rewrite Hb2; auto; lia. }
  break_if.
  { break_if; [exact I|].
    peek_step rd r' rd1 E Ha1 Ha2 Ha3.
    destruct (rd_next rd1) as [r2 rd2] eqn:E2. col_step E2 Hb1 Hb2 Hb3.
    break_if; [|exact I]. apply is_digit_nz in Eb5. destruct Eb5.
    assert (r' <> 10%N /\ r' <> 0%N).
    { rewrite Hpk. apply N.eqb_eq in Eb3. rewrite Eb3. split; discriminate. }
    apply IH.
    eapply binv_app; [eapply binv_app; [exact Hb|]|].
    - rewrite Ha2; try lia; tauto.
    - rewrite Hb2; auto; lia. }
  break_if; [|exact Hb].
  peek_step rd r' rd1 E Ha1 Ha2 Ha3. apply is_digit_nz in Eb4. destruct Eb4.
  apply IH. eapply binv_app; eauto. rewrite Ha2; try lia; congruence.
Qed.

Lemma consume_number_bres ol fuel rd rd0 start buf t :
  binv buf rd0 -> r_col rd0 + 1 <= r_col rd -> bres fst (consume_number ol fuel rd start buf t).
Proof.
  intros Hb Hc. unfold consume_number. apply consume_number_loop_bres. eapply binv_app; eauto.
Qed.

Lemma consume_regexp_bres fuel : forall rd buf,
  binv buf rd -> bres (fun b => b) (consume_regexp fuel rd buf).
Proof.
  induction fuel as [|f IH]; intros rd buf Hb; [exact I|].
  cbn [consume_regexp].
  destruct (rd_next rd) as [r rd1] eqn:E. col_step E Ha1 Ha2 Ha3.
  break_if; [exact I|].
  break_if.
  { neqs. subst r. eapply binv_mono; eauto. apply Ha1. discriminate. }
  break_if.
  { neqs. subst r.
    destruct (rd_next rd1) as [r2 rd2] eqn:E2. col_step E2 Hb1 Hb2 Hb3.
    break_if; [exact I|]. break_if; [exact I|]. neqs.
    break_if.
    - apply IH. eapply binv_app; eauto.
      rewrite Hb2; auto. rewrite Ha2; try discriminate. lia.
    - apply IH. change [92%N] with (encode_rune 92).
      eapply binv_app; [eapply binv_app; [exact Hb|]|].
      + rewrite Ha2; try discriminate. lia.
      + rewrite Hb2; auto. lia. }
  break_if; [exact I|]. neqs.
  apply IH. eapply binv_app; eauto. rewrite Ha2; auto. lia.
Qed.

(* the escape \u{X}: the column does not go back *)
Lemma unicode_digits_col fuel : forall rd ds,
  match unicode_digits fuel rd ds with LOk _ rd' => r_col rd <= r_col rd' | _ => True end.
Proof.
  induction fuel as [|f IH]; intros rd ds; [exact I|].
  cbn [unicode_digits].
  destruct (rd_next rd) as [r rd1] eqn:E. col_step E Ha1 Ha2 Ha3.
  break_if.
  { neqs. subst r. apply Ha1. discriminate. }
  break_if; [exact I|].
  apply orb_false_elim in Eb0. destruct Eb0 as [Hhex _]. apply negb_false_iff in Hhex.
  apply is_hex_nz in Hhex. destruct Hhex.
  specialize (IH rd1 (ds ++ [r])). destruct (unicode_digits f rd1 (ds ++ [r])); auto.
  specialize (Ha1 ltac:(auto)). lia.
Qed.

Lemma consume_unicode_escape_col fuel rd :
  match consume_unicode_escape fuel rd with LOk _ rd' => r_col rd <= r_col rd' | _ => True end.
Proof.
  unfold consume_unicode_escape.
  destruct (rd_next rd) as [r rd1] eqn:E. col_step E Ha1 Ha2 Ha3.
  break_if; [exact I|]. apply negb_false_iff in Eb. neqs. subst r.
  pose proof (unicode_digits_col fuel rd1 []) as Hd.
  destruct (unicode_digits fuel rd1 []) as [ds rd2| | |]; auto.
  destruct ds; [exact I|]. break_if; [|exact I].
  specialize (Ha1 ltac:(discriminate)). lia.
Qed.

Lemma consume_string_bres fuel : forall rd e buf, e <> 10%N ->
  binv buf rd -> bres (fun b => b) (consume_string fuel rd e buf).
Proof.
  induction fuel as [|f IH]; intros rd e buf He Hb; [exact I|].
  cbn [consume_string].
  destruct (rd_next rd) as [r rd1] eqn:E. col_step E Ha1 Ha2 Ha3.
  break_if.
  { neqs. subst r. eapply binv_mono; eauto. }
  break_if; [exact I|]. break_if; [exact I|].
  break_if.
  { neqs. subst r. specialize (Ha2 ltac:(discriminate) ltac:(discriminate)).
    destruct (rd_next rd1) as [r2 rd2] eqn:E2. col_step E2 Hb1 Hb2 Hb3.
    break_if; [exact I|]. break_if; [exact I|].
    assert (Hmono : forall x, r2 <> 10%N -> binv (buf ++ encode_rune x) rd2).
    { intros x Hx. eapply binv_app; eauto. specialize (Hb1 Hx). lia. }
    break_if; [neqs; subst r2; apply IH; auto; apply Hmono; discriminate|].
    break_if; [neqs; subst r2; apply IH; auto; apply Hmono; discriminate|].
    break_if; [neqs; subst r2; apply IH; auto; apply Hmono; discriminate|].
    break_if.
    { neqs. subst r2.
      pose proof (consume_unicode_escape_col f rd2) as Hu.
      destruct (consume_unicode_escape f rd2) as [v rd3| | |]; auto.
      apply IH; auto. eapply binv_app; eauto. specialize (Hb1 ltac:(discriminate)). lia. }
    break_if.
    { apply IH; auto. apply Hmono. apply orb_prop in Eb8. destruct Eb8 as [H|H]; apply N.eqb_eq in H; rewrite H; discriminate. }
    break_if; [exact I|]. apply negb_false_iff in Eb9. neqs. subst r2.
    apply IH; auto. }
  break_if; [exact I|]. neqs.
  apply IH; auto. eapply binv_app; eauto. rewrite Ha2; auto. lia.
Qed.

Lemma consume_word_loop_bres up fuel : forall rd buf,
  binv buf rd -> bres (fun b => b) (consume_word_loop up fuel rd buf).
Proof.
  induction fuel as [|f IH]; intros rd buf Hb; [exact I|].
  cbn [consume_word_loop].
  break_if; [exact Hb|].
  break_if.
  { peek_step rd r' rd1 E Ha1 Ha2 Ha3. neqs.
    assert (Hr' : r' = 58%N) by congruence.
    destruct (rd_next rd1) as [r2 rd2] eqn:E2. col_step E2 Hb1 Hb2 Hb3.
    break_if; [|exact I]. neqs. subst r2.
    destruct (rd_next rd2) as [r3 rd3] eqn:E3. col_step E3 Hd1 Hd2 Hd3.
    break_if; [|exact I].
    assert (r3 <> 0%N /\ r3 <> 10%N).
    { destruct up; [apply is_upper_nz; auto|].
      apply orb_prop in Eb1. destruct Eb1 as [H|H]; [apply is_lower_nz; auto|].
      apply N.eqb_eq in H. subst r3. split; discriminate. }
    apply IH.
    eapply binv_app; [eapply binv_app; [eapply binv_app; [exact Hb|]|]|].
    - rewrite Ha2; try lia; rewrite Hr'; discriminate.
    - rewrite Hb2; try discriminate. lia.
    - rewrite Hd2; try tauto. lia. }
  break_if; [|exact Hb].
  peek_step rd r' rd1 E Ha1 Ha2 Ha3. apply is_word_nz in Eb1. destruct Eb1.
  apply IH. eapply binv_app; eauto. rewrite Ha2; try lia; congruence.
Qed.

Lemma consume_line_comment_col fuel : forall rd, 0 <= r_col rd ->
  match consume_line_comment fuel rd with LOk _ rd' => 0 <= r_col rd' | _ => True end.
Proof.
  induction fuel as [|f IH]; intros rd Hc; [exact I|].
  cbn [consume_line_comment].
  destruct (rd_next rd) as [r rd1] eqn:E. col_step E Ha1 Ha2 Ha3.
  break_if; [auto|]. break_if; [exact I|]. apply IH. auto.
Qed.

Lemma binv_col buf rd : binv buf rd -> 0 <= r_col rd.
Proof. intros (rs & _ & H). lia. Qed.

Lemma binv_one (b : N) rd : (b < 128)%N -> 1 <= r_col rd -> binv [b] rd.
Proof.
  intros Hb Hc. exists [b]. cbn [flat_map length]. split; [|lia].
  unfold encode_rune. destruct (N.ltb_spec b 128); [reflexivity|lia].
Qed.

Lemma next_token_bres ol fuel : forall rd, 0 <= r_col rd ->
  match next_token ol fuel rd with LOk t rd' => binv (tk_text t) rd' | _ => True end.
Proof.
  induction fuel as [|f IH]; intros rd Hc; [exact I|].
  cbn [next_token].
  destruct (rd_next rd) as [r rd1] eqn:E. col_step E Ha1 Ha2 Ha3.
  specialize (Ha3 Hc).
  break_if; [exact I|].
  break_if; [cbn [tk_text]; apply binv_nil; auto|].
  break_if; [apply IH; auto|].
  break_if.
  { pose proof (consume_line_comment_col f rd1 Ha3) as Hcm.
    destruct (consume_line_comment f rd1) as [u rd2| | |]; auto. apply IH. exact Hcm. }
  neqs.
  assert (Hr10 : r <> 10%N) by auto.
  specialize (Ha2 Hr10 ltac:(auto)).
  assert (Hone : forall b, (b < 128)%N -> binv [b] rd1) by (intros; apply binv_one; auto; lia).
  break_if.
  { eapply (bres_lmap (mkToken TString) (fun b => b) tk_text); [reflexivity|].
    apply consume_string_bres; auto. apply binv_nil; auto. }
  break_if.
  { eapply (bres_lmap (mkToken TRegexp) (fun b => b) tk_text); [reflexivity|].
    apply consume_regexp_bres. apply binv_nil; auto. }
  do 8 (break_if; [cbn [tk_text]; apply Hone; reflexivity|]).
  break_if.
  { break_if.
    - match goal with H : N.eqb (rd_peek rd1) 62 = true |- _ => apply N.eqb_eq in H; rename H into Hp62 end.
      pose proof (rd_next_peek rd1) as Hpk.
      destruct (rd_next rd1) as [r2 rd2] eqn:E2. cbn [fst] in Hpk. col_step E2 Hb1 Hb2 Hb3.
      cbn [tk_text]. exists [61%N; 62%N]. split; [reflexivity|].
      assert (Hr2 : r2 = 62%N) by congruence.
      rewrite Hb2; [cbn [length]; lia|rewrite Hr2; discriminate|rewrite Hr2; discriminate].
    - cbn [tk_text]. apply Hone. reflexivity. }
  break_if.
  { destruct (rd_next rd1) as [n rd2] eqn:E2. col_step E2 Hb1 Hb2 Hb3.
    break_if; [exact I|].
    match goal with H : (_ || _)%bool = false |- _ => apply orb_false_elim in H; destruct H as [Hlo Hhi] end.
    apply N.ltb_ge in Hlo. apply N.ltb_ge in Hhi.
    eapply (bres_lmap (fun bt => mkToken (snd bt) (fst bt)) fst tk_text); [reflexivity|].
    eapply consume_number_bres with (rd0 := rd1).
    - rewrite <- (app_nil_l (encode_rune r)). eapply binv_app; [apply binv_nil; exact Hc|]. lia.
    - rewrite Hb2; [lia| |]; intros ->; lia. }
  break_if.
  { eapply (bres_lmap (fun bt => mkToken (snd bt) (fst bt)) fst tk_text); [reflexivity|].
    eapply consume_number_bres with (rd0 := rd); [apply binv_nil; auto|lia]. }
  break_if.
  { eapply (bres_lmap (mkToken TName) (fun b => b) tk_text); [reflexivity|].
    unfold consume_type_name. apply consume_word_loop_bres.
    eapply binv_app; [apply binv_nil; exact Hc|]. lia. }
  break_if; [|exact I].
  eapply (bres_lmap (mkToken TIdent) (fun b => b) tk_text); [reflexivity|].
  unfold consume_identifier. apply consume_word_loop_bres.
  eapply binv_app; [apply binv_nil; exact Hc|]. lia.
Qed.

Lemma lex_all_text_cols ol fuel : forall rd, 0 <= r_col rd ->
  Forall (fun t => rune_count (pt_text t) <= pt_col t) (fst (lex_all ol fuel rd)).
Proof.
  induction fuel as [|f IH]; intros rd Hc; cbn [lex_all]; [constructor|].
  pose proof (next_token_bres ol (S f) rd Hc) as Hb.
  destruct (next_token ol (S f) rd) as [t rd1| rd1 | |]; cbn [fst]; try constructor.
  pose proof (binv_count _ _ Hb) as Hcount. pose proof (binv_col _ _ Hb) as Hc1.
  specialize (IH rd1 Hc1).
  destruct (tk_kind t); cbn [fst];
    try (constructor; [exact Hcount|constructor]);
    destruct (lex_all ol f rd1) as [ps e]; cbn [fst] in *; (constructor; [exact Hcount|exact IH]).
Qed.

(* the column of the parse error located at a token — reader's column minus the characters of the token text — is
   not negative *)
Theorem lex_text_columns : forall ol s,
  Forall (fun t => 0 <= pt_col t - rune_count (pt_text t)) (fst (lex ol s)).
Proof.
  intros ol s. unfold lex.
  eapply Forall_impl; [|apply lex_all_text_cols; cbn; lia].
  intros t H. cbn beta in H. lia.
Qed.
