(* ReflectProofs.v — lemmas about the model of the reflection bridge (Model/Reflect.v), property C18. *)
From Coq Require Import ZArith NArith Bool Lia List Permutation Sorted.
From PcoreV Require Import Model.Base Model.Reflect.
Import ListNotations.
Open Scope Z_scope.

(* ------------------------------------------------------------------------------------------------ *)
(** * Induction over Go values (nested through lists, options and pairs) *)

Section GvalInd.
  Variable P : gval -> Prop.
  Hypothesis Hint : forall z, P (GVInt z).
  Hypothesis Hfloat : forall b, P (GVFloat b).
  Hypothesis Hstr : forall s, P (GVStr s).
  Hypothesis Hbool : forall b, P (GVBool b).
  Hypothesis Hsnil : P (GVSlice None).
  Hypothesis Hslice : forall es, Forall P es -> P (GVSlice (Some es)).
  Hypothesis Hmnil : P (GVMap None).
  Hypothesis Hmap : forall kvs, Forall (fun kv => P (fst kv) /\ P (snd kv)) kvs -> P (GVMap (Some kvs)).
  Hypothesis Hpnil : P (GVPtr None).
  Hypothesis Hptr : forall x, P x -> P (GVPtr (Some x)).
  Hypothesis Hstruct : forall fs, Forall P fs -> P (GVStruct fs).
  Hypothesis Hinil : P (GVIface None).
  Hypothesis Hiface : forall d x, P x -> P (GVIface (Some (d, x))).
  Hypothesis Hout : P GVOutside.

  Fixpoint gval_ind' (v : gval) : P v :=
    match v with
    | GVInt z => Hint z
    | GVFloat b => Hfloat b
    | GVStr s => Hstr s
    | GVBool b => Hbool b
    | GVSlice None => Hsnil
    | GVSlice (Some es) =>
        Hslice es ((fix go (l : list gval) : Forall P l :=
                      match l with [] => Forall_nil P | x :: l' => Forall_cons x (gval_ind' x) (go l') end) es)
    | GVMap None => Hmnil
    | GVMap (Some kvs) =>
        Hmap kvs ((fix go (l : list (gval * gval)) : Forall (fun kv => P (fst kv) /\ P (snd kv)) l :=
                     match l with
                     | [] => Forall_nil _
                     | (k, x) :: l' => Forall_cons (k, x) (conj (gval_ind' k) (gval_ind' x)) (go l')
                     end) kvs)
    | GVPtr None => Hpnil
    | GVPtr (Some x) => Hptr x (gval_ind' x)
    | GVStruct fs =>
        Hstruct fs ((fix go (l : list gval) : Forall P l :=
                       match l with [] => Forall_nil P | x :: l' => Forall_cons x (gval_ind' x) (go l') end) fs)
    | GVIface None => Hinil
    | GVIface (Some (d, x)) => Hiface d x (gval_ind' x)
    | GVOutside => Hout
    end.
End GvalInd.

(* ------------------------------------------------------------------------------------------------ *)
(** * Integer conversions: Go -> int64 -> back to the kind is the identity on the range of the kind *)

Lemma ik_range_cases k z :
  (ik_min k <=? z) && (z <=? ik_max k) = true -> ik_min k <= z <= ik_max k.
Proof. intros H; apply andb_true_iff in H as [H1 H2]; lia. Qed.

Lemma int_roundtrip k z :
  ik_min k <= z <= ik_max k ->
  trunc_to k (if ik_signed k then z else wrap64 z) = z.
Proof.
  intros H. unfold trunc_to, wrap64.
  destruct k; cbn [ik_signed ik_bits ik_min ik_max] in *;
    change (2 ^ 8) with 256 in *; change (2 ^ 16) with 65536 in *; change (2 ^ 32) with 4294967296 in *;
    change (2 ^ 64) with 18446744073709551616 in *;
    change (2 ^ (8 - 1)) with 128 in *; change (2 ^ (16 - 1)) with 32768 in *;
    change (2 ^ (32 - 1)) with 2147483648 in *; change (2 ^ (64 - 1)) with 9223372036854775808 in *;
    cbn -[Z.modulo Z.div Z.add Z.sub] in *;
    try (rewrite Z.mod_small by lia; lia).
  all: destruct (Z_lt_ge_dec z 9223372036854775808) as [Hs|Hb].
  all: try (rewrite (Z.mod_small (z + 9223372036854775808)) by lia;
            replace (z + 9223372036854775808 - 9223372036854775808) with z by lia;
            rewrite Z.mod_small by lia; lia).
  all: replace (z + 9223372036854775808) with ((z - 9223372036854775808) + 1 * 18446744073709551616) by lia;
       rewrite Z.mod_add by lia; rewrite (Z.mod_small (z - 9223372036854775808)) by lia;
       replace (z - 9223372036854775808 - 9223372036854775808) with (z + (-1) * 18446744073709551616) by lia;
       rewrite Z.mod_add by lia; rewrite Z.mod_small by lia; lia.
Qed.
