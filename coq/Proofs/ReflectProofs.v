(* ReflectProofs.v — lemmas about the model of the reflection bridge (Model/Reflect.v), property C18. *)
From Coq Require Import ZArith NArith Bool Lia List Permutation Sorted.
From PcoreV Require Import Model.Base Model.Reflect.
Import ListNotations.
Open Scope Z_scope.

(* ------------------------------------------------------------------------------------------------ *)
(** * Induction over Go values (nested through lists, options and pairs) *)

Section GvalInd.
  Variable P : gval -> Prop.
  Hypothesis Hint : forall z, P (GVInt z).
  Hypothesis Hfloat : forall b, P (GVFloat b).
  Hypothesis Hstr : forall s, P (GVStr s).
  Hypothesis Hbool : forall b, P (GVBool b).
  Hypothesis Hsnil : P (GVSlice None).
  Hypothesis Hslice : forall es, Forall P es -> P (GVSlice (Some es)).
  Hypothesis Hmnil : P (GVMap None).
  Hypothesis Hmap : forall kvs, Forall (fun kv => P (fst kv) /\ P (snd kv)) kvs -> P (GVMap (Some kvs)).
  Hypothesis Hpnil : P (GVPtr None).
  Hypothesis Hptr : forall x, P x -> P (GVPtr (Some x)).
  Hypothesis Hstruct : forall fs, Forall P fs -> P (GVStruct fs).
  Hypothesis Hinil : P (GVIface None).
  Hypothesis Hiface : forall d x, P x -> P (GVIface (Some (d, x))).
  Hypothesis Hout : P GVOutside.

  Fixpoint gval_ind' (v : gval) : P v :=
    match v with
    | GVInt z => Hint z
    | GVFloat b => Hfloat b
    | GVStr s => Hstr s
    | GVBool b => Hbool b
    | GVSlice None => Hsnil
    | GVSlice (Some es) =>
        Hslice es ((fix go (l : list gval) : Forall P l :=
                      match l with [] => Forall_nil P | x :: l' => Forall_cons x (gval_ind' x) (go l') end) es)
    | GVMap None => Hmnil
    | GVMap (Some kvs) =>
        Hmap kvs ((fix go (l : list (gval * gval)) : Forall (fun kv => P (fst kv) /\ P (snd kv)) l :=
                     match l with
                     | [] => Forall_nil _
                     | (k, x) :: l' => Forall_cons (k, x) (conj (gval_ind' k) (gval_ind' x)) (go l')
                     end) kvs)
    | GVPtr None => Hpnil
    | GVPtr (Some x) => Hptr x (gval_ind' x)
    | GVStruct fs =>
        Hstruct fs ((fix go (l : list gval) : Forall P l :=
                       match l with [] => Forall_nil P | x :: l' => Forall_cons x (gval_ind' x) (go l') end) fs)
    | GVIface None => Hinil
    | GVIface (Some (d, x)) => Hiface d x (gval_ind' x)
    | GVOutside => Hout
    end.
End GvalInd.

(* ------------------------------------------------------------------------------------------------ *)
(** * Integer conversions: Go -> int64 -> back to the kind is the identity on the range of the kind *)

Lemma ik_range_cases k z :
  (ik_min k <=? z) && (z <=? ik_max k) = true -> ik_min k <= z <= ik_max k.
Proof. intros H; apply andb_true_iff in H as [H1 H2]; lia. Qed.

Ltac pow2 :=
  repeat match goal with
         | |- context [2 ^ ?n] => let c := eval vm_compute in (2 ^ n) in change (2 ^ n) with c
         | H : context [2 ^ ?n] |- _ => let c := eval vm_compute in (2 ^ n) in change (2 ^ n) with c in H
         end.

Lemma wrap64_small z : -9223372036854775808 <= z < 9223372036854775808 -> wrap64 z = z.
Proof. intros H. unfold wrap64. rewrite Z.mod_small by lia. lia. Qed.

Lemma int_roundtrip k z :
  ik_min k <= z <= ik_max k ->
  trunc_to k (if ik_signed k then z else wrap64 z) = z.
Proof.
  intros H. unfold trunc_to, wrap64.
  destruct k; cbv [ik_signed ik_bits ik_min ik_max] in *; pow2; Z.div_mod_to_equations; lia.
Qed.

(* ------------------------------------------------------------------------------------------------ *)
(** * The native order of map keys is a strict total order on the values of a scalar type *)

Lemma str_ltb_irrefl a : str_ltb a a = false.
Proof.
  induction a as [|x a IH]; cbn [str_ltb]; [reflexivity|].
  rewrite N.ltb_irrefl, N.eqb_refl. exact IH.
Qed.

Lemma str_ltb_trans a : forall b c, str_ltb a b = true -> str_ltb b c = true -> str_ltb a c = true.
Proof.
  induction a as [|x a IH]; intros [|y b] [|z c]; cbn [str_ltb]; try discriminate; auto.
  destruct (N.ltb_spec x y) as [Hxy|Hxy].
  - intros _. destruct (N.ltb_spec y z) as [Hyz|Hyz].
    + intros _. destruct (N.ltb_spec x z); [reflexivity|lia].
    + destruct (N.eqb_spec y z) as [->|]; [|discriminate]. intros _.
      destruct (N.ltb_spec x z); [reflexivity|lia].
  - destruct (N.eqb_spec x y) as [->|]; [|discriminate]. intros Hab.
    destruct (N.ltb_spec y z) as [Hyz|Hyz]; [reflexivity|].
    destruct (N.eqb_spec y z) as [->|]; [|discriminate]. intros Hbc. eauto.
Qed.

Lemma str_ltb_total a : forall b, str_ltb a b = false -> str_eqb a b = false -> str_ltb b a = true.
Proof.
  induction a as [|x a IH]; intros [|y b]; cbn [str_ltb str_eqb]; try discriminate; auto.
  destruct (N.ltb_spec x y) as [Hxy|Hxy]; [discriminate|].
  destruct (N.eqb_spec x y) as [->|Hn]; cbn [andb].
  - rewrite N.ltb_irrefl, N.eqb_refl. apply IH.
  - intros _ _. destruct (N.ltb_spec y x); [reflexivity|lia].
Qed.

Lemma gkey_ltb_irrefl a : gkey_ltb a a = false.
Proof.
  destruct a; cbn [gkey_ltb]; auto using Z.ltb_irrefl, str_ltb_irrefl.
  destruct b; reflexivity.
Qed.

Lemma gkey_ltb_trans a b c : gkey_ltb a b = true -> gkey_ltb b c = true -> gkey_ltb a c = true.
Proof.
  destruct a, b; cbn [gkey_ltb]; try discriminate; destruct c; cbn [gkey_ltb]; try discriminate.
  - rewrite !Z.ltb_lt; lia.
  - rewrite !Z.ltb_lt; lia.
  - apply str_ltb_trans.
  - destruct b, b0, b1; cbn; congruence.
Qed.

Lemma gkey_eqb_eq a b : gkey_eqb a b = true -> a = b.
Proof.
  destruct a, b; cbn [gkey_eqb]; try discriminate; intros H.
  - apply Z.eqb_eq in H; congruence.
  - apply Z.eqb_eq in H; congruence.
  - apply str_eqb_eq in H; congruence.
  - apply eqb_prop in H; congruence.
Qed.

Lemma is_f32_bounds b : is_f32 b = true -> 0 <= b < two64.
Proof.
  unfold is_f32. intros H. apply andb_true_iff in H as [H _]. apply andb_true_iff in H as [H1 H2]. lia.
Qed.

Lemma float_bits_bounds t b :
  has_type (GVFloat b) t = true -> 0 <= b < two64.
Proof.
  destruct t; cbn [has_type]; try discriminate.
  - apply is_f32_bounds.
  - intros H; apply andb_true_iff in H as [H1 H2]; lia.
Qed.

Lemma fimg_inj x y :
  0 <= x < two64 -> 0 <= y < two64 ->
  (if f_sign x =? 1 then - x else x) = (if f_sign y =? 1 then - y else y) -> x = y.
Proof.
  unfold f_sign, two64, two63. intros Hx Hy.
  destruct (Z.eqb_spec (x / 9223372036854775808) 1) as [Ex|Ex];
    destruct (Z.eqb_spec (y / 9223372036854775808) 1) as [Ey|Ey]; intros H;
    Z.div_mod_to_equations; lia.
Qed.

(* a hypothesis `match o with ... => false end = true` whose every branch is false *)
Ltac absurd_match :=
  match goal with
  | H : match ?o with _ => _ end = true |- _ => destruct o as [[? ?]|]; discriminate H
  | H : match ?o with _ => _ end = true |- _ => destruct o; discriminate H
  end.

Lemma gkey_total t a b :
  is_scalar_ty t = true -> has_type a t = true -> has_type b t = true ->
  gkey_ltb a b = false -> gkey_eqb a b = false -> gkey_ltb b a = true.
Proof.
  intros Hs Ha Hb.
  assert (Hba : forall x, a = GVFloat x -> 0 <= x < two64) by (intros x ->; eapply float_bits_bounds; eauto).
  assert (Hbb : forall x, b = GVFloat x -> 0 <= x < two64) by (intros x ->; eapply float_bits_bounds; eauto).
  destruct t; try discriminate Hs;
    destruct a; cbn [has_type] in Ha; try discriminate Ha; try solve [absurd_match];
    destruct b; cbn [has_type] in Hb; try discriminate Hb; try solve [absurd_match];
    cbn [gkey_ltb gkey_eqb]; intros Hlt Hne.
  - apply Z.ltb_ge in Hlt. apply Z.eqb_neq in Hne. apply Z.ltb_lt. lia.
  - specialize (Hba _ eq_refl). specialize (Hbb _ eq_refl).
    apply Z.ltb_ge in Hlt. apply Z.eqb_neq in Hne. apply Z.ltb_lt.
    destruct (Z.eq_dec (if f_sign bits =? 1 then - bits else bits) (if f_sign bits0 =? 1 then - bits0 else bits0)) as [E|E].
    + apply fimg_inj in E; auto. congruence.
    + lia.
  - specialize (Hba _ eq_refl). specialize (Hbb _ eq_refl).
    apply Z.ltb_ge in Hlt. apply Z.eqb_neq in Hne. apply Z.ltb_lt.
    destruct (Z.eq_dec (if f_sign bits =? 1 then - bits else bits) (if f_sign bits0 =? 1 then - bits0 else bits0)) as [E|E].
    + apply fimg_inj in E; auto. congruence.
    + lia.
  - apply str_ltb_total; assumption.
  - destruct b0, b; cbn in *; congruence.
Qed.

(* ------------------------------------------------------------------------------------------------ *)
(** * Go maps as key-sorted entry lists: SetMapIndex in any order of distinct keys yields the sorted list *)

Definition entry := (gval * gval)%type.

Definition keys_lt (k : gval) (m : list entry) : Prop := Forall (fun e => gkey_ltb k (fst e) = true) m.

Fixpoint ssorted (m : list entry) : Prop :=
  match m with
  | [] => True
  | e :: m' => keys_lt (fst e) m' /\ ssorted m'
  end.

Definition typed_keys (t : gty) (m : list entry) : Prop := Forall (fun e => has_type (fst e) t = true) m.

Lemma sorted_keys_ssorted l : sorted_keys l = true -> ssorted l.
Proof.
  induction l as [|[k v] l IH]; cbn [sorted_keys ssorted]; [trivial|].
  destruct l as [|[k' v'] l'].
  - intros _. split; [constructor|exact I].
  - intros H. apply andb_true_iff in H as [Hk Hs]. specialize (IH Hs).
    split; [|exact IH]. cbn [ssorted] in IH. destruct IH as [Hk' _].
    constructor; [exact Hk|].
    cbn [fst] in *. eapply Forall_impl; [|exact Hk']. intros e He. eapply gkey_ltb_trans; eauto.
Qed.

Lemma ssorted_nodup m : ssorted m -> NoDup (map fst m).
Proof.
  induction m as [|e m IH]; cbn [ssorted map]; [constructor|].
  intros [Hk Hs]. constructor; [|auto].
  intros Hin. apply in_map_iff in Hin as [e' [He' Hin]].
  unfold keys_lt in Hk. rewrite Forall_forall in Hk. specialize (Hk _ Hin).
  rewrite He', gkey_ltb_irrefl in Hk. discriminate.
Qed.

Lemma map_put_spec t k v m :
  is_scalar_ty t = true -> has_type k t = true -> typed_keys t m -> ssorted m ->
  Forall (fun e => fst e <> k) m ->
  ssorted (map_put k v m) /\ Permutation ((k, v) :: m) (map_put k v m).
Proof.
  intros Hs Hk. induction m as [|[k' v'] m IH]; intros Ht Hsm Hne; cbn [map_put].
  - split; [cbn; split; [constructor|exact I]|apply Permutation_refl].
  - inversion Ht as [|? ? Hk' Ht']; subst. inversion Hne as [|? ? Hn Hne']; subst.
    cbn [fst] in *. destruct Hsm as [Hlt Hsm'].
    destruct (gkey_eqb k k') eqn:He.
    { apply gkey_eqb_eq in He. congruence. }
    destruct (gkey_ltb k k') eqn:Hl.
    + split; [|apply Permutation_refl].
      cbn [ssorted fst]. split; [|split; assumption].
      constructor; [exact Hl|].
      eapply Forall_impl; [|exact Hlt]. intros e He'. eapply gkey_ltb_trans; eauto.
    + assert (Hgt : gkey_ltb k' k = true) by (eapply gkey_total; eauto).
      destruct (IH Ht' Hsm' Hne') as [IHs IHp].
      split.
      * cbn [ssorted fst]. split; [|exact IHs].
        unfold keys_lt. eapply Permutation_Forall; [exact IHp|].
        constructor; [exact Hgt|exact Hlt].
      * eapply perm_trans; [apply perm_swap|]. apply perm_skip. exact IHp.
Qed.

Definition put_all (l : list entry) (m0 : list entry) : list entry :=
  fold_left (fun m e => map_put (fst e) (snd e) m) l m0.

Lemma put_all_spec t : is_scalar_ty t = true ->
  forall l m0, typed_keys t l -> NoDup (map fst l) -> typed_keys t m0 -> ssorted m0 ->
  (forall e e0, In e l -> In e0 m0 -> fst e0 <> fst e) ->
  ssorted (put_all l m0) /\ Permutation (l ++ m0) (put_all l m0).
Proof.
  intros Hs. induction l as [|[k v] l IH]; intros m0 Htl Hnd Htm Hsm Hdis; cbn [put_all fold_left app].
  - split; [exact Hsm|apply Permutation_refl].
  - inversion Htl as [|? ? Hk Htl']; subst. cbn [map fst] in Hnd. inversion Hnd as [|? ? Hnin Hnd']; subst.
    cbn [fst snd] in *.
    assert (Hne : Forall (fun e => fst e <> k) m0).
    { apply Forall_forall. intros e0 He0. apply (Hdis (k, v) e0); [left; reflexivity|exact He0]. }
    destruct (map_put_spec t k v m0 Hs Hk Htm Hsm Hne) as [Hs1 Hp1].
    assert (Htm1 : typed_keys t (map_put k v m0)).
    { unfold typed_keys. eapply Permutation_Forall; [exact Hp1|]. constructor; assumption. }
    assert (Hdis1 : forall e e0, In e l -> In e0 (map_put k v m0) -> fst e0 <> fst e).
    { intros e e0 He He0. apply Permutation_sym in Hp1. apply (Permutation_in _ Hp1) in He0.
      destruct He0 as [<-|He0].
      - cbn [fst]. intros E. apply Hnin. rewrite E. apply in_map. exact He.
      - apply Hdis; [right; exact He|exact He0]. }
    destruct (IH (map_put k v m0) Htl' Hnd' Htm1 Hs1 Hdis1) as [Hs2 Hp2].
    fold (put_all l (map_put k v m0)).
    split; [exact Hs2|].
    eapply perm_trans; [|exact Hp2].
    eapply perm_trans; [apply Permutation_middle|]. apply Permutation_app_head. exact Hp1.
Qed.

Lemma ssorted_perm_eq m1 : forall m2, ssorted m1 -> ssorted m2 -> Permutation m1 m2 -> m1 = m2.
Proof.
  induction m1 as [|e1 m1 IH]; intros m2 H1 H2 Hp.
  - apply Permutation_nil in Hp. congruence.
  - destruct m2 as [|e2 m2].
    { apply Permutation_sym, Permutation_nil in Hp. discriminate. }
    cbn [ssorted] in H1, H2. destruct H1 as [Hk1 Hs1]. destruct H2 as [Hk2 Hs2].
    assert (E : e1 = e2).
    { assert (I1 : In e1 (e2 :: m2)) by (eapply Permutation_in; [exact Hp|left; reflexivity]).
      assert (I2 : In e2 (e1 :: m1)) by (eapply Permutation_in; [apply Permutation_sym; exact Hp|left; reflexivity]).
      destruct I1 as [->|I1]; [reflexivity|]. destruct I2 as [->|I2]; [reflexivity|].
      unfold keys_lt in *. rewrite Forall_forall in Hk1, Hk2.
      specialize (Hk1 _ I2). specialize (Hk2 _ I1).
      pose proof (gkey_ltb_trans _ _ _ Hk1 Hk2) as Hc. rewrite gkey_ltb_irrefl in Hc. discriminate. }
    subst e2. f_equal. apply IH; auto. eapply Permutation_cons_inv; exact Hp.
Qed.

(* the map rebuilt from any permutation of the entries of a key-sorted list is that list *)
Lemma put_all_perm t m l :
  is_scalar_ty t = true -> typed_keys t m -> ssorted m -> Permutation m l -> put_all l [] = m.
Proof.
  intros Hs Ht Hsm Hp.
  assert (Htl : typed_keys t l) by (unfold typed_keys; eapply Permutation_Forall; eauto).
  assert (Hnd : NoDup (map fst l)).
  { eapply Permutation_NoDup; [apply Permutation_map; exact Hp|apply ssorted_nodup; exact Hsm]. }
  destruct (put_all_spec t Hs l [] Htl Hnd (Forall_nil _) I) as [Hs2 Hp2].
  { intros ? ? _ []. }
  symmetry. apply ssorted_perm_eq; auto.
  rewrite app_nil_r in Hp2. eapply perm_trans; eauto.
Qed.

(* ------------------------------------------------------------------------------------------------ *)
(** * Wrapping a map: the entries of the Hash are a permutation of the wrapped entries (whatever fmt does) *)

Lemma sm_insert_perm ffmt e l : Permutation (e :: l) (sm_insert ffmt e l).
Proof.
  induction l as [|x l IH]; cbn [sm_insert]; [apply Permutation_refl|].
  destruct (str_ltb _ _); [apply Permutation_refl|].
  eapply perm_trans; [apply perm_swap|]. apply perm_skip. exact IH.
Qed.

Lemma sorted_map_perm ffmt l : Permutation l (sorted_map ffmt l).
Proof.
  unfold sorted_map. induction l as [|e l IH]; cbn [fold_right]; [constructor|].
  eapply perm_trans; [apply perm_skip; exact IH|apply sm_insert_perm].
Qed.

Lemma hash_build_map rk rv (f : entry -> value * value) l : forall m0,
  (forall kv, In kv l -> rv (snd (f kv)) = Ok (snd kv) /\ rk (fst (f kv)) = Ok (fst kv)) ->
  hash_build rk rv (map f l) m0 = Ok (put_all l m0).
Proof.
  induction l as [|kv l IH]; intros m0 H; cbn [map hash_build put_all fold_left]; [reflexivity|].
  destruct (H kv (or_introl eq_refl)) as [Hv Hk].
  destruct (f kv) as [wk wv] eqn:Ef. cbn [fst snd] in *.
  rewrite Hv, Hk. cbn [rbind]. apply IH. intros kv' Hin. apply H. right; exact Hin.
Qed.

Lemma rmap_map_ok {A B} (g : B -> res A) (f : A -> B) l :
  (forall x, In x l -> g (f x) = Ok x) -> rmap g (map f l) = Ok l.
Proof.
  induction l as [|x l IH]; intros H; cbn [map rmap]; [reflexivity|].
  rewrite (H x (or_introl eq_refl)). cbn [rbind]. rewrite IH; [reflexivity|].
  intros y Hy. apply H. right; exact Hy.
Qed.

(* ------------------------------------------------------------------------------------------------ *)
(** * Small computation lemmas about wrapx *)

Lemma wrapx_slice ffmt w e es :
  wrapx ffmt w (GSlice e) (GVSlice (Some es)) =
  if is_u8 e then VBinary (Some (bytes_of es)) else VArr (map (wrapx ffmt true e) es).
Proof. destruct e as [[]| | | | | | | | |]; reflexivity. Qed.

Lemma wrapx_slice_nil ffmt w e :
  wrapx ffmt w (GSlice e) (GVSlice None) =
  if w && is_u8 e then VBinary None else if w && fast_slice_elem e then VArr [] else VUndef.
Proof. destruct w; destruct e as [[]| | | | | | | | |]; reflexivity. Qed.

Lemma ptype_of_slice e :
  ptype_of (GSlice e) = if is_u8 e then TBinary else TArray (ptype_of e).
Proof. destruct e as [[]| | | | | | | | |]; reflexivity. Qed.

Lemma is_u8_eq e : is_u8 e = true -> e = GInt KUint8.
Proof. destruct e as [[]| | | | | | | | |]; cbn; congruence. Qed.

Lemma bytes_roundtrip es :
  forallb (fun x => has_type x (GInt KUint8)) es = true ->
  map (fun x => GVInt (Z.of_N x)) (bytes_of es) = es.
Proof.
  unfold bytes_of. induction es as [|x es IH]; cbn [forallb map]; [reflexivity|].
  intros H. apply andb_true_iff in H as [Hx Hes]. rewrite (IH Hes). f_equal.
  destruct x; cbn [has_type] in Hx; try discriminate Hx; try solve [absurd_match].
  apply andb_true_iff in Hx as [H1 H2]. cbv [ik_min ik_signed] in H1. rewrite Z2N.id by lia. reflexivity.
Qed.

(* a pointer destination takes what its element type takes (integertype.go:361, floattype.go:258,
   stringtype.go:498, booleantype.go:233, arraytype.go:542, hashtype.go:957, binarytype.go:236) *)
Definition ptr_liftable (e : gty) (val : value) : bool :=
  match val, e with
  | VInt _, GInt _ | VFloat _, GFloat32 | VFloat _, GFloat64 | VStr _, GString | VBool _, GBool
  | VArr _, GSlice _ | VHash _, GMap _ _ | VBinary _, GSlice _ => true
  | _, _ => false
  end.

Lemma ptr_lift e val y :
  ptr_liftable e val = true -> reflect_to e val = Ok y -> y <> GVOutside ->
  reflect_to (GPtr e) val = Ok (GVPtr (Some y)).
Proof.
  destruct val, e; cbn [ptr_liftable]; try discriminate; intros _; cbn [reflect_to]; intros H Hy;
    try (inversion H; reflexivity).
  - match goal with |- context [is_f32 ?b] => destruct (is_f32 b) end; inversion H; subst; [reflexivity|contradiction].
  - rewrite H; reflexivity.
  - destruct (rmap _ _); cbn [rbind] in *; inversion H; reflexivity.
  - destruct (hash_build _ _ _ _); cbn [rbind] in *; inversion H; reflexivity.
Qed.

Lemma wrapx_false_liftable ffmt e x :
  has_type x e = true -> is_ptr_ty e = false -> is_struct_ty e = false -> is_iface e = false ->
  is_nil_coll x = false -> ptr_liftable e (wrapx ffmt false e x) = true.
Proof.
  intros Ht Hp Hs Hi Hn.
  destruct e; try discriminate;
    destruct x; cbn [has_type] in Ht; try discriminate Ht; try solve [absurd_match]; try reflexivity.
  - destruct o; [|discriminate Hn]. rewrite wrapx_slice. destruct (is_u8 e); reflexivity.
  - destruct o; [|discriminate Hn]. reflexivity.
Qed.

Lemma has_type_not_outside v t : has_type v t = true -> v <> GVOutside.
Proof. intros H ->. destruct t; discriminate H. Qed.

(* ------------------------------------------------------------------------------------------------ *)
(** * Round trip: reflect_to t (wrapx w t v) = Ok v *)

Section RoundTrip.
  Variable ffmt : Z -> str.

  Definition rt_prop (v : gval) : Prop :=
    forall w t, has_type v t = true -> rt_ok w t v = true -> (w = false -> is_iface t = false) ->
                reflect_to t (wrapx ffmt w t v) = Ok v.

  Lemma rt_int z : rt_prop (GVInt z).
  Proof.
    intros w t Ht _ _. destruct t; cbn [has_type] in Ht; try discriminate Ht.
    apply ik_range_cases in Ht. cbn [wrapx wrap_primitive reflect_to]. rewrite int_roundtrip by exact Ht. reflexivity.
  Qed.

  Lemma rt_float b : rt_prop (GVFloat b).
  Proof.
    intros w t Ht _ _. destruct t; cbn [has_type] in Ht; try discriminate Ht; cbn [wrapx wrap_primitive reflect_to].
    - rewrite Ht. reflexivity.
    - reflexivity.
  Qed.

  Lemma rt_slice es : Forall rt_prop es -> rt_prop (GVSlice (Some es)).
  Proof.
    intros IH w t Ht Hr _. destruct t; cbn [has_type] in Ht; try discriminate Ht.
    cbn [rt_ok elem_ty] in Hr. rewrite wrapx_slice. destruct (is_u8 t) eqn:Eu.
    - apply is_u8_eq in Eu. subst t. cbn [reflect_to binary_to]. unfold bytes_gval. rewrite bytes_roundtrip by exact Ht. reflexivity.
    - cbn [reflect_to]. rewrite rmap_map_ok; [reflexivity|].
      intros x Hx. rewrite Forall_forall in IH. rewrite forallb_forall in Ht, Hr.
      apply IH; auto. discriminate.
  Qed.

  Lemma rt_map kvs : Forall (fun kv => rt_prop (fst kv) /\ rt_prop (snd kv)) kvs -> rt_prop (GVMap (Some kvs)).
  Proof.
    intros IH w t Ht Hr _. destruct t; cbn [has_type] in Ht; try discriminate Ht.
    apply andb_true_iff in Ht as [Ht Hall]. apply andb_true_iff in Ht as [Hsc Hso].
    cbn [rt_ok elem_ty key_ty] in Hr. cbn [wrapx elem_ty key_ty].
    set (f := fun kv : gval * gval => (wrapx ffmt true t1 (fst kv), wrapx ffmt true t2 (snd kv))).
    destruct (Permutation_map_inv f _ (Permutation_sym (sorted_map_perm ffmt (map f kvs)))) as [l [El Hp]].
    rewrite El. cbn [reflect_to].
    rewrite forallb_forall in Hall, Hr. rewrite Forall_forall in IH.
    assert (Hkeys : forall kv, In kv kvs -> rt_ok true t1 (fst kv) = true).
    { intros kv Hin. specialize (Hall _ Hin). apply andb_true_iff in Hall as [Hall _]. apply andb_true_iff in Hall as [Hk _].
      destruct t1; try discriminate Hsc; destruct (fst kv); cbn [has_type] in Hk; try discriminate Hk;
        try solve [absurd_match]; reflexivity. }
    rewrite (hash_build_map _ _ f l []).
    - cbn [rbind]. do 3 f_equal. eapply put_all_perm; eauto.
      + apply Forall_forall. intros kv Hin. specialize (Hall _ Hin).
        apply andb_true_iff in Hall as [Hall _]. apply andb_true_iff in Hall as [Hk _]. exact Hk.
      + apply sorted_keys_ssorted; exact Hso.
    - intros kv Hin. assert (Hin' : In kv kvs) by (eapply Permutation_in; [apply Permutation_sym; exact Hp|exact Hin]).
      destruct (IH _ Hin') as [IHk IHv]. pose proof (Hall _ Hin') as Hh.
      apply andb_true_iff in Hh as [Hh Hv]. apply andb_true_iff in Hh as [Hk _].
      unfold f; cbn [fst snd]. split.
      + apply IHv; auto. discriminate.
      + apply IHk; auto. discriminate.
  Qed.

  Lemma rt_ptr x : rt_prop x -> rt_prop (GVPtr (Some x)).
  Proof.
    intros IH w t Ht Hr _. destruct t; cbn [has_type] in Ht; try discriminate Ht.
    apply andb_true_iff in Ht as [Hi Hx]. apply negb_true_iff in Hi.
    cbn [rt_ok elem_ty] in Hr. cbn [wrapx elem_ty].
    destruct (is_struct_ty t) eqn:Es.
    - destruct t; try discriminate Es. cbn [struct_name reflect_to]. rewrite str_eqb_refl. reflexivity.
    - cbn [orb] in Hr. apply andb_true_iff in Hr as [Hr Hrx]. apply andb_true_iff in Hr as [Hp Hn].
      apply negb_true_iff in Hp. apply negb_true_iff in Hn.
      apply ptr_lift.
      + apply wrapx_false_liftable; auto.
      + apply IH; auto.
      + eapply has_type_not_outside; eauto.
  Qed.

  Lemma rt_iface d x : rt_prop (GVIface (Some (d, x))).
  Proof.
    intros w t Ht Hr Hw. destruct t; cbn [has_type] in Ht; try discriminate Ht.
    destruct w; [|discriminate (Hw eq_refl)].
    apply andb_true_iff in Ht as [Hs Hx]. cbn [rt_ok] in Hr. cbn [wrapx].
    destruct d as [[]| | | | | | | | |]; try discriminate Hr;
      destruct x; cbn [has_type] in Hx; try discriminate Hx; try solve [absurd_match]; reflexivity.
  Qed.

  Theorem roundtrip_gen : forall v, rt_prop v.
  Proof.
    induction v using gval_ind'.
    - apply rt_int.
    - apply rt_float.
    - intros w t Ht _ _. destruct t; cbn [has_type] in Ht; try discriminate Ht. reflexivity.
    - intros w t Ht _ _. destruct t; cbn [has_type] in Ht; try discriminate Ht. reflexivity.
    - intros w t Ht Hr _. destruct t; cbn [has_type] in Ht; try discriminate Ht.
      cbn [rt_ok elem_ty] in Hr. apply negb_true_iff in Hr. rewrite wrapx_slice_nil, Hr.
      destruct (w && is_u8 t) eqn:Eu.
      + apply andb_true_iff in Eu as [_ Eu]. apply is_u8_eq in Eu. subst t. reflexivity.
      + reflexivity.
    - apply rt_slice; assumption.
    - intros w t Ht Hr _. destruct t; cbn [has_type] in Ht; try discriminate Ht.
      cbn [rt_ok elem_ty key_ty] in Hr. apply negb_true_iff in Hr. cbn [wrapx elem_ty key_ty]. rewrite Hr. reflexivity.
    - apply rt_map; assumption.
    - intros w t Ht _ _. destruct t; cbn [has_type] in Ht; try discriminate Ht. reflexivity.
    - apply rt_ptr; assumption.
    - intros w t Ht _ _. destruct t; cbn [has_type] in Ht; try discriminate Ht.
      cbn [wrapx struct_name reflect_to]. rewrite str_eqb_refl. reflexivity.
    - intros w t Ht _ Hw. destruct t; cbn [has_type] in Ht; try discriminate Ht.
      destruct w; [reflexivity|discriminate (Hw eq_refl)].
    - apply rt_iface.
    - intros w t Ht. destruct t; discriminate Ht.
  Qed.

  Corollary roundtrip v t :
    has_type v t = true -> rt_ok true t v = true -> reflect_to t (wrap ffmt t v) = Ok v.
  Proof. intros Ht Hr. apply roundtrip_gen; auto. discriminate. Qed.

  (* what wrapReflected yields for a field of a registered struct converts back too *)
  Corollary roundtrip_reflected v t :
    has_type v t = true -> rt_ok false t v = true -> is_iface t = false ->
    reflect_to t (wrap_reflected ffmt t v) = Ok v.
  Proof. intros Ht Hr Hi. apply roundtrip_gen; auto. Qed.
End RoundTrip.

(* ------------------------------------------------------------------------------------------------ *)
(** * The type derived from the Go type accepts the wrapped value *)

Lemma int_accepts k z :
  ik_min k <= z <= ik_max k ->
  match k with KUint | KUint64 => z <? two63 | _ => true end = true ->
  inst (primitive_ptype k) (VInt (if ik_signed k then z else wrap64 z)) = true.
Proof.
  intros H Hg.
  destruct k; cbv [ik_signed ik_min ik_max ik_bits] in H; pow2;
    try (apply Z.ltb_lt in Hg; unfold two63 in Hg);
    cbn [primitive_ptype inst ik_signed]; unfold min_int64, max_int64;
    rewrite ?wrap64_small by lia; apply andb_true_iff; split; apply Z.leb_le; lia.
Qed.

Lemma finite_not_nan b : f_finite b = true -> f_is_nan b = false.
Proof. unfold f_finite, f_is_nan. intros H. apply negb_true_iff in H. rewrite H. reflexivity. Qed.

(* the type derived from float64 is the unbounded Float type: every float64, NaN and the infinities included *)
Lemma float64_accepts b : (f_le neg_inf_bits b && f_le b inf_bits) || f_unbounded neg_inf_bits inf_bits = true.
Proof. apply orb_true_r. Qed.

Lemma f32_key_bound b :
  is_f32 b = true -> f_exp b <> 2047 -> - max_float32_bits <= f_key b <= max_float32_bits.
Proof.
  unfold is_f32. intros H Hf. apply andb_true_iff in H as [Hb H]. apply andb_true_iff in Hb as [Hb1 Hb2].
  apply Z.leb_le in Hb1. apply Z.ltb_lt in Hb2. cbv zeta in H.
  destruct (f_exp b =? 0) eqn:E0.
  { apply Z.eqb_eq in E0, H. revert E0 H.
    unfold f_key, f_sign, f_exp, f_mant, two64, two63, max_float32_bits in *. intros E0 H.
    destruct (Z.eqb_spec (b / 9223372036854775808) 1); Z.div_mod_to_equations; lia. }
  destruct (f_exp b =? 2047) eqn:E1; [apply Z.eqb_eq in E1; contradiction|].
  destruct ((897 <=? f_exp b) && (f_exp b <=? 1150)) eqn:E2.
  { apply andb_true_iff in E2 as [E2 E3]. apply Z.leb_le in E2, E3. apply Z.eqb_eq in H. revert E2 E3 H. clear E0 E1 Hf.
    unfold f_key, f_sign, f_exp, f_mant, two64, two63, max_float32_bits in *. intros E2 E3 H.
    destruct (Z.eqb_spec (b / 9223372036854775808) 1); Z.div_mod_to_equations; lia. }
  destruct ((874 <=? f_exp b) && (f_exp b <=? 896)) eqn:E3; [|discriminate H].
  apply andb_true_iff in E3 as [E3 E4]. apply Z.leb_le in E3, E4. clear H E0 E1 E2 Hf. revert E3 E4.
  unfold f_key, f_sign, f_exp, f_mant, two64, two63, max_float32_bits in *. intros E3 E4.
  destruct (Z.eqb_spec (b / 9223372036854775808) 1); Z.div_mod_to_equations; lia.
Qed.

Lemma float32_accepts b :
  is_f32 b = true -> f_finite b = true ->
  f_le neg_max_float32_bits b && f_le b max_float32_bits = true.
Proof.
  intros Hb Hf. pose proof (finite_not_nan b Hf) as Hn.
  unfold f_finite in Hf. apply negb_true_iff in Hf. apply Z.eqb_neq in Hf.
  pose proof (f32_key_bound b Hb Hf) as Hk.
  unfold f_le. rewrite Hn.
  change (f_is_nan neg_max_float32_bits) with false. change (f_is_nan max_float32_bits) with false.
  change (f_key neg_max_float32_bits) with (- max_float32_bits). change (f_key max_float32_bits) with max_float32_bits.
  cbn [negb andb]. apply andb_true_iff; split; apply Z.leb_le; lia.
Qed.

Lemma inst_optional t v : inst t v = true -> inst (TOptional t) v = true.
Proof. intros H. cbn [inst]. destruct v; auto. Qed.

Section Accepts.
  Variable ffmt : Z -> str.

  Definition acc_prop (v : gval) : Prop :=
    forall w t, has_type v t = true -> acc_ok w t v = true -> (w = false -> is_iface t = false) ->
                inst (ptype_of t) (wrapx ffmt w t v) = true.

  Lemma acc_slice es : Forall acc_prop es -> acc_prop (GVSlice (Some es)).
  Proof.
    intros IH w t Ht Ha _. destruct t; cbn [has_type] in Ht; try discriminate Ht.
    cbn [acc_ok elem_ty] in Ha. rewrite wrapx_slice, ptype_of_slice. destruct (is_u8 t) eqn:Eu; [reflexivity|].
    cbn [inst]. apply forallb_forall. intros x Hx. apply in_map_iff in Hx as [y [<- Hy]].
    rewrite Forall_forall in IH. rewrite forallb_forall in Ht, Ha. apply IH; auto. discriminate.
  Qed.

  Lemma acc_map kvs : Forall (fun kv => acc_prop (fst kv) /\ acc_prop (snd kv)) kvs -> acc_prop (GVMap (Some kvs)).
  Proof.
    intros IH w t Ht Ha _. destruct t; cbn [has_type] in Ht; try discriminate Ht.
    apply andb_true_iff in Ht as [_ Hall].
    cbn [acc_ok elem_ty key_ty] in Ha. cbn [wrapx elem_ty key_ty ptype_of inst].
    apply forallb_forall. intros e He.
    apply (Permutation_in _ (Permutation_sym (sorted_map_perm ffmt _))) in He.
    apply in_map_iff in He as [kv [<- Hin]]. cbn [fst snd].
    rewrite forallb_forall in Hall, Ha. rewrite Forall_forall in IH.
    destruct (IH _ Hin) as [IHk IHv]. specialize (Hall _ Hin). specialize (Ha _ Hin).
    apply andb_true_iff in Hall as [Hh Hv]. apply andb_true_iff in Hh as [Hk _].
    apply andb_true_iff in Ha as [Hak Hav].
    rewrite IHk, IHv; auto; discriminate.
  Qed.

  Lemma acc_ptr x : acc_prop x -> acc_prop (GVPtr (Some x)).
  Proof.
    intros IH w t Ht Ha _. destruct t; cbn [has_type] in Ht; try discriminate Ht.
    apply andb_true_iff in Ht as [Hi Hx]. apply negb_true_iff in Hi.
    cbn [acc_ok elem_ty] in Ha. cbn [wrapx elem_ty ptype_of].
    destruct (is_struct_ty t) eqn:Es.
    - destruct t; try discriminate Es. cbn [struct_name ptype_of inst]. apply str_eqb_refl.
    - cbn [orb] in Ha.
      destruct x as [| | | |[|]|[|]|[|]| |[|]|]; try solve [apply inst_optional; apply IH; auto];
        try solve [destruct t; cbn [has_type] in Hx; try discriminate Hx; reflexivity].
  Qed.

  Theorem accepts_gen : forall v, acc_prop v.
  Proof.
    induction v using gval_ind'.
    - intros w t Ht Ha _. destruct t; cbn [has_type] in Ht; try discriminate Ht.
      apply ik_range_cases in Ht. cbn [acc_ok] in Ha. cbn [wrapx wrap_primitive ptype_of].
      apply int_accepts; [exact Ht|]. destruct k; exact Ha || reflexivity.
    - intros w t Ht Ha _. cbn [acc_ok] in Ha.
      destruct t; cbn [has_type] in Ht; try discriminate Ht; cbn [wrapx wrap_primitive ptype_of inst].
      + rewrite float32_accepts by assumption. reflexivity.
      + apply float64_accepts.
    - intros w t Ht _ _. destruct t; cbn [has_type] in Ht; try discriminate Ht. reflexivity.
    - intros w t Ht _ _. destruct t; cbn [has_type] in Ht; try discriminate Ht. reflexivity.
    - intros w t Ht Ha _. destruct t; cbn [has_type] in Ht; try discriminate Ht.
      cbn [acc_ok elem_ty] in Ha. apply andb_true_iff in Ha as [-> Ha].
      rewrite wrapx_slice_nil, ptype_of_slice. cbn [andb].
      destruct (is_u8 t); [reflexivity|]. rewrite orb_false_r in Ha. rewrite Ha. reflexivity.
    - apply acc_slice; assumption.
    - intros w t Ht Ha _. destruct t; cbn [has_type] in Ht; try discriminate Ht.
      cbn [acc_ok elem_ty key_ty] in Ha. cbn [wrapx elem_ty key_ty]. rewrite Ha. reflexivity.
    - apply acc_map; assumption.
    - intros w t Ht _ _. destruct t; cbn [has_type] in Ht; try discriminate Ht. reflexivity.
    - apply acc_ptr; assumption.
    - intros w t Ht _ _. destruct t; cbn [has_type] in Ht; try discriminate Ht.
      cbn [wrapx struct_name ptype_of inst]. apply str_eqb_refl.
    - intros w t Ht _ _. destruct t; cbn [has_type] in Ht; try discriminate Ht. reflexivity.
    - intros w t Ht _ _. destruct t; cbn [has_type] in Ht; try discriminate Ht. reflexivity.
    - intros w t Ht. destruct t; discriminate Ht.
  Qed.

  Corollary ptype_accepts v t :
    has_type v t = true -> acc_ok true t v = true -> inst (ptype_of t) (wrap ffmt t v) = true.
  Proof. intros Ht Ha. apply accepts_gen; auto. discriminate. Qed.
End Accepts.

(* ------------------------------------------------------------------------------------------------ *)
(** * reflect.DeepEqual of the model is reflexive on well-typed values; the unguarded statements are false *)

Lemma gty_eqb_refl t : gty_eqb t t = true.
Proof.
  induction t; cbn [gty_eqb]; auto using str_eqb_refl;
    try (destruct k; reflexivity); try (rewrite IHt1, IHt2; reflexivity).
Qed.

Lemma gval_eqb_refl : forall v t, has_type v t = true -> gval_eqb v v = true.
Proof.
  induction v using gval_ind'; intros t Ht; cbn [gval_eqb]; auto using Z.eqb_refl, str_eqb_refl, eqb_reflx.
  - destruct t; cbn [has_type] in Ht; try discriminate Ht. rewrite forallb_forall in Ht.
    induction es as [|x es IHes]; [reflexivity|]. inversion H as [|? ? Hx Hes]; subst.
    rewrite (Hx t) by (apply Ht; left; reflexivity). cbn [andb]. apply IHes; auto. intros y Hy. apply Ht. right; exact Hy.
  - destruct t; cbn [has_type] in Ht; try discriminate Ht.
    apply andb_true_iff in Ht as [_ Ht]. rewrite forallb_forall in Ht.
    induction kvs as [|[k x] kvs IHk]; [reflexivity|]. inversion H as [|? ? [Hk Hx] Hr]; subst. cbn [fst snd] in *.
    pose proof (Ht _ (or_introl eq_refl)) as Hh. cbn [fst snd] in Hh.
    apply andb_true_iff in Hh as [Hh Hv]. apply andb_true_iff in Hh as [Hkt _].
    rewrite (Hk _ Hkt), (Hx _ Hv). cbn [andb]. apply IHk; auto. intros y Hy. apply Ht. right; exact Hy.
  - destruct t; cbn [has_type] in Ht; try discriminate Ht. apply andb_true_iff in Ht as [_ Ht]. eauto.
  - destruct t; cbn [has_type] in Ht; try discriminate Ht.
    revert fs0 Ht. induction fs as [|x fs IHfs]; intros gfs Ht; [reflexivity|].
    destruct gfs as [|f gfs]; [discriminate Ht|]. apply andb_true_iff in Ht as [Hx Hr].
    inversion H as [|? ? Px Pfs]; subst. rewrite (Px _ Hx). cbn [andb]. eapply IHfs; eauto.
  - destruct t; cbn [has_type] in Ht; try discriminate Ht. apply andb_true_iff in Ht as [_ Ht].
    rewrite gty_eqb_refl, (IHv _ Ht). reflexivity.
Qed.

Lemma roundtrip_deep_equal ffmt v t :
  has_type v t = true -> rt_ok true t v = true ->
  exists b, reflect_to t (wrap ffmt t v) = Ok b /\ gval_eqb v b = true.
Proof. intros Ht Hr. exists v. split; [apply roundtrip; assumption|eapply gval_eqb_refl; eauto]. Qed.

Lemma statement_roundtrip_refuted :
  ~ (forall (ffmt : Z -> str) v t, has_type v t = true -> reflect_to t (wrap ffmt t v) = Ok v).
Proof.
  intros H. specialize (H (fun _ => []) (GVSlice None) (GSlice (GInt KInt)) eq_refl). vm_compute in H. discriminate H.
Qed.

Lemma statement_ptype_accepts_refuted :
  ~ (forall (ffmt : Z -> str) v t, has_type v t = true -> inst (ptype_of t) (wrap ffmt t v) = true).
Proof.
  intros H. specialize (H (fun _ => []) (GVInt 18446744073709551615) (GInt KUint64) eq_refl). vm_compute in H. discriminate H.
Qed.

(* ------------------------------------------------------------------------------------------------ *)
(** * The guards hold on every value without a member of a finding class *)

Lemma plain_value_guards : forall v w t, plain_value t v = true -> rt_ok w t v = true /\ acc_ok w t v = true.
Proof.
  induction v using gval_ind'; intros w t Hp; cbn [plain_value] in Hp; cbn [rt_ok acc_ok]; auto; try discriminate Hp.
  - rewrite forallb_forall in Hp. rewrite Forall_forall in H.
    split; apply forallb_forall; intros x Hx; apply (H x Hx true); auto.
  - rewrite forallb_forall in Hp. rewrite Forall_forall in H.
    split; apply forallb_forall; intros kv Hin; specialize (Hp _ Hin); apply andb_true_iff in Hp as [Hk Hv];
      destruct (H _ Hin) as [IHk IHv].
    + apply (IHv true); auto.
    + rewrite (proj2 (IHk true _ Hk)), (proj2 (IHv true _ Hv)). reflexivity.
  - destruct (is_struct_ty (elem_ty t)); [auto|]. cbn [orb] in *.
    apply andb_true_iff in Hp as [Hn Hx]. destruct (IHv false _ Hx) as [Hr Ha]. rewrite Hn, Hr. cbn [andb].
    split.
    + destruct v as [| | | |[|]|[|]| | | |]; try reflexivity; discriminate Hx.
    + destruct v as [| | | |[|]|[|]|[|]| | |]; auto.
Qed.

(* ------------------------------------------------------------------------------------------------ *)
(** * Struct <-> object: constructing from the attribute values of the wrapped struct gives the struct back *)

Definition dflt_field : gfield := GField [] None None GIface.

Lemma in_indexed_fields fs j :
  (j < length fs)%nat -> In (j, nth j fs dflt_field) (indexed_fields fs).
Proof.
  intros Hj. unfold indexed_fields.
  replace (j, nth j fs dflt_field) with (nth j (combine (seq 0 (length fs)) fs) (O, dflt_field)).
  - apply nth_In. rewrite combine_length, seq_length, Nat.min_id. exact Hj.
  - rewrite combine_nth by apply seq_length. rewrite seq_nth by exact Hj. reflexivity.
Qed.

Lemma indexed_fields_in fs p :
  In p (indexed_fields fs) -> (fst p < length fs)%nat /\ snd p = nth (fst p) fs dflt_field.
Proof.
  unfold indexed_fields. intros Hin.
  destruct (In_nth _ _ (O, dflt_field) Hin) as [k [Hk Ek]].
  rewrite combine_length, seq_length, Nat.min_id in Hk.
  rewrite combine_nth in Ek by apply seq_length. rewrite seq_nth in Ek by exact Hk.
  subst p. cbn [fst snd]. auto.
Qed.

Lemma attr_order_in fs p : In p (attr_order fs) -> In p (indexed_fields fs).
Proof. unfold attr_order. intros H. apply in_app_or in H as [H|H]; apply filter_In in H; tauto. Qed.

Lemma attr_order_covers fs j :
  (j < length fs)%nat -> existsb (fun p => Nat.eqb (fst p) j) (attr_order fs) = true.
Proof.
  intros Hj. apply existsb_exists. exists (j, nth j fs dflt_field). split; [|apply Nat.eqb_refl].
  unfold attr_order. apply in_or_app.
  destruct (attr_has_value (nth j fs dflt_field)) eqn:Ev; [right|left]; apply filter_In;
    (split; [apply in_indexed_fields; exact Hj|cbn [snd]; rewrite Ev; reflexivity]).
Qed.

Lemma length_set_nth {A} i (x : A) l : length (set_nth i x l) = length l.
Proof. revert i; induction l as [|y l IH]; intros [|i]; cbn [set_nth length]; auto. Qed.

Lemma nth_set_nth {A} i (x : A) l j d :
  nth j (set_nth i x l) d = if Nat.eqb i j && Nat.ltb i (length l) then x else nth j l d.
Proof.
  revert i j; induction l as [|y l IH]; intros [|i] [|j]; cbn [set_nth nth length]; try reflexivity.
  - destruct (Nat.eqb _ _); reflexivity.
  - rewrite IH. reflexivity.
Qed.

Lemma fold_set_nth_spec (vs : list gval) (l : list (nat * gfield)) : forall acc,
  length acc = length vs ->
  let r := fold_left (fun acc p => set_nth (fst p) (nth (fst p) vs GVOutside) acc) l acc in
  length r = length vs /\
  forall j, nth j r GVOutside =
            if existsb (fun p => Nat.eqb (fst p) j) l then nth j vs GVOutside else nth j acc GVOutside.
Proof.
  induction l as [|p l IH]; intros acc Hl; cbn [fold_left existsb].
  - auto.
  - destruct (IH (set_nth (fst p) (nth (fst p) vs GVOutside) acc)) as [Hlen Hn].
    { rewrite length_set_nth. exact Hl. }
    split; [exact Hlen|]. intros j. rewrite Hn, nth_set_nth.
    destruct (existsb _ l); [rewrite orb_true_r; reflexivity|]. rewrite orb_false_r.
    destruct (Nat.eqb_spec (fst p) j) as [->|Hne]; [|reflexivity]. cbn [andb].
    destruct (Nat.ltb_spec j (length acc)) as [Hlt|Hge]; [reflexivity|].
    rewrite (nth_overflow acc) by exact Hge. rewrite (nth_overflow vs) by (rewrite <- Hl; exact Hge). reflexivity.
Qed.

Lemma fold_set_nth_all fs (vs acc : list gval) :
  length vs = length fs -> length acc = length fs ->
  fold_left (fun acc p => set_nth (fst p) (nth (fst p) vs GVOutside) acc) (attr_order fs) acc = vs.
Proof.
  intros Hv Ha. destruct (fold_set_nth_spec vs (attr_order fs) acc) as [Hlen Hn]; [congruence|].
  apply (nth_ext _ _ GVOutside GVOutside); [exact Hlen|].
  intros j Hj. rewrite Hn, attr_order_covers; [reflexivity|]. rewrite Hlen, Hv in Hj. exact Hj.
Qed.

Lemma args_ok_map (g : nat * gfield -> value) l :
  (forall p, In p l -> inst (attr_ty (snd p)) (g p) = true) -> args_ok l (map g l) = true.
Proof.
  induction l as [|p l IH]; intros H; cbn [map args_ok]; [reflexivity|].
  rewrite (H p (or_introl eq_refl)). cbn [andb]. apply IH. intros q Hq. apply H. right; exact Hq.
Qed.

Lemma set_values_map (g : nat * gfield -> value) (h : nat * gfield -> gval) l : forall acc,
  (forall p, In p l -> reflect_to (f_ty (snd p)) (g p) = Ok (h p)) ->
  set_values l (map g l) acc = Ok (fold_left (fun acc p => set_nth (fst p) (h p) acc) l acc).
Proof.
  induction l as [|p l IH]; intros acc H; cbn [map set_values fold_left tl]; [reflexivity|].
  rewrite (H p (or_introl eq_refl)). cbn [rbind]. apply IH. intros q Hq. apply H. right; exact Hq.
Qed.

Lemma has_type_struct n fs vs :
  has_type (GVStruct vs) (GStruct n fs) = true -> Forall2 (fun v f => has_type v (f_ty f) = true) vs fs.
Proof.
  cbn [has_type]. revert fs. induction vs as [|v vs IH]; intros [|f fs] H; try discriminate H; constructor.
  - apply andb_true_iff in H as [H _]. exact H.
  - apply andb_true_iff in H as [_ H]. apply IH. exact H.
Qed.

Lemma Forall2_nth_ok {A B} (R : A -> B -> Prop) l1 l2 d1 d2 :
  Forall2 R l1 l2 -> forall i, (i < length l2)%nat -> R (nth i l1 d1) (nth i l2 d2).
Proof.
  induction 1 as [|x y l1 l2 Hxy HF IH]; intros [|i] Hi; cbn [length nth] in *; try lia; auto.
  apply IH. lia.
Qed.

Lemma Forall2_same_length {A B} (R : A -> B -> Prop) l1 l2 : Forall2 R l1 l2 -> length l1 = length l2.
Proof. induction 1; cbn [length]; congruence. Qed.

Definition field_ok (f : gfield) (v : gval) : bool :=
  is_iface (f_ty f) || (rt_ok false (f_ty f) v && acc_ok false (f_ty f) v).

Lemma obj_ok_fields fs : forall vs, obj_ok fs vs = true -> Forall2 (fun v f => field_ok f v = true) vs fs.
Proof.
  induction fs as [|f fs IH]; intros [|v vs] H; cbn [obj_ok] in H; try discriminate H; constructor.
  - apply andb_true_iff in H as [H _]. exact H.
  - apply andb_true_iff in H as [_ H]. apply IH. exact H.
Qed.

Lemma inst_set_addr a : forall t val, inst t (set_addr a val) = inst t val.
Proof.
  induction t; intros val; destruct val as [| | | | | | | |n b p| |]; try reflexivity;
    destruct p; cbn [set_addr inst]; try reflexivity;
    match goal with |- inst _ _ = inst _ ?v => exact (IHt v) end.
Qed.

Lemma required_le_order fs : (required_count fs <= length (attr_order fs))%nat.
Proof. unfold required_count, attr_order. rewrite app_length. lia. Qed.

Lemma args_ok_nil order : args_ok order [] = true.
Proof. destruct order; reflexivity. Qed.

Section ObjectRoundTrip.
  Variable ffmt : Z -> str.

  (* only a struct taken as it is carries the addressability flag *)
  Lemma set_addr_wrapx a : forall v t,
    has_type v t = true -> (forall fs, v <> GVStruct fs) ->
    set_addr a (wrapx ffmt false t v) = wrapx ffmt false t v.
  Proof.
    induction v using gval_ind'; intros t Ht Hns; destruct t; cbn [has_type] in Ht; try discriminate Ht;
      try reflexivity.
    - rewrite wrapx_slice. destruct (is_u8 t); reflexivity.
    - apply andb_true_iff in Ht as [Hi Hx]. cbn [wrapx elem_ty].
      destruct (is_struct_ty t) eqn:Es; [reflexivity|].
      apply IHv; [exact Hx|]. intros fs ->. destruct t; cbn [has_type] in Hx; try discriminate Hx. discriminate Es.
    - exfalso. eapply Hns; reflexivity.
    - apply andb_true_iff in Ht as [Hs _]. cbn [wrapx]. destruct d; try discriminate Hs; reflexivity.
  Qed.

  Lemma field_roundtrip a v t :
    has_type v t = true -> (is_iface t || rt_ok false t v) = true ->
    reflect_to t (set_addr a (wrap_reflected ffmt t v)) = Ok v.
  Proof.
    unfold wrap_reflected. intros Ht Hok.
    destruct v as [| | | | | | | fs | |]; try (rewrite set_addr_wrapx by (auto; discriminate)).
    8: { destruct t; cbn [has_type] in Ht; try discriminate Ht.
         cbn [wrapx set_addr struct_name reflect_to]. rewrite str_eqb_refl. reflexivity. }
    all: destruct (is_iface t) eqn:Ei;
      [ destruct t; try discriminate Ei; cbn [has_type] in Ht; try discriminate Ht; try solve [absurd_match]
      | apply roundtrip_gen; auto ].
    destruct o as [[d x]|]; [|reflexivity].
    apply andb_true_iff in Ht as [Hs _]. cbn [wrapx]. destruct d; try discriminate Hs; reflexivity.
  Qed.

  Lemma field_accepts a v t :
    has_type v t = true -> (is_iface t || acc_ok false t v) = true ->
    inst (ptype_of t) (set_addr a (wrap_reflected ffmt t v)) = true.
  Proof.
    unfold wrap_reflected. intros Ht Hok. rewrite inst_set_addr.
    destruct (is_iface t) eqn:Ei.
    - destruct t; try discriminate Ei. reflexivity.
    - apply accepts_gen; auto.
  Qed.

  Theorem struct_object_roundtrip a n fs vs :
    has_type (GVStruct vs) (GStruct n fs) = true -> obj_ok fs vs = true ->
    obj_new n fs (obj_gets ffmt a fs vs) = Ok (VObj n true (GVStruct vs)) /\
    reflect_to (GStruct n fs) (VObj n true (GVStruct vs)) = Ok (GVStruct vs) /\
    reflect_to (GPtr (GStruct n fs)) (VObj n true (GVStruct vs)) = Ok (GVPtr (Some (GVStruct vs))).
  Proof.
    intros Ht Hok. split; [|cbn [reflect_to]; rewrite str_eqb_refl; auto].
    pose proof (has_type_struct _ _ _ Ht) as HT. pose proof (obj_ok_fields _ _ Hok) as HO.
    assert (Hlen : length vs = length fs) by (eapply Forall2_same_length; eauto).
    set (g := fun p : nat * gfield => set_addr a (wrap_reflected ffmt (f_ty (snd p)) (nth (fst p) vs GVOutside))).
    set (h := fun p : nat * gfield => nth (fst p) vs GVOutside).
    assert (Hfield : forall p, In p (attr_order fs) ->
              has_type (h p) (f_ty (snd p)) = true /\ field_ok (snd p) (h p) = true).
    { intros p Hp. apply attr_order_in, indexed_fields_in in Hp as [Hi Ef]. unfold h. rewrite Ef. split.
      - apply (Forall2_nth_ok _ _ _ GVOutside dflt_field HT). exact Hi.
      - apply (Forall2_nth_ok _ _ _ GVOutside dflt_field HO). exact Hi. }
    unfold obj_new, obj_gets. fold g.
    rewrite map_length. rewrite (proj2 (Nat.leb_le _ _) (required_le_order fs)). cbn [andb].
    rewrite args_ok_map.
    - rewrite (set_values_map g h).
      + cbn [rbind]. unfold h. rewrite fold_set_nth_all; [reflexivity|exact Hlen|apply map_length].
      + intros p Hp. destruct (Hfield p Hp) as [H1 H2]. unfold g. apply field_roundtrip; [exact H1|].
        unfold field_ok in H2. destruct (is_iface (f_ty (snd p))); [reflexivity|].
        cbn [orb] in *. apply andb_true_iff in H2 as [H2 _]. exact H2.
    - intros p Hp. destruct (Hfield p Hp) as [H1 H2]. unfold g, attr_ty. apply field_accepts; [exact H1|].
      unfold field_ok in H2. destruct (is_iface (f_ty (snd p))); [reflexivity|].
      cbn [orb] in *. apply andb_true_iff in H2 as [_ H2]. exact H2.
  Qed.

  (* ---- used destinations: whatever the destination held, and after any sequence of earlier conversions *)

  Theorem roundtrip_used_destination t v d (hist : list value) :
    has_type v t = true -> rt_ok true t v = true ->
    reflect_into t (reflect_hist t d hist) (wrap ffmt t v) = Ok v /\
    reflect_hist t d (hist ++ [wrap ffmt t v]) = v.
  Proof.
    intros Ht Hok. pose proof (roundtrip ffmt v t Ht Hok) as R. split.
    - unfold reflect_into. exact R.
    - unfold reflect_hist. rewrite fold_left_app. cbn [fold_left]. unfold dest_after, reflect_into. rewrite R. reflexivity.
  Qed.

  (* ---- declared defaults: positional arguments without the trailing defaults, and the init hash *)

  Lemma attr_has_value_default f :
    attr_has_value f = match attr_default f with Some _ => true | None => false end.
  Proof. unfold attr_has_value, attr_default. destruct (f_tvalue f); [reflexivity|]. destruct (is_ptr_ty (f_ty f)); reflexivity. Qed.

  Lemma default_eqb_eq d v :
    default_eqb d v = true -> match d with VFloat b => f_is_zero b = false | _ => True end -> v = d.
  Proof.
    intros H Hz. destruct d, v; cbn [default_eqb] in H; try discriminate H; try reflexivity.
    - apply eqb_prop in H. congruence.
    - apply Z.eqb_eq in H. congruence.
    - unfold f_eq in H. rewrite Hz in H. cbn [andb] in H. rewrite orb_false_r in H.
      apply andb_true_iff in H as [_ H]. apply Z.eqb_eq in H. congruence.
    - apply str_eqb_eq in H. congruence.
  Qed.

  Lemma is_default_eq fs f v :
    defaults_ok fs = true -> In f fs -> is_default f v = true -> v = default_or_undef f.
  Proof.
    intros Hd Hin H. unfold is_default, default_or_undef in *. destruct (attr_default f) as [d|] eqn:Ed; [|discriminate H].
    apply default_eqb_eq; [exact H|].
    unfold attr_default in Ed. unfold defaults_ok in Hd. rewrite forallb_forall in Hd. specialize (Hd f Hin).
    destruct (f_tvalue f) as [[z|s0|b|b]|].
    - injection Ed as <-. exact I.
    - injection Ed as <-. exact I.
    - injection Ed as <-. exact I.
    - injection Ed as <-. cbn [lit_value]. apply negb_true_iff in Hd. exact Hd.
    - destruct (is_ptr_ty (f_ty f)); [injection Ed as <-; exact I|discriminate Ed].
  Qed.

  Lemma attr_order_field fs p : In p (attr_order fs) -> In (snd p) fs.
  Proof.
    intros Hp. apply attr_order_in, indexed_fields_in in Hp as [Hi Ef]. rewrite Ef. apply nth_In. exact Hi.
  Qed.

  Lemma set_values_cut order : forall va i req acc,
    (forall p v, In p order -> is_default (snd p) v = true -> v = default_or_undef (snd p)) ->
    length va = length order ->
    set_values order (cut_defaults i req order va) acc = set_values order va acc.
  Proof.
    induction order as [|p order IH]; intros [|v va] i req acc HD Hl; cbn [length] in Hl; try discriminate Hl; [reflexivity|].
    assert (IH' : forall acc', set_values order (cut_defaults (S i) req order va) acc' = set_values order va acc').
    { intros acc'. apply IH; [|lia]. intros q w Hq. apply HD. right; exact Hq. }
    cbn [cut_defaults]. destruct (cut_defaults (S i) req order va) as [|r0 r] eqn:Ec.
    - destruct ((req <=? i)%nat && is_default (snd p) v) eqn:Ed.
      + apply andb_true_iff in Ed as [_ Ed]. apply HD in Ed; [|left; reflexivity]. subst v.
        cbn [set_values tl]. destruct (reflect_to (f_ty (snd p)) (default_or_undef (snd p))); cbn [rbind]; try reflexivity.
        apply IH'.
      + cbn [set_values tl]. destruct (reflect_to (f_ty (snd p)) v); cbn [rbind]; try reflexivity. apply IH'.
    - cbn [set_values tl]. destruct (reflect_to (f_ty (snd p)) v); cbn [rbind]; try reflexivity. apply IH'.
  Qed.

  Lemma args_ok_cut order : forall va i req,
    args_ok order va = true -> args_ok order (cut_defaults i req order va) = true.
  Proof.
    induction order as [|p order IH]; intros [|v va] i req H; cbn [cut_defaults]; try reflexivity.
    cbn [args_ok] in H. apply andb_true_iff in H as [H1 H2].
    pose proof (IH va (S i) req H2) as IH'.
    destruct (cut_defaults (S i) req order va) as [|r0 r] eqn:Ec.
    - destruct ((req <=? i)%nat && is_default (snd p) v); [reflexivity|].
      cbn [args_ok]. rewrite H1, args_ok_nil. reflexivity.
    - cbn [args_ok]. rewrite H1. cbn [andb]. exact IH'.
  Qed.

  Lemma cut_length order : forall va i req,
    length va = length order -> (req - i <= length va)%nat ->
    (req - i <= length (cut_defaults i req order va))%nat.
  Proof.
    induction order as [|p order IH]; intros [|v va] i req Hl Hr; cbn [length] in *; try discriminate Hl; cbn [cut_defaults].
    - exact Hr.
    - assert (IH' : (req - S i <= length (cut_defaults (S i) req order va))%nat) by (apply IH; lia).
      destruct (cut_defaults (S i) req order va) as [|r0 r] eqn:Ec.
      + destruct ((req <=? i)%nat && is_default (snd p) v) eqn:Ed; cbn [length] in *.
        * apply andb_true_iff in Ed as [Ed _]. apply Nat.leb_le in Ed. lia.
        * lia.
      + cbn [length] in *. lia.
  Qed.

  (* what struct_object_roundtrip says about the two steps of obj_new *)
  Lemma obj_new_full_steps a n fs vs :
    has_type (GVStruct vs) (GStruct n fs) = true -> obj_ok fs vs = true ->
    args_ok (attr_order fs) (obj_gets ffmt a fs vs) = true /\
    set_values (attr_order fs) (obj_gets ffmt a fs vs) (map (fun f => zero_of (f_ty f)) fs) = Ok vs.
  Proof.
    intros Ht Hok. destruct (struct_object_roundtrip a n fs vs Ht Hok) as [H _].
    unfold obj_new in H.
    destruct ((required_count fs <=? length (obj_gets ffmt a fs vs))%nat && args_ok (attr_order fs) (obj_gets ffmt a fs vs)) eqn:E;
      [|discriminate H].
    apply andb_true_iff in E as [_ E]. split; [exact E|].
    destruct (set_values _ _ _) as [vs'| |]; cbn [rbind] in H; try discriminate H. congruence.
  Qed.

  Theorem struct_object_trailing_defaults a n fs vs :
    has_type (GVStruct vs) (GStruct n fs) = true -> obj_ok fs vs = true -> defaults_ok fs = true ->
    obj_new n fs (cut_defaults 0 (required_count fs) (attr_order fs) (obj_gets ffmt a fs vs)) = Ok (VObj n true (GVStruct vs)).
  Proof.
    intros Ht Hok Hd. destruct (obj_new_full_steps a n fs vs Ht Hok) as [Ha Hs].
    assert (Hlen : length (obj_gets ffmt a fs vs) = length (attr_order fs)) by (unfold obj_gets; apply map_length).
    unfold obj_new. rewrite args_ok_cut by exact Ha.
    assert (Hc : (required_count fs <=? length (cut_defaults 0 (required_count fs) (attr_order fs) (obj_gets ffmt a fs vs)))%nat = true).
    { apply Nat.leb_le. pose proof (cut_length (attr_order fs) (obj_gets ffmt a fs vs) 0 (required_count fs) Hlen) as Hc.
      pose proof (required_le_order fs). lia. }
    rewrite Hc. cbn [andb]. rewrite set_values_cut; [rewrite Hs; reflexivity| |exact Hlen].
    intros p v Hp. apply (is_default_eq fs); [exact Hd|]. apply attr_order_field. exact Hp.
  Qed.

  Lemma hash_get_cons_eq k v h : hash_get k ((VStr k, v) :: h) = Some v.
  Proof. unfold hash_get. cbn [find fst]. rewrite str_eqb_refl. reflexivity. Qed.

  Lemma hash_get_cons_neq k k' v h : k' <> k -> hash_get k ((VStr k', v) :: h) = hash_get k h.
  Proof. intros Hne. unfold hash_get. cbn [find fst]. apply str_eqb_neq in Hne. rewrite Hne. reflexivity. Qed.

  Section InitHash.
    Variable g : nat * gfield -> value.
    Let F := fun p : nat * gfield => if is_default (snd p) (g p) then [] else [(VStr (attr_name (snd p)), g p)].
    Let nm := fun p : nat * gfield => attr_name (snd p).

    Lemma hash_get_absent k l : ~ In k (map nm l) -> hash_get k (flat_map F l) = None.
    Proof.
      induction l as [|q l IH]; intros Hn; [reflexivity|]. cbn [flat_map map] in *.
      assert (Hq : nm q <> k) by (intros E; apply Hn; left; exact E).
      assert (Hl : ~ In k (map nm l)) by (intros E; apply Hn; right; exact E).
      unfold F at 1. destruct (is_default (snd q) (g q)); cbn [app].
      - apply IH. exact Hl.
      - rewrite hash_get_cons_neq by exact Hq. apply IH. exact Hl.
    Qed.

    Lemma hash_get_flat_map l : NoDup (map nm l) -> forall p, In p l ->
      hash_get (nm p) (flat_map F l) = if is_default (snd p) (g p) then None else Some (g p).
    Proof.
      induction l as [|q l IH]; intros Hnd p Hin; [destruct Hin|]. cbn [map] in Hnd.
      apply NoDup_cons_iff in Hnd as [Hq Hnd]. cbn [flat_map]. destruct Hin as [<-|Hin].
      - unfold F at 1. destruct (is_default (snd q) (g q)); cbn [app].
        + apply hash_get_absent. exact Hq.
        + apply hash_get_cons_eq.
      - assert (Hne : nm q <> nm p) by (intros E; apply Hq; rewrite E; apply in_map; exact Hin).
        unfold F at 1. destruct (is_default (snd q) (g q)); cbn [app].
        + apply IH; assumption.
        + rewrite hash_get_cons_neq by exact Hne. apply IH; assumption.
    Qed.

    Lemma init_hash_keys l :
      forallb (fun e => match fst e with
                        | VStr k => existsb (fun p => str_eqb (attr_name (snd p)) k) l
                        | _ => false
                        end) (flat_map F l) = true.
    Proof.
      apply forallb_forall. intros e He. apply in_flat_map in He as [p [Hp He]]. unfold F in He.
      destruct (is_default (snd p) (g p)); [destruct He|]. destruct He as [<-|[]]. cbn [fst].
      apply existsb_exists. exists p. split; [exact Hp|apply str_eqb_refl].
    Qed.
  End InitHash.

  Theorem struct_object_init_hash a n fs vs :
    has_type (GVStruct vs) (GStruct n fs) = true -> obj_ok fs vs = true -> defaults_ok fs = true ->
    NoDup (obj_attr_names fs) ->
    obj_new_hash n fs (obj_init_hash ffmt a fs vs) = Ok (VObj n true (GVStruct vs)).
  Proof.
    intros Ht Hok Hd Hnd. destruct (obj_new_full_steps a n fs vs Ht Hok) as [Ha Hs].
    set (g := fun p : nat * gfield => set_addr a (wrap_reflected ffmt (f_ty (snd p)) (nth (fst p) vs GVOutside))).
    assert (Hg : forall p, In p (attr_order fs) ->
              hash_get (attr_name (snd p)) (obj_init_hash ffmt a fs vs) = if is_default (snd p) (g p) then None else Some (g p)).
    { intros p Hp. exact (hash_get_flat_map g (attr_order fs) Hnd p Hp). }
    assert (Hinst : forall p, In p (attr_order fs) -> inst (attr_ty (snd p)) (g p) = true).
    { clear - Ha. unfold obj_gets in Ha. fold g in Ha. revert Ha. generalize (attr_order fs) as l.
      induction l as [|q l IH]; intros Ha p Hp; [destruct Hp|]. cbn [map args_ok] in Ha.
      apply andb_true_iff in Ha as [H1 H2]. destruct Hp as [<-|Hp]; [exact H1|]. apply IH; assumption. }
    unfold obj_new_hash.
    assert (Hok' : init_hash_ok (attr_order fs) (obj_init_hash ffmt a fs vs) = true).
    { unfold init_hash_ok. apply andb_true_iff. split.
      - apply forallb_forall. intros p Hp. rewrite (Hg p Hp).
        destruct (is_default (snd p) (g p)) eqn:Ed; [|apply Hinst; exact Hp].
        rewrite attr_has_value_default. unfold is_default in Ed. destruct (attr_default (snd p)); [reflexivity|discriminate Ed].
      - exact (init_hash_keys g (attr_order fs)). }
    rewrite Hok'. unfold positional_from_hash.
    assert (Hmap : map (fun p => match hash_get (attr_name (snd p)) (obj_init_hash ffmt a fs vs) with
                                 | Some v => v
                                 | None => default_or_undef (snd p)
                                 end) (attr_order fs) = obj_gets ffmt a fs vs).
    { unfold obj_gets. fold g. apply map_ext_in. intros p Hp. rewrite (Hg p Hp).
      destruct (is_default (snd p) (g p)) eqn:Ed; [|reflexivity].
      symmetry. apply (is_default_eq fs); [exact Hd|apply attr_order_field; exact Hp|exact Ed]. }
    rewrite Hmap. rewrite set_values_cut; [rewrite Hs; reflexivity| |unfold obj_gets; apply map_length].
    intros p v Hp. apply (is_default_eq fs); [exact Hd|]. apply attr_order_field. exact Hp.
  Qed.
End ObjectRoundTrip.
