(* Refinement of the index-carrying StringHash model to the abstract insertion-ordered map. *)
From Coq Require Import ZArith NArith Bool Lia List.
From PcoreV Require Import Model.Base Model.StringHash.
Import ListNotations.
Open Scope Z_scope.
Local Arguments Nat.ltb : simpl never.
Local Arguments Nat.sub : simpl never.

Fixpoint pos (k : str) (es : list (str * val)) : option nat :=
  match es with
  | [] => None
  | (k', _) :: r => if str_eqb k k' then Some O else option_map S (pos k r)
  end.

Definition idx_ok (es : list (str * val)) (idx : list (str * Z)) : Prop :=
  forall k, alookup idx k = option_map Z.of_nat (pos k es).

Definition rel (c : sh) (s : ssh) : Prop :=
  entries c = sents s /\ frozen c = sfrozen s /\ NoDup (map fst (entries c)) /\
  idx_ok (entries c) (index c).

Lemma pos_none_lookup k es : pos k es = None -> s_lookup es k = None.
Proof.
  induction es as [|[k' v'] r IH]; cbn; [reflexivity|].
  destruct (str_eqb k k'); [discriminate|].
  destruct (pos k r); [discriminate|]. auto.
Qed.

Lemma pos_some k es n : pos k es = Some n ->
  exists v, nth_error es n = Some (k, v) /\ s_lookup es k = Some v.
Proof.
  revert n; induction es as [|[k' v'] r IH]; cbn; intros n H; [discriminate|].
  destruct (str_eqb_spec k k') as [->|Hn].
  - inversion H; subst; cbn. eauto.
  - destruct (pos k r) as [m|] eqn:E; [|discriminate]. inversion H; subst; cbn.
    destruct (IH m eq_refl) as [v [H1 H2]]. eauto.
Qed.

Lemma pos_lt k es n : pos k es = Some n -> (n < length es)%nat.
Proof.
  intros H. destruct (pos_some _ _ _ H) as [v [H1 _]].
  apply nth_error_Some. congruence.
Qed.

Lemma pos_none_notin k es : pos k es = None -> ~ In k (map fst es).
Proof.
  induction es as [|[k' v'] r IH]; cbn; [tauto|].
  destruct (str_eqb_spec k k') as [->|Hn]; [discriminate|].
  destruct (pos k r); [discriminate|]. intros _ [H|H]; [congruence|]. now apply IH.
Qed.

Lemma notin_pos_none k es : ~ In k (map fst es) -> pos k es = None.
Proof.
  induction es as [|[k' v'] r IH]; cbn; [reflexivity|]. intros H.
  destruct (str_eqb_spec k k') as [->|Hn]; [tauto|]. rewrite IH; tauto.
Qed.

Lemma eget_of_nat {A} (es : list A) n : eget es (Z.of_nat n) = nth_error es n.
Proof. unfold eget. destruct (Z.ltb_spec (Z.of_nat n) 0); [lia|]. now rewrite Nat2Z.id. Qed.

(* replace *)
Lemma replace_spec k es n v : pos k es = Some n ->
  eset es n v = s_replace es k v /\ map fst (s_replace es k v) = map fst es /\
  (forall k', pos k' (s_replace es k v) = pos k' es).
Proof.
  revert n; induction es as [|[k' v'] r IH]; cbn; intros n H; [discriminate|].
  destruct (str_eqb_spec k k') as [->|Hn].
  - inversion H; subst; cbn. repeat split; auto.
  - destruct (pos k r) as [m|] eqn:E; [|discriminate]. inversion H; subst; cbn.
    destruct (IH m eq_refl) as [H1 [H2 H3]]. repeat split.
    + now rewrite H1.
    + now rewrite H2.
    + intros k''. now rewrite H3.
Qed.

(* append *)
Lemma pos_app_new k k' v es : pos k es = None ->
  pos k' (es ++ [(k, v)]) = if str_eqb k' k then Some (length es) else pos k' es.
Proof.
  induction es as [|[k0 v0] r IH]; cbn; intros H.
  - destruct (str_eqb k' k); reflexivity.
  - destruct (str_eqb_spec k k0) as [->|Hn]; [discriminate|].
    destruct (pos k r) eqn:E; [discriminate|]. rewrite (IH eq_refl).
    destruct (str_eqb_spec k' k0) as [->|Hn'].
    + destruct (str_eqb_spec k0 k); [congruence|reflexivity].
    + destruct (str_eqb k' k); reflexivity.
Qed.


Lemma nodup_snoc {A} (l : list A) x : NoDup l -> ~ In x l -> NoDup (l ++ [x]).
Proof.
  induction l as [|y l IH]; cbn; intros Hn Hi.
  - constructor; [tauto|constructor].
  - inversion Hn; subst. constructor.
    + rewrite in_app_iff; cbn. intros [H|[H|[]]]; [tauto|subst; tauto].
    + apply IH; tauto.
Qed.

(* remove *)
Lemma remove_spec k es n : pos k es = Some n -> eremove es n = s_remove es k.
Proof.
  revert n; induction es as [|[k' v'] r IH]; cbn; intros n H; [discriminate|].
  destruct (str_eqb_spec k k') as [->|Hn].
  - inversion H; subst; reflexivity.
  - destruct (pos k r) as [m|] eqn:E; [|discriminate]. inversion H; subst; cbn.
    now rewrite (IH m eq_refl).
Qed.

Lemma remove_incl k es x : In x (map fst (s_remove es k)) -> In x (map fst es).
Proof.
  induction es as [|[k' v'] r IH]; cbn; [tauto|].
  destruct (str_eqb k k'); cbn; [tauto|]. intros [H|H]; auto.
Qed.

Lemma remove_nodup k es : NoDup (map fst es) -> NoDup (map fst (s_remove es k)).
Proof.
  induction es as [|[k' v'] r IH]; cbn; intros H; [constructor|].
  inversion H; subst. destruct (str_eqb k k'); cbn; [assumption|].
  constructor; [|auto]. intros Hi; apply remove_incl in Hi; tauto.
Qed.

Lemma pos_remove_same k es : NoDup (map fst es) -> pos k (s_remove es k) = None.
Proof.
  induction es as [|[k' v'] r IH]; cbn; intros H; [reflexivity|].
  inversion H; subst. destruct (str_eqb_spec k k') as [->|Hn].
  - now apply notin_pos_none.
  - cbn. destruct (str_eqb_spec k k'); [congruence|]. now rewrite IH.
Qed.

Lemma pos_remove_other k k' es n : k' <> k -> pos k es = Some n ->
  pos k' (s_remove es k) =
  match pos k' es with
  | Some m => if Nat.ltb n m then Some (m - 1)%nat else Some m
  | None => None
  end.
Proof.
  intros Hne. revert n; induction es as [|[k0 v0] r IH]; cbn; intros n H; [discriminate|].
  destruct (str_eqb_spec k k0) as [->|Hn].
  - inversion H; subst. destruct (str_eqb_spec k' k0); [congruence|].
    destruct (pos k' r) as [m|]; cbn; [|reflexivity].
    destruct (Nat.ltb_spec 0 (S m)); [f_equal; lia|lia].
  - destruct (pos k r) as [p|] eqn:E; [|discriminate]. inversion H; subst; cbn.
    destruct (str_eqb_spec k' k0) as [->|Hn']; [reflexivity|].
    rewrite (IH p eq_refl). destruct (pos k' r) as [m|]; cbn [option_map]; [|reflexivity].
    destruct (Nat.ltb_spec p m); destruct (Nat.ltb_spec (S p) (S m)); try lia; cbn [option_map]; f_equal; lia.
Qed.

Lemma alookup_adel idx k k' :
  alookup (adel idx k) k' = if str_eqb k' k then None else alookup idx k'.
Proof.
  unfold adel. induction idx as [|[k0 p0] r IH]; cbn.
  - destruct (str_eqb k' k); reflexivity.
  - destruct (str_eqb_spec k k0) as [->|Hn]; cbn.
    + rewrite IH. destruct (str_eqb_spec k' k0); reflexivity.
    + rewrite IH. destruct (str_eqb_spec k' k0) as [->|Hn'].
      * destruct (str_eqb_spec k0 k); [congruence|reflexivity].
      * reflexivity.
Qed.

Lemma alookup_map idx (f : Z -> bool) k :
  alookup (map (fun kv : str * Z => if f (snd kv) then (fst kv, snd kv - 1) else kv) idx) k =
  option_map (fun p => if f p then p - 1 else p) (alookup idx k).
Proof.
  induction idx as [|[k0 p0] r IH]; cbn; [reflexivity|].
  destruct (f p0) eqn:E; cbn; destruct (str_eqb k k0); cbn; rewrite ?E; auto.
Qed.

(* ---- per operation simulation ---- *)

Lemma rel_lookup c s k : rel c s ->
  match alookup (index c) k with
  | Some p => exists n v, p = Z.of_nat n /\ pos k (entries c) = Some n /\
                          eget (entries c) p = Some (k, v) /\ s_lookup (sents s) k = Some v
  | None => pos k (entries c) = None /\ s_lookup (sents s) k = None
  end.
Proof.
  intros (He & Hf & Hn & Hi). rewrite Hi, <- He.
  destruct (pos k (entries c)) as [n|] eqn:E; cbn.
  - destruct (pos_some _ _ _ E) as [v [H1 H2]]. exists n, v. rewrite eget_of_nat. auto.
  - split; auto using pos_none_lookup.
Qed.

Lemma put_sim c s k v : rel c s ->
  rel (fst (put c k v)) (fst (s_put s k v)) /\ snd (put c k v) = snd (s_put s k v).
Proof.
  intros R. pose proof (rel_lookup c s k R) as L. destruct R as (He & Hf & Hn & Hi).
  unfold put, s_put. rewrite <- Hf. destruct (frozen c) eqn:Fz; cbn.
  { split; [repeat split; auto; congruence|reflexivity]. }
  destruct (alookup (index c) k) as [p|].
  - destruct L as (n & v0 & -> & Hp & Hg & Hl). rewrite Hg, Hl; cbn.
    destruct (replace_spec k (entries c) n v Hp) as (H1 & H2 & H3).
    rewrite Nat2Z.id. split; [|reflexivity]. repeat split; cbn.
    + now rewrite H1, He.
    + now rewrite H1, H2.
    + intros k'. rewrite H1, H3. apply Hi.
  - destruct L as (Hp & Hl). rewrite Hl; cbn. split; [|reflexivity]. repeat split; cbn.
    + now rewrite He.
    + rewrite map_app; cbn. apply nodup_snoc; auto using pos_none_notin.
    + intros k'. rewrite pos_app_new by assumption. unfold aset; cbn.
      destruct (str_eqb k' k); [reflexivity|apply Hi].
Qed.

Lemma compute_sim c s k v : rel c s ->
  rel (fst (compute_if_absent c k v)) (fst (s_compute s k v)) /\
  snd (compute_if_absent c k v) = snd (s_compute s k v).
Proof.
  intros R. pose proof (rel_lookup c s k R) as L. destruct R as (He & Hf & Hn & Hi).
  unfold compute_if_absent, s_compute.
  destruct (alookup (index c) k) as [p|].
  - destruct L as (n & v0 & -> & Hp & Hg & Hl). rewrite Hg, Hl; cbn.
    split; [repeat split; auto; congruence|reflexivity].
  - destruct L as (Hp & Hl). rewrite Hl, <- Hf. destruct (frozen c) eqn:Fz; cbn.
    { split; [repeat split; auto; congruence|reflexivity]. }
    split; [|reflexivity]. repeat split; cbn.
    + now rewrite He.
    + rewrite map_app; cbn. apply nodup_snoc; auto using pos_none_notin.
    + intros k'. rewrite pos_app_new by assumption. unfold aset; cbn.
      destruct (str_eqb k' k); [reflexivity|apply Hi].
Qed.

Lemma compute_panic_sim c s k : rel c s ->
  rel (fst (compute_panic c k)) (fst (s_compute_panic s k)) /\
  snd (compute_panic c k) = snd (s_compute_panic s k).
Proof.
  intros R. pose proof (rel_lookup c s k R) as L. pose proof R as (He & Hf & Hn & Hi).
  unfold compute_panic, s_compute_panic.
  destruct (alookup (index c) k) as [p|].
  - destruct L as (n & v0 & -> & Hp & Hg & Hl). rewrite Hg, Hl; cbn.
    split; [exact R|reflexivity].
  - destruct L as (Hp & Hl). rewrite Hl, <- Hf. destruct (frozen c); cbn;
      (split; [exact R|reflexivity]).
Qed.

(* a key other than the one put answers as before *)
Lemma s_put_lookup_other s k2 v2 k : k <> k2 -> s_lookup (sents s) k = None ->
  s_lookup (sents (fst (s_put s k2 v2))) k = None.
Proof.
  intros Hne Hl. unfold s_put. destruct (sfrozen s); cbn; [exact Hl|].
  destruct (s_lookup (sents s) k2) as [old|] eqn:E2; cbn.
  - clear E2. induction (sents s) as [|[k0 v0] r IH]; cbn in *; [reflexivity|].
    destruct (str_eqb_spec k2 k0) as [->|Hn]; cbn.
    + destruct (str_eqb_spec k k0); [congruence|exact Hl].
    + destruct (str_eqb k k0); [discriminate|auto].
  - induction (sents s) as [|[k0 v0] r IH]; cbn in *.
    + destruct (str_eqb_spec k k2); [congruence|reflexivity].
    + destruct (str_eqb k k0); [discriminate|]. destruct (str_eqb k2 k0); [discriminate|auto].
Qed.

Lemma lookup_none_pos c s k : rel c s -> s_lookup (sents s) k = None -> pos k (entries c) = None.
Proof.
  intros (He & _) Hl. destruct (pos k (entries c)) as [n|] eqn:E; [|reflexivity].
  destruct (pos_some _ _ _ E) as [v [_ H2]]. rewrite He in H2. congruence.
Qed.

Lemma compute_put_sim c s k v k2 v2 : rel c s -> k <> k2 ->
  rel (fst (compute_put c k v k2 v2)) (fst (s_compute_put s k v k2 v2)) /\
  snd (compute_put c k v k2 v2) = snd (s_compute_put s k v k2 v2).
Proof.
  intros R Hne. pose proof (rel_lookup c s k R) as L. pose proof R as (He & Hf & Hn & Hi).
  unfold compute_put, s_compute_put.
  destruct (alookup (index c) k) as [p|].
  - destruct L as (n & v0 & -> & Hp & Hg & Hl). rewrite Hg, Hl; cbn. split; [exact R|reflexivity].
  - destruct L as (Hp & Hl). rewrite Hl, <- Hf. destruct (frozen c) eqn:Fz; cbn [fst snd].
    { split; [exact R|reflexivity]. }
    destruct (put_sim c s k2 v2 R) as [R1 Ho].
    pose proof (s_put_lookup_other s k2 v2 k Hne Hl) as Hl1.
    destruct (put c k2 v2) as [c1 o1] eqn:Ec; destruct (s_put s k2 v2) as [s1 o1'] eqn:Es; cbn [fst snd] in *.
    subst o1'. pose proof (lookup_none_pos c1 s1 k R1 Hl1) as Hp1. destruct R1 as (He1 & Hf1 & Hn1 & Hi1).
    destruct o1; cbn [fst snd]; try (split; [repeat split; assumption|reflexivity]).
    split; [|reflexivity]. repeat split; cbn.
    + now rewrite He1.
    + rewrite map_app; cbn. apply nodup_snoc; auto using pos_none_notin.
    + intros k'. rewrite pos_app_new by assumption. unfold aset; cbn.
      destruct (str_eqb k' k); [reflexivity|apply Hi1].
Qed.

Lemma delete_sim c s k : rel c s ->
  rel (fst (delete c k)) (fst (s_delete s k)) /\ snd (delete c k) = snd (s_delete s k).
Proof.
  intros R. pose proof (rel_lookup c s k R) as L. destruct R as (He & Hf & Hn & Hi).
  unfold delete, s_delete. rewrite <- Hf. destruct (frozen c) eqn:Fz; cbn.
  { split; [repeat split; auto; congruence|reflexivity]. }
  destruct (alookup (index c) k) as [p|].
  - destruct L as (n & v0 & -> & Hp & Hg & Hl). rewrite Hg, Hl; cbn.
    rewrite Nat2Z.id, (remove_spec _ _ _ Hp), <- He.
    split; [|reflexivity]. repeat split; cbn.
    + now apply remove_nodup.
    + intros k'. rewrite (alookup_map _ (fun x => x >? Z.of_nat n)), alookup_adel.
      destruct (str_eqb_spec k' k) as [->|Hne]; cbn.
      * now rewrite pos_remove_same.
      * rewrite (pos_remove_other k k' _ n Hne Hp), Hi.
        destruct (pos k' (entries c)) as [m|]; cbn; [|reflexivity].
        destruct (Z.gtb_spec (Z.of_nat m) (Z.of_nat n)); destruct (Nat.ltb_spec n m);
          try lia; cbn [option_map]; f_equal; lia.
  - destruct L as (Hp & Hl). rewrite Hl; cbn. split; [repeat split; auto; congruence|reflexivity].
Qed.

Lemma get_sim c s k : rel c s -> get c k = RVal (s_lookup (sents s) k).
Proof.
  intros R. pose proof (rel_lookup c s k R) as L. unfold get.
  destruct (alookup (index c) k) as [p|].
  - destruct L as (n & v0 & -> & Hp & Hg & Hl). now rewrite Hg, Hl.
  - destruct L as (Hp & Hl). now rewrite Hl.
Qed.

Lemma get_or_default_sim c s k d : rel c s ->
  get_or_default c k d = RVal (Some match s_lookup (sents s) k with Some v => v | None => d end).
Proof.
  intros R. pose proof (rel_lookup c s k R) as L. unfold get_or_default.
  destruct (alookup (index c) k) as [p|].
  - destruct L as (n & v0 & -> & Hp & Hg & Hl). now rewrite Hg, Hl.
  - destruct L as (Hp & Hl). now rewrite Hl.
Qed.

Lemma includes_sim c s k : rel c s ->
  includes c k = match s_lookup (sents s) k with Some _ => true | None => false end.
Proof.
  intros R. pose proof (rel_lookup c s k R) as L. unfold includes.
  destruct (alookup (index c) k) as [p|].
  - destruct L as (n & v0 & -> & Hp & Hg & Hl). now rewrite Hl.
  - destruct L as (Hp & Hl). now rewrite Hl.
Qed.

Lemma put_out_cases c k v : (exists o b, snd (put c k v) = RPut o b) \/
  (snd (put c k v) = RFrozen /\ fst (put c k v) = c) \/ (snd (put c k v) = RFault /\ fst (put c k v) = c).
Proof.
  unfold put. destruct (frozen c); cbn; [auto|].
  destruct (alookup (index c) k); [destruct (eget (entries c) z)|]; cbn; eauto.
Qed.

Lemma put_all_sim es : forall c s, rel c s ->
  rel (fst (put_all c es)) (fst (s_put_all s es)) /\ snd (put_all c es) = snd (s_put_all s es).
Proof.
  induction es as [|[k v] r IH]; cbn; intros c s R; [auto|].
  destruct (put_sim c s k v R) as [R' Ho].
  destruct (put c k v) as [c' o] eqn:Ec; destruct (s_put s k v) as [s' o'] eqn:Es; cbn in *.
  subst o'. destruct o; cbn; auto.
Qed.

Lemma equals_loop_sim es c s : rel c s ->
  equals_loop es c = RBool (forallb (fun kv => match s_lookup (sents s) (fst kv) with
                                               | Some v => val_eqb (snd kv) v | None => false end) es).
Proof.
  intros R. induction es as [|[k v] r IH]; cbn; [reflexivity|].
  pose proof (rel_lookup c s k R) as L.
  destruct (alookup (index c) k) as [p|].
  - destruct L as (n & v0 & -> & Hp & Hg & Hl). rewrite Hg, Hl; cbn.
    destruct (val_eqb v v0); cbn; auto.
  - destruct L as (Hp & Hl). now rewrite Hl.
Qed.

Lemma equals_sim c s c' s' : rel c s -> rel c' s' -> equals c c' = RBool (s_equals s s').
Proof.
  intros R R'. unfold equals, s_equals.
  destruct R as (He & _). destruct R' as (He' & Hf' & Hn' & Hi').
  rewrite <- He. replace (length (sents s')) with (length (entries c')) by now rewrite He'.
  destruct (Nat.eqb (length (entries c)) (length (entries c'))); cbn; [|reflexivity].
  apply (equals_loop_sim _ c' s'). repeat split; auto.
Qed.


(* ---- iteration with a callback that re-enters the hash ---- *)

Lemma map_fst_eset snap : forall p v, map fst (eset snap p v) = map fst snap.
Proof.
  induction snap as [|[k w] r IH]; intros [|p] v; cbn [eset map fst]; try reflexivity.
  now rewrite IH.
Qed.

Lemma map_fst_snap_after h a al snap : map fst (snap_after h a al snap) = map fst snap.
Proof.
  destruct a; cbn [snap_after]; try reflexivity. destruct al; [|reflexivity].
  destruct (alookup (index h) k); [apply map_fst_eset|reflexivity].
Qed.

Lemma length_snap_after h a al snap : length (snap_after h a al snap) = length snap.
Proof. rewrite <- (map_length fst), map_fst_snap_after. apply map_length. Qed.

Lemma snap_after_plain h a al snap : act_plain a = true -> snap_after h a al snap = snap.
Proof. destruct a; cbn; try reflexivity; discriminate. Qed.

Lemma plain_next acts a stop : acts_plain acts = true -> next_act acts = (a, stop) ->
  act_plain a = true /\ acts_plain (tl acts) = true.
Proof.
  destruct acts as [|[a0 st0] r]; cbn [next_act tl acts_plain forallb fst]; intros Hp He.
  - inversion He; subst. auto.
  - inversion He; subst. now apply andb_true_iff in Hp.
Qed.

Lemma skipn_nth {A} (l : list A) : forall i x, nth_error l i = Some x -> skipn i l = x :: skipn (S i) l.
Proof.
  induction l as [|y l IH]; intros [|i] x H; cbn in H; try discriminate.
  - now inversion H.
  - cbn [skipn]. now apply IH.
Qed.

Lemma map_const_len {A B} (l : list A) (l' : list B) (c : val) : length l = length l' ->
  map (fun _ => c) l = map (fun _ => c) l'.
Proof.
  revert l'; induction l as [|x l IH]; intros [|y l'] H; cbn in *; try discriminate; [reflexivity|].
  f_equal. apply IH. now inversion H.
Qed.

Lemma iter_out_erase kind (acc acc' : list (str * val)) st : map fst acc = map fst acc' ->
  erase_values (iter_out kind acc st) = erase_values (iter_out kind acc' st).
Proof.
  intros H. assert (Hl : length acc = length acc') by (rewrite <- (map_length fst acc), H; apply map_length).
  unfold iter_out, erase_values. rewrite H.
  destruct kind; cbn [map]; rewrite ?map_map; f_equal; now apply map_const_len.
Qed.

Lemma act_sim c s a : rel c s ->
  rel (fst (act_step c a)) (fst (s_act_step s a)) /\ snd (act_step c a) = snd (s_act_step s a).
Proof.
  intros R. destruct a; cbn [act_step s_act_step].
  - cbn. auto.
  - now apply delete_sim.
  - now apply put_sim.
  - now apply compute_sim.
Qed.

(* the loop of the index model over the array it started on against the loop of the abstract map over the entries
   it started with: same keys handed out, same final map; same values too when the callback does not put *)
Lemma iter_loop_sim kind n : forall c s snap al i acts acc acc' snap0,
  rel c s -> map fst snap = map fst snap0 -> (i + n = length snap)%nat -> map fst acc = map fst acc' ->
  rel (fst (iter_loop kind c snap al i n acts acc)) (fst (s_iter_loop kind s (skipn i snap0) acts acc')) /\
  erase_values (snd (iter_loop kind c snap al i n acts acc)) =
    erase_values (snd (s_iter_loop kind s (skipn i snap0) acts acc')) /\
  (acts_plain acts = true -> snap = snap0 -> acc = acc' ->
   snd (iter_loop kind c snap al i n acts acc) = snd (s_iter_loop kind s (skipn i snap0) acts acc')).
Proof.
  induction n as [|n IH]; intros c s snap al i acts acc acc' snap0 R Hk Hn Ha;
    assert (Hl : length snap0 = length snap) by (rewrite <- (map_length fst snap0), <- Hk; apply map_length).
  - rewrite skipn_all2 by lia. cbn [iter_loop s_iter_loop fst snd].
    split; [exact R|]. split; [now apply iter_out_erase|]. intros _ _ ->. reflexivity.
  - destruct (nth_error snap i) as [e|] eqn:Ee; [|apply nth_error_None in Ee; lia].
    destruct (nth_error snap0 i) as [e0|] eqn:Ee0; [|apply nth_error_None in Ee0; lia].
    assert (Hfe : fst e = fst e0).
    { pose proof (map_nth_error fst _ _ Ee) as H1. pose proof (map_nth_error fst _ _ Ee0) as H2.
      rewrite Hk in H1. congruence. }
    rewrite (skipn_nth _ _ _ Ee0). cbn [iter_loop s_iter_loop]. rewrite Ee.
    destruct (next_act acts) as [a stop] eqn:Ea.
    destruct (act_sim c s a R) as [R' Ho].
    destruct (act_step c a) as [c' o] eqn:Ec; destruct (s_act_step s a) as [s' o'] eqn:Es;
      cbn [fst snd] in R', Ho. subst o'.
    assert (Hacc : map fst (acc ++ [e]) = map fst (acc' ++ [e0]))
      by (rewrite !map_app, Ha; cbn [map]; now rewrite Hfe).
    destruct o; try solve [split; [exact R'|split; [reflexivity|intros; reflexivity]]].
    all: destruct (stops kind stop).
    all: try solve [ split; [exact R'|split; [now apply iter_out_erase|]];
        intros _ Hs Hacc'; rewrite Hs in Ee; assert (He : e = e0) by congruence; now rewrite He, Hacc' ].
    all: assert (Hk' : map fst (snap_after c a al snap) = map fst snap0)
      by (rewrite map_fst_snap_after; exact Hk).
    all: assert (Hn' : (S i + n = length (snap_after c a al snap))%nat) by (rewrite length_snap_after; lia).
    all: destruct (IH c' s' (snap_after c a al snap) (al && same_array c c') (S i) (tl acts) (acc ++ [e])
                    (acc' ++ [e0]) snap0 R' Hk' Hn' Hacc) as (H1 & H2 & H3).
    all: split; [exact H1|split; [exact H2|]].
    all: intros Hp Hs Hacc'; destruct (plain_next _ _ _ Hp Ea) as [Hpa Hpt].
    all: apply H3; [exact Hpt|rewrite snap_after_plain by exact Hpa; exact Hs|].
    all: rewrite Hs in Ee; assert (He : e = e0) by congruence; now rewrite He, Hacc'.
Qed.

Lemma iterate_sim kind c s acts : rel c s ->
  rel (fst (iterate kind c acts)) (fst (s_iterate kind s acts)) /\
  erase_values (snd (iterate kind c acts)) = erase_values (snd (s_iterate kind s acts)) /\
  (acts_plain acts = true -> snd (iterate kind c acts) = snd (s_iterate kind s acts)).
Proof.
  intros R. unfold iterate, s_iterate. pose proof R as (He & _). rewrite <- He.
  destruct (iter_loop_sim kind (length (entries c)) c s (entries c) true 0%nat acts [] [] (entries c) R
              eq_refl eq_refl eq_refl) as (H1 & H2 & H3).
  cbn [skipn] in H1, H2, H3. split; [exact H1|split; [exact H2|]].
  intros Hp. exact (H3 Hp eq_refl eq_refl).
Qed.

(* ---- heaps ---- *)

Definition hrel (hp : heap) (sp : sheap) : Prop := Forall2 rel hp sp.

Lemma hrel_nth hp sp i : hrel hp sp ->
  match nth_error hp i, nth_error sp i with
  | Some c, Some s => rel c s
  | None, None => True
  | _, _ => False
  end.
Proof.
  intros H; revert i; induction H; intros [|i]; cbn; auto. apply IHForall2.
Qed.

Lemma hrel_set hp sp i c s : hrel hp sp -> rel c s -> hrel (hset hp i c) (shset sp i s).
Proof.
  intros H; revert i; induction H; intros [|i] R; cbn; constructor; auto.
  now apply IHForall2.
Qed.

Lemma hrel_snoc hp sp c s : hrel hp sp -> rel c s -> hrel (hp ++ [c]) (sp ++ [s]).
Proof. intros H R. apply Forall2_app; auto. Qed.

Lemma hrel_len hp sp : hrel hp sp -> length hp = length sp.
Proof. induction 1; cbn; auto. Qed.

Lemma rel_copy c s : rel c s -> rel (copy c) (mkS (sents s) false).
Proof. intros (He & Hf & Hn & Hi). repeat split; auto. Qed.

Lemma rel_freeze c s : rel c s -> rel (mkSh (entries c) (index c) true (cap c)) (mkS (sents s) true).
Proof. intros (He & Hf & Hn & Hi). repeat split; auto. Qed.

Lemma rel_empty n : rel (mkSh [] [] false n) (mkS [] false).
Proof. repeat split; cbn; auto. constructor. Qed.

Ltac obj hp sp i H c s R :=
  pose proof (hrel_nth hp sp i H) as R; unfold with_obj, s_with;
  destruct (nth_error hp i) as [c|], (nth_error sp i) as [s|]; try contradiction;
  [|split; [assumption|reflexivity]].

Lemma step_sim hp sp o : hrel hp sp -> op_ok o = true -> op_plain o = true ->
  hrel (fst (step hp o)) (fst (s_step sp o)) /\ snd (step hp o) = snd (s_step sp o).
Proof.
  intros H Hok Hpl. pose proof (hrel_len _ _ H) as Hlen.
  destruct o as [|i k v|i k|i k|i k d|i k|i k v|i|i j|i j|i|i|i|i|i|i|i|i j|i k|i k v k2 v2|cp|i kind acts];
    cbn [step s_step].
  - cbn. split; [apply hrel_snoc; auto using rel_empty|now rewrite Hlen].
  - obj hp sp i H c s R. destruct (put_sim c s k v R) as [R' Ho].
    unfold upd, s_upd; cbn. split; [now apply hrel_set|assumption].
  - obj hp sp i H c s R. destruct (delete_sim c s k R) as [R' Ho].
    unfold upd, s_upd; cbn. split; [now apply hrel_set|assumption].
  - obj hp sp i H c s R. cbn. split; [assumption|now apply get_sim].
  - obj hp sp i H c s R. cbn. split; [assumption|now apply get_or_default_sim].
  - obj hp sp i H c s R. cbn. split; [assumption|]. f_equal. now apply includes_sim.
  - obj hp sp i H c s R. destruct (compute_sim c s k v R) as [R' Ho].
    unfold upd, s_upd; cbn. split; [now apply hrel_set|assumption].
  - obj hp sp i H c s R. cbn. split; [apply hrel_snoc; auto using rel_copy|now rewrite Hlen].
  - obj hp sp i H c s R. obj hp sp j H c' s' R'.
    destruct (put_all_sim (entries c') (copy c) (mkS (sents s) false) (rel_copy _ _ R)) as [Rm Ho].
    destruct R' as (He' & _). rewrite <- He'.
    destruct (put_all (copy c) (entries c')) as [m o] eqn:E1;
      destruct (s_put_all (mkS (sents s) false) (entries c')) as [m' o'] eqn:E2; cbn in *.
    subst o'. destruct o; cbn; try (split; [assumption|reflexivity]).
    split; [now apply hrel_snoc|now rewrite Hlen].
  - obj hp sp i H c s R. obj hp sp j H c' s' R'.
    destruct (put_all_sim (entries c') c s R) as [Rm Ho].
    destruct R' as (He' & _). rewrite <- He'.
    unfold upd, s_upd; cbn. split; [now apply hrel_set|assumption].
  - obj hp sp i H c s R. cbn. split; [apply hrel_set; auto using rel_freeze|reflexivity].
  - obj hp sp i H c s R. destruct R as (He & _). cbn. rewrite He. split; [assumption|reflexivity].
  - obj hp sp i H c s R. destruct R as (He & _). cbn. rewrite He. split; [assumption|reflexivity].
  - obj hp sp i H c s R. destruct R as (He & _). cbn. rewrite He. split; [assumption|reflexivity].
  - obj hp sp i H c s R. destruct R as (He & _). cbn. rewrite He. split; [assumption|reflexivity].
  - obj hp sp i H c s R. destruct R as (He & _). cbn. rewrite He. split; [assumption|reflexivity].
  - obj hp sp i H c s R. destruct R as (He & Hf & _). cbn. rewrite Hf. split; [assumption|reflexivity].
  - obj hp sp i H c s R. obj hp sp j H c' s' R'. cbn. split; [assumption|now apply equals_sim].
  - obj hp sp i H c s R. destruct (compute_panic_sim c s k R) as [R' Ho].
    unfold upd, s_upd; cbn. split; [now apply hrel_set|assumption].
  - obj hp sp i H c s R. cbn [op_ok] in Hok. apply negb_true_iff, str_eqb_neq in Hok.
    destruct (compute_put_sim c s k v k2 v2 R Hok) as [R' Ho].
    unfold upd, s_upd; cbn. split; [now apply hrel_set|assumption].
  - cbn. split; [apply hrel_snoc; auto using rel_empty|now rewrite Hlen].
  - obj hp sp i H c s R. cbn [op_plain] in Hpl. destruct (iterate_sim kind c s acts R) as (R' & _ & Ho).
    unfold upd, s_upd; cbn [fst snd]. split; [now apply hrel_set|now apply Ho].
Qed.

(* every operation, whatever the callbacks do: same state, same results up to the values an iteration shows *)
Lemma step_sim_erase hp sp o : hrel hp sp -> op_ok o = true ->
  hrel (fst (step hp o)) (fst (s_step sp o)) /\
  erase_values (snd (step hp o)) = erase_values (snd (s_step sp o)).
Proof.
  intros H Hok. destruct (op_plain o) eqn:Hpl.
  - destruct (step_sim hp sp o H Hok Hpl) as [A B]. split; [exact A|now rewrite B].
  - destruct o; try discriminate. cbn [step s_step].
    obj hp sp h H c s R.
    destruct (iterate_sim kind c s acts R) as (R' & Ho & _).
    unfold upd, s_upd; cbn [fst snd]. split; [now apply hrel_set|exact Ho].
Qed.

Lemma run_sim ops : forall hp sp, hrel hp sp -> ops_ok ops = true -> ops_plain ops = true ->
  hrel (fst (run hp ops)) (fst (s_run sp ops)) /\ snd (run hp ops) = snd (s_run sp ops).
Proof.
  induction ops as [|o r IH]; cbn [run s_run]; intros hp sp H Hok Hpl; [auto|].
  unfold ops_ok in Hok. cbn [forallb] in Hok. apply andb_true_iff in Hok as [Hok Hokr].
  unfold ops_plain in Hpl. cbn [forallb] in Hpl. apply andb_true_iff in Hpl as [Hpl Hplr].
  destruct (step_sim hp sp o H Hok Hpl) as [H' Ho].
  destruct (step hp o) as [hp' x]; destruct (s_step sp o) as [sp' x']; cbn in *. subst x'.
  destruct (IH hp' sp' H' Hokr Hplr) as [H'' Ho'].
  destruct (run hp' r) as [hp'' xs]; destruct (s_run sp' r) as [sp'' xs']; cbn in *.
  split; [assumption|congruence].
Qed.

Lemma run_sim_erase ops : forall hp sp, hrel hp sp -> ops_ok ops = true ->
  hrel (fst (run hp ops)) (fst (s_run sp ops)) /\
  map erase_values (snd (run hp ops)) = map erase_values (snd (s_run sp ops)).
Proof.
  induction ops as [|o r IH]; cbn [run s_run]; intros hp sp H Hok; [auto|].
  unfold ops_ok in Hok. cbn [forallb] in Hok. apply andb_true_iff in Hok as [Hok Hokr].
  destruct (step_sim_erase hp sp o H Hok) as [H' Ho].
  destruct (step hp o) as [hp' x]; destruct (s_step sp o) as [sp' x']; cbn [fst snd] in *.
  destruct (IH hp' sp' H' Hokr) as [H'' Ho'].
  destruct (run hp' r) as [hp'' xs]; destruct (s_run sp' r) as [sp'' xs']; cbn [fst snd map] in *.
  split; [assumption|congruence].
Qed.

(* callbacks that delete, compute or do nothing: every result is the abstract map's *)
Theorem stringhash_refines ops : ops_ok ops = true -> ops_plain ops = true ->
  snd (run [] ops) = snd (s_run [] ops).
Proof. intros Hok Hpl. apply (run_sim ops [] []); [constructor|exact Hok|exact Hpl]. Qed.

(* any callbacks: every result is the abstract map's, except that nothing is said of the values an iteration
   hands to a callback (their number, the keys, the result of AllPair / AnyPair and the map afterwards are) *)
Theorem stringhash_refines_reentrant ops : ops_ok ops = true ->
  map erase_values (snd (run [] ops)) = map erase_values (snd (s_run [] ops)).
Proof. intros Hok. apply (run_sim_erase ops [] []); [constructor|exact Hok]. Qed.

(* ---- consequences, stated on the abstract map ---- *)

Definition is_fault (o : out) : bool := match o with RFault => true | _ => false end.

Lemma s_put_no_fault h k v : is_fault (snd (s_put h k v)) = false.
Proof. unfold s_put. destruct (sfrozen h); [reflexivity|]. destruct (s_lookup _ _); reflexivity. Qed.

Lemma s_put_all_no_fault es : forall h, is_fault (snd (s_put_all h es)) = false.
Proof.
  induction es as [|[k v] r IH]; cbn; intros h; [reflexivity|].
  pose proof (s_put_no_fault h k v) as Hp.
  destruct (s_put h k v) as [h' o]; cbn in *. destruct o; cbn in *; auto; discriminate.
Qed.

Lemma s_delete_no_fault h k : is_fault (snd (s_delete h k)) = false.
Proof. unfold s_delete. destruct (sfrozen h); [reflexivity|]. destruct (s_lookup _ _); reflexivity. Qed.

Lemma s_compute_no_fault h k v : is_fault (snd (s_compute h k v)) = false.
Proof. unfold s_compute. destruct (s_lookup _ _); [reflexivity|]. destruct (sfrozen h); reflexivity. Qed.

Lemma s_compute_panic_no_fault h k : is_fault (snd (s_compute_panic h k)) = false.
Proof. unfold s_compute_panic. destruct (s_lookup _ _); [reflexivity|]. destruct (sfrozen h); reflexivity. Qed.

Lemma s_compute_put_no_fault h k v k2 v2 : is_fault (snd (s_compute_put h k v k2 v2)) = false.
Proof.
  unfold s_compute_put. destruct (s_lookup _ _); [reflexivity|]. destruct (sfrozen h); [reflexivity|].
  pose proof (s_put_no_fault h k2 v2) as Hp. destruct (s_put h k2 v2) as [h1 o]; cbn in *.
  destruct o; cbn in *; auto.
Qed.

Lemma s_act_no_fault h a : is_fault (snd (s_act_step h a)) = false.
Proof.
  destruct a; cbn [s_act_step]; auto using s_put_no_fault, s_delete_no_fault, s_compute_no_fault.
Qed.

Lemma s_iter_loop_no_fault kind : forall pend h acts acc,
  is_fault (snd (s_iter_loop kind h pend acts acc)) = false.
Proof.
  induction pend as [|e r IH]; intros h acts acc; cbn [s_iter_loop]; [reflexivity|].
  destruct (next_act acts) as [a stop]. pose proof (s_act_no_fault h a) as Hf.
  destruct (s_act_step h a) as [h1 o1]; cbn [snd] in Hf.
  destruct o1; try discriminate; try reflexivity; destruct (stops kind stop); try reflexivity; apply IH.
Qed.

Lemma s_iterate_no_fault kind h acts : is_fault (snd (s_iterate kind h acts)) = false.
Proof. apply s_iter_loop_no_fault. Qed.

Lemma s_step_no_fault sp o : is_fault (snd (s_step sp o)) = false.
Proof.
  destruct o; cbn [s_step]; unfold s_with, s_upd;
    repeat match goal with |- context [nth_error sp ?i] => destruct (nth_error sp i) end;
    cbn [snd fst is_fault]; try reflexivity;
    auto using s_put_no_fault, s_delete_no_fault, s_compute_no_fault, s_put_all_no_fault,
      s_compute_panic_no_fault, s_compute_put_no_fault, s_iterate_no_fault.
  match goal with |- context [s_put_all ?a ?b] =>
    pose proof (s_put_all_no_fault b a) as Hp; destruct (s_put_all a b) as [m0 o0] end.
  cbn in *. destruct o0; cbn in *; auto.
Qed.

Lemma s_run_no_fault ops : forall sp, forallb (fun o => negb (is_fault o)) (snd (s_run sp ops)) = true.
Proof.
  induction ops as [|o r IH]; cbn; intros sp; [reflexivity|].
  pose proof (s_step_no_fault sp o) as Hs.
  destruct (s_step sp o) as [sp' x]; cbn in *. specialize (IH sp').
  destruct (s_run sp' r) as [sp'' xs]; cbn in *. now rewrite Hs, IH.
Qed.

Lemma forallb_no_fault_erase l :
  forallb (fun o => negb (is_fault o)) (map erase_values l) = forallb (fun o => negb (is_fault o)) l.
Proof.
  induction l as [|o l IH]; cbn [map forallb]; [reflexivity|]. rewrite IH. now destruct o.
Qed.

Theorem stringhash_never_faults ops : ops_ok ops = true ->
  forallb (fun o => negb (is_fault o)) (snd (run [] ops)) = true.
Proof.
  intros Hok. rewrite <- forallb_no_fault_erase, (stringhash_refines_reentrant ops Hok), forallb_no_fault_erase.
  apply s_run_no_fault.
Qed.

(* deletion removes exactly the given key and keeps every other entry reachable *)
Lemma s_lookup_remove_other es k k' : k' <> k -> s_lookup (s_remove es k) k' = s_lookup es k'.
Proof.
  intros Hne. induction es as [|[k0 v0] r IH]; cbn; [reflexivity|].
  destruct (str_eqb_spec k k0) as [->|Hn].
  - destruct (str_eqb_spec k' k0); [congruence|reflexivity].
  - cbn. destruct (str_eqb k' k0); auto.
Qed.

Lemma s_lookup_remove_same es k : NoDup (map fst es) -> s_lookup (s_remove es k) k = None.
Proof. intros H. apply pos_none_lookup. now apply pos_remove_same. Qed.

Lemma s_lookup_replace es k v k' :
  s_lookup (s_replace es k v) k' =
  if str_eqb k' k then match s_lookup es k with Some _ => Some v | None => None end
  else s_lookup es k'.
Proof.
  induction es as [|[k0 v0] r IH]; cbn.
  - destruct (str_eqb k' k); reflexivity.
  - destruct (str_eqb_spec k k0) as [->|Hn]; cbn.
    + destruct (str_eqb_spec k' k0); reflexivity.
    + destruct (str_eqb_spec k' k0) as [->|Hn'].
      * destruct (str_eqb_spec k0 k); [congruence|reflexivity].
      * apply IH.
Qed.

Lemma s_lookup_app_new es k v k' : s_lookup es k = None ->
  s_lookup (es ++ [(k, v)]) k' = if str_eqb k' k then Some v else s_lookup es k'.
Proof.
  induction es as [|[k0 v0] r IH]; cbn; intros H.
  - destruct (str_eqb k' k); reflexivity.
  - destruct (str_eqb_spec k k0) as [->|Hn]; [discriminate|]. rewrite (IH H).
    destruct (str_eqb_spec k' k0) as [->|Hn'].
    + destruct (str_eqb_spec k0 k); [congruence|reflexivity].
    + reflexivity.
Qed.

(* a frozen hash rejects every mutation and stays as it is *)
Lemma frozen_rejects h k v : sfrozen h = true ->
  s_put h k v = (h, RFrozen) /\ s_delete h k = (h, RFrozen) /\
  (s_lookup (sents h) k = None -> s_compute h k v = (h, RFrozen)).
Proof.
  intros H. unfold s_put, s_delete, s_compute. rewrite H. repeat split. intros ->. reflexivity.
Qed.

(* every reachable concrete hash satisfies the coupling invariant *)
Theorem stringhash_inv ops : ops_ok ops = true -> exists sp, hrel (fst (run [] ops)) sp.
Proof.
  intros Hok. exists (fst (s_run [] ops)). apply (run_sim_erase ops [] []); [constructor|exact Hok].
Qed.

(* ---- what the abstract iteration guarantees ---- *)

(* an iteration that ran to its end - or was stopped by AllPair / AnyPair - has handed out, in order and once each,
   the entries the map held when it started (all of them unless stopped), whatever the callback did meanwhile *)
Lemma s_iter_loop_visits kind : forall pend h acts acc h' ks vs b,
  s_iter_loop kind h pend acts acc = (h', RIter ks vs b) ->
  exists m st, RIter ks vs b = iter_out kind (acc ++ firstn m pend) st /\
               (m <= length pend)%nat /\ (st = false -> m = length pend).
Proof.
  induction pend as [|e r IH]; intros h acts acc h' ks vs b; cbn [s_iter_loop].
  - intros H. inversion H as [[Hh Ho]]. exists 0%nat, false. cbn [firstn length]. rewrite app_nil_r. auto.
  - destruct (next_act acts) as [a stop]. destruct (s_act_step h a) as [h1 o1].
    destruct o1; try discriminate.
    all: destruct (stops kind stop) eqn:Es;
      [ intros H; inversion H as [[Hh Ho]]; exists 1%nat, true; cbn [firstn length];
        split; [reflexivity|split; [lia|discriminate]]
      | intros H; destruct (IH _ _ _ _ _ _ _ H) as (m & st & Ho & Hm & Hst); exists (S m), st;
        cbn [firstn length]; rewrite <- app_assoc in Ho; cbn [app] in Ho;
        split; [exact Ho|split; [lia|intros E; now rewrite (Hst E)]] ].
Qed.

Theorem s_iterate_visits_start_entries kind h acts h' ks vs b :
  s_iterate kind h acts = (h', RIter ks vs b) ->
  exists m st, RIter ks vs b = iter_out kind (firstn m (sents h)) st /\
               (m <= length (sents h))%nat /\ (st = false -> m = length (sents h)).
Proof. intros H. exact (s_iter_loop_visits kind (sents h) h acts [] h' ks vs b H). Qed.

(* EachKey / EachPair / EachValue cannot be stopped: every entry present at the start is handed out *)
Lemma s_iter_loop_each kind : stops kind true = false -> forall pend h acts acc h' ks vs b,
  s_iter_loop kind h pend acts acc = (h', RIter ks vs b) -> RIter ks vs b = iter_out kind (acc ++ pend) false.
Proof.
  intros Hk. assert (Hs : forall x, stops kind x = false) by (destruct kind; try discriminate; reflexivity).
  induction pend as [|e r IH]; intros h acts acc h' ks vs b; cbn [s_iter_loop].
  - intros H. inversion H as [[Hh Ho]]. now rewrite app_nil_r.
  - destruct (next_act acts) as [a stop]. destruct (s_act_step h a) as [h1 o1]. rewrite Hs.
    destruct o1; try discriminate.
    all: intros H; rewrite (IH _ _ _ _ _ _ _ H), <- app_assoc; reflexivity.
Qed.

Theorem s_each_visits_all kind h acts h' ks vs b : stops kind true = false ->
  s_iterate kind h acts = (h', RIter ks vs b) -> RIter ks vs b = iter_out kind (sents h) false.
Proof. intros Hk H. exact (s_iter_loop_each kind Hk (sents h) h acts [] h' ks vs b H). Qed.

(* deletion from inside the callback keeps every other entry reachable: a key no callback deletes answers after
   the iteration as it did before (whether the iteration ran to its end, was stopped, or left by a panic) *)
Definition act_spares (k' : str) (a : act) : bool :=
  match a with ANone => true | ADel k => negb (str_eqb k' k) | _ => false end.

Lemma s_iter_loop_delete_keeps_others kind k' : forall pend h acts acc,
  forallb (fun a => act_spares k' (fst a)) acts = true ->
  s_lookup (sents (fst (s_iter_loop kind h pend acts acc))) k' = s_lookup (sents h) k'.
Proof.
  induction pend as [|e r IH]; intros h acts acc Hsp; cbn [s_iter_loop]; [reflexivity|].
  assert (Hn : act_spares k' (fst (next_act acts)) = true /\
               forallb (fun a => act_spares k' (fst a)) (tl acts) = true).
  { destruct acts as [|a0 r0]; cbn [next_act tl forallb fst] in *; [auto|now apply andb_true_iff in Hsp]. }
  destruct Hn as [Ha Ht]. destruct (next_act acts) as [a stop]. cbn [fst] in Ha.
  destruct a; try discriminate; cbn [s_act_step].
  - destruct (stops kind stop); [reflexivity|]. now apply IH.
  - cbn [act_spares] in Ha. apply negb_true_iff, str_eqb_neq in Ha.
    unfold s_delete. destruct (sfrozen h); [reflexivity|].
    destruct (s_lookup (sents h) k) as [old|].
    + destruct (stops kind stop); cbn [fst sents]; [|rewrite IH by exact Ht; cbn [sents]];
        now apply s_lookup_remove_other.
    + destruct (stops kind stop); [reflexivity|]. now apply IH.
Qed.

Theorem s_iterate_delete_keeps_others kind h acts k' :
  forallb (fun a => act_spares k' (fst a)) acts = true ->
  s_lookup (sents (fst (s_iterate kind h acts))) k' = s_lookup (sents h) k'.
Proof. intros H. now apply s_iter_loop_delete_keeps_others. Qed.



(* the guard is needed: a mapping function that puts the computed key itself leaves the hash with two entries for
   it (stringhash.go:136-138 appends without looking again); Delete then removes the second one and the index
   entry, so that Keys still lists the key while Includes denies it *)
Lemma compute_producer_puts_same_key_refuted :
  exists ops, ops_ok ops = false /\
    snd (run [] ops) = [RObj 0; RVal (Some (VInt 6)); RKeys [[97%N]; [97%N]]; RVal (Some (VInt 6)); RKeys [[97%N]]; RBool false].
Proof.
  exists [ONew; OComputePut 0 [97%N] 6 [97%N] 5; OKeys 0; ODelete 0 [97%N]; OKeys 0; OIncludes 0 [97%N]].
  vm_compute. auto.
Qed.


(* ---- lookups find exactly the present keys - whatever value a key is associated with, the Go nil included ---- *)

Lemma pos_some_in k es n : pos k es = Some n -> In k (map fst es).
Proof.
  intros H. destruct (pos_some _ _ _ H) as [v [H1 _]]. apply nth_error_In in H1.
  change k with (fst (k, v)). now apply in_map.
Qed.

Lemma s_lookup_present es k : (exists v, s_lookup es k = Some v) <-> In k (map fst es).
Proof.
  induction es as [|[k0 v0] r IH]; cbn.
  - split; [intros [v H]; discriminate|tauto].
  - destruct (str_eqb_spec k k0) as [->|Hn].
    + split; [auto|eauto].
    + rewrite IH. split; [auto|]. intros [H|H]; [congruence|exact H].
Qed.

Lemma s_lookup_absent es k : s_lookup es k = None <-> ~ In k (map fst es).
Proof.
  rewrite <- s_lookup_present. destruct (s_lookup es k) as [v|].
  - split; [discriminate|]. intros H. exfalso. apply H. eauto.
  - split; [|reflexivity]. intros _ [v H]. discriminate.
Qed.

Lemma s_lookup_in es k v : s_lookup es k = Some v -> In (k, v) es.
Proof.
  induction es as [|[k0 v0] r IH]; cbn; [discriminate|].
  destruct (str_eqb_spec k k0) as [->|Hn]; [intros H; inversion H; auto|auto].
Qed.

(* one hash that satisfies the coupling invariant: what each lookup answers for a present and for an absent key *)
Definition lookups_exact (c : sh) : Prop :=
  NoDup (map fst (entries c)) /\
  forall k,
    (In k (map fst (entries c)) ->
       exists v, In (k, v) (entries c) /\ get c k = RVal (Some v) /\ includes c k = true /\
                 (forall d, get_or_default c k d = RVal (Some v)) /\
                 (forall w, compute_if_absent c k w = (c, RVal (Some v))) /\
                 compute_panic c k = (c, RVal (Some v))) /\
    (~ In k (map fst (entries c)) ->
       get c k = RVal None /\ includes c k = false /\
       (forall d, get_or_default c k d = RVal (Some d)) /\
       (frozen c = false -> delete c k = (c, RVal None))).

Lemma rel_lookups_exact c s : rel c s -> lookups_exact c.
Proof.
  intros R. split; [apply R|]. intros k.
  pose proof (rel_lookup c s k R) as L. destruct R as (He & Hf & Hn & Hi).
  unfold get, includes, get_or_default, compute_if_absent, compute_panic, delete.
  destruct (alookup (index c) k) as [p|].
  - destruct L as (n & v & -> & Hp & Hg & Hl). split.
    + intros _. exists v. rewrite Hg. cbn [snd]. repeat split; auto.
      rewrite He. now apply s_lookup_in.
    + intros Hni. exfalso. apply Hni. eapply pos_some_in; eauto.
  - destruct L as (Hp & Hl). split.
    + intros Hin. exfalso. revert Hin. now apply pos_none_notin.
    + intros _. repeat split; auto. intros ->. reflexivity.
Qed.

Theorem lookups_find_exactly_present_keys ops : ops_ok ops = true ->
  forall i c, nth_error (fst (run [] ops)) i = Some c -> lookups_exact c.
Proof.
  intros Hok i c Hc. destruct (stringhash_inv ops Hok) as [sp H].
  pose proof (hrel_nth _ _ i H) as Hn. rewrite Hc in Hn.
  destruct (nth_error sp i) as [s|]; [|contradiction]. eapply rel_lookups_exact; eauto.
Qed.

(* Len counts the keys, each once *)
Lemma len_counts_keys c : length (entries c) = length (map fst (entries c)).
Proof. now rewrite map_length. Qed.
