(* KeysProofs.v — C07, the values: veq is an equivalence (NaN/Sensitive excepted for reflexivity),
   vkey x = vkey y <-> veq x y = true, Hash.Get and Unique. *)
From Coq Require Import ZArith NArith Bool Lia List.
From PcoreV Require Import Model.Base Model.Keys Proofs.KeysOrder Proofs.KeysCode Proofs.KeysTypes.
Import ListNotations.
Open Scope Z_scope.

(* ------------------------------------------------------------------------------------------ *)
(* induction over values with the hypothesis for the elements of arrays and the entries of hashes *)

Section ValInd.
  Variable P : value -> Prop.
  Hypothesis Hundef : P VUndef.
  Hypothesis Hdefault : P VDefault.
  Hypothesis Hbool : forall b, P (VBool b).
  Hypothesis Hint : forall z, P (VInt z).
  Hypothesis Hfloat : forall b, P (VFloat b).
  Hypothesis Hstr : forall s, P (VStr s).
  Hypothesis Hregexp : forall s, P (VRegexp s).
  Hypothesis Hbinary : forall s, P (VBinary s).
  Hypothesis Htimespan : forall z, P (VTimespan z).
  Hypothesis Htimestamp : forall s ns, P (VTimestamp s ns).
  Hypothesis Harr : forall vs, Forall P vs -> P (VArr vs).
  Hypothesis Hhash : forall es, Forall (fun e => P (fst e) /\ P (snd e)) es -> P (VHash es).
  Hypothesis Hentry : forall k v, P k -> P v -> P (VEntry k v).
  Hypothesis Hsensitive : forall v, P v -> P (VSensitive v).
  Hypothesis Htype : forall t, P (VType t).

  Fixpoint value_ind2 (x : value) : P x :=
    match x with
    | VUndef => Hundef | VDefault => Hdefault | VBool b => Hbool b | VInt z => Hint z | VFloat b => Hfloat b
    | VStr s => Hstr s | VRegexp s => Hregexp s | VBinary s => Hbinary s | VTimespan z => Htimespan z
    | VTimestamp s ns => Htimestamp s ns
    | VArr vs => Harr vs ((fix go (l : list value) : Forall P l :=
                             match l with
                             | [] => Forall_nil P
                             | v :: l' => Forall_cons v (value_ind2 v) (go l')
                             end) vs)
    | VHash es => Hhash es ((fix go (l : list (value * value)) : Forall (fun e => P (fst e) /\ P (snd e)) l :=
                               match l with
                               | [] => Forall_nil _
                               | (k, v) :: l' => Forall_cons (k, v) (conj (value_ind2 k) (value_ind2 v)) (go l')
                               end) es)
    | VEntry k v => Hentry k v (value_ind2 k) (value_ind2 v)
    | VSensitive v => Hsensitive v (value_ind2 v)
    | VType t => Htype t
    end.
End ValInd.

(* ------------------------------------------------------------------------------------------ *)
(* the loops of Array.Equals and Hash.Equals as top-level functions *)

Fixpoint veq_list (a b : list value) : bool :=
  match a, b with
  | [], _ => true
  | p :: a', q :: b' => veq p q && veq_list a' b'
  | _ :: _, [] => false
  end.

Definition ekey (e : value * value) : list N := match e with (k, v) => k_seq 65 [vkey k; vkey v] end.
Definition keys_of (es : list (value * value)) : list (list N) := map (fun e => vkey (fst e)) es.

Definition hash_sub (a fs : list (value * value)) : bool :=
  (fix go (a : list (value * value)) : bool :=
     match a with
     | [] => true
     | (k, v) :: a' =>
         (if existsb (fun e => str_eqb (vkey (fst e)) (vkey k)) a' then true
          else match find_last (vkey k) fs with
               | Some (k', v') => veq k k' && veq v v'
               | None => false
               end) && go a'
     end) a.

Lemma hash_sub_cons k v a' fs :
  hash_sub ((k, v) :: a') fs =
  (if existsb (fun e => str_eqb (vkey (fst e)) (vkey k)) a' then true
   else match find_last (vkey k) fs with
        | Some (k', v') => veq k k' && veq v v'
        | None => false
        end) && hash_sub a' fs.
Proof. reflexivity. Qed.

Lemma veq_arr vs ws : veq (VArr vs) (VArr ws) = Nat.eqb (length vs) (length ws) && veq_list vs ws.
Proof. reflexivity. Qed.
Lemma veq_hash es fs : veq (VHash es) (VHash fs) = Nat.eqb (length es) (length fs) && hash_sub es fs.
Proof. reflexivity. Qed.
Lemma vkey_hash es : vkey (VHash es) = k_seq 72 (sort_strs (map ekey es)).
Proof. reflexivity. Qed.
Lemma vkey_arr vs : vkey (VArr vs) = k_seq 65 (map vkey vs).
Proof. reflexivity. Qed.
Lemma vkey_entry k v : vkey (VEntry k v) = k_seq 65 [vkey k; vkey v].
Proof. reflexivity. Qed.

Lemma veq_list_Forall2 a b : length a = length b -> (veq_list a b = true <-> Forall2 (fun x y => veq x y = true) a b).
Proof.
  revert b; induction a as [|x a IH]; intros [|y b] Hl; cbn in *; try discriminate.
  - split; [constructor|reflexivity].
  - injection Hl as Hl. rewrite andb_true_iff, (IH b Hl). split.
    + intros [H1 H2]. constructor; assumption.
    + intros H. inversion H; subst. auto.
Qed.

(* ------------------------------------------------------------------------------------------ *)
(* the index of a hash *)

Lemma nodupb_NoDup l : nodupb l = true <-> NoDup l.
Proof.
  induction l as [|x l IH]; cbn.
  - split; [constructor|reflexivity].
  - rewrite andb_true_iff, negb_true_iff, IH. split.
    + intros [H1 H2]. constructor; [|assumption]. intros Hin.
      assert (existsb (str_eqb x) l = true) as E; [|congruence].
      apply existsb_exists. exists x. split; [assumption|apply str_eqb_refl].
    + intros H. inversion H as [|? ? Hn Hl]; subst. split; [|assumption].
      destruct (existsb (str_eqb x) l) eqn:E; [|reflexivity]. exfalso. apply Hn.
      apply existsb_exists in E. destruct E as (y & Hy & E). apply str_eqb_eq in E. subst. assumption.
Qed.

Lemma find_last_some key es e : find_last key es = Some e -> In e es /\ vkey (fst e) = key.
Proof.
  induction es as [|e0 es IH]; cbn; [discriminate|].
  destruct (find_last key es) as [r|] eqn:E.
  - intros H. injection H as <-. destruct (IH eq_refl). auto.
  - destruct (str_eqb_spec (vkey (fst e0)) key) as [Hk|Hk]; [|discriminate].
    intros H. injection H as <-. auto.
Qed.

Lemma find_last_none key es : find_last key es = None -> forall e, In e es -> vkey (fst e) <> key.
Proof.
  induction es as [|e0 es IH]; cbn; [tauto|].
  destruct (find_last key es) as [r|] eqn:E; [discriminate|].
  destruct (str_eqb_spec (vkey (fst e0)) key) as [Hk|Hk]; [discriminate|].
  intros _ e [<-|He]; [assumption|auto].
Qed.

Lemma find_last_unique es e : NoDup (keys_of es) -> In e es -> find_last (vkey (fst e)) es = Some e.
Proof.
  induction es as [|e0 es IH]; cbn; [tauto|].
  intros Hn Hin. inversion Hn as [|? ? Hnot Hn']; subst.
  destruct Hin as [->|Hin].
  - destruct (find_last (vkey (fst e)) es) as [r|] eqn:E.
    + exfalso. apply find_last_some in E. destruct E as [Hr Hk]. apply Hnot. rewrite <- Hk.
      unfold keys_of. apply (in_map (fun e => vkey (fst e))). assumption.
    + rewrite str_eqb_refl. reflexivity.
  - rewrite (IH Hn' Hin). reflexivity.
Qed.

Lemma find_last_iff es key e : NoDup (keys_of es) ->
  (find_last key es = Some e <-> In e es /\ vkey (fst e) = key).
Proof.
  intros Hn. split; [apply find_last_some|]. intros [Hin <-]. apply find_last_unique; assumption.
Qed.

Lemma hash_sub_spec a fs : NoDup (keys_of a) ->
  (hash_sub a fs = true <->
   forall k v, In (k, v) a -> exists k' v', find_last (vkey k) fs = Some (k', v') /\ veq k k' = true /\ veq v v' = true).
Proof.
  induction a as [|[k v] a IH]; cbn [keys_of map fst]; intros Hn.
  - split; [intros _ k v []|reflexivity].
  - rewrite hash_sub_cons. inversion Hn as [|? ? Hnot Hn']; subst.
    assert (existsb (fun e => str_eqb (vkey (fst e)) (vkey k)) a = false) as ->.
    { destruct (existsb _ a) eqn:E; [|reflexivity]. exfalso. apply Hnot.
      apply existsb_exists in E. destruct E as (e & He & E). apply str_eqb_eq in E. rewrite <- E.
      apply (in_map (fun e => vkey (fst e))). assumption. }
    rewrite andb_true_iff, (IH Hn'). split.
    + intros [H1 H2] k0 v0 [E|Hin]; [|auto]. injection E as <- <-.
      destruct (find_last (vkey k) fs) as [[k' v']|]; [|discriminate]. apply andb_true_iff in H1. eauto.
    + intros H. split; [|intros k0 v0 Hin; apply H; right; assumption].
      destruct (H k v (or_introl eq_refl)) as (k' & v' & -> & E1 & E2). rewrite E1, E2. reflexivity.
Qed.

(* ------------------------------------------------------------------------------------------ *)
(* keys of values are keys *)

Lemma clean_keyable x : clean x = true -> keyable x = true.
Proof.
  induction x as [| | | | | | | | | |vs IH|es IH|k v IHk IHv|v IHv|t] using value_ind2; cbn; intros H; try reflexivity; try discriminate.
  - rewrite forallb_forall in *. rewrite Forall_forall in IH. auto.
  - rewrite forallb_forall in *. rewrite Forall_forall in IH. intros [k v] He.
    pose proof (H _ He) as Hc. pose proof (IH _ He) as [I1 I2]. cbn in *. bsplit. rewrite I1, I2 by assumption. reflexivity.
  - bsplit. rewrite IHk, IHv by assumption. reflexivity.
Qed.

Lemma wf_hash_parts es : wf_value (VHash es) = true ->
  NoDup (keys_of es) /\ forall k v, In (k, v) es -> wf_value k = true /\ wf_value v = true /\ keyable k = true.
Proof.
  cbn [wf_value]. intros H. bsplit. split.
  - apply nodupb_NoDup. assumption.
  - intros k v Hin. match goal with H : forallb _ es = true |- _ => rewrite forallb_forall in H; apply H in Hin end.
    cbn in Hin. bsplit. auto.
Qed.

Lemma clean_hash_parts es : clean (VHash es) = true -> forall k v, In (k, v) es -> clean k = true /\ clean v = true.
Proof.
  cbn [clean]. rewrite forallb_forall. intros H k v Hin. apply H in Hin. cbn in Hin. bsplit. auto.
Qed.

Lemma keyable_hash_parts es : keyable (VHash es) = true -> forall k v, In (k, v) es -> keyable k = true /\ keyable v = true.
Proof.
  cbn [keyable]. rewrite forallb_forall. intros H k v Hin. apply H in Hin. cbn in Hin. bsplit. auto.
Qed.

Lemma Key_ekey k v : Key (vkey k) -> Key (vkey v) -> Key (ekey (k, v)).
Proof. intros Hk Hv. cbn [ekey]. apply Key_seq; [reflexivity|]. repeat constructor; assumption. Qed.

Lemma vkey_Key x : wf_value x = true -> keyable x = true -> Key (vkey x).
Proof.
  induction x as [| |b|z|b|s|s|s|z|s ns|vs IH|es IH|k v IHk IHv|v IHv|t] using value_ind2; intros Hw Hk; cbn [vkey].
  - apply Key_undef.
  - apply Key_default.
  - apply Key_bool.
  - apply Key_int.
  - apply Key_float.
  - apply Key_str. assumption.
  - apply Key_regexp. assumption.
  - apply Key_binary. assumption.
  - apply Key_timespan.
  - apply Key_timestamp.
  - apply Key_seq; [reflexivity|]. cbn [wf_value keyable] in *. rewrite forallb_forall in *. rewrite Forall_forall in *.
    intros k Hin. apply in_map_iff in Hin. destruct Hin as (v & <- & Hv). auto.
  - fold (ekey). change (fun e : value * value => let (k, v) := e in k_seq 65 [vkey k; vkey v]) with ekey.
    apply Key_seq; [reflexivity|]. apply sort_Forall.
    destruct (wf_hash_parts es Hw) as [_ Hparts]. pose proof (keyable_hash_parts es Hk) as Hkp.
    rewrite Forall_forall in *. intros z Hin. apply in_map_iff in Hin. destruct Hin as ([k v] & <- & He).
    destruct (Hparts k v He) as (W1 & W2 & _). destruct (Hkp k v He) as [K1 K2]. destruct (IH _ He) as [I1 I2].
    apply Key_ekey; auto.
  - cbn [wf_value keyable] in *. bsplit. apply Key_seq; [reflexivity|]. repeat constructor; auto.
  - discriminate Hk.
  - apply tkey_Key. assumption.
Qed.

Lemma ekey_inj k v k' v' :
  Key (vkey k) -> Key (vkey v) -> Key (vkey k') -> Key (vkey v') ->
  ekey (k, v) = ekey (k', v') -> vkey k = vkey k' /\ vkey v = vkey v'.
Proof.
  intros K1 K2 K3 K4 H. cbn [ekey] in H. apply k_seq_inj in H; [|repeat constructor; assumption|repeat constructor; assumption].
  destruct H as [_ H]. lsplit H. lsplit H. auto.
Qed.

Lemma NoDup_map_ekey es :
  NoDup (keys_of es) -> (forall k v, In (k, v) es -> Key (vkey k) /\ Key (vkey v)) -> NoDup (map ekey es).
Proof.
  induction es as [|[k v] es IH]; cbn [map keys_of fst]; intros Hn HK; [constructor|].
  inversion Hn as [|? ? Hnot Hn']; subst. constructor.
  - intros Hin. apply in_map_iff in Hin. destruct Hin as ([k' v'] & E & He). apply Hnot.
    destruct (HK k v (or_introl eq_refl)) as [K1 K2]. destruct (HK k' v' (or_intror He)) as [K3 K4].
    apply ekey_inj in E; try assumption. destruct E as [E _]. rewrite <- E.
    apply (in_map (fun e => vkey (fst e)) es (k', v')). assumption.
  - apply IH; [assumption|]. intros k0 v0 H0. apply HK. right. assumption.
Qed.

(* ------------------------------------------------------------------------------------------ *)
(* the first two bytes tell the kinds apart *)

Definition khead (x : value) : option (N * N) :=
  match x with
  | VUndef => Some (1, 117) | VDefault => Some (1, 100) | VBool _ => Some (1, 98) | VInt _ => Some (1, 105)
  | VFloat _ => Some (1, 102) | VStr _ => Some (1, 115) | VRegexp _ => Some (1, 114) | VBinary _ => Some (0, 66)
  | VTimespan _ => Some (1, 68) | VTimestamp _ _ => Some (1, 84) | VArr _ => Some (0, 65) | VEntry _ _ => Some (0, 65)
  | VHash _ => Some (0, 72) | VSensitive _ => None | VType _ => Some (1, 116)
  end%N.

Lemma vkey_khead x t c : khead x = Some (t, c) -> exists rest, vkey x = t :: c :: rest.
Proof.
  destruct x; cbn [khead]; intros H; try discriminate H; injection H as <- <-; cbn [vkey];
    unfold k_undef, k_default, k_bool, k_int, k_float, k_str, k_regexp, k_binary, k_timespan, k_timestamp, k_seq, tkey, k_type;
    eexists; reflexivity.
Qed.

Lemma vkey_eq_khead x y : keyable x = true -> keyable y = true -> vkey x = vkey y -> khead x = khead y.
Proof.
  intros Kx Ky H.
  destruct (khead x) as [[t c]|] eqn:Ex; [|destruct x; cbn in Ex, Kx; discriminate].
  destruct (khead y) as [[t' c']|] eqn:Ey; [|destruct y; cbn in Ey, Ky; discriminate].
  destruct (vkey_khead _ _ _ Ex) as [r Hx]. destruct (vkey_khead _ _ _ Ey) as [r' Hy].
  rewrite Hx, Hy in H. apply cons2_inj in H. destruct H as (-> & -> & _). reflexivity.
Qed.

(* ------------------------------------------------------------------------------------------ *)
(* the main theorem about values *)

Definition VGood (x : value) : Prop :=
  forall y, wf_value x = true -> wf_value y = true ->
    (veq x y = true -> vkey x = vkey y /\ clean x = true /\ clean y = true) /\
    (clean x = true -> clean y = true -> vkey x = vkey y -> veq x y = true).

Lemma list_T1 vs ws :
  Forall VGood vs -> forallb wf_value vs = true -> forallb wf_value ws = true ->
  Forall2 (fun x y => veq x y = true) vs ws ->
  map vkey vs = map vkey ws /\ forallb clean vs = true /\ forallb clean ws = true.
Proof.
  intros IH Hw Hw' HF. revert IH Hw Hw'.
  induction HF as [|x y xs ys Hxy HF IHF]; intros IH Hw Hw'; [auto|].
  inversion IH as [|? ? Hx IH']; subst. cbn [forallb] in Hw, Hw'. bsplit.
  destruct (Hx y) as [T1 _]; try assumption. destruct (T1 Hxy) as (E & C1 & C2).
  destruct IHF as (E' & C1' & C2'); try assumption.
  cbn [map forallb]. rewrite E, E', C1, C2, C1', C2'. auto.
Qed.

Lemma list_T2 vs : forall ws,
  Forall VGood vs -> forallb wf_value vs = true -> forallb wf_value ws = true ->
  forallb clean vs = true -> forallb clean ws = true ->
  map vkey vs = map vkey ws -> Forall2 (fun x y => veq x y = true) vs ws.
Proof.
  induction vs as [|x vs IHvs]; intros [|y ws] IH Hw Hw' Hc Hc' Hm; cbn [map] in Hm; try discriminate Hm.
  - constructor.
  - lsplit Hm. inversion IH as [|? ? Hx IH']; subst. cbn [forallb] in *. bsplit.
    constructor.
    + destruct (Hx y) as [_ T2]; try assumption. apply T2; assumption.
    + apply IHvs; assumption.
Qed.

Lemma Forall_Key_map_vkey vs : forallb wf_value vs = true -> forallb clean vs = true -> Forall Key (map vkey vs).
Proof.
  rewrite !forallb_forall. intros Hw Hc. apply Forall_forall. intros k Hk.
  apply in_map_iff in Hk. destruct Hk as (v & <- & Hv). apply vkey_Key; [auto|apply clean_keyable; auto].
Qed.

Lemma in64_ns ns : (0 <=? ns) = true -> (ns <? 1000000000) = true -> in_int64 ns = true.
Proof.
  intros H1 H2. apply Z.leb_le in H1. apply Z.ltb_lt in H2. unfold in_int64, min_int64, max_int64.
  apply andb_true_iff. split; apply Z.leb_le; lia.
Qed.

(* Hash: equal hashes have equal keys *)
Lemma hash_T1 es fs :
  Forall (fun e => VGood (fst e) /\ VGood (snd e)) es ->
  wf_value (VHash es) = true -> wf_value (VHash fs) = true ->
  veq (VHash es) (VHash fs) = true ->
  vkey (VHash es) = vkey (VHash fs) /\ clean (VHash es) = true /\ clean (VHash fs) = true.
Proof.
  intros IH Hw Hw' He. rewrite veq_hash in He. apply andb_true_iff in He. destruct He as [Hlen Hsub].
  apply Nat.eqb_eq in Hlen.
  destruct (wf_hash_parts es Hw) as [Hn Hp]. destruct (wf_hash_parts fs Hw') as [Hn' Hp'].
  rewrite (hash_sub_spec es fs Hn) in Hsub. rewrite Forall_forall in IH.
  (* every entry of es has an equal entry in fs *)
  assert (forall k v, In (k, v) es -> exists k' v', In (k', v') fs /\ vkey k' = vkey k /\ vkey v = vkey v' /\
            clean k = true /\ clean v = true /\ clean k' = true /\ clean v' = true) as Hm.
  { intros k v Hin. destruct (Hsub k v Hin) as (k' & v' & Hf & E1 & E2).
    apply find_last_some in Hf. destruct Hf as [Hin' Hk]. cbn [fst] in Hk.
    destruct (Hp k v Hin) as (W1 & W2 & _). destruct (Hp' k' v' Hin') as (W1' & W2' & _).
    destruct (IH _ Hin) as [Gk Gv]. cbn [fst snd] in Gk, Gv.
    destruct (Gk k' W1 W1') as [T1k _]. destruct (Gv v' W2 W2') as [T1v _].
    destruct (T1k E1) as (_ & C1 & C2). destruct (T1v E2) as (E & C3 & C4).
    exists k', v'. auto 10. }
  (* so the keys of es are keys of fs, and by counting the keys of fs are keys of es *)
  assert (incl (keys_of es) (keys_of fs)) as Hincl.
  { intros z Hz. apply in_map_iff in Hz. destruct Hz as ([k v] & <- & Hin).
    destruct (Hm k v Hin) as (k' & v' & Hin' & E & _). cbn [fst]. rewrite <- E.
    apply (in_map (fun e => vkey (fst e)) fs (k', v')). assumption. }
  assert (incl (keys_of fs) (keys_of es)) as Hincl'.
  { apply NoDup_length_incl; [assumption| |assumption]. unfold keys_of. rewrite !map_length. lia. }
  (* every entry of fs is the equal entry of some entry of es *)
  assert (forall k' v', In (k', v') fs -> exists k v, In (k, v) es /\ vkey k' = vkey k /\ vkey v = vkey v' /\
            clean k = true /\ clean v = true /\ clean k' = true /\ clean v' = true) as Hm'.
  { intros k' v' Hin'.
    assert (In (vkey k') (keys_of es)) as Hz by (apply Hincl'; apply (in_map (fun e => vkey (fst e)) fs (k', v')); assumption).
    apply in_map_iff in Hz. destruct Hz as ([k v] & E & Hin). cbn [fst] in E.
    destruct (Hm k v Hin) as (k2 & v2 & Hin2 & E2 & R).
    assert ((k2, v2) = (k', v')) as Heq.
    { pose proof (find_last_unique fs (k2, v2) Hn' Hin2) as F1. pose proof (find_last_unique fs (k', v') Hn' Hin') as F2.
      cbn [fst] in F1, F2. rewrite E2, E in F1. rewrite F1 in F2. injection F2 as -> ->. reflexivity. }
    injection Heq as -> ->. exists k, v. auto 10. }
  assert (clean (VHash es) = true) as Hc.
  { cbn [clean]. apply forallb_forall. intros [k v] Hin. destruct (Hm k v Hin) as (? & ? & _ & _ & _ & C1 & C2 & _).
    rewrite C1, C2. reflexivity. }
  assert (clean (VHash fs) = true) as Hc'.
  { cbn [clean]. apply forallb_forall. intros [k v] Hin. destruct (Hm' k v Hin) as (? & ? & _ & _ & _ & _ & _ & C1 & C2).
    rewrite C1, C2. reflexivity. }
  split; [|auto].
  assert (forall es0, wf_value (VHash es0) = true -> clean (VHash es0) = true ->
            forall k v, In (k, v) es0 -> Key (vkey k) /\ Key (vkey v)) as HK.
  { intros es0 W C k v Hin. destruct (wf_hash_parts es0 W) as [_ P0]. destruct (P0 k v Hin) as (W1 & W2 & _).
    destruct (clean_hash_parts es0 C k v Hin) as [C1 C2].
    split; apply vkey_Key; try assumption; apply clean_keyable; assumption. }
  rewrite !vkey_hash. f_equal.
  apply sort_nodup_eq_iff; [apply NoDup_map_ekey; [assumption|apply HK; assumption]
                           |apply NoDup_map_ekey; [assumption|apply HK; assumption]|].
  intros z. rewrite !in_map_iff. split.
  - intros ([k v] & <- & Hin). destruct (Hm k v Hin) as (k' & v' & Hin' & E1 & E2 & _).
    exists (k', v'). split; [|assumption]. cbn [ekey]. rewrite E1, E2. reflexivity.
  - intros ([k' v'] & <- & Hin'). destruct (Hm' k' v' Hin') as (k & v & Hin & E1 & E2 & _).
    exists (k, v). split; [|assumption]. cbn [ekey]. rewrite E1, E2. reflexivity.
Qed.

(* Hash: hashes with equal keys are equal *)
Lemma hash_T2 es fs :
  Forall (fun e => VGood (fst e) /\ VGood (snd e)) es ->
  wf_value (VHash es) = true -> wf_value (VHash fs) = true ->
  clean (VHash es) = true -> clean (VHash fs) = true ->
  vkey (VHash es) = vkey (VHash fs) -> veq (VHash es) (VHash fs) = true.
Proof.
  intros IH Hw Hw' Hc Hc' Hk.
  destruct (wf_hash_parts es Hw) as [Hn Hp]. destruct (wf_hash_parts fs Hw') as [Hn' Hp'].
  assert (forall es0, wf_value (VHash es0) = true -> clean (VHash es0) = true ->
            forall k v, In (k, v) es0 -> Key (vkey k) /\ Key (vkey v)) as HK.
  { intros es0 W C k v Hin. destruct (wf_hash_parts es0 W) as [_ P0]. destruct (P0 k v Hin) as (W1 & W2 & _).
    destruct (clean_hash_parts es0 C k v Hin) as [C1 C2].
    split; apply vkey_Key; try assumption; apply clean_keyable; assumption. }
  assert (forall es0, wf_value (VHash es0) = true -> clean (VHash es0) = true -> Forall Key (sort_strs (map ekey es0))) as HKs.
  { intros es0 W C. apply sort_Forall. apply Forall_forall. intros z Hz. apply in_map_iff in Hz.
    destruct Hz as ([k v] & <- & Hin). destruct (HK es0 W C k v Hin). apply Key_ekey; assumption. }
  rewrite !vkey_hash in Hk. apply k_seq_inj in Hk; [|apply HKs; assumption|apply HKs; assumption].
  destruct Hk as [_ Hs].
  assert (length es = length fs) as Hlen.
  { pose proof (f_equal (@length _) Hs) as Hl. rewrite !sort_length, !map_length in Hl. exact Hl. }
  assert (NoDup (map ekey es)) as Hnd by (apply NoDup_map_ekey; [assumption|apply HK; assumption]).
  assert (NoDup (map ekey fs)) as Hnd' by (apply NoDup_map_ekey; [assumption|apply HK; assumption]).
  pose proof (proj1 (sort_nodup_eq_iff _ _ Hnd Hnd') Hs) as Hs'. clear Hs. rename Hs' into Hs.
  rewrite veq_hash, Hlen, Nat.eqb_refl. cbn [andb]. apply (hash_sub_spec es fs Hn).
  rewrite Forall_forall in IH.
  intros k v Hin.
  assert (In (ekey (k, v)) (map ekey fs)) as Hz by (apply Hs; apply in_map; assumption).
  apply in_map_iff in Hz. destruct Hz as ([k' v'] & E & Hin').
  destruct (HK es Hw Hc k v Hin) as [K1 K2]. destruct (HK fs Hw' Hc' k' v' Hin') as [K3 K4].
  apply ekey_inj in E; try assumption. destruct E as [E1 E2].
  exists k', v'. split.
  - rewrite <- E1. apply (find_last_unique fs (k', v') Hn' Hin').
  - destruct (Hp k v Hin) as (W1 & W2 & _). destruct (Hp' k' v' Hin') as (W1' & W2' & _).
    destruct (clean_hash_parts es Hc k v Hin) as [C1 C2]. destruct (clean_hash_parts fs Hc' k' v' Hin') as [C1' C2'].
    destruct (IH _ Hin) as [Gk Gv]. cbn [fst snd] in Gk, Gv.
    destruct (Gk k' W1 W1') as [_ T2k]. destruct (Gv v' W2 W2') as [_ T2v].
    split; [apply T2k|apply T2v]; auto.
Qed.

Ltac t1_cross He := try (cbn [veq] in He; discriminate He).
Ltac t1_same He := try (cbn [veq] in He; discriminate He); cbn [veq] in He.

Theorem v_good x : VGood x.
Proof.
  induction x as [| |b|z|b|s|s|s|z|s ns|vs IH|es IH|k v IHk IHv|v IHv|t] using value_ind2; intros y Hwx Hwy;
    (split; [intros He | intros Hcx Hcy Hk;
                         pose proof (vkey_eq_khead _ _ (clean_keyable _ Hcx) (clean_keyable _ Hcy) Hk) as Hh]).
  - destruct y; t1_same He. auto.
  - destruct y; cbn [khead] in Hh; try discriminate Hh. reflexivity.
  - destruct y; t1_same He. auto.
  - destruct y; cbn [khead] in Hh; try discriminate Hh. reflexivity.
  - (* Boolean *)
    destruct y; t1_same He. apply eqb_prop in He. subst. auto.
  - destruct y; cbn [khead] in Hh; try discriminate Hh. cbn [vkey] in Hk. apply k_bool_inj in Hk. subst. cbn. apply eqb_reflx.
  - (* Integer *)
    destruct y; t1_same He. apply Z.eqb_eq in He. subst. auto.
  - destruct y; cbn [khead] in Hh; try discriminate Hh. cbn [vkey wf_value] in *. apply k_int_inj in Hk; try assumption.
    subst. cbn. apply Z.eqb_refl.
  - (* Float *)
    destruct y; t1_same He. apply feq_true in He. destruct He as (N1 & N2 & E). cbn [vkey clean]. unfold k_float.
    rewrite E, N1, N2. auto.
  - destruct y; cbn [khead] in Hh; try discriminate Hh. cbn [vkey wf_value clean] in *. apply k_float_inj in Hk; try assumption.
    cbn [veq]. apply feq_true. apply negb_true_iff in Hcx, Hcy. auto.
  - (* String *)
    destruct y; t1_same He. apply str_eqb_eq in He. subst. auto.
  - destruct y; cbn [khead] in Hh; try discriminate Hh. cbn [vkey wf_value] in *. apply k_str_inj in Hk; try assumption.
    subst. cbn. apply str_eqb_refl.
  - (* Regexp *)
    destruct y; t1_same He. apply str_eqb_eq in He. subst. auto.
  - destruct y; cbn [khead] in Hh; try discriminate Hh. cbn [vkey wf_value] in *. apply k_regexp_inj in Hk; try assumption.
    subst. cbn. apply str_eqb_refl.
  - (* Binary *)
    destruct y; t1_same He. apply str_eqb_eq in He. subst. auto.
  - destruct y; cbn [khead] in Hh; try discriminate Hh. cbn [vkey wf_value] in *. apply k_binary_inj in Hk; try assumption.
    subst. cbn. apply str_eqb_refl.
  - (* Timespan *)
    destruct y; t1_same He. apply Z.eqb_eq in He. cbn [vkey clean]. unfold k_timespan. rewrite He. auto.
  - destruct y; cbn [khead] in Hh; try discriminate Hh. cbn [vkey wf_value] in *. unfold k_timespan in Hk.
    apply cons2_inj in Hk. destruct Hk as (_ & _ & Hk). apply k64_inj in Hk; try (apply tspan_secs_in64; assumption).
    cbn [veq]. rewrite Hk. apply Z.eqb_refl.
  - (* Timestamp *)
    destruct y; t1_same He. zprops. subst. auto.
  - destruct y; cbn [khead] in Hh; try discriminate Hh. cbn [vkey wf_value] in *. unfold k_timestamp in Hk. bsplit.
    apply cons2_inj in Hk. destruct Hk as (_ & _ & Hk).
    apply app_inv_length in Hk; [|rewrite !be64_length; reflexivity]. destruct Hk as [E1 E2].
    apply k64_inj in E1; try assumption. apply k64_inj in E2; try (apply in64_ns; assumption).
    subst. cbn [veq]. rewrite !Z.eqb_refl. reflexivity.
  - (* Array *)
    destruct y as [| | | | | | | | | |ws|fs|k v| |]; t1_cross He.
    + rewrite veq_arr in He. apply andb_true_iff in He. destruct He as [Hlen He].
      apply Nat.eqb_eq in Hlen. apply veq_list_Forall2 in He; [|assumption].
      cbn [wf_value] in Hwx, Hwy. destruct (list_T1 vs ws IH Hwx Hwy He) as (E & C1 & C2).
      rewrite !vkey_arr, E. cbn [clean]. auto.
    + cbn [veq] in He. destruct vs as [|p [|q [|r vs]]]; try discriminate He. bsplit.
      inversion IH as [|? ? Gp IH1]; subst. inversion IH1 as [|? ? Gq _]; subst.
      cbn [wf_value forallb] in Hwx, Hwy. bsplit.
      destruct (Gp k) as [T1p _]; try assumption. destruct (Gq v) as [T1q _]; try assumption.
      match goal with H1 : veq p k = true, H2 : veq q v = true |- _ =>
        destruct (T1p H1) as (E1 & C1 & C2); destruct (T1q H2) as (E2 & C3 & C4) end.
      rewrite vkey_arr, vkey_entry. cbn [map clean forallb]. rewrite E1, E2, C1, C2, C3, C4. auto.
  - destruct y as [| | | | | | | | | |ws|fs|k v| |]; cbn [khead] in Hh; try discriminate Hh.
    + rewrite !vkey_arr in Hk. cbn [wf_value clean] in *.
      apply k_seq_inj in Hk; [|apply Forall_Key_map_vkey; assumption|apply Forall_Key_map_vkey; assumption].
      destruct Hk as [_ Hm].
      assert (length vs = length ws) as Hlen by (rewrite <- (map_length vkey vs), Hm, map_length; reflexivity).
      rewrite veq_arr, Hlen, Nat.eqb_refl. cbn [andb]. apply veq_list_Forall2; [assumption|].
      apply list_T2; assumption.
    + rewrite vkey_arr, vkey_entry in Hk. cbn [wf_value clean] in *. bsplit.
      apply k_seq_inj in Hk; [|apply Forall_Key_map_vkey; assumption
                              |repeat constructor; apply vkey_Key; try assumption; apply clean_keyable; assumption].
      destruct Hk as [_ Hm].
      destruct vs as [|p [|q [|r vs]]]; cbn [map] in Hm; try discriminate Hm.
      lsplit Hm. lsplit Hm. clear Hm.
      inversion IH as [|? ? Gp IH1]; subst. inversion IH1 as [|? ? Gq _]; subst.
      cbn [forallb] in *. bsplit.
      destruct (Gp k) as [_ T2p]; try assumption. destruct (Gq v) as [_ T2q]; try assumption.
      cbn [veq]. rewrite T2p, T2q by assumption. reflexivity.
  - (* Hash *)
    destruct y as [| | | | | | | | | |ws|fs|k v| |]; t1_cross He.
    apply hash_T1; assumption.
  - destruct y as [| | | | | | | | | |ws|fs|k v| |]; cbn [khead] in Hh; try discriminate Hh.
    apply hash_T2; assumption.
  - (* HashEntry *)
    destruct y as [| | | | | | | | | |ws|fs|k' v'| |]; t1_cross He.
    + cbn [veq] in He. destruct ws as [|p [|q [|r ws]]]; try discriminate He. bsplit.
      cbn [wf_value forallb] in Hwx, Hwy. bsplit.
      destruct (IHk p) as [T1k _]; try assumption. destruct (IHv q) as [T1v _]; try assumption.
      match goal with H1 : veq k p = true, H2 : veq v q = true |- _ =>
        destruct (T1k H1) as (E1 & C1 & C2); destruct (T1v H2) as (E2 & C3 & C4) end.
      rewrite vkey_arr, vkey_entry. cbn [map clean forallb]. rewrite E1, E2, C1, C2, C3, C4. auto.
    + cbn [veq] in He. bsplit. cbn [wf_value] in Hwx, Hwy. bsplit.
      destruct (IHk k') as [T1k _]; try assumption. destruct (IHv v') as [T1v _]; try assumption.
      match goal with H1 : veq k k' = true, H2 : veq v v' = true |- _ =>
        destruct (T1k H1) as (E1 & C1 & C2); destruct (T1v H2) as (E2 & C3 & C4) end.
      rewrite !vkey_entry. cbn [clean]. rewrite E1, E2, C1, C2, C3, C4. auto.
  - destruct y as [| | | | | | | | | |ws|fs|k' v'| |]; cbn [khead] in Hh; try discriminate Hh.
    + rewrite vkey_arr, vkey_entry in Hk. cbn [wf_value clean] in *. bsplit.
      apply k_seq_inj in Hk; [|repeat constructor; apply vkey_Key; try assumption; apply clean_keyable; assumption
                              |apply Forall_Key_map_vkey; assumption].
      destruct Hk as [_ Hm].
      destruct ws as [|p [|q [|r ws]]]; cbn [map] in Hm; try discriminate Hm.
      lsplit Hm. lsplit Hm. clear Hm. cbn [forallb] in *. bsplit.
      destruct (IHk p) as [_ T2k]; try assumption. destruct (IHv q) as [_ T2v]; try assumption.
      cbn [veq]. rewrite T2k, T2v by assumption. reflexivity.
    + rewrite !vkey_entry in Hk. cbn [wf_value clean] in *. bsplit.
      apply k_seq_inj in Hk; [|repeat constructor; apply vkey_Key; try assumption; apply clean_keyable; assumption
                              |repeat constructor; apply vkey_Key; try assumption; apply clean_keyable; assumption].
      destruct Hk as [_ Hm]. lsplit Hm. lsplit Hm. clear Hm.
      destruct (IHk k') as [_ T2k]; try assumption. destruct (IHv v') as [_ T2v]; try assumption.
      cbn [veq]. rewrite T2k, T2v by assumption. reflexivity.
  - (* Sensitive *)
    cbn [veq] in He. discriminate He.
  - cbn [clean] in Hcx. discriminate Hcx.
  - (* Type *)
    destruct y as [| | | | | | | | | | | | | |t']; t1_same He. cbn [wf_value] in Hwx, Hwy.
    destruct (ty_eqb_clean _ _ He) as [C1 C2]. cbn [vkey clean]. rewrite (ty_eqb_key t t') by assumption. auto.
  - destruct y as [| | | | | | | | | | | | | |t']; cbn [khead] in Hh; try discriminate Hh.
    cbn [wf_value clean vkey veq] in *. apply ty_key_eqb; assumption.
Qed.

(* ------------------------------------------------------------------------------------------ *)
(* the theorems *)

Theorem veq_same_key x y : wf_value x = true -> wf_value y = true -> veq x y = true -> vkey x = vkey y.
Proof. intros Hx Hy He. destruct (v_good x y Hx Hy) as [T1 _]. apply T1. assumption. Qed.

Theorem veq_clean x y : wf_value x = true -> wf_value y = true -> veq x y = true -> clean x = true /\ clean y = true.
Proof. intros Hx Hy He. destruct (v_good x y Hx Hy) as [T1 _]. apply T1. assumption. Qed.

Theorem same_key_veq x y : wf_value x = true -> wf_value y = true -> clean x = true -> clean y = true ->
  vkey x = vkey y -> veq x y = true.
Proof. intros Hx Hy. destruct (v_good x y Hx Hy) as [_ T2]. exact T2. Qed.

Theorem key_iff_eq x y : wf_value x = true -> wf_value y = true -> clean x = true -> clean y = true ->
  (vkey x = vkey y <-> veq x y = true).
Proof. intros Hx Hy Cx Cy. split; [apply same_key_veq|apply veq_same_key]; assumption. Qed.

Theorem veq_refl x : wf_value x = true -> clean x = true -> veq x x = true.
Proof. intros Hx Cx. apply same_key_veq; auto. Qed.

Theorem veq_sym x y : wf_value x = true -> wf_value y = true -> veq x y = veq y x.
Proof.
  intros Hx Hy. destruct (veq x y) eqn:E1, (veq y x) eqn:E2; try reflexivity.
  - destruct (veq_clean x y Hx Hy E1) as [Cx Cy]. rewrite <- E2. symmetry.
    apply same_key_veq; try assumption. symmetry. apply veq_same_key; assumption.
  - destruct (veq_clean y x Hy Hx E2) as [Cy Cx]. rewrite <- E1.
    apply same_key_veq; try assumption. symmetry. apply veq_same_key; assumption.
Qed.

Theorem veq_trans x y z : wf_value x = true -> wf_value y = true -> wf_value z = true ->
  veq x y = true -> veq y z = true -> veq x z = true.
Proof.
  intros Hx Hy Hz E1 E2.
  destruct (veq_clean x y Hx Hy E1) as [Cx _]. destruct (veq_clean y z Hy Hz E2) as [_ Cz].
  apply same_key_veq; try assumption.
  rewrite (veq_same_key x y Hx Hy E1). apply veq_same_key; assumption.
Qed.

(* the key of a keyable value is never a proper prefix of another key *)
Theorem vkey_prefix_free x y r r' :
  wf_value x = true -> wf_value y = true -> keyable x = true -> keyable y = true ->
  vkey x ++ r = vkey y ++ r' -> vkey x = vkey y /\ r = r'.
Proof. intros Hx Hy Kx Ky. apply Key_inj_app; apply vkey_Key; assumption. Qed.

(* ------------------------------------------------------------------------------------------ *)
(* Hash.Get / IncludesKey *)

Theorem hash_get_iff es q v :
  wf_value (VHash es) = true -> wf_value q = true ->
  (forall k w, In (k, w) es -> clean k = true) -> clean q = true ->
  (hash_get es q = Some v <-> exists k, In (k, v) es /\ veq k q = true).
Proof.
  intros Hw Hq Hck Hcq. destruct (wf_hash_parts es Hw) as [Hn Hp]. unfold hash_get. split.
  - destruct (find_last (vkey q) es) as [[k w]|] eqn:E; [|discriminate]. intros H. injection H as <-.
    apply find_last_some in E. destruct E as [Hin Hk]. cbn [fst] in Hk. exists k. split; [assumption|].
    destruct (Hp k w Hin) as (W1 & _). apply same_key_veq; eauto.
  - intros (k & Hin & He). destruct (Hp k v Hin) as (W1 & _).
    rewrite <- (veq_same_key k q W1 Hq He). pose proof (find_last_unique es (k, v) Hn Hin) as F. cbn [fst] in F.
    rewrite F. reflexivity.
Qed.

Theorem hash_includes_key_iff es q :
  wf_value (VHash es) = true -> wf_value q = true ->
  (forall k w, In (k, w) es -> clean k = true) -> clean q = true ->
  (hash_includes_key es q = true <-> exists k v, In (k, v) es /\ veq k q = true).
Proof.
  intros Hw Hq Hck Hcq. unfold hash_includes_key. split.
  - destruct (find_last (vkey q) es) as [[k v]|] eqn:E; [|discriminate]. intros _.
    assert (hash_get es q = Some v) as G by (unfold hash_get; rewrite E; reflexivity).
    apply (hash_get_iff es q v Hw Hq Hck Hcq) in G. destruct G as (k0 & G). exists k0, v. exact G.
  - intros (k & v & H). assert (hash_get es q = Some v) as G by (apply hash_get_iff; eauto).
    unfold hash_get in G. destruct (find_last (vkey q) es); [reflexivity|discriminate].
Qed.

(* ------------------------------------------------------------------------------------------ *)
(* Unique *)

Lemma existsb_key_In k seen : existsb (str_eqb k) seen = true <-> In k seen.
Proof.
  rewrite existsb_exists. split.
  - intros (y & Hy & E). apply str_eqb_eq in E. subst. assumption.
  - intros H. exists k. split; [assumption|apply str_eqb_refl].
Qed.

Lemma uniq_In seen vs y : In y (uniq seen vs) -> In y vs /\ ~ In (vkey y) seen.
Proof.
  revert seen; induction vs as [|v vs IH]; intros seen; cbn [uniq]; [tauto|].
  destruct (existsb (str_eqb (vkey v)) seen) eqn:E.
  - intros H. destruct (IH _ H). split; [right|]; assumption.
  - intros [<-|H].
    + split; [left; reflexivity|]. intros Hin. apply existsb_key_In in Hin. congruence.
    + destruct (IH _ H) as [H1 H2]. split; [right; assumption|]. intros Hin. apply H2. right. assumption.
Qed.

Lemma uniq_NoDup seen vs : NoDup (map vkey (uniq seen vs)).
Proof.
  revert seen; induction vs as [|v vs IH]; intros seen; cbn [uniq]; [constructor|].
  destruct (existsb (str_eqb (vkey v)) seen); [apply IH|].
  cbn [map]. constructor; [|apply IH].
  intros Hin. apply in_map_iff in Hin. destruct Hin as (y & E & Hy).
  apply uniq_In in Hy. destruct Hy as [_ Hy]. apply Hy. left. symmetry. assumption.
Qed.

Lemma uniq_cover seen vs x : In x vs -> In (vkey x) seen \/ exists y, In y (uniq seen vs) /\ vkey y = vkey x.
Proof.
  revert seen; induction vs as [|v vs IH]; intros seen; cbn [uniq]; [intros []|].
  intros [->|Hin].
  - destruct (existsb (str_eqb (vkey x)) seen) eqn:E.
    + left. apply existsb_key_In. assumption.
    + right. exists x. split; [left|]; reflexivity.
  - destruct (existsb (str_eqb (vkey v)) seen) eqn:E.
    + apply IH. assumption.
    + destruct (IH (vkey v :: seen) Hin) as [[Hs|Hs]|(y & Hy & Ey)].
      * right. exists v. split; [left; reflexivity|assumption].
      * left. assumption.
      * right. exists y. split; [right|]; assumption.
Qed.

(* the first value of every class is the one that is kept *)
Lemma uniq_first seen l1 x l2 :
  ~ In (vkey x) seen -> (forall w, In w l1 -> vkey w <> vkey x) -> In x (uniq seen (l1 ++ x :: l2)).
Proof.
  revert seen; induction l1 as [|w l1 IH]; intros seen Hs Hl; cbn [app uniq].
  - destruct (existsb (str_eqb (vkey x)) seen) eqn:E; [|left; reflexivity].
    exfalso. apply Hs. apply existsb_key_In. assumption.
  - destruct (existsb (str_eqb (vkey w)) seen).
    + apply IH; [assumption|]. intros w0 H0. apply Hl. right. assumption.
    + right. apply IH.
      * intros [E|H]; [|auto]. apply (Hl w); [left; reflexivity|assumption].
      * intros w0 H0. apply Hl. right. assumption.
Qed.

Theorem unique_sublist vs y : In y (unique vs) -> In y vs.
Proof. intros H. apply (uniq_In [] vs y H). Qed.

Theorem unique_keeps_one_per_class vs x :
  (forall v, In v vs -> wf_value v = true /\ clean v = true) ->
  In x vs -> exists y, In y (unique vs) /\ veq y x = true.
Proof.
  intros Hall Hin. destruct (uniq_cover [] vs x Hin) as [[]|(y & Hy & E)].
  exists y. split; [assumption|]. destruct (Hall x Hin). destruct (Hall y (unique_sublist vs y Hy)).
  apply same_key_veq; assumption.
Qed.

Theorem unique_keeps_first l1 x l2 :
  (forall v, In v (l1 ++ x :: l2) -> wf_value v = true /\ clean v = true) ->
  (forall w, In w l1 -> veq w x = false) -> In x (unique (l1 ++ x :: l2)).
Proof.
  intros Hall Hl. apply uniq_first; [tauto|].
  intros w Hw E.
  destruct (Hall w) as [W1 C1]; [apply in_or_app; left; assumption|].
  destruct (Hall x) as [W2 C2]; [apply in_or_app; right; left; reflexivity|].
  specialize (Hl w Hw). rewrite (same_key_veq w x W1 W2 C1 C2 E) in Hl. discriminate Hl.
Qed.

Theorem unique_merges_only_equal vs l1 y l2 z l3 :
  (forall v, In v vs -> wf_value v = true) ->
  unique vs = l1 ++ y :: l2 ++ z :: l3 -> veq y z = false.
Proof.
  intros Hall E. pose proof (uniq_NoDup [] vs) as Hn. fold (unique vs) in Hn. rewrite E in Hn.
  destruct (veq y z) eqn:He; [|reflexivity]. exfalso.
  assert (In y (unique vs)) as Hy by (rewrite E; apply in_or_app; right; left; reflexivity).
  assert (In z (unique vs)) as Hz by (rewrite E; apply in_or_app; right; right; apply in_or_app; right; left; reflexivity).
  apply unique_sublist in Hy, Hz.
  pose proof (veq_same_key y z (Hall y Hy) (Hall z Hz) He) as Hk.
  rewrite map_app in Hn. cbn [map] in Hn. apply NoDup_remove_2 in Hn. apply Hn.
  apply in_or_app. right. rewrite map_app. apply in_or_app. right. cbn [map]. left. symmetry. assumption.
Qed.
