(* LoaderDepProofs.v — the dependency loader with module loaders (Model/LoaderDep.v) refines its specification
   on every history; simulation by induction over the module list and over histories, on top of the simulation of
   the loader tree (Proofs/LoaderProofs.v). *)
From Coq Require Import NArith Bool List Lia PeanoNat Arith.
From PcoreV Require Import Model.Base Model.Loader Model.LoaderSpec Model.LoaderDep Proofs.LoaderNames Proofs.LoaderProofs.
Import ListNotations.

Local Arguments Nat.ltb : simpl never.

Ltac splits := repeat match goal with |- _ /\ _ => split end.

(* ---------------------------------------------------------------------------------------------- *)
(* the index *)

Lemma dep_index_fold (m : str) : forall (ms : modset) acc,
  fold_left (fun acc kv => if nonempty (fst kv) && str_eqb (fst kv) m then Some (snd kv) else acc) ms acc =
  match fold_left (fun acc kv => if nonempty (fst kv) && str_eqb (fst kv) m then Some (snd kv) else acc) ms None with
  | Some l => Some l
  | None => acc
  end.
Proof.
  induction ms as [|kv ms IH]; intros acc; cbn [fold_left]; [reflexivity|].
  rewrite (IH (if nonempty (fst kv) && str_eqb (fst kv) m then Some (snd kv) else acc)).
  rewrite (IH (if nonempty (fst kv) && str_eqb (fst kv) m then Some (snd kv) else None)).
  destruct (fold_left _ ms None); [reflexivity|].
  destruct (nonempty (fst kv) && str_eqb (fst kv) m); reflexivity.
Qed.

Lemma dep_index_cons kv ms m :
  dep_index (kv :: ms) m =
  match dep_index ms m with
  | Some l => Some l
  | None => if nonempty (fst kv) && str_eqb (fst kv) m then Some (snd kv) else None
  end.
Proof. unfold dep_index. cbn [fold_left]. apply dep_index_fold. Qed.

Lemma dep_index_nil m : dep_index [] m = None.
Proof. reflexivity. Qed.

(* the index holds, for a name, the LAST module loader of the list that answers to it; nameless loaders are not indexed *)
Lemma dep_index_some ms m l :
  dep_index ms m = Some l <->
  exists ms1 ms2, ms = ms1 ++ (m, l) :: ms2 /\ nonempty m = true /\ forall kv, In kv ms2 -> fst kv <> m.
Proof.
  revert l. induction ms as [|[k x] ms IH]; intros l.
  - rewrite dep_index_nil. split; [discriminate|]. intros (ms1 & ms2 & E & _). destruct ms1; discriminate.
  - rewrite dep_index_cons. cbn [fst snd]. split.
    + destruct (dep_index ms m) as [l'|] eqn:Ei.
      * intros E. injection E as <-. destruct (proj1 (IH l') eq_refl) as (ms1 & ms2 & -> & Hne & Hno).
        exists ((k, x) :: ms1), ms2. split; [reflexivity|]. split; assumption.
      * destruct (nonempty k) eqn:Hne; cbn [andb]; [|discriminate].
        destruct (str_eqb_spec k m) as [->|Hn]; [|discriminate]. intros E. injection E as <-.
        exists [], ms. split; [reflexivity|]. split; [exact Hne|].
        intros kv Hin E. subst m.
        assert (Hs : dep_index ms (fst kv) = Some (snd kv) \/ exists l', dep_index ms (fst kv) = Some l').
        { clear IH Ei. induction ms as [|kv' ms IHm]; [destruct Hin|].
          rewrite dep_index_cons. destruct Hin as [->|Hin].
          - destruct (dep_index ms (fst kv)); [right; eauto|]. rewrite Hne. cbn [andb].
            destruct (str_eqb_spec (fst kv) (fst kv)) as [_|C]; [left; reflexivity|contradiction].
          - destruct (IHm Hin) as [H|[l' H]]; rewrite H; right; eauto. }
        destruct Hs as [H|[l' H]]; rewrite H in Ei; discriminate.
    + intros (ms1 & ms2 & E & Hne & Hno). destruct ms1 as [|kv1 ms1]; cbn [app] in E.
      * inversion E; subst k x ms. clear E.
        assert (Hn : dep_index ms2 m = None).
        { clear IH. induction ms2 as [|kv ms2 IHm]; [reflexivity|]. rewrite dep_index_cons.
          rewrite IHm; [|intros kv' Hin; apply Hno; right; exact Hin].
          destruct (str_eqb_spec (fst kv) m) as [E|_]; [exfalso; apply (Hno kv); [left; reflexivity|exact E]|].
          rewrite andb_false_r. reflexivity. }
        rewrite Hn, Hne. cbn [andb]. destruct (str_eqb_spec m m) as [_|C]; [reflexivity|contradiction].
      * inversion E; subst kv1 ms. clear E.
        assert (H : dep_index (ms1 ++ (m, l) :: ms2) m = Some l) by (apply IH; eauto).
        rewrite H. reflexivity.
Qed.

Lemma index_pos_false ms m : index_pos ms = false -> dep_index ms m = None.
Proof.
  induction ms as [|kv ms IH]; [reflexivity|]. cbn [index_pos existsb]. intros H.
  apply orb_false_iff in H. destruct H as [H1 H2]. rewrite dep_index_cons, (IH H2), H1. reflexivity.
Qed.

Lemma dep_index_in ms m l : dep_index ms m = Some l -> In (m, l) ms.
Proof.
  intros H. apply dep_index_some in H. destruct H as (ms1 & ms2 & -> & _). apply in_or_app. right. left. reflexivity.
Qed.

(* ---------------------------------------------------------------------------------------------- *)
(* lookups through module loaders *)

Lemma mods_ok_in st ms kv : mods_ok st ms = true -> In kv ms -> snd kv < length st.
Proof.
  unfold mods_ok. rewrite forallb_forall. intros H Hin. apply Nat.ltb_lt. apply H. exact Hin.
Qed.

Lemma mods_ok_length st st' ms : length st' = length st -> mods_ok st ms = true -> mods_ok st' ms = true.
Proof. unfold mods_ok. intros ->. exact (fun H => H). Qed.

Lemma ml_load_sim st l n :
  inv st -> tn_wf n = true -> l < length st ->
  exists st' e, ml_load st l n = (st', LEnt e) /\ inv st' /\ abs st' = abs st /\
    spec_resolve_top (abs st) l n = Some (flat e).
Proof.
  intros Hi Hw Hl. unfold ml_load, spec_resolve_top.
  destruct (load_entry_sim (fuel_of l n) st l n Hi Hw Hl) as (st' & e & H1 & H2 & H3 & H4 & _); [unfold fuel_of; lia|].
  exists st', e. splits; assumption.
Qed.

Lemma find_loop_sim own n : forall ms st,
  inv st -> tn_wf n = true -> mods_ok st ms = true -> b_get own n = None ->
  exists st' e tr, find_loop st ms own n = (st', LEnt e, tr) /\ inv st' /\ abs st' = abs st /\
    spec_find_loop (abs st) ms n = Some (flat e, tr).
Proof.
  induction ms as [|[k l] ms IH]; intros st Hi Hw Hm Hg; cbn [find_loop spec_find_loop].
  - exists st, None, []. rewrite Hg. splits; try reflexivity; exact Hi.
  - assert (Hl : l < length st) by (apply (mods_ok_in st _ (k, l) Hm); left; reflexivity).
    destruct (ml_load_sim st l n Hi Hw Hl) as (st1 & e & H1 & Hi1 & Ha1 & Hs1).
    rewrite H1, Hs1.
    assert (Hm1 : mods_ok st1 ms = true).
    { apply (mods_ok_length st); [apply abs_eq_length; exact Ha1|].
      unfold mods_ok in *. cbn [forallb] in Hm. apply andb_prop in Hm. apply Hm. }
    destruct e as [[v|]|]; cbn [flat].
    + exists st1, (Some (Some v)), [l]. splits; try reflexivity; assumption.
    + destruct (IH st1 Hi1 Hw Hm1 Hg) as (st2 & e2 & tr & H2 & Hi2 & Ha2 & Hs2).
      rewrite H2. rewrite <- Ha1, Hs2. exists st2, e2, (l :: tr).
      splits; try reflexivity; try assumption; try congruence.
    + destruct (IH st1 Hi1 Hw Hm1 Hg) as (st2 & e2 & tr & H2 & Hi2 & Ha2 & Hs2).
      rewrite H2. rewrite <- Ha1, Hs2. exists st2, e2, (l :: tr).
      splits; try reflexivity; try assumption; try congruence.
Qed.

Lemma dep_find_sim st mods own n :
  inv st -> tn_wf n = true -> mods_ok st mods = true -> b_get own n = None ->
  exists st' e tr, dep_find st mods own n = (st', LEnt e, tr) /\ inv st' /\ abs st' = abs st /\
    spec_find (abs st) mods n = Some (flat e, tr).
Proof.
  intros Hi Hw Hm Hg. unfold dep_find, spec_find, route.
  assert (E : (if index_pos mods && is_qualified n
               then match parts n with first :: _ => dep_index mods first | [] => None end else None) =
              (if is_qualified n then match parts n with first :: _ => dep_index mods first | [] => None end else None)).
  { destruct (index_pos mods) eqn:Hp; cbn [andb]; [reflexivity|].
    destruct (is_qualified n); [|reflexivity]. destruct (parts n); [reflexivity|].
    symmetry. apply index_pos_false. exact Hp. }
  rewrite E. clear E.
  destruct (if is_qualified n then match parts n with first :: _ => dep_index mods first | [] => None end else None)
    as [l|] eqn:Hr.
  - assert (Hl : l < length st).
    { destruct (is_qualified n); [|discriminate]. destruct (parts n) as [|first rest]; [discriminate|].
      apply dep_index_in in Hr. apply (mods_ok_in st mods _ Hm Hr). }
    destruct (ml_load_sim st l n Hi Hw Hl) as (st1 & e & H1 & Hi1 & Ha1 & Hs1).
    rewrite H1, Hs1. exists st1, e, [l]. splits; try reflexivity; assumption.
  - apply find_loop_sim; assumption.
Qed.

(* ---------------------------------------------------------------------------------------------- *)
(* the dependency loader's own map *)

Lemma b_get_abs own n : NoDup (map fst own) -> assoc (map_key n) (abs_ents own) = flat (b_get own n).
Proof. intros H. unfold b_get. apply assoc_abs. exact H. Qed.

(* SetEntry of a value into the own map is the write-once definition *)
Lemma b_set_val_sim own n v :
  NoDup (map fst own) ->
  exists own' r, b_set own n (Some v) = (own', r) /\ NoDup (map fst own') /\
    binds_define (abs_ents own) n v =
      (abs_ents own', match r with SOk (Some v') => RDefined v' | SOk None => RFault | SErr c => RErr c | SStuck => RStuck end) /\
    match r with SOk (Some _) | SErr ERedefine | SErr ERedefineType => True | _ => False end.
Proof.
  intros Hnd. unfold b_set, binds_define. rewrite (assoc_abs _ (map_key n) Hnd).
  destruct (assoc (map_key n) own) as [[ov|]|] eqn:Ha; cbn [flat].
  - destruct (val_same ov v); cbn [orb].
    { eexists _, _. split; [reflexivity|]. split; [exact Hnd|]. split; [reflexivity|exact I]. }
    destruct (val_equals ov v).
    { eexists _, _. split; [reflexivity|]. split; [exact Hnd|]. split; [reflexivity|exact I]. }
    destruct (vty ov && vty v).
    { eexists _, _. split; [reflexivity|]. split; [exact Hnd|]. split; [reflexivity|exact I]. }
    eexists _, _. split; [reflexivity|]. split; [exact Hnd|]. split; [reflexivity|exact I].
  - eexists _, _. split; [reflexivity|]. split; [apply put_nodup; exact Hnd|].
    rewrite (abs_put_val _ _ _ Hnd); [|rewrite Ha; reflexivity]. split; [reflexivity|exact I].
  - eexists _, _. split; [reflexivity|]. split; [apply put_nodup; exact Hnd|].
    rewrite (abs_put_val _ _ _ Hnd); [|rewrite Ha; reflexivity]. split; [reflexivity|exact I].
Qed.

(* the dependency loader never stores an entry without value in its own map *)
Definition no_miss (own : ents) : Prop := forall k e, In (k, e) own -> e <> None.

Lemma no_miss_put own k v : no_miss own -> no_miss (ents_put own k (Some v)).
Proof.
  intros H x e Hin. apply put_in in Hin. destruct Hin as [E|Hin]; [inversion E; subst; discriminate|].
  apply (H x e Hin).
Qed.

Lemma b_set_val_no_miss own n v : no_miss own -> no_miss (fst (b_set own n (Some v))).
Proof.
  intros H. unfold b_set. destruct (assoc (map_key n) own) as [[ov|]|].
  - destruct (val_same ov v); [exact H|]. destruct (val_equals ov v); [exact H|].
    destruct (vty ov && vty v); exact H.
  - apply no_miss_put. exact H.
  - apply no_miss_put. exact H.
Qed.

(* LoadEntry of the dependency loader: never nil, never a panic; the specification's lookup *)
Lemma dep_load_entry_sim st mods own n :
  inv st -> tn_wf n = true -> mods_ok st mods = true -> NoDup (map fst own) -> no_miss own ->
  exists st' own' e tr, dep_load_entry st mods own n = (st', own', LEnt (Some e), tr) /\
    inv st' /\ abs st' = abs st /\ NoDup (map fst own') /\ no_miss own' /\
    dep_spec_lookup (abs st) mods (abs_ents own) n = Some (abs_ents own', e, tr).
Proof.
  intros Hi Hw Hm Hnd Hnm. unfold dep_load_entry, dep_spec_lookup. rewrite (b_get_abs own n Hnd).
  destruct (b_get own n) as [e|] eqn:Hg; cbn [flat].
  - destruct e as [v|]; [|exfalso; apply assoc_in in Hg; exact (Hnm _ _ Hg eq_refl)].
    exists st, own, (Some v), []. cbn [flat]. splits; try reflexivity; assumption.
  - destruct (dep_find_sim st mods own n Hi Hw Hm Hg) as (st1 & e & tr & H1 & Hi1 & Ha1 & Hs1).
    rewrite H1, Hs1.
    destruct e as [[v|]|]; cbn [flat].
    + destruct (b_set_val_sim own n v Hnd) as (own' & r & Hb & Hnd' & Hd & Hr).
      pose proof (b_set_val_no_miss own n v Hnm) as Hnm'. rewrite Hb in Hnm'. cbn [fst] in Hnm'.
      rewrite Hb. unfold binds_define in Hd. rewrite (b_get_abs own n Hnd), Hg in Hd. cbn [flat] in Hd.
      injection Hd as Hd1 Hd2. destruct r as [[v'|]|c|]; try discriminate; try contradiction.
      exists st1, own', (Some v), tr. rewrite Hd1. splits; try reflexivity; assumption.
    + exists st1, own, None, tr. splits; try reflexivity; assumption.
    + exists st1, own, None, tr. splits; try reflexivity; assumption.
Qed.

(* ---------------------------------------------------------------------------------------------- *)
(* histories *)

Record dinv (mods : modset) (ds : dstate) : Prop := mkDinv {
  dinv_tree : inv (fst ds);
  dinv_mods : mods_ok (fst ds) mods = true;
  dinv_nodup : NoDup (map fst (snd ds));
  dinv_vals : no_miss (snd ds)
}.

Definition dabs (ds : dstate) : dspec_state := (abs (fst ds), abs_ents (snd ds)).

(* the kind of result every operation has: no runtime fault, never stuck, a reported error only from a definition *)
Definition dout_ok (d : dop) (r : dout) : bool :=
  match d, r with
  | DBase o, DB x => out_ok o x
  | DLoadEntry _, DR (REntry (EPlaceholder | EVal _)) _ => true
  | DLoad _, DR (RFound _) _ => true
  | DGetEntry _, DR (REntry (ENone | EVal _)) [] => true
  | DHas _, DR (RBool _) [] => true
  | DDefine _ _, DR (RDefined _ | RErr ERedefine | RErr ERedefineType) [] => true
  | DLoaderFor _, DFor _ => true
  | _, _ => false
  end.

Lemma step_length cfg st o st' r : inv st -> op_wf o = true -> step cfg st o = (st', r) -> length st <= length st'.
Proof.
  intros Hi Hw Hs. destruct (step_sim cfg st o st' r Hi Hw Hs) as (_ & Hsp & _).
  assert (H : length (abs st) <= length (abs st')).
  { revert Hsp. generalize (abs st) (abs st') (project r). intros a a' r'.
    assert (Hadd : forall k, spec_add a k = (a', r') -> length a <= length a').
    { intros k E. unfold spec_add in E. injection E as <- _. rewrite app_length. lia. }
    assert (Hid : forall x, (a, x) = (a', r') -> length a <= length a') by (intros x E; injection E as <- _; lia).
    destruct o as [|l|l|l t|l n0 v|l n0|l n0|l n0|l n0|l p]; cbn [spec_step].
    - apply Hadd.
    - destruct (Nat.ltb l (length a)); [apply Hadd|apply Hid].
    - destruct (Nat.ltb l (length a)); [apply Hadd|apply Hid].
    - destruct (Nat.ltb l (length a)); [|apply Hid]. destruct (nth_error (cfg_tsets cfg) t); [apply Hadd|apply Hid].
    - destruct (Nat.ltb l (length a)); [|apply Hid]. unfold spec_define.
      destruct (def_target (S l) a l) as [t|]; [|apply Hid].
      destruct (assoc (map_key (norm n0)) (own_binds a t)); [apply Hid|].
      intros E. injection E as <- _.
      assert (Hl : forall a t bs, length (set_binds a t bs) = length a).
      { clear. induction a as [|nd a IH]; intros [|t] bs; cbn [set_binds length]; try reflexivity. rewrite IH. reflexivity. }
      rewrite Hl. lia.
    - destruct (Nat.ltb l (length a)); apply Hid.
    - destruct (Nat.ltb l (length a)); apply Hid.
    - destruct (Nat.ltb l (length a)); apply Hid.
    - destruct (Nat.ltb l (length a)); apply Hid.
    - destruct (Nat.ltb l (length a)); apply Hid. }
  rewrite !abs_length in H. exact H.
Qed.

Lemma mods_ok_mono st st' ms : length st <= length st' -> mods_ok st ms = true -> mods_ok st' ms = true.
Proof.
  unfold mods_ok. rewrite !forallb_forall. intros Hl H kv Hin. specialize (H kv Hin).
  apply Nat.ltb_lt in H. apply Nat.ltb_lt. lia.
Qed.

Lemma dstep_sim cfg mods ds d ds' r :
  dinv mods ds -> dop_wf d = true -> dstep cfg mods ds d = (ds', r) ->
  dinv mods ds' /\ dspec_step cfg mods (dabs ds) d = (dabs ds', dproject r) /\ dout_ok d r = true.
Proof.
  destruct ds as [st own]. intros [Hi Hm Hnd Hnm] Hw H. cbn [fst snd] in *. unfold dabs. cbn [fst snd].
  destruct d as [o|n0|n0|n0|n0|n0 v|m]; cbn [dstep dspec_step dop_wf] in *.
  - (* an operation on the tree *)
    destruct (step cfg st o) as [st1 x] eqn:Hs. injection H as <- <-.
    destruct (step_sim cfg st o st1 x Hi Hw Hs) as (Hi1 & Hsp & Hok). rewrite Hsp. cbn [fst snd dproject dout_ok].
    split; [|split; [reflexivity|exact Hok]].
    constructor; cbn [fst snd]; try assumption.
    apply (mods_ok_mono st); [eapply step_length; eauto|exact Hm].
  - (* LoadEntry *)
    destruct (dep_load_entry_sim st mods own (norm n0) Hi Hw Hm Hnd Hnm)
      as (st1 & own1 & e & tr & H1 & Hi1 & Ha1 & Hnd1 & Hnm1 & Hs1).
    rewrite H1 in H. injection H as <- <-. rewrite Hs1. cbn [fst snd dproject out_of_lres].
    split; [|split].
    + constructor; cbn [fst snd]; try assumption.
      apply (mods_ok_length st); [apply abs_eq_length; exact Ha1|exact Hm].
    + rewrite Ha1. destruct e as [v|]; reflexivity.
    + destruct e as [v|]; reflexivity.
  - (* px.Load *)
    destruct (negb (str_eqb (tn_auth (norm n0)) (cfg_auth cfg))).
    { injection H as <- <-. cbn [fst snd]. split; [constructor; assumption|]. split; reflexivity. }
    destruct (dep_load_entry_sim st mods own (norm n0) Hi Hw Hm Hnd Hnm)
      as (st1 & own1 & e & tr & H1 & Hi1 & Ha1 & Hnd1 & Hnm1 & Hs1).
    rewrite H1 in H. rewrite Hs1.
    assert (Hd : dinv mods (st1, own1)).
    { constructor; cbn [fst snd]; try assumption.
      apply (mods_ok_length st); [apply abs_eq_length; exact Ha1|exact Hm]. }
    destruct e as [v|]; injection H as <- <-; cbn [fst snd dproject project]; rewrite Ha1;
      (split; [exact Hd|split; reflexivity]).
  - (* GetEntry *)
    injection H as <- <-. cbn [fst snd dproject]. split; [constructor; assumption|].
    rewrite (b_get_abs own (norm n0) Hnd).
    destruct (b_get own (norm n0)) as [[v|]|] eqn:Hg; cbn [flat eobs_of eobs_of_val project].
    + split; reflexivity.
    + exfalso. apply assoc_in in Hg. exact (Hnm _ _ Hg eq_refl).
    + split; reflexivity.
  - (* HasEntry *)
    injection H as <- <-. cbn [fst snd dproject project]. split; [constructor; assumption|].
    rewrite (b_get_abs own (norm n0) Hnd). unfold b_has, b_get.
    destruct (assoc (map_key (norm n0)) own) as [[v|]|]; split; reflexivity.
  - (* SetEntry *)
    destruct (b_set_val_sim own (norm n0) v Hnd) as (own' & x & Hb & Hnd' & Hd & Hr).
    pose proof (b_set_val_no_miss own (norm n0) v Hnm) as Hnm'. rewrite Hb in Hnm'. cbn [fst] in Hnm'.
    rewrite Hb in H. injection H as <- <-. rewrite Hd. cbn [fst snd dproject].
    split; [constructor; assumption|].
    destruct x as [[v'|]|[| |]|]; try contradiction; split; reflexivity.
  - injection H as <- <-. cbn [fst snd]. split; [constructor; assumption|]. split; reflexivity.
Qed.

Lemma drun_from_sim cfg mods : forall ds s,
  dinv mods s -> forallb dop_wf ds = true ->
  dinv mods (fst (drun_from cfg mods s ds)) /\
  dspec_run_from cfg mods (dabs s) ds =
    (dabs (fst (drun_from cfg mods s ds)), map dproject (snd (drun_from cfg mods s ds))) /\
  Forall2 (fun d r => dout_ok d r = true) ds (snd (drun_from cfg mods s ds)).
Proof.
  induction ds as [|d ds IH]; intros s Hi Hw.
  - cbn. split; [exact Hi|]. split; [reflexivity|constructor].
  - cbn [forallb] in Hw. apply andb_prop in Hw. destruct Hw as [Hwd Hw].
    cbn [drun_from dspec_run_from].
    destruct (dstep cfg mods s d) as [s1 r] eqn:Hs.
    destruct (dstep_sim cfg mods s d s1 r Hi Hwd Hs) as (Hi1 & Hsp & Hok).
    rewrite Hsp. destruct (IH s1 Hi1 Hw) as (Hi2 & Hsp2 & Hok2).
    rewrite Hsp2. destruct (drun_from cfg mods s1 ds) as [s2 rs]. cbn [fst snd map] in *.
    split; [exact Hi2|]. split; [reflexivity|]. constructor; assumption.
Qed.

Lemma dinv_start cfg pre mods :
  cfg_wf cfg = true -> forallb op_wf pre = true -> mods_ok (fst (run cfg pre)) mods = true ->
  dinv mods (fst (run cfg pre), []).
Proof.
  intros Hc Hw Hm. constructor; cbn [fst snd map].
  - apply reachable_inv; assumption.
  - exact Hm.
  - constructor.
  - intros k e [].
Qed.

Lemma dabs_start cfg pre :
  cfg_wf cfg = true -> forallb op_wf pre = true -> dabs (fst (run cfg pre), []) = (fst (spec_run cfg pre), []).
Proof. intros Hc Hw. unfold dabs. cbn [fst snd abs_ents]. rewrite (loader_state_refines cfg pre Hc Hw). reflexivity. Qed.

(* The dependency loader over module loaders refines its specification on every history. *)
Theorem dep_refines cfg pre mods ds :
  cfg_wf cfg = true -> forallb op_wf pre = true -> mods_ok (fst (run cfg pre)) mods = true ->
  forallb dop_wf ds = true ->
  map dproject (douts cfg pre mods ds) = dspec_outs cfg pre mods ds.
Proof.
  intros Hc Hw Hm Hd. unfold douts, dspec_outs, drun, dspec_run.
  destruct (drun_from_sim cfg mods ds _ (dinv_start cfg pre mods Hc Hw Hm) Hd) as (_ & Hs & _).
  rewrite (dabs_start cfg pre Hc Hw) in Hs. rewrite Hs. reflexivity.
Qed.

Theorem dep_state_refines cfg pre mods ds :
  cfg_wf cfg = true -> forallb op_wf pre = true -> mods_ok (fst (run cfg pre)) mods = true ->
  forallb dop_wf ds = true ->
  dabs (fst (drun cfg pre mods ds)) = fst (dspec_run cfg pre mods ds).
Proof.
  intros Hc Hw Hm Hd. unfold drun, dspec_run.
  destruct (drun_from_sim cfg mods ds _ (dinv_start cfg pre mods Hc Hw Hm) Hd) as (_ & Hs & _).
  rewrite (dabs_start cfg pre Hc Hw) in Hs. rewrite Hs. reflexivity.
Qed.

Theorem dep_reachable_inv cfg pre mods ds :
  cfg_wf cfg = true -> forallb op_wf pre = true -> mods_ok (fst (run cfg pre)) mods = true ->
  forallb dop_wf ds = true -> dinv mods (fst (drun cfg pre mods ds)).
Proof.
  intros Hc Hw Hm Hd. unfold drun.
  apply (drun_from_sim cfg mods ds _ (dinv_start cfg pre mods Hc Hw Hm) Hd).
Qed.

(* no operation of any history hits a runtime fault, is stuck, or reports an error other than a redefinition *)
Theorem dep_results_classified cfg pre mods ds :
  cfg_wf cfg = true -> forallb op_wf pre = true -> mods_ok (fst (run cfg pre)) mods = true ->
  forallb dop_wf ds = true -> Forall2 (fun d r => dout_ok d r = true) ds (douts cfg pre mods ds).
Proof.
  intros Hc Hw Hm Hd. unfold douts, drun.
  apply (drun_from_sim cfg mods ds _ (dinv_start cfg pre mods Hc Hw Hm) Hd).
Qed.
