(* FormatTotal.v — formatting is total (the fuel of the container recursion and of mergeFormats is
   always sufficient) and container renderings are built recursively from the element renderings. *)
From Coq Require Import ZArith NArith Bool Lia List.
From PcoreV Require Import Model.Base Model.Format Proofs.FormatProofs.
Import ListNotations.
Open Scope Z_scope.

(* ------------------------------------------------------------------------------------------ *)
(* the container recursion *)

Lemma obind_some {A B} (x : option (R A)) (k : A -> option (R B)) :
  x <> None -> (forall a, k a <> None) -> obind x k <> None.
Proof. destruct x as [[a|e]|]; cbn; intros Hx Hk; [apply Hk | discriminate | contradiction]. Qed.

Lemma map_m_some {A B} (f : A -> option (R B)) l : (forall x, In x l -> f x <> None) -> map_m f l <> None.
Proof.
  induction l as [|x l IH]; intros H; cbn [map_m]; [discriminate|].
  apply obind_some; [apply H; now left|]. intros y.
  apply obind_some; [apply IH; intros z Hz; apply H; now right|]. intros ys. discriminate.
Qed.

Lemma vdepth_pos v : (1 <= vdepth v)%nat.
Proof. destruct v; cbn; lia. Qed.

Lemma vdepth_in_arr e es : In e es -> (vdepth e <= fold_right (fun e a => Nat.max (vdepth e) a) 0 es)%nat.
Proof.
  induction es as [|x es IH]; intros H; [contradiction|]. cbn [fold_right].
  destruct H as [->|H]; [lia|]. specialize (IH H). lia.
Qed.

Lemma vdepth_in_hash kv es :
  In kv es ->
  (Nat.max (vdepth (fst kv)) (vdepth (snd kv))
   <= fold_right (fun kv a => Nat.max (Nat.max (vdepth (fst kv)) (vdepth (snd kv))) a) 0 es)%nat.
Proof.
  induction es as [|x es IH]; intros H; [contradiction|]. cbn [fold_right].
  destruct H as [->|H]; [lia|]. specialize (IH H). lia.
Qed.

Lemma vdepth_entries es :
  (fold_right (fun e a => Nat.max (vdepth e) a) 0 (map entry_array es)
   <= S (fold_right (fun kv a => Nat.max (Nat.max (vdepth (fst kv)) (vdepth (snd kv))) a) 0 es))%nat.
Proof.
  induction es as [|kv es IH]; [cbn; lia|]. cbn [map fold_right]. unfold entry_array at 1. cbn [vdepth fold_right]. lia.
Qed.

Theorem render_some : forall n o ind m ent v, (vdepth v <= n)%nat -> render n o ind m ent v <> None.
Proof.
  induction n as [|n IH]; intros o ind m ent v Hd.
  - pose proof (vdepth_pos v). lia.
  - destruct v; cbn [render]; try discriminate.
    + (* array *)
      destruct (get_format o m (VArr es)) as [f|e]; [|discriminate].
      destruct (negb (mem (f_char f) set_array)); [discriminate|].
      apply obind_some; [|intros; discriminate].
      apply map_m_some. intros e He. apply obind_some; [|intros; discriminate].
      apply IH. cbn [vdepth] in Hd. pose proof (vdepth_in_arr e es He). lia.
    + (* hash *)
      destruct (get_format o m (VHash es)) as [f|e]; [|discriminate].
      destruct (N.eqb (f_char f) 97).
      { apply IH. cbn [vdepth] in Hd |- *. pose proof (vdepth_entries es). lia. }
      destruct (negb (mem (f_char f) l_hsp)); [discriminate|].
      apply obind_some; [|intros; discriminate].
      apply map_m_some. intros kv Hkv. cbn [vdepth] in Hd. pose proof (vdepth_in_hash kv es Hkv).
      apply obind_some; [apply IH; lia|]. intros ks.
      apply obind_some; [apply IH; lia|]. intros vs. discriminate.
Qed.

(* ------------------------------------------------------------------------------------------ *)
(* mergeFormats: the fuel bound is the nesting depth of the user's map *)

Fixpoint fdepth (f : format) : nat :=
  let 'mkFormat _ _ _ _ _ _ _ _ _ _ cf := f in
  match cf with
  | CfMap m => S ((fix go (m : list (tkey * format)) : nat :=
                     match m with [] => 0%nat | (_, f') :: r => Nat.max (fdepth f') (go r) end) m)
  | _ => 0%nat
  end.
Definition mdepth (m : fmap) : nat := fold_right (fun kf a => Nat.max (fdepth (snd kf)) a) 0%nat m.
Definition cdepth (c : cfmap) : nat := match c with CfMap m => S (mdepth m) | _ => 0%nat end.

Lemma fdepth_cf f : fdepth f = cdepth (f_cf f).
Proof.
  destruct f as [? ? ? ? ? ? ? ? ? ? cf]. cbn [f_cf fdepth]. destruct cf as [| |m]; try reflexivity.
  cbn [cdepth]. f_equal. induction m as [|[k f'] m IH]; [reflexivity|]. cbn [mdepth fold_right snd] in *. now rewrite IH.
Qed.

(* no CfDefault anywhere inside (formats built from the user's specification) *)
Fixpoint f_nodef (f : format) : Prop :=
  let 'mkFormat _ _ _ _ _ _ _ _ _ _ cf := f in
  match cf with
  | CfNone => True
  | CfDefault => False
  | CfMap m => (fix go (m : list (tkey * format)) : Prop :=
                  match m with [] => True | (_, f') :: r => f_nodef f' /\ go r end) m
  end.
Definition m_nodef (m : fmap) : Prop := Forall (fun kf => f_nodef (snd kf)) m.
Definition c_nodef (c : cfmap) : Prop := match c with CfNone => True | CfDefault => False | CfMap m => m_nodef m end.

Lemma f_nodef_cf f : f_nodef f <-> c_nodef (f_cf f).
Proof.
  destruct f as [? ? ? ? ? ? ? ? ? ? cf]. cbn [f_cf f_nodef]. destruct cf as [| |m]; try reflexivity.
  cbn [c_nodef]. unfold m_nodef. induction m as [|[k f'] m IH]; [split; [constructor | trivial]|].
  split.
  - intros [H1 H2]. constructor; [exact H1 | now apply IH].
  - intros H. inversion H; subst. split; [assumption | now apply IH].
Qed.

Lemma assoc_in {B} k (l : list (tkey * B)) v : assoc tkey_eqb k l = Some v -> exists k', In (k', v) l.
Proof.
  induction l as [|[k' v'] l IH]; cbn [assoc]; [discriminate|].
  destruct (tkey_eqb k k'); [intros H; injection H as <-; exists k'; now left|].
  intros H. destruct (IH H) as (k'' & Hin). exists k''. now right.
Qed.

Lemma mdepth_in k f m : In (k, f) m -> (fdepth f <= mdepth m)%nat.
Proof.
  induction m as [|x m IH]; intros H; [contradiction|]. cbn [mdepth fold_right].
  destruct H as [->|H]; [cbn [snd]; lia|]. specialize (IH H). unfold mdepth in IH. lia.
Qed.

Lemma merge_keys_some rec norm hi ks :
  (forall k low high, assoc tkey_eqb k norm = Some low -> assoc tkey_eqb k hi = Some high ->
                      rec (f_cf low) (f_cf high) <> None) ->
  merge_keys rec norm hi ks <> None.
Proof.
  intros Hrec. induction ks as [|k ks IH]; cbn [merge_keys]; [discriminate|].
  destruct (merge_keys rec norm hi ks) as [r'|]; [|contradiction].
  destruct (assoc tkey_eqb k norm) as [low|] eqn:El; destruct (assoc tkey_eqb k hi) as [high|] eqn:Eh; try discriminate.
  pose proof (Hrec k low high El Eh) as H. destruct (rec (f_cf low) (f_cf high)); [discriminate | contradiction].
Qed.

Theorem merge_formats_some : forall n lower higher,
  c_nodef higher -> (cdepth higher < n)%nat -> merge_formats n lower higher <> None.
Proof.
  induction n as [|n IH]; intros lower higher Hnd Hd; [lia|].
  cbn [merge_formats].
  destruct (cf_empty lower); [discriminate|].
  destruct (cf_empty higher) eqn:Ee; [discriminate|].
  destruct higher as [| |hm]; [discriminate | contradiction |].
  cbn [cf_entries]. cbn [cdepth] in Hd. cbn [c_nodef] in Hnd. cbv zeta.
  match goal with |- match ?g with _ => _ end <> None => assert (Hg : g <> None) end.
  { apply merge_keys_some. intros k low high _ Eh.
    destruct (assoc_in k hm high Eh) as (k' & Hin).
    apply IH.
    - apply f_nodef_cf. unfold m_nodef in Hnd. rewrite Forall_forall in Hnd. apply (Hnd (k', high) Hin).
    - rewrite <- fdepth_cf. pose proof (mdepth_in k' high hm Hin). lia. }
  destruct (merge_keys _ _ _ _); [discriminate | contradiction].
Qed.

(* the formats built from the specification hold no CfDefault and are no deeper than the specification *)
Lemma parse_format_cf s sep sep2 cf f : parse_format s sep sep2 cf = ROk f -> f_cf f = cf.
Proof.
  unfold parse_format. destruct (parse_directive s) as [[[[flags w] p] c]|]; [|discriminate].
  repeat match goal with
         | |- bind ?x _ = _ -> _ => destruct x; cbn [bind]; [|discriminate]
         end.
  intros H. injection H as <-. reflexivity.
Qed.

Lemma fent_format_hash fmt sep sep2 m :
  fent_format (FEHash fmt sep sep2 (Some m)) =
  bind (bind (new_format_map m) (fun fm => ROk (CfMap fm))) (fun cf => parse_format fmt (to_sep sep) (to_sep sep2) cf).
Proof. reflexivity. Qed.

Lemma fent_depth_hash fmt sep sep2 m : fent_depth (FEHash fmt sep sep2 (Some m)) = S (fmap_depth m).
Proof. reflexivity. Qed.

Lemma fent_format_ok : forall d e f,
  (fent_depth e <= d)%nat -> fent_format e = ROk f -> f_nodef f /\ (fdepth f <= fent_depth e)%nat.
Proof.
  induction d as [|d IH]; intros e f Hd He.
  - destruct e as [s|fmt sep sep2 [m|]]; cbn in Hd; lia.
  - destruct e as [s|fmt sep sep2 [m|]].
    + cbn [fent_format] in He. pose proof (parse_format_cf _ _ _ _ _ He) as Hcf.
      split; [apply f_nodef_cf; rewrite Hcf; exact I | rewrite fdepth_cf, Hcf; cbn; lia].
    + rewrite fent_format_hash in He. rewrite fent_depth_hash in Hd |- *.
      destruct (new_format_map m) as [fm|] eqn:Eg; cbn [bind] in He; [|discriminate].
      pose proof (parse_format_cf _ _ _ _ _ He) as Hcf.
      assert (Hm : m_nodef fm /\ (mdepth fm <= fmap_depth m)%nat).
      { assert (Hd' : (fmap_depth m <= d)%nat) by lia. clear Hd He Hcf.
        revert fm Eg Hd'. induction m as [|[k e'] m IHm]; intros fm Eg Hd'.
        - injection Eg as <-. split; [constructor | cbn; lia].
        - cbn [new_format_map] in Eg. cbn [fmap_depth] in Hd'.
          destruct (fent_format e') as [f'|] eqn:Ef; cbn [bind] in Eg; [|discriminate].
          destruct (new_format_map m) as [r'|] eqn:Er; cbn [bind] in Eg; [|discriminate].
          injection Eg as <-.
          destruct (IH e' f' ltac:(lia) Ef) as [Hn1 Hd1].
          destruct (IHm r' eq_refl ltac:(lia)) as (Hn2 & Hd2).
          split; [constructor; [exact Hn1 | exact Hn2]|].
          cbn [mdepth fold_right snd fmap_depth]. unfold mdepth in Hd2. lia. }
      destruct Hm as (Hn & Hd2).
      split; [apply f_nodef_cf; rewrite Hcf; exact Hn|].
      rewrite fdepth_cf, Hcf. cbn [cdepth]. lia.
    + cbn [fent_format bind] in He. pose proof (parse_format_cf _ _ _ _ _ He) as Hcf.
      split; [apply f_nodef_cf; rewrite Hcf; exact I | rewrite fdepth_cf, Hcf; cbn; lia].
Qed.

Lemma new_format_map_ok m hm :
  new_format_map m = ROk hm -> m_nodef hm /\ (mdepth hm <= fmap_depth m)%nat.
Proof.
  revert hm. induction m as [|[k e] m IH]; intros hm H.
  - injection H as <-. split; [constructor | cbn; lia].
  - cbn [new_format_map] in H. destruct (fent_format e) as [f|] eqn:Ef; cbn [bind] in H; [|discriminate].
    destruct (new_format_map m) as [r'|]; cbn [bind] in H; [|discriminate]. injection H as <-.
    destruct (fent_format_ok (fent_depth e) e f (le_n _) Ef) as [Hn Hd]. destruct (IH r' eq_refl) as [Hn2 Hd2].
    split; [constructor; assumption|]. cbn [mdepth fold_right snd fmap_depth]. unfold mdepth in Hd2. lia.
Qed.

Theorem context_of_some spec : context_of spec <> None.
Proof.
  destruct spec as [|s|m]; cbn [context_of]; try discriminate.
  destruct (new_format_map m) as [hm|e] eqn:E; [|discriminate].
  destruct (new_format_map_ok m hm E) as [Hn Hd].
  pose proof (merge_formats_some (S (S (fmap_depth m))) (CfMap default_formats) (CfMap hm) Hn) as H.
  destruct (merge_formats _ _ _); [discriminate|]. exfalso. apply H; [|reflexivity]. cbn [cdepth]. lia.
Qed.

(* formatting always returns: text or an error class *)
Theorem format_total o v spec : exists r, format_value o v spec = Some r.
Proof.
  unfold format_value. pose proof (context_of_some spec) as Hc.
  destruct (context_of spec) as [[m|e]|]; [|eexists; reflexivity|contradiction].
  pose proof (render_some (S (vdepth v)) o default_indentation m false v (Nat.le_succ_diag_r _)) as Hr.
  destruct (render _ _ _ _ _ _) as [r|]; [eexists; reflexivity | contradiction].
Qed.

(* ------------------------------------------------------------------------------------------ *)
(* containers are rendered recursively *)

Lemma map_m_ok {A B} (f : A -> option (R B)) l ys :
  Forall2 (fun x y => f x = Some (ROk y)) l ys -> map_m f l = Some (ROk ys).
Proof.
  induction 1 as [|x y l ys Hxy _ IH]; [reflexivity|]. cbn [map_m]. rewrite Hxy. cbn [obind]. rewrite IH. reflexivity.
Qed.

(* the flat layout: left delimiter, the element texts joined by separator + space, right delimiter *)
Lemma arr_rest_flat pad sep rest prev s0 :
  s0 ++ arr_rest false false pad sep rest prev = join (sep ++ [32%N]) (s0 :: map snd rest).
Proof.
  revert prev s0. induction rest as [|[ah s] rest IH]; intros prev s0.
  - cbn. now rewrite app_nil_r.
  - cbn [arr_rest map snd orb andb negb]. rewrite andb_false_r.
    change (join (sep ++ [32%N]) (s0 :: s :: map snd rest)) with (s0 ++ (sep ++ [32%N]) ++ join (sep ++ [32%N]) (s :: map snd rest)).
    rewrite <- (app_assoc sep [32%N]). do 3 f_equal. apply IH.
Qed.

Lemma arr_layout_flat f ind delim items :
  f_alt f = false -> i_indenting ind = false ->
  arr_layout f ind delim items =
  opt_byte (fst (delim_pair (if N.eqb (f_delim f) 0 then delim else f_delim f))) ++
  join (sep_or (f_sep f) s_comma ++ [32%N]) (map snd items) ++
  opt_byte (snd (delim_pair (if N.eqb (f_delim f) 0 then delim else f_delim f))).
Proof.
  intros Ha Hi. unfold arr_layout. rewrite Ha, Hi. cbn [orb andb].
  unfold i_breaks, i_set_indenting. cbn [i_indenting andb].
  destruct (delim_pair _) as [dl dr]. cbn [fst snd app]. f_equal. f_equal.
  destruct items as [|[ah0 s0] rest]; [reflexivity|]. cbn [map snd app]. apply arr_rest_flat.
Qed.

Lemma hash_layout_flat f ind items :
  f_alt f = false -> i_indenting ind = false ->
  hash_layout f ind items =
  opt_byte (fst (delim_pair (if N.eqb (f_delim f) 0 then 123%N else f_delim f))) ++
  join (sep_or (f_sep f) s_comma ++ [32%N]) (map (fun kv => fst kv ++ sep_or (f_sep2 f) s_arrow ++ snd kv) items) ++
  opt_byte (snd (delim_pair (if N.eqb (f_delim f) 0 then 123%N else f_delim f))).
Proof.
  intros Ha Hi. unfold hash_layout. rewrite Ha, Hi. cbn [orb andb].
  unfold i_breaks, i_set_indenting. cbn [i_indenting andb].
  destruct (delim_pair _) as [dl dr]. cbn [fst snd app]. reflexivity.
Qed.

(* Array: under a format f chosen by GetFormat with a letter of the documented set, not alternate,
   outside an indenting context: if every element renders to a text — containers under the parent's
   format map, scalars under the container formats of f (or the default ones) — the array renders to
   delimiter + those texts joined by separator and space + delimiter *)
Theorem array_recursive n o ind m es f ts :
  get_format o m (VArr es) = ROk f -> mem (f_char f) set_array = true ->
  f_alt f = false -> i_indenting ind = false ->
  Forall2 (fun e t => render n o (i_subsequent (i_increase (i_set_indenting ind false) false))
                             (if is_container e then m else cf_or_default f) false e = Some (OText t)) es ts ->
  render (S n) o ind m false (VArr es) =
  Some (OText (opt_byte (fst (delim_pair (if N.eqb (f_delim f) 0 then 91%N else f_delim f))) ++
               join (sep_or (f_sep f) s_comma ++ [32%N]) ts ++
               opt_byte (snd (delim_pair (if N.eqb (f_delim f) 0 then 91%N else f_delim f))))).
Proof.
  intros Hf Hc Ha Hi Hall. cbn [render]. rewrite Hf, Hc. cbn [negb]. rewrite Ha, Hi. cbn [orb negb andb].
  rewrite (map_m_ok _ es (map (fun et => (is_container (fst et), snd et)) (combine es ts))).
  - cbn [obind]. rewrite (arr_layout_flat f ind 91 _ Ha Hi).
    assert (Hts : map snd (map (fun et : value * str => (is_container (fst et), snd et)) (combine es ts)) = ts).
    { clear - Hall. induction Hall as [|e t es ts _ _ IH]; [reflexivity|]. cbn [combine map snd]. now rewrite IH. }
    rewrite Hts. reflexivity.
  - clear - Hall. induction Hall as [|e t es ts He _ IH]; [constructor|].
    cbn [combine map fst snd]. constructor; [|exact IH]. rewrite He. reflexivity.
Qed.

(* Hash (letters h s p): key and value texts joined by the association separator, entries joined by
   separator and space, between the delimiters *)
Theorem hash_recursive n o ind m es f ts :
  get_format o m (VHash es) = ROk f -> N.eqb (f_char f) 97 = false -> mem (f_char f) l_hsp = true ->
  f_alt f = false -> i_indenting ind = false ->
  Forall2 (fun kv t =>
             render n o (i_increase (i_set_indenting ind false) false)
                    (if is_container (fst kv) then m else cf_or_default f) false (fst kv) = Some (OText (fst t)) /\
             render n o (i_increase (i_set_indenting ind false) false)
                    (if is_container (snd kv) then m else cf_or_default f) false (snd kv) = Some (OText (snd t))) es ts ->
  render (S n) o ind m false (VHash es) =
  Some (OText (opt_byte (fst (delim_pair (if N.eqb (f_delim f) 0 then 123%N else f_delim f))) ++
               join (sep_or (f_sep f) s_comma ++ [32%N]) (map (fun kv => fst kv ++ sep_or (f_sep2 f) s_arrow ++ snd kv) ts) ++
               opt_byte (snd (delim_pair (if N.eqb (f_delim f) 0 then 123%N else f_delim f))))).
Proof.
  intros Hf Hn Hc Ha Hi Hall. cbn [render]. rewrite Hf, Hn, Hc. cbn [negb]. rewrite Ha, Hi. cbn [orb].
  rewrite (map_m_ok _ es ts).
  - cbn [obind]. now rewrite (hash_layout_flat f ind ts Ha Hi).
  - clear - Hall. induction Hall as [|kv t es ts [Hk Hv] _ IH]; [constructor|].
    constructor; [|exact IH]. rewrite Hk. cbn [obind]. rewrite Hv. cbn [obind]. destruct t; reflexivity.
Qed.
