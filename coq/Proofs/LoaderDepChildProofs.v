(* LoaderDepChildProofs.v — a loader parented by the dependency loader with module loaders (Model/LoaderDepChild.v)
   refines its specification on every history: a COMPOSITION over Proofs/LoaderDepProofs.v, whose lemmas
   (`dep_load_entry_sim`, `dstep_sim`, `b_set_val_sim`, `dinv_start`) are used as they are. *)
From Coq Require Import Arith NArith Bool List Lia.
From PcoreV Require Import Model.Base Model.Loader Model.LoaderSpec Model.LoaderDep Model.LoaderDepChild
  Proofs.LoaderNames Proofs.LoaderProofs Proofs.LoaderDepProofs.
Import ListNotations.

Ltac splits := repeat match goal with |- _ /\ _ => split end.

Record cinv (mods : modset) (s : cstate) : Prop := mkCinv {
  cinv_dep : dinv mods (fst s);
  cinv_nodup : NoDup (map fst (snd s))
}.

Definition cabs (s : cstate) : cspec_state := (dabs (fst s), abs_ents (snd s)).

Lemma b_has_abs own n : NoDup (map fst own) -> bound (abs_ents own) n = b_has own n.
Proof.
  intros H. unfold bound, b_has. rewrite (assoc_abs _ _ H).
  destruct (assoc (map_key n) own) as [[v|]|]; reflexivity.
Qed.

(* LoadEntry of the child: what the dependency loader answers, else the child's own entry *)
Lemma child_load_entry_sim st mods own cents n :
  inv st -> tn_wf n = true -> mods_ok st mods = true -> NoDup (map fst own) -> no_miss own ->
  NoDup (map fst cents) ->
  exists st' own' e tr, child_load_entry st mods own cents n = (st', own', LEnt e, tr) /\
    inv st' /\ abs st' = abs st /\ NoDup (map fst own') /\ no_miss own' /\
    (e = b_get cents n \/ exists v, e = Some (Some v)) /\
    child_spec_lookup (abs st) mods (abs_ents own) (abs_ents cents) n = Some (abs_ents own', flat e, tr).
Proof.
  intros Hi Hw Hm Hnd Hnm Hc.
  destruct (dep_load_entry_sim st mods own n Hi Hw Hm Hnd Hnm)
    as (st1 & own1 & e & tr & H1 & Hi1 & Ha1 & Hnd1 & Hnm1 & Hs1).
  unfold child_load_entry, child_spec_lookup. rewrite H1, Hs1.
  destruct e as [v|].
  - exists st1, own1, (Some (Some v)), tr. splits; try reflexivity; try assumption. right. exists v. reflexivity.
  - exists st1, own1, (b_get cents n), tr. splits; try reflexivity; try assumption.
    + left. reflexivity.
    + rewrite (b_get_abs cents n Hc). reflexivity.
Qed.

Definition cout_ok (c : cop) (r : dout) : bool :=
  match c, r with
  | CDep d, _ => dout_ok d r
  | CLoadEntry _, DR (REntry _) _ => true
  | CLoad _, DR (RFound _) _ => true
  | CGetEntry _, DR (REntry _) [] => true
  | CHas _, DR (RBool _) [] => true
  | CDefine _ _, DR (RDefined _ | RErr ERedefine | RErr ERedefineType) [] => true
  | _, _ => false
  end.

Lemma cstep_sim cfg mods s c s' r :
  cinv mods s -> cop_wf c = true -> cstep cfg mods s c = (s', r) ->
  cinv mods s' /\ cspec_step cfg mods (cabs s) c = (cabs s', dproject r) /\ cout_ok c r = true.
Proof.
  destruct s as [[st own] cents]. intros [Hd Hc] Hw H. cbn [fst snd] in *.
  pose proof Hd as [Hi Hm Hnd Hnm]. cbn [fst snd] in *.
  unfold cabs, dabs. cbn [fst snd].
  destruct c as [d|n0|n0|n0|n0|n0 v]; cbn [cstep cspec_step cop_wf] in *.
  - (* an operation of Model/LoaderDep.v *)
    destruct (dstep cfg mods (st, own) d) as [ds1 x] eqn:Hs. injection H as <- <-.
    destruct (dstep_sim cfg mods (st, own) d ds1 x Hd Hw Hs) as (Hd1 & Hsp & Hok).
    unfold dabs in Hsp. cbn [fst snd] in Hsp. rewrite Hsp. cbn [fst snd cout_ok].
    split; [constructor; cbn [fst snd]; assumption|]. split; [reflexivity|exact Hok].
  - (* LoadEntry *)
    destruct (child_load_entry_sim st mods own cents (norm n0) Hi Hw Hm Hnd Hnm Hc)
      as (st1 & own1 & e & tr & H1 & Hi1 & Ha1 & Hnd1 & Hnm1 & _ & Hs1).
    rewrite H1 in H. injection H as <- <-. rewrite Hs1. cbn [fst snd dproject out_of_lres cout_ok].
    split; [|split; [|reflexivity]].
    + constructor; cbn [fst snd]; [constructor; cbn [fst snd]; try assumption|assumption].
      apply (mods_ok_length st); [apply abs_eq_length; exact Ha1|exact Hm].
    + rewrite Ha1. destruct e as [[v|]|]; reflexivity.
  - (* px.Load *)
    destruct (negb (str_eqb (tn_auth (norm n0)) (cfg_auth cfg))).
    { injection H as <- <-. cbn [fst snd]. split; [constructor; assumption|]. split; reflexivity. }
    destruct (child_load_entry_sim st mods own cents (norm n0) Hi Hw Hm Hnd Hnm Hc)
      as (st1 & own1 & e & tr & H1 & Hi1 & Ha1 & Hnd1 & Hnm1 & He & Hs1).
    rewrite H1 in H. rewrite Hs1.
    assert (Hd1 : dinv mods (st1, own1)).
    { constructor; cbn [fst snd]; try assumption.
      apply (mods_ok_length st); [apply abs_eq_length; exact Ha1|exact Hm]. }
    destruct e as [[v|]|]; cbn [flat].
    + injection H as <- <-. cbn [fst snd dproject project cout_ok]. rewrite Ha1.
      split; [constructor; cbn [fst snd]; assumption|]. split; reflexivity.
    + injection H as <- <-. cbn [fst snd dproject project cout_ok]. rewrite Ha1.
      split; [constructor; cbn [fst snd]; assumption|]. split; reflexivity.
    + (* nil: px.Load caches the miss in the child's own map *)
      destruct He as [He|[v He]]; [|discriminate He].
      unfold b_set in H. unfold b_get in He. rewrite <- He in H. injection H as <- <-.
      cbn [fst snd dproject project cout_ok]. rewrite Ha1.
      rewrite (abs_put_miss cents (map_key (norm n0)) Hc); [|rewrite <- He; reflexivity].
      split; [constructor; cbn [fst snd]; [assumption|apply put_nodup; exact Hc]|]. split; reflexivity.
  - (* GetEntry *)
    injection H as <- <-. cbn [fst snd dproject cout_ok]. rewrite (b_get_abs cents (norm n0) Hc).
    split; [constructor; assumption|]. split; [|reflexivity].
    destruct (b_get cents (norm n0)) as [[v|]|]; reflexivity.
  - (* HasEntry *)
    injection H as <- <-. cbn [fst snd dproject project cout_ok].
    rewrite (b_has_abs own (norm n0) Hnd), (b_has_abs cents (norm n0) Hc).
    split; [constructor; assumption|]. split; reflexivity.
  - (* SetEntry *)
    destruct (b_set_val_sim cents (norm n0) v Hc) as (cents' & x & Hb & Hc' & Hdf & Hr).
    rewrite Hb in H. injection H as <- <-. rewrite Hdf. cbn [fst snd dproject cout_ok].
    split; [constructor; cbn [fst snd]; assumption|].
    destruct x as [[v'|]|[| |]|]; try contradiction; split; reflexivity.
Qed.

Lemma crun_from_sim cfg mods : forall cs s,
  cinv mods s -> forallb cop_wf cs = true ->
  cinv mods (fst (crun_from cfg mods s cs)) /\
  cspec_run_from cfg mods (cabs s) cs =
    (cabs (fst (crun_from cfg mods s cs)), map dproject (snd (crun_from cfg mods s cs))) /\
  Forall2 (fun c r => cout_ok c r = true) cs (snd (crun_from cfg mods s cs)).
Proof.
  induction cs as [|c cs IH]; intros s Hi Hw.
  - cbn. split; [exact Hi|]. split; [reflexivity|constructor].
  - cbn [forallb] in Hw. apply andb_prop in Hw. destruct Hw as [Hwc Hw].
    cbn [crun_from cspec_run_from].
    destruct (cstep cfg mods s c) as [s1 r] eqn:Hs.
    destruct (cstep_sim cfg mods s c s1 r Hi Hwc Hs) as (Hi1 & Hsp & Hok).
    rewrite Hsp. destruct (IH s1 Hi1 Hw) as (Hi2 & Hsp2 & Hok2).
    rewrite Hsp2. destruct (crun_from cfg mods s1 cs) as [s2 rs]. cbn [fst snd map] in *.
    split; [exact Hi2|]. split; [reflexivity|]. constructor; assumption.
Qed.

Lemma cinv_start cfg pre mods :
  cfg_wf cfg = true -> forallb op_wf pre = true -> mods_ok (fst (run cfg pre)) mods = true ->
  cinv mods ((fst (run cfg pre), []), []).
Proof. intros Hc Hw Hm. constructor; cbn [fst snd map]; [apply dinv_start; assumption|constructor]. Qed.

Lemma cabs_start cfg pre :
  cfg_wf cfg = true -> forallb op_wf pre = true ->
  cabs ((fst (run cfg pre), []), []) = ((fst (spec_run cfg pre), []), []).
Proof. intros Hc Hw. unfold cabs. cbn [fst snd abs_ents]. rewrite (dabs_start cfg pre Hc Hw). reflexivity. Qed.

(* A loader parented by the dependency loader refines its specification on every history. *)
Theorem child_refines cfg pre mods cs :
  cfg_wf cfg = true -> forallb op_wf pre = true -> mods_ok (fst (run cfg pre)) mods = true ->
  forallb cop_wf cs = true ->
  map dproject (couts cfg pre mods cs) = cspec_outs cfg pre mods cs.
Proof.
  intros Hc Hw Hm Hd. unfold couts, cspec_outs, crun, cspec_run.
  destruct (crun_from_sim cfg mods cs _ (cinv_start cfg pre mods Hc Hw Hm) Hd) as (_ & Hs & _).
  rewrite (cabs_start cfg pre Hc Hw) in Hs. rewrite Hs. reflexivity.
Qed.

Theorem child_state_refines cfg pre mods cs :
  cfg_wf cfg = true -> forallb op_wf pre = true -> mods_ok (fst (run cfg pre)) mods = true ->
  forallb cop_wf cs = true ->
  cabs (fst (crun cfg pre mods cs)) = fst (cspec_run cfg pre mods cs).
Proof.
  intros Hc Hw Hm Hd. unfold crun, cspec_run.
  destruct (crun_from_sim cfg mods cs _ (cinv_start cfg pre mods Hc Hw Hm) Hd) as (_ & Hs & _).
  rewrite (cabs_start cfg pre Hc Hw) in Hs. rewrite Hs. reflexivity.
Qed.

(* no runtime fault, never stuck, a reported error only from a definition *)
Theorem child_results_classified cfg pre mods cs :
  cfg_wf cfg = true -> forallb op_wf pre = true -> mods_ok (fst (run cfg pre)) mods = true ->
  forallb cop_wf cs = true -> Forall2 (fun c r => cout_ok c r = true) cs (couts cfg pre mods cs).
Proof.
  intros Hc Hw Hm Hd. unfold couts, crun.
  apply (crun_from_sim cfg mods cs _ (cinv_start cfg pre mods Hc Hw Hm) Hd).
Qed.

(* ---------------------------------------------------------------------------------------------- *)
(* The composition, in every state: LoadEntry of the child answers what LoadEntry of the dependency loader answers in
   that state when that is a value (or a panic); when it is a miss, the child's own entry (what GetEntry of the child
   shows), having asked the same module loaders; and it leaves the state the dependency loader's LoadEntry leaves. *)
Definition compose (rd rg : dout) : dout :=
  match rd, rg with
  | DR (REntry (ENone | EPlaceholder)) tr, DR x _ => DR x tr
  | _, _ => rd
  end.

Theorem child_lookup_compose cfg mods s n0 :
  snd (cstep cfg mods s (CLoadEntry n0)) =
    compose (snd (cstep cfg mods s (CDep (DLoadEntry n0)))) (snd (cstep cfg mods s (CGetEntry n0))) /\
  fst (cstep cfg mods s (CLoadEntry n0)) = fst (cstep cfg mods s (CDep (DLoadEntry n0))).
Proof.
  destruct s as [[st own] cents]. cbn [cstep dstep]. unfold child_load_entry.
  destruct (dep_load_entry st mods own (norm n0)) as [[[st1 own1] r] tr].
  destruct r as [[[v|]|]|c|]; split; reflexivity.
Qed.
