(* QuoteLexProofs.v — C05 layer L1: what PuppetQuote / RegexpQuote / FormatInt write, the lexer reads back. *)
From Coq Require Import ZArith NArith Bool Lia List Zify.
From PcoreV Require Import Model.Base Model.QuoteLex Proofs.QuoteLexUtf8.
Import ListNotations.
Open Scope N_scope.

Definition rune_ok (c : N) : bool := valid_rune c && negb (c =? rune_error).

Lemma rune_ok_spec c : rune_ok c = true -> valid_rune c = true /\ c <> 65533.
Proof.
  unfold rune_ok, rune_error. intros H. apply andb_true_iff in H. destruct H as [H1 H2].
  apply negb_true_iff, N.eqb_neq in H2. split; assumption.
Qed.

(* a two-character escape sequence of ASCII characters *)
Ltac two_ascii :=
  cbn [app consume_string]; rewrite sr_next_ascii by lia; unfold rune_error;
  cbn [N.eqb Pos.eqb orb]; rewrite sr_next_ascii by lia; cbn [N.eqb Pos.eqb orb];
  rewrite ?encode_rune_ascii by lia; reflexivity.

(* the \u{X} escape of a control character *)
Lemma cue_small c rest : c < 32 ->
  consume_unicode_escape (123 :: hex_upper_small c ++ 125 :: rest) = LOk c rest.
Proof.
  intros L32. apply N_lt_32_cases in L32. cbn [In] in L32.
  repeat (destruct L32 as [<-|L32]; [vm_compute; reflexivity|]). contradiction.
Qed.

(* one character of a double quoted string *)
Lemma cs_dq_step f c rest buf : rune_ok c = true ->
  consume_string (S f) (dq_escape c ++ rest) 34 buf = consume_string f rest 34 (buf ++ encode_rune c).
Proof.
  intros Hok. apply rune_ok_spec in Hok. destruct Hok as [Hv Hne].
  unfold dq_escape.
  destruct (N.eqb_spec c 9) as [->|N9]; [two_ascii|].
  destruct (N.eqb_spec c 10) as [->|N10]; [two_ascii|].
  destruct (N.eqb_spec c 13) as [->|N13]; [two_ascii|].
  destruct (N.eqb_spec c 34) as [->|N34]; [two_ascii|].
  destruct (N.eqb_spec c 92) as [->|N92]; [two_ascii|].
  destruct (N.eqb_spec c 36) as [->|N36]; [two_ascii|].
  destruct (N.ltb_spec c 32) as [L32|G32].
  { rewrite <- !app_assoc. cbn [app consume_string]. rewrite sr_next_ascii by lia. unfold rune_error.
    cbn [N.eqb Pos.eqb orb]. rewrite sr_next_ascii by lia. cbn [N.eqb Pos.eqb orb].
    rewrite (cue_small c rest L32). reflexivity. }
  cbn [consume_string]. rewrite (sr_next_encode c rest Hv). unfold rune_error. nb. reflexivity.
Qed.

(* one character of a single quoted string *)
Lemma cs_sq_step f c rest buf : rune_ok c = true -> c <? 32 = false ->
  consume_string (S f) (sq_escape c ++ rest) 39 buf = consume_string f rest 39 (buf ++ encode_rune c).
Proof.
  intros Hok G32. apply rune_ok_spec in Hok. destruct Hok as [Hv Hne]. apply N.ltb_ge in G32.
  unfold sq_escape.
  destruct (N.eqb_spec c 39) as [->|N39]; [two_ascii|].
  destruct (N.eqb_spec c 92) as [->|N92]; [two_ascii|].
  cbn [consume_string]. rewrite (sr_next_encode c rest Hv). unfold rune_error. nb. reflexivity.
Qed.

Lemma cs_dq rs : forall f rest buf,
  forallb rune_ok rs = true -> (length rs < f)%nat ->
  consume_string f (flat_map dq_escape rs ++ 34 :: rest) 34 buf = LOk (buf ++ encode_runes rs) rest.
Proof.
  induction rs as [|c rs IH]; intros f rest buf Hok Hf.
  - destruct f as [|f]; [cbn in Hf; lia|]. cbn [flat_map app consume_string].
    rewrite sr_next_ascii by lia. cbn [N.eqb Pos.eqb]. unfold encode_runes. cbn [flat_map].
    rewrite app_nil_r. reflexivity.
  - destruct f as [|f]; [cbn in Hf; lia|]. cbn [forallb] in Hok. apply andb_true_iff in Hok.
    destruct Hok as [Hc Hrs]. cbn [flat_map]. rewrite <- app_assoc.
    rewrite cs_dq_step by exact Hc. rewrite IH; [|exact Hrs|cbn in Hf; lia].
    unfold encode_runes. cbn [flat_map]. rewrite app_assoc. reflexivity.
Qed.

Lemma cs_sq rs : forall f rest buf,
  forallb rune_ok rs = true -> existsb (fun c => c <? 32) rs = false -> (length rs < f)%nat ->
  consume_string f (flat_map sq_escape rs ++ 39 :: rest) 39 buf = LOk (buf ++ encode_runes rs) rest.
Proof.
  induction rs as [|c rs IH]; intros f rest buf Hok Hnc Hf.
  - destruct f as [|f]; [cbn in Hf; lia|]. cbn [flat_map app consume_string].
    rewrite sr_next_ascii by lia. cbn [N.eqb Pos.eqb]. unfold encode_runes. cbn [flat_map].
    rewrite app_nil_r. reflexivity.
  - destruct f as [|f]; [cbn in Hf; lia|]. cbn [forallb] in Hok. apply andb_true_iff in Hok.
    destruct Hok as [Hc Hrs]. cbn [existsb] in Hnc. apply orb_false_iff in Hnc. destruct Hnc as [Hc32 Hnc].
    cbn [flat_map]. rewrite <- app_assoc.
    rewrite cs_sq_step by assumption. rewrite IH; [|exact Hrs|exact Hnc|cbn in Hf; lia].
    unfold encode_runes. cbn [flat_map]. rewrite app_assoc. reflexivity.
Qed.

Lemma flat_map_length_ge {A} (g : A -> str) (l : list A) :
  (forall x, (1 <= length (g x))%nat) -> (length l <= length (flat_map g l))%nat.
Proof.
  intros Hg. induction l as [|x l IH]; [cbn; lia|].
  cbn [flat_map length]. rewrite app_length. specialize (Hg x). lia.
Qed.

Lemma dq_escape_length c : (1 <= length (dq_escape c))%nat.
Proof.
  unfold dq_escape.
  repeat match goal with |- context [if ?b then _ else _] => destruct b; [cbn; lia|] end.
  apply encode_rune_length.
Qed.

Lemma sq_escape_length c : (1 <= length (sq_escape c))%nat.
Proof.
  unfold sq_escape.
  repeat match goal with |- context [if ?b then _ else _] => destruct b; [cbn; lia|] end.
  apply encode_rune_length.
Qed.

(* what the guards of the theorem say about the runes *)
Lemma guards_runes s :
  valid_utf8 s = true -> no_replacement s = true ->
  exists rs, s = encode_runes rs /\ runes s = rs /\ forallb rune_ok rs = true.
Proof.
  intros Hv Hn. destruct (valid_utf8_decompose s Hv) as [rs [Hrs ->]].
  exists rs. split; [reflexivity|]. unfold no_replacement in Hn. rewrite (runes_encode rs Hrs) in *.
  split; [reflexivity|]. apply negb_true_iff in Hn.
  clear - Hrs Hn. induction rs as [|c rs IH]; [reflexivity|].
  cbn [forallb existsb] in *. apply andb_true_iff in Hrs. destruct Hrs as [H1 H2].
  apply orb_false_iff in Hn. destruct Hn as [H3 H4].
  unfold rune_ok at 1. rewrite H1, H3. cbn [andb negb]. apply IH; assumption.
Qed.

(* THE STRING THEOREM: whatever PuppetQuote writes for a string, the lexer reads back as exactly that string,
   and stops right after the closing quote (k is the rest of the input). *)
Theorem quote_lex_k s k :
  valid_utf8 s = true -> no_replacement s = true ->
  lex_string (puppet_quote s ++ k) = LOk s k.
Proof.
  intros Hv Hn. destruct (guards_runes s Hv Hn) as [rs [Es [Er Hok]]].
  unfold lex_string, puppet_quote. rewrite Er.
  destruct (existsb (fun c => c <? 32) rs) eqn:Hc.
  - cbn [app]. rewrite sr_next_ascii by lia. cbn [N.eqb Pos.eqb orb].
    rewrite <- app_assoc. cbn [app]. rewrite cs_dq; [rewrite Es; reflexivity|exact Hok|].
    cbn [length]. rewrite !app_length.
    generalize (flat_map_length_ge dq_escape rs dq_escape_length). lia.
  - cbn [app]. rewrite sr_next_ascii by lia. cbn [N.eqb Pos.eqb orb].
    rewrite <- app_assoc. cbn [app]. rewrite cs_sq; [rewrite Es; reflexivity|exact Hok|exact Hc|].
    cbn [length]. rewrite !app_length.
    generalize (flat_map_length_ge sq_escape rs sq_escape_length). lia.
Qed.

Theorem quote_lex s :
  valid_utf8 s = true -> no_replacement s = true -> lex_string (puppet_quote s) = LOk s [].
Proof. intros Hv Hn. rewrite <- (app_nil_r (puppet_quote s)). apply quote_lex_k; assumption. Qed.

(* ------------------------------------------------------------------------------------------ *)
(* regexps                                                                                      *)

Lemma regexp_quote_loop_length rs : forall e, (length rs <= length (regexp_quote_loop rs e))%nat.
Proof.
  induction rs as [|c rs IH]; intros e; [cbn; lia|].
  cbn [regexp_quote_loop length].
  repeat match goal with |- context [if ?b then _ else _] => destruct b end;
    cbn [length app]; rewrite ?app_length;
    generalize (encode_rune_length c) (IH false) (IH true); cbn [length]; lia.
Qed.

Lemma cr_loop n : forall rs f rest buf,
  (length rs <= n)%nat -> forallb rune_ok rs = true -> rx_escapes_ok rs false = true ->
  (length rs < f)%nat ->
  consume_regexp f (regexp_quote_loop rs false ++ 47 :: rest) buf = LOk (buf ++ encode_runes rs) rest.
Proof.
  induction n as [|n IH]; intros rs f rest buf Hn Hok Hesc Hf.
  - destruct rs; [|cbn in Hn; lia]. destruct f as [|f]; [cbn in Hf; lia|].
    cbn [regexp_quote_loop app consume_regexp]. rewrite sr_next_ascii by lia. unfold rune_error.
    cbn [N.eqb Pos.eqb]. unfold encode_runes. cbn [flat_map]. rewrite app_nil_r. reflexivity.
  - destruct rs as [|c rs].
    { destruct f as [|f]; [cbn in Hf; lia|].
      cbn [regexp_quote_loop app consume_regexp]. rewrite sr_next_ascii by lia. unfold rune_error.
      cbn [N.eqb Pos.eqb]. unfold encode_runes. cbn [flat_map]. rewrite app_nil_r. reflexivity. }
    destruct f as [|f]; [cbn in Hf; lia|].
    cbn [forallb] in Hok. apply andb_true_iff in Hok. destruct Hok as [Hc Hrs].
    apply rune_ok_spec in Hc. destruct Hc as [Hv Hne].
    cbn [rx_escapes_ok] in Hesc. apply andb_true_iff in Hesc. destruct Hesc as [Hc0 Hesc].
    apply negb_true_iff, orb_false_iff in Hc0. destruct Hc0 as [Hc10 Hc0].
    apply N.eqb_neq in Hc10, Hc0.
    cbn [regexp_quote_loop].
    destruct (N.eqb_spec c 92) as [->|N92].
    + (* a backslash and the character it escapes *)
      destruct rs as [|c' rs]; [discriminate|].
      cbn [forallb] in Hrs. apply andb_true_iff in Hrs. destruct Hrs as [Hc' Hrs].
      apply rune_ok_spec in Hc'. destruct Hc' as [Hv' Hne'].
      cbn [rx_escapes_ok] in Hesc. apply andb_true_iff in Hesc. destruct Hesc as [Hc'0 Hesc].
      apply negb_true_iff, orb_false_iff in Hc'0. destruct Hc'0 as [Hc'10 Hc'0].
      apply N.eqb_neq in Hc'10, Hc'0.
      apply andb_true_iff in Hesc. destruct Hesc as [Hc'47 Hesc].
      apply negb_true_iff, N.eqb_neq in Hc'47.
      cbn [regexp_quote_loop]. rewrite (encode_rune_ascii 92) by lia. rewrite <- !app_assoc.
      cbn [app consume_regexp]. rewrite sr_next_ascii by lia. unfold rune_error.
      cbn [N.eqb Pos.eqb orb]. rewrite (sr_next_encode c' _ Hv'). nb.
      rewrite IH; [|cbn in Hn; lia|exact Hrs|exact Hesc|cbn in Hf; lia].
      unfold encode_runes. cbn [flat_map]. rewrite (encode_rune_ascii 92) by lia.
      rewrite <- !app_assoc. reflexivity.
    + destruct (N.eqb_spec c 47) as [->|N47].
      * (* a bare slash is written with a backslash, which the lexer removes *)
        rewrite (encode_rune_ascii 47) by lia. cbn [app consume_regexp].
        rewrite sr_next_ascii by lia. unfold rune_error. cbn [N.eqb Pos.eqb orb].
        rewrite sr_next_ascii by lia. cbn [N.eqb Pos.eqb orb].
        rewrite IH; [|cbn in Hn; lia|exact Hrs|exact Hesc|cbn in Hf; lia].
        unfold encode_runes. cbn [flat_map]. rewrite <- !app_assoc. reflexivity.
      * destruct (N.eqb_spec c 10) as [->|_]; [congruence|].
        destruct (N.eqb_spec c 0) as [->|_]; [congruence|].
        rewrite <- app_assoc. cbn [consume_regexp]. rewrite (sr_next_encode c _ Hv).
        unfold rune_error. nb.
        rewrite IH; [|cbn in Hn; lia|exact Hrs|exact Hesc|cbn in Hf; lia].
        unfold encode_runes. cbn [flat_map]. rewrite <- !app_assoc. reflexivity.
Qed.

(* THE REGEXP THEOREM: whatever RegexpQuote writes for a regexp source (that it can represent), the lexer
   reads back as exactly that source. *)
Theorem regexp_quote_lex_k s k :
  valid_utf8 s = true -> no_replacement s = true -> regexp_printable s = true ->
  lex_regexp (regexp_quote s ++ k) = LOk s k.
Proof.
  intros Hv Hn Hp. destruct (guards_runes s Hv Hn) as [rs [Es [Er Hok]]].
  unfold lex_regexp, regexp_quote, regexp_printable in *. rewrite Er in *.
  cbn [app]. rewrite sr_next_ascii by lia. cbn [N.eqb Pos.eqb].
  rewrite <- app_assoc. cbn [app].
  rewrite (cr_loop (length rs)); [rewrite Es; reflexivity|lia|exact Hok|exact Hp|].
  cbn [length]. rewrite !app_length. generalize (regexp_quote_loop_length rs false). lia.
Qed.

Theorem regexp_quote_lex s :
  valid_utf8 s = true -> no_replacement s = true -> regexp_printable s = true ->
  lex_regexp (regexp_quote s) = LOk s [].
Proof. intros. rewrite <- (app_nil_r (regexp_quote s)). apply regexp_quote_lex_k; assumption. Qed.

(* ------------------------------------------------------------------------------------------ *)
(* integers                                                                                     *)

Lemma digits_val_app base l1 : forall l2 acc,
  digits_val base (l1 ++ l2) acc =
  match digits_val base l1 acc with Some a => digits_val base l2 a | None => None end.
Proof.
  induction l1 as [|d l1 IH]; intros l2 acc; [reflexivity|].
  cbn [app digits_val]. destruct (is_hex d && (hex_val d <? base)); [apply IH|reflexivity].
Qed.

Lemma is_digit_spec d : is_digit d = true <-> 48 <= d <= 57.
Proof. unfold is_digit. rewrite andb_true_iff, !N.leb_le. tauto. Qed.

Lemma digit_dec_ok d : 48 <= d <= 57 -> is_hex d && (hex_val d <? 10) = true /\ hex_val d = d - 48.
Proof.
  intros H. unfold is_hex, hex_val.
  replace (is_digit d) with true by (symmetry; apply is_digit_spec; exact H).
  cbn [orb andb]. split; [apply N.ltb_lt; lia|reflexivity].
Qed.

(* the digits of n (n > 0): a non-zero digit first, digits only, and their decimal value is n *)
Lemma dec_digits_fuel_spec f : forall n acc,
  0 < n -> n < 10 ^ N.of_nat f ->
  exists d t, dec_digits_fuel f n acc = d :: t ++ acc /\ 49 <= d <= 57 /\
              forallb is_digit t = true /\ digits_val 10 (d :: t) 0 = Some n.
Proof.
  induction f as [|f IH]; intros n acc Hpos Hlt.
  - cbn in Hlt. lia.
  - cbn [dec_digits_fuel]. destruct (N.ltb_spec n 10) as [L|G].
    + exists (48 + n mod 10), []. split; [reflexivity|]. split; [lia|]. split; [reflexivity|].
      cbn [digits_val]. destruct (digit_dec_ok (48 + n mod 10)) as [-> ->]; [lia|]. f_equal. lia.
    + assert (Hq : 0 < n / 10) by lia.
      assert (Hql : n / 10 < 10 ^ N.of_nat f).
      { rewrite Nat2N.inj_succ, N.pow_succ_r' in Hlt. lia. }
      destruct (IH (n / 10) ((48 + n mod 10) :: acc) Hq Hql) as [d [t [E [Hd [Ht Hval]]]]].
      exists d, (t ++ [48 + n mod 10]). split; [rewrite E, <- app_assoc; reflexivity|].
      split; [exact Hd|]. split.
      { rewrite forallb_app, Ht. cbn [forallb]. rewrite andb_true_r. apply is_digit_spec. lia. }
      change (d :: t ++ [48 + n mod 10]) with ((d :: t) ++ [48 + n mod 10]).
      rewrite digits_val_app, Hval. cbn [digits_val].
      destruct (digit_dec_ok (48 + n mod 10)) as [-> ->]; [lia|]. f_equal. lia.
Qed.

Lemma dec_digits_spec n : 0 < n -> n < 18446744073709551616 ->
  exists d t, dec_digits n = d :: t /\ 49 <= d <= 57 /\
              forallb is_digit t = true /\ digits_val 10 (d :: t) 0 = Some n.
Proof.
  intros Hp Hl. destruct (dec_digits_fuel_spec 20 n [] Hp) as [d [t [E H]]].
  { eapply N.lt_trans; [exact Hl|]. vm_compute. reflexivity. }
  exists d, t. rewrite app_nil_r in E. split; [exact E|exact H].
Qed.

Lemma dec_digits_zero : dec_digits 0 = [48].
Proof. reflexivity. Qed.

(* strconv.ParseInt(_, 0, 64) reads the decimal text of every int64 back *)
Theorem parse_format_int z : in_int64 z = true -> parse_int0 (format_int z) = Some z.
Proof.
  unfold in_int64, min_int64, max_int64. intros H. apply andb_true_iff in H. destruct H as [Hlo Hhi].
  apply Z.leb_le in Hlo, Hhi.
  destruct z as [|p|p].
  - reflexivity.
  - cbn [format_int Z.to_N].
    destruct (dec_digits_spec (Npos p)) as [d [t [E [Hd [Ht Hval]]]]]; [lia|lia|].
    rewrite E. unfold parse_int0.
    assert (N43 : d <> 43) by lia. assert (N45 : d <> 45) by lia. assert (N48 : d <> 48) by lia.
    destruct d as [|pd]; [lia|].
    do 6 (destruct pd as [pd|pd|]; try lia); unfold digits_val_ne; rewrite Hval;
      (replace (N.pos p <? 9223372036854775808) with true by (symmetry; apply N.ltb_lt; lia)); reflexivity.
  - cbn [format_int].
    destruct (dec_digits_spec (Npos p)) as [d [t [E [Hd [Ht Hval]]]]]; [lia|lia|].
    rewrite E. unfold parse_int0.
    assert (N48 : d <> 48) by lia.
    destruct d as [|pd]; [lia|].
    do 6 (destruct pd as [pd|pd|]; try lia); unfold digits_val_ne; rewrite Hval;
      (replace (N.pos p <=? 9223372036854775808) with true by (symmetry; apply N.leb_le; lia)); reflexivity.
Qed.

Lemma cn_loop_digits il t : forall f buf fz k,
  forallb is_digit t = true -> (length t < f)%nat -> num_stop k = true ->
  consume_number_loop il f (t ++ k) buf KInteger fz = LOk (KInteger, buf ++ t) k.
Proof.
  induction t as [|d t IH]; intros f buf fz k Ht Hf Hk.
  - destruct f as [|f]; [cbn in Hf; lia|]. cbn [app consume_number_loop]. rewrite app_nil_r.
    destruct k as [|b k]; [reflexivity|].
    cbn [num_stop] in Hk. apply andb_true_iff in Hk. destruct Hk as [Hb Hk]. apply N.ltb_lt in Hb.
    apply negb_true_iff in Hk. repeat (apply orb_false_iff in Hk; destruct Hk as [Hk ?]).
    unfold sr_peek. rewrite sr_next_ascii by lia. cbn [fst snd].
    repeat match goal with H : (_ =? _) = false |- _ => apply N.eqb_neq in H end.
    assert (Hd : ~ (48 <= b <= 57)) by (intros Hd; apply is_digit_spec in Hd; congruence).
    destruct (N.eqb_spec b 0) as [->|N0]; [reflexivity|].
    replace (b =? 48) with false by (symmetry; apply N.eqb_neq; lia).
    replace (b =? 101) with false by (symmetry; apply N.eqb_neq; lia).
    replace (b =? 69) with false by (symmetry; apply N.eqb_neq; lia).
    replace (b =? 120) with false by (symmetry; apply N.eqb_neq; lia).
    replace (b =? 88) with false by (symmetry; apply N.eqb_neq; lia).
    replace (b =? 46) with false by (symmetry; apply N.eqb_neq; lia).
    cbn [orb]. rewrite Hk. reflexivity.
  - destruct f as [|f]; [cbn in Hf; lia|]. cbn [forallb] in Ht. apply andb_true_iff in Ht.
    destruct Ht as [Hd Ht]. pose proof Hd as Hd'. apply is_digit_spec in Hd'.
    cbn [app consume_number_loop]. unfold sr_peek. rewrite sr_next_ascii by lia. cbn [fst snd].
    rewrite (encode_rune_ascii d) by lia.
    replace (d =? 0) with false by (symmetry; apply N.eqb_neq; lia).
    destruct (N.eqb_spec d 48) as [E48|N48].
    + rewrite IH; [|exact Ht|cbn in Hf; lia|exact Hk]. rewrite <- app_assoc. reflexivity.
    + replace (d =? 101) with false by (symmetry; apply N.eqb_neq; lia).
      replace (d =? 69) with false by (symmetry; apply N.eqb_neq; lia).
      replace (d =? 120) with false by (symmetry; apply N.eqb_neq; lia).
      replace (d =? 88) with false by (symmetry; apply N.eqb_neq; lia).
      replace (d =? 46) with false by (symmetry; apply N.eqb_neq; lia).
      cbn [orb]. rewrite Hd.
      rewrite IH; [|exact Ht|cbn in Hf; lia|exact Hk]. rewrite <- app_assoc. reflexivity.
Qed.

Lemma dec_digits_all n : n < 18446744073709551616 ->
  exists d t, dec_digits n = d :: t /\ 48 <= d <= 57 /\ forallb is_digit t = true.
Proof.
  intros Hl. destruct (N.eq_dec n 0) as [->|Hn].
  - exists 48, []. split; [reflexivity|]. split; [lia|reflexivity].
  - destruct (dec_digits_spec n) as [d [t [E [Hd [Ht _]]]]]; [lia|exact Hl|].
    exists d, t. split; [exact E|]. split; [lia|exact Ht].
Qed.

(* THE INTEGER THEOREM, lexer half: the decimal text of an int64 is one integer token with that text *)
Theorem format_int_lex il z k : in_int64 z = true -> num_stop k = true ->
  lex_number il (format_int z ++ k) = LOk (KInteger, format_int z) k.
Proof.
  unfold in_int64, min_int64, max_int64. intros H Hk. apply andb_true_iff in H. destruct H as [Hlo Hhi].
  apply Z.leb_le in Hlo, Hhi.
  assert (Hpos : forall n, n < 18446744073709551616 ->
            lex_number il (dec_digits n ++ k) = LOk (KInteger, dec_digits n) k).
  { intros n Hn. destruct (dec_digits_all n Hn) as [d [t [E [Hd Ht]]]]. rewrite E.
    unfold lex_number. cbn [app]. rewrite sr_next_ascii by lia.
    replace (d =? 45) with false by (symmetry; apply N.eqb_neq; lia).
    replace (d =? 43) with false by (symmetry; apply N.eqb_neq; lia).
    cbn [orb]. replace (is_digit d) with true by (symmetry; apply is_digit_spec; lia).
    unfold consume_number. rewrite (encode_rune_ascii d) by lia.
    rewrite cn_loop_digits; [reflexivity|exact Ht| |exact Hk].
    cbn [length]. rewrite app_length. lia. }
  destruct z as [|p|p].
  - apply (Hpos 0). lia.
  - cbn [format_int Z.to_N]. apply Hpos. lia.
  - cbn [format_int].
    destruct (dec_digits_all (Npos p)) as [d [t [E [Hd Ht]]]]; [lia|]. rewrite E.
    unfold lex_number. cbn [app]. rewrite sr_next_ascii by lia. cbn [N.eqb Pos.eqb orb].
    rewrite sr_next_ascii by lia.
    replace (is_digit d) with true by (symmetry; apply is_digit_spec; lia).
    unfold consume_number. rewrite (encode_rune_ascii 45) by lia. rewrite (encode_rune_ascii d) by lia.
    rewrite cn_loop_digits; [reflexivity|exact Ht| |exact Hk].
    cbn [length]. rewrite app_length. lia.
Qed.
