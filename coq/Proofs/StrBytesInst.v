(* StrBytesInst.v — C02 on bytes: IsInstance of a string against the set written on the decoded text. *)
From Coq Require Import ZArith NArith Bool List Lia.
From PcoreV Require Import Model.Base Model.Ty Model.Lattice Model.Spec Model.StrBytes
  Proofs.LatticeBasics Proofs.SpecProofs Proofs.StrBytesProofs.
Import ListNotations.
Open Scope Z_scope.

Lemma mem_str_in s l : mem_str s l = true <-> In s l.
Proof.
  unfold mem_str. rewrite existsb_exists. split.
  - intros (x & Hin & E). apply str_eqb_eq in E. now subst.
  - intros Hin. exists s. split; [exact Hin|apply str_eqb_refl].
Qed.

(* no case-insensitive Enum in scalar position (the only place where the oracle `lc` is consulted) *)
Fixpoint no_ci (t : ty) : bool :=
  match t with
  | TEnum ci _ => negb ci
  | TVariant ts => forallb no_ci ts
  | TOptional t' | TNotUndef t' => no_ci t'
  | _ => true
  end.

Section BytesEq.
  Variable rx : str -> str -> bool.
  Variable lc : N -> N.
  Notation instB := (instB rx lc).
  Notation denB := (denB rx lc).

  Lemma anyB_ex s l :
    (fix any (l : list ty) : Prop := match l with [] => False | t' :: r => denB t' s \/ any r end) l <->
    exists t, In t l /\ denB t s.
  Proof.
    induction l as [|t r IH]; cbn.
    - split; [intros []|intros (t & [] & _)].
    - rewrite IH. split.
      + intros [H|(t' & Ht & H)]; eauto.
      + intros (t' & [<-|Ht] & H); eauto.
  Qed.

  (* the instance test on the bytes of a string is membership in the set written on its decoded text:
     for EVERY byte string (well-formed UTF-8 or not) *)
  Theorem instB_is_denB : forall t, wf_ty t = true -> forall s, instB t s = true <-> denB t s.
  Proof.
    induction t using ty_ind'; intros Hw bs;
      try (exact (inst_is_den rx true _ Hw (VStr bs) eq_refl)).
    - (* String[lo,hi] *) cbn [instB denB]. rewrite in_size_between, count_is_decoded. tauto.
    - (* Enum *) cbn [instB denB]. unfold enum_inst_b. destruct vs as [|v vs]; [split; auto|].
      rewrite mem_str_in. split; [auto|intros [E|E]; [discriminate|exact E]].
    - (* Variant *) cbn [instB denB]. rewrite anyB_ex, existsb_exists.
      cbn [wf_ty] in Hw. rewrite forallb_forall in Hw. rewrite Forall_forall in H.
      split; intros (t & Hin & Ht); exists t; (split; [exact Hin|]); apply (H t Hin (Hw t Hin)); exact Ht.
    - (* Optional *) cbn [instB denB]. apply IHt. exact Hw.
    - (* NotUndef *) cbn [instB denB]. apply IHt. exact Hw.
  Qed.

  (* the size test of String[lo,hi] in words: the number of code points of the decoded text lies in the range *)
  Corollary instB_string_size lo hi s :
    instB (TStringSz lo hi) s = true <-> lo <= zlen (decode s) <= hi.
  Proof. rewrite (instB_is_denB (TStringSz lo hi) eq_refl). cbn [denB]. unfold between. tauto. Qed.

  (* a String[lo,hi] never accepts more bytes than... : a string of n bytes has at most n code points, so
     hi bytes always fit under the upper bound, and fewer than lo bytes never reach the lower bound *)
  Corollary instB_size_bytes lo hi s :
    instB (TStringSz lo hi) s = true -> lo <= zlen s.
  Proof.
    rewrite instB_string_size, <- count_is_decoded. pose proof (count_le_len s). lia.
  Qed.

  (* ---- agreement with Lattice.inst: on well-formed UTF-8 (and, under a case-insensitive Enum, ASCII text)
          the value-level model and the byte-level model are the same function ---- *)
  Theorem instB_agrees : forall t bs, valid_utf8 bs = true -> (is_ascii bs = true \/ no_ci t = true) ->
    instB t bs = inst rx true t (VStr bs).
  Proof.
    induction t using ty_ind'; intros bs V A; try reflexivity.
    - cbn [instB inst]. now rewrite (valid_count_agrees _ V).
    - cbn [instB inst]. unfold enum_inst_b, enum_inst, to_lower_b. destruct vs as [|v vs]; [reflexivity|].
      destruct ci; [|reflexivity]. destruct A as [A|A]; [now rewrite A|discriminate].
    - cbn [instB inst]. induction H as [|t ts Ht Hts IH]; [reflexivity|]. cbn [existsb].
      assert (A1 : is_ascii bs = true \/ no_ci t = true)
        by (destruct A as [A|A]; [auto|cbn [no_ci forallb] in A; apply andb_true_iff in A; tauto]).
      assert (A2 : is_ascii bs = true \/ no_ci (TVariant ts) = true)
        by (destruct A as [A|A]; [auto|cbn [no_ci forallb] in A; apply andb_true_iff in A; tauto]).
      rewrite (Ht bs V A1), (IH A2). reflexivity.
    - cbn [instB inst]. apply IHt; assumption.
    - cbn [instB inst]. apply IHt; assumption.
  Qed.

  Theorem denB_agrees : forall t, wf_ty t = true -> forall s, valid_utf8 s = true ->
    (is_ascii s = true \/ no_ci t = true) -> (denB t s <-> den rx (asg rx true) t (VStr s)).
  Proof.
    intros t Hw s V A. rewrite <- (instB_is_denB t Hw), (instB_agrees t s V A).
    apply (inst_is_den rx true t Hw (VStr s) eq_refl).
  Qed.

  (* on ASCII text the oracle is never consulted: ToLower is the bytewise folding *)
  Theorem to_lower_ascii s : is_ascii s = true -> to_lower_b lc s = lower_ascii s.
  Proof. unfold to_lower_b. now intros ->. Qed.

  Theorem to_lower_ascii_facts s : is_ascii s = true ->
    length (to_lower_b lc s) = length s /\
    (forall i, upper_byte (nth i s 0%N) = false -> nth i (to_lower_b lc s) 0%N = nth i s 0%N) /\
    utf8_rune_count (to_lower_b lc s) = utf8_rune_count s /\
    to_lower_b lc (to_lower_b lc s) = to_lower_b lc s.
  Proof.
    intros A. rewrite (to_lower_ascii s A). repeat split.
    - apply lower_len.
    - intros i U. rewrite lower_nth. apply lower_nonletter. exact U.
    - apply lower_count.
    - rewrite to_lower_ascii; [apply lower_idem|].
      unfold is_ascii in *. rewrite forallb_forall in *. intros b Hb.
      apply in_map_iff in Hb. destruct Hb as (b' & <- & Hb'). apply A in Hb'.
      rewrite N.ltb_lt in *. apply lower_low. exact Hb'.
  Qed.
End BytesEq.
