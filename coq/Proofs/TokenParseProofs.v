(* TokenParseProofs.v — property C05, layer L2 (tokens <-> expressions): the parser model of Model/TokenParse.v
   reads back every printable expression from the tokens it prints as.
     pvalue_tokens_of : for every printable v, every continuation k whose first token does not open an argument
                        list, and every fuel >= 2 * |tokens_of v|:
                          pvalue fuel (tokens_of v ++ k) = (v, the first token of k, the rest of k)
                        i.e. exactly tokens_of v is consumed (plus the one token of look-ahead the parser always takes)
     parse_tokens_of  : parse_tokens (tokens_of v) = POk v
   Induction over the nested structure of the expression (arrays, hashes, parameter lists to any depth), with the
   accumulators of array() / hash() generalised. *)
From Coq Require Import ZArith NArith Bool List Lia.
From PcoreV Require Import Model.Base Model.QuoteLex Model.TokenParse Proofs.QuoteLexProofs.
Import ListNotations.
Open Scope nat_scope.

(* ------------------------------------------------------------------------------------------ *)
(* induction over expressions (pval is a nested inductive type)                                 *)

Section PvalInd.
  Variable P : pval -> Prop.
  Hypothesis HUndef : P PVUndef.
  Hypothesis HDefault : P PVDefault.
  Hypothesis HBool : forall b, P (PVBool b).
  Hypothesis HInt : forall z, P (PVInt z).
  Hypothesis HFloat : forall t, P (PVFloat t).
  Hypothesis HStr : forall s, P (PVStr s).
  Hypothesis HRegexp : forall s, P (PVRegexp s).
  Hypothesis HArr : forall es, Forall P es -> P (PVArr es).
  Hypothesis HHash : forall kvs, Forall (fun kv => P (fst kv) /\ P (snd kv)) kvs -> P (PVHash kvs).
  Hypothesis HEntry : forall k v, P k -> P v -> P (PVEntry k v).
  Hypothesis HTypeN : forall n, P (PVType n None).
  Hypothesis HTypeS : forall n ps, Forall P ps -> P (PVType n (Some ps)).

  Fixpoint pval_nested_ind (v : pval) : P v :=
    match v with
    | PVUndef => HUndef
    | PVDefault => HDefault
    | PVBool b => HBool b
    | PVInt z => HInt z
    | PVFloat t => HFloat t
    | PVStr s => HStr s
    | PVRegexp s => HRegexp s
    | PVArr es =>
      HArr es ((fix go (l : list pval) : Forall P l :=
                  match l with
                  | [] => Forall_nil P
                  | x :: r => Forall_cons x (pval_nested_ind x) (go r)
                  end) es)
    | PVHash kvs =>
      HHash kvs ((fix go (l : list (pval * pval)) : Forall (fun kv => P (fst kv) /\ P (snd kv)) l :=
                    match l with
                    | [] => Forall_nil _
                    | kv :: r => Forall_cons kv (conj (pval_nested_ind (fst kv)) (pval_nested_ind (snd kv))) (go r)
                    end) kvs)
    | PVEntry k x => HEntry k x (pval_nested_ind k) (pval_nested_ind x)
    | PVType n None => HTypeN n
    | PVType n (Some ps) =>
      HTypeS n ps ((fix go (l : list pval) : Forall P l :=
                      match l with
                      | [] => Forall_nil P
                      | x :: r => Forall_cons x (pval_nested_ind x) (go r)
                      end) ps)
    end.
End PvalInd.

(* ------------------------------------------------------------------------------------------ *)
(* one-step unfoldings of the parser (all by computation)                                       *)

Lemma let_next {B} (l : list tok) (F : tok -> list tok -> B) :
  (let (t, r) := next l in F t r) = F (fst (next l)) (snd (next l)).
Proof. destruct (next l); reflexivity. Qed.

Section Proofs.
  Variable rx_ok : str -> bool.

  Lemma pvalue_simple f t rest v :
    simple_element rx_ok t = Some (POk v) ->
    pvalue rx_ok (S f) t rest = POk (Some v, fst (next rest), snd (next rest)).
  Proof.
    intros H.
    destruct t; cbn [simple_element] in H; try discriminate H; injection H as H;
      cbn [pvalue simple_element]; first [rewrite H | injection H as <-];
      destruct (next rest); reflexivity.
  Qed.

  (* one-step unfoldings, in terms of the named functions (cbn does not refold across the mutual block) *)
  Lemma parr_S f rest acc rock ah :
    parr rx_ok (S f) rest acc rock ah =
    let (t, r1) := next rest in
    match pvalue rx_ok f t r1 with
    | POk (None, _, _) => match t with KRBracket => POk (finish_array acc ah, r1) | _ => PErr end
    | POk (Some v, tk, r2) =>
      let '(acc1, ah1) := match rock with
                          | Some l => (acc ++ [PVEntry l v], true)
                          | None => (acc ++ [v], ah)
                          end in
      match tk with
      | KRBracket => POk (finish_array acc1 ah1, r2)
      | KComma => parr rx_ok f r2 acc1 None ah1
      | KRocket => parr rx_ok f r2 (removelast acc1) (Some (last acc1 PVUndef)) ah1
      | _ => PErr
      end
    | PErr => PErr | PUnmodelled => PUnmodelled | POutOfFuel => POutOfFuel
    end.
  Proof. reflexivity. Qed.

  Lemma phash_S f rest acc :
    phash rx_ok (S f) rest acc =
    let (t, r1) := next rest in
    match pvalue rx_ok f t r1 with
    | POk (None, _, _) => match t with KRBrace => POk (PVHash acc, r1) | _ => PErr end
    | POk (Some k, tk, r2) =>
      match tk with
      | KRocket =>
        let (t2, r3) := next r2 in
        match pvalue rx_ok f t2 r3 with
        | POk (None, _, _) => PErr
        | POk (Some v, tk2, r4) =>
          match tk2 with
          | KRBrace => POk (PVHash (acc ++ [(k, v)]), r4)
          | KComma => phash rx_ok f r4 (acc ++ [(k, v)])
          | _ => PErr
          end
        | PErr => PErr | PUnmodelled => PUnmodelled | POutOfFuel => POutOfFuel
        end
      | _ => PErr
      end
    | PErr => PErr | PUnmodelled => PUnmodelled | POutOfFuel => POutOfFuel
    end.
  Proof. reflexivity. Qed.

  Lemma pvalue_lbracket f rest :
    pvalue rx_ok (S f) KLBracket rest =
    match parr rx_ok f rest [] None false with
    | POk (v, r1) => let (tk, r2) := next r1 in POk (Some v, tk, r2)
    | PErr => PErr | PUnmodelled => PUnmodelled | POutOfFuel => POutOfFuel
    end.
  Proof. reflexivity. Qed.

  Lemma pvalue_lbrace f rest :
    pvalue rx_ok (S f) KLBrace rest =
    match phash rx_ok f rest [] with
    | POk (v, r1) => let (tk, r2) := next r1 in POk (Some v, tk, r2)
    | PErr => PErr | PUnmodelled => PUnmodelled | POutOfFuel => POutOfFuel
    end.
  Proof. reflexivity. Qed.

  Lemma pvalue_name_args f n rest :
    pvalue rx_ok (S f) (KName n) (KLBracket :: rest) =
    match parr rx_ok f rest [] None false with
    | POk (PVArr [], _) => PErr
    | POk (PVArr es, r2) => let (tk2, r3) := next r2 in POk (Some (PVType n (Some es)), tk2, r3)
    | POk (_, _) => PErr
    | PErr => PErr | PUnmodelled => PUnmodelled | POutOfFuel => POutOfFuel
    end.
  Proof. reflexivity. Qed.

  Lemma pvalue_name_plain f n k :
    no_args (fst (next k)) = true ->
    pvalue rx_ok (S f) (KName n) k = POk (Some (PVType n None), fst (next k), snd (next k)).
  Proof. intros H. destruct k as [|t k]; [reflexivity|]. destruct t; try discriminate H; reflexivity. Qed.

  (* the statement about one expression *)
  Definition reads_back (v : pval) : Prop :=
    printable rx_ok v = true ->
    forall k fuel, no_args (fst (next k)) = true -> 2 * length (tokens_of v) <= fuel ->
      pvalue rx_ok fuel (fst (next (tokens_of v ++ k))) (snd (next (tokens_of v ++ k)))
      = POk (Some v, fst (next k), snd (next k)).

  Lemma tokens_of_length v : 1 <= length (tokens_of v).
  Proof.
    destruct v as [| |[|]| | | | | | | |n [ps|]]; cbn [tokens_of length]; try lia.
    rewrite app_length. destruct (tokens_of v1); cbn [length]; lia.
  Qed.

  (* the tokens after the first element of a list: `, x` for each further element, then the closing token *)
  Fixpoint tail_toks (close : tok) (l : list (list tok)) : list tok :=
    match l with
    | [] => [close]
    | x :: r => KComma :: x ++ tail_toks close r
    end.

  Lemma sep_by_tail close x (r : list (list tok)) :
    sep_by [KComma] (x :: r) ++ [close] = x ++ tail_toks close r.
  Proof.
    revert x. induction r as [|y r IH]; intros x.
    - reflexivity.
    - change (sep_by [KComma] (x :: y :: r)) with (x ++ [KComma] ++ sep_by [KComma] (y :: r)).
      rewrite <- !app_assoc. rewrite IH. reflexivity.
  Qed.

  Lemma tail_toks_no_args close l k : no_args close = true -> no_args (fst (next (tail_toks close l ++ k))) = true.
  Proof. intros H. destruct l; cbn [tail_toks app next fst]; [exact H|reflexivity]. Qed.

  Lemma tail_toks_length close l : 1 <= length (tail_toks close l).
  Proof. destruct l; cbn [tail_toks length]; lia. Qed.

  (* leaves *)
  Lemma reads_back_leaf v t :
    tokens_of v = [t] -> simple_element rx_ok t = Some (POk v) -> reads_back v.
  Proof.
    intros Ht Hs _ k fuel _ Hf. rewrite Ht in *. cbn [length] in Hf.
    destruct fuel as [|f]; [lia|]. cbn [app next fst snd].
    apply pvalue_simple. exact Hs.
  Qed.

  (* array(): the elements after the opening bracket *)
  Lemma parr_elems r :
    Forall reads_back r -> forallb (printable rx_ok) r = true ->
    forall e acc k fuel, reads_back e -> printable rx_ok e = true ->
      2 * length (tokens_of e ++ tail_toks KRBracket (map tokens_of r)) <= fuel ->
      parr rx_ok fuel (tokens_of e ++ tail_toks KRBracket (map tokens_of r) ++ k) acc None false
      = POk (PVArr (acc ++ e :: r), k).
  Proof.
    induction r as [|x r IH]; intros Hall Hpr e acc k fuel He Hpe Hf.
    - cbn [map tail_toks] in *. rewrite app_length in Hf. cbn [length] in Hf.
      destruct fuel as [|f]; [lia|].
      rewrite parr_S, let_next.
      rewrite (He Hpe ([KRBracket] ++ k) f eq_refl ltac:(lia)).
      cbn [app next fst snd finish_array]. reflexivity.
    - cbn [map tail_toks] in *. rewrite !app_length in Hf. cbn [length] in Hf. rewrite app_length in Hf.
      destruct fuel as [|f]; [lia|].
      apply Forall_cons_iff in Hall. destruct Hall as [Hx Hall].
      cbn [forallb] in Hpr. apply andb_true_iff in Hpr. destruct Hpr as [Hpx Hpr].
      rewrite parr_S, let_next.
      rewrite (He Hpe ((KComma :: tokens_of x ++ tail_toks KRBracket (map tokens_of r)) ++ k) f eq_refl ltac:(lia)).
      cbn [app next fst snd]. rewrite <- app_assoc.
      rewrite (IH Hall Hpr x (acc ++ [e]) k f Hx Hpx ltac:(rewrite app_length; lia)).
      rewrite <- app_assoc. reflexivity.
  Qed.

  Lemma parr_list es k fuel :
    Forall reads_back es -> forallb (printable rx_ok) es = true ->
    2 * length (sep_by [KComma] (map tokens_of es) ++ [KRBracket]) <= fuel ->
    parr rx_ok fuel ((sep_by [KComma] (map tokens_of es) ++ [KRBracket]) ++ k) [] None false = POk (PVArr es, k).
  Proof.
    intros Hall Hpr Hf. destruct es as [|e r].
    - cbn [map sep_by app length] in *. destruct fuel as [|[|f]]; try lia. reflexivity.
    - cbn [map] in *. rewrite sep_by_tail in *. rewrite <- app_assoc.
      apply Forall_cons_iff in Hall. destruct Hall as [He Hall].
      cbn [forallb] in Hpr. apply andb_true_iff in Hpr. destruct Hpr as [Hpe Hpr].
      exact (parr_elems r Hall Hpr e [] k fuel He Hpe Hf).
  Qed.

  (* hash(): the entries after the opening brace *)
  Definition entry_toks (kv : pval * pval) : list tok := tokens_of (fst kv) ++ KRocket :: tokens_of (snd kv).
  Definition entry_ok (kv : pval * pval) : bool := printable rx_ok (fst kv) && printable rx_ok (snd kv).

  Lemma phash_elems r :
    Forall (fun kv => reads_back (fst kv) /\ reads_back (snd kv)) r -> forallb entry_ok r = true ->
    forall kv acc k fuel, reads_back (fst kv) -> reads_back (snd kv) -> entry_ok kv = true ->
      2 * length (entry_toks kv ++ tail_toks KRBrace (map entry_toks r)) <= fuel ->
      phash rx_ok fuel (entry_toks kv ++ tail_toks KRBrace (map entry_toks r) ++ k) acc
      = POk (PVHash (acc ++ kv :: r), k).
  Proof.
    induction r as [|x r IH]; intros Hall Hpr [ky vl] acc k fuel Hk Hv Hpe Hf;
      unfold entry_ok in Hpe; cbn [fst snd] in Hk, Hv, Hpe; apply andb_true_iff in Hpe; destruct Hpe as [Hpk Hpv];
      unfold entry_toks at 1 in Hf; unfold entry_toks at 1; cbn [fst snd] in *;
      rewrite !app_length in Hf; cbn [length] in Hf; rewrite ?app_length in Hf.
    - cbn [map tail_toks] in *. cbn [length] in Hf.
      destruct fuel as [|f]; [lia|].
      rewrite <- app_assoc. cbn [app].
      rewrite phash_S, let_next.
      rewrite (Hk Hpk _ f); [|reflexivity|lia].
      cbn [next fst snd]. rewrite let_next.
      rewrite (Hv Hpv _ f); [|reflexivity|lia].
      cbn [app next fst snd]. reflexivity.
    - cbn [map tail_toks] in *. cbn [length] in Hf. rewrite app_length in Hf.
      destruct fuel as [|f]; [lia|].
      apply Forall_cons_iff in Hall. destruct Hall as [[Hxk Hxv] Hall].
      cbn [forallb] in Hpr. apply andb_true_iff in Hpr. destruct Hpr as [Hpx Hpr].
      rewrite <- app_assoc. cbn [app].
      rewrite phash_S, let_next.
      rewrite (Hk Hpk _ f); [|reflexivity|lia].
      cbn [next fst snd]. rewrite let_next.
      rewrite (Hv Hpv _ f); [|reflexivity|lia].
      cbn [app next fst snd]. rewrite <- app_assoc.
      rewrite (IH Hall Hpr x (acc ++ [(ky, vl)]) k f Hxk Hxv Hpx ltac:(rewrite app_length; lia)).
      rewrite <- app_assoc. reflexivity.
  Qed.

  Lemma phash_list kvs k fuel :
    Forall (fun kv => reads_back (fst kv) /\ reads_back (snd kv)) kvs -> forallb entry_ok kvs = true ->
    2 * length (sep_by [KComma] (map entry_toks kvs) ++ [KRBrace]) <= fuel ->
    phash rx_ok fuel ((sep_by [KComma] (map entry_toks kvs) ++ [KRBrace]) ++ k) [] = POk (PVHash kvs, k).
  Proof.
    intros Hall Hpr Hf. destruct kvs as [|kv r].
    - cbn [map sep_by app length] in *. destruct fuel as [|[|f]]; try lia. reflexivity.
    - cbn [map] in *. rewrite sep_by_tail in *. rewrite <- app_assoc.
      apply Forall_cons_iff in Hall. destruct Hall as [[Hk Hv] Hall].
      cbn [forallb] in Hpr. apply andb_true_iff in Hpr. destruct Hpr as [Hpe Hpr].
      exact (phash_elems r Hall Hpr kv [] k fuel Hk Hv Hpe Hf).
  Qed.

  (* THE LAYER THEOREM, generalised over the continuation *)
  Theorem pvalue_tokens_of : forall v, reads_back v.
  Proof.
    induction v using pval_nested_ind.
    - apply (reads_back_leaf _ (KIdent s_undef)); reflexivity.
    - apply (reads_back_leaf _ (KIdent s_default)); reflexivity.
    - destruct b; [apply (reads_back_leaf _ (KIdent s_true))|apply (reads_back_leaf _ (KIdent s_false))]; reflexivity.
    - intros Hp. cbn [printable] in Hp.
      refine (reads_back_leaf (PVInt z) (KInt (format_int z)) eq_refl _ Hp).
      cbn [simple_element]. rewrite (parse_format_int z Hp). reflexivity.
    - apply (reads_back_leaf _ (KFloat t)); reflexivity.
    - apply (reads_back_leaf _ (KString s)); reflexivity.
    - intros Hp. cbn [printable] in Hp.
      refine (reads_back_leaf (PVRegexp s) (KRegexp s) eq_refl _ Hp).
      cbn [simple_element]. rewrite Hp. reflexivity.
    - (* array *)
      rename H into Hall. intros Hp k fuel Hk Hf. cbn [printable] in Hp.
      cbn [tokens_of] in *. cbn [length] in Hf.
      destruct fuel as [|f]; [lia|].
      cbn [app next fst snd]. rewrite pvalue_lbracket.
      rewrite (parr_list es k f); [|exact Hall|exact Hp|lia]. rewrite let_next. reflexivity.
    - (* hash *)
      rename H into Hall. intros Hp k fuel Hk Hf. cbn [printable] in Hp.
      cbn [tokens_of] in *. cbn [length] in Hf.
      destruct fuel as [|f]; [lia|].
      change (fun kv : pval * pval => tokens_of (fst kv) ++ KRocket :: tokens_of (snd kv)) with entry_toks in *.
      cbn [app next fst snd]. rewrite pvalue_lbrace.
      rewrite (phash_list kvs k f); [|exact Hall|exact Hp|lia]. rewrite let_next. reflexivity.
    - intros Hp. discriminate Hp.
    - intros _ k fuel Hk Hf. cbn [tokens_of length] in *.
      destruct fuel as [|f]; [lia|].
      cbn [app next fst snd]. apply pvalue_name_plain. exact Hk.
    - (* a parameterized type *)
      rename H into Hall. intros Hp k fuel Hk Hf. cbn [printable] in Hp.
      destruct ps as [|p ps]; [discriminate Hp|].
      cbn [tokens_of] in *. cbn [length] in Hf.
      destruct fuel as [|f]; [lia|].
      cbn [app next fst snd]. rewrite pvalue_name_args.
      rewrite (parr_list (p :: ps) k f); [|exact Hall|exact Hp|lia]. rewrite let_next. reflexivity.
  Qed.

  (* ... hence the whole input is read as the expression *)
  Theorem parse_tokens_of v : printable rx_ok v = true -> parse_tokens rx_ok (tokens_of v) = POk v.
  Proof.
    intros Hp. unfold parse_tokens. rewrite let_next.
    pose proof (pvalue_tokens_of v Hp [] (S (2 * length (tokens_of v))) eq_refl ltac:(lia)) as H.
    rewrite app_nil_r in H. rewrite H. reflexivity.
  Qed.
End Proofs.
