(* DescribeInfer.v — the assertion model of C19 composed with the model of px.DetailedValueType that
   property C04 owns (Model/Infer.v, imported read-only).  Kept apart from DescribeProofs.v so that the
   describer lemmas do not depend on the inference model. *)
From Coq Require Import ZArith NArith Bool List.
From PcoreV Require Import Model.Base Model.Ty Model.Lattice Model.Describe Model.Infer Proofs.DescribeProofs.
Import ListNotations.

Lemma assert_inferred_total rx teq name e v :
  exists o, assert_instance rx teq name e v (infer_detailed rx v) = Ok o.
Proof. apply assert_instance_total. Qed.

Lemma assert_inferred_raises_iff rx teq name e v :
  (assert_instance rx teq name e v (infer_detailed rx v) = Ok Returns <-> inst rx true e v = true) /\
  ((exists m ms, assert_instance rx teq name e v (infer_detailed rx v) = Ok (Raises TypeMismatchIssue (m :: ms)) /\
                 Forall (fun m' => hd_error (snd m') = Some (PSubject, KName (fn_prefix ++ name ++ [58%N]))) (m :: ms))
   <-> inst rx true e v = false).
Proof.
  destruct (assert_instance_raises_iff rx teq name e v (infer_detailed rx v)) as [H1 [H2 H3]].
  split; [exact H1|]. split.
  - intros (m & ms & E & _). apply H2. eauto.
  - intros I. destruct (H3 I) as (m & ms & E). exists m, ms. split; [exact E|].
    eapply assert_instance_names_subject; exact E.
Qed.
