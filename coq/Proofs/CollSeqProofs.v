(* The Array as a sequence of arbitrary values: deletion compares with Equals only (Model/CollSeq.v). *)
From Coq Require Import ZArith NArith Bool Lia List.
From PcoreV Require Import Model.Base Model.CollSeq.
Import ListNotations.

(* induction over the nesting *)
Section ElemInd.
  Variable P : elem -> Prop.
  Hypothesis Hatom : forall k c, P (EAtom k c).
  Hypothesis Hnever : forall k i, P (ENever k i).
  Hypothesis Harr : forall l, Forall P l -> P (EArr l).
  Fixpoint elem_ind' (e : elem) : P e :=
    match e with
    | EAtom k c => Hatom k c
    | ENever k i => Hnever k i
    | EArr l => Harr l ((fix go (l : list elem) : Forall P l :=
                           match l with [] => Forall_nil P | x :: r => Forall_cons x (elem_ind' x) (go r) end) l)
    end.
End ElemInd.

Fixpoint aeq_list (l m : list elem) : bool :=
  match l, m with
  | [], [] => true
  | x :: l', y :: m' => aeq x y && aeq_list l' m'
  | _, _ => false
  end.

Lemma aeq_arr l m : aeq (EArr l) (EArr m) = aeq_list l m.
Proof. reflexivity. Qed.

(* Equals is symmetric on every value ... *)
Lemma aeq_sym a : forall b, aeq a b = aeq b a.
Proof.
  induction a as [k c|k i|l IH] using elem_ind'; intros [k' d|k' j|m]; try reflexivity.
  - cbn. apply N.eqb_sym.
  - rewrite !aeq_arr. revert m; induction IH as [|x l Hx Hl IHl]; intros [|y m]; cbn; try reflexivity.
    rewrite Hx. f_equal. apply IHl.
Qed.

(* ... a never-equal value (NaN, Sensitive) is equal to nothing, itself included ... *)
Lemma aeq_never k i x : aeq (ENever k i) x = false /\ aeq x (ENever k i) = false.
Proof. split; [reflexivity|destruct x; reflexivity]. Qed.

(* ... and reflexive exactly on the values that hold no such value at any depth *)
Fixpoint never_free (e : elem) : bool :=
  match e with
  | EAtom _ _ => true
  | ENever _ _ => false
  | EArr l => forallb never_free l
  end.

Lemma aeq_refl_iff a : aeq a a = never_free a.
Proof.
  induction a as [k c|k i|l IH] using elem_ind'; cbn [never_free]; try reflexivity.
  - cbn. apply N.eqb_refl.
  - rewrite aeq_arr. induction IH as [|x l Hx Hl IHl]; cbn; [reflexivity|]. now rewrite Hx, IHl.
Qed.

(* DeleteAll of a one element list is Delete: for EVERY array and EVERY value - keyless ones, NaN included *)
Lemma delete_all_single l x : sdelete_all l [x] = sdelete l x.
Proof.
  unfold sdelete_all, sdelete. apply filter_ext. intros e. cbn. now rewrite orb_false_r.
Qed.

Lemma delete_all_nil l : sdelete_all l [] = l.
Proof. unfold sdelete_all. cbn. induction l as [|e l IH]; cbn; [reflexivity|]. now rewrite IH. Qed.

Lemma filter_filter {A} (f g : A -> bool) l : filter f (filter g l) = filter (fun x => g x && f x) l.
Proof.
  induction l as [|x l IH]; cbn; [reflexivity|]. destruct (g x); cbn; [destruct (f x); now rewrite IH|exact IH].
Qed.

(* DeleteAll is Delete of each given value in turn *)
Lemma delete_all_cons l x xs : sdelete_all l (x :: xs) = sdelete_all (sdelete l x) xs.
Proof.
  unfold sdelete_all, sdelete. rewrite filter_filter. apply filter_ext. intros e. cbn.
  now rewrite negb_orb.
Qed.

(* what is left: exactly the elements equal to none of the given values, in their order (a filter), ... *)
Lemma delete_all_spec l xs e :
  In e (sdelete_all l xs) <-> In e l /\ forall x, In x xs -> aeq e x = false.
Proof.
  unfold sdelete_all. rewrite filter_In. split; intros [Hi H]; split; auto.
  - intros x Hx. apply negb_true_iff in H. destruct (aeq e x) eqn:E; [|reflexivity].
    assert (existsb (fun x => aeq e x) xs = true) by (apply existsb_exists; eauto). congruence.
  - apply negb_true_iff. destruct (existsb (fun x => aeq e x) xs) eqn:E; [|reflexivity].
    apply existsb_exists in E. destruct E as (x & Hx & Hq). rewrite (H x Hx) in Hq. discriminate.
Qed.

(* ... so a never-equal element (NaN, a Sensitive) is never removed, whatever the list names, ... *)
Lemma delete_all_keeps_never l xs k i : In (ENever k i) l -> In (ENever k i) (sdelete_all l xs).
Proof. intros H. apply delete_all_spec. split; [exact H|reflexivity]. Qed.

Lemma delete_keeps_length_never l k i : sdelete l (ENever k i) = l.
Proof.
  unfold sdelete. induction l as [|e l IH]; cbn; [reflexivity|].
  rewrite (proj2 (aeq_never k i e)). cbn. now rewrite IH.
Qed.

(* ... and a list that names no equal of any element removes nothing *)
Lemma delete_all_none l xs : (forall e x, In e l -> In x xs -> aeq e x = false) -> sdelete_all l xs = l.
Proof.
  intros H. unfold sdelete_all. induction l as [|e l IH]; cbn; [reflexivity|].
  assert (E : existsb (fun x => aeq e x) xs = false).
  { destruct (existsb (fun x => aeq e x) xs) eqn:E; [|reflexivity]. apply existsb_exists in E.
    destruct E as (x & Hx & Hq). rewrite (H e x (or_introl eq_refl) Hx) in Hq. discriminate. }
  rewrite E. cbn. rewrite IH; [reflexivity|]. intros e' x He' Hx. apply H; [now right|exact Hx].
Qed.

(* the companion relation at the level of histories: in every pool, DeleteAll with a one element array is the
   Delete of that element, and neither fails on an array receiver *)
Lemma step_delete_all_single pool r x y e :
  nth_error pool x = Some (EArr [e]) -> nth_error pool y = Some e ->
  sstep pool (SDeleteAll r x) = sstep pool (SDelete r y).
Proof.
  intros Hx Hy. cbn [sstep]. unfold with_arr, with_val, arr_of. rewrite Hx, Hy.
  destruct (nth_error pool r) as [[| |l]|]; try reflexivity. now rewrite delete_all_single.
Qed.

Lemma step_delete_total pool r x l e : arr_of pool r = Some l -> nth_error pool x = Some e ->
  sstep pool (SDelete r x) = OV (EArr (sdelete l e)) /\
  (forall xs, arr_of pool x = Some xs -> sstep pool (SDeleteAll r x) = OV (EArr (sdelete_all l xs))).
Proof.
  intros Hr Hx. cbn [sstep]. unfold with_arr, with_val. rewrite Hr, Hx. split; [reflexivity|].
  intros xs Hxs. now rewrite Hxs.
Qed.
