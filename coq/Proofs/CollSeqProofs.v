(* The Array as a sequence of arbitrary values: deletion compares with Equals only (Model/CollSeq.v). *)
From Coq Require Import ZArith NArith Bool Lia List.
From PcoreV Require Import Model.Base Model.CollSeq.
Import ListNotations.

(* induction over the nesting *)
Section ElemInd.
  Variable P : elem -> Prop.
  Hypothesis Hatom : forall k c, P (EAtom k c).
  Hypothesis Hnever : forall k i, P (ENever k i).
  Hypothesis Harr : forall l, Forall P l -> P (EArr l).
  Fixpoint elem_ind' (e : elem) : P e :=
    match e with
    | EAtom k c => Hatom k c
    | ENever k i => Hnever k i
    | EArr l => Harr l ((fix go (l : list elem) : Forall P l :=
                           match l with [] => Forall_nil P | x :: r => Forall_cons x (elem_ind' x) (go r) end) l)
    end.
End ElemInd.

Fixpoint aeq_list (l m : list elem) : bool :=
  match l, m with
  | [], [] => true
  | x :: l', y :: m' => aeq x y && aeq_list l' m'
  | _, _ => false
  end.

Lemma aeq_arr l m : aeq (EArr l) (EArr m) = aeq_list l m.
Proof. reflexivity. Qed.

(* Equals is symmetric on every value ... *)
Lemma aeq_sym a : forall b, aeq a b = aeq b a.
Proof.
  induction a as [k c|k i|l IH] using elem_ind'; intros [k' d|k' j|m]; try reflexivity.
  - cbn. apply N.eqb_sym.
  - rewrite !aeq_arr. revert m; induction IH as [|x l Hx Hl IHl]; intros [|y m]; cbn; try reflexivity.
    rewrite Hx. f_equal. apply IHl.
Qed.

(* ... a never-equal value (NaN, Sensitive) is equal to nothing, itself included ... *)
Lemma aeq_never k i x : aeq (ENever k i) x = false /\ aeq x (ENever k i) = false.
Proof. split; [reflexivity|destruct x; reflexivity]. Qed.

(* ... and reflexive exactly on the values that hold no such value at any depth *)
Fixpoint never_free (e : elem) : bool :=
  match e with
  | EAtom _ _ => true
  | ENever _ _ => false
  | EArr l => forallb never_free l
  end.

Lemma aeq_refl_iff a : aeq a a = never_free a.
Proof.
  induction a as [k c|k i|l IH] using elem_ind'; cbn [never_free]; try reflexivity.
  - cbn. apply N.eqb_refl.
  - rewrite aeq_arr. induction IH as [|x l Hx Hl IHl]; cbn; [reflexivity|]. now rewrite Hx, IHl.
Qed.

(* DeleteAll of a one element list is Delete: for EVERY array and EVERY value - keyless ones, NaN included *)
Lemma delete_all_single l x : sdelete_all l [x] = sdelete l x.
Proof.
  unfold sdelete_all, sdelete. apply filter_ext. intros e. cbn. now rewrite orb_false_r.
Qed.

Lemma delete_all_nil l : sdelete_all l [] = l.
Proof. unfold sdelete_all. cbn. induction l as [|e l IH]; cbn; [reflexivity|]. now rewrite IH. Qed.

Lemma filter_filter {A} (f g : A -> bool) l : filter f (filter g l) = filter (fun x => g x && f x) l.
Proof.
  induction l as [|x l IH]; cbn; [reflexivity|]. destruct (g x); cbn; [destruct (f x); now rewrite IH|exact IH].
Qed.

(* DeleteAll is Delete of each given value in turn *)
Lemma delete_all_cons l x xs : sdelete_all l (x :: xs) = sdelete_all (sdelete l x) xs.
Proof.
  unfold sdelete_all, sdelete. rewrite filter_filter. apply filter_ext. intros e. cbn.
  now rewrite negb_orb.
Qed.

(* what is left: exactly the elements equal to none of the given values, in their order (a filter), ... *)
Lemma delete_all_spec l xs e :
  In e (sdelete_all l xs) <-> In e l /\ forall x, In x xs -> aeq e x = false.
Proof.
  unfold sdelete_all. rewrite filter_In. split; intros [Hi H]; split; auto.
  - intros x Hx. apply negb_true_iff in H. destruct (aeq e x) eqn:E; [|reflexivity].
    assert (existsb (fun x => aeq e x) xs = true) by (apply existsb_exists; eauto). congruence.
  - apply negb_true_iff. destruct (existsb (fun x => aeq e x) xs) eqn:E; [|reflexivity].
    apply existsb_exists in E. destruct E as (x & Hx & Hq). rewrite (H x Hx) in Hq. discriminate.
Qed.

(* ... so a never-equal element (NaN, a Sensitive) is never removed, whatever the list names, ... *)
Lemma delete_all_keeps_never l xs k i : In (ENever k i) l -> In (ENever k i) (sdelete_all l xs).
Proof. intros H. apply delete_all_spec. split; [exact H|reflexivity]. Qed.

Lemma delete_keeps_length_never l k i : sdelete l (ENever k i) = l.
Proof.
  unfold sdelete. induction l as [|e l IH]; cbn; [reflexivity|].
  rewrite (proj2 (aeq_never k i e)). cbn. now rewrite IH.
Qed.

(* ... and a list that names no equal of any element removes nothing *)
Lemma delete_all_none l xs : (forall e x, In e l -> In x xs -> aeq e x = false) -> sdelete_all l xs = l.
Proof.
  intros H. unfold sdelete_all. induction l as [|e l IH]; cbn; [reflexivity|].
  assert (E : existsb (fun x => aeq e x) xs = false).
  { destruct (existsb (fun x => aeq e x) xs) eqn:E; [|reflexivity]. apply existsb_exists in E.
    destruct E as (x & Hx & Hq). rewrite (H e x (or_introl eq_refl) Hx) in Hq. discriminate. }
  rewrite E. cbn. rewrite IH; [reflexivity|]. intros e' x He' Hx. apply H; [now right|exact Hx].
Qed.

(* the companion relation at the level of histories: in every pool, DeleteAll with a one element array is the
   Delete of that element, and neither fails on an array receiver *)
Lemma step_delete_all_single pool r x y e :
  nth_error pool x = Some (EArr [e]) -> nth_error pool y = Some e ->
  sstep pool (SDeleteAll r x) = sstep pool (SDelete r y).
Proof.
  intros Hx Hy. cbn [sstep]. unfold with_arr, with_val, arr_of. rewrite Hx, Hy.
  destruct (nth_error pool r) as [[| |l]|]; try reflexivity. now rewrite delete_all_single.
Qed.

Lemma step_delete_total pool r x l e : arr_of pool r = Some l -> nth_error pool x = Some e ->
  sstep pool (SDelete r x) = OV (EArr (sdelete l e)) /\
  (forall xs, arr_of pool x = Some xs -> sstep pool (SDeleteAll r x) = OV (EArr (sdelete_all l xs))).
Proof.
  intros Hr Hx. cbn [sstep]. unfold with_arr, with_val. rewrite Hr, Hx. split; [reflexivity|].
  intros xs Hxs. now rewrite Hxs.
Qed.

(* ---- Unique ---- *)

Lemma aeq_list_arr l m : aeq (EArr l) (EArr m) = aeq_list l m.
Proof. reflexivity. Qed.

(* what is equal to something is equal to itself *)
Lemma aeq_true_self a : forall b, aeq a b = true -> aeq a a = true.
Proof.
  induction a as [k c|k i|l IH] using elem_ind'; intros [k' d|k' j|m]; try discriminate.
  - intros _. cbn. apply N.eqb_refl.
  - rewrite !aeq_list_arr. revert m; induction IH as [|x l Hx Hl IHl]; intros [|y m]; cbn; try discriminate; [reflexivity|].
    intros H. apply andb_true_iff in H. destruct H as [H1 H2]. rewrite (Hx y H1). cbn. now apply (IHl m).
Qed.

Lemma aeq_trans a : forall b c, aeq a b = true -> aeq b c = true -> aeq a c = true.
Proof.
  induction a as [k c0|k i|l IH] using elem_ind'; intros [k' d|k' j|m] [k'' e|k'' j'|n]; try discriminate.
  - cbn. intros H1 H2. apply N.eqb_eq in H1. apply N.eqb_eq in H2. apply N.eqb_eq. congruence.
  - rewrite !aeq_list_arr. revert m n; induction IH as [|x l Hx Hl IHl]; intros [|y m] [|z n]; cbn; try discriminate; [reflexivity|].
    intros H1 H2. apply andb_true_iff in H1. apply andb_true_iff in H2. destruct H1 as [A1 A2], H2 as [B1 B2].
    rewrite (Hx y z A1 B1). cbn. now apply (IHl m n).
Qed.

(* FIRST OCCURRENCES modulo Equals: the element at a position is kept exactly when no EARLIER element of the array
   (kept or not) is equal to it *)
Fixpoint first_occ_from (seen l : list elem) : list elem :=
  match l with
  | [] => []
  | v :: r => if existsb (fun s => aeq s v) seen then first_occ_from (seen ++ [v]) r
              else v :: first_occ_from (seen ++ [v]) r
  end.
Definition first_occ (l : list elem) : list elem := first_occ_from [] l.

Definition covers (kept seen : list elem) : Prop :=
  (forall w, In w kept -> In w seen) /\
  (forall s, In s seen -> aeq s s = true -> exists w, In w kept /\ aeq w s = true).

Lemma covers_exists kept seen v : covers kept seen ->
  existsb (fun w => aeq w v) kept = existsb (fun s => aeq s v) seen.
Proof.
  intros [Hsub Hcov]. destruct (existsb (fun s => aeq s v) seen) eqn:E.
  - apply existsb_exists in E. destruct E as (s & Hs & Hq).
    destruct (Hcov s Hs (aeq_true_self s v Hq)) as (w & Hw & Hws).
    apply existsb_exists. exists w. split; [exact Hw|]. eapply aeq_trans; eauto.
  - destruct (existsb (fun w => aeq w v) kept) eqn:E'; [|reflexivity].
    apply existsb_exists in E'. destruct E' as (w & Hw & Hq).
    assert (existsb (fun s => aeq s v) seen = true) by (apply existsb_exists; exists w; auto). congruence.
Qed.

Lemma sunique_from_first_occ l : forall kept seen, covers kept seen ->
  sunique_from kept l = first_occ_from seen l.
Proof.
  induction l as [|v r IH]; intros kept seen C; cbn [sunique_from first_occ_from]; [reflexivity|].
  rewrite (covers_exists kept seen v C). destruct C as [Hsub Hcov].
  destruct (existsb (fun s => aeq s v) seen) eqn:E.
  - apply IH. split.
    + intros w Hw. apply in_or_app. left. auto.
    + intros s Hs Hss. apply in_app_or in Hs. destruct Hs as [Hs|[<-|[]]]; [auto|].
      apply existsb_exists in E. destruct E as (s & Hs & Hq).
      destruct (Hcov s Hs (aeq_true_self s v Hq)) as (w & Hw & Hws). exists w. split; [exact Hw|].
      eapply aeq_trans; eauto.
  - f_equal. apply IH. split.
    + intros w Hw. apply in_app_or in Hw. apply in_or_app. destruct Hw as [Hw|Hw]; [left; auto|right; exact Hw].
    + intros s Hs Hss. apply in_app_or in Hs. destruct Hs as [Hs|[<-|[]]].
      * destruct (Hcov s Hs Hss) as (w & Hw & Hws). exists w. split; [apply in_or_app; left; exact Hw|exact Hws].
      * exists v. split; [apply in_or_app; right; now left|exact Hss].
Qed.

Theorem unique_is_first_occurrences l : sunique l = first_occ l.
Proof. apply sunique_from_first_occ. split; [intros w []|intros s []]. Qed.

(* consequences: no two kept elements are equal; every element of the array is kept or equal to a kept one that
   comes no later; an element that is not equal to itself (NaN, a Sensitive, a list that holds one) always stays *)
Lemma first_occ_in seen l e : In e (first_occ_from seen l) -> In e l.
Proof.
  revert seen; induction l as [|v r IH]; intros seen; cbn [first_occ_from]; [intros []|].
  destruct (existsb _ seen); cbn [In]; intros H; [right; eauto|destruct H; [now left|right; eauto]].
Qed.

Lemma first_occ_none_seen seen l e s : In e (first_occ_from seen l) -> In s seen -> aeq s e = false.
Proof.
  revert seen; induction l as [|v r IH]; intros seen; cbn [first_occ_from]; [intros []|].
  destruct (existsb (fun s0 => aeq s0 v) seen) eqn:E; cbn [In]; intros H Hs.
  - apply (IH (seen ++ [v])); [exact H|apply in_or_app; now left].
  - destruct H as [<-|H].
    + destruct (aeq s v) eqn:Q; [|reflexivity].
      assert (existsb (fun s0 => aeq s0 v) seen = true) by (apply existsb_exists; eauto). congruence.
    + apply (IH (seen ++ [v])); [exact H|apply in_or_app; now left].
Qed.

Lemma first_occ_pairwise l : forall seen, ForallOrdPairs (fun a b => aeq a b = false) (first_occ_from seen l).
Proof.
  induction l as [|v r IH]; intros seen; cbn [first_occ_from]; [constructor|].
  destruct (existsb _ seen); [apply IH|]. constructor; [|apply IH].
  apply Forall_forall. intros e He. apply (first_occ_none_seen (seen ++ [v]) r e v He).
  apply in_or_app. right. now left.
Qed.

Theorem unique_no_two_equal l : ForallOrdPairs (fun a b => aeq a b = false) (sunique l).
Proof. rewrite unique_is_first_occurrences. apply first_occ_pairwise. Qed.

Theorem unique_elements_of l e : In e (sunique l) -> In e l.
Proof. rewrite unique_is_first_occurrences. apply first_occ_in. Qed.

Lemma first_occ_keeps_unequal seen l :
  filter (fun e => negb (aeq e e)) (first_occ_from seen l) = filter (fun e => negb (aeq e e)) l.
Proof.
  revert seen; induction l as [|v r IH]; intros seen; cbn [first_occ_from]; [reflexivity|].
  destruct (existsb (fun s => aeq s v) seen) eqn:E.
  - apply existsb_exists in E. destruct E as (s & Hs & Hq). rewrite aeq_sym in Hq.
    cbn [filter]. rewrite (aeq_true_self v s Hq). cbn. apply IH.
  - cbn [filter]. destruct (negb (aeq v v)); [f_equal|]; apply IH.
Qed.

Theorem unique_keeps_never_equal l :
  filter (fun e => negb (aeq e e)) (sunique l) = filter (fun e => negb (aeq e e)) l.
Proof. rewrite unique_is_first_occurrences. apply first_occ_keeps_unequal. Qed.

Lemma first_occ_covers l : forall seen e, In e l -> aeq e e = true ->
  exists w, (In w seen \/ In w (first_occ_from seen l)) /\ aeq w e = true.
Proof.
  induction l as [|v r IH]; intros seen e Hin Hee; [destruct Hin|].
  destruct Hin as [<-|He]; cbn [first_occ_from].
  - destruct (existsb (fun s => aeq s v) seen) eqn:E.
    + apply existsb_exists in E. destruct E as (s & Hs & Hq). eauto.
    + exists v. split; [right; now left|exact Hee].
  - destruct (IH (seen ++ [v]) e He Hee) as (w & Hw & Hq).
    destruct (existsb (fun s => aeq s v) seen) eqn:E.
    + destruct Hw as [Hw|Hw]; [|eauto]. apply in_app_or in Hw. destruct Hw as [Hw|[<-|[]]]; [eauto|].
      apply existsb_exists in E. destruct E as (s & Hs & Hsv). exists s. split; [now left|]. eapply aeq_trans; eauto.
    + exists w. split; [|exact Hq]. destruct Hw as [Hw|Hw]; [|right; now right].
      apply in_app_or in Hw. destruct Hw as [Hw|[<-|[]]]; [now left|right; now left].
Qed.

Theorem unique_holds_an_equal_of_every_element l e : In e l -> aeq e e = true ->
  exists w, In w (sunique l) /\ aeq w e = true.
Proof.
  intros He Hee. rewrite unique_is_first_occurrences.
  destruct (first_occ_covers l [] e He Hee) as (w & [[]|Hw] & Hq). eauto.
Qed.

Lemma step_unique_total pool r l : arr_of pool r = Some l -> sstep pool (SUnique r) = OV (EArr (sunique l)).
Proof. intros H. cbn [sstep]. unfold with_arr. now rewrite H. Qed.
