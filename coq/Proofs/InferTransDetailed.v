(* InferTransDetailed.v — C04, detailed types: "a type used as a value accepts itself" is no hypothesis any more but
   reflexivity of assignability (LatticeOrder.asg_refl, C03_refl): the guard dv_ok2 asks of a type used as a value
   what the Go constructors guarantee (wf_ty).  What remains of dv_ok is the condition on UniqueTypes (dedup_exact). *)
From Coq Require Import ZArith NArith Bool List Lia.
From PcoreV Require Import Model.Base Model.Ty Model.Lattice Model.Infer Proofs.LatticeUnfold Proofs.LatticeBasics
  Proofs.LatticeRule Proofs.LatticeOrder Proofs.InferProofs.
Import ListNotations.
Open Scope Z_scope.

Section Detailed2.
  Variable rx : str -> str -> bool.

  (* nothing outside the model, string hash keys pairwise different, the types used as values are well-formed, and
     UniqueTypes drops only structurally equal duplicates from the detailed key / value types of a hash *)
  Fixpoint dv_ok2 (v : value) : bool :=
    match v with
    | VOther _ => false
    | VType t => wf_ty t
    | VArr vs => forallb dv_ok2 vs
    | VHash es =>
        distinct_keys (map fst es) && forallb (fun e => dv_ok2 (fst e) && dv_ok2 (snd e)) es &&
        dedup_exact (dkeys rx es) && dedup_exact (dvals rx es)
    | VSensitive x => dv_ok2 x
    | _ => true
    end.

  Lemma dv_ok2_dv_ok : forall v, dv_ok2 v = true -> dv_ok rx v = true.
  Proof.
    induction v using value_ind'; intros Hok; cbn [dv_ok dv_ok2] in *; try reflexivity; try discriminate Hok.
    - rewrite forallb_forall in Hok. rewrite Forall_forall in H. apply forallb_forall. intros y Hy. apply (H y Hy). auto.
    - apply andb_true_iff in Hok. destruct Hok as [Hok Hd2]. apply andb_true_iff in Hok. destruct Hok as [Hok Hd1].
      apply andb_true_iff in Hok. destruct Hok as [Hk Hall]. rewrite Hk, Hd1, Hd2. cbn [andb]. rewrite !andb_true_r.
      rewrite forallb_forall in Hall. rewrite Forall_forall in H. apply forallb_forall. intros e He.
      specialize (Hall e He). apply andb_true_iff in Hall. destruct Hall as [H1 H2]. destruct (H e He) as [I1 I2].
      rewrite (I1 H1), (I2 H2). reflexivity.
    - apply LatticeOrder.asg_refl. exact Hok.
    - auto.
  Qed.

  Theorem detailed_inst2 v : dv_ok2 v = true -> inst rx true (infer_detailed rx v) v = true.
  Proof. intros H. apply detailed_inst. apply dv_ok2_dv_ok. exact H. Qed.

  Theorem detailed_sound2 v : dv_ok2 v = true -> forall T,
    rule_free T (infer_detailed rx v) = true -> asg rx true T (infer_detailed rx v) = true -> inst rx true T v = true.
  Proof. intros H. exact (detailed_sound_core rx v (dv_ok2_dv_ok v H)). Qed.

  Lemma cv_ok2_cv_ok0 v : dv_ok2 v = true -> no_undef_entry v = true -> fin_val v = true -> cv_ok0 v = true.
  Proof. intros H1 H2 H3. unfold cv_ok0. rewrite (dv_kv rx v (dv_ok2_dv_ok v H1)), H2, H3. reflexivity. Qed.
End Detailed2.
