(* CollHeapXProofs.v — property C08 for the histories of Model/CollHeapX.v (the operations of Model/CollHeap.v plus
   Hash.new(tree, 'tree') and MapEntries): what the two routes decide to build is in order (no append to an existing
   slice at all) and closed, hence the frame theorems of Proofs/CollHeapFrame.v hold of these histories too. *)
From Coq Require Import ZArith NArith Bool List Lia.
From PcoreV Require Import Model.Base Model.Heap Model.Coll Model.CollHeap Model.CollHeapX
     Proofs.HeapProofs Proofs.CollInd Proofs.CollHeapProofs Proofs.CollHeapDecide Proofs.CollHeapFrame.
Import ListNotations.
Local Open Scope nat_scope.
Local Opaque obs_fuel.

(* in order and closed *)
Definition G (n : nat) (p : plan) : Prop := plan_okb p = true /\ plan_closed n p.

Lemma G_New n b hw items : G n (New b hw items) <-> Forall (G n) items.
Proof.
  unfold G. cbn [plan_okb]. rewrite plan_closed_New, forallb_forall, !Forall_forall.
  split; [intros [Ho Hc] x Hx; split; auto|intros H; split; intros x Hx; apply (H x Hx)].
Qed.

Lemma G_Share n v : val_closed n v -> G n (Share v).
Proof. intros H. split; [reflexivity|exact H]. Qed.

Lemma G_MkEntry n k v : G n k -> G n v -> G n (MkEntry k v).
Proof. intros [Ho1 Hc1] [Ho2 Hc2]. split; [cbn [plan_okb]; now rewrite Ho1, Ho2|cbn [plan_closed]; auto]. Qed.

Lemma G_own_empty n : G n own_empty.
Proof. apply G_New. constructor. Qed.

Lemma G_shares n vs : Forall (val_closed n) vs -> Forall (G n) (shares vs).
Proof. induction 1; cbn; constructor; auto using G_Share. Qed.

Section WithStore.
  Variable h : hstore.
  Variable pool : list hval.
  Hypothesis Hc : store_closed h.
  Hypothesis Hp : Forall (val_closed (length h)) pool.
  Notation n := (length h).

  Lemma G_merge_items nd oh : G n nd -> Forall (G n) oh -> G n (merge_items h nd oh).
  Proof.
    intros Hn Hoh. destruct nd as [v|k v|b hw items|s items]; try exact Hn.
    destruct b; [|exact Hn]. destruct hw as [|c|c]; try exact Hn.
    cbn [merge_items]. apply G_New. apply Forall_merge; [now apply G_New in Hn|assumption].
  Qed.

  Lemma G_tput : forall path last v nd,
    val_closed n last -> Forall (val_closed n) path -> G n v -> G n nd -> G n (tput h path last v nd).
  Proof.
    induction path as [|k rest IH]; intros last v nd Hl Hpath Hv Hn; cbn [tput].
    - apply G_merge_items; [assumption|]. constructor; [|constructor]. apply G_MkEntry; [now apply G_Share|assumption].
    - inversion Hpath as [|? ? Hk Hrest]; subst.
      destruct nd as [x|kk x|b hw items|s items]; try exact Hn.
      destruct b; [|exact Hn]. destruct hw as [|c|c]; try exact Hn.
      pose proof (proj1 (G_New n true (Cap c) items) Hn) as Hitems.
      destruct (hfindG (item_key h) items (ob h k)) as [i|].
      + pose proof (Forall_nth (G n) (Share HNilv) i items (G_Share n HNilv I) Hitems) as Hnth.
        destruct (nth i items (Share HNilv)) as [x|kk sub|b hw its|s its]; try exact Hn.
        destruct sub as [y|k2 y|b2 hw2 its2|s2 its2]; try exact Hn.
        destruct b2; [|exact Hn]. destruct hw2 as [|c2|c2]; try exact Hn.
        apply G_New. apply Forall_set_nth; [|assumption].
        destruct Hnth as [Ho Hcl]. cbn [plan_okb] in Ho. apply andb_prop in Ho. destruct Ho as [Ho1 Ho2].
        cbn [plan_closed] in Hcl. destruct Hcl as [Hc1 Hc2].
        apply G_MkEntry; [split; assumption|]. apply IH; auto. split; assumption.
      + apply G_merge_items; [assumption|]. constructor; [|constructor].
        apply G_MkEntry; [now apply G_Share|]. apply IH; auto using G_own_empty.
  Qed.

  Lemma G_indexed : forall vs i, Forall (val_closed n) vs -> Forall (G n) (indexed_from i vs).
  Proof.
    induction vs as [|v vs IH]; intros i H; cbn [indexed_from]; [constructor|].
    inversion H; subst. constructor; [|now apply IH]. apply G_MkEntry; apply G_Share; [exact I|assumption].
  Qed.

  Lemma closed_removelast (l : list hval) : Forall (val_closed n) l -> Forall (val_closed n) (removelast l).
  Proof.
    induction 1 as [|x l Hx Hl IH]; cbn [removelast]; [constructor|]. destruct l; [constructor|]. constructor; assumption.
  Qed.

  Lemma closed_last (l : list hval) : Forall (val_closed n) l -> val_closed n (List.last l HNilv).
  Proof. induction 1 as [|x l Hx Hl IH]; cbn [List.last]; [exact I|]. destruct l; assumption. Qed.

  Lemma G_tree_elem all nd el : val_closed n el -> G n nd -> G n (tree_elem h all nd el).
  Proof.
    intros Hel Hn. unfold tree_elem. destruct el as [| | | |t| | |]; try exact Hn.
    pose proof (closed_els h Hc t) as Ht.
    destruct (els h t) as [|e0 rest]; [exact Hn|].
    destruct e0 as [| | | |ps| | |]; try exact Hn.
    destruct rest as [|value [|? ?]]; try exact Hn.
    pose proof (Forall_inv (Forall_inv_tail Ht)) as Hvalue.
    pose proof (closed_els h Hc ps) as Hps.
    destruct (els h ps) as [|p0 prest].
    - destruct value as [| | | |a|e| |]; try exact Hn.
      + apply G_merge_items; [assumption|]. apply G_indexed. apply closed_els; assumption.
      + apply G_merge_items; [assumption|]. apply G_shares. apply closed_els; assumption.
    - apply G_tput; [now apply closed_last|now apply closed_removelast| |assumption].
      destruct value as [| | | |a| | |]; try (apply G_Share; exact Hvalue).
      destruct all; [|apply G_Share; exact Hvalue].
      apply G_New. apply G_indexed. apply closed_els; assumption.
  Qed.

  Lemma G_tree all : forall l nd, Forall (val_closed n) l -> G n nd -> G n (fold_left (tree_elem h all) l nd).
  Proof.
    induction l as [|el l IH]; intros nd Hl Hn; cbn [fold_left]; [assumption|].
    inversion Hl; subst. apply IH; [assumption|]. now apply G_tree_elem.
  Qed.

  Definition pres_G (r : pres) : Prop := match r with PPlan p => G n p | PErr _ => True end.

  Lemma xdecide_G o : pres_G (xdecide h pool o).
  Proof.
    destruct o as [b|r all|r x ident]; cbn [xdecide].
    - pose proof (decide_pres_ok h pool b) as Ho. pose proof (decide_pres_closed h pool Hc Hp b) as Hcl.
      destruct (decide h pool b); cbn in *; [split; assumption|exact I].
    - pose proof (closed_P n pool r Hp) as Hr. destruct (P pool r) as [| | | |t| | |]; try exact I.
      destruct (negb (Nat.eqb (length (els h t)) 0) && forallb (tuple_ok h) (els h t)); [|exact I].
      cbn [pres_G]. apply G_tree; [now apply closed_els|apply G_own_empty].
    - pose proof (closed_P n pool r Hp) as Hr. destruct (P pool r) as [| | | | |s| |]; try exact I.
      cbn [pres_G]. apply G_New. pose proof (closed_els h Hc s) as Hs.
      induction Hs as [|e es He _ IHs]; cbn [map]; constructor; [|assumption].
      destruct ident; [now apply G_Share|].
      apply G_MkEntry; apply G_Share; [now apply closed_P|now apply closed_ent_snd].
  Qed.
End WithStore.

Lemma xdecide_ok h pool o p :
  store_closed h -> Forall (val_closed (length h)) pool -> xdecide h pool o = PPlan p -> plan_okb p = true.
Proof. intros Hc Hp H. pose proof (xdecide_G h pool Hc Hp o) as HG. rewrite H in HG. exact (proj1 HG). Qed.

Lemma xdecide_closed h pool o p :
  store_closed h -> Forall (val_closed (length h)) pool -> xdecide h pool o = PPlan p -> plan_closed (length h) p.
Proof. intros Hc Hp H. pose proof (xdecide_G h pool Hc Hp o) as HG. rewrite H in HG. exact (proj2 HG). Qed.

(* ---------------------------------------------------------------------------------------------- *)
(* one step, histories: as in CollHeapFrame.v *)

Lemma xstep_prefix g st o : state_wf st -> prefix (st_heap st) (st_heap (fst (xstep g st o))).
Proof.
  intros [Hc Hp]. unfold xstep. destruct (xdecide (st_heap st) (st_pool st) o) as [p|e] eqn:E; [|apply prefix_refl].
  pose proof (exec_prefix g p (st_heap st) (xdecide_ok _ _ _ _ Hc Hp E)) as Hpre.
  destruct (exec g (st_heap st) p) as [h' v]. exact Hpre.
Qed.

Lemma xstep_pool g st o : exists v, st_pool (fst (xstep g st o)) = st_pool st ++ [v].
Proof.
  unfold xstep. destruct (xdecide (st_heap st) (st_pool st) o) as [p|e]; [|now exists HUndef].
  destruct (exec g (st_heap st) p) as [h' v]. now exists v.
Qed.

Lemma xstep_wf g st o : state_wf st -> state_wf (fst (xstep g st o)).
Proof.
  intros [Hc Hp]. unfold xstep. destruct (xdecide (st_heap st) (st_pool st) o) as [p|e] eqn:E.
  - destruct (exec_closed g p (st_heap st) Hc (xdecide_closed _ _ _ _ Hc Hp E)) as [Hc' [Hv' Hl]].
    destruct (exec g (st_heap st) p) as [h' v]. cbn [fst snd st_heap st_pool] in *.
    split; [assumption|]. apply Forall_app'; [|repeat constructor; assumption].
    rewrite Forall_forall in *. intros x Hx. eapply val_closed_mono; [exact Hl|auto].
  - cbn [fst st_heap st_pool]. split; [assumption|]. apply Forall_app'; [assumption|repeat constructor].
Qed.

Lemma xstep_out g st o :
  let st' := fst (xstep g st o) in
  match snd (xstep g st o) with
  | RVal p => exists v, st_pool st' = st_pool st ++ [v] /\ p = observe obs_fuel (st_heap st') v
  | RErr _ => st_pool st' = st_pool st ++ [HUndef]
  end.
Proof.
  unfold xstep. destruct (xdecide (st_heap st) (st_pool st) o) as [p|e]; [|reflexivity].
  destruct (exec g (st_heap st) p) as [h' v]. cbn. now exists v.
Qed.

Lemma xrun_cons g st o t :
  xrun g st (o :: t) = let '(st1, r) := xstep g st o in let '(st2, rs) := xrun g st1 t in (st2, r :: rs).
Proof. reflexivity. Qed.

Lemma xrun_wf g : forall ops st, state_wf st -> state_wf (fst (xrun g st ops)).
Proof.
  induction ops as [|o t IH]; intros st Hw; [assumption|]. rewrite xrun_cons.
  pose proof (xstep_wf g st o Hw) as H1. destruct (xstep g st o) as [st1 r]. cbn [fst] in H1.
  specialize (IH st1 H1). destruct (xrun g st1 t) as [st2 rs]. exact IH.
Qed.

Lemma xrun_prefix g : forall ops st, state_wf st -> prefix (st_heap st) (st_heap (fst (xrun g st ops))).
Proof.
  induction ops as [|o t IH]; intros st Hw; [apply prefix_refl|]. rewrite xrun_cons.
  pose proof (xstep_prefix g st o Hw) as H1. pose proof (xstep_wf g st o Hw) as Hw1.
  destruct (xstep g st o) as [st1 r]. cbn [fst] in H1, Hw1.
  specialize (IH st1 Hw1). destruct (xrun g st1 t) as [st2 rs]. cbn [fst] in *. eapply prefix_trans; eassumption.
Qed.

Lemma xrun_pool g : forall ops st, exists more, st_pool (fst (xrun g st ops)) = st_pool st ++ more /\ length more = length ops.
Proof.
  induction ops as [|o t IH]; intros st; [exists []; split; [now rewrite app_nil_r|reflexivity]|]. rewrite xrun_cons.
  destruct (xstep_pool g st o) as [v Hv]. destruct (xstep g st o) as [st1 r]. cbn [fst] in Hv.
  destruct (IH st1) as [more [Hm Hl]]. destruct (xrun g st1 t) as [st2 rs]. cbn [fst] in *.
  exists (v :: more). rewrite Hm, Hv, <- app_assoc. split; [reflexivity|cbn; lia].
Qed.

(* C08 for the extended histories: no history changes the deep observation (at any depth) of a value of the pool *)
Theorem xframe g ops st : state_wf st ->
  forall fuel x, In x (st_pool st) ->
    observe fuel (st_heap (fst (xrun g st ops))) x = observe fuel (st_heap st) x.
Proof.
  intros Hw fuel x Hx. pose proof Hw as [Hc Hp]. apply observe_local; [assumption|now apply xrun_prefix|].
  rewrite Forall_forall in Hp. now apply Hp.
Qed.

Lemma xrun_app g : forall ops1 ops2 st,
  xrun g st (ops1 ++ ops2) =
  let '(st1, r1) := xrun g st ops1 in let '(st2, r2) := xrun g st1 ops2 in (st2, r1 ++ r2).
Proof.
  induction ops1 as [|o t IH]; intros ops2 st.
  - cbn [app xrun]. destruct (xrun g st ops2); reflexivity.
  - cbn [app]. rewrite !xrun_cons. destruct (xstep g st o) as [st1 r]. rewrite IH.
    destruct (xrun g st1 t) as [st2 rs]. destruct (xrun g st2 ops2); reflexivity.
Qed.

Theorem xfinal_obs_stable g ops1 ops2 :
  firstn (length ops1) (final_obs (fst (xrun g empty_state (ops1 ++ ops2)))) =
  final_obs (fst (xrun g empty_state ops1)).
Proof.
  rewrite xrun_app.
  pose proof (xrun_wf g ops1 empty_state empty_wf) as Hw.
  destruct (xrun_pool g ops1 empty_state) as [m1 [Hm1 Hl1]].
  destruct (xrun g empty_state ops1) as [st1 r1]. cbn [fst] in *.
  pose proof (xframe g ops2 st1 Hw obs_fuel) as Hf.
  destruct (xrun_pool g ops2 st1) as [m2 [Hm2 Hl2]].
  destruct (xrun g st1 ops2) as [st2 r2]. cbn [fst] in *.
  unfold final_obs. rewrite Hm2, map_app.
  assert (Hlen : length ops1 = length (map (observe obs_fuel (st_heap st2)) (st_pool st1))).
  { rewrite map_length, Hm1. cbn. lia. }
  rewrite Hlen, firstn_app, Nat.sub_diag, firstn_all. cbn [firstn]. rewrite app_nil_r.
  apply map_ext_in. intros x Hx. now apply Hf.
Qed.

Theorem xresults_stable g : forall ops st, state_wf st ->
  Forall2 out_matches (snd (xrun g st ops))
          (skipn (length (st_pool st)) (final_obs (fst (xrun g st ops)))).
Proof.
  induction ops as [|o t IH]; intros st Hw.
  - cbn [xrun fst snd]. unfold final_obs. rewrite <- (map_length (observe obs_fuel (st_heap st))), skipn_all. constructor.
  - rewrite xrun_cons.
    pose proof (xstep_out g st o) as Ho. pose proof (xstep_wf g st o Hw) as Hw1.
    destruct (xstep g st o) as [st1 r]. cbn [fst snd] in *.
    specialize (IH st1 Hw1). pose proof (xframe g t st1 Hw1 obs_fuel) as Hf.
    destruct (xrun_pool g t st1) as [more [Hm Hl]].
    destruct (xrun g st1 t) as [st2 rs]. cbn [fst snd] in *.
    assert (Hv : exists v, st_pool st1 = st_pool st ++ [v] /\ out_matches r (observe obs_fuel (st_heap st2) v)).
    { destruct r as [p|e].
      - destruct Ho as [v [Hpp ->]]. exists v. split; [assumption|]. cbn. symmetry. apply Hf. rewrite Hpp. apply in_or_app; right; now left.
      - exists HUndef. split; [assumption|reflexivity]. }
    destruct Hv as [v [Hpp Hr]].
    unfold final_obs in *. rewrite Hm in *. rewrite skipn_map_app in IH.
    rewrite Hpp, <- app_assoc. cbn [app]. rewrite skipn_map_app. cbn [map].
    constructor; assumption.
Qed.

(* the base histories are the extended histories without the two routes *)
Lemma xrun_base g : forall ops st, xrun g st (map XBase ops) = hrun g st ops.
Proof.
  induction ops as [|o t IH]; intros st; [reflexivity|]. cbn [map]. rewrite xrun_cons, hrun_cons.
  change (xstep g st (XBase o)) with (hstep g st o). destruct (hstep g st o) as [st1 r]. now rewrite IH.
Qed.

(* ---------------------------------------------------------------------------------------------- *)
(* sensitivity: the model expresses the defect class of C08-m6 (a Put that assigns the value field of the entry
   object it finds: the object is shared with the root hash of the tree) *)
Local Transparent obs_fuel.
Example put_in_place_breaks_frame :
  let a := PStr [97%N] in let b := PStr [98%N] in
  let ops := [XBase (OLit (PHash [(a, PInt 1); (b, PInt 2)]));                     (* v0 = h *)
              XBase (OLit (PArr [PArr []])); XBase (OAdd 1 0);                      (* v2 = [[], h] *)
              XBase (OLit (PArr [PArr [PArr [a]; PInt 99]]));                       (* v3 = [[['a'], 99]] *)
              XBase (OLit (PArr [])); XBase (OAdd 4 2); XBase (OAddAll 5 3);        (* v6 = [[[], h], [['a'], 99]] *)
              XHashNew 6 false] in
  let st := fst (xrun grow_exact empty_state ops) in
  (* the code as it is: the result has the new value, h is what it was *)
  observe obs_fuel (st_heap st) (P (st_pool st) 7) = PHash [(a, PInt 99); (b, PInt 2)]%Z /\
  observe obs_fuel (st_heap st) (P (st_pool st) 0) = PHash [(a, PInt 1); (b, PInt 2)]%Z /\
  (* with the write through the shared entry object, h has changed *)
  match P (st_pool st) 0 with
  | HHash s => observe obs_fuel (put_in_place (st_heap st) s 0 (HInt 99)) (P (st_pool st) 0)
  | _ => PNil
  end = PHash [(a, PInt 99); (b, PInt 2)]%Z.
Proof. vm_compute. repeat split; reflexivity. Qed.
