(* ParserProofs.v — the parser model is total: on every well-formed token stream (as the lexer produces them) and for
   every oracle it answers within parse_fuel, never reaches a fault site, never reads beyond the end token, and a
   failure is a parse error located at the lexer's give-up position or at a token of the stream. *)
From Coq Require Import ZArith NArith Bool List Lia PeanoNat.
From PcoreV Require Import Model.Base Model.Lexer Model.Parser Proofs.LexerProofs Proofs.LexerColumns.
Import ListNotations.
Open Scope Z_scope.

Local Arguments rune_count : simpl never.
Local Arguments Z.sub : simpl never.
Local Arguments Z.add : simpl never.
Local Arguments Nat.mul : simpl never.

Lemma tkind_eqb_eq a b : tkind_eqb a b = true <-> a = b.
Proof. split; [destruct a, b; cbn; congruence|intros ->; destruct b; reflexivity]. Qed.

Lemma tkind_eqb_neq a b : tkind_eqb a b = false <-> a <> b.
Proof.
  split.
  - intros H E. apply tkind_eqb_eq in E. congruence.
  - intros H. destruct (tkind_eqb a b) eqn:E; auto. apply tkind_eqb_eq in E. contradiction.
Qed.

Definition dummy_tok : ptok := mkPtok TEnd [] 0 0.

Section Total.
  Variable pf : str -> option Z.
  Variable rx : str -> bool.
  (* P: where a parse error may be located *)
  Variable P : Z -> Z -> Prop.
  Hypothesis P10 : P 1 0.

  Definition Ptok (t : ptok) : Prop := P (pt_line t) (pt_col t - rune_count (pt_text t)).

  (* a result that is a value satisfying Q, or a parse error located in P — not a fault, not out of fuel *)
  Definition okres {A} (Q : A -> Prop) (r : pres A) : Prop :=
    match r with
    | POk a => Q a
    | PErr l c => P l c
    | PFault => False
    | POutOfFuel => False
    end.

  Lemma okres_bind {A B} (Q : A -> Prop) (R : B -> Prop) (r : pres A) (f : A -> pres B) :
    okres Q r -> (forall a, Q a -> okres R (f a)) -> okres R (pbind r f).
  Proof. destruct r; cbn; auto; contradiction. Qed.

  Lemma okres_weaken {A} (Q R : A -> Prop) (r : pres A) :
    okres Q r -> (forall a, Q a -> R a) -> okres R r.
  Proof. destruct r; cbn; auto. Qed.

  Fixpoint count_vals (c : list (list pv)) : nat :=
    match c with
    | [] => 0%nat
    | fr :: rest => (length fr + count_vals rest)%nat
    end.

  (* the state invariant *)
  Definition SI (st : pstate) : Prop :=
    ps_coll st <> [] /\
    (count_vals (ps_coll st) + length (ps_coll st) <= S (ps_nvals st))%nat /\
    Forall Ptok (ps_toks st) /\
    match ps_end st with ELexErr l c => P l c | EEnd => True | _ => False end /\
    match ps_lt st with Some t => Ptok t | None => True end.

  (* the parser may read on: there is a token left, the last of which is the end token, or the lexer's error *)
  Definition live (st : pstate) : Prop :=
    match ps_end st with
    | EEnd => ps_toks st <> [] /\ pt_kind (last (ps_toks st) dummy_tok) = TEnd
    | _ => True
    end.

  Definition same_stream (st st' : pstate) : Prop :=
    ps_toks st' = ps_toks st /\ ps_end st' = ps_end st /\ ps_v st' = ps_v st.

  Lemma same_stream_live st st' : same_stream st st' -> live st -> live st'.
  Proof. intros (H1 & H2 & _). unfold live. rewrite H1, H2. auto. Qed.

  Lemma same_stream_trans a b c : same_stream a b -> same_stream b c -> same_stream a c.
  Proof. unfold same_stream. intuition congruence. Qed.

  Lemma perr_ok {A} (Q : A -> Prop) st : SI st -> okres Q (perr st).
  Proof.
    intros (_ & _ & _ & _ & Hlt). unfold perr, location.
    destruct (ps_lt st); cbn; auto.
  Qed.

  (* ---- nextToken ---- *)
  Lemma p_next_spec st : SI st -> live st ->
    okres (fun r => let '(t, st') := r in
             SI st' /\ ps_toks st = t :: ps_toks st' /\ ps_coll st' = ps_coll st /\ ps_v st' = ps_v st /\
             (pt_kind t <> TEnd -> live st')) (p_next st).
  Proof.
    intros (Hc & Hn & Ht & He & Hlt) Hl. unfold p_next.
    destruct (ps_toks st) as [|t ts] eqn:Et.
    - unfold live in Hl. rewrite Et in Hl. destruct (ps_end st); cbn; auto; try contradiction.
      destruct Hl; congruence.
    - cbn. inversion Ht; subst. repeat split; auto.
      unfold live in *. cbn. rewrite Et in Hl.
      destruct (ps_end st); auto. destruct Hl as [_ Hlast]. intros Hk.
      destruct ts as [|t2 ts2]; [cbn in Hlast; contradiction|].
      split; [discriminate|]. exact Hlast.
  Qed.

  (* ---- the collector ---- *)
  Lemma c_add_spec v st : SI st ->
    okres (fun st' => SI st' /\ same_stream st st' /\
             exists fr rest, ps_coll st = fr :: rest /\ ps_coll st' = (v :: fr) :: rest) (c_add v st).
  Proof.
    intros (Hc & Hn & Ht & He & Hlt). unfold c_add.
    destruct (ps_coll st) as [|fr rest] eqn:Ec; [contradiction|].
    cbn. repeat split; auto; try discriminate.
    - cbn in *. lia.
    - eauto.
  Qed.

  Lemma c_pop_spec st : SI st ->
    okres (fun r => let '(v, st') := r in
             SI st' /\ same_stream st st' /\
             ((exists fr rest, ps_coll st = (v :: fr) :: rest /\ ps_coll st' = fr :: rest) \/
              (v = PNil /\ st' = st /\ exists rest, ps_coll st = [] :: rest))) (c_pop st).
  Proof.
    intros (Hc & Hn & Ht & He & Hlt). unfold c_pop.
    destruct (ps_coll st) as [|fr rest] eqn:Ec; [contradiction|].
    destruct fr as [|v fr].
    - cbn. repeat split; auto; try congruence. right. repeat split; eauto.
    - destruct (ps_nvals st) as [|k] eqn:Ek; [cbn in Hn; lia|].
      cbn. repeat split; auto; try discriminate.
      + cbn in *. lia.
      + left. eauto.
  Qed.

  Lemma c_begin_spec st : SI st ->
    okres (fun st' => SI st' /\ same_stream st st' /\ ps_coll st' = [] :: ps_coll st) (c_begin st).
  Proof.
    intros (Hc & Hn & Ht & He & Hlt). unfold c_begin.
    destruct (ps_coll st) as [|fr rest] eqn:Ec; [contradiction|].
    cbn. repeat split; auto; try discriminate. cbn in *. lia.
  Qed.

  Lemma c_end_array_spec st fr parent rest : SI st -> ps_coll st = fr :: parent :: rest ->
    okres (fun st' => SI st' /\ same_stream st st' /\ ps_coll st' = (PArr (rev fr) :: parent) :: rest)
          (c_end_array st).
  Proof.
    intros (Hc & Hn & Ht & He & Hlt) Ec. unfold c_end_array. rewrite Ec.
    cbn. repeat split; auto; try discriminate. rewrite Ec in Hn. cbn in *. lia.
  Qed.

  Lemma hash_entries_even : forall k l, length l = (2 * k)%nat -> hash_entries l <> HEFault.
  Proof.
    induction k as [|k IH]; intros l Hl.
    - destruct l; [cbn; discriminate|cbn in Hl; lia].
    - destruct l as [|a [|b t]]; cbn [length] in Hl; try lia.
      cbn [hash_entries]. destruct (wrap_entry_ok a b); [|discriminate].
      specialize (IH t ltac:(lia)). destruct (hash_entries t); congruence.
  Qed.

  Lemma c_end_hash_spec st fr parent rest : SI st -> ps_coll st = fr :: parent :: rest ->
    Nat.even (length fr) = true ->
    okres (fun st' => SI st' /\ same_stream st st' /\ exists es, ps_coll st' = (PHash es :: parent) :: rest)
          (c_end_hash st).
  Proof.
    intros HSI Ec Hev. unfold c_end_hash. rewrite Ec.
    apply Nat.even_spec in Hev. destruct Hev as [k Hk].
    pose proof (hash_entries_even k (rev fr) ltac:(rewrite rev_length; exact Hk)) as Hne.
    destruct (hash_entries (rev fr)) as [es| |]; [|apply perr_ok; auto|congruence].
    destruct HSI as (Hc & Hn & Ht & He & Hlt).
    cbn. repeat split; auto; try discriminate; eauto. rewrite Ec in Hn. cbn in *. lia.
  Qed.

  (* ---- the recursive descent ---- *)

  Definition toklen (st : pstate) : nat := length (ps_toks st).

  Definition pushed (st st' : pstate) : Prop :=
    exists v fr rest, ps_coll st = fr :: rest /\ ps_coll st' = (v :: fr) :: rest.

  Definition post_elem (st : pstate) (t : ptok) (r : option ptok * pstate) : Prop :=
    let '(tk, st') := r in
    match tk with
    | Some tk => tk = t /\ st' = st
    | None =>
      SI st' /\ live st' /\ (toklen st' <= toklen st)%nat /\
      ((ps_v st' = None /\ pushed st st') \/ ((exists nm, ps_v st' = Some nm) /\ ps_coll st' = ps_coll st))
    end.

  Definition post_hta (st : pstate) (r : ptok * pstate) : Prop :=
    let '(tk, st') := r in
    SI st' /\ (pt_kind tk <> TEnd -> live st') /\ ps_v st' = None /\ (toklen st' < toklen st)%nat /\
    match ps_v st with None => ps_coll st' = ps_coll st | Some _ => pushed st st' end.

  Definition post_array (st st' : pstate) : Prop :=
    SI st' /\ live st' /\ ps_v st' = None /\ (toklen st' <= toklen st)%nat /\
    exists l fr rest, ps_coll st = fr :: rest /\ ps_coll st' = (PArr l :: fr) :: rest.

  Definition post_hash (st st' : pstate) : Prop :=
    SI st' /\ live st' /\ ps_v st' = None /\ (toklen st' <= toklen st)%nat /\
    exists es fr rest, ps_coll st = fr :: rest /\ ps_coll st' = (PHash es :: fr) :: rest.

  Definition post_aloop (st : pstate) (r : pstate * bool) : Prop :=
    let '(st', _) := r in
    SI st' /\ live st' /\ ps_v st' = None /\ (toklen st' <= toklen st)%nat /\
    exists fr', ps_coll st' = fr' :: tl (ps_coll st).

  Definition post_hloop (st st' : pstate) : Prop :=
    SI st' /\ live st' /\ ps_v st' = None /\ (toklen st' <= toklen st)%nat /\
    exists fr', ps_coll st' = fr' :: tl (ps_coll st) /\ Nat.even (length fr') = true.

  Definition spec_elem (n : nat) : Prop :=
    forall st t, SI st -> (pt_kind t <> TEnd -> live st) -> ps_v st = None ->
      (3 * toklen st + 3 <= n)%nat -> okres (post_elem st t) (element pf rx n st t).
  Definition spec_hash (n : nat) : Prop :=
    forall st, SI st -> live st -> ps_v st = None ->
      (3 * toklen st + 2 <= n)%nat -> okres (post_hash st) (hash pf rx n st).
  Definition spec_hloop (n : nat) : Prop :=
    forall st, SI st -> live st -> ps_v st = None ->
      (exists fr rest, ps_coll st = fr :: rest /\ Nat.even (length fr) = true) ->
      (3 * toklen st + 1 <= n)%nat -> okres (post_hloop st) (hash_loop pf rx n st).
  Definition spec_array (n : nat) : Prop :=
    forall close st, close <> TEnd -> SI st -> live st -> ps_v st = None ->
      (3 * toklen st + 2 <= n)%nat -> okres (post_array st) (array pf rx n close st).
  Definition spec_aloop (n : nat) : Prop :=
    forall close st rl ah, close <> TEnd -> SI st -> live st -> ps_v st = None ->
      (3 * toklen st + 1 <= n)%nat -> okres (post_aloop st) (array_loop pf rx n close st rl ah).
  Definition spec_hta (n : nat) : Prop :=
    forall st, SI st -> live st ->
      (3 * toklen st + 1 <= n)%nat -> okres (post_hta st) (handle_type_args pf rx n st).

  Definition spec_all (n : nat) : Prop :=
    spec_elem n /\ spec_hash n /\ spec_hloop n /\ spec_array n /\ spec_aloop n /\ spec_hta n.

  Lemma is_kind_true t k : is_kind t k = true -> pt_kind t = k.
  Proof. unfold is_kind. apply tkind_eqb_eq. Qed.
  Lemma is_kind_false t k : is_kind t k = false -> pt_kind t <> k.
  Proof. unfold is_kind. apply tkind_eqb_neq. Qed.

  (* adding one value: the shape element promises *)
  Lemma add_value_elem st t v :
    SI st -> live st -> ps_v st = None ->
    okres (post_elem st t) (pbind (c_add v st) (fun s => POk (None, s))).
  Proof.
    intros HSI Hl Hv. eapply okres_bind; [apply c_add_spec; auto|].
    intros st' (HSI' & Hss & fr & rest & E1 & E2). cbn.
    split; [exact HSI'|]. split; [eapply same_stream_live; eauto|].
    split; [destruct Hss as (Ht & _); unfold toklen; rewrite Ht; lia|].
    left. split; [destruct Hss as (_ & _ & Hv'); congruence|]. exists v, fr, rest. auto.
  Qed.

  Lemma SI_set_v st v : SI st -> SI (set_v st v).
  Proof. unfold SI. cbn. auto. Qed.
  Lemma live_set_v st v : live st -> live (set_v st v).
  Proof. unfold live. cbn. auto. Qed.

  Lemma spec_all_0 : spec_all 0.
  Proof. repeat split; red; intros; lia. Qed.

  Lemma step_elem n : spec_all n -> spec_elem (S n).
  Proof.
    intros (IHe & IHh & IHhl & IHa & IHal & IHt) st t HSI Hlive Hv Hfuel.
    cbn [element].
    destruct (pt_kind t) eqn:Ek;
      try (cbn; split; reflexivity);
      try (assert (Hl : live st) by (apply Hlive; discriminate)).
    - (* name *)
      cbn. split; [apply SI_set_v; auto|]. split; [apply live_set_v; auto|].
      split; [unfold toklen; cbn; lia|]. right. split; [eexists; reflexivity|reflexivity].
    - (* identifier *) apply add_value_elem; auto.
    - (* integer *) destruct (parse_int (pt_text t)); [apply add_value_elem; auto|apply perr_ok; auto].
    - (* float *) destruct (pf (pt_text t)); [apply add_value_elem; auto|apply perr_ok; auto].
    - (* regexp *) destruct (rx (pt_text t)); [apply add_value_elem; auto|apply perr_ok; auto].
    - (* string *) apply add_value_elem; auto.
    - (* [ *)
      eapply okres_bind; [apply IHa; auto; [discriminate|lia]|].
      intros s (HSI' & Hl' & Hv' & Hlen & l & fr & rest & E1 & E2). cbn.
      split; [exact HSI'|]. split; [exact Hl'|]. split; [exact Hlen|].
      left. split; [exact Hv'|]. exists (PArr l), fr, rest. auto.
    - (* { *)
      eapply okres_bind; [apply IHh; auto; lia|].
      intros s (HSI' & Hl' & Hv' & Hlen & es & fr & rest & E1 & E2). cbn.
      split; [exact HSI'|]. split; [exact Hl'|]. split; [exact Hlen|].
      left. split; [exact Hv'|]. exists (PHash es), fr, rest. auto.
    - (* ( *)
      eapply okres_bind; [apply IHa; auto; [discriminate|lia]|].
      intros s (HSI' & Hl' & Hv' & Hlen & l & fr & rest & E1 & E2). cbn.
      split; [exact HSI'|]. split; [exact Hl'|]. split; [exact Hlen|].
      left. split; [exact Hv'|]. exists (PArr l), fr, rest. auto.
  Qed.

  Lemma SI_coll_cons st : SI st -> exists fr rest, ps_coll st = fr :: rest.
  Proof. intros (Hc & _). destruct (ps_coll st); [contradiction|eauto]. Qed.

  (* element followed by handleTypeArgs pushes exactly one value *)
  Lemma combine_pushed st1 st2 st3 :
    ((ps_v st2 = None /\ pushed st1 st2) \/ ((exists nm, ps_v st2 = Some nm) /\ ps_coll st2 = ps_coll st1)) ->
    match ps_v st2 with None => ps_coll st3 = ps_coll st2 | Some _ => pushed st2 st3 end ->
    pushed st1 st3.
  Proof.
    intros [[Hv (v & fr & rest & E1 & E2)]|[[nm Hv] Ec]] H; rewrite Hv in H.
    - exists v, fr, rest. split; congruence.
    - destruct H as (v & fr & rest & E1 & E2). exists v, fr, rest. split; congruence.
  Qed.

  Lemma step_hash n : spec_all n -> spec_hash (S n).
  Proof.
    intros (IHe & IHh & IHhl & IHa & IHal & IHt) st HSI Hlive Hv Hfuel.
    cbn [hash].
    destruct (SI_coll_cons _ HSI) as (parent & rest & Ec).
    eapply okres_bind; [apply c_begin_spec; auto|].
    intros st1 (HSI1 & Hss1 & Ec1). cbv beta.
    assert (Hl1 : live st1) by (eapply same_stream_live; eauto).
    destruct Hss1 as (Ht1 & He1 & Hv1).
    eapply okres_bind.
    { apply IHhl; auto; [congruence| |unfold toklen in *; rewrite Ht1; lia].
      exists [], (ps_coll st). split; auto. }
    intros st2 (HSI2 & Hl2 & Hv2 & Hlen2 & fr' & Ec2 & Hev). cbv beta.
    rewrite Ec1 in Ec2. cbn [tl] in Ec2. rewrite Ec in Ec2.
    eapply okres_weaken; [eapply c_end_hash_spec; eauto|].
    intros st3 (HSI3 & Hss3 & es & Ec3).
    split; [exact HSI3|]. split; [eapply same_stream_live; eauto|].
    destruct Hss3 as (Ht3 & He3 & Hv3).
    split; [congruence|]. split; [unfold toklen in *; rewrite Ht3; rewrite Ht1 in Hlen2; lia|].
    exists es, parent, rest. auto.
  Qed.

  Lemma step_hloop n : spec_all n -> spec_hloop (S n).
  Proof.
    intros (IHe & IHh & IHhl & IHa & IHal & IHt) st HSI Hlive Hv (fr0 & rest0 & Ec0 & Hev0) Hfuel.
    cbn [hash_loop].
    eapply okres_bind; [apply p_next_spec; auto|].
    intros [t st1] (HSI1 & Et & Ec1 & Hv1 & Hl1). cbv beta iota.
    assert (Hlen1 : toklen st = S (toklen st1)) by (unfold toklen; rewrite Et; reflexivity).
    eapply okres_bind; [apply IHe; auto; [congruence|lia]|].
    intros [tk st2] Hpe. cbv beta iota. destruct tk as [tk|].
    { destruct Hpe as [-> ->]. destruct (is_kind t TRBrace) eqn:Ek; [|apply perr_ok; auto].
      apply is_kind_true in Ek. cbn.
      split; [exact HSI1|]. split; [apply Hl1; congruence|]. split; [congruence|]. split; [lia|].
      exists fr0. rewrite Ec1, Ec0. auto. }
    destruct Hpe as (HSI2 & Hl2 & Hlen2 & Hcase).
    eapply okres_bind; [apply IHt; auto; lia|].
    intros [tk st3] (HSI3 & Hl3 & Hv3 & Hlen3 & Hc3). cbv beta iota.
    pose proof (combine_pushed _ _ _ Hcase Hc3) as Hp13.
    destruct (is_kind tk TRocket) eqn:Ek; cbn [negb]; [|apply perr_ok; auto].
    apply is_kind_true in Ek.
    assert (Hl3' : live st3) by (apply Hl3; congruence).
    eapply okres_bind; [apply p_next_spec; auto|].
    intros [t2 st4] (HSI4 & Et4 & Ec4 & Hv4 & Hl4). cbv beta iota.
    assert (Hlen4 : toklen st3 = S (toklen st4)) by (unfold toklen; rewrite Et4; reflexivity).
    eapply okres_bind; [apply IHe; auto; [congruence|lia]|].
    intros [tk2 st5] Hpe2. cbv beta iota. destruct tk2 as [tk2|].
    { destruct Hpe2 as [-> ->]. apply perr_ok; auto. }
    destruct Hpe2 as (HSI5 & Hl5 & Hlen5 & Hcase5).
    eapply okres_bind; [apply IHt; auto; lia|].
    intros [tk3 st6] (HSI6 & Hl6 & Hv6 & Hlen6 & Hc6). cbv beta iota.
    pose proof (combine_pushed _ _ _ Hcase5 Hc6) as Hp46.
    (* the frame after key and value *)
    assert (Hfr6 : exists v1 v2, ps_coll st6 = (v2 :: v1 :: fr0) :: rest0).
    { destruct Hp13 as (v1 & f1 & r1 & E1 & E2). destruct Hp46 as (v2 & f2 & r2 & E3 & E4).
      rewrite Ec1, Ec0 in E1. inversion E1; subst f1 r1.
      rewrite Ec4, E2 in E3. inversion E3; subst f2 r2. eauto. }
    destruct Hfr6 as (v1 & v2 & Ec6).
    destruct (is_kind tk3 TRBrace) eqn:Ek3.
    { apply is_kind_true in Ek3. cbn.
      split; [exact HSI6|]. split; [apply Hl6; congruence|]. split; [exact Hv6|]. split; [lia|].
      exists (v2 :: v1 :: fr0). rewrite Ec6, Ec0. split; auto. }
    destruct (is_kind tk3 TComma) eqn:Ek4; [|apply perr_ok; auto].
    apply is_kind_true in Ek4.
    eapply okres_weaken.
    { apply IHhl; auto; [apply Hl6; congruence| |lia]. exists (v2 :: v1 :: fr0), rest0. split; auto. }
    intros st7 (HSI7 & Hl7 & Hv7 & Hlen7 & fr7 & Ec7 & Hev7).
    split; [exact HSI7|]. split; [exact Hl7|]. split; [exact Hv7|]. split; [lia|].
    exists fr7. rewrite Ec7, Ec6, Ec0. auto.
  Qed.

  Lemma step_array n : spec_all n -> spec_array (S n).
  Proof.
    intros (IHe & IHh & IHhl & IHa & IHal & IHt) close st Hclose HSI Hlive Hv Hfuel.
    cbn [array].
    destruct (SI_coll_cons _ HSI) as (parent & rest & Ec).
    eapply okres_bind; [apply c_begin_spec; auto|].
    intros st1 (HSI1 & Hss1 & Ec1). cbv beta.
    assert (Hl1 : live st1) by (eapply same_stream_live; eauto).
    destruct Hss1 as (Ht1 & He1 & Hv1).
    eapply okres_bind.
    { apply IHal; auto; [congruence|unfold toklen in *; rewrite Ht1; lia]. }
    intros [st2 ah] (HSI2 & Hl2 & Hv2 & Hlen2 & fr' & Ec2). cbv beta iota.
    rewrite Ec1 in Ec2. cbn [tl] in Ec2. rewrite Ec in Ec2.
    eapply okres_bind; [eapply c_end_array_spec; eauto|].
    intros st3 (HSI3 & Hss3 & Ec3). cbv beta.
    assert (Hl3 : live st3) by (eapply same_stream_live; eauto).
    destruct Hss3 as (Ht3 & He3 & Hv3).
    assert (Hlen3 : (toklen st3 <= toklen st)%nat) by (unfold toklen in *; rewrite Ht3; rewrite Ht1 in Hlen2; lia).
    destruct ah.
    - eapply okres_bind; [apply c_pop_spec; auto|].
      intros [v st4] (HSI4 & Hss4 & Hpop). cbv beta iota.
      destruct Hpop as [(f4 & r4 & E1 & E2)|(_ & _ & r4 & E1)]; [|rewrite Ec3 in E1; discriminate].
      rewrite Ec3 in E1. inversion E1; subst v f4 r4.
      eapply okres_weaken; [apply c_add_spec; auto|].
      intros st5 (HSI5 & Hss5 & f5 & r5 & E3 & E4).
      rewrite E2 in E3. inversion E3; subst f5 r5.
      pose proof (same_stream_trans _ _ _ Hss4 Hss5) as Hss35.
      split; [exact HSI5|]. split; [eapply same_stream_live; eauto|].
      destruct Hss35 as (Ht5 & He5 & Hv5).
      split; [congruence|]. split; [unfold toklen in *; rewrite Ht5; exact Hlen3|].
      eexists _, parent, rest. split; [exact Ec|exact E4].
    - cbn. split; [exact HSI3|]. split; [exact Hl3|]. split; [congruence|]. split; [exact Hlen3|].
      eexists _, parent, rest. split; [exact Ec|exact Ec3].
  Qed.

  (* the hash entry block of the array loop, parser.go:207-212 *)
  Lemma rock_block st3 rl ah :
    SI st3 ->
    okres (fun r => let '(st4, _) := r in
             SI st4 /\ same_stream st3 st4 /\ exists fr', ps_coll st4 = fr' :: tl (ps_coll st3))
          (if is_nil rl then POk (st3, ah)
           else pbind (c_pop st3) (fun pat => let '(v, s) := pat in
                  if wrap_entry_ok rl v then pbind (c_add (PEntry rl v) s) (fun s' => POk (s', true))
                  else perr s)).
  Proof.
    intros HSI. destruct (is_nil rl).
    - cbn. split; [exact HSI|]. split; [repeat split|].
      destruct (SI_coll_cons _ HSI) as (fr & rest & Ec). rewrite Ec. eauto.
    - eapply okres_bind; [apply c_pop_spec; auto|].
      intros [v s] (HSIs & Hss & Hpop). cbv beta iota.
      destruct (wrap_entry_ok rl v); [|apply perr_ok; auto].
      eapply okres_bind; [apply c_add_spec; auto|].
      intros s' (HSI' & Hss' & f5 & r5 & E3 & E4). cbn.
      split; [exact HSI'|]. split; [eapply same_stream_trans; eauto|].
      destruct Hpop as [(f4 & r4 & E1 & E2)|(_ & -> & r4 & E1)].
      + rewrite E2 in E3. inversion E3; subst f5 r5. rewrite E1, E4. cbn. eauto.
      + rewrite E1 in E3. inversion E3; subst f5 r5. rewrite E1, E4. cbn. eauto.
  Qed.

  Lemma step_aloop n : spec_all n -> spec_aloop (S n).
  Proof.
    intros (IHe & IHh & IHhl & IHa & IHal & IHt) close st rl ah Hclose HSI Hlive Hv Hfuel.
    cbn [array_loop].
    eapply okres_bind; [apply p_next_spec; auto|].
    intros [t st1] (HSI1 & Et & Ec1 & Hv1 & Hl1). cbv beta iota.
    assert (Hlen1 : toklen st = S (toklen st1)) by (unfold toklen; rewrite Et; reflexivity).
    eapply okres_bind; [apply IHe; auto; [congruence|lia]|].
    intros [tk st2] Hpe. cbv beta iota. destruct tk as [tk|].
    { destruct Hpe as [-> ->]. destruct (is_kind t close) eqn:Ek; [|apply perr_ok; auto].
      apply is_kind_true in Ek. cbn.
      split; [exact HSI1|]. split; [apply Hl1; congruence|]. split; [congruence|]. split; [lia|].
      destruct (SI_coll_cons _ HSI) as (fr & rest & Ec). rewrite Ec1, Ec. cbn. eauto. }
    destruct Hpe as (HSI2 & Hl2 & Hlen2 & Hcase).
    eapply okres_bind; [apply IHt; auto; lia|].
    intros [tk st3] (HSI3 & Hl3 & Hv3 & Hlen3 & Hc3). cbv beta iota.
    pose proof (combine_pushed _ _ _ Hcase Hc3) as Hp13.
    assert (Htl3 : tl (ps_coll st3) = tl (ps_coll st)).
    { destruct Hp13 as (v1 & f1 & r1 & E1 & E2). rewrite E2. rewrite Ec1 in E1. rewrite E1. reflexivity. }
    eapply okres_bind; [apply rock_block; auto|].
    intros [st4 ah'] (HSI4 & Hss4 & fr4 & Ec4). cbv beta iota.
    destruct Hss4 as (Ht4 & He4 & Hv4).
    assert (Hl4 : pt_kind tk <> TEnd -> live st4).
    { intros Hk. eapply same_stream_live; [|apply Hl3; auto]. repeat split; auto. }
    assert (Hlen4 : toklen st4 = toklen st3) by (unfold toklen; rewrite Ht4; reflexivity).
    destruct (is_kind tk close) eqn:Ek.
    { apply is_kind_true in Ek. cbn.
      split; [exact HSI4|]. split; [apply Hl4; congruence|]. split; [congruence|]. split; [lia|].
      exists fr4. rewrite Ec4. congruence. }
    destruct (is_kind tk TComma) eqn:Ek2.
    { apply is_kind_true in Ek2.
      eapply okres_weaken; [apply IHal; auto; [apply Hl4; congruence|congruence|lia]|].
      intros [st5 ah5] (HSI5 & Hl5 & Hv5 & Hlen5 & fr5 & Ec5).
      split; [exact HSI5|]. split; [exact Hl5|]. split; [exact Hv5|]. split; [lia|].
      exists fr5. rewrite Ec5, Ec4. cbn. congruence. }
    destruct (is_kind tk TRocket) eqn:Ek3; [|apply perr_ok; auto].
    apply is_kind_true in Ek3.
    eapply okres_bind; [apply c_pop_spec; auto|].
    intros [v st5] (HSI5 & Hss5 & Hpop). cbv beta iota.
    assert (Hl5 : live st5).
    { eapply same_stream_live; eauto. apply Hl4. congruence. }
    destruct Hss5 as (Ht5 & He5 & Hv5).
    assert (Htl5 : tl (ps_coll st5) = tl (ps_coll st4)).
    { destruct Hpop as [(f5 & r5 & E1 & E2)|(_ & -> & _)]; [rewrite E1, E2|]; reflexivity. }
    eapply okres_weaken; [apply IHal; auto; [congruence|unfold toklen in *; rewrite Ht5; lia]|].
    intros [st6 ah6] (HSI6 & Hl6 & Hv6 & Hlen6 & fr6 & Ec6).
    split; [exact HSI6|]. split; [exact Hl6|]. split; [exact Hv6|].
    split; [unfold toklen in *; rewrite Ht5 in Hlen6; lia|].
    exists fr6. rewrite Ec6, Htl5, Ec4. cbn. congruence.
  Qed.

  (* after the argument list of a type name has been replaced by the value made of it: read the next token *)
  Lemma hta_finish st st4 fr rest (v : pv) :
    ps_coll st = fr :: rest -> (exists nm, ps_v st = Some nm) ->
    SI st4 -> live st4 -> ps_v st4 = None -> (toklen st4 < toklen st)%nat -> ps_coll st4 = fr :: rest ->
    okres (post_hta st) (pbind (c_add v st4) (fun st5 => p_next st5)).
  Proof.
    intros Ec (nm & Hv) HSI4 Hl4 Hv4 Hlen4 Ec4.
    eapply okres_bind; [apply c_add_spec; auto|].
    intros st5 (HSI5 & Hss5 & f5 & r5 & E1 & E2). cbv beta.
    rewrite Ec4 in E1. inversion E1; subst f5 r5.
    assert (Hl5 : live st5) by (eapply same_stream_live; eauto).
    destruct Hss5 as (Ht5 & He5 & Hv5).
    eapply okres_weaken; [apply p_next_spec; auto|].
    intros [tk st6] (HSI6 & Et6 & Ec6 & Hv6 & Hl6).
    split; [exact HSI6|]. split; [exact Hl6|]. split; [congruence|].
    split; [unfold toklen in *; rewrite Et6 in Ht5; rewrite <- Ht5 in Hlen4; cbn [length] in Hlen4; lia|].
    rewrite Hv. exists v, fr, rest. split; [exact Ec|congruence].
  Qed.

  Lemma step_hta n : spec_all n -> spec_hta (S n).
  Proof.
    intros (IHe & IHh & IHhl & IHa & IHal & IHt) st HSI Hlive Hfuel.
    cbn [handle_type_args].
    eapply okres_bind; [apply p_next_spec; auto|].
    intros [tk st1] (HSI1 & Et & Ec1 & Hv1 & Hl1). cbv beta iota.
    assert (Hlen1 : toklen st = S (toklen st1)) by (unfold toklen; rewrite Et; reflexivity).
    destruct (ps_v st1) as [tn|] eqn:Ev1.
    2: { cbn. split; [exact HSI1|]. split; [exact Hl1|]. split; [exact Ev1|]. split; [lia|].
         rewrite <- Hv1. exact Ec1. }
    destruct (SI_coll_cons _ HSI) as (fr & rest & Ec).
    assert (Hsome : exists nm, ps_v st = Some nm) by (exists tn; congruence).
    pose proof (SI_set_v st1 None HSI1) as HSI2.
    assert (Hlen2 : toklen (set_v st1 None) = toklen st1) by reflexivity.
    assert (Ec2 : ps_coll (set_v st1 None) = fr :: rest) by (cbn; congruence).
    assert (Hdefault : okres (post_hta st)
              (pbind (c_add (PType tn None) (set_v st1 None)) (fun st3 => POk (tk, st3)))).
    { eapply okres_bind; [apply c_add_spec; auto|].
      intros st3 (HSI3 & Hss3 & f3 & r3 & E1 & E2). cbn.
      rewrite Ec2 in E1. inversion E1; subst f3 r3.
      split; [exact HSI3|].
      split; [intros Hk; eapply same_stream_live; [exact Hss3|apply live_set_v; auto]|].
      destruct Hss3 as (Ht3 & He3 & Hv3).
      split; [rewrite Hv3; reflexivity|].
      split; [unfold toklen in *; rewrite Ht3; cbn; lia|].
      destruct Hsome as (nm & ->). exists (PType tn None), fr, rest. auto. }
    destruct (pt_kind tk) eqn:Ek; try exact Hdefault;
      (assert (Hl2 : live (set_v st1 None)) by (apply live_set_v; apply Hl1; discriminate)).
    - (* [ *)
      eapply okres_bind; [apply IHa; auto; [discriminate|lia]|].
      intros st3 (HSI3 & Hl3 & Hv3 & Hlen3 & l & f3 & r3 & E1 & E2). cbv beta.
      rewrite Ec2 in E1. inversion E1; subst f3 r3.
      eapply okres_bind; [apply c_pop_spec; auto|].
      intros [v st4] (HSI4 & Hss4 & Hpop). cbv beta iota.
      destruct Hpop as [(f4 & r4 & E3 & E4)|(_ & _ & r4 & E3)]; [|rewrite E2 in E3; discriminate].
      rewrite E2 in E3. inversion E3; subst v f4 r4.
      assert (Hl4 : live st4) by (eapply same_stream_live; eauto).
      destruct Hss4 as (Ht4 & He4 & Hv4).
      destruct l as [|x l]; [apply perr_ok; auto|].
      eapply hta_finish; eauto; [congruence|unfold toklen in *; rewrite Ht4; lia].
    - (* { *)
      eapply okres_bind; [apply IHh; auto; lia|].
      intros st3 (HSI3 & Hl3 & Hv3 & Hlen3 & es & f3 & r3 & E1 & E2). cbv beta.
      rewrite Ec2 in E1. inversion E1; subst f3 r3.
      eapply okres_bind; [apply c_pop_spec; auto|].
      intros [v st4] (HSI4 & Hss4 & Hpop). cbv beta iota.
      destruct Hpop as [(f4 & r4 & E3 & E4)|(_ & _ & r4 & E3)]; [|rewrite E2 in E3; discriminate].
      rewrite E2 in E3. inversion E3; subst v f4 r4.
      assert (Hl4 : live st4) by (eapply same_stream_live; eauto).
      destruct Hss4 as (Ht4 & He4 & Hv4).
      eapply hta_finish; eauto; [congruence|unfold toklen in *; rewrite Ht4; lia].
    - (* ( *)
      eapply okres_bind; [apply IHa; auto; [discriminate|lia]|].
      intros st3 (HSI3 & Hl3 & Hv3 & Hlen3 & l & f3 & r3 & E1 & E2). cbv beta.
      rewrite Ec2 in E1. inversion E1; subst f3 r3.
      eapply okres_bind; [apply c_pop_spec; auto|].
      intros [v st4] (HSI4 & Hss4 & Hpop). cbv beta iota.
      destruct Hpop as [(f4 & r4 & E3 & E4)|(_ & _ & r4 & E3)]; [|rewrite E2 in E3; discriminate].
      rewrite E2 in E3. inversion E3; subst v f4 r4.
      assert (Hl4 : live st4) by (eapply same_stream_live; eauto).
      destruct Hss4 as (Ht4 & He4 & Hv4).
      assert (Hlen4 : (toklen st4 < toklen st)%nat) by (unfold toklen in *; rewrite Ht4; lia).
      assert (Hv4' : ps_v st4 = None) by congruence.
      destruct (negb (str_eqb tn s_Deferred)).
      + eapply hta_finish; eauto.
      + destruct l as [|x l]; [apply perr_ok; auto|].
        destruct x; try (apply perr_ok; auto).
        eapply hta_finish; eauto.
  Qed.

  Lemma spec_all_n : forall n, spec_all n.
  Proof.
    induction n as [|n IH]; [apply spec_all_0|].
    repeat split.
    - apply step_elem; auto.
    - apply step_hash; auto.
    - apply step_hloop; auto.
    - apply step_array; auto.
    - apply step_aloop; auto.
    - apply step_hta; auto.
  Qed.

  Definition post_parse (st st' : pstate) : Prop := SI st' /\ pushed st st'.

  Lemma parse_spec n st t :
    SI st -> (pt_kind t <> TEnd -> live st) -> ps_v st = None -> (3 * toklen st + 3 <= n)%nat ->
    okres (post_parse st) (parse pf rx n st t).
  Proof.
    intros HSI Hlive Hv Hfuel.
    destruct (spec_all_n n) as (IHe & IHh & IHhl & IHa & IHal & IHt).
    unfold parse.
    eapply okres_bind; [apply IHe; auto|].
    intros [tk st1] Hpe. cbv beta iota. destruct tk as [tk|].
    { destruct Hpe as [-> ->]. destruct (negb (is_kind t TEnd)); [apply perr_ok; auto|].
      eapply okres_weaken; [apply c_add_spec; auto|].
      intros st2 (HSI2 & _ & fr & rest & E1 & E2). split; [exact HSI2|]. exists PUndef, fr, rest. auto. }
    destruct Hpe as (HSI1 & Hl1 & Hlen1 & Hcase).
    eapply okres_bind; [apply IHt; auto; lia|].
    intros [tk st2] (HSI2 & Hl2 & Hv2 & Hlen2 & Hc2). cbv beta iota.
    pose proof (combine_pushed _ _ _ Hcase Hc2) as Hp02.
    eapply okres_bind with (Q := fun r => let '(tk', st') := r in SI st' /\ (pt_kind tk' = TEnd -> pushed st st')).
    2: { intros [tk' st'] (HSI' & Hp'). destruct (is_kind tk' TEnd) eqn:Ek; cbn [negb]; [|apply perr_ok; auto].
         apply is_kind_true in Ek. cbn. split; auto. }
    destruct (is_kind tk TRocket) eqn:Ek.
    2: { cbn. split; auto. }
    apply is_kind_true in Ek.
    assert (Hl2' : live st2) by (apply Hl2; congruence).
    destruct Hp02 as (v0 & fr & rest & Ec & Ec2).
    eapply okres_bind; [apply c_pop_spec; auto|].
    intros [key st3] (HSI3 & Hss3 & Hpop). cbv beta iota.
    destruct Hpop as [(f3 & r3 & E1 & E2)|(_ & _ & r3 & E1)]; [|rewrite Ec2 in E1; discriminate].
    rewrite Ec2 in E1. inversion E1; subst key f3 r3.
    assert (Hl3 : live st3) by (eapply same_stream_live; eauto).
    destruct Hss3 as (Ht3 & He3 & Hv3).
    eapply okres_bind; [apply p_next_spec; auto|].
    intros [t2 st4] (HSI4 & Et4 & Ec4 & Hv4 & Hl4). cbv beta iota.
    assert (Hlen4 : toklen st3 = S (toklen st4)) by (unfold toklen; rewrite Et4; reflexivity).
    assert (Hlen3 : toklen st3 = toklen st2) by (unfold toklen; rewrite Ht3; reflexivity).
    eapply okres_bind; [apply IHe; auto; [congruence|lia]|].
    intros [tk2 st5] Hpe2. cbv beta iota. destruct tk2 as [tk2|].
    { destruct Hpe2 as [-> ->]. apply perr_ok; auto. }
    destruct Hpe2 as (HSI5 & Hl5 & Hlen5 & Hcase5).
    eapply okres_bind; [apply IHt; auto; lia|].
    intros [tk3 st6] (HSI6 & Hl6 & Hv6 & Hlen6 & Hc6). cbv beta iota.
    pose proof (combine_pushed _ _ _ Hcase5 Hc6) as Hp46.
    destruct (is_kind tk3 TEnd) eqn:Ek3.
    2: { apply is_kind_false in Ek3. cbn. split; [exact HSI6|]. intros; contradiction. }
    eapply okres_bind; [apply c_pop_spec; auto|].
    intros [v st7] (HSI7 & Hss7 & Hpop7). cbv beta iota.
    destruct (wrap_entry_ok v0 v); [|apply perr_ok; auto].
    eapply okres_bind; [apply c_add_spec; auto|].
    intros st8 (HSI8 & Hss8 & f8 & r8 & E3 & E4). cbn.
    split; [exact HSI8|]. intros _.
    destruct Hp46 as (v6 & f6 & r6 & E5 & E6). rewrite Ec4, E2 in E5. inversion E5; subst f6 r6.
    destruct Hpop7 as [(f7 & r7 & E7 & E8)|(_ & _ & r7 & E7)]; [|rewrite E6 in E7; discriminate].
    rewrite E6 in E7. inversion E7; subst v f7 r7.
    rewrite E8 in E3. inversion E3; subst f8 r8.
    eexists _, fr, rest. split; [exact Ec|exact E4].
  Qed.

  Lemma finish_ok (tn : option str) st v :
    SI st -> ps_coll st = [[v]] ->
    okres (fun _ => True)
      (pbind (c_value st) (fun dv =>
         match tn with
         | None => POk dv
         | Some name => match named_type name dv with Some ty => POk ty | None => perr st end
         end)).
  Proof.
    intros HSI Ec. unfold c_value. rewrite Ec. cbn.
    destruct tn as [name|]; [|exact I].
    destruct (named_type name v); [exact I|apply perr_ok; auto].
  Qed.

  Definition stream_ok (toks : list ptok) (e : lex_end) : Prop :=
    Forall Ptok toks /\
    match e with
    | ELexErr l c => P l c
    | EEnd => toks <> [] /\ pt_kind (last toks dummy_tok) = TEnd
    | _ => False
    end.

  Lemma parse_file_ok toks e :
    stream_ok toks e -> okres (fun _ => True) (parse_file pf rx (parse_fuel toks) toks e).
  Proof.
    intros (Htoks & Hend).
    set (n := parse_fuel toks).
    assert (HSI0 : SI (init_state toks e)).
    { unfold SI, init_state. cbn. repeat split; auto; try discriminate.
      destruct e; auto; tauto. }
    assert (Hl0 : live (init_state toks e)).
    { unfold live, init_state. cbn. destruct e; auto. }
    assert (Hfuel : forall st, (toklen st <= length toks)%nat -> (3 * toklen st + 3 <= n)%nat).
    { intros st H. unfold n, parse_fuel. lia. }
    unfold parse_file. cbv zeta. fold n.
    eapply okres_bind; [apply p_next_spec; auto|].
    intros [t st1] (HSI1 & Et1 & Ec1 & Hv1 & Hl1). cbv beta iota.
    assert (Hlen1 : length toks = S (toklen st1)) by (unfold toklen; cbn in Et1; rewrite Et1; reflexivity).
    cbn in Ec1, Hv1.
    assert (Hparse : forall st t' tn, SI st -> (pt_kind t' <> TEnd -> live st) -> ps_v st = None ->
              ps_coll st = [[]] -> (toklen st <= length toks)%nat ->
              okres (fun _ => True)
                (pbind (parse pf rx n st t') (fun st5 =>
                   pbind (c_value st5) (fun dv =>
                     match tn with
                     | None => POk dv
                     | Some name => match named_type name dv with Some ty => POk ty | None => perr st5 end
                     end)))).
    { intros st t' tn HSI Hl Hv Ec Hlen.
      eapply okres_bind; [apply parse_spec; auto|].
      intros st5 (HSI5 & v & fr & rest & E1 & E2). rewrite Ec in E1. inversion E1; subst fr rest.
      eapply finish_ok; eauto. }
    destruct (is_kind t TIdent && str_eqb (pt_text t) s_type)%bool eqn:Etype.
    2: { apply (Hparse st1 t None); auto. lia. }
    apply andb_prop in Etype. destruct Etype as [Ek _]. apply is_kind_true in Ek.
    assert (Hl1' : live st1) by (apply Hl1; congruence).
    eapply okres_bind; [apply p_next_spec; auto|].
    intros [t2 st2] (HSI2 & Et2 & Ec2 & Hv2 & Hl2). cbv beta iota.
    assert (Hlen2 : toklen st1 = S (toklen st2)) by (unfold toklen; rewrite Et2; reflexivity).
    destruct (pt_kind t2) eqn:Ek2; try (apply perr_ok; auto).
    - (* type X = ... *)
      assert (Hl2' : live st2) by (apply Hl2; discriminate).
      eapply okres_bind; [apply p_next_spec; auto|].
      intros [t3 st3] (HSI3 & Et3 & Ec3 & Hv3 & Hl3). cbv beta iota.
      assert (Hlen3 : toklen st2 = S (toklen st3)) by (unfold toklen; rewrite Et3; reflexivity).
      destruct (is_kind t3 TEqual) eqn:Ek3; cbn [negb]; [|apply perr_ok; auto].
      apply is_kind_true in Ek3.
      assert (Hl3' : live st3) by (apply Hl3; congruence).
      eapply okres_bind; [apply p_next_spec; auto|].
      intros [t4 st4] (HSI4 & Et4 & Ec4 & Hv4 & Hl4). cbv beta iota.
      assert (Hlen4 : toklen st3 = S (toklen st4)) by (unfold toklen; rewrite Et4; reflexivity).
      apply (Hparse st4 t4 (Some (pt_text t2))); auto; [congruence|congruence|lia].
    - (* type => ... *)
      assert (Hl2' : live st2) by (apply Hl2; discriminate).
      eapply okres_bind; [apply p_next_spec; auto|].
      intros [t3 st3] (HSI3 & Et3 & Ec3 & Hv3 & Hl3). cbv beta iota.
      assert (Hlen3 : toklen st2 = S (toklen st3)) by (unfold toklen; rewrite Et3; reflexivity).
      eapply okres_bind; [apply parse_spec; auto; [congruence|apply Hfuel; lia]|].
      intros st4 (HSI4 & v & fr & rest & E1 & E2). cbv beta.
      assert (Ec3' : ps_coll st3 = [[]]) by congruence.
      rewrite Ec3' in E1. inversion E1; subst fr rest.
      eapply okres_bind; [apply c_pop_spec; auto|].
      intros [v' st5] (HSI5 & Hss5 & Hpop). cbv beta iota.
      destruct Hpop as [(f5 & r5 & E3 & E4)|(_ & _ & r5 & E3)]; [|rewrite E2 in E3; discriminate].
      rewrite E2 in E3. inversion E3; subst v' f5 r5.
      destruct (is_nil v); [apply perr_ok; auto|].
      eapply okres_bind; [apply c_add_spec; auto|].
      intros st6 (HSI6 & Hss6 & f6 & r6 & E5 & E6). cbv beta.
      rewrite E4 in E5. inversion E5; subst f6 r6.
      eapply (finish_ok None); eauto.
  Qed.

End Total.

(* ParseFile over token streams, for every set P of admissible locations *)
Theorem parse_file_total :
  forall (pf : str -> option Z) (rx : str -> bool) (P : Z -> Z -> Prop) (toks : list ptok) (e : lex_end),
    P 1 0 ->
    Forall (fun t => P (pt_line t) (pt_col t - rune_count (pt_text t))) toks ->
    match e with
    | ELexErr l c => P l c
    | EEnd => toks <> [] /\ pt_kind (last toks dummy_tok) = TEnd
    | _ => False
    end ->
    match parse_file pf rx (parse_fuel toks) toks e with
    | POk _ => True
    | PErr line col => P line col
    | PFault => False
    | POutOfFuel => False
    end.
Proof. intros pf rx P toks e H10 Ht He. exact (parse_file_ok pf rx P H10 toks e (conj Ht He)). Qed.

(* ------------------------------------------------------------------------------------------------ *)
(* types.Parse on a byte string *)

Lemma pos_within_10 s : pos_within s 1 0.
Proof.
  unfold pos_within. pose proof (count_nl_nonneg s). pose proof (line_len_nonneg s 1). cbn. lia.
Qed.

Lemma lex_stream_ok ol s : stream_ok (pos_within s) (fst (lex ol s)) (snd (lex ol s)).
Proof.
  destruct (lex_positions ol s) as [Htoks Herr].
  pose proof (lex_text_columns ol s) as Hcols.
  split.
  - rewrite Forall_forall in *. intros t Hin.
    destruct (Htoks t Hin) as ((H1 & H2) & (H3 & H4)). specialize (Hcols t Hin). cbn beta in Hcols.
    unfold Ptok, pos_within. pose proof (rune_count_nonneg (pt_text t)).
    destruct (1 <? pt_line t); lia.
  - pose proof (lex_terminates ol s) as Hf. pose proof (lex_no_fault ol s) as Hn.
    pose proof (lex_shape ol s) as Hs.
    destruct (snd (lex ol s)) eqn:E; try congruence.
    + apply Hs. reflexivity.
    + exact (Herr line col eq_refl).
Qed.

(* parse_total: for every byte string and all oracles, Parse answers — a value, or a parse error whose line and
   column lie within the input; never a fault (raw or wrapped), never out of fuel, never a read beyond the end
   token. *)
Theorem parse_total : forall pf rx ol s,
  okres (pos_within s) (fun _ => True) (parse_string pf rx ol s).
Proof.
  intros pf rx ol s. unfold parse_string.
  pose proof (lex_stream_ok ol s) as H.
  destruct (lex ol s) as [toks e]. cbn [fst snd] in H.
  apply parse_file_ok; [apply pos_within_10|exact H].
Qed.

Theorem parse_no_fault : forall pf rx ol s,
  parse_string pf rx ol s <> PFault /\ parse_string pf rx ol s <> POutOfFuel.
Proof.
  intros pf rx ol s. pose proof (parse_total pf rx ol s) as H.
  destruct (parse_string pf rx ol s); cbn in H; split; try discriminate; contradiction.
Qed.
