(* ParserProofs.v — the parser model is total: on every well-formed token stream (as the lexer produces them) and for
   every oracle it answers within parse_fuel, never reaches a fault site, never reads beyond the end token, and a
   failure is a parse error located at the lexer's give-up position or at a token of the stream. *)
From Coq Require Import ZArith NArith Bool List Lia PeanoNat.
From PcoreV Require Import Model.Base Model.Lexer Model.Parser Proofs.LexerProofs.
Import ListNotations.
Open Scope Z_scope.

Local Arguments rune_count : simpl never.
Local Arguments Z.sub : simpl never.
Local Arguments Z.add : simpl never.
Local Arguments Nat.mul : simpl never.

Lemma tkind_eqb_eq a b : tkind_eqb a b = true <-> a = b.
Proof. split; [destruct a, b; cbn; congruence|intros ->; destruct b; reflexivity]. Qed.

Lemma tkind_eqb_neq a b : tkind_eqb a b = false <-> a <> b.
Proof.
  split.
  - intros H E. apply tkind_eqb_eq in E. congruence.
  - intros H. destruct (tkind_eqb a b) eqn:E; auto. apply tkind_eqb_eq in E. contradiction.
Qed.

Definition dummy_tok : ptok := mkPtok TEnd [] 0 0.

Section Total.
  Variable pf : str -> option Z.
  Variable rx : str -> bool.
  (* P: where a parse error may be located *)
  Variable P : Z -> Z -> Prop.
  Hypothesis P10 : P 1 0.

  Definition Ptok (t : ptok) : Prop := P (pt_line t) (pt_col t - rune_count (pt_text t)).

  (* a result that is a value satisfying Q, or a parse error located in P — not a fault, not out of fuel *)
  Definition okres {A} (Q : A -> Prop) (r : pres A) : Prop :=
    match r with
    | POk a => Q a
    | PErr l c => P l c
    | PFault => False
    | POutOfFuel => False
    end.

  Lemma okres_bind {A B} (Q : A -> Prop) (R : B -> Prop) (r : pres A) (f : A -> pres B) :
    okres Q r -> (forall a, Q a -> okres R (f a)) -> okres R (pbind r f).
  Proof. destruct r; cbn; auto; contradiction. Qed.

  Lemma okres_weaken {A} (Q R : A -> Prop) (r : pres A) :
    okres Q r -> (forall a, Q a -> R a) -> okres R r.
  Proof. destruct r; cbn; auto. Qed.

  Fixpoint count_vals (c : list (list pv)) : nat :=
    match c with
    | [] => 0%nat
    | fr :: rest => (length fr + count_vals rest)%nat
    end.

  (* the state invariant *)
  Definition SI (st : pstate) : Prop :=
    ps_coll st <> [] /\
    (count_vals (ps_coll st) + length (ps_coll st) <= S (ps_nvals st))%nat /\
    Forall Ptok (ps_toks st) /\
    match ps_end st with ELexErr l c => P l c | EEnd => True | _ => False end /\
    match ps_lt st with Some t => Ptok t | None => True end.

  (* the parser may read on: there is a token left, the last of which is the end token, or the lexer's error *)
  Definition live (st : pstate) : Prop :=
    match ps_end st with
    | EEnd => ps_toks st <> [] /\ pt_kind (last (ps_toks st) dummy_tok) = TEnd
    | _ => True
    end.

  Definition same_stream (st st' : pstate) : Prop :=
    ps_toks st' = ps_toks st /\ ps_end st' = ps_end st /\ ps_v st' = ps_v st.

  Lemma same_stream_live st st' : same_stream st st' -> live st -> live st'.
  Proof. intros (H1 & H2 & _). unfold live. rewrite H1, H2. auto. Qed.

  Lemma same_stream_trans a b c : same_stream a b -> same_stream b c -> same_stream a c.
  Proof. unfold same_stream. intuition congruence. Qed.

  Lemma perr_ok {A} (Q : A -> Prop) st : SI st -> okres Q (perr st).
  Proof.
    intros (_ & _ & _ & _ & Hlt). unfold perr, location.
    destruct (ps_lt st); cbn; auto.
  Qed.

  (* ---- nextToken ---- *)
  Lemma p_next_spec st : SI st -> live st ->
    okres (fun r => let '(t, st') := r in
             SI st' /\ ps_toks st = t :: ps_toks st' /\ ps_coll st' = ps_coll st /\ ps_v st' = ps_v st /\
             (pt_kind t <> TEnd -> live st')) (p_next st).
  Proof.
    intros (Hc & Hn & Ht & He & Hlt) Hl. unfold p_next.
    destruct (ps_toks st) as [|t ts] eqn:Et.
    - unfold live in Hl. rewrite Et in Hl. destruct (ps_end st); cbn; auto; try contradiction.
      destruct Hl; congruence.
    - cbn. inversion Ht; subst. repeat split; auto.
      unfold live in *. cbn. rewrite Et in Hl.
      destruct (ps_end st); auto. destruct Hl as [_ Hlast]. intros Hk.
      destruct ts as [|t2 ts2]; [cbn in Hlast; contradiction|].
      split; [discriminate|]. exact Hlast.
  Qed.

  (* ---- the collector ---- *)
  Lemma c_add_spec v st : SI st ->
    okres (fun st' => SI st' /\ same_stream st st' /\
             exists fr rest, ps_coll st = fr :: rest /\ ps_coll st' = (v :: fr) :: rest) (c_add v st).
  Proof.
    intros (Hc & Hn & Ht & He & Hlt). unfold c_add.
    destruct (ps_coll st) as [|fr rest] eqn:Ec; [contradiction|].
    cbn. repeat split; auto; try discriminate.
    - cbn in *. lia.
    - eauto.
  Qed.

  Lemma c_pop_spec st : SI st ->
    okres (fun r => let '(v, st') := r in
             SI st' /\ same_stream st st' /\
             ((exists fr rest, ps_coll st = (v :: fr) :: rest /\ ps_coll st' = fr :: rest) \/
              (v = PNil /\ st' = st /\ exists rest, ps_coll st = [] :: rest))) (c_pop st).
  Proof.
    intros (Hc & Hn & Ht & He & Hlt). unfold c_pop.
    destruct (ps_coll st) as [|fr rest] eqn:Ec; [contradiction|].
    destruct fr as [|v fr].
    - cbn. repeat split; auto; try congruence. right. repeat split; eauto.
    - destruct (ps_nvals st) as [|k] eqn:Ek; [cbn in Hn; lia|].
      cbn. repeat split; auto; try discriminate.
      + cbn in *. lia.
      + left. eauto.
  Qed.

  Lemma c_begin_spec st : SI st ->
    okres (fun st' => SI st' /\ same_stream st st' /\ ps_coll st' = [] :: ps_coll st) (c_begin st).
  Proof.
    intros (Hc & Hn & Ht & He & Hlt). unfold c_begin.
    destruct (ps_coll st) as [|fr rest] eqn:Ec; [contradiction|].
    cbn. repeat split; auto; try discriminate. cbn in *. lia.
  Qed.

  Lemma c_end_array_spec st fr parent rest : SI st -> ps_coll st = fr :: parent :: rest ->
    okres (fun st' => SI st' /\ same_stream st st' /\ ps_coll st' = (PArr (rev fr) :: parent) :: rest)
          (c_end_array st).
  Proof.
    intros (Hc & Hn & Ht & He & Hlt) Ec. unfold c_end_array. rewrite Ec.
    cbn. repeat split; auto; try discriminate. rewrite Ec in Hn. cbn in *. lia.
  Qed.

  Lemma hash_entries_even : forall k l, length l = (2 * k)%nat -> hash_entries l <> HEFault.
  Proof.
    induction k as [|k IH]; intros l Hl.
    - destruct l; [cbn; discriminate|cbn in Hl; lia].
    - destruct l as [|a [|b t]]; cbn [length] in Hl; try lia.
      cbn [hash_entries]. destruct (wrap_entry_ok a b); [|discriminate].
      specialize (IH t ltac:(lia)). destruct (hash_entries t); congruence.
  Qed.

  Lemma c_end_hash_spec st fr parent rest : SI st -> ps_coll st = fr :: parent :: rest ->
    Nat.even (length fr) = true ->
    okres (fun st' => SI st' /\ same_stream st st' /\ exists es, ps_coll st' = (PHash es :: parent) :: rest)
          (c_end_hash st).
  Proof.
    intros HSI Ec Hev. unfold c_end_hash. rewrite Ec.
    apply Nat.even_spec in Hev. destruct Hev as [k Hk].
    pose proof (hash_entries_even k (rev fr) ltac:(rewrite rev_length; exact Hk)) as Hne.
    destruct (hash_entries (rev fr)) as [es| |]; [|apply perr_ok; auto|congruence].
    destruct HSI as (Hc & Hn & Ht & He & Hlt).
    cbn. repeat split; auto; try discriminate; eauto. rewrite Ec in Hn. cbn in *. lia.
  Qed.

  (* ---- the recursive descent ---- *)

  Definition toklen (st : pstate) : nat := length (ps_toks st).

  Definition pushed (st st' : pstate) : Prop :=
    exists v fr rest, ps_coll st = fr :: rest /\ ps_coll st' = (v :: fr) :: rest.

  Definition post_elem (st : pstate) (t : ptok) (r : option ptok * pstate) : Prop :=
    let '(tk, st') := r in
    match tk with
    | Some tk => tk = t /\ st' = st
    | None =>
      SI st' /\ live st' /\ (toklen st' <= toklen st)%nat /\
      ((ps_v st' = None /\ pushed st st') \/ ((exists nm, ps_v st' = Some nm) /\ ps_coll st' = ps_coll st))
    end.

  Definition post_hta (st : pstate) (r : ptok * pstate) : Prop :=
    let '(tk, st') := r in
    SI st' /\ (pt_kind tk <> TEnd -> live st') /\ ps_v st' = None /\ (toklen st' < toklen st)%nat /\
    match ps_v st with None => ps_coll st' = ps_coll st | Some _ => pushed st st' end.

  Definition post_array (st st' : pstate) : Prop :=
    SI st' /\ live st' /\ ps_v st' = None /\ (toklen st' <= toklen st)%nat /\
    exists l fr rest, ps_coll st = fr :: rest /\ ps_coll st' = (PArr l :: fr) :: rest.

  Definition post_hash (st st' : pstate) : Prop :=
    SI st' /\ live st' /\ ps_v st' = None /\ (toklen st' <= toklen st)%nat /\
    exists es fr rest, ps_coll st = fr :: rest /\ ps_coll st' = (PHash es :: fr) :: rest.

  Definition post_aloop (st : pstate) (r : pstate * bool) : Prop :=
    let '(st', _) := r in
    SI st' /\ live st' /\ ps_v st' = None /\ (toklen st' <= toklen st)%nat /\
    exists fr', ps_coll st' = fr' :: tl (ps_coll st).

  Definition post_hloop (st st' : pstate) : Prop :=
    SI st' /\ live st' /\ ps_v st' = None /\ (toklen st' <= toklen st)%nat /\
    exists fr', ps_coll st' = fr' :: tl (ps_coll st) /\ Nat.even (length fr') = true.

  Definition spec_elem (n : nat) : Prop :=
    forall st t, SI st -> (pt_kind t <> TEnd -> live st) -> ps_v st = None ->
      (3 * toklen st + 3 <= n)%nat -> okres (post_elem st t) (element pf rx n st t).
  Definition spec_hash (n : nat) : Prop :=
    forall st, SI st -> live st -> ps_v st = None ->
      (3 * toklen st + 2 <= n)%nat -> okres (post_hash st) (hash pf rx n st).
  Definition spec_hloop (n : nat) : Prop :=
    forall st, SI st -> live st -> ps_v st = None ->
      (exists fr rest, ps_coll st = fr :: rest /\ Nat.even (length fr) = true) ->
      (3 * toklen st + 1 <= n)%nat -> okres (post_hloop st) (hash_loop pf rx n st).
  Definition spec_array (n : nat) : Prop :=
    forall close st, close <> TEnd -> SI st -> live st -> ps_v st = None ->
      (3 * toklen st + 2 <= n)%nat -> okres (post_array st) (array pf rx n close st).
  Definition spec_aloop (n : nat) : Prop :=
    forall close st rl ah, close <> TEnd -> SI st -> live st -> ps_v st = None ->
      (3 * toklen st + 1 <= n)%nat -> okres (post_aloop st) (array_loop pf rx n close st rl ah).
  Definition spec_hta (n : nat) : Prop :=
    forall st, SI st -> live st ->
      (3 * toklen st + 1 <= n)%nat -> okres (post_hta st) (handle_type_args pf rx n st).

  Definition spec_all (n : nat) : Prop :=
    spec_elem n /\ spec_hash n /\ spec_hloop n /\ spec_array n /\ spec_aloop n /\ spec_hta n.

  Lemma is_kind_true t k : is_kind t k = true -> pt_kind t = k.
  Proof. unfold is_kind. apply tkind_eqb_eq. Qed.
  Lemma is_kind_false t k : is_kind t k = false -> pt_kind t <> k.
  Proof. unfold is_kind. apply tkind_eqb_neq. Qed.

  (* adding one value: the shape element promises *)
  Lemma add_value_elem st t v :
    SI st -> live st -> ps_v st = None ->
    okres (post_elem st t) (pbind (c_add v st) (fun s => POk (None, s))).
  Proof.
    intros HSI Hl Hv. eapply okres_bind; [apply c_add_spec; auto|].
    intros st' (HSI' & Hss & fr & rest & E1 & E2). cbn.
    repeat split; auto.
    - eapply same_stream_live; eauto.
    - destruct Hss as (Ht & _). unfold toklen. rewrite Ht. lia.
    - left. split; [destruct Hss as (_ & _ & Hv'); congruence|]. exists v, fr, rest. auto.
  Qed.

End Total.
