(* Model/InferRuntimeColl.v: conversely, a value that is an instance of a type of the layer has a detailed type the type
   accepts - for types without a Tuple that has more element types than its minimum size (open finding
   tuple-slots-beyond-size).  The layer has no Struct, so the exclusion of undef-valued hash entries does not arise.
   No hypothesis on reflect. *)
From Coq Require Import ZArith NArith Bool List Lia.
From PcoreV Require Import Model.Base Model.Lattice Model.InferRuntime Model.InferRuntimeColl Proofs.InferRuntimeProofs
  Proofs.InferRuntimeCollProofs Proofs.InferRuntimeCollSound.
Import ListNotations.
Open Scope Z_scope.

(* no Tuple with more element types than its minimum size *)
Fixpoint ccwf (t : ct) : bool :=
  match t with
  | CArr e _ _ => ccwf e
  | CHash k v _ _ => ccwf k && ccwf v
  | CTuple ts lo _ => (zlen ts <=? lo) && forallb ccwf ts
  | CVariant ts => forallb ccwf ts
  | COptional t => ccwf t
  | _ => true
  end.

Lemma cdedup_from_sub l : forall seen s, In s (cdedup_from seen l) -> In s l.
Proof.
  induction l as [|x r IH]; intros seen s Hin; [contradiction|]. cbn [cdedup_from] in Hin.
  destruct (existsb (fun s0 => ckeq s0 x) seen).
  - right. exact (IH _ _ Hin).
  - destruct Hin as [->|Hin]; [left; reflexivity|right; exact (IH _ _ Hin)].
Qed.

Lemma cdedup_sub l s : In s (cdedup l) -> In s l.
Proof. destruct l as [|a [|b r]]; intros Hin; try exact Hin. exact (cdedup_from_sub _ _ _ Hin). Qed.

Section Complete.
  Variable gasg : N -> N -> bool.
  Variable tname : N -> str.
  Notation inst := (rc_inst gasg tname).
  Notation asg := (rc_asg gasg).
  Notation detailed := (rc_detailed tname).

  Definition cmp_at (T : ct) : Prop :=
    ccwf T = true -> forall v, rv_ok v = true -> inst T v = true -> asg T (detailed v) = true.

  Lemma asg_detailed T v : rv_ok v = true -> asg T (detailed v) = is_cany T || recv gasg T (detailed v).
  Proof. intros Hok. exact (asg_fits gasg tname T _ v (detailed_fits tname v Hok)). Qed.

  Lemma asg_mkvariant k l : (forall s, In s l -> asg k s = true) -> asg k (cmk_variant (cdedup l)) = true.
  Proof.
    intros H. assert (Hs : forall s, In s (cdedup l) -> asg k s = true) by (intros s Hs; exact (H s (cdedup_sub l s Hs))).
    destruct (cdedup l) as [|a [|b r]].
    - cbn [cmk_variant]. rewrite asg_variant. apply orb_true_r.
    - cbn [cmk_variant]. apply Hs. left. reflexivity.
    - cbn [cmk_variant]. rewrite asg_variant. apply orb_true_iff. right. apply forallb_forall. exact Hs.
  Qed.

  Lemma comp_arr e : (forall v, rv_ok v = true -> inst e v = true -> asg e (detailed v) = true) ->
    forall vs, forallb rv_ok vs = true -> forallb (inst e) vs = true -> forallb (asg e) (map detailed vs) = true.
  Proof.
    intros He. induction vs as [|v vs IH]; intros Hok Hi; [reflexivity|].
    cbn [forallb map] in Hok, Hi |- *. apply andb_prop in Hok as [Hok1 Hok2]. apply andb_prop in Hi as [Hi1 Hi2].
    rewrite (He v Hok1 Hi1), (IH Hok2 Hi2). reflexivity.
  Qed.

  Lemma comp_tuple ts : Forall cmp_at ts -> forallb ccwf ts = true ->
    forall vs, (length ts <= length vs)%nat -> forallb rv_ok vs = true -> walk inst ts vs = true ->
    cpairs gasg ts (map detailed vs) = true.
  Proof.
    induction 1 as [|t ts' Ht Hts IH]; intros Hw vs Hlen Hok Hi; [reflexivity|].
    cbn [forallb] in Hw. apply andb_prop in Hw as [Hw1 Hw2].
    destruct vs as [|v vs']; [cbn [length] in Hlen; lia|].
    cbn [forallb] in Hok. apply andb_prop in Hok as [Hok1 Hok2].
    destruct ts' as [|t2 ts2].
    - cbn [walk] in Hi. apply andb_prop in Hi as [Hi1 Hi2]. cbn [map cpairs].
      rewrite (Ht Hw1 v Hok1 Hi1). cbn [andb]. exact (comp_arr t (Ht Hw1) vs' Hok2 Hi2).
    - destruct vs' as [|v2 vs2]; [cbn [length] in Hlen; lia|].
      change (walk inst (t :: t2 :: ts2) (v :: v2 :: vs2)) with (inst t v && walk inst (t2 :: ts2) (v2 :: vs2)) in Hi.
      apply andb_prop in Hi as [Hi1 Hi2].
      change (cpairs gasg (t :: t2 :: ts2) (map detailed (v :: v2 :: vs2)))
        with (asg t (detailed v) && cpairs gasg (t2 :: ts2) (map detailed (v2 :: vs2))).
      rewrite (Ht Hw1 v Hok1 Hi1). cbn [andb]. apply IH; [exact Hw2| |exact Hok2|exact Hi2].
      cbn [length] in Hlen |- *. lia.
  Qed.

  Lemma rc_complete T : cmp_at T.
  Proof.
    induction T as [| | |lo hi| |s|r|e lo hi IHe|k x lo hi IHk IHx|ts lo hi IHts|ts IHts|t IHt|] using ct_ind';
      intros Hw v Hok Hi; rewrite (asg_detailed _ v Hok); cbn [is_cany orb].
    - reflexivity.
    - reflexivity.
    - destruct v; try discriminate Hi. reflexivity.
    - destruct v; try discriminate Hi. exact Hi.
    - destruct v; try discriminate Hi. reflexivity.
    - destruct v; try discriminate Hi. exact Hi.
    - destruct v; try discriminate Hi. cbn [rc_detailed recv]. rewrite rt_accepts_iff. exact Hi.
    - (* Array *)
      destruct v as [| | | |vs|]; try discriminate Hi. cbn [rc_inst] in Hi. apply andb_prop in Hi as [Hs He].
      cbn [ccwf] in Hw. destruct vs as [|y r].
      + cbn [rc_detailed recv]. change (zlen (@nil rv)) with 0 in Hs. rewrite size_in, Hs. reflexivity.
      + rewrite (rc_detailed_arr tname (y :: r)) by discriminate. cbn [recv]. rewrite size_in, Hs, zlen_cons_pos. cbn [andb orb].
        change (map detailed (y :: r)) with (detailed y :: map detailed r).
        change (detailed y :: map detailed r) with (map detailed (y :: r)).
        cbn [rv_ok] in Hok. apply orb_prop in He as [He|He].
        * destruct e; try discriminate He. apply forallb_forall. intros D _. rewrite rc_asg_unfold. reflexivity.
        * exact (comp_arr e (IHe Hw) (y :: r) Hok He).
    - (* Hash *)
      destruct v as [| | | | |es]; try discriminate Hi. cbn [rc_inst] in Hi. apply andb_prop in Hi as [Hs He].
      cbn [ccwf] in Hw. apply andb_prop in Hw as [Hwk Hwx]. destruct es as [|y r].
      + cbn [rc_detailed recv]. change (zlen (@nil (rv * rv))) with 0 in Hs. rewrite size_in, Hs. reflexivity.
      + rewrite (rv_ok_hash (y :: r)) in Hok by discriminate. apply andb_prop in Hok as [Hn Hf]. apply negb_true_iff in Hn.
        rewrite (rc_detailed_hash tname (y :: r)) by discriminate. rewrite Hn. cbn [recv].
        rewrite size_in, Hs, zlen_cons_pos. cbn [andb orb].
        rewrite forallb_forall in He. rewrite forallb_forall in Hf. apply andb_true_intro. split.
        * apply asg_mkvariant. intros s0 Hin. apply in_map_iff in Hin as [[ki xi] [<- Hin]].
          specialize (He _ Hin). specialize (Hf _ Hin). cbn [fst snd] in He. cbn beta iota in Hf.
          apply andb_prop in He as [He1 _]. apply andb_prop in Hf as [Hf1 _]. exact (IHk Hwk ki Hf1 He1).
        * apply asg_mkvariant. intros s0 Hin. apply in_map_iff in Hin as [[ki xi] [<- Hin]].
          specialize (He _ Hin). specialize (Hf _ Hin). cbn [fst snd] in He. cbn beta iota in Hf.
          apply andb_prop in He as [_ He2]. apply andb_prop in Hf as [_ Hf2]. exact (IHx Hwx xi Hf2 He2).
    - (* Tuple *)
      destruct v as [| | | |vs|]; try discriminate Hi. cbn [rc_inst] in Hi. apply andb_prop in Hi as [Hs He].
      cbn [ccwf] in Hw. apply andb_prop in Hw as [Hlen Hwts]. destruct vs as [|y r].
      + cbn [rc_detailed recv]. change (zlen (@nil rv)) with 0 in Hs. rewrite size_in, Hs. reflexivity.
      + rewrite (rc_detailed_arr tname (y :: r)) by discriminate. cbn [recv]. rewrite size_in, Hs, zlen_cons_pos. cbn [andb orb].
        destruct ts as [|t0 tsr]; [reflexivity|].
        change (map detailed (y :: r)) with (detailed y :: map detailed r).
        cbn iota. change (detailed y :: map detailed r) with (map detailed (y :: r)).
        cbn [rv_ok] in Hok. apply (comp_tuple _ IHts Hwts); [|exact Hok|exact He].
        unfold in_size in Hs. apply andb_prop in Hs as [Hs1 _]. apply Z.leb_le in Hs1. apply Z.leb_le in Hlen.
        unfold zlen in Hs1, Hlen. lia.
    - (* Variant *)
      cbn [rc_inst] in Hi. apply existsb_exists in Hi as [t [Hin Ht]]. cbn [ccwf] in Hw. rewrite forallb_forall in Hw.
      rewrite Forall_forall in IHts. cbn [recv]. apply existsb_exists. exists t. split; [exact Hin|].
      exact (IHts t Hin (Hw t Hin) v Hok Ht).
    - (* Optional *)
      cbn [ccwf] in Hw. cbn [recv]. destruct v; try (rewrite (IHt Hw _ Hok Hi); apply orb_true_r). reflexivity.
    - discriminate Hi.
  Qed.

  (* both directions of the clause for the layer *)
  Theorem rc_accepts_iff_instance T v :
    ccwf T = true -> rv_ok v = true -> asg T (detailed v) = inst T v.
  Proof.
    intros Hw Hok. apply Bool.eq_true_iff_eq. split.
    - exact (rc_detailed_sound gasg tname T v Hok).
    - exact (rc_complete T Hw v Hok).
  Qed.
End Complete.
