(* CollKeyProofs.v — the hash key of the values of Model/Coll.v (Model/CollKey.v: tokey = px.ToKey through the model
   of the ToKey methods in Model/Keys.v) determines a value exactly up to Equals:

       tokey a = tokey b  <->  keq a b = true          (keq = veq, Model/Coll.v)

   for well-formed values (every hash at any depth has pairwise non-equal keys, no marker) within the ranges of the
   Go representation.  So the assumption `keq := veq` of Model/Coll.v is a theorem about the key model.

   Proof: by induction on the nesting depth, simultaneously
     (1) the C07 value `emb a` is well-formed and clean in the sense of Model/Keys.v - for a hash this needs that
         its keys have pairwise different key BYTES, which follows from pairwise non-equal keys by the statement
         itself one level down;
     (2) Equals of Model/Keys.v on the embedded values (index lookup by key bytes, last entry of a key) is Equals of
         Model/Coll.v (first entry with an equal key): they pick the same entry because keys are unique;
   and then C07's theorem key_iff_eq (Proofs/KeysProofs.v). *)
From Coq Require Import ZArith NArith Bool List Lia.
From PcoreV Require Import Model.Base Model.Coll Model.CollKey Proofs.CollInd Proofs.CollProofsKeyed Proofs.CollProofsEq.
From PcoreV Require Model.Keys Proofs.KeysProofs.
Import ListNotations.
Local Open Scope nat_scope.

Module K := PcoreV.Model.Keys.
Module KP := PcoreV.Proofs.KeysProofs.

Definition embe (e : pv * pv) : K.value * K.value := match e with (k, v) => (emb k, emb v) end.

Lemma emb_hash es : emb (PHash es) = K.VHash (map embe es).
Proof. reflexivity. Qed.
Lemma emb_arr l : emb (PArr l) = K.VArr (map emb l).
Proof. reflexivity. Qed.
Lemma emb_entry k v : emb (PEntry k v) = K.VEntry (emb k) (emb v).
Proof. reflexivity. Qed.

Lemma in_range_hash es : in_range (PHash es) = forallb (fun e => in_range (fst e) && in_range (snd e)) es.
Proof.
  cbn [in_range]. induction es as [|[k v] t IH]; cbn [forallb fst snd]; [reflexivity|]. now rewrite IH.
Qed.

Definition good (p : pv) : Prop := K.wf_value (emb p) = true /\ K.clean (emb p) = true.
Definition okn (n : nat) (p : pv) : Prop := wfd n p = true /\ in_range p = true.
Definition agree (a b : pv) : Prop := K.veq (emb a) (emb b) = veq a b.
Definition P (n : nat) : Prop :=
  (forall a, okn n a -> good a) /\ (forall a b, okn n a -> okn n b -> agree a b).

Lemma okn_wf n p : okn n p -> wf p.
Proof. intros [H _]. exact (wfd_wf n p H). Qed.

Lemma veq_sym_b a b : wf a -> wf b -> veq a b = veq b a.
Proof.
  intros Ha Hb. destruct (veq a b) eqn:E1, (veq b a) eqn:E2; try reflexivity.
  - rewrite (veq_sym a b Ha Hb E1) in E2. discriminate.
  - rewrite (veq_sym b a Hb Ha E2) in E1. discriminate.
Qed.

(* same key bytes = Equals, from (1) and (2) at one depth *)
Lemma bridge n : P n -> forall a b, okn n a -> okn n b -> key_eqb a b = veq a b.
Proof.
  intros [G A] a b Ha Hb. destruct (G a Ha) as [Wa Ca]. destruct (G b Hb) as [Wb Cb].
  unfold key_eqb, tokey. rewrite <- (A a b Ha Hb).
  pose proof (KP.key_iff_eq _ _ Wa Wb Ca Cb) as Kq.
  destruct (str_eqb_spec (K.vkey (emb a)) (K.vkey (emb b))) as [E|E].
  - symmetry. apply Kq. exact E.
  - destruct (K.veq (emb a) (emb b)) eqn:V; [|reflexivity]. exfalso. apply E, Kq. reflexivity.
Qed.

(* ---------------------------------------------------------------------------------------------- *)
(* depth 0 *)

Lemma P0 : P 0.
Proof.
  split.
  - intros a [Wa Ra]. destruct a; cbn [wfd] in Wa; try discriminate Wa; split; try reflexivity; exact Ra.
  - intros a b [Wa _] [Wb _].
    destruct a; cbn [wfd] in Wa; try discriminate Wa; destruct b; cbn [wfd] in Wb; try discriminate Wb; reflexivity.
Qed.

(* ---------------------------------------------------------------------------------------------- *)
(* the step *)

Section Step.
  Variable n : nat.
  Hypothesis Pn : P n.

  Let G := proj1 Pn.
  Let A := proj2 Pn.
  Let B := bridge n Pn.

  Lemma nodup_bytes ks : (forall k, In k ks -> okn n k) -> K.nodupb (map tokey ks) = nodup_keys ks.
  Proof.
    induction ks as [|k t IH]; intros Hk; cbn [map K.nodupb nodup_keys]; [reflexivity|].
    rewrite IH by (intros k' Hk'; apply Hk; now right). f_equal. f_equal.
    assert (Hk0 : okn n k) by (apply Hk; now left).
    assert (Ht : forall k', In k' t -> okn n k') by (intros k' Hk'; apply Hk; now right).
    clear IH Hk. induction t as [|k' t IH]; cbn [map existsb]; [reflexivity|].
    rewrite IH by (intros k'' Hk''; apply Ht; now right). f_equal.
    unfold keq. rewrite <- (B k k' Hk0 (Ht k' (or_introl eq_refl))). reflexivity.
  Qed.

  Lemma keys_map es : map (fun e => K.vkey (fst e)) (map embe es) = map tokey (map fst es).
  Proof. rewrite !map_map. apply map_ext. intros [k v]. reflexivity. Qed.

  Definition okE (e : pv * pv) : Prop := okn n (fst e) /\ okn n (snd e).

  Lemma hash_parts es : okn (S n) (PHash es) -> (forall e, In e es -> okE e) /\ nodup_keys (map fst es) = true.
  Proof.
    intros [W R]. cbn [wfd] in W. apply andb_true_iff in W as [W Hn]. rewrite in_range_hash in R.
    split; [|exact Hn]. intros e He. rewrite forallb_forall in W, R. specialize (W e He). specialize (R e He).
    apply andb_true_iff in W as [W1 W2]. apply andb_true_iff in R as [R1 R2]. repeat split; assumption.
  Qed.

  Lemma arr_parts l : okn (S n) (PArr l) -> forall x, In x l -> okn n x.
  Proof.
    intros [W R] x Hx. cbn [wfd] in W. cbn [in_range] in R. rewrite forallb_forall in W, R. split; auto.
  Qed.

  Lemma entry_parts k v : okn (S n) (PEntry k v) -> okn n k /\ okn n v.
  Proof.
    intros [W R]. cbn [wfd] in W. cbn [in_range] in R.
    apply andb_true_iff in W as [W1 W2]. apply andb_true_iff in R as [R1 R2]. repeat split; assumption.
  Qed.

  Lemma good_step a : okn (S n) a -> good a.
  Proof.
    intros Ha. unfold good. destruct a as [ | b | z | s | l | es | k v | | | ].
    - split; reflexivity.
    - split; reflexivity.
    - split; [exact (proj2 Ha)|reflexivity].
    - split; [exact (proj2 Ha)|reflexivity].
    - pose proof (arr_parts l Ha) as Hl. rewrite emb_arr. split; cbn [K.wf_value K.clean];
        apply forallb_forall; intros x Hx; apply in_map_iff in Hx as (p & <- & Hp); apply (G p (Hl p Hp)).
    - destruct (hash_parts es Ha) as [He Hn]. rewrite emb_hash. split; cbn [K.wf_value K.clean].
      + apply andb_true_iff. split.
        * apply forallb_forall. intros x Hx. apply in_map_iff in Hx as ([k v] & <- & Hp). cbn [embe].
          destruct (He _ Hp) as [Hk Hv]. cbn [fst snd] in Hk, Hv.
          destruct (G k Hk) as [Wk Ck]. destruct (G v Hv) as [Wv _].
          now rewrite Wk, Wv, (KP.clean_keyable _ Ck).
        * rewrite keys_map, nodup_bytes; [exact Hn|].
          intros k Hk. apply in_map_iff in Hk as (e & <- & Hin). exact (proj1 (He e Hin)).
      + apply forallb_forall. intros x Hx. apply in_map_iff in Hx as ([k v] & <- & Hp). cbn [embe].
        destruct (He _ Hp) as [Hk Hv]. cbn [fst snd] in Hk, Hv.
        now rewrite (proj2 (G k Hk)), (proj2 (G v Hv)).
    - destruct (entry_parts k v Ha) as [Hk Hv]. rewrite emb_entry. split; cbn [K.wf_value K.clean].
      + now rewrite (proj1 (G k Hk)), (proj1 (G v Hv)).
      + now rewrite (proj2 (G k Hk)), (proj2 (G v Hv)).
    - destruct Ha as [W _]; discriminate W.
    - destruct Ha as [W _]; discriminate W.
    - destruct Ha as [W _]; discriminate W.
  Qed.

  (* Array.Equals *)
  Lemma arr_agree la : forall lb, (forall x, In x la -> okn n x) -> (forall y, In y lb -> okn n y) ->
    Nat.eqb (length (map emb la)) (length (map emb lb)) && KP.veq_list (map emb la) (map emb lb) = veq_list la lb.
  Proof.
    induction la as [|x la IH]; intros [|y lb] Ha Hb; cbn [map length Nat.eqb KP.veq_list veq_list andb]; try reflexivity.
    rewrite <- (IH lb) by (intros z Hz; first [apply Ha; now right | apply Hb; now right]).
    rewrite (A x y (Ha x (or_introl eq_refl)) (Hb y (or_introl eq_refl))).
    destruct (Nat.eqb (length (map emb la)) (length (map emb lb))); destruct (veq x y); reflexivity.
  Qed.

  (* the index lookup of Hash.Equals (last entry with the key bytes) finds the entry that the first match by Equals finds *)
  Lemma find_agree eb k : okn n k -> (forall e, In e eb -> okE e) -> nodup_keys (map fst eb) = true ->
    K.find_last (tokey k) (map embe eb) = option_map embe (fm eb k).
  Proof.
    intros Hk. induction eb as [|e0 t IH]; intros He Hn; [reflexivity|].
    cbn [map K.find_last]. cbn [map nodup_keys] in Hn. apply andb_true_iff in Hn as [Hn0 Hn].
    rewrite IH; [|intros e Hin; apply He; now right|exact Hn].
    assert (H0 : okn n (fst e0)) by (apply He; now left).
    assert (E : str_eqb (K.vkey (fst (embe e0))) (tokey k) = veq k (fst e0)).
    { destruct e0 as [k0 v0]. cbn [embe fst] in *. change (key_eqb k0 k = veq k k0).
      rewrite (B k0 k H0 Hk). apply veq_sym_b; eauto using okn_wf. }
    rewrite E. unfold fm. cbn [find]. fold (fm t k).
    destruct (veq k (fst e0)) eqn:V.
    - (* no later entry has an equal key *)
      assert (F : fm t k = None).
      { destruct (fm t k) as [e1|] eqn:F; [exfalso|reflexivity]. unfold fm in F. apply find_some in F as [Hin V1].
        apply negb_true_iff in Hn0. rewrite existsb_false in Hn0.
        assert (H1 : okn n (fst e1)) by (apply He; now right).
        specialize (Hn0 (fst e1) (in_map fst _ _ Hin)). unfold keq in Hn0.
        rewrite (veq_trans (fst e0) k (fst e1)) in Hn0; eauto using okn_wf; try discriminate.
        apply veq_sym; eauto using okn_wf. }
      rewrite F. reflexivity.
    - destruct (fm t k); reflexivity.
  Qed.

  Lemma hsub_agree ea eb : (forall e, In e ea -> okE e) -> (forall e, In e eb -> okE e) ->
    nodup_keys (map fst ea) = true -> nodup_keys (map fst eb) = true ->
    KP.hash_sub (map embe ea) (map embe eb) = hsub ea eb.
  Proof.
    intros Ha Hb Hna Hnb. induction ea as [|[k v] a' IH]; [reflexivity|].
    cbn [map embe]. rewrite KP.hash_sub_cons. unfold hsub. cbn [forallb fst snd]. fold (hsub a' eb).
    cbn [map nodup_keys fst] in Hna. apply andb_true_iff in Hna as [Hn0 Hna].
    rewrite IH; [|intros e Hin; apply Ha; now right|exact Hna]. f_equal.
    destruct (Ha (k, v) (or_introl eq_refl)) as [Hk Hv]. cbn [fst snd] in Hk, Hv.
    assert (X : existsb (fun e => str_eqb (K.vkey (fst e)) (K.vkey (emb k))) (map embe a') = false).
    { destruct (existsb _ (map embe a')) eqn:E; [exfalso|reflexivity].
      apply existsb_exists in E as (x & Hx & E). apply in_map_iff in Hx as ([k1 v1] & <- & Hin).
      cbn [embe fst] in E. change (key_eqb k1 k = true) in E.
      assert (H1 : okn n k1) by (apply (Ha (k1, v1)); now right).
      rewrite (B k1 k H1 Hk) in E.
      apply negb_true_iff in Hn0. rewrite existsb_false in Hn0.
      specialize (Hn0 k1 (in_map fst _ _ Hin)). unfold keq in Hn0.
      rewrite (veq_sym k1 k) in Hn0; eauto using okn_wf. discriminate. }
    rewrite X. change (K.vkey (emb k)) with (tokey k). rewrite (find_agree eb k Hk Hb Hnb).
    destruct (fm eb k) as [[k' v']|] eqn:F; cbn [option_map embe snd]; [|reflexivity].
    unfold fm in F. apply find_some in F as [Hin V]. cbn [fst] in V.
    destruct (Hb _ Hin) as [Hk' Hv']. cbn [fst snd] in Hk', Hv'.
    now rewrite (A k k' Hk Hk'), V, (A v v' Hv Hv').
  Qed.

  Lemma agree_step a b : okn (S n) a -> okn (S n) b -> agree a b.
  Proof.
    intros Ha Hb. unfold agree.
    destruct a as [ | ba | za | sa | la | ea | ka va | | | ]; try (destruct Ha as [W _]; discriminate W);
      destruct b as [ | bb | zb | sb | lb | eb | kb vb | | | ]; try (destruct Hb as [W _]; discriminate W);
      try reflexivity.
    - (* Array, Array *)
      rewrite !emb_arr, KP.veq_arr, veq_arr. apply arr_agree; [exact (arr_parts la Ha)|exact (arr_parts lb Hb)].
    - (* Array, Entry *)
      pose proof (arr_parts la Ha) as Hl. destruct (entry_parts kb vb Hb) as [Hk Hv].
      destruct la as [|x [|y [|z t]]]; try reflexivity.
      rewrite emb_arr, emb_entry. cbn [map K.veq veq].
      now rewrite (A x kb (Hl x (or_introl eq_refl)) Hk), (A y vb (Hl y (or_intror (or_introl eq_refl))) Hv).
    - (* Hash, Hash *)
      destruct (hash_parts ea Ha) as [Hea Hna]. destruct (hash_parts eb Hb) as [Heb Hnb].
      rewrite !emb_hash, KP.veq_hash, veq_hash. unfold heq. rewrite !map_length.
      now rewrite (hsub_agree ea eb Hea Heb Hna Hnb).
    - (* Entry, Array *)
      pose proof (arr_parts lb Hb) as Hl. destruct (entry_parts ka va Ha) as [Hk Hv].
      destruct lb as [|x [|y [|z t]]]; try reflexivity.
      rewrite emb_arr, emb_entry. cbn [map K.veq veq].
      now rewrite (A ka x Hk (Hl x (or_introl eq_refl))), (A va y Hv (Hl y (or_intror (or_introl eq_refl)))).
    - (* Entry, Entry *)
      destruct (entry_parts ka va Ha) as [Hk Hv]. destruct (entry_parts kb vb Hb) as [Hk' Hv'].
      rewrite !emb_entry. cbn [K.veq veq]. now rewrite (A ka kb Hk Hk'), (A va vb Hv Hv').
  Qed.

  Lemma P_step : P (S n).
  Proof. split; [exact good_step|exact agree_step]. Qed.
End Step.

Lemma P_all n : P n.
Proof. induction n as [|n IH]; [exact P0|exact (P_step n IH)]. Qed.

(* ---------------------------------------------------------------------------------------------- *)
(* the statements *)

Definition in_rng (p : pv) : Prop := in_range p = true.

Lemma okn_max a b : wf a -> wf b -> in_rng a -> in_rng b -> exists n, okn n a /\ okn n b.
Proof.
  intros Wa Wb Ra Rb. destruct (wf_wfd a Wa) as [n Hn]. destruct (wf_wfd b Wb) as [m Hm].
  exists (max n m). split; split; auto; [apply (wfd_le n)|apply (wfd_le m)]; auto; lia.
Qed.

Theorem key_eqb_is_keq a b : wf a -> wf b -> in_rng a -> in_rng b -> key_eqb a b = keq a b.
Proof.
  intros Wa Wb Ra Rb. destruct (okn_max a b Wa Wb Ra Rb) as (n & Ha & Hb). exact (bridge n (P_all n) a b Ha Hb).
Qed.

Theorem tokey_iff_keq a b : wf a -> wf b -> in_rng a -> in_rng b -> (tokey a = tokey b <-> keq a b = true).
Proof.
  intros Wa Wb Ra Rb. rewrite <- (key_eqb_is_keq a b Wa Wb Ra Rb). unfold key_eqb. symmetry. apply str_eqb_eq.
Qed.

(* the embedded value is a well-formed, clean value of the C07 model, and Equals of the two models agree *)
Theorem emb_good a : wf a -> in_rng a -> K.wf_value (emb a) = true /\ K.clean (emb a) = true.
Proof.
  intros Wa Ra. destruct (wf_wfd a Wa) as [n Hn]. exact (proj1 (P_all n) a (conj Hn Ra)).
Qed.

Theorem emb_veq a b : wf a -> wf b -> in_rng a -> in_rng b -> K.veq (emb a) (emb b) = veq a b.
Proof.
  intros Wa Wb Ra Rb. destruct (okn_max a b Wa Wb Ra Rb) as (n & Ha & Hb). exact (proj2 (P_all n) a b Ha Hb).
Qed.

(* the order of the entries of a hash does not matter for its key; kinds that print alike do *)
Corollary tokey_hash_order ea eb : wf (PHash ea) -> wf (PHash eb) -> in_rng (PHash ea) -> in_rng (PHash eb) ->
  heq ea eb = true -> tokey (PHash ea) = tokey (PHash eb).
Proof.
  intros Wa Wb Ra Rb H. apply (tokey_iff_keq _ _ Wa Wb Ra Rb). unfold keq. now rewrite veq_hash.
Qed.
