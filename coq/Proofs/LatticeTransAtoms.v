(* LatticeTransAtoms.v — transitivity, receiver against receiver: middle types without type parameters
   (scalars, ranges, the string family). *)
From Coq Require Import ZArith NArith Bool List Lia.
From PcoreV Require Import Model.Base Model.Ty Model.Lattice Proofs.LatticeUnfold Proofs.LatticeBasics
  Proofs.StructCount Proofs.LatticeRule Proofs.LatticeSound Proofs.LatticeOrder.
From PcoreV Require Import Proofs.LatticeTransBasics.
Import ListNotations.
Open Scope Z_scope.

Section Atoms.
  Variable rx : str -> str -> bool.
  Notation asg := (asg rx false).
  Notation recv := (recv rx false asg).

  Ltac rsimpl H := cbn [LatticeUnfold.recv flat flat_recv is_undef orb andb negb] in H.
  Ltac gsimpl := cbn [LatticeUnfold.recv flat flat_recv is_undef orb andb negb].
  Ltac lists H :=
    repeat match type of H with
           | context [match ?l with [] => _ | _ :: _ => _ end] => is_var l; destruct l; rsimpl H
           end.
  Ltac right_of c Hbc := destruct c; rsimpl Hbc; try discriminate Hbc.
  Ltac left_of a Hab := destruct a; try discriminate; rsimpl Hab; lists Hab; try discriminate Hab;
    try (cbn [length Nat.eqb negb andb] in Hab; rewrite ?andb_false_r in Hab; discriminate Hab); gsimpl; try reflexivity.

  Lemma core_undef a c : rcv a = true -> recv a TUndef = true -> recv TUndef c = true -> recv a c = true.
  Proof. intros Ra Hab Hbc. right_of c Hbc. exact Hab. Qed.

  Lemma core_default a c : rcv a = true -> recv a TDefault = true -> recv TDefault c = true -> recv a c = true.
  Proof. intros Ra Hab Hbc. right_of c Hbc. exact Hab. Qed.

  Lemma core_binary a c : rcv a = true -> recv a TBinary = true -> recv TBinary c = true -> recv a c = true.
  Proof. intros Ra Hab Hbc. right_of c Hbc. exact Hab. Qed.

  Lemma core_other n a c : rcv a = true -> recv a (TOther n) = true -> recv (TOther n) c = true -> recv a c = true.
  Proof. intros Ra Hab Hbc. discriminate Hbc. Qed.

  Lemma core_boolean w a c : rcv a = true -> recv a (TBoolean w) = true -> recv (TBoolean w) c = true -> recv a c = true.
  Proof.
    intros Ra Hab Hbc. right_of c Hbc. left_of a Hab.
    destruct v0 as [[|]|], w as [[|]|], v as [[|]|]; cbn in *; congruence.
  Qed.

  Lemma core_integer lo hi a c : rcv a = true -> recv a (TInteger lo hi) = true -> recv (TInteger lo hi) c = true -> recv a c = true.
  Proof.
    intros Ra Hab Hbc. right_of c Hbc. left_of a Hab. eapply size_sub_trans; eassumption.
  Qed.

  Lemma core_float lo hi a c : rcv a = true -> recv a (TFloat lo hi) = true -> recv (TFloat lo hi) c = true -> recv a c = true.
  Proof.
    intros Ra Hab Hbc. right_of c Hbc. left_of a Hab; eapply size_sub_trans; eassumption.
  Qed.

  Lemma core_numeric a c : rcv a = true -> recv a TNumeric = true -> recv TNumeric c = true -> recv a c = true.
  Proof. intros Ra Hab Hbc. right_of c Hbc; left_of a Hab. Qed.

  Lemma core_regexp p a c : rcv a = true -> recv a (TRegexp p) = true -> recv (TRegexp p) c = true -> recv a c = true.
  Proof.
    intros Ra Hab Hbc. right_of c Hbc. left_of a Hab.
    apply orb_true_iff in Hab, Hbc. apply orb_true_iff. destruct Hab as [Hab|Hab]; [left; exact Hab|].
    apply str_eqb_eq in Hab. subst. destruct Hbc as [Hbc|Hbc]; [left|right]; exact Hbc.
  Qed.

  Lemma core_scalar a c : rcv a = true -> recv a TScalar = true -> recv TScalar c = true -> recv a c = true.
  Proof. intros Ra Hab Hbc. left_of a Hab; exact Hbc. Qed.

  Lemma core_scalardata a c : rcv a = true -> plain c = true -> recv a TScalarData = true -> recv TScalarData c = true -> recv a c = true.
  Proof.
    intros Ra Hp Hab Hbc. left_of a Hab; try exact Hbc.
    (* Scalar accepts what ScalarData accepts *)
    destruct c; cbn [plain] in Hp; try discriminate Hp; try reflexivity; try discriminate Hbc; rsimpl Hbc; gsimpl;
      try exact Hbc; try discriminate Hbc.
    rewrite Hp in Hbc. discriminate Hbc.
  Qed.

  (* ---- the string family ---- *)
  Lemma core_string a c : rcv a = true -> recv a TString = true -> recv TString c = true -> recv a c = true.
  Proof. intros Ra Hab Hbc. right_of c Hbc; left_of a Hab. Qed.

  Lemma enum_member ci vs s : vs <> [] -> enum_inst ci vs s = true -> In (if ci then lower_ascii s else s) vs.
  Proof. intros Hne H. rewrite enum_inst_nonempty in H by assumption. apply mem_str_in. exact H. Qed.

  Lemma enum_chain ci vs ci' vs' s : vs' <> [] -> ci || negb ci' = true ->
    enum_inst ci' vs' s = true -> forallb (enum_inst ci vs) vs' = true -> enum_inst ci vs s = true.
  Proof.
    intros Hne Hci Hs Hall. destruct vs as [|v0 vs0]; [reflexivity|].
    pose proof (enum_member ci' vs' s Hne Hs) as Hin. rewrite forallb_forall in Hall. specialize (Hall _ Hin).
    rewrite enum_inst_nonempty in Hall |- * by congruence.
    destruct ci'; [|exact Hall]. destruct ci; [|discriminate]. rewrite lower_idem in Hall. exact Hall.
  Qed.

  Lemma enum_size lo hi ci vs s : vs <> [] -> enum_inst ci vs s = true ->
    forallb (fun s => in_size lo hi (rune_count s)) vs = true -> in_size lo hi (rune_count s) = true.
  Proof.
    intros Hne Hs Hall. pose proof (enum_member ci vs s Hne Hs) as Hin. rewrite forallb_forall in Hall.
    specialize (Hall _ Hin). cbv beta in Hall. destruct ci; [rewrite rune_count_lower in Hall|]; exact Hall.
  Qed.

  Lemma matches_any_mono rxs rxs' s : forallb (fun p => mem_str p rxs) rxs' = true ->
    matches_any rx rxs' s = true -> matches_any rx rxs s = true.
  Proof.
    intros Hall Hm. unfold matches_any in *. apply existsb_exists in Hm. destruct Hm as (p & Hp & Hm).
    rewrite forallb_forall in Hall. specialize (Hall _ Hp). apply mem_str_in in Hall. apply existsb_exists. eauto.
  Qed.

  Lemma core_stringsz lo hi a c : rcv a = true -> recv a (TStringSz lo hi) = true -> recv (TStringSz lo hi) c = true -> recv a c = true.
  Proof.
    intros Ra Hab Hbc. right_of c Hbc; left_of a Hab.
    - eapply size_sub_trans; eassumption.
    - eapply in_size_sub; eassumption.
    - apply andb_true_iff in Hbc. destruct Hbc as [Hne Hall]. rewrite Hne. cbn [andb].
      rewrite forallb_forall in Hall |- *. intros x Hx. eapply in_size_sub; [eassumption|]. apply Hall. exact Hx.
  Qed.

  Lemma core_stringval s a c : rcv a = true -> recv a (TStringVal s) = true -> recv (TStringVal s) c = true -> recv a c = true.
  Proof. intros Ra Hab Hbc. right_of c Hbc. apply str_eqb_eq in Hbc. subst. exact Hab. Qed.

  Lemma recv_enum_ne ci l b : l <> [] ->
    recv (TEnum ci l) b =
    match b with
    | TStringVal s => enum_inst ci l s
    | TEnum ci' vs' => negb (Nat.eqb (length vs') 0) && (ci || negb ci') && forallb (enum_inst ci l) vs'
    | _ => false
    end.
  Proof. destruct l; [congruence|reflexivity]. Qed.

  Lemma recv_pattern_ne l b : l <> [] ->
    recv (TPattern l) b =
    match b with
    | TPattern rxs' => negb (Nat.eqb (length rxs') 0) && forallb (fun p => mem_str p l) rxs'
    | TStringVal s => matches_any rx l s
    | TEnum ci vs => negb ci && negb (Nat.eqb (length vs) 0) && forallb (matches_any rx l) vs
    | _ => false
    end.
  Proof. destruct l; [congruence|reflexivity]. Qed.

  Ltac split_and H :=
    repeat match type of H with
           | _ && _ = true => let H1 := fresh H in apply andb_true_iff in H; destruct H as [H H1]
           end.

  Lemma core_enum ci vs a c : rcv a = true -> recv a (TEnum ci vs) = true -> recv (TEnum ci vs) c = true -> recv a c = true.
  Proof.
    intros Ra Hab Hbc. destruct vs as [|v0 vs0].
    - right_of c Hbc; left_of a Hab.
    - remember (v0 :: vs0) as l eqn:El. assert (Hl : l <> []) by (subst l; congruence). clear El v0 vs0.
      rewrite (recv_enum_ne ci l c Hl) in Hbc. destruct c; try discriminate Hbc; left_of a Hab.
      + (* StringSz <- Enum <- String value *) split_and Hab. eapply enum_size; eassumption.
      + (* Enum <- Enum <- String value *) split_and Hab. eapply enum_chain; eassumption.
      + (* Pattern <- Enum <- String value *) split_and Hab. apply negb_true_iff in Hab. subst ci.
        rewrite forallb_forall in Hab0. apply Hab0. apply (enum_member false l _ Hl Hbc).
      + (* StringSz <- Enum <- Enum *) split_and Hab. split_and Hbc. rewrite Hbc. cbn [andb].
        rewrite forallb_forall in Hbc0 |- *. intros x Hx. eapply enum_size; [exact Hl|apply Hbc0; exact Hx|exact Hab0].
      + (* Enum <- Enum <- Enum *) split_and Hab. split_and Hbc. rewrite Hbc. cbn [andb].
        apply andb_true_iff. split.
        * destruct ci1, ci, ci0; cbn in *; congruence.
        * rewrite forallb_forall in Hbc0 |- *. intros x Hx. eapply enum_chain; [exact Hl|exact Hab1|apply Hbc0; exact Hx|exact Hab0].
      + (* Pattern <- Enum <- Enum *) split_and Hab. split_and Hbc. apply negb_true_iff in Hab. subst ci.
        cbn [orb] in Hbc1. rewrite Hbc1, Hbc. cbn [andb].
        rewrite forallb_forall in Hbc0, Hab0 |- *. intros x Hx. apply Hab0. apply (enum_member false l x Hl (Hbc0 x Hx)).
  Qed.

  Lemma core_pattern rxs a c : rcv a = true -> recv a (TPattern rxs) = true -> recv (TPattern rxs) c = true -> recv a c = true.
  Proof.
    intros Ra Hab Hbc. destruct rxs as [|r0 rs0].
    - right_of c Hbc; left_of a Hab.
    - remember (r0 :: rs0) as l eqn:El. assert (Hl : l <> []) by (subst l; congruence). clear El r0 rs0.
      rewrite (recv_pattern_ne l c Hl) in Hbc. destruct c; try discriminate Hbc; left_of a Hab.
      + split_and Hab. eapply matches_any_mono; eassumption.
      + split_and Hab. split_and Hbc. rewrite Hbc, Hbc1. cbn [andb].
        rewrite forallb_forall in Hbc0 |- *. intros x Hx. eapply matches_any_mono; [exact Hab0|apply Hbc0; exact Hx].
      + split_and Hab. split_and Hbc. rewrite Hbc. cbn [andb].
        rewrite forallb_forall in Hbc0, Hab0 |- *. intros x Hx. apply Hab0. apply mem_str_in. apply Hbc0. exact Hx.
  Qed.
End Atoms.
