(* Lemmas about Model/InferRuntimeColl.v (Array / Hash / Tuple / Variant / Optional over the Runtime leaf types). *)
From Coq Require Import ZArith NArith Bool List Lia.
From PcoreV Require Import Model.Base Model.Lattice Model.InferRuntime Model.InferRuntimeColl Proofs.InferRuntimeProofs.
Import ListNotations.
Open Scope Z_scope.

Lemma opt_str_eqb_eq a b : opt_str_eqb a b = true -> a = b.
Proof.
  destruct a as [x|], b as [y|]; cbn [opt_str_eqb]; intros H; try discriminate; [|reflexivity].
  apply str_eqb_eq in H. subst. reflexivity.
Qed.

Lemma rty_eqb_eq a b : rty_eqb a b = true -> a = b.
Proof.
  destruct a as [r n p g], b as [r' n' p' g']. unfold rty_eqb; cbn [r_runtime r_name r_pat r_go].
  intros H. apply andb_prop in H as [H Hg]. apply andb_prop in H as [H Hp]. apply andb_prop in H as [Hr Hn].
  apply str_eqb_eq in Hr. apply str_eqb_eq in Hn. apply opt_str_eqb_eq in Hp. subst.
  destruct g as [x|], g' as [y|]; try discriminate; [|reflexivity].
  apply N.eqb_eq in Hg. subst. reflexivity.
Qed.

Lemma forallb_ext' {A} (f g : A -> bool) l : (forall x, In x l -> f x = g x) -> forallb f l = forallb g l.
Proof.
  induction l as [|x l IH]; intros H; cbn [forallb]; [reflexivity|].
  rewrite (H x (or_introl eq_refl)), IH; [reflexivity|]. intros y Hy. apply H. right. exact Hy.
Qed.

Lemma in_size_refl n : in_size n n n = true.
Proof. unfold in_size. rewrite Z.leb_refl. reflexivity. Qed.

Lemma ckeq_is_cany a b : ckeq a b = true -> is_cany a = is_cany b.
Proof. destruct a, b; cbn [ckeq is_cany]; intros H; try discriminate; reflexivity. Qed.

Section CollProofs.
  Variable gasg : N -> N -> bool.
  Variable tname : N -> str.
  Notation inst := (rc_inst gasg tname).
  Notation detailed := (rc_detailed tname).

  (* ---- types with the same hash key have the same instances (what makes UniqueTypes harmless) ---- *)
  Definition cong (a : ct) : Prop := forall b v, ckeq a b = true -> inst a v = inst b v.

  Lemma walk_cong ts : Forall cong ts -> forall ts' vs, all2 ckeq ts ts' = true -> walk inst ts vs = walk inst ts' vs.
  Proof.
    induction 1 as [|a r Ha Hr IH]; intros ts' vs H.
    - destruct ts' as [|b r']; [reflexivity|discriminate].
    - destruct ts' as [|b r']; [discriminate|]. cbn [all2] in H. apply andb_prop in H as [Hab Hrr].
      destruct vs as [|v vs'].
      + destruct r, r'; reflexivity.
      + destruct r as [|x r0], r' as [|y r0']; try discriminate.
        * cbn [walk]. rewrite (Ha b v Hab). f_equal. apply forallb_ext'. intros w _. apply Ha. exact Hab.
        * change (walk inst (a :: x :: r0) (v :: vs')) with (inst a v && walk inst (x :: r0) vs').
          change (walk inst (b :: y :: r0') (v :: vs')) with (inst b v && walk inst (y :: r0') vs').
          rewrite (Ha b v Hab), (IH (y :: r0') vs' Hrr). reflexivity.
  Qed.

  Lemma ckeq_inst a : cong a.
  Proof.
    induction a as [| | |lo hi| |s|r|e lo hi IHe|k x lo hi IHk IHx|ts lo hi IHts|ts IHts|t IHt|] using ct_ind';
      intros b v H; destruct b; cbn [ckeq] in H; try discriminate; try reflexivity.
    - apply andb_prop in H as [H1 H2]. apply Z.eqb_eq in H1. apply Z.eqb_eq in H2. subst. reflexivity.
    - apply str_eqb_eq in H. subst. reflexivity.
    - apply rty_eqb_eq in H. subst. reflexivity.
    - apply andb_prop in H as [H H2]. apply andb_prop in H as [He H1]. apply Z.eqb_eq in H1. apply Z.eqb_eq in H2. subst.
      cbn [rc_inst]. destruct v; try reflexivity. rewrite (ckeq_is_cany _ _ He). f_equal. f_equal.
      apply forallb_ext'. intros w _. apply IHe. exact He.
    - apply andb_prop in H as [H H2]. apply andb_prop in H as [H H1]. apply andb_prop in H as [Hk Hx].
      apply Z.eqb_eq in H1. apply Z.eqb_eq in H2. subst.
      cbn [rc_inst]. destruct v; try reflexivity. f_equal.
      apply forallb_ext'. intros w _. rewrite (IHk _ _ Hk), (IHx _ _ Hx). reflexivity.
    - apply andb_prop in H as [H H2]. apply andb_prop in H as [Ht H1]. apply Z.eqb_eq in H1. apply Z.eqb_eq in H2. subst.
      cbn [rc_inst]. destruct v; try reflexivity. f_equal. apply walk_cong; assumption.
    - apply andb_prop in H as [H1 H2]. cbn [rc_inst]. rewrite Forall_forall in IHts.
      rewrite forallb_forall in H1. rewrite forallb_forall in H2.
      apply Bool.eq_true_iff_eq. rewrite !existsb_exists. split.
      + intros [t [Hin Hi]]. destruct (proj1 (existsb_exists _ _) (H1 t Hin)) as [t' [Hin' Hk]].
        exists t'. split; [exact Hin'|]. rewrite <- (IHts t Hin t' v Hk). exact Hi.
      + intros [u [Hin Hi]]. destruct (proj1 (existsb_exists _ _) (H2 u Hin)) as [t [Hin' Hk]].
        exists t. split; [exact Hin'|]. rewrite (IHts t Hin' u v Hk). exact Hi.
    - cbn [rc_inst]. destruct v; try reflexivity; apply IHt; exact H.
  Qed.

  (* ---- UniqueTypes keeps, for every type handed in, a type with the same hash key ---- *)
  Lemma cdedup_from_cover l : forall seen t, In t l ->
    exists s, (In s seen \/ In s (cdedup_from seen l)) /\ (s = t \/ ckeq s t = true).
  Proof.
    induction l as [|x r IH]; intros seen t Hin; [contradiction|]. cbn [cdedup_from].
    destruct (existsb (fun s => ckeq s x) seen) eqn:E.
    - destruct Hin as [->|Hin].
      + apply existsb_exists in E as [s [Hs Hk]]. exists s. split; [left; exact Hs|right; exact Hk].
      + exact (IH seen t Hin).
    - destruct Hin as [->|Hin].
      + exists t. split; [right; left; reflexivity|left; reflexivity].
      + destruct (IH (seen ++ [x]) t Hin) as [s [[Hs|Hs] Hk]].
        * apply in_app_or in Hs as [Hs|[->|[]]].
          -- exists s. split; [left; exact Hs|exact Hk].
          -- exists s. split; [right; left; reflexivity|exact Hk].
        * exists s. split; [right; right; exact Hs|exact Hk].
  Qed.

  Lemma cdedup_cover l t : In t l -> exists s, In s (cdedup l) /\ (s = t \/ ckeq s t = true).
  Proof.
    intros Hin. destruct l as [|a [|b r]].
    - contradiction.
    - exists t. split; [exact Hin|left; reflexivity].
    - change (cdedup (a :: b :: r)) with (cdedup_from [] (a :: b :: r)).
      destruct (cdedup_from_cover (a :: b :: r) [] t Hin) as [s [[[]|Hs] Hk]]. exists s. split; assumption.
  Qed.

  (* the Variant NewVariantType builds of UniqueTypes(l) has the instances of every member of l *)
  Lemma variant_inst l t v : In t l -> inst t v = true -> inst (cmk_variant (cdedup l)) v = true.
  Proof.
    intros Hin Hi. destruct (cdedup_cover l t Hin) as [s [Hs Hk]].
    assert (Hsv : inst s v = true) by (destruct Hk as [->|Hk]; [exact Hi|rewrite (ckeq_inst s t v Hk); exact Hi]).
    destruct (cdedup l) as [|a [|b r]].
    - contradiction.
    - destruct Hs as [->|[]]. exact Hsv.
    - cbn [cmk_variant rc_inst]. apply existsb_exists. exists s. split; assumption.
  Qed.

  Lemma walk_map (f : rv -> ct) vs : Forall (fun v => inst (f v) v = true) vs -> walk inst (map f vs) vs = true.
  Proof.
    induction 1 as [|v r Hv Hr IH]; [reflexivity|].
    destruct r as [|v2 r2].
    - cbn [map walk forallb]. rewrite Hv. reflexivity.
    - change (walk inst (map f (v :: v2 :: r2)) (v :: v2 :: r2)) with (inst (f v) v && walk inst (map f (v2 :: r2)) (v2 :: r2)).
      rewrite Hv, IH. reflexivity.
  Qed.

  Lemma rc_detailed_arr vs : vs <> [] -> detailed (RVArr vs) = CTuple (map detailed vs) (zlen vs) (zlen vs).
  Proof. destruct vs; [congruence|reflexivity]. Qed.

  Lemma rc_detailed_hash es : es <> [] ->
    detailed (RVHash es) =
      if forallb (fun e => is_name (fst e)) es then COut
      else CHash (cmk_variant (cdedup (map (fun e => match e with (k, _) => detailed k end) es)))
                 (cmk_variant (cdedup (map (fun e => match e with (_, x) => detailed x end) es)))
                 (zlen es) (zlen es).
  Proof. destruct es; [congruence|reflexivity]. Qed.

  Lemma rv_ok_hash es : es <> [] ->
    rv_ok (RVHash es) = negb (forallb (fun e => is_name (fst e)) es) &&
                        forallb (fun e => match e with (k, x) => rv_ok k && rv_ok x end) es.
  Proof. destruct es; [congruence|reflexivity]. Qed.

  (* ---- every value is an instance of its detailed type: reflexivity of AssignableTo is all it takes ---- *)
  Section Refl.
    Hypothesis gasg_refl : forall x, gasg x x = true.

    Lemma rc_detailed_inst v : rv_ok v = true -> inst (detailed v) v = true.
    Proof.
      induction v as [|z|s|g|vs IH|es IH] using rv_ind'; intros Hok.
      - reflexivity.
      - cbn [rc_detailed rc_inst]. apply in_size_refl.
      - cbn [rc_detailed rc_inst]. apply str_eqb_refl.
      - cbn [rc_detailed rc_inst]. apply rt_infer_inst. exact gasg_refl.
      - destruct vs as [|x r] eqn:Evs; [reflexivity|]. rewrite <- Evs in *.
        assert (Hne : vs <> []) by (rewrite Evs; discriminate).
        rewrite (rc_detailed_arr vs Hne). cbn [rc_inst]. rewrite in_size_refl. cbn [andb].
        apply walk_map. cbn [rv_ok] in Hok. rewrite forallb_forall in Hok. rewrite Forall_forall in IH |- *.
        intros w Hw. exact (IH w Hw (Hok w Hw)).
      - destruct es as [|e r] eqn:Ees; [reflexivity|]. rewrite <- Ees in *.
        assert (Hne : es <> []) by (rewrite Ees; discriminate).
        rewrite (rv_ok_hash es Hne) in Hok. apply andb_prop in Hok as [Hn Hf]. apply negb_true_iff in Hn.
        rewrite (rc_detailed_hash es Hne), Hn. cbn [rc_inst]. rewrite in_size_refl. cbn [andb].
        rewrite forallb_forall in Hf. rewrite Forall_forall in IH. apply forallb_forall. intros [k x] Hin.
        specialize (Hf _ Hin). cbn beta iota in Hf. apply andb_prop in Hf as [Hk Hx].
        destruct (IH _ Hin) as [IHk IHx]. cbn [fst snd] in IHk, IHx |- *.
        apply andb_true_intro. split.
        + apply (variant_inst _ (detailed k)); [|exact (IHk Hk)].
          exact (in_map (fun e : rv * rv => match e with (k0, _) => detailed k0 end) es (k, x) Hin).
        + apply (variant_inst _ (detailed x)); [|exact (IHx Hx)].
          exact (in_map (fun e : rv * rv => match e with (_, x0) => detailed x0 end) es (k, x) Hin).
    Qed.
  End Refl.
End CollProofs.
