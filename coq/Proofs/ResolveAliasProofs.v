(* C06: the walk over a set of alias declarations (Model/ResolveAlias.v) ends, and which outcome it has. *)
From Coq Require Import List Arith Bool Lia.
Import ListNotations.
From PcoreV Require Import Model.ResolveAlias.

Local Arguments Nat.eqb : simpl never.

Definition names (st : state) : list nat := map fst st.

Lemma lookup_in_names st n v : lookup st n = Some v -> In n (names st).
Proof.
  induction st as [|[m w] st IH]; cbn [lookup names map fst]; [discriminate|].
  destruct (Nat.eqb m n) eqn:E.
  - apply Nat.eqb_eq in E. intros _. now left.
  - intros H. right. now apply IH.
Qed.

Lemma lookup_in st n v : lookup st n = Some v -> In (n, v) st.
Proof.
  induction st as [|[m w] st IH]; cbn [lookup]; [discriminate|].
  destruct (Nat.eqb m n) eqn:E.
  - apply Nat.eqb_eq in E. intros [= ->]. subst. now left.
  - intros H. right. now apply IH.
Qed.

Lemma lookup_set_slot st n s m :
  lookup (set_slot st n s) m =
  if Nat.eqb m n then option_map (fun v => (fst v, s)) (lookup st m) else lookup st m.
Proof.
  induction st as [|[k [d s0]] st IH]; cbn [set_slot map lookup fst snd].
  - now destruct (Nat.eqb m n).
  - fold (set_slot st n s). destruct (Nat.eqb k n) eqn:Ekn; cbn [lookup fst snd].
    + destruct (Nat.eqb k m) eqn:Ekm.
      * apply Nat.eqb_eq in Ekn, Ekm. subst. rewrite Nat.eqb_refl. reflexivity.
      * exact IH.
    + destruct (Nat.eqb k m) eqn:Ekm.
      * apply Nat.eqb_eq in Ekm. subst. rewrite Ekn. reflexivity.
      * exact IH.
Qed.

Lemma length_set_slot st n s : length (set_slot st n s) = length st.
Proof. apply map_length. Qed.

(* ---- the walk up the parents (objecttype.go:1337-1362) ends: every round adds a declared alias that has not been
        seen, so there are at most as many rounds as declarations, plus the one that answers ---- *)

Lemma existsb_eqb_false n seen : existsb (Nat.eqb n) seen = false -> ~ In n seen.
Proof.
  intros H Hin. assert (existsb (Nat.eqb n) seen = true) as Ht.
  { apply existsb_exists. exists n. split; [exact Hin | apply Nat.eqb_refl]. }
  congruence.
Qed.

Lemma rp_loop_ends st : forall fuel seen tp,
  NoDup seen -> incl seen (names st) -> S (length (names st)) <= fuel + length seen ->
  rp_loop fuel st seen tp <> POutOfFuel.
Proof.
  induction fuel as [|f IH]; intros seen tp Hnd Hincl Hlen.
  - pose proof (NoDup_incl_length Hnd Hincl). cbn in Hlen. lia.
  - cbn [rp_loop]. destruct tp; try discriminate.
    destruct (existsb (Nat.eqb n) seen) eqn:Eseen; [discriminate|].
    destruct (lookup st n) as [[d [| |t]]|] eqn:Elk; try discriminate.
    apply IH.
    + constructor; [now apply existsb_eqb_false | exact Hnd].
    + intros x [<-|Hx]; [eapply lookup_in_names; eassumption | now apply Hincl].
    + cbn [length]. lia.
Qed.

Lemma resolved_parent_ends st tp : resolved_parent st tp <> POutOfFuel.
Proof.
  unfold resolved_parent. apply rp_loop_ends.
  - constructor.
  - intros x [].
  - unfold names. rewrite map_length. cbn [length]. lia.
Qed.

(* ---- weights ---- *)

Lemma weight_set_slot_le st n s : s <> SUnres -> weight (set_slot st n s) <= weight st.
Proof.
  intros Hs. induction st as [|[k [d s0]] st IH]; cbn [set_slot map weight fst snd]; [lia|].
  fold (set_slot st n s). destruct (Nat.eqb k n).
  - destruct s; [congruence| |]; destruct s0; cbn [weight]; lia.
  - destruct s0; cbn [weight]; lia.
Qed.

Lemma weight_enter st n d s :
  lookup st n = Some (d, SUnres) -> s <> SUnres -> S (esize d) + weight (set_slot st n s) <= weight st.
Proof.
  intros Hlk Hs. induction st as [|[k [d0 s0]] st IH]; cbn [lookup] in Hlk; [discriminate|].
  cbn [set_slot map weight fst snd]. fold (set_slot st n s).
  destruct (Nat.eqb k n) eqn:E.
  - injection Hlk as -> ->. pose proof (weight_set_slot_le st n s Hs).
    destruct s; [congruence| |]; cbn [weight]; lia.
  - specialize (IH Hlk). destruct s0; cbn [weight]; lia.
Qed.

(* ---- totality of the three mutually recursive walks ---- *)

Definition good (w b : nat) (r : rres) : Prop :=
  match r with
  | ROutOfFuel => False
  | RErr _ => True
  | ROk st t => weight st <= w /\ tsize t <= b
  end.

Lemma name_type_size st n : tsize (name_type st n) = 2.
Proof. unfold name_type. now destruct (lookup st n). Qed.

Lemma walk_total : forall fuel,
  (forall st e, esize e + weight st <= fuel -> good (weight st) (esize e) (dt_resolve fuel st e)) /\
  (forall st n, 1 + weight st <= fuel -> good (weight st) 2 (alias_resolve fuel st n)) /\
  (forall st t, tsize t + weight st <= fuel -> good (weight st) (tsize t) (ty_resolve fuel st t)).
Proof.
  induction fuel as [|f [IHd [IHa IHt]]].
  - repeat split.
    + intros st e H. destruct e; cbn [esize] in H; lia.
    + intros st n H. lia.
    + intros st t H. destruct t; cbn [tsize] in H; lia.
  - repeat split.
    + (* DeferredType.Resolve *)
      intros st e H. destruct e as [|n|k a|k a b|a|n a| |p]; cbn [esize] in H; cbn [dt_resolve good esize tsize].
      * split; lia.
      * rewrite name_type_size. split; lia.
      * specialize (IHd st a ltac:(lia)). destruct (dt_resolve f st a) as [st1 ta| |]; cbn [rbind good] in *; [|exact I|exact IHd].
        cbn [tsize]. lia.
      * pose proof (IHd st a ltac:(lia)) as Ha. destruct (dt_resolve f st a) as [st1 ta| |]; cbn [rbind good] in *; [|exact I|exact Ha].
        pose proof (IHd st1 b ltac:(lia)) as Hb. destruct (dt_resolve f st1 b) as [st2 tb| |]; cbn [rbind good] in *; [|exact I|exact Hb].
        cbn [tsize]. lia.
      * specialize (IHd st a ltac:(lia)). destruct (dt_resolve f st a) as [st1 ta| |]; cbn [good] in *; [|exact I|exact IHd]. lia.
      * specialize (IHd st a ltac:(lia)). destruct (dt_resolve f st a) as [st1 ta| |]; cbn [rbind good] in *; [|exact I|exact IHd].
        destruct (lookup st1 n); exact I.
      * cbn [tsize]. split; lia.
      * pose proof (IHd st p ltac:(lia)) as Hp. destruct (dt_resolve f st p) as [st1 tp| |]; cbn [rbind good] in *; [|exact I|exact Hp].
        pose proof (IHt st1 tp ltac:(lia)) as Ht. destruct (ty_resolve f st1 tp) as [st2 tp'| |]; cbn [rbind good] in *; [|exact I|exact Ht].
        pose proof (resolved_parent_ends st2 tp') as Hrp.
        destruct (resolved_parent st2 tp'); cbn [good tsize]; try exact I; [lia | congruence].
    + (* TypeAliasType.Resolve *)
      intros st n H. cbn [alias_resolve].
      destruct (lookup st n) as [[d [| |t]]|] eqn:Elk; cbn [good tsize]; try (split; lia).
      pose proof (weight_enter st n d SResolving Elk ltac:(discriminate)) as Hw.
      specialize (IHd (set_slot st n SResolving) d ltac:(lia)).
      destruct (dt_resolve f (set_slot st n SResolving) d) as [st1 t| |]; cbn [rbind good] in *; [|exact I|exact IHd].
      pose proof (weight_set_slot_le st1 n (SDone t) ltac:(discriminate)). cbn [tsize]. lia.
    + (* Resolve of a type value *)
      intros st t H. destruct t as [|n|n|k a|k a b|]; cbn [tsize] in H; cbn [ty_resolve good tsize].
      * split; lia.
      * destruct (lookup st n); [|exact I].
        specialize (IHa st n ltac:(lia)). destruct (alias_resolve f st n); cbn [good] in *; auto.
      * specialize (IHa st n ltac:(lia)). destruct (alias_resolve f st n); cbn [good] in *; auto.
      * specialize (IHt st a ltac:(lia)). destruct (ty_resolve f st a) as [st1 ta| |]; cbn [rbind good] in *; [|exact I|exact IHt].
        cbn [tsize]. lia.
      * pose proof (IHt st a ltac:(lia)) as Ha. destruct (ty_resolve f st a) as [st1 ta| |]; cbn [rbind good] in *; [|exact I|exact Ha].
        pose proof (IHt st1 b ltac:(lia)) as Hb. destruct (ty_resolve f st1 b) as [st2 tb| |]; cbn [rbind good] in *; [|exact I|exact Hb].
        cbn [tsize]. lia.
      * split; lia.
Qed.

Lemma dt_resolve_total st e fuel : esize e + weight st <= fuel -> dt_resolve fuel st e <> ROutOfFuel.
Proof.
  intros H E. pose proof (proj1 (walk_total fuel) st e H) as G. rewrite E in G. exact G.
Qed.

Lemma alias_resolve_total st n fuel : 1 + weight st <= fuel -> alias_resolve fuel st n <> ROutOfFuel.
Proof.
  intros H E. pose proof (proj1 (proj2 (walk_total fuel)) st n H) as G. rewrite E in G. exact G.
Qed.

Lemma resolve_names_total fuel : forall ns st, 1 + weight st <= fuel -> resolve_names fuel st ns <> ROutOfFuel.
Proof.
  induction ns as [|n ns IH]; intros st H; cbn [resolve_names]; [discriminate|].
  pose proof (proj1 (proj2 (walk_total fuel)) st n H) as G.
  destruct (alias_resolve fuel st n) as [st1 t| |]; cbn [rbind good] in *; [|discriminate|contradiction].
  apply IH. lia.
Qed.

Lemma resolve_all_total decls : resolve_all decls <> ROutOfFuel.
Proof. unfold resolve_all, set_fuel. apply resolve_names_total. lia. Qed.

Lemma resolve_in_total decls e : resolve_in decls e <> ROutOfFuel.
Proof. unfold resolve_in. apply dt_resolve_total. lia. Qed.

(* ---- which outcome ---- *)

(* no Object type written in place with a parent, no arguments to a name that is no core type *)
Fixpoint plain (e : aexp) : bool :=
  match e with
  | XCore | XName _ | XObj0 => true
  | XCont1 _ a | XVar1 a => plain a
  | XCont2 _ a b => plain a && plain b
  | XArgs _ _ | XObj _ => false
  end.

Lemma plain_resolves : forall fuel st e, plain e = true -> esize e <= fuel -> exists t, dt_resolve fuel st e = ROk st t.
Proof.
  induction fuel as [|f IH]; intros st e Hp Hs.
  - destruct e; cbn [esize] in Hs; lia.
  - destruct e as [|n|k a|k a b|a|n a| |p]; cbn [plain esize] in Hp, Hs; cbn [dt_resolve]; try discriminate; eauto.
    + destruct (IH st a Hp ltac:(lia)) as [t ->]. cbn [rbind]. eauto.
    + apply andb_true_iff in Hp as [Ha Hb].
      destruct (IH st a Ha ltac:(lia)) as [ta ->]. cbn [rbind].
      destruct (IH st b Hb ltac:(lia)) as [tb ->]. cbn [rbind]. eauto.
    + apply IH; [exact Hp | lia].
Qed.

Definition done (st : state) (n : nat) : Prop := exists d t, lookup st n = Some (d, SDone t).

(* every declaration is plain and small enough for the fuel, no alias is under resolution *)
Definition inv (fuel : nat) (st : state) : Prop :=
  Forall (fun x => plain (fst (snd x)) = true /\ esize (fst (snd x)) < fuel /\ snd (snd x) <> SResolving) st.

Lemma set_slot_twice st n s s' : set_slot (set_slot st n s) n s' = set_slot st n s'.
Proof.
  unfold set_slot. rewrite map_map. apply map_ext. intros [k [d s0]]. cbn [fst snd].
  destruct (Nat.eqb k n) eqn:E; cbn [fst snd]; rewrite E; reflexivity.
Qed.

Lemma inv_set_slot fuel st n s : s <> SResolving -> inv fuel st -> inv fuel (set_slot st n s).
Proof.
  unfold inv, set_slot. intros Hs H. apply Forall_map. eapply Forall_impl; [|exact H].
  intros [k [d s0]] Hx. cbn [fst snd] in *. destruct (Nat.eqb k n); cbn [fst snd]; tauto.
Qed.

Lemma names_set_slot st n s : names (set_slot st n s) = names st.
Proof.
  unfold names, set_slot. rewrite map_map. apply map_ext. intros [k [d s0]]. cbn [fst snd].
  destruct (Nat.eqb k n); reflexivity.
Qed.

Lemma in_names_lookup st n : In n (names st) -> exists v, lookup st n = Some v.
Proof.
  induction st as [|[k v] st IH]; cbn [names map fst In lookup]; [contradiction|].
  intros H. destruct (Nat.eqb k n) eqn:E; [eauto|].
  destruct H as [->|H]; [rewrite Nat.eqb_refl in E; discriminate | now apply IH].
Qed.

Lemma plain_alias_resolve fuel st n :
  inv fuel st -> In n (names st) ->
  exists st1, alias_resolve fuel st n = ROk st1 (TAlias n) /\ inv fuel st1 /\ names st1 = names st /\
              done st1 n /\ (forall m, done st m -> done st1 m).
Proof.
  intros Hinv Hin. destruct (in_names_lookup st n Hin) as [[d s] Elk].
  pose proof (lookup_in _ _ _ Elk) as Hmem. pose proof Hinv as Hall. unfold inv in Hall.
  rewrite Forall_forall in Hall. destruct (Hall _ Hmem) as [Hp [Hs Hr]]. cbn [fst snd] in Hp, Hs, Hr.
  destruct fuel as [|f]; [lia|]. cbn [alias_resolve]. rewrite Elk.
  destruct s as [| |t]; [|congruence|].
  - destruct (plain_resolves f (set_slot st n SResolving) d Hp ltac:(lia)) as [t ->]. cbn [rbind].
    rewrite set_slot_twice. eexists. split; [reflexivity|]. split; [|split; [|split]].
    + apply inv_set_slot; [discriminate | exact Hinv].
    + apply names_set_slot.
    + exists d, t. rewrite lookup_set_slot, Nat.eqb_refl, Elk. reflexivity.
    + intros m [dm [tm Hm]]. unfold done. rewrite lookup_set_slot.
      destruct (Nat.eqb m n) eqn:E.
      * apply Nat.eqb_eq in E. subst. congruence.
      * exists dm, tm. exact Hm.
  - eexists. split; [reflexivity|]. split; [exact Hinv|]. split; [reflexivity|]. split; [|auto]. exists d, t. exact Elk.
Qed.

Lemma plain_resolve_names fuel : forall ns st,
  inv fuel st -> incl ns (names st) ->
  exists st1, resolve_names fuel st ns = ROk st1 TCore /\ names st1 = names st /\
              (forall m, In m ns -> done st1 m) /\ (forall m, done st m -> done st1 m).
Proof.
  induction ns as [|n ns IH]; intros st Hinv Hincl; cbn [resolve_names].
  - exists st. split; [reflexivity|]. split; [reflexivity|]. split; [intros m []|auto].
  - destruct (plain_alias_resolve fuel st n Hinv (Hincl n (or_introl eq_refl))) as [st1 [-> [Hinv1 [Hn1 [Hd1 Hk1]]]]].
    cbn [rbind].
    destruct (IH st1 Hinv1) as [st2 [-> [Hn2 [Hd2 Hk2]]]].
    { intros x Hx. rewrite Hn1. apply Hincl. now right. }
    exists st2. split; [reflexivity|]. split; [congruence|]. split; [|auto].
    intros m [<-|Hm]; auto.
Qed.

Lemma weight_init_ge decls n d : In (n, d) decls -> S (esize d) <= weight (init_state decls).
Proof.
  induction decls as [|[k e] decls IH]; cbn [In init_state map weight fst snd]; [contradiction|].
  fold (init_state decls). intros [[= -> ->]|H]; [lia | specialize (IH H); lia].
Qed.

(* a set of declarations without an Object parent written in place and without arguments to an alias resolves: every
   alias gets a resolved type - whatever refers to whatever, in a circle or not, declared or not *)
Lemma plain_set_resolves decls :
  forallb (fun d => plain (snd d)) decls = true ->
  exists st, resolve_all decls = ROk st TCore /\ forall n, In n (map fst decls) -> done st n.
Proof.
  intros Hp. unfold resolve_all.
  assert (names (init_state decls) = map fst decls) as Hn.
  { unfold names, init_state. rewrite map_map. reflexivity. }
  destruct (plain_resolve_names (set_fuel decls) (map fst decls) (init_state decls)) as [st [-> [_ [Hd _]]]].
  - unfold inv, init_state. apply Forall_map. apply Forall_forall. intros [n d] Hin. cbn [fst snd].
    rewrite forallb_forall in Hp. split; [exact (Hp _ Hin)|]. split; [|discriminate].
    unfold set_fuel. pose proof (weight_init_ge decls n d Hin). fold (init_state decls). lia.
  - rewrite Hn. apply incl_refl.
  - exists st. split; [reflexivity | exact Hd].
Qed.

(* an undeclared name is no error where it stands: it becomes a TypeReference *)
Lemma undeclared_is_reference st n f : lookup st n = None -> dt_resolve (S f) st (XName n) = ROk st (TRef n).
Proof. intros H. cbn [dt_resolve]. unfold name_type. now rewrite H. Qed.

(* .. it is the reported error PCORE_UNRESOLVED_TYPE as soon as something asks it to resolve: as the parent of an
   Object type, directly or inside a container *)
Lemma undeclared_parent st n f :
  lookup st n = None -> dt_resolve (S (S f)) st (XObj (XName n)) = RErr EUnresolvedType.
Proof. intros H. cbn [dt_resolve rbind]. unfold name_type. rewrite H. cbn [ty_resolve]. now rewrite H. Qed.

Lemma undeclared_parent_in_container st n k f :
  lookup st n = None -> dt_resolve (S (S (S f))) st (XObj (XCont1 k (XName n))) = RErr EUnresolvedType.
Proof. intros H. cbn [dt_resolve rbind]. unfold name_type. rewrite H. cbn [ty_resolve rbind]. now rewrite H. Qed.

(* Name[argument]: NOT_PARAMETERIZED_TYPE for a declared alias, ILLEGAL_ARGUMENT_TYPE (the creator of TypeReference)
   for an undeclared name - after the argument has been resolved *)
Lemma alias_with_arguments st n a f :
  plain a = true -> esize a <= f ->
  exists t, dt_resolve f st a = ROk st t /\
  dt_resolve (S f) st (XArgs n a) =
    RErr (match lookup st n with
          | Some _ => ENotParameterized
          | None => worded EIllegalArgument EIllegalArgumentOrUnresolved (print_pred st t)
          end).
Proof.
  intros Hp Hs. destruct (plain_resolves f st a Hp Hs) as [t Ht]. exists t. split; [exact Ht|].
  cbn [dt_resolve]. rewrite Ht. cbn [rbind]. now destruct (lookup st n).
Qed.

(* the alias that is being resolved as the parent of an Object type inside its own expression (fix 32b5790: the
   re-entrant request returns the alias as it is) is PCORE_UNRESOLVED_TYPE; so is an alias nobody has resolved yet whose
   own expression is plain but ends in an alias that has no type yet *)
Lemma parent_under_resolution st n d f :
  lookup st n = Some (d, SResolving) -> dt_resolve (S (S (S f))) st (XObj (XName n)) = RErr EUnresolvedType.
Proof.
  intros H. cbn [dt_resolve rbind]. unfold name_type. rewrite H. cbn [ty_resolve alias_resolve]. rewrite H. cbn [rbind].
  unfold resolved_parent. cbn [rp_loop existsb]. now rewrite H.
Qed.

(* an alias of itself (A = A, A = Variant[A]) that has been resolved is an illegal parent: the walk meets it twice *)
Lemma print_pred_alias st n : print_pred st (TAlias n) = PFine.
Proof. unfold print_pred. now destruct (tainted st (TAlias n)). Qed.

Lemma self_alias_parent st n d f :
  lookup st n = Some (d, SDone (TAlias n)) -> dt_resolve (S (S (S f))) st (XObj (XName n)) = RErr EIllegalInheritance.
Proof.
  intros H. cbn [dt_resolve rbind]. unfold name_type. rewrite H. cbn [ty_resolve alias_resolve]. rewrite H. cbn [rbind].
  unfold resolved_parent, illegal_parent_type. destruct st as [|x st]; [discriminate|].
  cbn [length rp_loop rp_culprit existsb]. rewrite H.
  cbn [existsb]. rewrite Nat.eqb_refl. cbn [orb]. rewrite print_pred_alias. reflexivity.
Qed.

(* a resolved alias of a type that is no Object and no alias is an illegal parent; the error is worded with that
   type, and the wording decides which error leaves *)
Lemma non_object_parent st n d t f :
  lookup st n = Some (d, SDone t) -> (match t with TObj | TAlias _ => False | _ => True end) ->
  dt_resolve (S (S (S f))) st (XObj (XName n)) =
    RErr (worded EIllegalInheritance EIllegalInheritanceOrUnresolved (print_pred st t)).
Proof.
  intros H Ht. cbn [dt_resolve rbind]. unfold name_type. rewrite H. cbn [ty_resolve alias_resolve]. rewrite H. cbn [rbind].
  unfold resolved_parent, illegal_parent_type. destruct st as [|x st]; [discriminate|].
  cbn [length rp_loop rp_culprit existsb]. rewrite H.
  destruct t; cbn [rp_loop rp_culprit]; try reflexivity; contradiction.
Qed.
