(* SerReentProofs.v — conversions that overlap on one Serializer object (Model/SerReent.v): whatever the
   schedule, every consumer receives the stream of its own conversion, as if it had run alone. *)
From Coq Require Import ZArith NArith Bool Lia.
From PcoreV Require Import Model.Base Model.Ser Model.SerReent Proofs.SerProofs Proofs.SerWfProofs Proofs.SerDeserProofs.
From Coq Require Import List.
Import ListNotations.
Local Open Scope nat_scope.

Section ReentProofs.
Context {payload : Type}.
Context (to_s : str -> payload -> str).

Lemma convert_env_new : forall (o : opts) (c : caps), convert_env (new_serializer o) c = env_of o c.
Proof. intros o c. reflexivity. Qed.

(* NewSerializer followed by one Convert is `serialize` of Model/Ser.v *)
Lemma convert_new : forall (o : opts) (c : caps) (x : @rvalue payload),
  convert to_s (new_serializer o) c x = serialize to_s o c x.
Proof. intros o c x. reflexivity. Qed.

(* the invariant of the world: the object is the one NewSerializer made, and what a consumer has received
   followed by what it will still receive is the stream of its conversion run alone *)
Definition conv_ok (o : opts) (cv : @conv payload) : Prop :=
  cv_done cv ++ cv_todo cv = serialize to_s o (cv_caps cv) (cv_val cv).

Definition world_ok (o : opts) (w : @world payload) : Prop :=
  w_ser w = new_serializer o /\ Forall (conv_ok o) (w_convs w).

Lemma deliver_nth_ok : forall (o : opts) (i : nat) (l l' : list (@conv payload)),
  Forall (conv_ok o) l -> deliver_nth i l = Some l' -> Forall (conv_ok o) l'.
Proof.
  intros o i. induction i as [|i IH]; intros l l' Hall Hd; destruct l as [|cv l0]; cbn [deliver_nth] in Hd; try discriminate.
  - destruct (cv_todo cv) as [|ev t] eqn:Et; [discriminate|].
    injection Hd as <-. inversion Hall as [|? ? Hcv Hl0]; subst. constructor; [|exact Hl0].
    unfold conv_ok in *. cbn [cv_done cv_todo cv_caps cv_val]. rewrite <- app_assoc. cbn [app].
    rewrite <- Hcv, Et. reflexivity.
  - destruct (deliver_nth i l0) as [r|] eqn:Er; cbn [option_map] in Hd; [|discriminate].
    injection Hd as <-. inversion Hall as [|? ? Hcv Hl0]; subst. constructor; [exact Hcv|].
    exact (IH _ _ Hl0 Er).
Qed.

Lemma step_ok : forall (o : opts) (w w' : @world payload) (a : action),
  world_ok o w -> step to_s w a = Some w' -> world_ok o w'.
Proof.
  intros o w w' a [Hs Hall] Hst. destruct a as [c x|i]; cbn [step] in Hst.
  - injection Hst as <-. split; [exact Hs|]. cbn [w_convs].
    apply Forall_app. split; [exact Hall|]. constructor; [|constructor].
    unfold conv_ok. cbn [cv_done cv_todo cv_caps cv_val app]. rewrite Hs. apply convert_new.
  - destruct (deliver_nth i (w_convs w)) as [l'|] eqn:Ed; cbn [option_map] in Hst; [|discriminate].
    injection Hst as <-. split; [exact Hs|]. cbn [w_convs]. exact (deliver_nth_ok _ _ _ _ Hall Ed).
Qed.

Lemma run_ok : forall (o : opts) (acts : list action) (w w' : @world payload),
  world_ok o w -> run to_s w acts = Some w' -> world_ok o w'.
Proof.
  intros o acts. induction acts as [|a acts IH]; intros w w' Hw Hr; cbn [run] in Hr.
  - injection Hr as <-. exact Hw.
  - destruct (step to_s w a) as [w1|] eqn:Es; [|discriminate].
    exact (IH _ _ (step_ok _ _ _ _ Hw Es) Hr).
Qed.

Lemma world0_ok : forall o, world_ok o (world0 o).
Proof. intros o. split; [reflexivity|constructor]. Qed.

(* every schedule: each consumer has received a prefix of the stream of its own conversion, and will receive the rest *)
Theorem reent_streams : forall (o : opts) (acts : list action) (w : @world payload),
  run to_s (world0 o) acts = Some w ->
  Forall (fun cv => cv_done cv ++ cv_todo cv = serialize to_s o (cv_caps cv) (cv_val cv)) (w_convs w).
Proof. intros o acts w Hr. exact (proj2 (run_ok _ _ _ _ (world0_ok o) Hr)). Qed.

(* a conversion that has returned delivered exactly the stream of a conversion run alone *)
Theorem reent_finished : forall (o : opts) (acts : list action) (w : @world payload) (cv : conv),
  run to_s (world0 o) acts = Some w -> In cv (w_convs w) -> finished cv = true ->
  cv_done cv = serialize to_s o (cv_caps cv) (cv_val cv).
Proof.
  intros o acts w cv Hr Hin Hf. pose proof (reent_streams _ _ _ Hr) as Hall.
  rewrite Forall_forall in Hall. specialize (Hall _ Hin). unfold finished in Hf.
  destruct (cv_todo cv); [|discriminate]. rewrite app_nil_r in Hall. exact Hall.
Qed.

(* the conversions of the world are the Start actions of the schedule, in order *)
Fixpoint conv_starts (acts : list (@action payload)) : list (caps * @rvalue payload) :=
  match acts with
  | [] => []
  | Start c x :: acts' => (c, x) :: conv_starts acts'
  | Deliver _ :: acts' => conv_starts acts'
  end.

Definition conv_heads (l : list (@conv payload)) : list (caps * @rvalue payload) :=
  map (fun cv => (cv_caps cv, cv_val cv)) l.

Lemma deliver_nth_heads : forall (i : nat) (l l' : list (@conv payload)),
  deliver_nth i l = Some l' -> conv_heads l' = conv_heads l.
Proof.
  intros i. induction i as [|i IH]; intros l l' Hd; destruct l as [|cv l0]; cbn [deliver_nth] in Hd; try discriminate.
  - destruct (cv_todo cv); [discriminate|]. injection Hd as <-. reflexivity.
  - destruct (deliver_nth i l0) as [r|] eqn:Er; cbn [option_map] in Hd; [|discriminate].
    injection Hd as <-. unfold conv_heads in *. cbn [map]. f_equal. exact (IH _ _ Er).
Qed.

Lemma run_heads : forall (acts : list action) (w w' : @world payload),
  run to_s w acts = Some w' -> conv_heads (w_convs w') = conv_heads (w_convs w) ++ conv_starts acts.
Proof.
  intros acts. induction acts as [|a acts IH]; intros w w' Hr; cbn [run] in Hr.
  - injection Hr as <-. cbn [conv_starts]. rewrite app_nil_r. reflexivity.
  - destruct (step to_s w a) as [w1|] eqn:Es; [|discriminate]. rewrite (IH _ _ Hr).
    destruct a as [c x|i]; cbn [step] in Es; cbn [conv_starts].
    + injection Es as <-. cbn [w_convs]. unfold conv_heads. rewrite map_app. cbn [map cv_caps cv_val].
      rewrite <- app_assoc. reflexivity.
    + destruct (deliver_nth i (w_convs w)) as [l'|] eqn:Ed; cbn [option_map] in Es; [|discriminate].
      injection Es as <-. cbn [w_convs]. rewrite (deliver_nth_heads _ _ _ Ed). reflexivity.
Qed.

Theorem reent_conversions : forall (o : opts) (acts : list action) (w : @world payload),
  run to_s (world0 o) acts = Some w -> conv_heads (w_convs w) = conv_starts acts.
Proof. intros o acts w Hr. rewrite (run_heads _ _ _ Hr). reflexivity. Qed.

(* the clauses of the property for a conversion that overlapped with any others *)
Theorem reent_stream_wf : forall (o : opts) (acts : list action) (w : @world payload) (cv : conv),
  run to_s (world0 o) acts = Some w -> In cv (w_convs w) -> finished cv = true ->
  wf_stream (env_of o (cv_caps cv)) (cv_done cv) = true.
Proof.
  intros o acts w cv Hr Hin Hf. rewrite (reent_finished _ _ _ _ Hr Hin Hf). apply stream_wf.
Qed.

Theorem reent_roundtrip : forall (of_s : str -> str -> option payload),
  (forall tn p, of_s tn (to_s tn p) = Some p) ->
  forall (o : opts) (acts : list action) (w : @world payload) (cv : conv),
    run to_s (world0 o) acts = Some w -> In cv (w_convs w) -> finished cv = true ->
    wf_rich (cv_val cv) -> rt_ok to_s (env_of o (cv_caps cv)) (cv_val cv) = true ->
    bind (collect (cv_done cv)) (deser of_s) = Ok (expected (env_of o (cv_caps cv)) (cv_val cv)).
Proof.
  intros of_s Hinv o acts w cv Hr Hin Hf Hwf Hrt.
  rewrite (reent_finished _ _ _ _ Hr Hin Hf).
  exact (roundtrip_rich to_s of_s Hinv o (cv_caps cv) (cv_val cv) Hwf Hrt).
Qed.

End ReentProofs.
