(* Model/InferRuntimeColl.v: a type of the layer that accepts the detailed type of a value has the value as an instance.
   `fits v D`: D describes v as a detailed type does, up to equality of hash keys (which is what UniqueTypes leaves of the
   key / value types of a hash): closed under ckeq on the type (fits_cong), true of the detailed type (detailed_fits), and
   enough for soundness (rc_sound).  No hypothesis on reflect. *)
From Coq Require Import ZArith NArith Bool List Lia.
From PcoreV Require Import Model.Base Model.Lattice Model.InferRuntime Model.InferRuntimeColl Proofs.InferRuntimeProofs Proofs.InferRuntimeCollProofs.
Import ListNotations.
Open Scope Z_scope.

Definition covers (f : ct -> bool) (K : ct) : bool := f K || match K with CVariant L => existsb f L | _ => false end.
Definition is_cunit (t : ct) : bool := match t with CUnit => true | _ => false end.

Lemma zlen_cons_pos {A} (x : A) r : (zlen (x :: r) <=? 0) = false.
Proof. unfold zlen. cbn [length]. apply Z.leb_gt. lia. Qed.

Section Sound.
  Variable gasg : N -> N -> bool.
  Variable tname : N -> str.
  Notation inst := (rc_inst gasg tname).
  Notation asg := (rc_asg gasg).
  Notation detailed := (rc_detailed tname).

  Fixpoint fits (v : rv) (D : ct) {struct v} : bool :=
    match v with
    | RVUndef => match D with CUndef => true | _ => false end
    | RVInt z => match D with CInt lo hi => Z.eqb lo z && Z.eqb hi z | _ => false end
    | RVStr s => match D with CStrVal s' => str_eqb s' s | _ => false end
    | RVGo g => match D with CRt r => rty_eqb r (rt_of tname g) | _ => false end
    | RVArr vs =>
        match vs with
        | [] => match D with CArr e lo hi => is_cunit e && Z.eqb lo 0 && Z.eqb hi 0 | _ => false end
        | _ => match D with
               | CTuple ts lo hi => Z.eqb lo (zlen vs) && Z.eqb hi (zlen vs) && all2 fits vs ts
               | _ => false
               end
        end
    | RVHash es =>
        match es with
        | [] => match D with CHash k x lo hi => is_cunit k && is_cunit x && Z.eqb lo 0 && Z.eqb hi 0 | _ => false end
        | _ => match D with
               | CHash K V lo hi =>
                   Z.eqb lo (zlen es) && Z.eqb hi (zlen es) &&
                   forallb (fun e => match e with (k, x) => covers (fits k) K && covers (fits x) V end) es
               | _ => false
               end
        end
    end.

  Fixpoint cpairs (ts os : list ct) {struct ts} : bool :=
    match ts, os with
    | [], _ => true
    | _, [] => true
    | [t], o :: os' => asg t o && forallb (asg t) os'
    | t :: ts', [o] => asg t o && forallb (fun t' => asg t' o) ts'
    | t :: ts', o :: os' => asg t o && cpairs ts' os'
    end.

  (* a.IsAssignable(b, g) once GuardedIsAssignable has decomposed b *)
  Definition recv (a b : ct) : bool :=
    match a with
    | CAny | CUnit => true
    | CUndef => match b with CUndef => true | _ => false end
    | CInt lo hi => match b with CInt lo' hi' => size_sub lo hi lo' hi' | _ => false end
    | CString => match b with CString | CStrVal _ => true | _ => false end
    | CStrVal s => match b with CStrVal s' => str_eqb s s' | _ => false end
    | CRt r => match b with CRt o => rt_asg gasg r o | _ => false end
    | CArr e lo hi =>
        match b with
        | CArr e' lo' hi' => size_sub lo hi lo' hi' && ((hi' <=? 0) || asg e e')
        | CTuple ts lo' hi' =>
            size_sub lo hi lo' hi' && ((hi' <=? 0) || match ts with [] => asg e CAny | _ => forallb (asg e) ts end)
        | _ => false
        end
    | CHash k v lo hi =>
        match b with
        | CHash k' v' lo' hi' => size_sub lo hi lo' hi' && ((hi' <=? 0) || (asg k k' && asg v v'))
        | _ => false
        end
    | CTuple ts lo hi =>
        match b with
        | CArr e' lo' hi' => size_sub lo hi lo' hi' && ((hi' <=? 0) || forallb (fun t => asg t e') ts)
        | CTuple os lo' hi' =>
            size_sub lo hi lo' hi' &&
            match ts with
            | [] => true
            | _ => (hi' <=? 0) || match os with [] => forallb (fun t => asg t CAny) ts | _ => cpairs ts os end
            end
        | _ => false
        end
    | CVariant ts => existsb (fun t => asg t b) ts
    | COptional t => cflat_undef b || asg t b
    | COut => false
    end.

  Lemma rc_asg_unfold a b :
    asg a b = if is_cany a then true else
              match b with
              | CUnit => true
              | COptional ot => if cnullable a then asg a ot else false
              | CVariant ts => forallb (asg a) ts
              | _ => recv a b
              end.
  Proof. destruct a; destruct b; reflexivity. Qed.

  Lemma asg_variant a L : asg a (CVariant L) = is_cany a || forallb (asg a) L.
  Proof. rewrite rc_asg_unfold. destruct (is_cany a); reflexivity. Qed.

  Lemma asg_fits T D v : fits v D = true -> asg T D = is_cany T || recv T D.
  Proof.
    intros Hf. rewrite rc_asg_unfold. destruct (is_cany T); [reflexivity|]. cbn [orb].
    destruct D; try reflexivity; destruct v as [|z|s|g|[|x r]|[|e r]]; discriminate Hf.
  Qed.

  Lemma walk_nil ts : walk inst ts [] = true.
  Proof. destruct ts as [|t [|t2 r]]; reflexivity. Qed.

  Definition snd_at (T : ct) : Prop := forall D v, fits v D = true -> asg T D = true -> inst T v = true.

  Lemma arr_sound e : snd_at e -> forall vs ts, all2 fits vs ts = true -> forallb (asg e) ts = true -> forallb (inst e) vs = true.
  Proof.
    intros He. induction vs as [|v vs IH]; intros ts Hf Ha; [reflexivity|].
    destruct ts as [|t ts]; [discriminate|]. cbn [all2] in Hf. cbn [forallb] in Ha |- *.
    apply andb_prop in Hf as [Hf1 Hf2]. apply andb_prop in Ha as [Ha1 Ha2].
    rewrite (He t v Hf1 Ha1), (IH ts Hf2 Ha2). reflexivity.
  Qed.

  Lemma all2_nil_r vs : all2 fits vs [] = true -> vs = [].
  Proof. destruct vs; [reflexivity|discriminate]. Qed.

  Lemma tuple_sound ts : Forall snd_at ts -> forall os vs, all2 fits vs os = true -> cpairs ts os = true -> walk inst ts vs = true.
  Proof.
    induction 1 as [|t ts' Ht Hts IH]; intros os vs Hf Hp; [reflexivity|].
    destruct vs as [|v vs']; [apply walk_nil|].
    destruct os as [|o os']; [discriminate|]. cbn [all2] in Hf. apply andb_prop in Hf as [Hf1 Hf2].
    destruct ts' as [|t2 ts2].
    - cbn [cpairs] in Hp. apply andb_prop in Hp as [Hp1 Hp2]. cbn [walk].
      rewrite (Ht o v Hf1 Hp1), (arr_sound t Ht vs' os' Hf2 Hp2). reflexivity.
    - destruct os' as [|o2 os2].
      + apply all2_nil_r in Hf2. subst vs'. cbn [cpairs] in Hp. apply andb_prop in Hp as [Hp1 _].
        change (walk inst (t :: t2 :: ts2) [v]) with (inst t v && walk inst (t2 :: ts2) []).
        rewrite (Ht o v Hf1 Hp1), walk_nil. reflexivity.
      + change (cpairs (t :: t2 :: ts2) (o :: o2 :: os2)) with (asg t o && cpairs (t2 :: ts2) (o2 :: os2)) in Hp.
        apply andb_prop in Hp as [Hp1 Hp2].
        change (walk inst (t :: t2 :: ts2) (v :: vs')) with (inst t v && walk inst (t2 :: ts2) vs').
        rewrite (Ht o v Hf1 Hp1), (IH (o2 :: os2) vs' Hf2 Hp2). reflexivity.
  Qed.

  Lemma covers_sound k K ki : snd_at k -> covers (fits ki) K = true -> asg k K = true -> inst k ki = true.
  Proof.
    intros Hk Hc Ha. unfold covers in Hc. apply orb_prop in Hc as [Hc|Hc]; [exact (Hk K ki Hc Ha)|].
    destruct K; try discriminate. apply existsb_exists in Hc as [u [Hin Hu]].
    rewrite asg_variant in Ha. apply orb_prop in Ha as [Ha|Ha].
    - destruct k; try discriminate. reflexivity.
    - rewrite forallb_forall in Ha. exact (Hk u ki Hu (Ha u Hin)).
  Qed.

  (* ---- fits is closed under equality of hash keys ---- *)
  Lemma fits_arr x r D :
    fits (RVArr (x :: r)) D =
      match D with
      | CTuple ts lo hi => Z.eqb lo (zlen (x :: r)) && Z.eqb hi (zlen (x :: r)) && all2 fits (x :: r) ts
      | _ => false
      end.
  Proof. reflexivity. Qed.

  Lemma fits_hash e r D :
    fits (RVHash (e :: r)) D =
      match D with
      | CHash K V lo hi =>
          Z.eqb lo (zlen (e :: r)) && Z.eqb hi (zlen (e :: r)) &&
          forallb (fun e => match e with (k, x) => covers (fits k) K && covers (fits x) V end) (e :: r)
      | _ => false
      end.
  Proof. reflexivity. Qed.

  Definition fcong (v : rv) : Prop := forall s D, ckeq s D = true -> fits v D = true -> fits v s = true.

  Lemma all2_fits_cong vs : Forall fcong vs ->
    forall ts' ts, all2 ckeq ts' ts = true -> all2 fits vs ts = true -> all2 fits vs ts' = true.
  Proof.
    induction 1 as [|v vs Hv Hvs IH]; intros ts' ts Hk Hf.
    - destruct ts; [|discriminate]. destruct ts'; [reflexivity|discriminate].
    - destruct ts as [|t ts]; [discriminate|]. destruct ts' as [|t' ts']; [discriminate|].
      cbn [all2] in Hk, Hf |- *. apply andb_prop in Hk as [Hk1 Hk2]. apply andb_prop in Hf as [Hf1 Hf2].
      rewrite (Hv t' t Hk1 Hf1), (IH ts' ts Hk2 Hf2). reflexivity.
  Qed.

  Lemma covers_cong k : fcong k -> forall K' K, ckeq K' K = true -> covers (fits k) K = true -> covers (fits k) K' = true.
  Proof.
    intros Hk K' K Hq Hc. unfold covers in Hc |- *. apply orb_prop in Hc as [Hc|Hc].
    - rewrite (Hk K' K Hq Hc). reflexivity.
    - destruct K; try discriminate. destruct K'; cbn [ckeq] in Hq; try discriminate.
      apply andb_prop in Hq as [_ H2]. rewrite forallb_forall in H2. apply existsb_exists in Hc as [u [Hin Hu]].
      destruct (proj1 (existsb_exists _ _) (H2 u Hin)) as [t [Hint Hk2]].
      apply orb_true_intro. right. apply existsb_exists. exists t. split; [exact Hint|exact (Hk t u Hk2 Hu)].
  Qed.

  Lemma is_cunit_ckeq a b : ckeq a b = true -> is_cunit b = true -> is_cunit a = true.
  Proof. destruct b; try discriminate. destruct a; try discriminate. reflexivity. Qed.

  Lemma fits_cong v : fcong v.
  Proof.
    induction v as [|z|s0|g|vs IH|es IH] using rv_ind'; intros s D Hq Hf.
    - destruct D; try discriminate. destruct s; try discriminate. reflexivity.
    - destruct D; try discriminate. destruct s; try discriminate. cbn [ckeq] in Hq. cbn [fits] in Hf |- *.
      apply andb_prop in Hq as [H1 H2]. apply Z.eqb_eq in H1. apply Z.eqb_eq in H2. subst. exact Hf.
    - destruct D; try discriminate. destruct s; try discriminate. cbn [ckeq] in Hq. cbn [fits] in Hf |- *.
      apply str_eqb_eq in Hq. subst. exact Hf.
    - destruct D; try discriminate. destruct s; try discriminate. cbn [ckeq] in Hq. cbn [fits] in Hf |- *.
      apply rty_eqb_eq in Hq. subst. exact Hf.
    - destruct vs as [|x r].
      + destruct D; try discriminate. destruct s; try discriminate. cbn [ckeq] in Hq. cbn [fits] in Hf |- *.
        apply andb_prop in Hq as [Hq H2]. apply andb_prop in Hq as [Hq H1]. apply Z.eqb_eq in H1. apply Z.eqb_eq in H2. subst.
        apply andb_prop in Hf as [Hf F2]. apply andb_prop in Hf as [Hf F1].
        rewrite (is_cunit_ckeq _ _ Hq Hf), F1, F2. reflexivity.
      + rewrite fits_arr in Hf |- *. destruct D; try discriminate. destruct s; cbn [ckeq] in Hq; try discriminate.
        apply andb_prop in Hq as [Hq H2]. apply andb_prop in Hq as [Hq H1]. apply Z.eqb_eq in H1. apply Z.eqb_eq in H2. subst.
        apply andb_prop in Hf as [Hf F2]. rewrite Hf. cbn [andb]. exact (all2_fits_cong _ IH _ _ Hq F2).
    - destruct es as [|e r].
      + destruct D; try discriminate. destruct s; try discriminate. cbn [ckeq] in Hq. cbn [fits] in Hf |- *.
        apply andb_prop in Hq as [Hq H2]. apply andb_prop in Hq as [Hq H1]. apply andb_prop in Hq as [Hk Hx].
        apply Z.eqb_eq in H1. apply Z.eqb_eq in H2. subst.
        apply andb_prop in Hf as [Hf F2]. apply andb_prop in Hf as [Hf F1]. apply andb_prop in Hf as [Fk Fx].
        rewrite (is_cunit_ckeq _ _ Hk Fk), (is_cunit_ckeq _ _ Hx Fx), F1, F2. reflexivity.
      + rewrite fits_hash in Hf |- *. destruct D; try discriminate. destruct s; cbn [ckeq] in Hq; try discriminate.
        apply andb_prop in Hq as [Hq H2]. apply andb_prop in Hq as [Hq H1]. apply andb_prop in Hq as [Hk Hx].
        apply Z.eqb_eq in H1. apply Z.eqb_eq in H2. subst.
        apply andb_prop in Hf as [Hf F2]. rewrite Hf. cbn [andb].
        rewrite forallb_forall in F2. rewrite Forall_forall in IH. apply forallb_forall. intros [k x] Hin.
        specialize (F2 _ Hin). cbn beta iota in F2. apply andb_prop in F2 as [Fk Fx].
        destruct (IH _ Hin) as [IHk IHx]. cbn [fst snd] in IHk, IHx.
        rewrite (covers_cong k IHk _ _ Hk Fk), (covers_cong x IHx _ _ Hx Fx). reflexivity.
  Qed.

  (* ---- the detailed type fits ---- *)
  Lemma all2_fits_map (f : rv -> ct) vs : Forall (fun v => fits v (f v) = true) vs -> all2 fits vs (map f vs) = true.
  Proof. induction 1 as [|v vs Hv Hvs IH]; [reflexivity|]. cbn [map all2]. rewrite Hv, IH. reflexivity. Qed.

  Lemma covers_dedup k l t : In t l -> fits k t = true -> covers (fits k) (cmk_variant (cdedup l)) = true.
  Proof.
    intros Hin Hf. destruct (cdedup_cover l t Hin) as [s [Hs Hk]].
    assert (Hsf : fits k s = true) by (destruct Hk as [->|Hk]; [exact Hf|exact (fits_cong k s t Hk Hf)]).
    unfold covers. destruct (cdedup l) as [|a [|b r]].
    - contradiction.
    - destruct Hs as [->|[]]. cbn [cmk_variant]. rewrite Hsf. reflexivity.
    - cbn [cmk_variant]. apply orb_true_intro. right. apply existsb_exists. exists s. split; assumption.
  Qed.

  Lemma detailed_fits v : rv_ok v = true -> fits v (detailed v) = true.
  Proof.
    induction v as [|z|s|g|vs IH|es IH] using rv_ind'; intros Hok.
    - reflexivity.
    - cbn [rc_detailed fits]. rewrite Z.eqb_refl. reflexivity.
    - cbn [rc_detailed fits]. apply str_eqb_refl.
    - cbn [rc_detailed fits]. unfold rt_of, rty_eqb. cbn [r_runtime r_name r_pat r_go opt_str_eqb].
      rewrite !str_eqb_refl, N.eqb_refl. reflexivity.
    - destruct vs as [|x r]; [reflexivity|].
      rewrite (rc_detailed_arr tname (x :: r)) by discriminate. rewrite fits_arr, Z.eqb_refl. cbn [andb].
      apply all2_fits_map. cbn [rv_ok] in Hok. rewrite forallb_forall in Hok. rewrite Forall_forall in IH |- *.
      intros w Hw. exact (IH w Hw (Hok w Hw)).
    - destruct es as [|e r]; [reflexivity|].
      rewrite (rv_ok_hash (e :: r)) in Hok by discriminate. apply andb_prop in Hok as [Hn Hf]. apply negb_true_iff in Hn.
      rewrite (rc_detailed_hash tname (e :: r)) by discriminate. rewrite Hn, fits_hash, Z.eqb_refl. cbn [andb].
      rewrite forallb_forall in Hf. rewrite Forall_forall in IH. apply forallb_forall. intros [k x] Hin.
      specialize (Hf _ Hin). cbn beta iota in Hf. apply andb_prop in Hf as [Hk Hx].
      destruct (IH _ Hin) as [IHk IHx]. cbn [fst snd] in IHk, IHx.
      apply andb_true_intro. split.
      + apply (covers_dedup k _ (detailed k)); [|exact (IHk Hk)].
        exact (in_map (fun e0 : rv * rv => match e0 with (k0, _) => detailed k0 end) (e :: r) (k, x) Hin).
      + apply (covers_dedup x _ (detailed x)); [|exact (IHx Hx)].
        exact (in_map (fun e0 : rv * rv => match e0 with (_, x0) => detailed x0 end) (e :: r) (k, x) Hin).
  Qed.

  (* ---- soundness: a type that accepts a description of v has v as an instance ---- *)
  Ltac dv v := destruct v as [|?z|?s|?g|[|?x ?r]|[|?e ?r]].

  Lemma size_in lo hi n : size_sub lo hi n n = in_size lo hi n.
  Proof. reflexivity. Qed.

  Lemma rc_sound T : snd_at T.
  Proof.
    induction T as [| | |lo hi| |s|r|e lo hi IHe|k x lo hi IHk IHx|ts lo hi IHts|ts IHts|t IHt|] using ct_ind';
      intros D v Hf Ha; rewrite (asg_fits _ _ _ Hf) in Ha; cbn [is_cany orb recv] in Ha.
    - reflexivity.
    - reflexivity.
    - destruct D; try discriminate. dv v; try discriminate Hf. reflexivity.
    - destruct D; try discriminate. dv v; try discriminate Hf. cbn [fits] in Hf. cbn [rc_inst].
      apply andb_prop in Hf as [H1 H2]. apply Z.eqb_eq in H1. apply Z.eqb_eq in H2. subst. exact Ha.
    - destruct D; try discriminate; dv v; try discriminate Hf; reflexivity.
    - destruct D; try discriminate. dv v; try discriminate Hf. cbn [fits] in Hf. cbn [rc_inst].
      apply str_eqb_eq in Hf. subst. exact Ha.
    - destruct D; try discriminate. dv v; try discriminate Hf. cbn [fits] in Hf. cbn [rc_inst].
      apply rty_eqb_eq in Hf. subst. rewrite <- rt_accepts_iff. exact Ha.
    - (* Array *)
      destruct D; try discriminate; dv v; try discriminate Hf.
      + cbn [fits] in Hf. apply andb_prop in Hf as [Hf F2]. apply andb_prop in Hf as [_ F1].
        apply Z.eqb_eq in F1. apply Z.eqb_eq in F2. subst.
        apply andb_prop in Ha as [Ha _]. cbn [rc_inst forallb]. change (zlen (@nil rv)) with 0.
        rewrite <- size_in, Ha, orb_true_r. reflexivity.
      + rewrite fits_arr in Hf. apply andb_prop in Hf as [Hf F3]. apply andb_prop in Hf as [F1 F2].
        apply Z.eqb_eq in F1. apply Z.eqb_eq in F2. subst.
        apply andb_prop in Ha as [Ha1 Ha2]. rewrite zlen_cons_pos in Ha2. cbn [orb] in Ha2.
        cbn [rc_inst]. rewrite <- size_in, Ha1. cbn [andb].
        destruct ts as [|t0 ts0]; [discriminate F3|].
        rewrite (arr_sound e IHe _ _ F3 Ha2). apply orb_true_r.
    - (* Hash *)
      destruct D; try discriminate; dv v; try discriminate Hf.
      + cbn [fits] in Hf. apply andb_prop in Hf as [Hf F2]. apply andb_prop in Hf as [_ F1].
        apply Z.eqb_eq in F1. apply Z.eqb_eq in F2. subst.
        apply andb_prop in Ha as [Ha _]. cbn [rc_inst forallb]. change (zlen (@nil (rv * rv))) with 0.
        rewrite <- size_in, Ha. reflexivity.
      + rewrite fits_hash in Hf. apply andb_prop in Hf as [Hf F3]. apply andb_prop in Hf as [F1 F2].
        apply Z.eqb_eq in F1. apply Z.eqb_eq in F2. subst.
        apply andb_prop in Ha as [Ha1 Ha2]. rewrite zlen_cons_pos in Ha2. cbn [orb] in Ha2. apply andb_prop in Ha2 as [Ak Ax].
        cbn [rc_inst]. rewrite <- size_in, Ha1. cbn [andb].
        rewrite forallb_forall in F3. apply forallb_forall. intros [ki xi] Hin. specialize (F3 _ Hin). cbn beta iota in F3.
        apply andb_prop in F3 as [Fk Fx]. cbn [fst snd].
        rewrite (covers_sound k _ ki IHk Fk Ak), (covers_sound x _ xi IHx Fx Ax). reflexivity.
    - (* Tuple *)
      destruct D; try discriminate; dv v; try discriminate Hf.
      + cbn [fits] in Hf. apply andb_prop in Hf as [Hf F2]. apply andb_prop in Hf as [_ F1].
        apply Z.eqb_eq in F1. apply Z.eqb_eq in F2. subst.
        apply andb_prop in Ha as [Ha _]. cbn [rc_inst]. change (zlen (@nil rv)) with 0.
        rewrite <- size_in, Ha, walk_nil. reflexivity.
      + rewrite fits_arr in Hf. apply andb_prop in Hf as [Hf F3]. apply andb_prop in Hf as [F1 F2].
        apply Z.eqb_eq in F1. apply Z.eqb_eq in F2. subst.
        apply andb_prop in Ha as [Ha1 Ha2]. cbn [rc_inst]. rewrite <- size_in, Ha1. cbn [andb].
        destruct ts as [|t0 tsr]; [reflexivity|]. rewrite zlen_cons_pos in Ha2. cbn [orb] in Ha2.
        destruct ts0 as [|o0 os0]; [discriminate F3|].
        exact (tuple_sound _ IHts _ _ F3 Ha2).
    - (* Variant *)
      apply existsb_exists in Ha as [t [Hin Ht]]. rewrite Forall_forall in IHts.
      cbn [rc_inst]. apply existsb_exists. exists t. split; [exact Hin|exact (IHts t Hin D v Hf Ht)].
    - (* Optional *)
      apply orb_prop in Ha as [Ha|Ha].
      + destruct D; try discriminate Ha; dv v; try discriminate Hf. reflexivity.
      + pose proof (IHt D v Hf Ha) as Hi. cbn [rc_inst]. destruct v; try exact Hi. reflexivity.
    - discriminate.
  Qed.

  (* a type of the layer that accepts the detailed type of a value has the value as an instance: no hypothesis on
     reflect (neither reflexivity nor transitivity of AssignableTo), no condition on UniqueTypes *)
  Theorem rc_detailed_sound T v : rv_ok v = true -> asg T (detailed v) = true -> inst T v = true.
  Proof. intros Hok. apply rc_sound. apply detailed_fits. exact Hok. Qed.
End Sound.
