(* ObjNestRep.v - C17, nested family: EVERY form that denotes an instance (Model/ObjNest.v `repb`: nested objects as
   instances or as init-hashes, in any mixture and at any depth, attributes that hold their declared value given or left
   out) is taken by the named dispatcher and coerced to that instance; hence the named creator builds the SAME object from
   every such form (rep_named_new).  Induction over the type, mutually over a type and its member / attribute list. *)
From Coq Require Import ZArith NArith Bool List.
From PcoreV Require Import Model.Base Model.ObjNest Proofs.ObjNestProofs Proofs.ObjNestRound.
Import ListNotations.

(* ---- all2 ---- *)

Lemma all2_Forall2 {A B} (f : A -> B -> bool) (g : B -> bool) : forall l1 l2,
  all2 f l1 l2 = true -> forallb g l2 = true -> Forall2 (fun a b => f a b = true /\ g b = true) l1 l2.
Proof.
  induction l1 as [|a r1 IH]; intros [|b r2] E G; cbn [all2 forallb] in *; try discriminate; [constructor|].
  apply andb_true_iff in E. destruct E as [E1 E2]. apply andb_true_iff in G. destruct G as [G1 G2].
  constructor; [split; assumption|exact (IH _ E2 G2)].
Qed.

Lemma all2_Forall2_in {A B} (f : A -> B -> bool) : forall l1 l2 l2',
  all2 f l1 l2 = true -> incl l2 l2' -> Forall2 (fun a b => f a b = true /\ In b l2') l1 l2.
Proof.
  induction l1 as [|a r1 IH]; intros [|b r2] l2' E Hi; cbn [all2] in *; try discriminate; [constructor|].
  apply andb_true_iff in E. destruct E as [E1 E2].
  constructor; [split; [exact E1|apply Hi; left; reflexivity]|].
  apply (IH _ _ E2). intros y Hy. apply Hi. right. exact Hy.
Qed.

Lemma F2_impl {A B} (P Q : A -> B -> Prop) :
  (forall a b, P a b -> Q a b) -> forall l1 l2, Forall2 P l1 l2 -> Forall2 Q l1 l2.
Proof. intros H l1 l2 F. induction F as [|a b r1 r2 Hab _ IH]; constructor; [exact (H _ _ Hab)|exact IH]. Qed.

Lemma Forall2_all_some {A B} (f : A -> option B) l1 l2 :
  Forall2 (fun a b => f a = Some b) l1 l2 -> all_some (map f l1) = Some l2.
Proof.
  induction 1 as [|a b r1 r2 H _ IH]; cbn [map all_some]; [reflexivity|]. rewrite H, IH. reflexivity.
Qed.

Lemma Forall2_eq_if {A} (p : A -> bool) l1 l2 :
  Forall2 (fun a b => p a = true -> a = b) l1 l2 -> forallb p l1 = true -> l1 = l2.
Proof.
  induction 1 as [|a b r1 r2 H _ IH]; cbn [forallb]; [reflexivity|].
  intros E. apply andb_true_iff in E. destruct E as [E1 E2]. rewrite (H E1), (IH E2). reflexivity.
Qed.

Lemma Forall2_forallb {A B} (q : A -> bool) (l1 : list A) (l2 : list B) :
  Forall2 (fun a _ => q a = true) l1 l2 -> forallb q l1 = true.
Proof. induction 1 as [|a b r1 r2 H _ IH]; cbn [forallb]; [reflexivity|]. rewrite H, IH. reflexivity. Qed.

Lemma Forall2_keys (P : str * nvalue -> str * nvalue -> Prop) l1 l2 :
  Forall2 (fun a b => fst a = fst b /\ P a b) l1 l2 -> map fst l1 = map fst l2.
Proof. induction 1 as [|a b r1 r2 [H _] _ IH]; cbn [map]; [reflexivity|]. rewrite H, IH. reflexivity. Qed.

(* two hashes with the same keys in the same order, read by name *)
Lemma Forall2_nhget (P : str -> nvalue -> nvalue -> Prop) hx hv :
  Forall2 (fun a b => fst a = fst b /\ P (fst a) (snd a) (snd b)) hx hv ->
  forall k, match nhget hx k with
            | Some xa => exists vb, nhget hv k = Some vb /\ P k xa vb
            | None => nhget hv k = None
            end.
Proof.
  induction 1 as [|[ka xa] [kb vb] r1 r2 [H1 H2] _ IH]; intros k; cbn [nhget]; [reflexivity|].
  cbn [fst snd] in H1, H2. subst kb. destruct (str_eqb_spec ka k) as [He|Hn]; [subst ka; exists vb; split; [reflexivity|exact H2]|exact (IH k)].
Qed.

Lemma keys_known_keys ms h h' : map fst h = map fst h' -> keys_known ms h = keys_known ms h'.
Proof.
  intros K. unfold keys_known. rewrite K. f_equal.
  assert (F : forall l : list (str * nvalue), forallb (fun kv => nmem (fst kv) (nnames ms)) l
                                       = forallb (fun k => nmem k (nnames ms)) (map fst l)).
  { induction l as [|a r IH]; cbn [forallb map]; [reflexivity|]. rewrite IH. reflexivity. }
  rewrite (F h), (F h'), K. reflexivity.
Qed.

Lemma nhget_some_nmem h k v : nhget h k = Some v -> nmem k (map fst h) = true.
Proof.
  induction h as [|[k' v'] r IH]; cbn [nhget map fst nmem]; [discriminate|].
  destruct (str_eqb k' k); [reflexivity|exact IH].
Qed.

(* ---- member lists read by name ---- *)

Fixpoint mdef (t : nty) (k : str) : bool :=
  match t with
  | NCons k' d _ rest => if str_eqb k' k then (match d with Some _ => true | None => false end) else mdef rest k
  | _ => false
  end.

Lemma gm_none init t h k :
  ginst_members init t h = true -> nmem k (nnames t) = true -> nhget h k = None -> mdef t k = true.
Proof.
  induction t as [| |t' _|t' _|t' _| |k0 d vt0 _ rest IHr|ms _|n attrs _]; cbn [nnames nmem mdef ginst_members]; try discriminate.
  intros G Hk Hh. apply andb_true_iff in G. destruct G as [G1 G2].
  destruct (str_eqb_spec k0 k) as [He|Hn]; [|exact (IHr G2 Hk Hh)].
  subst k0. rewrite Hh in G1. exact G1.
Qed.

Lemma gm_intro init t : forall h, nnodup (nnames t) = true ->
  (forall k vt, mty t k = Some vt ->
     match nhget h k with Some v => ginst init vt v = true | None => mdef t k = true end) ->
  ginst_members init t h = true.
Proof.
  induction t as [| |t' _|t' _|t' _| |k0 d vt0 _ rest IHr|ms _|n attrs _]; intros h N H; cbn [ginst_members]; try reflexivity.
  cbn [nnames nnodup] in N. apply andb_true_iff in N. destruct N as [N1 N2]. apply negb_true_iff in N1.
  apply andb_true_iff. split.
  - specialize (H k0 vt0). cbn [mty mdef] in H. rewrite str_eqb_refl in H. specialize (H eq_refl).
    destruct (nhget h k0); exact H.
  - apply (IHr h N2). intros k vt Hm. specialize (H k vt). cbn [mty mdef] in H.
    destruct (str_eqb_spec k0 k) as [He|Hn]; [|exact (H Hm)].
    subst k0. exfalso. clear H. revert Hm N1. clear.
    induction rest as [| |t' _|t' _|t' _| |k1 d1 vt1 _ r1 IH1|ms _|n attrs _]; cbn [mty nnames nmem]; try discriminate.
    destruct (str_eqb k1 k); [discriminate|exact IH1].
Qed.

Lemma repb_entry_mty t k vt x v : mty t k = Some vt -> repb_entry t k x v = repb vt x v.
Proof.
  induction t as [| |t' _|t' _|t' _| |k0 d vt0 _ rest IHr|ms _|n attrs _]; cbn [mty repb_entry]; try discriminate.
  destruct (str_eqb k0 k); [intros E; inversion E; subst; reflexivity|exact IHr].
Qed.

(* ---- the claim ---- *)

Definition rc (t : nty) : Prop :=
  forall x v, ginst false t v = true -> repb t x v = true -> coerce t x = Some v /\ ginst true t x = true.

Lemma rc_eq t x v : ginst false t v = true -> nvalue_eqb x v = true -> coerce t x = Some v /\ ginst true t x = true.
Proof.
  intros G E. apply nvalue_eqb_eq in E. subst x. split; [exact (coerce_instance_id _ _ G)|exact (proj1 (ginst_false_true t) v G)].
Qed.

Lemma repb_undef t : forall x, repb t x NVUndef = true -> x = NVUndef.
Proof.
  induction t as [| |t' IH|t' IH|t' IH| |k d vt IHv rest IHr|ms IH|n attrs IH]; intros x E; cbn [repb] in E;
    apply orb_true_iff in E; destruct E as [E|E]; try (apply nvalue_eqb_eq in E; exact E); try discriminate E.
  - destruct x; try discriminate E; exfalso; apply IH in E; discriminate E.
  - destruct x; discriminate E.
  - destruct x; discriminate E.
  - destruct x; discriminate E.
  - destruct x; discriminate E.
Qed.

(* el of the named creator for a form h of the object vals: the attributes h gives, in layout order, with their instances *)
Fixpoint el_of (t : nty) (h : list (str * nvalue)) (vals : list nvalue) : list (str * nvalue) :=
  match t with
  | NCons k _ _ rest =>
    match vals with
    | v :: r => match nhget h k with Some _ => (k, v) :: el_of rest h r | None => el_of rest h r end
    | [] => []
    end
  | _ => []
  end.

Lemma el_of_get t h : forall vals k,
  nhget (el_of t h vals) k = match nhget h k with Some _ => nhget (zipv t vals) k | None => None end.
Proof.
  induction t as [| |t' _|t' _|t' _| |k0 d vt _ rest IHr|ms _|n attrs _]; intros vals k; cbn [el_of zipv nhget];
    try (destruct (nhget h k); reflexivity).
  destruct vals as [|v r]; [cbn [nhget]; destruct (nhget h k); reflexivity|].
  destruct (nhget h k0) as [x0|] eqn:E0; cbn [nhget]; destruct (str_eqb_spec k0 k) as [He|Hn].
  - subst k0. rewrite E0. reflexivity.
  - exact (IHr r k).
  - subst k0. rewrite IHr, E0. reflexivity.
  - exact (IHr r k).
Qed.

Lemma el_of_keys t h : forall vals kv, In kv (el_of t h vals) -> nmem (fst kv) (map fst h) = true.
Proof.
  induction t as [| |t' _|t' _|t' _| |k0 d vt _ rest IHr|ms _|n attrs _]; intros vals kv Hi; cbn [el_of] in Hi; try contradiction.
  destruct vals as [|v r]; [contradiction|]. destruct (nhget h k0) as [x0|] eqn:E0; [|exact (IHr _ _ Hi)].
  destruct Hi as [He|Hi]; [subst kv; exact (nhget_some_nmem _ _ _ E0)|exact (IHr _ _ Hi)].
Qed.

(* one walk over the attribute list for the three things the named creator does with the form h *)
Lemma obj_walk rest h : forall vals,
  allm rc rest -> ginst_vals false rest vals = true -> repb_vals rest h vals = true ->
  ginst_members true rest h = true /\ cattrs rest h = Some (el_of rest h vals).
Proof.
  induction rest as [| |t' _|t' _|t' _| |k d vt _ r IHr|ms _|n attrs _]; intros vals A G R;
    try (cbn [ginst_members cattrs el_of]; split; reflexivity).
  cbn [ginst_vals] in G. destruct vals as [|v r']; [discriminate|]. apply andb_true_iff in G. destruct G as [G1 G2].
  cbn [allm] in A. destruct A as [A1 A2]. cbn [repb_vals] in R. apply andb_true_iff in R. destruct R as [R1 R2].
  destruct (IHr r' A2 G2 R2) as [I1 I2]. cbn [ginst_members cattrs el_of]. rewrite I1, I2.
  destruct (nhget h k) as [x|].
  - destruct (A1 x v G1 R1) as [C1 C2]. rewrite coerce_unfold, C1, C2. split; reflexivity.
  - destruct d as [dv|]; [|discriminate R1]. split; reflexivity.
Qed.

Lemma build_rep rest h : forall vals m,
  nnodup (nnames rest) = true -> ginst_vals false rest vals = true -> repb_vals rest h vals = true ->
  (forall k, nmem k (nnames rest) = true ->
     nhget m k = match nhget h k with Some _ => nhget (zipv rest vals) k | None => None end) ->
  build rest m = Some vals.
Proof.
  induction rest as [| |t' _|t' _|t' _| |k d vt _ r IHr|ms _|n attrs _]; intros vals m N G R Hm; cbn [build];
    try (cbn [ginst_vals] in G; destruct vals; [reflexivity|discriminate]).
  cbn [ginst_vals] in G. destruct vals as [|v r']; [discriminate|]. apply andb_true_iff in G. destruct G as [G1 G2].
  cbn [nnames nnodup] in N. apply andb_true_iff in N. destruct N as [N1 N2]. apply negb_true_iff in N1.
  cbn [repb_vals] in R. apply andb_true_iff in R. destruct R as [R1 R2].
  assert (Hr : build r m = Some r').
  { apply (IHr r' m N2 G2 R2). intros k0 H0. rewrite (Hm k0); [|cbn [nnames nmem]; rewrite H0; apply orb_true_r].
    cbn [zipv nhget]. destruct (str_eqb_spec k k0) as [He|Hn]; [subst k0; congruence|reflexivity]. }
  rewrite (Hm k); [|cbn [nnames nmem]; rewrite str_eqb_refl; reflexivity]. cbn [zipv nhget]. rewrite str_eqb_refl, Hr.
  destruct (nhget h k) as [x|]; [reflexivity|].
  destruct d as [dv|]; [|discriminate R1]. apply nvalue_eqb_eq in R1. subst dv. reflexivity.
Qed.

Lemma csw_obj_rep n attrs h vals :
  allm rc attrs -> nnodup (nnames attrs) = true -> ginst_vals false attrs vals = true ->
  keys_known attrs h = true -> repb_vals attrs h vals = true ->
  csw (NObj n attrs) (NVHash h) = Some (NVObj n vals)
  /\ ginst_members true attrs h = true
  /\ cattrs attrs h = Some (el_of attrs h vals)
  /\ build attrs (nhmerge h (el_of attrs h vals)) = Some vals.
Proof.
  intros A N G K R. destruct (obj_walk attrs h vals A G R) as [W1 W2].
  assert (B : build attrs (nhmerge h (el_of attrs h vals)) = Some vals).
  { apply (build_rep attrs h vals _ N G R). intros k _. rewrite nhget_merge, el_of_get.
    destruct (nhget h k) as [x|] eqn:Eh; [|reflexivity].
    destruct (nhget (zipv attrs vals) k) eqn:Ez; [reflexivity|].
    (* h has k, so k is an attribute name (keys_known), so zipv has it *)
    exfalso. unfold keys_known in K. apply andb_true_iff in K. destruct K as [K1 _].
    assert (Hk : nmem k (nnames attrs) = true).
    { clear - K1 Eh. induction h as [|[k' v'] r IH]; cbn [nhget forallb fst] in *; [discriminate|].
      apply andb_true_iff in K1. destruct K1 as [Ka Kb].
      destruct (str_eqb_spec k' k) as [He|Hn]; [subst k'; exact Ka|exact (IH Kb Eh)]. }
    destruct (nhget_some (zipv attrs vals) k) as [z Hz]; [rewrite (zipv_keys _ _ G); exact Hk|]. congruence. }
  split; [|split; [exact W1|split; [exact W2|exact B]]].
  cbn [csw]. rewrite W2. cbv zeta.
  rewrite (keys_known_keys attrs _ h (merge_keys h _ (el_of_keys attrs h vals))), K, B. reflexivity.
Qed.

Lemma rc_all t : forall chk, nwf_at chk t = true -> rc t /\ allm rc t.
Proof.
  induction t as [| |t' IH|t' IH|t' IH| |k d vt IHv rest IHr|ms IH|n attrs IH]; intros chk W.
  - split; [|exact I]. intros x v G R. cbn [repb] in R. rewrite orb_false_r in R. exact (rc_eq _ _ _ G R).
  - split; [|exact I]. intros x v G R. cbn [repb] in R. rewrite orb_false_r in R. exact (rc_eq _ _ _ G R).
  - split; [|exact I]. cbn [nwf_at] in W. apply andb_true_iff in W. destruct W as [W Wo].
    apply andb_true_iff in W. destruct W as [W _]. destruct (IH _ W) as [C _].
    intros x v G R. cbn [repb] in R. apply orb_true_iff in R. destruct R as [R|R]; [exact (rc_eq _ _ _ G R)|].
    assert (Hx : x <> NVUndef) by (intros Hx; subst x; discriminate R).
    assert (R' : repb t' x v = true) by (destruct x; try exact R; congruence).
    destruct (ginst_opt_cases _ _ G) as [Hu|[Hn [G' _]]]; [subst v; apply repb_undef in R'; contradiction|].
    destruct (C x v G' R') as [C1 C2]. split.
    + unfold coerce, ninst in *. rewrite (ginst_opt_not_undef _ _ Hx).
      destruct (ginst false t' x); [exact C1|]. cbn [csw]. destruct t'; try exact C1. discriminate Wo.
    + cbn [ginst]. destruct x; try exact C2. reflexivity.
  - split; [|exact I]. cbn [nwf_at] in W. apply andb_true_iff in W. destruct W as [W _]. destruct (IH _ W) as [C _].
    intros x v G R. cbn [repb] in R. apply orb_true_iff in R. destruct R as [R|R]; [exact (rc_eq _ _ _ G R)|].
    destruct x as [| | |lx| |]; try discriminate R. destruct v as [| | |lv| |]; try discriminate R. cbn [ginst] in G.
    pose proof (all2_Forall2 _ _ _ _ R G) as F.
    assert (F' : Forall2 (fun a b => coerce t' a = Some b /\ ginst true t' a = true) lx lv).
    { refine (F2_impl _ _ _ _ _ F). intros a b [Ha Hb]. exact (C a b Hb Ha). }
    split.
    + assert (S : csw (NArr t') (NVArr lx) = Some (NVArr lv)).
      { cbn [csw]. rewrite (Forall2_all_some (fun x => if ginst false t' x then Some x else csw t' x) lx lv); [reflexivity|].
        refine (F2_impl _ _ _ _ _ F'). intros a b [Ha _]. exact Ha. }
      unfold coerce, ninst. destruct (ginst false (NArr t') (NVArr lx)) eqn:Gi; [|exact S]. cbn [ginst] in Gi.
      rewrite (Forall2_eq_if (ginst false t') lx lv); [reflexivity| |exact Gi].
      refine (F2_impl _ _ _ _ _ F'). intros a b [Ha _] Ga. exact (coerce_inst_eq _ _ _ Ha Ga).
    + cbn [ginst]. apply (Forall2_forallb (ginst true t') lx lv). refine (F2_impl _ _ _ _ _ F'). intros a b [_ Ha]. exact Ha.
  - split; [|exact I]. cbn [nwf_at] in W. apply andb_true_iff in W. destruct W as [W _]. destruct (IH _ W) as [C _].
    intros x v G R. cbn [repb] in R. apply orb_true_iff in R. destruct R as [R|R]; [exact (rc_eq _ _ _ G R)|].
    destruct x as [| | | |hx|]; try discriminate R. destruct v as [| | | |hv|]; try discriminate R. cbn [ginst] in G.
    pose proof (all2_Forall2 _ (fun kv : str * nvalue => ginst false t' (snd kv)) _ _ R G) as F.
    assert (F' : Forall2 (fun a b : str * nvalue => fst a = fst b /\ coerce t' (snd a) = Some (snd b) /\ ginst true t' (snd a) = true) hx hv).
    { refine (F2_impl _ _ _ _ _ F). intros a b [Ha Hb]. apply andb_true_iff in Ha. destruct Ha as [Ha1 Ha2].
      apply str_eqb_eq in Ha1. destruct (C _ _ Hb Ha2) as [C1 C2]. repeat split; assumption. }
    split.
    + assert (S : csw (NHashV t') (NVHash hx) = Some (NVHash hv)).
      { cbn [csw]. rewrite (Forall2_all_some (fun kv : str * nvalue => option_map (pair (fst kv))
                 (if ginst false t' (snd kv) then Some (snd kv) else csw t' (snd kv))) hx hv); [reflexivity|].
        refine (F2_impl _ _ _ _ _ F'). intros a [kb vb] [Ha [Hc _]]. cbn [fst snd] in *. rewrite coerce_unfold, Hc, Ha. reflexivity. }
      unfold coerce, ninst. destruct (ginst false (NHashV t') (NVHash hx)) eqn:Gi; [|exact S]. cbn [ginst] in Gi.
      rewrite (Forall2_eq_if (fun kv : str * nvalue => ginst false t' (snd kv)) hx hv); [reflexivity| |exact Gi].
      refine (F2_impl _ _ _ _ _ F'). intros [ka xa] [kb vb] [Ha [Hc _]] Ga. cbn [fst snd] in *.
      rewrite Ha, (coerce_inst_eq _ _ _ Hc Ga). reflexivity.
    + cbn [ginst]. apply (Forall2_forallb (fun kv : str * nvalue => ginst true t' (snd kv)) hx hv).
      refine (F2_impl _ _ _ _ _ F'). intros a b [_ [_ Ha]]. exact Ha.
  - split; [|exact I]. intros x v G R. discriminate G.
  - cbn [nwf_at] in W. repeat (apply andb_true_iff in W; destruct W as [W ?]).
    split; [intros x v G R; discriminate G|]. cbn [allm]. split; [exact (proj1 (IHv _ W))|exact (proj2 (IHr _ H2))].
  - split; [|exact I]. cbn [nwf_at] in W. apply andb_true_iff in W. destruct W as [W _].
    pose proof (proj2 (IH _ W)) as A. pose proof (nwf_names _ _ W) as N. clear IH.
    intros x v G R. cbn [repb] in R. apply orb_true_iff in R. destruct R as [R|R]; [exact (rc_eq _ _ _ G R)|].
    destruct x as [| | | |hx|]; try discriminate R. destruct v as [| | | |hv|]; try discriminate R.
    pose proof G as G0. cbn [ginst] in G. apply andb_true_iff in G. destruct G as [Gk Gm].
    pose proof Gk as Gk0. unfold keys_known in Gk. apply andb_true_iff in Gk. destruct Gk as [Gk1 Gk2].
    pose proof (proj1 (forallb_forall _ _) Gk1) as Gkn. cbv beta in Gkn.
    pose proof (all2_Forall2_in _ _ _ hv R (incl_refl _)) as F.
    (* per entry: same key, a member; the value of hv is an instance of the member's type and hx's entry coerces to it *)
    assert (F' : Forall2 (fun a b : str * nvalue => fst a = fst b /\
                   (fun k xa vb => exists vt, mty ms k = Some vt /\ coerce vt xa = Some vb /\ ginst true vt xa = true)
                     (fst a) (snd a) (snd b)) hx hv).
    { refine (F2_impl _ _ _ _ _ F). intros [ka xa] [kb vb] [Ha Hb]. cbn [fst snd] in *.
      apply andb_true_iff in Ha. destruct Ha as [Ha1 Ha2]. apply str_eqb_eq in Ha1. subst kb.
      split; [reflexivity|]. destruct (nmem_mty ms ka (Gkn _ Hb)) as [vt Hvt]. exists vt.
      pose proof (gm_get _ _ _ _ _ _ Gm Hvt (nhget_in _ _ _ Gk2 Hb)) as Gv.
      rewrite (repb_entry_mty _ _ _ _ _ Hvt) in Ha2. destruct (allm_mty _ _ A _ _ Hvt xa vb Gv Ha2) as [C1 C2].
      repeat split; assumption. }
    pose proof (Forall2_keys _ _ _ F') as Kx.
    assert (S : csw (NStruct ms) (NVHash hx) = Some (NVHash hv)).
    { cbn [csw].
      rewrite (Forall2_all_some (fun kv : str * nvalue => option_map (pair (fst kv)) (centry ms (fst kv) (snd kv))) hx hv).
      - rewrite G0. reflexivity.
      - refine (F2_impl _ _ _ _ _ F'). intros [ka xa] [kb vb] [Ha [vt [Hvt [Hc _]]]]. cbn [fst snd] in *.
        rewrite (centry_mty _ _ _ _ Hvt), Hc, Ha. reflexivity. }
    assert (Gt : ginst true (NStruct ms) (NVHash hx) = true).
    { cbn [ginst]. rewrite (keys_known_keys ms hx hv Kx), Gk0. cbn [andb].
      apply (gm_intro true ms hx N). intros k vt Hvt.
      pose proof (Forall2_nhget _ _ _ F' k) as Hk. cbv beta in Hk.
      destruct (nhget hx k) as [xa|].
      - destruct Hk as [vb [_ [vt' [Hvt' [_ Hg]]]]]. congruence.
      - refine (gm_none _ _ _ _ Gm _ Hk). clear - Hvt.
        induction ms as [| |t' _|t' _|t' _| |k1 d1 vt1 _ r1 IH1|ms' _|n attrs _]; cbn [mty nnames nmem] in *; try discriminate.
        destruct (str_eqb k1 k); [reflexivity|exact (IH1 Hvt)]. }
    split; [|exact Gt].
    unfold coerce, ninst. destruct (ginst false (NStruct ms) (NVHash hx)) eqn:Gi; [|exact S].
    cbn [ginst] in Gi. apply andb_true_iff in Gi. destruct Gi as [Gik Gim].
    unfold keys_known in Gik. apply andb_true_iff in Gik. destruct Gik as [_ Gik2].
    pose proof (all2_Forall2_in _ _ _ hv R (incl_refl _)) as Fb. clear F.
    assert (E : hx = hv); [|rewrite E; reflexivity].
    (* every entry of hx is an instance of its member type, so it is what it coerces to *)
    assert (Hin : forall a, In a hx -> exists vt, mty ms (fst a) = Some vt /\ ginst false vt (snd a) = true).
    { intros [ka xa] Ha. cbn [fst snd].
      assert (Hm : nmem ka (nnames ms) = true).
      { rewrite <- (keys_known_keys ms hx hv Kx) in Gk0. unfold keys_known in Gk0. apply andb_true_iff in Gk0.
        destruct Gk0 as [Gx _]. exact (proj1 (forallb_forall _ _) Gx _ Ha). }
      destruct (nmem_mty ms ka Hm) as [vt Hvt]. exists vt. split; [exact Hvt|].
      exact (gm_get _ _ _ _ _ _ Gim Hvt (nhget_in _ _ _ Gik2 Ha)). }
    clear - F' Hin. induction F' as [|[ka xa] [kb vb] r1 r2 [Ha [vt [Hvt [Hc _]]]] _ IHF]; [reflexivity|].
    cbn [fst snd] in *. subst kb. destruct (Hin (ka, xa) (or_introl eq_refl)) as [vt' [Hvt' Gx]]. cbn [fst snd] in *.
    assert (vt' = vt) by congruence. subst vt'. rewrite (coerce_inst_eq _ _ _ Hc Gx).
    rewrite IHF; [reflexivity|]. intros a Hi. apply Hin. right. exact Hi.
  - split; [|exact I]. cbn [nwf_at] in W. apply andb_true_iff in W. destruct W as [W _].
    pose proof (proj2 (IH _ W)) as A. pose proof (nwf_names _ _ W) as N. clear IH.
    intros x v G R. cbn [repb] in R. apply orb_true_iff in R. destruct R as [R|R]; [exact (rc_eq _ _ _ G R)|].
    destruct x as [| | | |h|]; try discriminate R. destruct v as [| | | | |m vals]; try discriminate R.
    apply andb_true_iff in R. destruct R as [R Rv]. apply andb_true_iff in R. destruct R as [Rn Rk].
    apply str_eqb_eq in Rn. subst m. cbn [ginst] in G. apply andb_true_iff in G. destruct G as [_ Gv].
    destruct (csw_obj_rep n attrs h vals A N Gv Rk Rv) as [S [Gm _]].
    split; [unfold coerce, ninst; cbn [ginst andb]; exact S|]. cbn [ginst andb]. rewrite Rk, Gm. reflexivity.
Qed.

(* every form that denotes the instance v is an instance of typeAndInit(t) and coerceTo gives v *)
Lemma rep_coerce t x v :
  nwf t = true -> ninst t v = true -> repb t x v = true -> coerce t x = Some v /\ ninst_init t x = true.
Proof. unfold nwf, ninst, ninst_init. intros W G R. exact (proj1 (rc_all t true W) x v G R). Qed.

(* the named creator builds the object from EVERY form that denotes it, and px.New hands every such form to it *)
Lemma rep_named_new n attrs h vals :
  nwf (NObj n attrs) = true -> ninst (NObj n attrs) (NVObj n vals) = true ->
  repb (NObj n attrs) (NVHash h) (NVObj n vals) = true ->
  named_new n attrs h = NOk (NVObj n vals) /\ nnew n attrs [NVHash h] = NOk (NVObj n vals).
Proof.
  unfold nwf, ninst. intros W G R. cbn [nwf_at] in W. apply andb_true_iff in W. destruct W as [W _].
  pose proof (nwf_names _ _ W) as N. pose proof (proj2 (rc_all _ true W)) as A.
  cbn [ginst] in G. apply andb_true_iff in G. destruct G as [_ G].
  cbn [repb nvalue_eqb orb] in R. apply andb_true_iff in R. destruct R as [R Rv]. apply andb_true_iff in R. destruct R as [_ Rk].
  destruct (csw_obj_rep n attrs h vals A N G Rk Rv) as [_ [Gm [Ec Eb]]].
  assert (E : named_new n attrs h = NOk (NVObj n vals)).
  { unfold named_new. rewrite Rk, Gm, Ec, Eb. reflexivity. }
  split; [exact E|]. cbn [nnew]. rewrite Rk, Gm. exact E.
Qed.

(* the two extreme forms denote the object *)
Lemma repb_refl t v : repb t v v = true.
Proof.
  assert (E : forall a, nvalue_eqb a a = true).
  { fix IH 1. intros [|z|s|l|l|n l]; cbn [nvalue_eqb].
    - reflexivity.
    - apply Z.eqb_refl.
    - apply str_eqb_refl.
    - induction l as [|u r IHl]; [reflexivity|]. rewrite (IH u), IHl. reflexivity.
    - induction l as [|[k u] r IHl]; [reflexivity|]. rewrite str_eqb_refl, (IH u), IHl. reflexivity.
    - rewrite str_eqb_refl. cbn [andb]. induction l as [|u r IHl]; [reflexivity|]. rewrite (IH u), IHl. reflexivity. }
  destruct t; cbn [repb]; rewrite E; reflexivity.
Qed.

(* the positional creator builds the object from every tuple that denotes it *)
Lemma posrep_vals attrs : forall args vals,
  allm rc attrs -> ginst_vals false attrs vals = true -> posrep attrs args vals = true ->
  positional_vals attrs args = inr vals.
Proof.
  induction attrs as [| |t' _|t' _|t' _| |k d vt _ r IHr|ms _|n a _]; intros args vals A G P;
    try (cbn [posrep] in P; cbn [positional_vals]; destruct args; destruct vals; try discriminate P; reflexivity).
  cbn [ginst_vals] in G. destruct vals as [|v vr]; [discriminate|]. apply andb_true_iff in G. destruct G as [G1 G2].
  cbn [allm] in A. destruct A as [A1 A2]. cbn [posrep] in P. cbn [positional_vals]. destruct args as [|x ar].
  - apply andb_true_iff in P. destruct P as [P1 P2]. destruct d as [dv|]; [|discriminate P1].
    apply nvalue_eqb_eq in P1. subst dv. rewrite (IHr [] vr A2 G2 P2). reflexivity.
  - apply andb_true_iff in P. destruct P as [P1 P2].
    assert (C : coerce vt x = Some v /\ ginst (is_obj_ty vt) vt x = true).
    { destruct (is_obj_ty vt).
      - exact (A1 x v G1 P1).
      - apply nvalue_eqb_eq in P1. subst x. split; [exact (coerce_instance_id _ _ G1)|exact G1]. }
    destruct C as [C1 C2]. rewrite C2, coerce_unfold, C1, (IHr ar vr A2 G2 P2). reflexivity.
Qed.

Lemma rep_positional_new n attrs args vals :
  nwf (NObj n attrs) = true -> ninst (NObj n attrs) (NVObj n vals) = true -> posrep attrs args vals = true ->
  positional_new n attrs args = NOk (NVObj n vals).
Proof.
  unfold nwf, ninst. intros W G P. cbn [nwf_at] in W. apply andb_true_iff in W. destruct W as [W _].
  cbn [ginst] in G. apply andb_true_iff in G. destruct G as [_ G].
  unfold positional_new. rewrite (posrep_vals attrs args vals (proj2 (rc_all _ true W)) G P). reflexivity.
Qed.
