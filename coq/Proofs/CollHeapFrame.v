(* CollHeapFrame.v — property C08 for the slice-level model: the frame theorems over all histories. *)
From Coq Require Import ZArith NArith Bool List Lia.
From PcoreV Require Import Model.Base Model.Heap Model.Coll Model.CollHeap
     Proofs.HeapProofs Proofs.CollInd Proofs.CollHeapProofs Proofs.CollHeapDecide.
Import ListNotations.
Local Open Scope nat_scope.
Local Opaque obs_fuel.

(* every slice in the pool and in every cell of the store points into the store *)
Definition state_wf (st : hstate) : Prop :=
  store_closed (st_heap st) /\ Forall (val_closed (length (st_heap st))) (st_pool st).

Lemma empty_wf : state_wf empty_state.
Proof. split; [apply store_closed_nil|constructor]. Qed.

(* one step: the store only grows at the end, the pool only grows at the end *)
Lemma hstep_prefix g st o : prefix (st_heap st) (st_heap (fst (hstep g st o))).
Proof.
  unfold hstep. destruct (decide (st_heap st) (st_pool st) o) as [p|e] eqn:E; [|apply prefix_refl].
  pose proof (exec_prefix g p (st_heap st) (decide_ok _ _ _ _ E)) as Hp.
  destruct (exec g (st_heap st) p) as [h' v]. exact Hp.
Qed.

Lemma hstep_pool g st o : exists v, st_pool (fst (hstep g st o)) = st_pool st ++ [v].
Proof.
  unfold hstep. destruct (decide (st_heap st) (st_pool st) o) as [p|e]; [|now exists HUndef].
  destruct (exec g (st_heap st) p) as [h' v]. now exists v.
Qed.

Lemma hstep_wf g st o : state_wf st -> state_wf (fst (hstep g st o)).
Proof.
  intros [Hc Hp]. unfold hstep. destruct (decide (st_heap st) (st_pool st) o) as [p|e] eqn:E.
  - destruct (exec_closed g p (st_heap st) Hc (decide_closed _ _ _ _ Hc Hp E)) as [Hc' [Hv' Hl]].
    destruct (exec g (st_heap st) p) as [h' v]. cbn [fst snd st_heap st_pool] in *.
    split; [assumption|]. apply Forall_app'; [|repeat constructor; assumption].
    rewrite Forall_forall in *. intros x Hx. eapply val_closed_mono; [exact Hl|auto].
  - cbn [fst st_heap st_pool]. split; [assumption|]. apply Forall_app'; [assumption|repeat constructor].
Qed.

(* the result of a step as the harness records it: the observation of the new pool value *)
Lemma hstep_out g st o :
  let st' := fst (hstep g st o) in
  match snd (hstep g st o) with
  | RVal p => exists v, st_pool st' = st_pool st ++ [v] /\ p = observe obs_fuel (st_heap st') v
  | RErr _ => st_pool st' = st_pool st ++ [HUndef]
  end.
Proof.
  unfold hstep. destruct (decide (st_heap st) (st_pool st) o) as [p|e]; [|reflexivity].
  destruct (exec g (st_heap st) p) as [h' v]. cbn. now exists v.
Qed.

Lemma hrun_cons g st o t :
  hrun g st (o :: t) = let '(st1, r) := hstep g st o in let '(st2, rs) := hrun g st1 t in (st2, r :: rs).
Proof. reflexivity. Qed.

Lemma hrun_prefix g : forall ops st, prefix (st_heap st) (st_heap (fst (hrun g st ops))).
Proof.
  induction ops as [|o t IH]; intros st; [apply prefix_refl|]. rewrite hrun_cons.
  pose proof (hstep_prefix g st o) as H1. destruct (hstep g st o) as [st1 r]. cbn [fst] in H1.
  specialize (IH st1). destruct (hrun g st1 t) as [st2 rs]. cbn [fst] in *. eapply prefix_trans; eassumption.
Qed.

Lemma hrun_wf g : forall ops st, state_wf st -> state_wf (fst (hrun g st ops)).
Proof.
  induction ops as [|o t IH]; intros st Hw; [assumption|]. rewrite hrun_cons.
  pose proof (hstep_wf g st o Hw) as H1. destruct (hstep g st o) as [st1 r]. cbn [fst] in H1.
  specialize (IH st1 H1). destruct (hrun g st1 t) as [st2 rs]. exact IH.
Qed.

Lemma hrun_pool g : forall ops st, exists more, st_pool (fst (hrun g st ops)) = st_pool st ++ more /\ length more = length ops.
Proof.
  induction ops as [|o t IH]; intros st; [exists []; split; [now rewrite app_nil_r|reflexivity]|]. rewrite hrun_cons.
  destruct (hstep_pool g st o) as [v Hv]. destruct (hstep g st o) as [st1 r]. cbn [fst] in Hv.
  destruct (IH st1) as [more [Hm Hl]]. destruct (hrun g st1 t) as [st2 rs]. cbn [fst] in *.
  exists (v :: more). rewrite Hm, Hv, <- app_assoc. split; [reflexivity|cbn; lia].
Qed.

(* C08: no history changes the deep observation (at any depth) of a value of the pool *)
Theorem frame g ops st : state_wf st ->
  forall fuel x, In x (st_pool st) ->
    observe fuel (st_heap (fst (hrun g st ops))) x = observe fuel (st_heap st) x.
Proof.
  intros [Hc Hp] fuel x Hx. apply observe_local; [assumption|apply hrun_prefix|].
  rewrite Forall_forall in Hp. now apply Hp.
Qed.

Lemma hrun_app g : forall ops1 ops2 st,
  hrun g st (ops1 ++ ops2) =
  let '(st1, r1) := hrun g st ops1 in let '(st2, r2) := hrun g st1 ops2 in (st2, r1 ++ r2).
Proof.
  induction ops1 as [|o t IH]; intros ops2 st.
  - cbn [app hrun]. destruct (hrun g st ops2); reflexivity.
  - cbn [app]. rewrite !hrun_cons. destruct (hstep g st o) as [st1 r]. rewrite IH.
    destruct (hrun g st1 t) as [st2 rs]. destruct (hrun g st2 ops2); reflexivity.
Qed.

(* ... in the terms of the harness: what is observed of the values of a history after ANY continuation of the
   history is what was observed at the end of the history itself *)
Theorem final_obs_stable g ops1 ops2 :
  firstn (length ops1) (final_obs (fst (hrun g empty_state (ops1 ++ ops2)))) =
  final_obs (fst (hrun g empty_state ops1)).
Proof.
  rewrite hrun_app.
  pose proof (hrun_wf g ops1 empty_state empty_wf) as Hw.
  destruct (hrun_pool g ops1 empty_state) as [m1 [Hm1 Hl1]].
  destruct (hrun g empty_state ops1) as [st1 r1]. cbn [fst] in *.
  pose proof (frame g ops2 st1 Hw obs_fuel) as Hf.
  destruct (hrun_pool g ops2 st1) as [m2 [Hm2 Hl2]].
  destruct (hrun g st1 ops2) as [st2 r2]. cbn [fst] in *.
  unfold final_obs. rewrite Hm2, map_app.
  assert (Hlen : length ops1 = length (map (observe obs_fuel (st_heap st2)) (st_pool st1))).
  { rewrite map_length, Hm1. cbn. lia. }
  rewrite Hlen, firstn_app, Nat.sub_diag, firstn_all. cbn [firstn]. rewrite app_nil_r.
  apply map_ext_in. intros x Hx. now apply Hf.
Qed.

Lemma skipn_map_app {A B} (f : A -> B) l1 l2 : skipn (length l1) (map f (l1 ++ l2)) = map f l2.
Proof. rewrite map_app, <- (map_length f l1), skipn_app, skipn_all, Nat.sub_diag. reflexivity. Qed.

(* ... and the result of every step, as observed when the step returned, is what is observed of it at the end *)
Definition out_matches (r : out) (p : pv) : Prop :=
  match r with RVal q => q = p | RErr _ => p = PUndef end.

Theorem results_stable g : forall ops st, state_wf st ->
  Forall2 out_matches (snd (hrun g st ops))
          (skipn (length (st_pool st)) (final_obs (fst (hrun g st ops)))).
Proof.
  induction ops as [|o t IH]; intros st Hw.
  - cbn [hrun fst snd]. unfold final_obs. rewrite <- (map_length (observe obs_fuel (st_heap st))), skipn_all. constructor.
  - rewrite hrun_cons.
    pose proof (hstep_out g st o) as Ho. pose proof (hstep_wf g st o Hw) as Hw1.
    destruct (hstep g st o) as [st1 r]. cbn [fst snd] in *.
    specialize (IH st1 Hw1). pose proof (frame g t st1 Hw1 obs_fuel) as Hf.
    destruct (hrun_pool g t st1) as [more [Hm Hl]].
    destruct (hrun g st1 t) as [st2 rs]. cbn [fst snd] in *.
    assert (Hv : exists v, st_pool st1 = st_pool st ++ [v] /\ out_matches r (observe obs_fuel (st_heap st2) v)).
    { destruct r as [p|e].
      - destruct Ho as [v [Hp ->]]. exists v. split; [assumption|]. cbn. symmetry. apply Hf. rewrite Hp. apply in_or_app; right; now left.
      - exists HUndef. split; [assumption|reflexivity]. }
    destruct Hv as [v [Hp Hr]].
    unfold final_obs in *. rewrite Hm in *. rewrite skipn_map_app in IH.
    rewrite Hp, <- app_assoc. cbn [app]. rewrite skipn_map_app. cbn [map].
    constructor; assumption.
Qed.

(* the appends of the current Array.Add never land in the receiver's backing array: sensitivity of the model.
   With the pre-fix Add (append(av.elements, ov), no capping) the frame does NOT hold: *)
Definition buggy_add (g : nat -> nat -> nat) (st : hstate) (r x : nat) : hstate :=
  match P (st_pool st) r with
  | HArr s => let '(h', v) := exec g (st_heap st) (AppendTo s [Share (P (st_pool st) x)]) in
              mkState h' (st_pool st ++ [v])
  | _ => st
  end.

Local Transparent obs_fuel.
Example uncapped_append_breaks_frame :
  let st0 := fst (hrun grow_exact empty_state [OBuild 4 (PArr [PInt 1%Z]); OLit (PInt 2%Z); OLit (PInt 3%Z)]) in
  let st1 := buggy_add grow_exact st0 0 1 in          (* b := a.Add(2) *)
  let st2 := buggy_add grow_exact st1 0 2 in          (* a.Add(3)      *)
  observe obs_fuel (st_heap st1) (P (st_pool st1) 3) = PArr [PInt 1%Z; PInt 2%Z] /\
  observe obs_fuel (st_heap st2) (P (st_pool st2) 3) = PArr [PInt 1%Z; PInt 3%Z].
Proof. vm_compute. split; reflexivity. Qed.
