(* LiteralTextProofs.v — property C05: the whole lexer (Model/LiteralText.v) on the text of a literal value.
     lex_print_lit   : for every literal v of the fragment lit_ok, lexing print_lit v ++ k gives tokens_of v followed by
                       the tokens of k (k = what follows: nothing, or text starting with , ] } or a space)
     lex_text_print_lit / parse_lex_print_lit : lex_all (print_lit v) = tokens_of v, and the parser reads v back
   built on the token theorems of Proofs/QuoteLexProofs.v (strings, regexps, integers). *)
From Coq Require Import ZArith NArith Bool List Lia.
From PcoreV Require Import Model.Base Model.QuoteLex Model.TokenParse Model.LiteralText
  Proofs.QuoteLexUtf8 Proofs.QuoteLexProofs Proofs.TokenParseProofs.
Import ListNotations.
Open Scope N_scope.

(* the text / tokens after the first element of a list *)
Fixpoint tail_by {A} (sep close : list A) (l : list (list A)) : list A :=
  match l with
  | [] => close
  | x :: r => sep ++ x ++ tail_by sep close r
  end.

Lemma sep_by_tail_by {A} (sep close x : list A) (r : list (list A)) :
  sep_by sep (x :: r) ++ close = x ++ tail_by sep close r.
Proof.
  revert x. induction r as [|y r IH]; intros x.
  - reflexivity.
  - change (sep_by sep (x :: y :: r)) with (x ++ sep ++ sep_by sep (y :: r)).
    rewrite <- !app_assoc. rewrite IH. reflexivity.
Qed.

Lemma lit_stop_cases k :
  lit_stop k = true -> k = [] \/ exists c r, k = c :: r /\ (c = 44 \/ c = 93 \/ c = 125 \/ c = 32).
Proof.
  destruct k as [|c r]; [left; reflexivity|]. cbn [lit_stop]. intros H. right. exists c, r. split; [reflexivity|].
  repeat rewrite orb_true_iff in H. rewrite !N.eqb_eq in H. tauto.
Qed.

Lemma lit_stop_num_stop k : lit_stop k = true -> num_stop k = true.
Proof.
  intros H. destruct (lit_stop_cases k H) as [-> | [c [r [-> [-> | [-> | [-> | ->]]]]]]]; reflexivity.
Qed.

Section Lex.
  Variable il : N -> bool.

  (* ---- single tokens ---- *)

  Lemma next_token_space f s : next_token il (S (S f)) (32 :: s) = next_token il (S f) s.
  Proof. reflexivity. Qed.

  Lemma next_token_lbracket f s : next_token il (S f) (91 :: s) = LOk KLBracket s.
  Proof. reflexivity. Qed.
  Lemma next_token_rbracket f s : next_token il (S f) (93 :: s) = LOk KRBracket s.
  Proof. reflexivity. Qed.
  Lemma next_token_lbrace f s : next_token il (S f) (123 :: s) = LOk KLBrace s.
  Proof. reflexivity. Qed.
  Lemma next_token_rbrace f s : next_token il (S f) (125 :: s) = LOk KRBrace s.
  Proof. reflexivity. Qed.
  Lemma next_token_comma f s : next_token il (S f) (44 :: s) = LOk KComma s.
  Proof. reflexivity. Qed.
  Lemma next_token_rocket f s : next_token il (S f) (61 :: 62 :: s) = LOk KRocket s.
  Proof. reflexivity. Qed.

  Lemma next_token_quote q rest f :
    q = 34 \/ q = 39 -> next_token il (S f) (q :: rest) = lmap KString (lex_string (q :: rest)).
  Proof. intros [->| ->]; reflexivity. Qed.

  Lemma next_token_slash rest f : next_token il (S f) (47 :: rest) = lmap KRegexp (lex_regexp (47 :: rest)).
  Proof. reflexivity. Qed.

  Lemma next_token_string f s k :
    valid_utf8 s = true -> no_replacement s = true ->
    next_token il (S f) (puppet_quote s ++ k) = LOk (KString s) k.
  Proof.
    intros Hv Hn.
    assert (E : exists q rest, puppet_quote s = q :: rest /\ (q = 34 \/ q = 39)).
    { unfold puppet_quote. destruct (existsb _ _); eexists; eexists; (split; [reflexivity|]); [left|right]; reflexivity. }
    destruct E as [q [rest [E Hq]]].
    pose proof (quote_lex_k s k Hv Hn) as Hl. rewrite E in *. cbn [app] in *.
    rewrite (next_token_quote q _ f Hq). rewrite Hl. reflexivity.
  Qed.

  Lemma next_token_regexp f s k :
    valid_utf8 s = true -> no_replacement s = true -> regexp_printable s = true ->
    next_token il (S f) (regexp_quote s ++ k) = LOk (KRegexp s) k.
  Proof.
    intros Hv Hn Hp. pose proof (regexp_quote_lex_k s k Hv Hn Hp) as Hl.
    unfold regexp_quote in *. cbn [app] in *. rewrite next_token_slash. rewrite Hl. reflexivity.
  Qed.

  Ltac kill_eqb c :=
    repeat match goal with
           | |- context [c =? ?n] => replace (c =? n) with false by (symmetry; apply N.eqb_neq; lia)
           end.

  Lemma next_token_digit c rest f :
    48 <= c <= 57 ->
    next_token il (S f) (c :: rest) =
    match lex_number il (c :: rest) with
    | LOk (KInteger, t) r => LOk (KInt t) r
    | LOk (QuoteLex.KFloat, t) r => LOk (KFloat t) r
    | LErr e => LErr e
    | LOutOfFuel => LOutOfFuel
    end.
  Proof.
    intros Hc. cbn [next_token]. rewrite (sr_next_ascii c rest) by lia.
    unfold rune_error. kill_eqb c. cbn [orb].
    replace (is_digit c) with true by (symmetry; apply is_digit_spec; lia).
    reflexivity.
  Qed.

  Lemma next_token_minus rest f :
    next_token il (S f) (45 :: rest) =
    match lex_number il (45 :: rest) with
    | LOk (KInteger, t) r => LOk (KInt t) r
    | LOk (QuoteLex.KFloat, t) r => LOk (KFloat t) r
    | LErr e => LErr e
    | LOutOfFuel => LOutOfFuel
    end.
  Proof. reflexivity. Qed.

  Lemma next_token_int f z k :
    in_int64 z = true -> lit_stop k = true ->
    next_token il (S f) (format_int z ++ k) = LOk (KInt (format_int z)) k.
  Proof.
    intros Hz Hk. pose proof (format_int_lex il z k Hz (lit_stop_num_stop k Hk)) as Hl.
    assert (E : exists c t, format_int z = c :: t /\ (c = 45 \/ 48 <= c <= 57)).
    { unfold in_int64, min_int64, max_int64 in Hz. apply andb_true_iff in Hz. destruct Hz as [Hlo Hhi].
      apply Z.leb_le in Hlo, Hhi.
      destruct z as [|p|p]; cbn [format_int].
      - exists 48, []. split; [reflexivity|right; lia].
      - destruct (dec_digits_all (Z.to_N (Z.pos p))) as [d [t [E [Hd _]]]]; [lia|].
        exists d, t. split; [exact E|right; exact Hd].
      - eexists; eexists; split; [reflexivity|left; reflexivity]. }
    destruct E as [c [t [E Hc]]]. rewrite E in *. cbn [app] in *.
    destruct Hc as [->|Hc]; [rewrite next_token_minus|rewrite (next_token_digit c _ f Hc)]; rewrite Hl; reflexivity.
  Qed.

  (* identifiers: lower case words *)
  Lemma consume_word_end k buf f : lit_stop k = true -> consume_word false (S f) k buf = LOk buf k.
  Proof.
    intros H. destruct (lit_stop_cases k H) as [-> | [c [r [-> [-> | [-> | [-> | ->]]]]]]]; reflexivity.
  Qed.

  Lemma consume_word_lower cs : forall buf k f,
    forallb is_lower cs = true -> lit_stop k = true -> (length cs < f)%nat ->
    consume_word false f (cs ++ k) buf = LOk (buf ++ cs) k.
  Proof.
    induction cs as [|c cs IH]; intros buf k f Hcs Hk Hf.
    - destruct f as [|f]; [lia|]. cbn [app]. rewrite app_nil_r. apply consume_word_end. exact Hk.
    - cbn [forallb] in Hcs. apply andb_true_iff in Hcs. destruct Hcs as [Hc Hcs].
      unfold is_lower in Hc. apply andb_true_iff in Hc. destruct Hc as [Hlo Hhi].
      apply N.leb_le in Hlo, Hhi.
      cbn [length] in Hf. destruct f as [|f]; [lia|].
      cbn [app consume_word]. unfold sr_peek. rewrite (sr_next_ascii c (cs ++ k)) by lia. cbn [fst snd].
      kill_eqb c.
      replace (is_word c) with true.
      2:{ unfold is_word, is_lower. replace (97 <=? c) with true by (symmetry; apply N.leb_le; lia).
          replace (c <=? 122) with true by (symmetry; apply N.leb_le; lia). cbn [andb]. rewrite !orb_true_r. reflexivity. }
      rewrite (IH (buf ++ [c]) k f Hcs Hk ltac:(lia)). rewrite <- app_assoc. reflexivity.
  Qed.

  Lemma next_token_ident c cs k f :
    is_lower c = true -> forallb is_lower cs = true -> lit_stop k = true ->
    next_token il (S f) ((c :: cs) ++ k) = LOk (KIdent (c :: cs)) k.
  Proof.
    intros Hc Hcs Hk. pose proof Hc as Hc'.
    unfold is_lower in Hc. apply andb_true_iff in Hc. destruct Hc as [Hlo Hhi]. apply N.leb_le in Hlo, Hhi.
    cbn [app next_token]. rewrite (sr_next_ascii c (cs ++ k)) by lia.
    unfold rune_error. kill_eqb c. cbn [orb].
    replace (is_digit c) with false.
    2:{ symmetry. unfold is_digit. replace (c <=? 57) with false by (symmetry; apply N.leb_gt; lia). apply andb_false_r. }
    replace (is_upper c) with false.
    2:{ symmetry. unfold is_upper. replace (c <=? 90) with false by (symmetry; apply N.leb_gt; lia). apply andb_false_r. }
    rewrite Hc'.
    rewrite (consume_word_lower cs [c] k _ Hcs Hk); [reflexivity|]. rewrite app_length. lia.
  Qed.

  (* ---- token streams ---- *)

  Lemma lex_all_step f s t rest ts r' :
    next_token il (S (length s)) s = LOk t rest -> t <> KEnd -> lex_all il f rest = LOk ts r' ->
    lex_all il (S f) s = LOk (t :: ts) r'.
  Proof.
    intros H Ht Hr. cbn [lex_all]. rewrite H. destruct t; try congruence; rewrite Hr; reflexivity.
  Qed.

  Lemma lex_all_space f s : lex_all il f (32 :: s) = lex_all il f s.
  Proof. destruct f as [|f]; [reflexivity|]. cbn [lex_all length]. rewrite next_token_space. reflexivity. Qed.

  (* the statement about one literal *)
  Definition lexes (v : pval) : Prop :=
    forall k ts f r', lit_stop k = true -> lex_all il f k = LOk ts r' ->
      lex_all il (length (tokens_of v) + f) (print_lit v ++ k) = LOk (tokens_of v ++ ts) r'.

  Lemma lexes_leaf v t :
    tokens_of v = [t] -> t <> KEnd ->
    (forall f k, lit_stop k = true -> next_token il (S f) (print_lit v ++ k) = LOk t k) -> lexes v.
  Proof.
    intros Ht Hne Hn k ts f r' Hk Hr. rewrite Ht. cbn [length app Nat.add].
    apply (lex_all_step f _ t k ts r'); [apply Hn; exact Hk|exact Hne|exact Hr].
  Qed.

  Definition t_close_b : str := [93].
  Definition t_close_c : str := [125].

  (* the elements of an array after `[` or after `, ` *)
  Lemma lex_elems r :
    Forall lexes r -> forall e, lexes e ->
    forall k ts f r', lit_stop k = true -> lex_all il f k = LOk ts r' ->
      lex_all il (length (tokens_of e ++ tail_toks KRBracket (map tokens_of r)) + f)
              (print_lit e ++ tail_by t_comma_space t_close_b (map print_lit r) ++ k)
      = LOk (tokens_of e ++ tail_toks KRBracket (map tokens_of r) ++ ts) r'.
  Proof.
    induction r as [|x r IH]; intros Hall e He k ts f r' Hk Hr.
    - cbn [map tail_by tail_toks]. unfold t_close_b. cbn [app].
      rewrite app_length. cbn [length]. replace (length (tokens_of e) + 1 + f)%nat with (length (tokens_of e) + S f)%nat by lia.
      apply (He (93 :: k) (KRBracket :: ts) (S f) r' eq_refl).
      apply (lex_all_step f _ KRBracket k ts r'); [apply next_token_rbracket|discriminate|exact Hr].
    - apply Forall_cons_iff in Hall. destruct Hall as [Hx Hall].
      cbn [map tail_by tail_toks]. unfold t_comma_space at 1. cbn [app].
      rewrite app_length. cbn [length].
      replace (length (tokens_of e) + S (length (tokens_of x ++ tail_toks KRBracket (map tokens_of r))) + f)%nat
        with (length (tokens_of e) + S (length (tokens_of x ++ tail_toks KRBracket (map tokens_of r)) + f))%nat by lia.
      rewrite <- !app_assoc.
      apply (He (44 :: 32 :: print_lit x ++ tail_by t_comma_space t_close_b (map print_lit r) ++ k)
                (KComma :: tokens_of x ++ tail_toks KRBracket (map tokens_of r) ++ ts) _ r' eq_refl).
      eapply lex_all_step; [apply next_token_comma|discriminate|].
      rewrite lex_all_space. exact (IH Hall x Hx k ts f r' Hk Hr).
  Qed.

  Lemma lex_list es k ts f r' :
    Forall lexes es -> lit_stop k = true -> lex_all il f k = LOk ts r' ->
    lex_all il (length (sep_by [KComma] (map tokens_of es) ++ [KRBracket]) + f)
            ((sep_by t_comma_space (map print_lit es) ++ t_close_b) ++ k)
    = LOk ((sep_by [KComma] (map tokens_of es) ++ [KRBracket]) ++ ts) r'.
  Proof.
    intros Hall Hk Hr. destruct es as [|e r].
    - cbn [map sep_by app length Nat.add]. unfold t_close_b. cbn [app].
      apply (lex_all_step f _ KRBracket k ts r'); [apply next_token_rbracket|discriminate|exact Hr].
    - apply Forall_cons_iff in Hall. destruct Hall as [He Hall].
      cbn [map]. rewrite sep_by_tail.
      match goal with
      | |- context [(?X ++ t_close_b) ++ k] =>
        replace (X ++ t_close_b) with (print_lit e ++ tail_by t_comma_space t_close_b (map print_lit r))
          by (symmetry; apply sep_by_tail_by)
      end. rewrite <- !app_assoc.
      exact (lex_elems r Hall e He k ts f r' Hk Hr).
  Qed.

  (* the entries of a hash after `{` or after `, ` *)
  Definition entry_text (kv : pval * pval) : str := print_lit (fst kv) ++ t_rocket ++ print_lit (snd kv).

  Lemma lex_entries r :
    Forall (fun kv => lexes (fst kv) /\ lexes (snd kv)) r -> forall kv, lexes (fst kv) -> lexes (snd kv) ->
    forall k ts f r', lit_stop k = true -> lex_all il f k = LOk ts r' ->
      lex_all il (length (entry_toks kv ++ tail_toks KRBrace (map entry_toks r)) + f)
              (entry_text kv ++ tail_by t_comma_space t_close_c (map entry_text r) ++ k)
      = LOk (entry_toks kv ++ tail_toks KRBrace (map entry_toks r) ++ ts) r'.
  Proof.
    induction r as [|x r IH]; intros Hall [ky vl] Hky Hvl k ts f r' Hk Hr;
      unfold entry_toks at 1 3, entry_text at 1; cbn [fst snd] in *; unfold t_rocket; cbn [app].
    - cbn [map tail_by tail_toks]. unfold t_close_c. cbn [app].
      match goal with
      | |- lex_all il ?n _ = _ =>
        replace n with (length (tokens_of ky) + S (length (tokens_of vl) + S f))%nat
          by (repeat (rewrite app_length; cbn [length]); lia)
      end.
      repeat (rewrite <- app_assoc; cbn [app]).
      apply (Hky (32 :: 61 :: 62 :: 32 :: print_lit vl ++ 125 :: k) (KRocket :: tokens_of vl ++ KRBrace :: ts) _ r' eq_refl).
      rewrite lex_all_space. eapply lex_all_step; [apply next_token_rocket|discriminate|].
      rewrite lex_all_space.
      apply (Hvl (125 :: k) (KRBrace :: ts) (S f) r' eq_refl).
      apply (lex_all_step f _ KRBrace k ts r'); [apply next_token_rbrace|discriminate|exact Hr].
    - apply Forall_cons_iff in Hall. destruct Hall as [[Hxk Hxv] Hall].
      cbn [map tail_by tail_toks]. unfold t_comma_space at 1. cbn [app].
      set (TT := entry_toks x ++ tail_toks KRBrace (map entry_toks r)).
      match goal with
      | |- lex_all il ?n _ = _ =>
        replace n with (length (tokens_of ky) + S (length (tokens_of vl) + S (length TT + f)))%nat
          by (repeat (rewrite app_length; cbn [length]); lia)
      end.
      repeat (rewrite <- app_assoc; cbn [app]).
      apply (Hky (32 :: 61 :: 62 :: 32 :: print_lit vl ++ 44 :: 32 :: entry_text x ++
                     tail_by t_comma_space t_close_c (map entry_text r) ++ k)
                 (KRocket :: tokens_of vl ++ KComma :: TT ++ ts) _ r' eq_refl).
      rewrite lex_all_space. eapply lex_all_step; [apply next_token_rocket|discriminate|].
      rewrite lex_all_space.
      apply (Hvl (44 :: 32 :: entry_text x ++ tail_by t_comma_space t_close_c (map entry_text r) ++ k)
                 (KComma :: TT ++ ts) _ r' eq_refl).
      eapply lex_all_step; [apply next_token_comma|discriminate|].
      rewrite lex_all_space. unfold TT. rewrite <- app_assoc.
      exact (IH Hall x Hxk Hxv k ts f r' Hk Hr).
  Qed.

  Lemma lex_hash kvs k ts f r' :
    Forall (fun kv => lexes (fst kv) /\ lexes (snd kv)) kvs -> lit_stop k = true -> lex_all il f k = LOk ts r' ->
    lex_all il (length (sep_by [KComma] (map entry_toks kvs) ++ [KRBrace]) + f)
            ((sep_by t_comma_space (map entry_text kvs) ++ t_close_c) ++ k)
    = LOk ((sep_by [KComma] (map entry_toks kvs) ++ [KRBrace]) ++ ts) r'.
  Proof.
    intros Hall Hk Hr. destruct kvs as [|kv r].
    - cbn [map sep_by app length Nat.add]. unfold t_close_c. cbn [app].
      apply (lex_all_step f _ KRBrace k ts r'); [apply next_token_rbrace|discriminate|exact Hr].
    - apply Forall_cons_iff in Hall. destruct Hall as [[Hk1 Hv1] Hall].
      cbn [map]. rewrite sep_by_tail.
      match goal with
      | |- context [(?X ++ t_close_c) ++ k] =>
        replace (X ++ t_close_c) with (entry_text kv ++ tail_by t_comma_space t_close_c (map entry_text r))
          by (symmetry; apply sep_by_tail_by)
      end.
      rewrite <- !app_assoc.
      exact (lex_entries r Hall kv Hk1 Hv1 k ts f r' Hk Hr).
  Qed.

  (* THE TEXT THEOREM: the lexer reads the text of a literal as the tokens of the literal, then goes on with k *)
  Theorem lex_print_lit : forall v, lit_ok v = true -> lexes v.
  Proof.
    induction v using pval_nested_ind; intros Hok; cbn [lit_ok] in Hok; try discriminate Hok.
    - apply (lexes_leaf _ (KIdent s_undef)); [reflexivity|discriminate|].
      intros f k Hk. apply (next_token_ident 117 [110; 100; 101; 102] k f); [reflexivity|reflexivity|exact Hk].
    - apply (lexes_leaf _ (KIdent s_default)); [reflexivity|discriminate|].
      intros f k Hk. apply (next_token_ident 100 [101; 102; 97; 117; 108; 116] k f); [reflexivity|reflexivity|exact Hk].
    - destruct b.
      + apply (lexes_leaf _ (KIdent s_true)); [reflexivity|discriminate|].
        intros f k Hk. apply (next_token_ident 116 [114; 117; 101] k f); [reflexivity|reflexivity|exact Hk].
      + apply (lexes_leaf _ (KIdent s_false)); [reflexivity|discriminate|].
        intros f k Hk. apply (next_token_ident 102 [97; 108; 115; 101] k f); [reflexivity|reflexivity|exact Hk].
    - apply (lexes_leaf _ (KInt (format_int z))); [reflexivity|discriminate|].
      intros f k Hk. cbn [print_lit]. apply next_token_int; assumption.
    - apply andb_true_iff in Hok. destruct Hok as [Hv Hn].
      apply (lexes_leaf _ (KString s)); [reflexivity|discriminate|].
      intros f k Hk. cbn [print_lit]. apply next_token_string; assumption.
    - apply andb_true_iff in Hok. destruct Hok as [Hok Hp]. apply andb_true_iff in Hok. destruct Hok as [Hv Hn].
      apply (lexes_leaf _ (KRegexp s)); [reflexivity|discriminate|].
      intros f k Hk. cbn [print_lit]. apply next_token_regexp; assumption.
    - (* array *)
      rename H into Hall.
      assert (Hall' : Forall lexes es).
      { clear - Hall Hok. induction Hall as [|x l Hx Hl IH]; [constructor|].
        cbn [forallb] in Hok. apply andb_true_iff in Hok. destruct Hok as [Hx' Hl']. constructor; [exact (Hx Hx')|exact (IH Hl')]. }
      intros k ts f r' Hk Hr. cbn [tokens_of print_lit length app Nat.add].
      eapply lex_all_step; [apply next_token_lbracket|discriminate|].
      exact (lex_list es k ts f r' Hall' Hk Hr).
    - (* hash *)
      rename H into Hall.
      assert (Hall' : Forall (fun kv => lexes (fst kv) /\ lexes (snd kv)) kvs).
      { clear - Hall Hok. induction Hall as [|x l Hx Hl IH]; [constructor|].
        cbn [forallb] in Hok. apply andb_true_iff in Hok. destruct Hok as [Hx' Hl'].
        apply andb_true_iff in Hx'. destruct Hx' as [Hx1 Hx2]. destruct Hx as [Ha Hb].
        constructor; [split; [exact (Ha Hx1)|exact (Hb Hx2)]|exact (IH Hl')]. }
      intros k ts f r' Hk Hr. cbn [tokens_of print_lit length app Nat.add].
      eapply lex_all_step; [apply next_token_lbrace|discriminate|].
      exact (lex_hash kvs k ts f r' Hall' Hk Hr).
  Qed.

  (* more fuel does not change a result *)
  Lemma lex_all_S f s :
    lex_all il (S f) s =
    match next_token il (S (length s)) s with
    | LOk KEnd rest => LOk [] rest
    | LOk t rest => lmap (cons t) (lex_all il f rest)
    | LErr e => LErr e
    | LOutOfFuel => LOutOfFuel
    end.
  Proof. reflexivity. Qed.

  Lemma lex_all_mono f : forall s ts r, lex_all il f s = LOk ts r -> lex_all il (S f) s = LOk ts r.
  Proof.
    induction f as [|f IH]; intros s ts r H; [discriminate H|].
    rewrite lex_all_S in H. rewrite lex_all_S.
    destruct (next_token il (S (length s)) s) as [t rest|e|]; try discriminate H.
    destruct t; try exact H;
      (destruct (lex_all il f rest) as [ts0 r0|e0|] eqn:E; cbn [lmap] in H; try discriminate H;
       rewrite (IH rest ts0 r0 E); exact H).
  Qed.

  Lemma lex_all_more f g s ts r : lex_all il f s = LOk ts r -> (f <= g)%nat -> lex_all il g s = LOk ts r.
  Proof. intros H Hle. induction Hle as [|g Hle IH]; [exact H|apply lex_all_mono; exact IH]. Qed.

  (* the whole text of a literal: its tokens, nothing left *)
  Theorem lex_all_print_lit v f :
    lit_ok v = true -> (length (tokens_of v) < f)%nat -> lex_all il f (print_lit v) = LOk (tokens_of v) [].
  Proof.
    intros Hok Hf.
    pose proof (lex_print_lit v Hok [] [] 1%nat [] eq_refl eq_refl) as H.
    rewrite !app_nil_r in H. apply (lex_all_more _ f _ _ _ H). lia.
  Qed.

  (* END TO END for literal values: print, lex, parse gives the value back *)
  Theorem parse_lex_print_lit v f :
    lit_ok v = true -> (length (tokens_of v) < f)%nat ->
    exists ts, lex_all il f (print_lit v) = LOk ts [] /\ forall rx_ok, printable rx_ok v = true -> parse_tokens rx_ok ts = POk v.
  Proof.
    intros Hok Hf. exists (tokens_of v). split; [apply lex_all_print_lit; assumption|].
    intros rx_ok Hp. apply parse_tokens_of. exact Hp.
  Qed.
End Lex.
