(* CtxTermination.v — every program of the machine of Model/Ctx.v finishes (property C14): each step of a goroutine
   that has not ended consumes a statement or a frame, so from every configuration some schedule (in fact every
   schedule that keeps choosing unfinished goroutines) reaches a configuration in which all goroutines have ended. *)
From Coq Require Import ZArith NArith Bool List Lia Arith.
From PcoreV Require Import Model.Base Model.Ctx Proofs.CtxProofs.
Import ListNotations.
Local Open Scope nat_scope.

(* the work left in a program: one per statement, plus the frames a scope construct pushes or hands to a new goroutine *)
Fixpoint psize (p : prog) : nat :=
  let bsize := fix bsize (l : list prog) : nat := match l with [] => 0 | q :: l' => psize q + bsize l' end in
  match p with
  | PDo _ _ body => 4 + bsize body
  | PDoCtx _ _ body => 3 + bsize body
  | PDoLoader _ _ body => 3 + bsize body
  | PFork _ body => 4 + bsize body
  | PGo _ body => 4 + bsize body
  | PTlGo body => 4 + bsize body
  | PTry body => 3 + bsize body
  | _ => 1
  end.
Fixpoint bsize (l : list prog) : nat := match l with [] => 0 | q :: l' => psize q + bsize l' end.

Definition fsize (f : frame) : nat := match f with KSeq _ ps => 1 + bsize ps | _ => 1 end.
Fixpoint ksize (K : list frame) : nat := match K with [] => 0 | f :: K' => fsize f + ksize K' end.
Definition gsize (st : gstate) : nat := ksize (g_stack st).
Fixpoint csize (l : list gstate) : nat := match l with [] => 0 | st :: l' => gsize st + csize l' end.

Lemma psize_unfold p :
  psize p = match p with
            | PDo _ _ body => 4 + bsize body
            | PDoCtx _ _ body => 3 + bsize body
            | PDoLoader _ _ body => 3 + bsize body
            | PFork _ body => 4 + bsize body
            | PGo _ body => 4 + bsize body
            | PTlGo body => 4 + bsize body
            | PTry body => 3 + bsize body
            | _ => 1
            end.
Proof.
  assert (E : forall l, (fix bs (l : list prog) : nat := match l with [] => 0 | q :: l' => psize q + bs l' end) l = bsize l).
  { induction l as [|q l IH]; cbn [bsize]; [reflexivity|]. rewrite <- IH. reflexivity. }
  destruct p; cbn [psize]; rewrite ?E; reflexivity.
Qed.

Lemma ksize_app X Y : ksize (X ++ Y) = ksize X + ksize Y.
Proof. induction X as [|f X IH]; cbn [app ksize]; [reflexivity|]. rewrite IH. lia. Qed.

Lemma settle_size K : ksize (settle K) <= ksize K.
Proof.
  induction K as [|f K IH]; cbn [settle]; [lia|].
  destruct f as [env ps|xs| |cfo|cl]; cbn [ksize fsize]; try lia. destruct ps; cbn [ksize fsize bsize]; lia.
Qed.

Lemma unwind_size K : ksize (snd (unwind K)) <= ksize K.
Proof.
  induction K as [|f K IH]; cbn [unwind]; [cbn; lia|].
  destruct f as [env ps|xs| |cfo|cl]; cbn [snd ksize fsize]; try lia.
  pose proof (settle_size K). lia.
Qed.

Lemma resume_size b K : ksize (snd (resume b K)) <= ksize K.
Proof. destruct b; cbn [resume snd]; [apply unwind_size|apply settle_size]. Qed.

Definition spawn_size (r : sres) : nat := match r_spawn r with Some fs => ksize fs | None => 0 end.

(* a statement pays for what it pushes and for the goroutine it starts *)
Lemma exec_stmt_size g env p s :
  ksize (r_push (exec_stmt g env p s)) + spawn_size (exec_stmt g env p s) + 1 <= psize p.
Proof.
  assert (Hlex : forall f n, (forall a c, ksize (r_push (f a c)) + spawn_size (f a c) + 1 <= n) -> 1 <= n ->
                 ksize (r_push (with_lex env s f)) + spawn_size (with_lex env s f) + 1 <= n).
  { intros f n Hf Hn. unfold with_lex. destruct env as [|a rest]; [cbn; lia|].
    destruct (nth_error (cheap s) a); [apply Hf|cbn; lia]. }
  assert (Hdwc : forall a body s', ksize (r_push (do_with_context g a env body s')) + spawn_size (do_with_context g a env body s') + 1
                                   <= 3 + bsize body).
  { intros a body s'. unfold do_with_context. destruct (dwc_enter g a (tls s')) as [[t x] fine].
    destruct fine; [cbn; lia|]. destruct (run_dact g x (with_tls t s')); cbn; lia. }
  rewrite psize_unfold.
  destruct p as [lbl try body|lbl ce body|lbl le body|lbl body|lbl body|body|body|k v|k|l| |lbl le|n v|lbl| | ];
    cbn [exec_stmt].
  - destruct (alloc_ctx _ s) as [ra s1]. destruct (dwc_enter g ra (tls s1)) as [[t1 x1] fine1].
    destruct fine1; cbn [negb]; [|destruct (run_dact g x1 (with_tls t1 s1)); cbn; lia].
    destruct (fork_ctx lbl _ (lheap s1)) as [fc lh]. destruct (alloc_ctx fc _) as [fa s2].
    destruct (dwc_enter g fa (tls s2)) as [[t2 x2] fine2].
    destruct fine2; cbn [negb]; [|destruct (run_dacts g [x2; x1] (with_tls t2 s2)); cbn; lia].
    unfold spawn_size. cbn [enter r_push r_spawn]. rewrite ksize_app. destruct try; cbn [ksize fsize]; lia.
  - destruct ce as [| |k].
    + apply Hlex; [|lia]. intros a c. destruct (fork_ctx lbl c (lheap s)) as [fc lh]. destruct (alloc_ctx fc _) as [fa s1]. apply Hdwc.
    + destruct (new_loader lbl 0 (lheap s)) as [l lh]. destruct (alloc_ctx _ _) as [fa s1]. apply Hdwc.
    + destruct (nth_error env k); [apply Hdwc|cbn; lia].
  - apply Hlex; [|lia]. intros a c. destruct (eval_lexp lbl le c (lheap s)) as [l lh]. cbn. lia.
  - apply Hlex; [|lia]. intros a c. destruct (fork_ctx lbl c (lheap s)) as [fc lh]. destruct (alloc_ctx fc _) as [fa s1]. cbn. lia.
  - destruct (tl_get g (tls s)) as [a|]; [|cbn; lia]. destruct (nth_error (cheap s) a) as [c|]; [|cbn; lia].
    destruct (fork_ctx lbl c (lheap s)) as [fc lh]. destruct (alloc_ctx fc _) as [fa s1]. cbn. lia.
  - cbn. lia.
  - cbn. lia.
  - apply Hlex; [|lia]. intros a c. cbn. lia.
  - apply Hlex; [|lia]. intros a c. cbn. lia.
  - apply Hlex; [|lia]. intros a c. cbn. lia.
  - apply Hlex; [|lia]. intros a c. destruct (c_stack c); cbn; lia.
  - apply Hlex; [|lia]. intros a c. destruct (eval_lexp lbl le c (lheap s)) as [l lh]. cbn. lia.
  - apply Hlex; [|lia]. intros a c. destruct (nth_error (lheap s) (c_loader c)) as [ld|]; [|cbn; lia].
    destruct (set_entry n v ld); cbn; lia.
  - cbn. lia.
  - cbn. lia.
  - cbn. lia.
Qed.

Lemma notry_size K : ksize (notry K) <= ksize K.
Proof.
  induction K as [|f K IH]; cbn [notry]; [lia|].
  destruct f as [env ps|xs| |cfo|cl]; cbn [ksize fsize]; lia.
Qed.

Lemma exit_stack_size p K : ksize (exit_stack p K) <= ksize K.
Proof. unfold exit_stack. destruct (is_goexit p); [apply notry_size|lia]. Qed.

(* a step of a goroutine that has not ended makes the work strictly smaller (the goroutine it starts included) *)
Lemma step_g_size g s st :
  g_stack st <> [] ->
  gsize (snd (fst (step_g g s st))) + match snd (step_g g s st) with Some ch => gsize ch | None => 0 end < gsize st.
Proof.
  intros Hne. unfold step_g, gsize. destruct (g_stack st) as [|f K]; [congruence|].
  destruct f as [env ps|xs| |cfo|cl].
  - destruct ps as [|p ps].
    + pose proof (resume_size (g_panic st) K). destruct (resume (g_panic st) K) as [pn K'].
      cbn [fst snd g_stack ksize fsize bsize] in *. lia.
    + pose proof (exec_stmt_size g env p s) as Hs. set (r := exec_stmt g env p s) in *.
      pose proof (resume_size (r_panic r) (r_push r ++ KSeq env ps :: exit_stack p K)) as Hr. rewrite ksize_app in Hr.
      pose proof (exit_stack_size p K) as Hx.
      destruct (resume (r_panic r) (r_push r ++ KSeq env ps :: exit_stack p K)) as [pn K'].
      unfold spawn_size in Hs. cbn [fst snd g_stack ksize fsize bsize] in *.
      destruct (r_spawn r); cbn [g_stack]; lia.
  - destruct (run_dacts g xs s) as [s1 evs].
    pose proof (resume_size (g_panic st || negb match evs with [] => true | _ :: _ => false end) K) as Hr.
    destruct (resume (g_panic st || negb match evs with [] => true | _ :: _ => false end) K) as [pn K'].
    cbn [fst snd g_stack ksize fsize] in *. lia.
  - pose proof (resume_size (g_panic st) K). destruct (resume (g_panic st) K) as [pn K'].
    cbn [fst snd g_stack ksize fsize] in *. lia.
  - destruct cfo as [cf|].
    + destruct (tl_set g cf (tl_init g (tls s))).
      * pose proof (resume_size false K). destruct (resume false K) as [pn K']. cbn [fst snd g_stack ksize fsize] in *. lia.
      * pose proof (resume_size true K). destruct (resume true K) as [pn K']. cbn [fst snd g_stack ksize fsize] in *. lia.
    + pose proof (resume_size false K). destruct (resume false K) as [pn K']. cbn [fst snd g_stack ksize fsize] in *. lia.
  - cbn [fst snd g_stack ksize fsize]. lia.
Qed.

Lemma csize_app l l' : csize (l ++ l') = csize l + csize l'.
Proof. induction l as [|x l IH]; cbn [app csize]; [reflexivity|]. rewrite IH. lia. Qed.

Lemma csize_upd : forall l g st st', nth_error l g = Some st -> csize (upd g st' l) + gsize st = csize l + gsize st'.
Proof.
  induction l as [|x l IH]; intros [|g] st st' H; cbn [nth_error] in H; try discriminate; cbn [upd csize].
  - inversion H; subst. lia.
  - pose proof (IH g st st' H). lia.
Qed.

Lemma step_size g c st :
  nth_error (gs c) g = Some st -> g_stack st <> [] -> csize (gs (step g c)) < csize (gs c).
Proof.
  intros Eg Hne. pose proof (step_g_size g (sh c) st Hne) as Hs. unfold step. rewrite Eg.
  destruct (step_g g (sh c) st) as [[s1 st1] sp]. cbn [fst snd] in Hs.
  pose proof (csize_upd (gs c) g st st1 Eg) as Hu.
  destruct sp as [ch|]; cbn [gs]; [rewrite csize_app; cbn [csize]|]; lia.
Qed.

Lemma unfinished_goroutine c : finished c = false -> exists g st, nth_error (gs c) g = Some st /\ g_stack st <> [].
Proof.
  unfold finished. intros H.
  assert (E : forall l, forallb (fun st => match g_stack st with [] => true | _ :: _ => false end) l = false ->
              exists g st, nth_error l g = Some st /\ g_stack st <> []).
  { induction l as [|x l IH]; cbn [forallb]; [discriminate|]. intros Hf.
    destruct (g_stack x) as [|f K] eqn:Ex; cbn [andb] in Hf.
    - destruct (IH Hf) as (g & st & Hg & Hs). exists (S g), st. auto.
    - exists 0, x. split; [reflexivity|congruence]. }
  apply E. exact H.
Qed.

(* from every configuration some schedule ends all goroutines *)
Theorem can_finish : forall c, exists sched, finished (run sched c) = true.
Proof.
  intros c. remember (csize (gs c)) as n eqn:En. revert c En.
  induction n as [n IH] using lt_wf_ind. intros c En.
  destruct (finished c) eqn:Ef; [exists []; exact Ef|].
  destruct (unfinished_goroutine c Ef) as (g & st & Eg & Hne).
  pose proof (step_size g c st Eg Hne) as Hlt.
  destruct (IH (csize (gs (step g c))) ltac:(lia) (step g c) eq_refl) as [sched Hs].
  exists (g :: sched). exact Hs.
Qed.

(* a finished configuration stays as it is *)
Lemma finished_step g c : finished c = true -> step g c = c.
Proof.
  intros Hf. unfold step. destruct (nth_error (gs c) g) as [st|] eqn:Eg; [|reflexivity].
  unfold finished in Hf. rewrite forallb_forall in Hf. pose proof (Hf st (nth_error_In _ _ Eg)) as Hs.
  unfold step_g. destruct (g_stack st) eqn:Es; [|discriminate].
  destruct c as [s l]. cbn [sh gs] in *. f_equal.
  clear Hf. revert g Eg. induction l as [|x l IH]; intros [|g] Eg; cbn [nth_error] in Eg; try discriminate; cbn [upd].
  - inversion Eg; reflexivity.
  - rewrite IH by exact Eg. reflexivity.
Qed.
