(* FileLoaderIff.v — property C15, "file => found" for EVERY loader topology and every reachable state.

   A name for which a consulted loader has a well-formed, correctly named definition file at the derived path is
   never answered "not found" by a lookup sequence in which no lookup reported an error (an error in a referenced
   file legitimately propagates and - for a TypeSet whose member lookup failed - leaves the cached placeholder).

   Technique: two-state relations that every monadic computation of the model satisfies -
     R    (always): bound values persist, non-nil entries stay non-nil, the dependency loader gains no cached miss;
     Qrel (when the computation ends without error): no NEW cached miss appears for a pair (consulted loader, name
          with a definition file) -
   proved once per function of a layer (open recursion over LE / FD), then for every layer, then for every run;
   plus the "miss trace": when the top loader answers a non-value without error, every consulted loader that has a
   definition file for the name already held a cached miss for it before the lookup started. *)
From Coq Require Import ZArith NArith Bool List Lia.
From PcoreV Require Import Model.Base Model.FileLoader Proofs.FileLoaderProofs.
Import ListNotations.
Local Open Scope nat_scope.

Section Iff.
  Variable w : world.
  Notation ixs := (indexes_of w).
  Notation mod_at := (mod_at w).

  (* loader i answers for k (module prefix) and has, at the path derived from k, a well-formed definition file that
     declares k (or holds a bare expression) *)
  Definition defined_file (i : nat) (k : str) : Prop :=
    routed w i k /\ exists p f v, origin_of w i k = Some p /\ file_at (mod_at i) p = Some f /\ good_for f k v.

  (* the loaders that the top loader asks for k (dependency.go:47: a qualified name whose first segment is a module
     name goes to that module only) *)
  Definition consulted (k : str) (i : nat) : Prop :=
    match w_top w with
    | TopSingle => i = 0
    | TopChain => i <= length (w_mods w) - 1
    | TopDep =>
        if dep_index_nonempty w && is_qualified k then
          match dep_index_get w (hd [] (split_dc k)) with Some j => i = j | None => i < length (w_mods w) end
        else i < length (w_mods w)
    end.

  Definition vals_persist (s s' : state) : Prop :=
    forall i k v, get_entry s i k = Some (Some v) -> get_entry s' i k = Some (Some v).
  Definition nonnil_persist (s s' : state) : Prop :=
    forall i k, get_entry s i k <> None -> get_entry s' i k <> None.
  Definition depmiss_old (s s' : state) : Prop :=
    forall k, dep_get (st_dep s') k = Some None -> dep_get (st_dep s) k = Some None.
  Definition R (s s' : state) : Prop := vals_persist s s' /\ nonnil_persist s s' /\ depmiss_old s s'.
  Definition Qrel (s s' : state) : Prop :=
    forall i k, consulted k i -> defined_file i k -> get_entry s' i k = Some None -> get_entry s i k = Some None.
  Definition depok (s : state) : Prop := forall k, dep_get (st_dep s) k <> Some None.

  Lemma R_refl s : R s s.
  Proof. unfold R, vals_persist, nonnil_persist, depmiss_old. repeat split; intros; auto. Qed.
  Lemma R_trans s1 s2 s3 : R s1 s2 -> R s2 s3 -> R s1 s3.
  Proof. unfold R, vals_persist, nonnil_persist, depmiss_old. intros (A1 & B1 & C1) (A2 & B2 & C2). repeat split; intros; auto. Qed.
  Lemma Q_refl s : Qrel s s.
  Proof. intros i k _ _ H; exact H. Qed.
  Lemma Q_trans s1 s2 s3 : Qrel s1 s2 -> Qrel s2 s3 -> Qrel s1 s3.
  Proof. intros A B i k Hc Hd H. apply (A i k Hc Hd). apply (B i k Hc Hd). exact H. Qed.
  Lemma depok_R s s' : depok s -> R s s' -> depok s'.
  Proof. intros Hd (_ & _ & C) k H. apply (Hd k). apply C. exact H. Qed.

  Lemma R_same s s' : st_entries s' = st_entries s -> st_dep s' = st_dep s -> R s s'.
  Proof. intros He Hd. unfold R, vals_persist, nonnil_persist, depmiss_old, get_entry. rewrite He, Hd. auto. Qed.
  Lemma Q_same s s' : st_entries s' = st_entries s -> Qrel s s'.
  Proof. intros He i k _ _. unfold get_entry. rewrite He. auto. Qed.

  (* every outcome: R; an outcome without error: Qrel *)
  Definition good {A} (m : M A) : Prop :=
    forall s s' r, depok s -> m s = (s', r) -> R s s' /\ (forall a, r = Ok a -> Qrel s s').

  Lemma good_ret {A} (a : A) : good (ret a).
  Proof. intros s s' r _ H. inversion H; subst. split; [apply R_refl|intros; apply Q_refl]. Qed.
  Lemma good_fail {A} e : good (@fail A e).
  Proof. intros s s' r _ H. inversion H; subst. split; [apply R_refl|intros; apply Q_refl]. Qed.
  Lemma good_const {A} (r0 : res A) : good (fun s => (s, r0)).
  Proof. intros s s' r _ H. inversion H; subst. split; [apply R_refl|intros; apply Q_refl]. Qed.
  Lemma good_read {A} (f : state -> A) : good (fun s => (s, Ok (f s))).
  Proof. intros s s' r _ H. inversion H; subst. split; [apply R_refl|intros; apply Q_refl]. Qed.

  Lemma good_bind {A B} (m : M A) (f : A -> M B) : good m -> (forall a, good (f a)) -> good (bind m f).
  Proof.
    intros Hm Hf s s' r Hd Hb. unfold bind in Hb. destruct (m s) as [s1 r1] eqn:E1.
    destruct (Hm s s1 r1 Hd E1) as [HR1 HQ1].
    destruct r1 as [a|e| |]; try (inversion Hb; subst; split; [exact HR1|intros ? Hx; discriminate Hx]).
    destruct (Hf a s1 s' r (depok_R _ _ Hd HR1) Hb) as [HR2 HQ2].
    split; [eapply R_trans; eauto|]. intros b Hb'. eapply Q_trans; [apply (HQ1 a eq_refl)|apply (HQ2 b Hb')].
  Qed.

  Lemma good_same {A} (m : M A) :
    (forall s s' r, m s = (s', r) -> st_entries s' = st_entries s /\ st_dep s' = st_dep s) -> good m.
  Proof. intros H s s' r _ Hm. destruct (H s s' r Hm) as [He Hd]. split; [apply R_same; auto|intros; apply Q_same; auto]. Qed.

  Lemma good_get_entry i k : good (get_entry_m i k).
  Proof. apply good_same. intros s s' r H; inversion H; subst; auto. Qed.
  Lemma good_kid_add j k : good (kid_add_m j k).
  Proof. apply good_same. intros s s' r H; inversion H; subst; auto. Qed.
  Lemma good_log_read i p : good (log_read_m i p).
  Proof. apply good_same. intros s s' r H; inversion H; subst; auto. Qed.
  Lemma good_unres_add mk : good (unres_add_m mk).
  Proof. apply good_same. intros s s' r H; inversion H; subst; auto. Qed.
  Lemma good_unres_del mk : good (unres_del_m mk).
  Proof. apply good_same. intros s s' r H; inversion H; subst; auto. Qed.

  Lemma R_upd_ent s i k v : get_entry s i k = None \/ get_entry s i k = Some None -> R s (upd_ent s i k v).
  Proof.
    intros Hold. repeat split.
    - intros i' k' v' H. rewrite get_upd_ent. destruct (mk_eqb (i', k') (i, k)) eqn:E; [|exact H].
      apply mk_eqb_eq in E. inversion E; subst. destruct Hold as [Ho|Ho]; rewrite Ho in H; discriminate H.
    - intros i' k' H. apply get_upd_nonnil. exact H.
    - intros k' H. exact H.
  Qed.

  Lemma R_set_entry i k v s s' r : set_entry_m i k v s = (s', r) -> R s s'.
  Proof.
    intros Hm. destruct (set_entry_m_cases _ _ _ _ _ _ Hm) as [(_ & -> & _)|[(_ & -> & Hold)|(-> & _)]];
      [apply R_refl|apply R_upd_ent; exact Hold|apply R_refl].
  Qed.

  (* after a SetEntry of a value that did not fail the value is there *)
  Lemma set_entry_ok_val i k v s s' : set_entry_m i k (Some v) s = (s', Ok tt) -> get_entry s' i k = Some (Some v).
  Proof.
    intros Hm. destruct (set_entry_m_cases _ _ _ _ _ _ Hm) as [(_ & -> & ov & Hg & Hv)|[(_ & -> & _)|(_ & [H|H])]];
      try discriminate H.
    - rewrite Hg, Hv. reflexivity.
    - apply get_upd_same.
  Qed.

  Lemma good_set_val i k v : good (set_entry_m i k (Some v)).
  Proof.
    intros s s' r _ Hm. split; [eapply R_set_entry; eauto|]. intros [] ->.
    pose proof (set_entry_ok_val _ _ _ _ _ Hm) as Hv.
    destruct (set_entry_m_cases _ _ _ _ _ _ Hm) as [(_ & -> & _)|[(_ & -> & _)|(-> & _)]]; try apply Q_refl.
    intros i' k' _ _ H. rewrite get_upd_ent in H. destruct (mk_eqb (i', k') (i, k)); [discriminate H|exact H].
  Qed.

  (* caching a miss: fine unless the pair has a definition file and did not hold a miss before *)
  Lemma Q_set_none i k s s' s0 :
    set_entry_m i k None s = (s', Ok tt) -> Qrel s0 s ->
    (consulted k i -> defined_file i k -> get_entry s0 i k = Some None) -> Qrel s0 s'.
  Proof.
    intros Hm HQ Hc. destruct (set_entry_m_cases _ _ _ _ _ _ Hm) as [(_ & _ & ov & _ & Hv)|[(_ & -> & _)|(_ & [H|H])]];
      try discriminate.
    intros i' k' Hc' Hd' H. rewrite get_upd_ent in H. destruct (mk_eqb (i', k') (i, k)) eqn:E.
    - apply mk_eqb_eq in E. inversion E; subst. apply Hc; assumption.
    - apply (HQ i' k' Hc' Hd' H).
  Qed.

  Lemma good_for_each {A} (f : A -> M unit) l : (forall x, good (f x)) -> good (for_each f l).
  Proof.
    intros H. induction l as [|x t IH]; cbn [for_each]; [apply good_ret|].
    apply good_bind; [apply H|intros _; exact IH].
  Qed.

  Lemma good_for_each_i {A} (f : nat -> A -> M unit) l : (forall j x, good (f j x)) -> forall j0, good (for_each_i f j0 l).
  Proof.
    intros H. induction l as [|x t IH]; intros j0; cbn [for_each_i]; [apply good_ret|].
    apply good_bind; [apply H|intros _; apply IH].
  Qed.

  Definition nonval (e : eres) : Prop := forall v, e <> Some (Some v).

  Lemma bind_ok_inv {A B} (m : M A) (f : A -> M B) s s' b :
    bind m f s = (s', Ok b) -> exists s1 a, m s = (s1, Ok a) /\ f a s1 = (s', Ok b).
  Proof.
    unfold bind. destruct (m s) as [s1 [a|e| |]]; intros H; try discriminate H. exists s1, a. split; [reflexivity|exact H].
  Qed.

  Lemma good_dep_set_val k v : good (dep_set_m k (Some v)).
  Proof.
    intros s s' r _ Hm.
    assert (He : st_entries s' = st_entries s /\
                 (st_dep s' = st_dep s \/ st_dep s' = (k, Some v) :: st_dep s)).
    { unfold dep_set_m in Hm. destruct (dep_get (st_dep s) k) as [[ov|]|].
      - destruct (tval_eqb ov v); inversion Hm; subst; auto.
      - inversion Hm; subst; cbn [st_entries st_dep]; auto.
      - inversion Hm; subst; cbn [st_entries st_dep]; auto. }
    destruct He as [He Hdp]. split; [|intros; apply Q_same; exact He].
    unfold R, vals_persist, nonnil_persist, depmiss_old, get_entry. rewrite He. repeat split; auto.
    intros k' H. destruct Hdp as [Hdp|Hdp]; rewrite Hdp in H; [exact H|]. cbn [dep_get] in H.
    destruct (str_eqb k' k); [discriminate H|exact H].
  Qed.

  Section Layer.
    Variable LE : ctxl -> str -> M eres.
    Variable FD : ctxl -> nat -> str -> M eres.
    Hypothesis HLE_G : forall cl k, good (LE cl k).
    Hypothesis HLE_N : forall cl k s s', LE cl k s = (s', Ok None) -> cl_ctx cl <> None.
    Hypothesis HLE_MT : forall cl k s s' e, depok s -> LE cl k s = (s', Ok e) -> nonval e ->
      forall i, consulted k i -> defined_file i k -> get_entry s i k = Some None.
    Hypothesis HFD_G : forall cl i k, good (FD cl i k).

    Lemma good_load cl k : good (load w LE cl k).
    Proof.
      intros s s' r Hd Hm. unfold load, bind in Hm. destruct (LE cl k s) as [s1 r1] eqn:E.
      destruct (HLE_G cl k s s1 r1 Hd E) as [HR HQ].
      destruct r1 as [[[v|]|]|e| |];
        try (inversion Hm; subst; split; [exact HR|intros a Ha; try discriminate Ha; apply (HQ _ eq_refl)]).
      specialize (HQ None eq_refl).
      assert (HMT : forall i, consulted k i -> defined_file i k -> get_entry s i k = Some None).
      { intros i. apply (HLE_MT cl k s s1 None Hd E). intros v Hv; discriminate Hv. }
      destruct (cl_def cl) as [i|] eqn:Edef.
      - destruct (set_entry_m i k None s1) as [s2 r2] eqn:E2. pose proof (R_set_entry _ _ _ _ _ _ E2) as HR2.
        destruct r2 as [[]|e| |]; inversion Hm; subst; (split; [eapply R_trans; eauto|]); intros a Ha; try discriminate Ha.
        eapply Q_set_none; [exact E2|exact HQ|apply HMT].
      - destruct (cl_ctx cl) as [j|] eqn:Ectx.
        + unfold kid_add_m, ret in Hm. inversion Hm; subst.
          split; [eapply R_trans; [exact HR|apply R_same; reflexivity]|].
          intros a _. eapply Q_trans; [exact HQ|apply Q_same; reflexivity].
        + exfalso. apply (HLE_N cl k s s1 E). exact Ectx.
    Qed.

    Lemma good_add_alias cl i kd mk refs : good (add_alias w LE cl i kd mk refs).
    Proof.
      unfold add_alias. apply good_bind; [apply good_set_val|intros _].
      apply good_bind; [apply good_unres_add|intros _].
      apply good_bind; [|intros _; apply good_unres_del].
      apply good_for_each. intros x. apply good_bind; [apply good_load|intros _; apply good_ret].
    Qed.

    Lemma good_add_typeset cl i kd decl mk members : good (add_typeset LE cl i kd decl mk members).
    Proof.
      unfold add_typeset. apply good_bind; [|intros _; apply good_set_val].
      apply good_for_each_i. intros j mn. apply good_bind; [apply HLE_G|].
      intros [[v|]|]; [apply good_ret|apply good_set_val|apply good_set_val].
    Qed.

    Lemma good_inst_body cl i k p : good (inst_body w LE cl i k p).
    Proof.
      unfold inst_body. destruct (content_at w i p) as [f|]; [|apply good_fail].
      destruct (f_content f); try apply good_fail.
      - destruct (str_eqb _ _); [apply good_add_alias|apply good_fail].
      - apply good_add_alias.
      - destruct (str_eqb _ _); [apply good_add_typeset|apply good_fail].
    Qed.

    Lemma add_alias_binds cl i kd mk refs s s' :
      depok s -> add_alias w LE cl i kd mk refs s = (s', Ok tt) ->
      get_entry s' i kd = Some (Some {| tv_name := kd; tv_marker := mk; tv_ts := false |}).
    Proof.
      intros Hd Hm. unfold add_alias in Hm. apply bind_ok_inv in Hm. destruct Hm as (s1 & [] & E1 & Hrest).
      cbv beta in Hrest.
      pose proof (set_entry_ok_val _ _ _ _ _ E1) as Hv.
      pose proof (depok_R _ _ Hd (R_set_entry _ _ _ _ _ _ E1)) as Hd1.
      match type of Hrest with ?m s1 = _ => assert (Hg2 : good m) end.
      { apply good_bind; [apply good_unres_add|intros _].
        apply good_bind; [|intros _; apply good_unres_del].
        apply good_for_each. intros x. apply good_bind; [apply good_load|intros _; apply good_ret]. }
      destruct (Hg2 s1 s' _ Hd1 Hrest) as [(HV & _) _]. apply HV. exact Hv.
    Qed.

    (* a well-formed, correctly named file: when the instantiator returns, the name is bound *)
    Lemma inst_body_binds cl i k p s s' :
      depok s -> origin_of w i k = Some p -> defined_file i k ->
      inst_body w LE cl i k p s = (s', Ok tt) -> exists v, get_entry s' i k = Some (Some v).
    Proof.
      intros Hd Ho (_ & p' & f & v & Ho' & Hf & Hg) Hm. rewrite Ho in Ho'. inversion Ho'; subst p'.
      unfold inst_body, content_at in Hm. rewrite Hf in Hm. unfold good_for in Hg.
      destruct (f_content f) as [decl refs|refs|decl members|line| |]; try contradiction.
      - destruct Hg as [Hdk _]. rewrite Hdk, str_eqb_refl in Hm. eexists. exact (add_alias_binds _ _ _ _ _ _ _ Hd Hm).
      - eexists. exact (add_alias_binds _ _ _ _ _ _ _ Hd Hm).
      - destruct Hg as [Hdk _]. rewrite Hdk, str_eqb_refl in Hm. unfold add_typeset in Hm.
        apply bind_ok_inv in Hm. destruct Hm as (s1 & [] & _ & Hset). eexists. exact (set_entry_ok_val _ _ _ _ _ Hset).
    Qed.

    Lemma instantiate_defined cl i k origins s s' e :
      depok s -> origin_of w i k = Some (hd [] origins) -> defined_file i k -> get_entry s i k = None ->
      instantiate w LE cl i k origins s = (s', Ok e) -> exists v, e = Some (Some v).
    Proof.
      intros Hd Ho Hdf Hg Hm. rewrite (instantiate_unfold w LE cl i k origins s Hg) in Hm.
      destruct (inst_body w LE {| cl_ctx := cl_ctx cl; cl_def := Some i |} i k (hd [] origins)
                  (after_read s i k (hd [] origins))) as [s3 r3] eqn:E3.
      destruct r3 as [[]|e3| |]; try discriminate Hm. inversion Hm; subst.
      assert (Hd1 : depok (after_read s i k (hd [] origins))) by (intros k0; apply (Hd k0)).
      destruct (inst_body_binds _ i k _ _ _ Hd1 Ho Hdf E3) as [v Hv]. exists v. exact Hv.
    Qed.

    Lemma good_instantiate cl i k origins :
      origin_of w i k = Some (hd [] origins) -> good (instantiate w LE cl i k origins).
    Proof.
      intros Ho s s' r Hd Hm. destruct (get_entry s i k) as [e0|] eqn:Hg.
      - unfold instantiate, bind, get_entry_m in Hm. rewrite Hg in Hm. inversion Hm; subst.
        split; [apply R_refl|intros; apply Q_refl].
      - rewrite (instantiate_unfold w LE cl i k origins s Hg) in Hm.
        remember (after_read s i k (hd [] origins)) as s1 eqn:Es1.
        assert (Hge : forall i' k', get_entry s1 i' k' = get_entry (upd_ent s i k None) i' k') by (subst s1; reflexivity).
        assert (Hdp : st_dep s1 = st_dep s) by (subst s1; reflexivity).
        assert (HR1 : R s s1).
        { destruct (R_upd_ent s i k None (or_introl Hg)) as (A & B & _).
          unfold R, vals_persist, nonnil_persist, depmiss_old. rewrite Hdp. repeat split; auto.
          - intros i' k' v' H. rewrite Hge. apply A; exact H.
          - intros i' k' H. rewrite Hge. apply B; exact H. }
        pose proof (depok_R _ _ Hd HR1) as Hd1.
        destruct (inst_body w LE {| cl_ctx := cl_ctx cl; cl_def := Some i |} i k (hd [] origins) s1) as [s3 r3] eqn:E3.
        destruct (good_inst_body _ i k _ s1 s3 r3 Hd1 E3) as [HR3 HQ3].
        destruct r3 as [[]|e3| |]; inversion Hm; subst s' r; (split; [eapply R_trans; eauto|]); intros a Ha; try discriminate Ha.
        intros i' k' Hc' Hd' H. pose proof (HQ3 tt eq_refl i' k' Hc' Hd' H) as H1.
        rewrite Hge, get_upd_ent in H1. destruct (mk_eqb (i', k') (i, k)) eqn:E; [|exact H1].
        apply mk_eqb_eq in E. inversion E; subst i' k'. exfalso.
        destruct (inst_body_binds _ i k _ _ _ Hd1 Ho Hd' E3) as [v Hv]. rewrite Hv in H. discriminate H.
    Qed.

    Lemma good_psearch cl i k anc : good (psearch FD cl i k anc).
    Proof.
      induction anc as [|ts rest IH]; cbn [psearch]; [apply good_ret|].
      apply good_bind; [apply good_get_entry|]. intros [e0|]; [exact IH|].
      apply good_bind; [apply HFD_G|intros _]. apply good_bind; [apply good_get_entry|].
      intros [e|]; [apply good_ret|exact IH].
    Qed.

    Lemma good_find cl i k : good (find w ixs LE FD cl i k).
    Proof.
      unfold find.
      assert (Hgen : (is_global (mod_at i) = true \/ is_qualified k = true) ->
                     good (match find_existing_path ixs i k with
                           | Some origins => instantiate w LE cl i k origins
                           | None => if is_qualified k then psearch FD cl i k (ancestors k) else ret None
                           end)).
      { intros Hq. destruct (find_existing_path ixs i k) as [origins|] eqn:F.
        - apply good_instantiate. rewrite (origin_general w i k Hq), F. reflexivity.
        - destruct (is_qualified k); [apply good_psearch|apply good_ret]. }
      destruct (is_global (mod_at i)) eqn:G; [apply Hgen; left; reflexivity|].
      unfold parts_checked. destruct (forallb valid_seg (split_dc k)) eqn:V; [|apply good_fail].
      destruct (negb (str_eqb (m_name (mod_at i)) (hd [] (split_dc k)))) eqn:Nm; [apply good_ret|].
      destruct (is_qualified k) eqn:Q; [apply Hgen; right; reflexivity|].
      destruct (find_existing_path ixs i s_init_typeset) as [origins|] eqn:F; [|apply good_ret].
      assert (Ho : origin_of w i k = Some (hd [] origins)).
      { unfold origin_of. rewrite G, Q. cbn [negb andb].
        rewrite (split_dc_unq _ Q) in Nm. cbn [hd] in Nm. apply negb_false_iff in Nm. rewrite Nm, F. reflexivity. }
      apply good_bind; [apply (good_instantiate cl i k origins Ho)|].
      intros [[v|]|]; [destruct (tv_ts v); [apply good_ret|apply good_fail]|apply good_fail|apply good_fail].
    Qed.

    (* find for a name that has a definition file and no entry yet: a value, or an error *)
    Lemma find_defined cl i k s s' e :
      depok s -> defined_file i k -> get_entry s i k = None ->
      find w ixs LE FD cl i k s = (s', Ok e) -> exists v, e = Some (Some v).
    Proof.
      intros Hd Hdf Hg Hm. pose proof Hdf as (Hr & p & f & v & Ho & Hf & Hgf).
      assert (Hinst : forall origins s1 e1, hd [] origins = p ->
                instantiate w LE cl i k origins s = (s1, Ok e1) -> exists v, e1 = Some (Some v)).
      { intros origins s1 e1 Hp Hi. apply (instantiate_defined cl i k origins s s1 e1 Hd); auto. rewrite Hp; exact Ho. }
      clear Hdf. unfold find in Hm. unfold origin_of in Ho.
      destruct (is_global (mod_at i)) eqn:G.
      - cbn [negb andb] in Ho. destruct (find_existing_path ixs i k) as [origins|]; [|discriminate Ho].
        cbn [option_map] in Ho. inversion Ho. eapply Hinst; eauto.
      - destruct Hr as [Hr|[Hv Hn]]; [unfold FileLoader.mod_at in *; congruence|].
        unfold parts_checked in Hm. rewrite Hv, Hn in Hm. cbn [negb] in Hm.
        destruct (is_qualified k) eqn:Q.
        + cbn [negb andb] in Ho. destruct (find_existing_path ixs i k) as [origins|]; [|discriminate Ho].
          cbn [option_map] in Ho. inversion Ho. eapply Hinst; eauto.
        + cbn [negb andb] in Ho. rewrite (split_dc_unq _ Q) in Hn. cbn [hd] in Hn. rewrite Hn in Ho.
          destruct (find_existing_path ixs i s_init_typeset) as [origins|]; [|discriminate Ho].
          cbn [option_map] in Ho. inversion Ho as [Hp]. unfold bind in Hm.
          destruct (instantiate w LE cl i k origins s) as [s1 [e1|e1| |]] eqn:Ei; try discriminate Hm.
          destruct (Hinst origins s1 e1 Hp Ei) as [v1 ->]. destruct (tv_ts v1); [|discriminate Hm].
          inversion Hm; subst. eexists; reflexivity.
    Qed.

    Lemma good_mod_load_own cl i k : good (mod_load_own w ixs LE FD cl i k).
    Proof.
      intros s s' r Hd Hm. unfold mod_load_own, bind, get_entry_m in Hm.
      destruct (get_entry s i k) as [e0|] eqn:Hg.
      - inversion Hm; subst. split; [apply R_refl|intros; apply Q_refl].
      - destruct (find w ixs LE FD cl i k s) as [s1 r1] eqn:Ef.
        destruct (good_find cl i k s s1 r1 Hd Ef) as [HR HQ].
        destruct r1 as [[e1|]|e1| |];
          try (inversion Hm; subst; split; [exact HR|intros a Ha; try discriminate Ha; apply (HQ _ eq_refl)]).
        destruct (set_entry_m i k None s1) as [s2 r2] eqn:E2. pose proof (R_set_entry _ _ _ _ _ _ E2) as HR2.
        destruct r2 as [[]|e| |]; inversion Hm; subst; (split; [eapply R_trans; eauto|]); intros a Ha; try discriminate Ha.
        eapply Q_set_none; [exact E2|apply (HQ _ eq_refl)|].
        intros _ Hdf. exfalso. destruct (find_defined cl i k s s1 None Hd Hdf Hg Ef) as [v Hv]. discriminate Hv.
    Qed.

    Lemma mod_load_own_res cl i k s s' e : mod_load_own w ixs LE FD cl i k s = (s', Ok e) -> e <> None.
    Proof.
      intros Hm. unfold mod_load_own, bind, get_entry_m in Hm. destruct (get_entry s i k) as [e0|].
      - inversion Hm; subst; discriminate.
      - destruct (find w ixs LE FD cl i k s) as [s1 [[e1|]|e1| |]]; try discriminate Hm.
        + inversion Hm; subst; discriminate.
        + destruct (set_entry_m i k None s1) as [s2 [[]|e2| |]]; inversion Hm; subst; discriminate.
    Qed.

    (* a loader that has a definition file for k answers a non-value without error only from a cached miss *)
    Lemma mod_load_own_miss cl i k s s' e :
      depok s -> mod_load_own w ixs LE FD cl i k s = (s', Ok e) -> nonval e -> defined_file i k ->
      get_entry s i k = Some None.
    Proof.
      intros Hd Hm Hnv Hdf. unfold mod_load_own, bind, get_entry_m in Hm.
      destruct (get_entry s i k) as [e0|] eqn:Hg.
      - inversion Hm; subst. destruct e0 as [v|]; [exfalso; apply (Hnv v); reflexivity|reflexivity].
      - exfalso. destruct (find w ixs LE FD cl i k s) as [s1 r1] eqn:Ef.
        destruct r1 as [e1|e1| |]; try discriminate Hm.
        destruct (find_defined cl i k s s1 e1 Hd Hdf Hg Ef) as [v ->].
        inversion Hm; subst. apply (Hnv v); reflexivity.
    Qed.

    Lemma good_mod_load_entry cl i k : good (mod_load_entry w ixs LE FD cl i k).
    Proof. unfold mod_load_entry. destruct (shadow w k); [apply good_ret|apply good_mod_load_own]. Qed.

    Lemma mod_load_entry_res cl i k s s' e : mod_load_entry w ixs LE FD cl i k s = (s', Ok e) -> e <> None.
    Proof.
      unfold mod_load_entry. destruct (shadow w k); [intros H; inversion H; subst; discriminate|apply mod_load_own_res].
    Qed.

    Lemma mod_load_entry_miss cl i k s s' e :
      depok s -> mod_load_entry w ixs LE FD cl i k s = (s', Ok e) -> nonval e -> defined_file i k ->
      get_entry s i k = Some None.
    Proof.
      unfold mod_load_entry. destruct (shadow w k) as [nm|].
      - intros _ H Hnv. inversion H; subst. exfalso. eapply Hnv; reflexivity.
      - apply mod_load_own_miss.
    Qed.

    Lemma nonval_none : nonval None.
    Proof. intros v H; discriminate H. Qed.
    Lemma nonval_miss : nonval (Some None).
    Proof. intros v H; discriminate H. Qed.

    (* ---- a chain of file-based loaders ---- *)
    Lemma good_chain np : forall cl i k, good (chain_load_entry w ixs LE FD np cl i k).
    Proof.
      induction np as [|np IH]; intros cl i k; cbn [chain_load_entry]; [apply good_mod_load_entry|].
      apply good_bind; [apply IH|]. intros [[v|]|]; [apply good_ret|apply good_mod_load_own|apply good_mod_load_own].
    Qed.

    Lemma chain_res np : forall cl i k s s' e, chain_load_entry w ixs LE FD np cl i k s = (s', Ok e) -> e <> None.
    Proof.
      induction np as [|np IH]; intros cl i k s s' e Hm; cbn [chain_load_entry] in Hm; [eapply mod_load_entry_res; eauto|].
      apply bind_ok_inv in Hm. destruct Hm as (s1 & pe & _ & Hm).
      destruct pe as [[v|]|]; [inversion Hm; subst; discriminate|eapply mod_load_own_res; eauto|eapply mod_load_own_res; eauto].
    Qed.

    Lemma chain_miss np : forall cl i k s s' e,
      depok s -> w_top w = TopChain -> i + np <= length (w_mods w) - 1 ->
      chain_load_entry w ixs LE FD np cl i k s = (s', Ok e) -> nonval e ->
      forall j, i <= j <= i + np -> defined_file j k -> get_entry s j k = Some None.
    Proof.
      induction np as [|np IH]; intros cl i k s s' e Hd Ht Hlen Hm Hnv j Hj Hdf; cbn [chain_load_entry] in Hm.
      - assert (j = i) by lia. subst j. eapply mod_load_entry_miss; eauto.
      - apply bind_ok_inv in Hm. destruct Hm as (s1 & pe & E1 & Hm).
        destruct (good_chain np cl (S i) k s s1 _ Hd E1) as [HR1 HQ1].
        assert (Hpe : nonval pe -> forall j, S i <= j <= S i + np -> defined_file j k -> get_entry s j k = Some None).
        { intros Hp. apply (IH cl (S i) k s s1 pe Hd Ht ltac:(lia) E1 Hp). }
        assert (Hown : mod_load_own w ixs LE FD cl i k s1 = (s', Ok e) -> get_entry s j k = Some None).
        { intros Ho. destruct (Nat.eq_dec j i) as [->|Hne].
          - apply (HQ1 pe eq_refl i k); [unfold consulted; rewrite Ht; lia|exact Hdf|].
            eapply mod_load_own_miss; eauto. eapply depok_R; eauto.
          - apply Hpe; [|lia|exact Hdf]. destruct pe as [[v|]|]; [|apply nonval_miss|apply nonval_none].
            exfalso. inversion Hm; subst. eapply Hnv; reflexivity. }
        destruct pe as [[v|]|]; [|exact (Hown Hm)|exact (Hown Hm)].
        exfalso. inversion Hm; subst. eapply Hnv; reflexivity.
    Qed.

    (* ---- the dependency loader ---- *)
    Notation dep_loop cl k :=
      (fix loop (n : nat) (i : nat) : M eres :=
         match n with
         | 0 => fun s => (s, Ok (dep_get (st_dep s) k))
         | S n' => e <- mod_load_entry w ixs LE FD cl i k ;;
                   match e with Some (Some _) => ret e | _ => loop n' (S i) end
         end).

    Lemma good_dep_loop cl k n : forall i, good (dep_loop cl k n i).
    Proof.
      induction n as [|n IH]; intros i; [apply good_read|].
      apply good_bind; [apply good_mod_load_entry|]. intros [[v|]|]; [apply good_ret|apply IH|apply IH].
    Qed.

    Lemma dep_loop_miss cl k n : forall i s s' e,
      depok s -> (forall j, i <= j < i + n -> consulted k j) ->
      dep_loop cl k n i s = (s', Ok e) -> nonval e ->
      forall j, i <= j < i + n -> defined_file j k -> get_entry s j k = Some None.
    Proof.
      induction n as [|n IH]; intros i s s' e Hd Hc Hm Hnv j Hj Hdf; [lia|].
      apply bind_ok_inv in Hm. destruct Hm as (s1 & e1 & E1 & Hm).
      destruct (good_mod_load_entry cl i k s s1 _ Hd E1) as [HR1 HQ1].
      assert (Hrest : nonval e1 -> dep_loop cl k n (S i) s1 = (s', Ok e) -> get_entry s j k = Some None).
      { intros Hn1 Hl. destruct (Nat.eq_dec j i) as [->|Hne].
        - eapply mod_load_entry_miss; eauto.
        - apply (HQ1 e1 eq_refl j k); [apply Hc; lia|exact Hdf|].
          apply (IH (S i) s1 s' e (depok_R _ _ Hd HR1)); auto; try lia. intros j' Hj'. apply Hc. lia. }
      destruct e1 as [[v|]|]; [|exact (Hrest nonval_miss Hm)|exact (Hrest nonval_none Hm)].
      exfalso. inversion Hm; subst. eapply Hnv; reflexivity.
    Qed.

    Lemma good_dep_find cl k : good (dep_find w ixs LE FD cl k).
    Proof.
      unfold dep_find. destruct (dep_index_nonempty w && is_qualified k); [|apply good_dep_loop].
      unfold parts_checked. destruct (forallb valid_seg (split_dc k)); [|apply good_fail].
      destruct (dep_index_get w (hd [] (split_dc k))); [apply good_mod_load_entry|apply good_dep_loop].
    Qed.

    Lemma dep_find_miss cl k s s' e :
      depok s -> w_top w = TopDep -> dep_find w ixs LE FD cl k s = (s', Ok e) -> nonval e ->
      forall i, consulted k i -> defined_file i k -> get_entry s i k = Some None.
    Proof.
      intros Hd Ht Hm Hnv i Hc Hdf. unfold consulted in Hc. rewrite Ht in Hc. unfold dep_find in Hm.
      assert (Hloop : (forall j, j < length (w_mods w) -> consulted k j) -> i < length (w_mods w) ->
                      dep_loop cl k (length (w_mods w)) 0 s = (s', Ok e) -> get_entry s i k = Some None).
      { intros Hall Hi Hl. apply (dep_loop_miss cl k (length (w_mods w)) 0 s s' e Hd); auto; try lia. intros j Hj. apply Hall. lia. }
      destruct (dep_index_nonempty w && is_qualified k) eqn:B.
      - unfold parts_checked in Hm. destruct (forallb valid_seg (split_dc k)); [|discriminate Hm].
        destruct (dep_index_get w (hd [] (split_dc k))) as [j0|] eqn:Di.
        + subst i. eapply mod_load_entry_miss; eauto.
        + apply Hloop; auto. intros j Hj. unfold consulted. rewrite Ht, B, Di. exact Hj.
      - apply Hloop; auto. intros j Hj. unfold consulted. rewrite Ht, B. exact Hj.
    Qed.

    Lemma good_dep_load_entry cl k : good (dep_load_entry w ixs LE FD cl k).
    Proof.
      unfold dep_load_entry. apply good_bind; [apply good_read|]. intros [e0|]; [apply good_ret|].
      apply good_bind; [apply good_dep_find|]. intros [[v|]|]; [|apply good_ret|apply good_ret].
      apply good_bind; [apply good_dep_set_val|intros _; apply good_ret].
    Qed.

    Lemma dep_load_entry_res cl k s s' e : dep_load_entry w ixs LE FD cl k s = (s', Ok e) -> e <> None.
    Proof.
      intros Hm. unfold dep_load_entry, bind in Hm. destruct (dep_get (st_dep s) k) as [e0|].
      - inversion Hm; subst; discriminate.
      - destruct (dep_find w ixs LE FD cl k s) as [s1 [[[v|]|]|e1| |]]; try discriminate Hm;
          try (inversion Hm; subst; discriminate).
        destruct (dep_set_m k (Some v) s1) as [s2 [[]|e2| |]]; inversion Hm; subst; discriminate.
    Qed.

    Lemma dep_load_entry_miss cl k s s' e :
      depok s -> w_top w = TopDep -> dep_load_entry w ixs LE FD cl k s = (s', Ok e) -> nonval e ->
      forall i, consulted k i -> defined_file i k -> get_entry s i k = Some None.
    Proof.
      intros Hd Ht Hm Hnv. unfold dep_load_entry, bind in Hm.
      destruct (dep_get (st_dep s) k) as [[v|]|] eqn:Hdg.
      - exfalso. inversion Hm; subst. eapply Hnv; reflexivity.
      - exfalso. exact (Hd k Hdg).
      - destruct (dep_find w ixs LE FD cl k s) as [s1 r1] eqn:Ef.
        destruct r1 as [e1|e1| |]; try discriminate Hm.
        destruct e1 as [[v|]|].
        + exfalso. destruct (dep_set_m k (Some v) s1) as [s2 [[]|e2| |]]; inversion Hm; subst. eapply Hnv; reflexivity.
        + apply (dep_find_miss cl k s s1 _ Hd Ht Ef nonval_miss).
        + apply (dep_find_miss cl k s s1 _ Hd Ht Ef nonval_none).
    Qed.

    (* ---- the top loader and the loader of a context ---- *)
    Lemma good_top cl k : good (top_load_entry w ixs LE FD cl k).
    Proof. unfold top_load_entry. destruct (w_top w); [apply good_mod_load_entry|apply good_dep_load_entry|apply good_chain]. Qed.

    Lemma top_res cl k s s' e : top_load_entry w ixs LE FD cl k s = (s', Ok e) -> e <> None.
    Proof.
      unfold top_load_entry. destruct (w_top w); [apply mod_load_entry_res|apply dep_load_entry_res|apply chain_res].
    Qed.

    Lemma top_miss cl k s s' e :
      depok s -> top_load_entry w ixs LE FD cl k s = (s', Ok e) -> nonval e ->
      forall i, consulted k i -> defined_file i k -> get_entry s i k = Some None.
    Proof.
      intros Hd Hm Hnv i Hc Hdf. unfold top_load_entry in Hm. destruct (w_top w) eqn:Ht.
      - unfold consulted in Hc. rewrite Ht in Hc. subst i. eapply mod_load_entry_miss; eauto.
      - eapply dep_load_entry_miss; eauto.
      - unfold consulted in Hc. rewrite Ht in Hc.
        apply (chain_miss (length (w_mods w) - 1) cl 0 k s s' e Hd Ht ltac:(lia) Hm Hnv i ltac:(lia) Hdf).
    Qed.

    Lemma good_ctx cl k : good (ctx_load_entry w ixs LE FD cl k).
    Proof.
      unfold ctx_load_entry. destruct (cl_ctx cl) as [j|]; [|apply good_top].
      apply good_bind; [apply good_top|]. intros [[v|]|]; [apply good_ret| |];
        apply (good_read (fun s => if kid_has s j k then Some None else None)).
    Qed.

    Lemma ctx_none cl k s s' : ctx_load_entry w ixs LE FD cl k s = (s', Ok None) -> cl_ctx cl <> None.
    Proof.
      unfold ctx_load_entry. destruct (cl_ctx cl) as [j|]; [discriminate|].
      intros Hm _. exact (top_res cl k s s' None Hm eq_refl).
    Qed.

    Lemma ctx_miss cl k s s' e :
      depok s -> ctx_load_entry w ixs LE FD cl k s = (s', Ok e) -> nonval e ->
      forall i, consulted k i -> defined_file i k -> get_entry s i k = Some None.
    Proof.
      intros Hd Hm Hnv. unfold ctx_load_entry in Hm. destruct (cl_ctx cl) as [j|]; [|eapply top_miss; eauto].
      apply bind_ok_inv in Hm. destruct Hm as (s1 & e1 & E1 & Hm).
      destruct e1 as [[v|]|].
      - exfalso. inversion Hm; subst. eapply Hnv; reflexivity.
      - apply (top_miss cl k s s1 _ Hd E1 nonval_miss).
      - apply (top_miss cl k s s1 _ Hd E1 nonval_none).
    Qed.
  End Layer.

  (* every layer *)
  Lemma iff_layers n :
    (forall cl k, good (LEn w ixs n cl k)) /\
    (forall cl k s s', LEn w ixs n cl k s = (s', Ok None) -> cl_ctx cl <> None) /\
    (forall cl k s s' e, depok s -> LEn w ixs n cl k s = (s', Ok e) -> nonval e ->
        forall i, consulted k i -> defined_file i k -> get_entry s i k = Some None) /\
    (forall cl i k, good (FDn w ixs n cl i k)).
  Proof.
    induction n as [|n (IH1 & IH2 & IH3 & IH4)].
    - split; [|split; [|split]].
      + intros cl k s s' r _ H. inversion H; subst. split; [apply R_refl|intros a Ha; discriminate Ha].
      + intros cl k s s' H. inversion H.
      + intros cl k s s' e _ H. inversion H.
      + intros cl i k s s' r _ H. inversion H; subst. split; [apply R_refl|intros a Ha; discriminate Ha].
    - split; [|split; [|split]].
      + intros cl k. change (LEn w ixs (S n) cl k) with (ctx_load_entry w ixs (LEn w ixs n) (FDn w ixs n) cl k).
        apply good_ctx; assumption.
      + intros cl k s s'. change (LEn w ixs (S n) cl k s) with (ctx_load_entry w ixs (LEn w ixs n) (FDn w ixs n) cl k s).
        apply ctx_none.
      + intros cl k s s' e. change (LEn w ixs (S n) cl k s) with (ctx_load_entry w ixs (LEn w ixs n) (FDn w ixs n) cl k s).
        apply ctx_miss; assumption.
      + intros cl i k. change (FDn w ixs (S n) cl i k) with (find w ixs (LEn w ixs n) (FDn w ixs n) cl i k).
        apply good_find; assumption.
  Qed.
End Iff.

(* ------------------------------------------------------------------------------------------------------------ *)
(* runs *)

Definition clean_out (x : out * list (nat * str)) : bool :=
  match fst x with OErr _ | OFault | OFuel => false | _ => true end.

(* no operation of the sequence reported an error (nor ran out of layers) *)
Definition clean_run (w : world) (fuel : nat) (ops : list op) : Prop :=
  forallb clean_out (snd (run_from w (indexes_of w) fuel st0 ops)) = true.

(* between two operations of an error-free run: no consulted loader holds a cached miss for a name it has a
   definition file for; the dependency loader holds no cached miss at all *)
Definition Bnd (w : world) (s : state) : Prop :=
  depok s /\ forall i k, consulted w k i -> defined_file w i k -> get_entry s i k <> Some None.

Lemma Bnd_st0 w : Bnd w st0.
Proof. split; [intros k H; discriminate H|intros i k _ _ H; discriminate H]. Qed.

Lemma good_top_load w fuel cl k : good w (load w (LEn w (indexes_of w) fuel) cl k).
Proof. destruct (iff_layers w fuel) as (H1 & H2 & H3 & _). apply good_load; assumption. Qed.

Lemma step_Bnd w fuel s o s' x :
  Bnd w s -> step w (indexes_of w) fuel s o = (s', x) -> clean_out x = true -> Bnd w s'.
Proof.
  intros [Hd Hb] Hs Hc. destruct o; cbn [step] in Hs; try (inversion Hs; subst; split; assumption).
  destruct (load w (LEn w (indexes_of w) fuel) (top_ctx ctx) (norm_name name) s) as [s1 r1] eqn:E.
  inversion Hs; subst s1 x. clear Hs. destruct (good_top_load w fuel _ _ s s' r1 Hd E) as [HR HQ].
  split; [eapply depok_R; eauto|].
  destruct r1 as [a|e| |]; try discriminate Hc.
  intros i k Hci Hdf H. apply (Hb i k Hci Hdf). apply (HQ a eq_refl i k Hci Hdf H).
Qed.

Lemma run_from_Bnd w fuel ops : forall s s' xs,
  Bnd w s -> run_from w (indexes_of w) fuel s ops = (s', xs) -> forallb clean_out xs = true -> Bnd w s'.
Proof.
  induction ops as [|o t IH]; intros s s' xs Hb Hr Hc; cbn [run_from] in Hr.
  - inversion Hr; subst; exact Hb.
  - destruct (step w (indexes_of w) fuel s o) as [s1 x] eqn:E1.
    destruct (run_from w (indexes_of w) fuel s1 t) as [s2 xs2] eqn:E2.
    inversion Hr; subst. cbn [forallb] in Hc. apply andb_true_iff in Hc. destruct Hc as [Hc1 Hc2].
    eapply IH; [|exact E2|exact Hc2]. eapply step_Bnd; eauto.
Qed.

Lemma reach_Bnd w fuel ops : clean_run w fuel ops -> Bnd w (reach w fuel ops).
Proof.
  unfold clean_run, reach. destruct (run_from w (indexes_of w) fuel st0 ops) as [s xs] eqn:E. cbn [fst snd].
  intros Hc. eapply run_from_Bnd; [apply Bnd_st0|exact E|exact Hc].
Qed.

(* a name for which a consulted loader has a definition file is never answered "not found" *)
Lemma defined_not_missed w fuel ops ctx name s' o rd :
  clean_run w fuel ops -> lookup_after w fuel ops ctx name = (s', (o, rd)) ->
  (exists i, consulted w (norm_name name) i /\ defined_file w i (norm_name name)) -> o <> ONotFound.
Proof.
  intros Hc Hl (i & Hci & Hdf) Ho. subst o. destruct (reach_Bnd w fuel ops Hc) as [Hd Hb].
  unfold lookup_after, step in Hl.
  destruct (load w (LEn w (indexes_of w) fuel) (top_ctx ctx) (norm_name name) (reach w fuel ops)) as [s1 r1] eqn:E.
  inversion Hl as [[Hs1 Hout Hrd]]. clear Hl Hrd.
  destruct r1 as [[v|]|e| |]; try discriminate Hout. clear Hout.
  unfold load, bind in E.
  destruct (LEn w (indexes_of w) fuel (top_ctx ctx) (norm_name name) (reach w fuel ops)) as [s2 r2] eqn:EL.
  destruct (iff_layers w fuel) as (_ & _ & H3 & _).
  assert (Hmiss : forall e2, r2 = Ok e2 -> nonval e2 -> False).
  { intros e2 -> Hn. apply (Hb i _ Hci Hdf). exact (H3 _ _ _ _ e2 Hd EL Hn i Hci Hdf). }
  destruct r2 as [[[v|]|]|e| |]; try discriminate E.
  - exact (Hmiss _ eq_refl (fun v H => ltac:(discriminate H))).
  - exact (Hmiss _ eq_refl (fun v H => ltac:(discriminate H))).
Qed.

(* found if and only if a definition file exists, every topology, every error-free lookup sequence *)
Lemma found_iff_file w fuel ops ctx name s' o rd :
  shadow_wf w -> clean_run w fuel ops ->
  lookup_after w fuel ops ctx name = (s', (o, rd)) -> clean_out (o, rd) = true ->
  ((exists i, consulted w (norm_name name) i /\ defined_file w i (norm_name name)) ->
   exists v, o = OFound v /\ tv_name v = norm_name name) /\
  ((exists v, o = OFound v) -> exists v0, file_or_parent w (norm_name name) v0).
Proof.
  intros Hsh Hc Hl Ho. split.
  - intros Hdef. pose proof (defined_not_missed w fuel ops ctx name s' o rd Hc Hl Hdef) as Hnm.
    assert (Hcases : (exists v, o = OFound v) \/ o = ONotFound).
    { unfold lookup_after, step in Hl.
      destruct (load w (LEn w (indexes_of w) fuel) (top_ctx ctx) (norm_name name) (reach w fuel ops)) as [s1 r1].
      inversion Hl; subst. destruct r1 as [[v|]|e| |]; cbn [out_of_res clean_out fst] in *; try discriminate Ho;
        [left; eexists; reflexivity|right; reflexivity]. }
    destruct Hcases as [[v Hv]|Hv]; [subst o|congruence]. exists v. split; [reflexivity|].
    exact (found_carries_name w fuel ops ctx name s' v rd Hsh Hl).
  - intros [v ->]. destruct (found_has_file w fuel ops ctx name s' v rd Hsh Hl) as (v0 & H0 & _). exists v0; exact H0.
Qed.

(* the same as an equivalence, for a name that the parent does not bind and that only files of consulted loaders stand for *)
Lemma found_iff_file_equiv w fuel ops ctx name s' o rd :
  shadow_wf w -> clean_run w fuel ops ->
  lookup_after w fuel ops ctx name = (s', (o, rd)) -> clean_out (o, rd) = true ->
  shadow w (norm_name name) = None ->
  (forall i v, backed w i (norm_name name) v -> consulted w (norm_name name) i /\ defined_file w i (norm_name name)) ->
  ((exists v, o = OFound v) <-> (exists i, consulted w (norm_name name) i /\ defined_file w i (norm_name name))).
Proof.
  intros Hsh Hc Hl Ho Hs Hex. destruct (found_iff_file w fuel ops ctx name s' o rd Hsh Hc Hl Ho) as [H1 H2]. split.
  - intros Hf. destruct (H2 Hf) as [v0 [[i Hb]|[Hs' _]]]; [exists i; exact (Hex i v0 Hb)|congruence].
  - intros Hd. destruct (H1 Hd) as [v [-> _]]. eexists; reflexivity.
Qed.

(* ------------------------------------------------------------------------------------------------------------ *)
(* decidable forms of the predicates (evaluated by the correspondence run on the OBSERVED outcomes: Corr/CorrC15.v) *)

Definition routed_b (w : world) (i : nat) (k : str) : bool :=
  is_global (mod_at w i) ||
  (forallb valid_seg (split_dc k) && str_eqb (m_name (mod_at w i)) (hd [] (split_dc k))).

Definition good_for_b (f : file) (k : str) : bool :=
  match f_content f with
  | CGood d _ | CTypeSet d _ => str_eqb (lower d) k
  | CAnon _ => true
  | _ => false
  end.

Definition defined_file_b (w : world) (i : nat) (k : str) : bool :=
  routed_b w i k &&
  match origin_of w i k with
  | Some p => match file_at (mod_at w i) p with Some f => good_for_b f k | None => false end
  | None => false
  end.

Definition consulted_b (w : world) (k : str) (i : nat) : bool :=
  match w_top w with
  | TopSingle => i =? 0
  | TopChain => i <=? length (w_mods w) - 1
  | TopDep =>
      if dep_index_nonempty w && is_qualified k then
        match dep_index_get w (hd [] (split_dc k)) with Some j => i =? j | None => i <? length (w_mods w) end
      else i <? length (w_mods w)
  end.

Lemma consulted_b_iff w k i : consulted_b w k i = true <-> consulted w k i.
Proof.
  unfold consulted_b, consulted. destruct (w_top w).
  - apply Nat.eqb_eq.
  - destruct (dep_index_nonempty w && is_qualified k); [|apply Nat.ltb_lt].
    destruct (dep_index_get w (hd [] (split_dc k))); [apply Nat.eqb_eq|apply Nat.ltb_lt].
  - apply Nat.leb_le.
Qed.

Lemma defined_file_b_iff w i k : defined_file_b w i k = true <-> defined_file w i k.
Proof.
  unfold defined_file_b, defined_file, routed_b, routed. rewrite andb_true_iff, orb_true_iff, andb_true_iff. split.
  - intros [Hr Hf]. split; [exact Hr|].
    destruct (origin_of w i k) as [p|]; [|discriminate Hf]. destruct (file_at (mod_at w i) p) as [f|] eqn:Ef; [|discriminate Hf].
    unfold good_for_b in Hf. unfold good_for.
    destruct (f_content f) as [d refs|refs|d ms|l| |] eqn:Ec; try discriminate Hf.
    + apply str_eqb_eq in Hf. eexists p, f, _. rewrite Ec. repeat split; auto.
    + eexists p, f, _. rewrite Ec. repeat split; auto.
    + apply str_eqb_eq in Hf. eexists p, f, _. rewrite Ec. repeat split; auto.
  - intros [Hr (p & f & v & Ho & Hf & Hg)]. split; [exact Hr|]. rewrite Ho, Hf. unfold good_for in Hg. unfold good_for_b.
    destruct (f_content f) as [d refs|refs|d ms|l| |]; try contradiction; try reflexivity.
    + destruct Hg as [-> _]. apply str_eqb_refl.
    + destruct Hg as [-> _]. apply str_eqb_refl.
Qed.

(* some consulted loader has a definition file for k *)
Definition has_def_file_b (w : world) (k : str) : bool :=
  existsb (fun i => consulted_b w k i && defined_file_b w i k) (seq 0 (length (w_mods w))).

Lemma has_def_file_b_true w k :
  has_def_file_b w k = true -> exists i, consulted w k i /\ defined_file w i k.
Proof.
  unfold has_def_file_b. rewrite existsb_exists. intros (i & _ & H). apply andb_true_iff in H. destruct H as [H1 H2].
  exists i. split; [apply consulted_b_iff; exact H1|apply defined_file_b_iff; exact H2].
Qed.

(* C15_definition_file_never_missed read on a list of outcomes: as long as no operation reported an error, no lookup
   of a name with a definition file in a consulted loader is answered "not found" *)
Fixpoint iff_ok_from (w : world) (ops : list op) (outs : list (out * list (nat * str))) : bool :=
  match ops, outs with
  | o :: ops', x :: outs' =>
      if clean_out x then
        match o, fst x with
        | OpLoad _ name, ONotFound => negb (has_def_file_b w (norm_name name))
        | _, _ => true
        end && iff_ok_from w ops' outs'
      else true
  | _, _ => true
  end.

(* the model's own run passes (so a correspondence case that matches the model passes too; the check is evaluated on
   the observed outcomes all the same) *)
Lemma iff_ok_run_from w fuel : forall ops s, Bnd w s -> iff_ok_from w ops (snd (run_from w (indexes_of w) fuel s ops)) = true.
Proof.
  induction ops as [|o t IH]; intros s Hb; [reflexivity|]. cbn [run_from].
  destruct (step w (indexes_of w) fuel s o) as [s1 x] eqn:E1.
  destruct (run_from w (indexes_of w) fuel s1 t) as [s2 xs] eqn:E2. cbn [snd iff_ok_from].
  destruct (clean_out x) eqn:Hc; [|reflexivity].
  pose proof (step_Bnd w fuel s o s1 x Hb E1 Hc) as Hb1. specialize (IH s1 Hb1). rewrite E2 in IH. cbn [snd] in IH. rewrite IH, andb_true_r.
  destruct o as [ctx name| | | |]; try reflexivity. destruct (fst x) eqn:Ex; try reflexivity.
  apply negb_true_iff. apply not_true_is_false. intros Hh. apply has_def_file_b_true in Hh. destruct Hh as (i & Hci & Hdf).
  destruct Hb as [Hd Hbb]. cbn [step] in E1.
  destruct (load w (LEn w (indexes_of w) fuel) (top_ctx ctx) (norm_name name) s) as [s' r1] eqn:E.
  inversion E1; subst s1 x. cbn [fst] in Ex. destruct r1 as [[v|]|e| |]; try discriminate Ex.
  unfold load, bind in E.
  destruct (LEn w (indexes_of w) fuel (top_ctx ctx) (norm_name name) s) as [s3 r3] eqn:EL.
  destruct (iff_layers w fuel) as (_ & _ & H3 & _).
  assert (Hmiss : forall e2, r3 = Ok e2 -> nonval e2 -> False).
  { intros e2 -> Hn. apply (Hbb i _ Hci Hdf). exact (H3 _ _ _ _ e2 Hd EL Hn i Hci Hdf). }
  destruct r3 as [[[v|]|]|e| |]; try discriminate E.
  - exact (Hmiss _ eq_refl (fun v H => ltac:(discriminate H))).
  - exact (Hmiss _ eq_refl (fun v H => ltac:(discriminate H))).
Qed.

Lemma iff_ok_run w fuel ops : iff_ok_from w ops (run w fuel ops) = true.
Proof. unfold run. apply iff_ok_run_from. apply Bnd_st0. Qed.
