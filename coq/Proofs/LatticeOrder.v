(* LatticeOrder.v — C03: order-theoretic laws of the modelled assignability (rule-free part, hs = false;
   LatticeRule.asg_rule_irrelevant transfers them to the model of the code wherever the by-spec rule cannot fire). *)
From Coq Require Import ZArith NArith Bool List Lia.
From PcoreV Require Import Model.Base Model.Ty Model.Lattice Proofs.LatticeUnfold Proofs.LatticeBasics
  Proofs.StructCount Proofs.LatticeRule Proofs.LatticeSound.
Import ListNotations.
Open Scope Z_scope.

Section Order.
  Variable rx : str -> str -> bool.
  Variable hs : bool.
  Notation asg := (asg rx hs).
  Notation recv := (recv rx hs asg).
  Notation gstep := (gstep rx hs asg).

  Lemma asg_any b : asg TAny b = true.
  Proof. rewrite asg_unfold. reflexivity. Qed.

  (* right operands that GuardedIsAssignable hands to the receiver's IsAssignable *)
  Definition plain (b : ty) : bool :=
    match b with
    | TUnit | TVariant _ | TOptional _ => false
    | TNotUndef nt => nullable nt
    | _ => true
    end.

  Lemma asg_plain a b : plain b = true -> is_any a = false -> recv a b = true -> asg a b = true.
  Proof.
    intros Hp Ha Hr. rewrite asg_unfold. unfold LatticeUnfold.gstep. rewrite Ha.
    destruct b; try exact Hr; try discriminate.
    cbn in Hp. rewrite Hp. destruct (asg a b); [reflexivity|exact Hr].
  Qed.

  (* ---- a receiver that accepts at least what another one accepts (once the right operand has been
          taken apart by GuardedIsAssignable) accepts at least the same types ---- *)
  Lemma gstep_lift a a' :
    (nullable a = true -> nullable a' = true) ->
    (forall b, plain b = true -> recv a b = true -> recv a' b = true) ->
    is_any a = false ->
    forall b, asg a b = true -> asg a' b = true.
  Proof.
    intros Hn Hr Ha. induction b using ty_ind'; intros Hab; rewrite asg_unfold in Hab |- *; unfold LatticeUnfold.gstep in *;
      rewrite Ha in Hab; destruct (is_any a'); try reflexivity; try (apply Hr; [reflexivity|exact Hab]).
    - (* Variant *) rewrite forallb_forall in Hab |- *. rewrite Forall_forall in H. intros t Ht. apply (H t Ht). apply Hab. exact Ht.
    - (* Optional *) destruct (nullable a) eqn:E; [|discriminate]. rewrite (Hn eq_refl). apply IHb. exact Hab.
    - (* NotUndef *) destruct (asg a b) eqn:E1.
      + rewrite (IHb eq_refl). reflexivity.
      + destruct (nullable b) eqn:En; [|discriminate]. destruct (asg a' b); [reflexivity|]. apply Hr; [exact En|exact Hab].
  Qed.

  (* a receiver that accepts Any accepts everything *)
  Lemma accepts_all a : (forall b, plain b = true -> recv a b = true) -> nullable a = true -> forall b, asg a b = true.
  Proof.
    intros Hr Hn. induction b using ty_ind'; rewrite asg_unfold; unfold LatticeUnfold.gstep;
      destruct (is_any a); try reflexivity; try (apply Hr; reflexivity).
    - rewrite forallb_forall. rewrite Forall_forall in H. auto.
    - rewrite Hn. exact IHb.
    - rewrite IHb. reflexivity.
  Qed.

  Lemma variant_intro ts t : In t ts -> forall b, asg t b = true -> asg (TVariant ts) b = true.
  Proof.
    intros Ht b Hb. destruct (is_any t) eqn:Ea.
    - apply is_any_eq in Ea. subst t. apply accepts_all.
      + intros c _. cbn [LatticeUnfold.recv]. apply existsb_exists. exists TAny. split; [assumption|apply asg_any].
      + cbn. apply existsb_exists. exists TAny. auto.
    - apply (gstep_lift t (TVariant ts)); try assumption.
      + intros Hn. cbn. apply existsb_exists. eauto.
      + intros c Hp Hc. cbn [LatticeUnfold.recv]. apply existsb_exists. exists t. split; [assumption|].
        apply asg_plain; assumption.
  Qed.

  Lemma optional_intro t : forall b, asg t b = true -> asg (TOptional t) b = true.
  Proof.
    intros b Hb. destruct (is_any t) eqn:Ea.
    - apply is_any_eq in Ea. subst t. apply accepts_all; [|reflexivity].
      intros c _. cbn [LatticeUnfold.recv]. rewrite asg_any. apply orb_true_r.
    - apply (gstep_lift t (TOptional t)); try assumption; [reflexivity|].
      intros c Hp Hc. cbn [LatticeUnfold.recv]. rewrite (asg_plain t c Hp Ea Hc). apply orb_true_r.
  Qed.

  Lemma optional_undef t : asg (TOptional t) TUndef = true.
  Proof. rewrite asg_unfold. reflexivity. Qed.

  (* ---- what acceptance of a decomposed right operand means ---- *)
  Lemma asg_variant_elim a bs : asg a (TVariant bs) = true -> forall b, In b bs -> asg a b = true.
  Proof.
    rewrite asg_unfold. unfold LatticeUnfold.gstep. destruct (is_any a) eqn:Ea.
    - apply is_any_eq in Ea. subst. intros _ b _. apply asg_any.
    - intros H b Hb. rewrite forallb_forall in H. auto.
  Qed.

  Lemma asg_variant_r a bs : (forall b, In b bs -> asg a b = true) -> asg a (TVariant bs) = true.
  Proof.
    intros H. rewrite asg_unfold. unfold LatticeUnfold.gstep. destruct (is_any a); [reflexivity|].
    apply forallb_forall. exact H.
  Qed.

  Lemma asg_optional_elim a ot : asg a (TOptional ot) = true -> nullable a = true /\ asg a ot = true.
  Proof.
    rewrite asg_unfold. unfold LatticeUnfold.gstep. destruct (is_any a) eqn:Ea.
    - apply is_any_eq in Ea. subst. intros _. split; [reflexivity|apply asg_any].
    - destruct (nullable a); [auto|discriminate].
  Qed.

  Lemma asg_optional_r a ot : nullable a = true -> asg a ot = true -> asg a (TOptional ot) = true.
  Proof.
    intros Hn H. rewrite asg_unfold. unfold LatticeUnfold.gstep. destruct (is_any a); [reflexivity|]. now rewrite Hn.
  Qed.

  Lemma asg_notundef_elim a nt : asg a (TNotUndef nt) = true ->
    asg a nt = true \/ (is_any a = false /\ nullable nt = true /\ recv a (TNotUndef nt) = true).
  Proof.
    rewrite asg_unfold. unfold LatticeUnfold.gstep. destruct (is_any a) eqn:Ea.
    - apply is_any_eq in Ea. subst. intros _. left. apply asg_any.
    - destruct (asg a nt); [auto|]. destruct (nullable nt); [auto|discriminate].
  Qed.

  Lemma asg_notundef_r1 a nt : asg a nt = true -> asg a (TNotUndef nt) = true.
  Proof.
    intros H. rewrite asg_unfold. unfold LatticeUnfold.gstep. destruct (is_any a); [reflexivity|]. now rewrite H.
  Qed.

  Lemma notundef_intro t : forall b, nullable b = false -> asg t b = true -> asg (TNotUndef t) b = true.
  Proof.
    induction b using ty_ind'; intros Hn Hb;
      try (rewrite asg_unfold; unfold LatticeUnfold.gstep; cbn [is_any LatticeUnfold.recv]; rewrite Hn, Hb; reflexivity);
      try discriminate.
    - (* Variant *) apply asg_variant_r. intros b Hb'. rewrite Forall_forall in H. apply (H b Hb').
      + cbn in Hn. destruct (nullable b) eqn:E; [|reflexivity].
        assert (existsb nullable ts = true) by (apply existsb_exists; eauto). congruence.
      + apply (asg_variant_elim _ _ Hb b Hb').
    - (* NotUndef *) rewrite asg_unfold. unfold LatticeUnfold.gstep. cbn [is_any].
      destruct (nullable b) eqn:En.
      + destruct (Lattice.asg rx hs (TNotUndef t) b); [reflexivity|]. cbn [LatticeUnfold.recv nullable]. now rewrite Hb.
      + destruct (asg_notundef_elim _ _ Hb) as [H1|(_ & H1 & _)]; [|congruence]. now rewrite (IHb eq_refl H1).
  Qed.

  (* whoever accepts a type that accepts Undef accepts Undef (needed to thread NotUndef / Optional) *)
  Lemma nullable_undef a : nullable a = true -> asg a TUndef = true.
  Proof.
    induction a using ty_ind'; intros Hn; try discriminate; try (rewrite asg_unfold; reflexivity).
    cbn in Hn. apply existsb_exists in Hn. destruct Hn as (t & Ht & Hn). rewrite Forall_forall in H.
    apply (variant_intro ts t Ht). apply (H t Ht Hn).
  Qed.

  (* ---- reflexivity (on a structurally equal, separately built copy: the model has no pointer identity) ---- *)
  Lemma size_sub_refl lo hi : size_sub lo hi lo hi = true.
  Proof. unfold size_sub. rewrite !Z.leb_refl. reflexivity. Qed.

  Lemma tpairs_pointwise ts : forall os, length ts = length os ->
    (forall i t o, nth_error ts i = Some t -> nth_error os i = Some o -> asg t o = true) -> tpairs asg ts os = true.
  Proof.
    induction ts as [|t ts IH]; intros os Hl Hp; [reflexivity|].
    destruct os as [|o os]; [discriminate|]. cbn in Hl. injection Hl as Hl.
    assert (H0 : asg t o = true) by (apply (Hp 0%nat); reflexivity).
    destruct ts as [|t' ts].
    - destruct os; [|discriminate]. cbn. now rewrite H0.
    - destruct os as [|o' os]; [discriminate|].
      change (asg t o && tpairs asg (t' :: ts) (o' :: os) = true). rewrite H0. cbn [andb].
      apply IH; [exact Hl|]. intros i a b Ha Hb. apply (Hp (S i)); assumption.
  Qed.

  Lemma tpairs_refl ts : (forall t, In t ts -> asg t t = true) -> tpairs asg ts ts = true.
  Proof.
    intros H. apply tpairs_pointwise; [reflexivity|]. intros i t o Ht Ho. rewrite Ht in Ho. injection Ho as <-.
    apply H. eapply nth_error_In; eauto.
  Qed.

  Lemma mem_str_refl s l : In s l -> mem_str s l = true.
  Proof. intros H. unfold mem_str. apply existsb_exists. exists s. split; [assumption|apply str_eqb_refl]. Qed.

  Lemma filter_all {A} (f : A -> bool) l : (forall x, In x l -> f x = true) -> filter f l = l.
  Proof.
    induction l as [|x l IH]; intros H; [reflexivity|]. cbn. rewrite (H x (or_introl eq_refl)). f_equal.
    apply IH. intros y Hy. apply H. right. assumption.
  Qed.

  Lemma struct_self_found ms : distinct (map fst ms) = true -> forall m, In m ms -> find_member (fst m) ms = Some (snd m).
  Proof. intros Hd [n kv] Hm. apply find_member_in; assumption. Qed.

  Theorem asg_refl : forall a, wf_ty a = true -> asg a a = true.
  Proof.
    induction a using ty_ind'; intros Hw; try (rewrite asg_unfold; reflexivity).
    - (* Boolean *) rewrite asg_unfold. cbn. destruct v as [[|]|]; reflexivity.
    - rewrite asg_unfold. cbn. apply size_sub_refl.
    - rewrite asg_unfold. cbn. apply size_sub_refl.
    - rewrite asg_unfold. cbn. apply size_sub_refl.
    - rewrite asg_unfold. cbn. apply str_eqb_refl.
    - (* Enum *) rewrite asg_unfold. cbn [LatticeUnfold.gstep is_any LatticeUnfold.recv]. destruct vs as [|v0 vs]; [reflexivity|].
      remember (v0 :: vs) as l eqn:El. assert (Hne : negb (Nat.eqb (length l) 0) = true) by (subst l; reflexivity).
      rewrite Hne. replace (ci || negb ci) with true by (destruct ci; reflexivity). cbn [andb].
      apply forallb_forall. intros s Hs. rewrite enum_inst_nonempty by (subst l; congruence).
      destruct ci; [|apply mem_str_refl; assumption].
      cbn in Hw. rewrite forallb_forall in Hw. specialize (Hw s Hs). unfold is_lower in Hw. apply str_eqb_eq in Hw.
      rewrite Hw. apply mem_str_refl; assumption.
    - (* Pattern *) rewrite asg_unfold. cbn [LatticeUnfold.gstep is_any LatticeUnfold.recv]. destruct rxs as [|r0 rxs]; [reflexivity|].
      remember (r0 :: rxs) as l eqn:El. assert (Hne : negb (Nat.eqb (length l) 0) = true) by (subst l; reflexivity).
      rewrite Hne. cbn [andb]. apply forallb_forall. intros s Hs. apply mem_str_refl; assumption.
    - (* Regexp *) rewrite asg_unfold. cbn. rewrite str_eqb_refl. apply orb_true_r.
    - rewrite asg_unfold. cbn. apply size_sub_refl.
    - (* Array *) rewrite asg_unfold. cbn. rewrite size_sub_refl, (IHa Hw). now rewrite orb_true_r.
    - (* Hash *) cbn in Hw. apply andb_true_iff in Hw. destruct Hw as [H1 H2].
      rewrite asg_unfold. cbn. rewrite size_sub_refl, (IHa1 H1), (IHa2 H2). now rewrite orb_true_r.
    - (* Tuple *) cbn in Hw. apply andb_true_iff in Hw. destruct Hw as [_ Hw]. rewrite forallb_forall in Hw. rewrite Forall_forall in H.
      rewrite asg_unfold. cbn [LatticeUnfold.gstep is_any LatticeUnfold.recv]. rewrite size_sub_refl. cbn [andb].
      destruct ts as [|t0 ts]; [reflexivity|]. rewrite tpairs_refl; [apply orb_true_r|]. intros t Ht. apply (H t Ht). apply Hw. exact Ht.
    - (* Struct *) pose proof Hw as Hw'. cbn in Hw. apply andb_true_iff in Hw. destruct Hw as [Hd Hm]. rewrite forallb_forall in Hm.
      rewrite Forall_forall in H.
      rewrite asg_unfold. cbn [LatticeUnfold.gstep is_any LatticeUnfold.recv]. apply andb_true_iff. split.
      + apply forallb_forall. intros m Hin. rewrite (struct_self_found ms Hd m Hin). destruct m as [n [k v]]. cbn [fst snd].
        destruct (H _ Hin) as [IHk IHv]. specialize (Hm _ Hin). cbn [fst snd] in *. apply andb_true_iff in Hm. destruct Hm as [Hk Hv].
        rewrite (IHk (key_ok_wf _ _ Hk)), (IHv Hv). reflexivity.
      + rewrite filter_all; [apply Z.eqb_refl|]. intros m Hin. now rewrite (struct_self_found ms Hd m Hin).
    - (* Variant *) cbn in Hw. rewrite forallb_forall in Hw. rewrite Forall_forall in H.
      apply asg_variant_r. intros t Ht. apply (variant_intro ts t Ht). apply (H t Ht). apply Hw. exact Ht.
    - (* Optional *) apply asg_optional_r; [reflexivity|]. apply optional_intro. apply IHa. exact Hw.
    - (* NotUndef *) specialize (IHa Hw). destruct (nullable a) eqn:En.
      + rewrite asg_unfold. cbn [LatticeUnfold.gstep is_any]. rewrite En.
        destruct (Lattice.asg rx hs (TNotUndef a) a); [reflexivity|]. cbn [LatticeUnfold.recv nullable negb andb].
        apply asg_notundef_r1. exact IHa.
      + apply asg_notundef_r1. apply notundef_intro; assumption.
    - (* Type *) rewrite asg_unfold. cbn. apply IHa. exact Hw.
    - (* Sensitive *) rewrite asg_unfold. cbn. apply IHa. exact Hw.
    - discriminate.
  Qed.

  (* ---- monotonicity of every covariant position ---- *)
  Lemma mono_array a b lo hi : asg a b = true -> asg (TArray a lo hi) (TArray b lo hi) = true.
  Proof. intros H. rewrite asg_unfold. cbn. rewrite size_sub_refl, H. now rewrite orb_true_r. Qed.

  Lemma mono_hash_key a b v lo hi : wf_ty v = true -> asg a b = true -> asg (THash a v lo hi) (THash b v lo hi) = true.
  Proof. intros Hv H. rewrite asg_unfold. cbn. rewrite size_sub_refl, H, (asg_refl v Hv). now rewrite orb_true_r. Qed.

  Lemma mono_hash_value k a b lo hi : wf_ty k = true -> asg a b = true -> asg (THash k a lo hi) (THash k b lo hi) = true.
  Proof. intros Hk H. rewrite asg_unfold. cbn. rewrite size_sub_refl, H, (asg_refl k Hk). now rewrite orb_true_r. Qed.

  Lemma mono_tuple pre post a b g lo hi : forallb wf_ty pre = true -> forallb wf_ty post = true -> asg a b = true ->
    asg (TTuple (pre ++ a :: post) g lo hi) (TTuple (pre ++ b :: post) g lo hi) = true.
  Proof.
    intros Hpre Hpost H. rewrite asg_unfold. cbn [LatticeUnfold.gstep is_any LatticeUnfold.recv]. rewrite size_sub_refl. cbn [andb].
    destruct (pre ++ a :: post) as [|x xs] eqn:E1; [reflexivity|]. rewrite <- E1.
    destruct (pre ++ b :: post) as [|y ys] eqn:E2; [destruct pre; discriminate|]. rewrite <- E2.
    rewrite tpairs_pointwise; [apply orb_true_r|rewrite !app_length; reflexivity|].
    intros i t o Ht Ho. rewrite forallb_forall in Hpre, Hpost.
    destruct (Nat.lt_ge_cases i (length pre)) as [Hi|Hi].
    - rewrite nth_error_app1 in Ht, Ho by assumption. rewrite Ht in Ho. injection Ho as <-.
      apply asg_refl. apply Hpre. eapply nth_error_In; eauto.
    - rewrite nth_error_app2 in Ht, Ho by assumption. destruct (i - length pre)%nat as [|j] eqn:Ej.
      + cbn in Ht, Ho. injection Ht as <-. injection Ho as <-. exact H.
      + cbn in Ht, Ho. rewrite Ht in Ho. injection Ho as <-. apply asg_refl. apply Hpost. eapply nth_error_In; eauto.
  Qed.

  Lemma mono_variant pre post a b : forallb wf_ty pre = true -> forallb wf_ty post = true -> asg a b = true ->
    asg (TVariant (pre ++ a :: post)) (TVariant (pre ++ b :: post)) = true.
  Proof.
    intros Hpre Hpost H. rewrite forallb_forall in Hpre, Hpost. apply asg_variant_r. intros x Hx.
    apply in_app_or in Hx. destruct Hx as [Hx|[<-|Hx]].
    - apply (variant_intro _ x); [apply in_or_app; auto|]. apply asg_refl. auto.
    - apply (variant_intro _ a); [apply in_or_app; right; left; reflexivity|exact H].
    - apply (variant_intro _ x); [apply in_or_app; right; right; exact Hx|]. apply asg_refl. auto.
  Qed.

  Lemma mono_optional a b : asg a b = true -> asg (TOptional a) (TOptional b) = true.
  Proof. intros H. apply asg_optional_r; [reflexivity|]. apply optional_intro. exact H. Qed.

  Lemma mono_notundef a b : asg a b = true -> asg (TNotUndef a) (TNotUndef b) = true.
  Proof.
    intros H. destruct (nullable b) eqn:En.
    - rewrite asg_unfold. cbn [LatticeUnfold.gstep is_any]. rewrite En.
      destruct (Lattice.asg rx hs (TNotUndef a) b); [reflexivity|]. cbn [LatticeUnfold.recv nullable negb andb].
      apply asg_notundef_r1. exact H.
    - apply asg_notundef_r1. apply notundef_intro; assumption.
  Qed.

  Lemma mono_type a b : asg a b = true -> asg (TType a) (TType b) = true.
  Proof. intros H. rewrite asg_unfold. exact H. Qed.

  Lemma mono_sensitive a b : asg a b = true -> asg (TSensitive a) (TSensitive b) = true.
  Proof. intros H. rewrite asg_unfold. exact H. Qed.

  (* Struct member: the same key on both sides, the value type replaced *)
  Lemma find_member_mid pre post n kv : mem_str n (map fst pre) = false ->
    find_member n (pre ++ (n, kv) :: post) = Some kv.
  Proof.
    induction pre as [|[n' kv'] pre IH]; cbn; intros Hn; [now rewrite str_eqb_refl|].
    apply orb_false_iff in Hn. destruct Hn as [Hn1 Hn2]. rewrite Hn1. apply IH. exact Hn2.
  Qed.

  Lemma find_member_other pre post n kv kv' n0 : str_eqb n0 n = false ->
    find_member n0 (pre ++ (n, kv) :: post) = find_member n0 (pre ++ (n, kv') :: post).
  Proof.
    intros Hne. induction pre as [|[n' x] pre IH]; cbn; [now rewrite Hne|]. destruct (str_eqb n0 n'); [reflexivity|exact IH].
  Qed.

  Lemma distinct_app_mid pre post n : distinct (pre ++ n :: post) = true ->
    mem_str n pre = false /\ (forall x, In x pre \/ In x post -> str_eqb x n = false).
  Proof.
    induction pre as [|p pre IH]; cbn [app distinct]; intros H; apply andb_true_iff in H; destruct H as [H1 H2].
    - split; [reflexivity|]. intros x [[]|Hx]. apply negb_true_iff in H1. apply str_eqb_neq. intros ->.
      apply (mem_str_false_in _ _ H1 Hx).
    - destruct (IH H2) as [IH1 IH2]. apply negb_true_iff in H1. split.
      + cbn. apply orb_false_iff. split; [|exact IH1]. apply str_eqb_neq. intros <-.
        apply (mem_str_false_in _ _ H1). apply in_or_app. right. left. reflexivity.
      + intros x [[<-|Hx]|Hx]; auto. apply str_eqb_neq. intros ->.
        apply (mem_str_false_in _ _ H1). apply in_or_app. right. left. reflexivity.
  Qed.

  Lemma mono_struct pre post n k a b :
    wf_ty (TStruct (pre ++ (n, (k, a)) :: post)) = true -> asg a b = true ->
    asg (TStruct (pre ++ (n, (k, a)) :: post)) (TStruct (pre ++ (n, (k, b)) :: post)) = true.
  Proof.
    intros Hw H. pose proof Hw as Hw'. cbn in Hw'. apply andb_true_iff in Hw'. destruct Hw' as [Hd Hm].
    rewrite forallb_forall in Hm. rewrite map_app in Hd. cbn [map fst] in Hd.
    destruct (distinct_app_mid _ _ _ Hd) as [Hfresh Hother].
    assert (Hfind : forall m, In m (pre ++ (n, (k, a)) :: post) ->
              find_member (fst m) (pre ++ (n, (k, b)) :: post) = Some (if str_eqb (fst m) n then (k, b) else snd m)).
    { intros m Hin. destruct (str_eqb (fst m) n) eqn:E.
      - apply str_eqb_eq in E. rewrite E. apply find_member_mid. exact Hfresh.
      - rewrite (find_member_other pre post n (k, b) (k, a) (fst m) E).
        apply (struct_self_found _ (wf_struct_names _ Hw)). exact Hin. }
    rewrite asg_unfold. cbn [LatticeUnfold.gstep is_any LatticeUnfold.recv]. apply andb_true_iff. split.
    - apply forallb_forall. intros m Hin. rewrite (Hfind m Hin). specialize (Hm m Hin).
      apply andb_true_iff in Hm. destruct Hm as [Hk Hv].
      destruct (str_eqb (fst m) n) eqn:E.
      + apply in_app_or in Hin. destruct Hin as [Hin|[<-|Hin]].
        * exfalso. apply str_eqb_eq in E. apply (mem_str_false_in _ _ Hfresh). rewrite <- E. apply in_map. exact Hin.
        * cbn [fst snd] in *. rewrite (asg_refl k (key_ok_wf _ _ Hk)), H. reflexivity.
        * exfalso. rewrite (Hother (fst m)) in E; [discriminate|]. right. apply in_map. exact Hin.
      + destruct m as [n0 [k0 v0]]. cbn [fst snd] in *. rewrite (asg_refl k0 (key_ok_wf _ _ Hk)), (asg_refl v0 Hv). reflexivity.
    - rewrite filter_all.
      + unfold zlen. rewrite !app_length. cbn [length]. apply Z.eqb_refl.
      + intros m Hin. now rewrite (Hfind m Hin).
  Qed.

  (* ---- widening a size or a numeric range never turns acceptance into rejection ---- *)
  Lemma size_sub_trans lo1 hi1 lo2 hi2 lo3 hi3 :
    size_sub lo1 hi1 lo2 hi2 = true -> size_sub lo2 hi2 lo3 hi3 = true -> size_sub lo1 hi1 lo3 hi3 = true.
  Proof. unfold size_sub. lia. Qed.

  Ltac widen_tac :=
    apply gstep_lift; [discriminate| |reflexivity];
    let b := fresh "b" in let Hr := fresh "Hr" in
    intros b _ Hr; destruct b; cbn [LatticeUnfold.recv] in Hr |- *; try discriminate; try exact Hr;
    repeat match goal with
           | H : _ && _ = true |- _ => apply andb_true_iff in H; destruct H
           end;
    repeat first [ assumption | eapply size_sub_trans; eassumption | eapply in_size_sub; eassumption
                 | apply andb_true_iff; split ].

  Lemma widen_integer lo hi lo' hi' : size_sub lo' hi' lo hi = true ->
    forall b, asg (TInteger lo hi) b = true -> asg (TInteger lo' hi') b = true.
  Proof. intros Hw. widen_tac. Qed.
  Lemma widen_float lo hi lo' hi' : size_sub lo' hi' lo hi = true ->
    forall b, asg (TFloat lo hi) b = true -> asg (TFloat lo' hi') b = true.
  Proof. intros Hw. widen_tac. Qed.
  Lemma widen_collection lo hi lo' hi' : size_sub lo' hi' lo hi = true ->
    forall b, asg (TCollection lo hi) b = true -> asg (TCollection lo' hi') b = true.
  Proof. intros Hw. widen_tac. Qed.
  Lemma widen_stringsz lo hi lo' hi' : size_sub lo' hi' lo hi = true ->
    forall b, asg (TStringSz lo hi) b = true -> asg (TStringSz lo' hi') b = true.
  Proof.
    intros Hw. widen_tac.
    rewrite forallb_forall in *. intros s Hs0. eapply in_size_sub; [eassumption|auto].
  Qed.
  Lemma widen_array e lo hi lo' hi' : size_sub lo' hi' lo hi = true ->
    forall b, asg (TArray e lo hi) b = true -> asg (TArray e lo' hi') b = true.
  Proof. intros Hw. widen_tac. Qed.
  Lemma widen_hash k v lo hi lo' hi' : size_sub lo' hi' lo hi = true ->
    forall b, asg (THash k v lo hi) b = true -> asg (THash k v lo' hi') b = true.
  Proof. intros Hw. widen_tac. Qed.
  Lemma widen_tuple ts g lo hi lo' hi' : size_sub lo' hi' lo hi = true ->
    forall b, asg (TTuple ts g lo hi) b = true -> asg (TTuple ts g lo' hi') b = true.
  Proof. intros Hw. widen_tac. Qed.

  (* ---- Variant[..A..] accepts A; Optional[A] accepts A and Undef ---- *)
  Lemma variant_member ts a : wf_ty a = true -> In a ts -> asg (TVariant ts) a = true.
  Proof. intros Hw Hin. apply (variant_intro ts a Hin). apply asg_refl. exact Hw. Qed.

  Lemma optional_accepts a : wf_ty a = true -> asg (TOptional a) a = true /\ asg (TOptional a) TUndef = true.
  Proof. intros Hw. split; [apply optional_intro; apply asg_refl; exact Hw|apply optional_undef]. Qed.
End Order.
