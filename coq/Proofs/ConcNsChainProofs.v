(* C13 - the several-namespace loader inside a chain of parented loaders (Model/ConcNsChain.v).
   Simulation: whatever loader of  static <- A.. <- M <- C..  a thread loads through, the state of M - entries, lock
   table, the threads inside M.LoadEntry, the parses - moves by steps of Model/ConcNs.v only: a step of the chain
   either leaves it alone (the thread is at a yield point of a parented loader: a pass-through for names that it
   does not bind), or is ConcNs.nstep of that thread, or hands an idle thread its one load (nenter) and is nstep.
   So every invariant of ConcNs.v that survives nenter is an invariant of M in every chain (cs_in_invariant), among
   them ninv (a file is instantiated at most once) and linv (what the loads of the other namespaces find). *)
From Coq Require Import NArith Arith Bool List Lia.
From PcoreV Require Import Model.ConcNs Model.ConcNsChain Proofs.ConcNsProofs Proofs.ConcNsLoadProofs Proofs.ConcNsLiveProofs.
Import ListNotations.

(* ---- nenter: an idle thread is handed one load ------------------------------------------------------------------ *)

Lemma pcof_nenter : forall st t s b t0, nt_pc (ns_thr st t) = NIdle -> pcof (nenter st t s b) t0 = pcof st t0.
Proof.
  intros st t s b t0 H. unfold pcof, nenter. cbn [ns_thr]. destruct (Nat.eq_dec t0 t) as [->|Hne].
  - rewrite nupd1_same. now rewrite H.
  - now rewrite nupd1_other.
Qed.

Lemma ninv_ext : forall c st st', (forall t, pcof st' t = pcof st t) -> ns_sh st' = ns_sh st -> ns_log st' = ns_log st ->
  ninv c st -> ninv c st'.
Proof.
  intros c st st' Hp Hs Hl H. destruct H as [H1 H2 H3 H4 H5 H6 H7 H8 H9].
  constructor; rewrite ?Hs, ?Hl; intros; rewrite ?Hp in *; eauto.
  setoid_rewrite Hp. eauto.
Qed.

Lemma linv_ext : forall c st st', (forall t, pcof st' t = pcof st t) -> ns_sh st' = ns_sh st -> ns_log st' = ns_log st ->
  linv c st -> linv c st'.
Proof.
  intros c st st' Hp Hs Hl H. destruct H as [H1 H2 H3 H4 H5 H6 H7 H8].
  constructor; rewrite ?Hs, ?Hl; intros; rewrite ?Hp in *; eauto.
  - setoid_rewrite Hp. eauto.
  - setoid_rewrite Hp. eauto.
Qed.

Lemma ninv_enter : forall c st t s b, ninv c st -> nt_pc (ns_thr st t) = NIdle -> ninv c (nenter st t s b).
Proof. intros c st t s b H Hi. apply (ninv_ext c st); auto. intros t0. now apply pcof_nenter. Qed.
Lemma linv_enter : forall c st t s b, linv c st -> nt_pc (ns_thr st t) = NIdle -> linv c (nenter st t s b).
Proof. intros c st t s b H Hi. apply (linv_ext c st); auto. intros t0. now apply pcof_nenter. Qed.

Lemma nstep_todo_nil : forall m c st t, nt_todo (ns_thr st t) = [] -> nt_todo (ns_thr (nstep m c st t) t) = [].
Proof.
  intros m c st t H. unfold nstep. destruct (nt_pc (ns_thr st t)) eqn:Hpc.
  - now rewrite H.
  - match goal with |- context [nseg ?a ?b ?c ?d ?e ?f] => destruct (nseg a b c d e f) as [[sh' [p' evs]]|] end;
      [cbn [ns_thr]; rewrite nupd1_same; exact H | exact H].
  - match goal with |- context [nseg ?a ?b ?c ?d ?e ?f] => destruct (nseg a b c d e f) as [[sh' [p' evs]]|] end;
      [cbn [ns_thr]; rewrite nupd1_same; exact H | exact H].
  - match goal with |- context [nseg ?a ?b ?c ?d ?e ?f] => destruct (nseg a b c d e f) as [[sh' [p' evs]]|] end;
      [cbn [ns_thr]; rewrite nupd1_same; exact H | exact H].
  - match goal with |- context [nseg ?a ?b ?c ?d ?e ?f] => destruct (nseg a b c d e f) as [[sh' [p' evs]]|] end;
      [cbn [ns_thr]; rewrite nupd1_same; exact H | exact H].
  - match goal with |- context [nseg ?a ?b ?c ?d ?e ?f] => destruct (nseg a b c d e f) as [[sh' [p' evs]]|] end;
      [cbn [ns_thr]; rewrite nupd1_same; exact H | exact H].
  - match goal with |- context [nseg ?a ?b ?c ?d ?e ?f] => destruct (nseg a b c d e f) as [[sh' [p' evs]]|] end;
      [cbn [ns_thr]; rewrite nupd1_same; exact H | exact H].
  - match goal with |- context [nseg ?a ?b ?c ?d ?e ?f] => destruct (nseg a b c d e f) as [[sh' [p' evs]]|] end;
      [cbn [ns_thr]; rewrite nupd1_same; exact H | exact H].
  - match goal with |- context [nseg ?a ?b ?c ?d ?e ?f] => destruct (nseg a b c d e f) as [[sh' [p' evs]]|] end;
      [cbn [ns_thr]; rewrite nupd1_same; exact H | exact H].
Qed.

Lemma nstep_enter_thr : forall m c st t s b, ns_thr (nstep m c (nenter st t s b) t) t = mkNT (NBetween s b) [].
Proof. intros. unfold nstep, nenter. cbn [ns_thr]. rewrite nupd1_same. cbn. now rewrite nupd1_same. Qed.
Lemma nstep_enter_other : forall m c st t s b t0, t0 <> t -> ns_thr (nstep m c (nenter st t s b) t) t0 = ns_thr st t0.
Proof. intros m c st t s b t0 H. rewrite nstep_other by exact H. unfold nenter. cbn [ns_thr]. now apply nupd1_other. Qed.

(* ---- the threads of M that are not inside M.LoadEntry are idle; no thread of M has operations of its own ------------ *)

Definition in_m (p : cpc) : bool := match p with CInM _ _ _ => true | _ => false end.
Definition cidle (st : cstate) : Prop :=
  forall t, nt_todo (ns_thr (cs_in st) t) = [] /\
            (in_m (ct_pc (cs_thr st t)) = false -> nt_pc (ns_thr (cs_in st) t) = NIdle).

Lemma cidle_upd : forall st t inner' th' miss' log', cidle st ->
  (forall t0, t0 <> t -> ns_thr inner' t0 = ns_thr (cs_in st) t0) ->
  nt_todo (ns_thr inner' t) = [] ->
  (in_m (ct_pc th') = false -> nt_pc (ns_thr inner' t) = NIdle) ->
  cidle (mkCSt inner' (nupd1 (cs_thr st) t th') miss' log').
Proof.
  intros st t inner' th' miss' log' H Ho Ht Hp t0. cbn [cs_in cs_thr]. destruct (Nat.eq_dec t0 t) as [->|Hne].
  - rewrite nupd1_same. auto.
  - rewrite nupd1_other by exact Hne. rewrite (Ho t0 Hne). apply H.
Qed.
Lemma cidle_keep : forall st t th' miss' log', cidle st -> in_m (ct_pc (cs_thr st t)) = false ->
  cidle (mkCSt (cs_in st) (nupd1 (cs_thr st) t th') miss' log').
Proof.
  intros st t th' miss' log' H Hp. apply cidle_upd; auto; [apply H | intros _; now apply H].
Qed.

Inductive mstep (cm : ncfg) (st : nstate) : nstate -> Prop :=
| ms_same : mstep cm st st
| ms_step : forall t, mstep cm st (nstep KeyMapped cm st t)
| ms_enter : forall t s b, nt_pc (ns_thr st t) = NIdle -> mstep cm st (nstep KeyMapped cm (nenter st t s b) t).

Lemma cstep_sim : forall c st t, cidle st ->
  mstep (c_m c) (cs_in st) (cs_in (cstep c st t)) /\ cidle (cstep c st t).
Proof.
  intros c st t H. unfold cstep.
  destruct (ct_pc (cs_thr st t)) as [|l s b j|l s b|l s b j|l s b] eqn:Hpc.
  - (* CIdle *)
    assert (Hnm : in_m (ct_pc (cs_thr st t)) = false) by now rewrite Hpc.
    destruct (ct_todo (cs_thr st t)) as [|o todo]; [split; [constructor|exact H]|].
    destruct o as [l s b|l s b].
    + destruct (Nat.leb 1 l && Nat.leb l (c_above c + 1 + c_below c))%bool.
      * destruct (c_above c).
        -- unfold center. cbn [cs_in]. split; [apply ms_enter; now apply H|].
           apply cidle_upd; auto.
           ++ intros t0 Hne. now apply nstep_enter_other.
           ++ now rewrite nstep_enter_thr.
           ++ discriminate.
        -- unfold cset. split; [constructor|now apply cidle_keep].
      * unfold cfinish. split; [constructor|now apply cidle_keep].
    + unfold cfinish. split; [constructor|now apply cidle_keep].
  - (* CAbove *)
    assert (Hnm : in_m (ct_pc (cs_thr st t)) = false) by now rewrite Hpc.
    destruct (Nat.eqb j l).
    + unfold cown. destruct (cs_miss st l s b); unfold cfinish, cset; (split; [constructor|now apply cidle_keep]).
    + destruct (Nat.eqb j (c_above c)).
      * unfold center. cbn [cs_in]. split; [apply ms_enter; now apply H|].
        apply cidle_upd; auto.
        -- intros t0 Hne. now apply nstep_enter_other.
        -- now rewrite nstep_enter_thr.
        -- discriminate.
      * unfold cset. split; [constructor|now apply cidle_keep].
  - (* CInM *)
    assert (Hgen : forall th' miss' log',
              (in_m (ct_pc th') = false -> nt_pc (ns_thr (nstep KeyMapped (c_m c) (cs_in st) t) t) = NIdle) ->
              cidle (mkCSt (nstep KeyMapped (c_m c) (cs_in st) t) (nupd1 (cs_thr st) t th') miss' log')).
    { intros th' miss' log' Hp. apply cidle_upd; auto.
      - intros t0 Hne. now apply nstep_other.
      - apply nstep_todo_nil. apply H. }
    destruct (nt_pc (ns_thr (nstep KeyMapped (c_m c) (cs_in st) t) t)) eqn:Hin.
    + destruct (nlast_res (ns_log (nstep KeyMapped (c_m c) (cs_in st) t))) as [[v|]| | | |];
        try (unfold cfinish; cbn [cs_in cs_thr cs_miss cs_log]; split; [apply ms_step | apply Hgen; auto]).
      destruct (Nat.eqb l (c_above c + 1)); unfold cfinish, cset; cbn [cs_in cs_thr cs_miss cs_log];
        (split; [apply ms_step | apply Hgen; auto]).
    + cbn [cs_in]. split; [apply ms_step|]. intros t0. cbn [cs_in cs_thr]. destruct (Nat.eq_dec t0 t) as [->|Hne].
      * split; [apply nstep_todo_nil; apply H | rewrite Hpc; discriminate].
      * rewrite nstep_other by exact Hne. apply H.
    + cbn [cs_in]. split; [apply ms_step|]. intros t0. cbn [cs_in cs_thr]. destruct (Nat.eq_dec t0 t) as [->|Hne].
      * split; [apply nstep_todo_nil; apply H | rewrite Hpc; discriminate].
      * rewrite nstep_other by exact Hne. apply H.
    + cbn [cs_in]. split; [apply ms_step|]. intros t0. cbn [cs_in cs_thr]. destruct (Nat.eq_dec t0 t) as [->|Hne].
      * split; [apply nstep_todo_nil; apply H | rewrite Hpc; discriminate].
      * rewrite nstep_other by exact Hne. apply H.
    + cbn [cs_in]. split; [apply ms_step|]. intros t0. cbn [cs_in cs_thr]. destruct (Nat.eq_dec t0 t) as [->|Hne].
      * split; [apply nstep_todo_nil; apply H | rewrite Hpc; discriminate].
      * rewrite nstep_other by exact Hne. apply H.
    + cbn [cs_in]. split; [apply ms_step|]. intros t0. cbn [cs_in cs_thr]. destruct (Nat.eq_dec t0 t) as [->|Hne].
      * split; [apply nstep_todo_nil; apply H | rewrite Hpc; discriminate].
      * rewrite nstep_other by exact Hne. apply H.
    + cbn [cs_in]. split; [apply ms_step|]. intros t0. cbn [cs_in cs_thr]. destruct (Nat.eq_dec t0 t) as [->|Hne].
      * split; [apply nstep_todo_nil; apply H | rewrite Hpc; discriminate].
      * rewrite nstep_other by exact Hne. apply H.
    + cbn [cs_in]. split; [apply ms_step|]. intros t0. cbn [cs_in cs_thr]. destruct (Nat.eq_dec t0 t) as [->|Hne].
      * split; [apply nstep_todo_nil; apply H | rewrite Hpc; discriminate].
      * rewrite nstep_other by exact Hne. apply H.
    + cbn [cs_in]. split; [apply ms_step|]. intros t0. cbn [cs_in cs_thr]. destruct (Nat.eq_dec t0 t) as [->|Hne].
      * split; [apply nstep_todo_nil; apply H | rewrite Hpc; discriminate].
      * rewrite nstep_other by exact Hne. apply H.
  - (* CBelow *)
    assert (Hnm : in_m (ct_pc (cs_thr st t)) = false) by now rewrite Hpc.
    destruct (Nat.eqb j l).
    + unfold cown. destruct (cs_miss st l s b); unfold cfinish, cset; (split; [constructor|now apply cidle_keep]).
    + unfold cset. split; [constructor|now apply cidle_keep].
  - (* CAfter *)
    assert (Hnm : in_m (ct_pc (cs_thr st t)) = false) by now rewrite Hpc.
    unfold cfinish. cbn [cs_in cs_thr cs_miss cs_log]. split; [constructor|now apply cidle_keep].
Qed.

Lemma cidle_init : forall p, cidle (cinit p).
Proof. intros p t. unfold cinit, ninit. cbn. destruct t; auto. Qed.

(* every invariant of Model/ConcNs.v that survives handing an idle thread a load holds of M in every chain *)
Lemma cs_in_invariant : forall (c : ccfg) (I : nstate -> Prop),
  I (ninit []) ->
  (forall st t, I st -> I (nstep KeyMapped (c_m c) st t)) ->
  (forall st t s b, I st -> nt_pc (ns_thr st t) = NIdle -> I (nenter st t s b)) ->
  forall p s, I (cs_in (cexec c p s)).
Proof.
  intros c I H0 Hs He p s. unfold cexec.
  assert (G : cidle (cinit p) /\ I (cs_in (cinit p))) by (split; [apply cidle_init | exact H0]).
  revert G. generalize (cinit p).
  assert (Gen : forall sch st, cidle st /\ I (cs_in st) -> cidle (fold_left (cstep c) sch st) /\ I (cs_in (fold_left (cstep c) sch st))).
  { induction sch as [|t sch IH]; intros st G; cbn [fold_left]; [exact G|]. apply IH.
    destruct G as [G1 G2]. destruct (cstep_sim c st t G1) as [M C]. split; [exact C|].
    assert (MI : forall a b, mstep (c_m c) a b -> I a -> I b).
    { intros a b M' Ia. destruct M' as [|t'|t' s' b' Hi]; [exact Ia | now apply Hs | apply Hs; now apply He]. }
    exact (MI _ _ M G2). }
  intros st G. now apply Gen.
Qed.

Lemma chain_ninv : forall c p s, ninv (c_m c) (cs_in (cexec c p s)).
Proof.
  intros c. apply (cs_in_invariant c (ninv (c_m c))).
  - apply ninv_init.
  - intros st t. apply ninv_step.
  - intros st t s b. apply ninv_enter.
Qed.
Lemma chain_linv : forall c p s, linv (c_m c) (cs_in (cexec c p s)).
Proof.
  intros c p s.
  apply (cs_in_invariant c (fun st => ninv (c_m c) st /\ linv (c_m c) st)).
  - split; [apply ninv_init | apply linv_init].
  - intros st t [A B]. split; [now apply ninv_step | now apply linv_step].
  - intros st t s0 b [A B] Hi. split; [now apply ninv_enter | now apply linv_enter].
Qed.

(* in every chain, through whichever loaders and namespaces it is asked for, a file is instantiated at most once *)
Lemma chain_instantiate_once : forall c p s b, nsparse b (ns_log (cs_in (cexec c p s))) <= 1.
Proof. intros c p s b. apply (i_once _ _ (chain_ninv c p s)). Qed.
Lemma chain_lock_holder : forall c p s t lk, nholds (pcof (cs_in (cexec c p s)) t) = Some lk ->
  nheld (ns_sh (cs_in (cexec c p s))) lk = Some t.
Proof. intros c p s. apply (i_held _ _ (chain_ninv c p s)). Qed.
(* ... and what M.LoadEntry hands a load of a good file through a namespace other than the first is its value *)
Lemma chain_m_load_finds_value : forall c p sch t s b r,
  has_file (c_m c) b = true -> is_bad (c_m c) b = false -> 1 <= s -> s <= n_extra (c_m c) ->
  In (NvRes t (NLoad s b) r) (ns_log (cs_in (cexec c p sch))) -> r = NFound (Some 0).
Proof.
  intros c p sch t s b r Hf Hb H1 Hs Hin.
  exact (l_res _ _ (chain_linv c p sch) t s b r Hin (conj Hf Hb) H1 Hs).
Qed.

(* ---- what a load through M or through a loader below M returns is what M.LoadEntry handed up ------------------------ *)

Lemma nstep_log_mono : forall m c st t e, In e (ns_log st) -> In e (ns_log (nstep m c st t)).
Proof.
  intros m c st t e H. unfold nstep. destruct (nt_pc (ns_thr st t)) eqn:Hpc.
  - destruct (nt_todo (ns_thr st t)) as [|o todo]; [exact H|]. destruct (nstart c t o) as [p' evs]. cbn [ns_log].
    apply in_or_app. now left.
  - match goal with |- context [nseg ?a ?b ?c ?d ?e ?f] => destruct (nseg a b c d e f) as [[sh' [p' evs]]|] end;
      [cbn [ns_log]; apply in_or_app; now left | exact H].
  - match goal with |- context [nseg ?a ?b ?c ?d ?e ?f] => destruct (nseg a b c d e f) as [[sh' [p' evs]]|] end;
      [cbn [ns_log]; apply in_or_app; now left | exact H].
  - match goal with |- context [nseg ?a ?b ?c ?d ?e ?f] => destruct (nseg a b c d e f) as [[sh' [p' evs]]|] end;
      [cbn [ns_log]; apply in_or_app; now left | exact H].
  - match goal with |- context [nseg ?a ?b ?c ?d ?e ?f] => destruct (nseg a b c d e f) as [[sh' [p' evs]]|] end;
      [cbn [ns_log]; apply in_or_app; now left | exact H].
  - match goal with |- context [nseg ?a ?b ?c ?d ?e ?f] => destruct (nseg a b c d e f) as [[sh' [p' evs]]|] end;
      [cbn [ns_log]; apply in_or_app; now left | exact H].
  - match goal with |- context [nseg ?a ?b ?c ?d ?e ?f] => destruct (nseg a b c d e f) as [[sh' [p' evs]]|] end;
      [cbn [ns_log]; apply in_or_app; now left | exact H].
  - match goal with |- context [nseg ?a ?b ?c ?d ?e ?f] => destruct (nseg a b c d e f) as [[sh' [p' evs]]|] end;
      [cbn [ns_log]; apply in_or_app; now left | exact H].
  - match goal with |- context [nseg ?a ?b ?c ?d ?e ?f] => destruct (nseg a b c d e f) as [[sh' [p' evs]]|] end;
      [cbn [ns_log]; apply in_or_app; now left | exact H].
Qed.

Lemma nlast_res_app : forall log t o r, nlast_res (log ++ [NvRes t o r]) = r.
Proof. intros. unfold nlast_res. now rewrite last_last. Qed.

Ltac cur_tac :=
  cbn [ns_thr ns_log]; unfold pcof; cbn [ns_thr]; rewrite ?nupd1_same; cbn [nt_pc ncur];
  first [ left; split; [discriminate|reflexivity]
        | right; split; [reflexivity|]; eexists; reflexivity ].

(* a thread inside a load either stays inside that load or returns with exactly one result of that load, logged last *)
Lemma nstep_cur : forall c st t s b, ncur (pcof st t) = [NLoad s b] ->
  (nt_pc (ns_thr (nstep KeyMapped c st t) t) <> NIdle /\ ncur (pcof (nstep KeyMapped c st t) t) = [NLoad s b]) \/
  (nt_pc (ns_thr (nstep KeyMapped c st t) t) = NIdle /\
   exists r, ns_log (nstep KeyMapped c st t) = ns_log st ++ [NvRes t (NLoad s b) r]).
Proof.
  intros c st t s b H. unfold pcof in H. unfold nstep.
  destruct (nt_pc (ns_thr st t)) as [|s0 b0|s0 b0|s0 b0|s0 b0 lk|s0 b0 lk|s0 b0 lk|s0 b0 lk|s0 b0 lk r] eqn:Hpc;
    cbn [ncur] in H; [discriminate| | | | | | | | ]; injection H as -> ->.
  - cbn [nseg]. destruct (nget (ns_sh st) s b); rewrite ?nfinish_eq; cur_tac.
  - cbn [nseg lock_ns]. destruct (Nat.leb s (n_extra c) && has_file c b); [destruct (nlockmap (ns_sh st) 0 b)|]; cur_tac.
  - cbn [nseg]. rewrite nfinish_eq. cur_tac.
  - cbn [nseg]. destruct (nheld (ns_sh st) lk).
    + left. unfold pcof. rewrite Hpc. split; [discriminate|reflexivity].
    + cur_tac.
  - cbn [nseg]. destruct (nget (ns_sh st) 0 b); cur_tac.
  - cbn [nseg]. cur_tac.
  - cbn [nseg]. destruct (is_bad c b); [cur_tac|].
    destruct (bind_all c (ns_sh st) b (nsparse b (ns_log st))) as [sh' ok]. destruct ok; cur_tac.
  - cbn [nseg]. destruct r as [e|]; [destruct e|]; rewrite ?nfinish_eq; cbn [nfin]; cur_tac.
Qed.

Definition cq (c : ccfg) (inner : nstate) (t : ntid) (p : cpc) : Prop :=
  match p with
  | CIdle => True
  | CAbove l s b j => j <= c_above c /\ j <= l
  | CInM l s b => ncur (pcof inner t) = [NLoad s b] /\ c_above c + 1 <= l
  | CBelow l s b j => In (NvRes t (NLoad s b) (NFound None)) (ns_log inner)
  | CAfter l s b => c_above c + 1 <= l -> In (NvRes t (NLoad s b) (NFound None)) (ns_log inner)
  end.

Record cres (c : ccfg) (st : cstate) : Prop := mkCRes {
  cr_log : forall t l s b r, In (t, CLoad l s b, r) (cs_log st) ->
             c_above c + 1 <= l -> l <= c_above c + 1 + c_below c ->
             In (NvRes t (NLoad s b) r) (ns_log (cs_in st));
  cr_pc : forall t, cq c (cs_in st) t (ct_pc (cs_thr st t))
}.

Lemma cq_mono : forall c inner inner' t p,
  (forall e, In e (ns_log inner) -> In e (ns_log inner')) -> pcof inner' t = pcof inner t ->
  cq c inner t p -> cq c inner' t p.
Proof. intros c inner inner' t p Hl Hp H. destruct p; cbn [cq] in *; rewrite ?Hp; auto. Qed.

Lemma cres_upd : forall c st t inner' th' miss' log', cres c st ->
  (forall e, In e (ns_log (cs_in st)) -> In e (ns_log inner')) ->
  (forall t0, t0 <> t -> pcof inner' t0 = pcof (cs_in st) t0) ->
  (forall t' l s b r, In (t', CLoad l s b, r) log' ->
     In (t', CLoad l s b, r) (cs_log st) \/
     (c_above c + 1 <= l -> l <= c_above c + 1 + c_below c -> In (NvRes t' (NLoad s b) r) (ns_log inner'))) ->
  cq c inner' t (ct_pc th') ->
  cres c (mkCSt inner' (nupd1 (cs_thr st) t th') miss' log').
Proof.
  intros c st t inner' th' miss' log' [H1 H2] Hl Hp Hlog Hq. constructor; cbn [cs_in cs_thr cs_log].
  - intros t' l s b r Hin Hle Hle2. destruct (Hlog t' l s b r Hin) as [Ho|Hn]; [apply Hl; exact (H1 t' l s b r Ho Hle Hle2) | now apply Hn].
  - intros t0. destruct (Nat.eq_dec t0 t) as [->|Hne]; [now rewrite nupd1_same|].
    rewrite nupd1_other by exact Hne. apply (cq_mono c (cs_in st)); auto.
Qed.

Lemma in_clog : forall (log : list cevent) e e', In e (log ++ [e']) -> In e log \/ e = e'.
Proof. intros log e e' H. apply in_app_or in H. destruct H as [H|[H|[]]]; auto. Qed.

Ltac log_same := intros ? ? ? ? ? Hin; left; exact Hin.
Ltac in_same := intros e He; exact He.
Ltac pc_same := intros t0 _; reflexivity.

Lemma cres_step : forall c st t, cres c st -> cres c (cstep c st t).
Proof.
  intros c st t H. unfold cstep. pose proof (cr_pc c st H t) as Hq.
  destruct (ct_pc (cs_thr st t)) as [|l s b j|l s b|l s b j|l s b] eqn:Hpc; cbn [cq] in Hq.
  - (* CIdle *)
    destruct (ct_todo (cs_thr st t)) as [|o todo]; [exact H|].
    destruct o as [l s b|l s b].
    + destruct (Nat.leb 1 l && Nat.leb l (c_above c + 1 + c_below c))%bool eqn:Hg.
      * apply andb_true_iff in Hg. destruct Hg as [Hg1 _]. apply Nat.leb_le in Hg1.
        destruct (c_above c) eqn:Ha.
        -- unfold center. apply cres_upd;
             [exact H | intros e He; apply nstep_log_mono; exact He
             | intros t0 Hne; unfold pcof; now rewrite nstep_enter_other | log_same | ].
           cbn [ct_pc cq]. unfold pcof. rewrite nstep_enter_thr. cbn. split; [reflexivity|lia].
        -- unfold cset. apply cres_upd; [exact H | in_same | pc_same | log_same | ]. cbn [ct_pc cq]. lia.
      * unfold cfinish. apply cres_upd; [exact H | in_same | pc_same | | exact I].
        intros t' l' s' b' r Hin. apply in_clog in Hin. destruct Hin as [Hin|Hin]; [now left|].
        injection Hin as -> -> -> -> ->. right. intros Hle Hle2. exfalso.
        apply andb_false_iff in Hg. destruct Hg as [Hg|Hg]; apply Nat.leb_gt in Hg; lia.
    + unfold cfinish. apply cres_upd; [exact H | in_same | pc_same | | exact I].
      intros t' l' s' b' r Hin. apply in_clog in Hin. destruct Hin as [Hin|Hin]; [now left|discriminate].
  - (* CAbove *)
    destruct Hq as [Hja Hjl].
    destruct (Nat.eqb_spec j l) as [Heq|Hne].
    + subst j. unfold cown. destruct (cs_miss st l s b); unfold cfinish, cset.
      * apply cres_upd; [exact H | in_same | pc_same | | exact I].
        intros t' l' s' b' r Hin. apply in_clog in Hin. destruct Hin as [Hin|Hin]; [now left|].
        injection Hin as -> -> -> -> ->. right. intros Hle Hle2. lia.
      * apply cres_upd; [exact H | in_same | pc_same | log_same | ]. cbn [ct_pc cq]. intros Hle. lia.
    + destruct (Nat.eqb_spec j (c_above c)) as [Hja'|Hna].
      * unfold center. apply cres_upd;
          [exact H | intros e He; apply nstep_log_mono; exact He
          | intros t0 Hne0; unfold pcof; now rewrite nstep_enter_other | log_same | ].
        cbn [ct_pc cq]. unfold pcof. rewrite nstep_enter_thr. cbn. split; [reflexivity|lia].
      * unfold cset. apply cres_upd; [exact H | in_same | pc_same | log_same | ]. cbn [ct_pc cq]. lia.
  - (* CInM *)
    destruct Hq as [Hcur Hle].
    assert (Hmono : forall e, In e (ns_log (cs_in st)) -> In e (ns_log (nstep KeyMapped (c_m c) (cs_in st) t)))
      by (intros e He; now apply nstep_log_mono).
    assert (Hoth : forall t0, t0 <> t -> pcof (nstep KeyMapped (c_m c) (cs_in st) t) t0 = pcof (cs_in st) t0)
      by (intros t0 Hne; unfold pcof; now rewrite nstep_other).
    destruct (nstep_cur (c_m c) (cs_in st) t s b Hcur) as [[Hni Hc']|[Hi [r Hr]]].
    + (* still inside *)
      assert (Hstay : cres c (mkCSt (nstep KeyMapped (c_m c) (cs_in st) t) (cs_thr st) (cs_miss st) (cs_log st))).
      { destruct H as [H1 H2]. constructor; cbn [cs_in cs_thr cs_log].
        - intros t' l' s' b' r' Hx Hy Hz. apply Hmono. exact (H1 t' l' s' b' r' Hx Hy Hz).
        - intros t0. destruct (Nat.eq_dec t0 t) as [Heq|Hne].
          + subst t0. rewrite Hpc. cbn [cq]. split; [exact Hc'|exact Hle].
          + apply (cq_mono c (cs_in st)); auto. }
      destruct (nt_pc (ns_thr (nstep KeyMapped (c_m c) (cs_in st) t) t)) eqn:Hin; [contradiction| | | | | | | | ]; exact Hstay.
    + (* returned *)
      rewrite Hi. rewrite Hr. rewrite nlast_res_app.
      assert (Hres : In (NvRes t (NLoad s b) r) (ns_log (nstep KeyMapped (c_m c) (cs_in st) t))).
      { rewrite Hr. apply in_or_app. right. now left. }
      assert (Hfin : cres c (cfinish (mkCSt (nstep KeyMapped (c_m c) (cs_in st) t) (cs_thr st) (cs_miss st) (cs_log st)) t
                            (ct_todo (cs_thr st t)) (CLoad l s b) r)).
      { unfold cfinish. cbn [cs_in cs_thr cs_miss cs_log]. apply cres_upd; [exact H | exact Hmono | exact Hoth | | exact I].
        intros t' l' s' b' r' Hx. apply in_clog in Hx. destruct Hx as [Hx|Hx]; [now left|].
        injection Hx as -> -> -> -> ->. right. intros _ _. exact Hres. }
      destruct r as [[v|]| | | |]; try exact Hfin.
      destruct (Nat.eqb l (c_above c + 1)); [exact Hfin|].
      unfold cset. cbn [cs_in cs_thr cs_miss cs_log]. apply cres_upd; [exact H | exact Hmono | exact Hoth | log_same | ].
      cbn [ct_pc cq]. exact Hres.
  - (* CBelow *)
    destruct (Nat.eqb j l).
    + unfold cown. destruct (cs_miss st l s b); unfold cfinish, cset.
      * apply cres_upd; [exact H | in_same | pc_same | | exact I].
        intros t' l' s' b' r Hin. apply in_clog in Hin. destruct Hin as [Hin|Hin]; [now left|].
        injection Hin as -> -> -> -> ->. right. intros _ _. exact Hq.
      * apply cres_upd; [exact H | in_same | pc_same | log_same | ]. cbn [ct_pc cq]. intros _. exact Hq.
    + unfold cset. apply cres_upd; [exact H | in_same | pc_same | log_same | ]. cbn [ct_pc cq]. exact Hq.
  - (* CAfter *)
    unfold cfinish. cbn [cs_in cs_thr cs_miss cs_log].
    apply cres_upd; [exact H | in_same | pc_same | | exact I].
    intros t' l' s' b' r Hin. apply in_clog in Hin. destruct Hin as [Hin|Hin]; [now left|].
    injection Hin as -> -> -> -> ->. right. intros Hle _. exact (Hq Hle).
Qed.

Lemma cres_exec : forall c p s, cres c (cexec c p s).
Proof.
  intros c p s. unfold cexec.
  assert (H0 : cres c (cinit p)) by (constructor; cbn; [intros; contradiction | intros; exact I]).
  revert H0. generalize (cinit p).
  induction s as [|t s IH]; intros st H; cbn [fold_left]; [exact H|]. apply IH. now apply cres_step.
Qed.

(* In every chain: a load of a good file through a namespace other than the first, through M or through any loader
   below M, returns the value of the (one) instantiation of the file. *)
Lemma chain_load_finds_value : forall c p sch t l s b r,
  has_file (c_m c) b = true -> is_bad (c_m c) b = false -> 1 <= s -> s <= n_extra (c_m c) ->
  c_above c + 1 <= l -> l <= c_above c + 1 + c_below c ->
  In (t, CLoad l s b, r) (cs_log (cexec c p sch)) -> r = NFound (Some 0).
Proof.
  intros c p sch t l s b r Hf Hb H1 Hs Hl Hl2 Hin.
  pose proof (cr_log c _ (cres_exec c p sch) t l s b r Hin Hl Hl2) as Hm.
  exact (chain_m_load_finds_value c p sch t s b r Hf Hb H1 Hs Hm).
Qed.
