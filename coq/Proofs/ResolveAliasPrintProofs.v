(* C06: the printer that words PCORE_ILLEGAL_ARGUMENT_TYPE / PCORE_ILLEGAL_OBJECT_INHERITANCE with a type
   (Model/ResolveAlias.v: asg, common_pred, print_walk, print_pred): when the wording raises PCORE_UNRESOLVED_TYPE. *)
From Coq Require Import List Arith Bool Lia.
Import ListNotations.
From PcoreV Require Import Model.ResolveAlias Proofs.ResolveAliasProofs.

Local Arguments Nat.eqb : simpl never.

(* the classes a walk can end with: a type, one of the four reported errors, or "one of two reported errors" *)
Definition reported_class (n : nat) : Prop := In n [1; 2; 3; 4; 21; 41].

Lemma error_is_reported c : reported_class (rres_class (RErr c)).
Proof. unfold reported_class. destruct c; cbn [rres_class In]; tauto. Qed.

(* the wording hands on the error it was given or PCORE_UNRESOLVED_TYPE, nothing else *)
Lemma worded_cases c either p :
  worded c either p = c \/ worded c either p = EUnresolvedType \/ worded c either p = either.
Proof. destruct p; cbn [worded]; tauto. Qed.

(* ---- where every alias that can be reached has a resolved type the assignability test never raises ---- *)

(* aliases that occur in a type / in the resolved types of the state are declared: the invariant under which an
   alias without resolved type cannot be met *)
Fixpoint closed (st : state) (t : rty) : Prop :=
  match t with
  | TAlias n => resolved_of st n <> None
  | TC1 _ a => closed st a
  | TC2 _ a b => closed st a /\ closed st b
  | _ => True
  end.

Definition aclosed (st : state) (a : aty) : Prop := match a with AUndef => True | AT t => closed st t end.

Definition st_closed (st : state) : Prop := forall n t, resolved_of st n = Some t -> closed st t.

Lemma same_shape_ne r : same_shape_result r <> TRaise.
Proof. destruct r; discriminate. Qed.

Lemma asg_closed_no_raise st (Hst : st_closed st) : forall fuel,
  (forall g a b, aclosed st a -> aclosed st b -> asg fuel st g a b <> TRaise) /\
  (forall g a b, aclosed st a -> aclosed st b -> asg_left fuel st g a b <> TRaise).
Proof.
  induction fuel as [|f [IHa IHl]]; [split; intros; cbn [asg asg_left]; discriminate|].
  split.
  - intros g a b Ha Hb. cbn [asg]. destruct (same_ptr a b); [discriminate|]. cbn zeta.
    destruct (aty_eqb a b); [apply same_shape_ne|].
    destruct b as [|tb]; [apply IHl; assumption|].
    destruct tb as [|m|m|k x|k x y|]; try (apply IHl; assumption).
    + destruct (seen_pair g a (AT (TAlias m))); [discriminate|].
      destruct (resolved_of st m) as [t|] eqn:E; [|discriminate].
      apply IHa; [exact Ha | exact (Hst _ _ E)].
    + destruct k; try (apply IHl; assumption).
      * pose proof (IHa g a AUndef Ha I) as H1. destruct (asg f st g a AUndef); try discriminate; try congruence.
        apply IHa; assumption.
      * pose proof (IHa g a (AT x) Ha Hb) as H1. destruct (asg f st g a (AT x)); try discriminate; try congruence.
        pose proof (IHa g (AT x) AUndef Hb I) as H2. destruct (asg f st g (AT x) AUndef); try discriminate; try congruence.
        apply IHl; assumption.
    + destruct k; try (apply IHl; assumption).
      destruct Hb as [Hx Hy].
      pose proof (IHa g a (AT x) Ha Hx) as H1. destruct (asg f st g a (AT x)); try discriminate; try congruence.
      apply IHa; assumption.
  - intros g a b Ha Hb. cbn [asg_left].
    destruct a as [|ta]; [destruct b; discriminate|].
    destruct ta as [|n|n|k x|k x y|].
    + destruct b as [|[]]; discriminate.
    + destruct b as [|[]]; try discriminate. destruct (Nat.eqb n n0); discriminate.
    + destruct (seen_pair g (AT (TAlias n)) b); [discriminate|].
      destruct (resolved_of st n) as [t|] eqn:E.
      * apply IHa; [exact (Hst _ _ E) | exact Hb].
      * cbn [aclosed closed] in Ha. congruence.
    + cbn [aclosed closed] in Ha. destruct k.
      * destruct b as [|[|m|m|k' y|k' y z|]]; try discriminate.
        -- destruct k'; try discriminate. apply IHa; assumption.
        -- destruct k'; try discriminate. destruct Hb as [Hy Hz].
           pose proof (IHa g (AT x) (AT y) Ha Hy) as H1. destruct (asg f st g (AT x) (AT y)); try discriminate; try congruence.
           apply IHa; assumption.
      * pose proof (IHa g AUndef b I Hb) as H1. destruct (asg f st g AUndef b); try discriminate; try congruence.
        apply IHa; assumption.
      * pose proof (IHa g b AUndef Hb I) as H1. destruct (asg f st g b AUndef); try discriminate; try congruence.
        apply IHa; assumption.
      * destruct b as [|[|m|m|k' y|k' y z|]]; try discriminate.
        destruct k'; try discriminate. apply IHa; assumption.
    + cbn [aclosed closed] in Ha. destruct Ha as [Hx Hy]. destruct k.
      * destruct b as [|[|m|m|k' x'|k' x' y'|]]; try discriminate.
        destruct k'; try discriminate. destruct Hb as [Hx' Hy'].
        pose proof (IHa g (AT x) (AT x') Hx Hx') as H1. destruct (asg f st g (AT x) (AT x')); try discriminate; try congruence.
        apply IHa; assumption.
      * destruct b as [|[|m|m|k' x'|k' x' y'|]]; try discriminate.
        destruct k'; try discriminate. destruct Hb as [Hx' Hy'].
        pose proof (IHa g (AT x) (AT x') Hx Hx') as H1. destruct (asg f st g (AT x) (AT x')); try discriminate; try congruence.
        apply IHa; assumption.
      * pose proof (IHa g (AT x) b Hx Hb) as H1. destruct (asg f st g (AT x) b); try discriminate; try congruence.
        apply IHa; assumption.
    + destruct b as [|[]]; discriminate.
Qed.

Lemma common_pred_closed st (Hst : st_closed st) : forall a b, closed st a -> closed st b -> common_pred st a b <> PRaises.
Proof.
  induction a as [|n|n|k x IH|k x IHx y IHy|]; intros b Ha Hb; cbn [common_pred];
    pose proof (proj1 (asg_closed_no_raise st Hst print_fuel) [] (AT _) (AT b) Ha Hb) as H1;
    pose proof (proj1 (asg_closed_no_raise st Hst print_fuel) [] (AT b) (AT _) Hb Ha) as H2;
    match goal with |- context [asg print_fuel st [] (AT ?a) (AT b)] =>
      destruct (asg print_fuel st [] (AT a) (AT b)); try discriminate; try congruence;
      destruct (asg print_fuel st [] (AT b) (AT a)); try discriminate; try congruence
    end.
  - destruct k; try discriminate; destruct b as [|m|m|k' y|k' y z|]; try discriminate; destruct k'; try discriminate;
      apply IH; assumption.
  - destruct k; try discriminate; destruct b as [|m|m|k' y'|k' y' z|]; try discriminate; destruct k'; discriminate.
Qed.

Lemma print_walk_closed st (Hst : st_closed st) : forall t, closed st t -> print_walk st t <> PRaises.
Proof.
  induction t as [|n|n|k x IH|k x IHx y IHy|]; intros Ht; cbn [print_walk]; try discriminate.
  - apply IH. exact Ht.
  - destruct Ht as [Hx Hy].
    pose proof (common_pred_closed st Hst x y Hx Hy) as H0. specialize (IHx Hx). specialize (IHy Hy).
    destruct (common_pred st x y), (print_walk st x), (print_walk st y); cbn [pjoin]; congruence.
Qed.

(* where every alias that can be reached has a resolved type the wording does not raise: the error that leaves is the
   one that was being worded (or "not predicted"), never PCORE_UNRESOLVED_TYPE out of the printer *)
Lemma print_pred_closed st t : st_closed st -> closed st t -> print_pred st t <> PRaises.
Proof.
  intros Hst Ht. unfold print_pred. destruct (tainted st t); [|discriminate]. now apply print_walk_closed.
Qed.

(* ---- the cases the run meets ---- *)

Definition unresolved (st : state) (n : nat) : Prop := resolved_of st n = None.

(* one parameter: the list [a] has the type of a, nobody is asked - Array[A], Optional[A], NotUndef[A], Type[A] of an
   alias without resolved type are worded *)
Lemma single_parameter_fine st k n : print_pred st (TC1 k (TAlias n)) = PFine.
Proof. unfold print_pred. destruct (tainted st _); reflexivity. Qed.

Lemma taint_unresolved st n d s k : lookup st n = Some (d, s) -> (forall t, s <> SDone t) -> taint k st n = true.
Proof. intros H Hs. destruct k; cbn [taint]; rewrite H; destruct s; try reflexivity; exfalso; eapply Hs; reflexivity. Qed.

Lemma asg_core_unres f st n : resolved_of st n = None -> asg (S (S f)) st [] (AT TCore) (AT (TAlias n)) = TF.
Proof. intros Hr. cbn [asg same_ptr seen_pair existsb aty_eqb rty_eqb]. rewrite Hr. reflexivity. Qed.

Lemma asg_unres_core f st n : resolved_of st n = None -> asg (S (S f)) st [] (AT (TAlias n)) (AT TCore) = TRaise.
Proof. intros Hr. cbn [asg asg_left same_ptr seen_pair existsb aty_eqb rty_eqb]. rewrite Hr. reflexivity. Qed.

Lemma asg_unres_unres f st n m :
  Nat.eqb n m = false -> resolved_of st m = None -> asg (S (S f)) st [] (AT (TAlias n)) (AT (TAlias m)) = TF.
Proof. intros Hnm Hr. cbn [asg same_ptr seen_pair existsb aty_eqb rty_eqb]. rewrite Hnm, Hr. reflexivity. Qed.

Lemma print_fuel_eq : print_fuel = S (S 22).
Proof. reflexivity. Qed.

(* Hash / Tuple / Variant [Integer, A] and [A, Integer] with A declared and without resolved type: commonType asks
   A whether it accepts Integer - PCORE_UNRESOLVED_TYPE replaces the error *)
Lemma alias_next_to_core_raises st k n d s :
  lookup st n = Some (d, s) -> (forall t, s <> SDone t) ->
  print_pred st (TC2 k TCore (TAlias n)) = PRaises /\ print_pred st (TC2 k (TAlias n) TCore) = PRaises.
Proof.
  intros H Hs.
  assert (resolved_of st n = None) as Hr.
  { unfold resolved_of. rewrite H. destruct s as [| |t]; try reflexivity. exfalso. eapply Hs. reflexivity. }
  split; unfold print_pred, tainted; cbn [tmentions orb]; rewrite (taint_unresolved st n d s _ H Hs);
    rewrite ?orb_true_r; cbn [orb print_walk common_pred]; rewrite print_fuel_eq.
  - rewrite (asg_core_unres 22 st n Hr), (asg_unres_core 22 st n Hr). reflexivity.
  - rewrite (asg_unres_core 22 st n Hr). reflexivity.
Qed.

(* two different aliases without resolved type next to each other: each is `false` for the other (the nil resolved type
   on the right), nobody raises *)
Lemma two_unresolved_fine st k n m :
  Nat.eqb n m = false -> unresolved st n -> unresolved st m ->
  print_pred st (TC2 k (TAlias n) (TAlias m)) = PFine.
Proof.
  intros Hnm Hn Hm. unfold print_pred. destruct (tainted st _); [|reflexivity].
  assert (Nat.eqb m n = false) as Hmn by (rewrite Nat.eqb_sym; exact Hnm).
  cbn [print_walk common_pred]. rewrite print_fuel_eq.
  rewrite (asg_unres_unres 22 st n m Hnm Hm), (asg_unres_unres 22 st m n Hmn Hn). reflexivity.
Qed.
