(* FormatRadixPad.v — radix renderings convert back under ANY flags, width and precision: for every
   int64 n the rendering of n under %d %x %X %o %b %B - zero filled to any width, filled by any precision,
   space padded on either side, with or without '#', '+', ' ' - with its padding spaces trimmed is accepted
   by both dispatches of the Integer constructor with the matching radix and gives n; a rendering that
   carries no space (zero fill, precision fill, no width) converts back as it is (property C20).
   The single exception is fmt's: precision 0 of the integer 0 renders no digit. *)
From Coq Require Import ZArith NArith Bool Lia List.
From PcoreV Require Import Model.Base Model.Format Proofs.FormatProofs Proofs.FormatRadix.
Import ListNotations.
Open Scope Z_scope.

(* ------------------------------------------------------------------------------------------ *)
(* strings.TrimSpace on lead ++ core ++ trail *)

Definition sp (c : N) : Prop := is_space_b c = true.
Definition nsp (c : N) : Prop := is_space_b c = false.

Lemma dw_sp l s : Forall sp l -> drop_while is_space_b (l ++ s) = drop_while is_space_b s.
Proof.
  intros H. induction H as [|c l Hc _ IH]; [reflexivity|]. cbn [app drop_while]. unfold sp in Hc. rewrite Hc. exact IH.
Qed.

Lemma dw_nsp s : Forall nsp s -> drop_while is_space_b s = s.
Proof. intros H. destruct H as [|c l Hc _]; [reflexivity|]. cbn [drop_while]. unfold nsp in Hc. now rewrite Hc. Qed.

Lemma dw_nsp_app s t : Forall nsp s -> s <> [] -> drop_while is_space_b (s ++ t) = s ++ t.
Proof.
  intros H Hne. destruct H as [|c l Hc _]; [congruence|]. cbn [app drop_while]. unfold nsp in Hc. now rewrite Hc.
Qed.

Lemma trim_core lead core trail :
  Forall sp lead -> Forall sp trail -> Forall nsp core -> core <> [] ->
  trim_space (lead ++ core ++ trail) = core.
Proof.
  intros Hl Ht Hc Hne. unfold trim_space. rewrite (dw_sp lead (core ++ trail)) by assumption.
  rewrite (dw_nsp_app core trail) by assumption. rewrite rev_app_distr.
  rewrite (dw_sp (rev trail) (rev core)) by (apply Forall_rev; assumption).
  rewrite (dw_nsp (rev core)) by (apply Forall_rev; assumption). apply rev_involutive.
Qed.

Lemma trim_id t : Forall nsp t -> trim_space t = t.
Proof.
  intros H. unfold trim_space. rewrite (dw_nsp t) by assumption.
  rewrite (dw_nsp (rev t)) by (apply Forall_rev; assumption). apply rev_involutive.
Qed.

Lemma sp_spaces n : Forall sp (spaces n).
Proof. unfold spaces. apply Forall_forall. intros c Hc. apply repeat_spec in Hc. subst c. reflexivity. Qed.

Lemma dig_nsp base c : dig base c -> nsp c.
Proof.
  intros (d & Hd & Hr). unfold nsp, is_space_b, between.
  destruct (dig_cases c d Hd) as [[H1 _]|[[H1 _]|[H1 _]]]; nsplit; cbn; fin.
Qed.

Lemma sp_not_48_98 c : sp c -> N.eqb c 48 = false /\ N.eqb c 98 = false.
Proof.
  unfold sp, is_space_b, between. intros H.
  destruct (N.eqb_spec c 48) as [->|_]; [discriminate H|]. destruct (N.eqb_spec c 98) as [->|_]; [discriminate H|]. auto.
Qed.

(* ------------------------------------------------------------------------------------------ *)
(* the shape of fmt's integer rendering: padding, sign, prefix, zero fill, digits *)

Definition lead_of (n : Z) (plus space : bool) : str :=
  if n <? 0 then [] else if plus then [] else if space then [32%N] else [].

Definition oct_pre (ds : str) : str := match ds with 48%N :: _ => ds | _ => 48%N :: ds end.

Definition body_of (sharp : bool) (base : Z) (upper : bool) (ds : str) : str :=
  if sharp then
    if base =? 2 then 48%N :: 98%N :: ds
    else if base =? 8 then oct_pre ds
    else if base =? 16 then 48%N :: (if upper then 88%N else 120%N) :: ds
    else ds
  else ds.

Lemma fmt_integer_shape sharp zero plus space minus wid prec base upper n :
  (prec = 0 -> n <> 0) ->
  exists k lead trail, Forall sp lead /\ Forall sp trail /\
    fmt_integer sharp zero plus space minus wid prec base upper n =
    lead ++ (sign_of n plus ++ body_of sharp base upper (zeros k ++ digits base upper (Z.abs n))) ++ trail.
Proof.
  intros H0. unfold fmt_integer. cbv zeta.
  assert (Hz : (0 <=? prec) && (prec =? 0) && (Z.abs n =? 0) = false).
  { destruct (Z.eqb_spec prec 0) as [Hp|Hp]; [|now rewrite andb_false_r].
    destruct (Z.eqb_spec (Z.abs n) 0) as [Ha|Ha]; [|now rewrite andb_false_r].
    exfalso. apply (H0 Hp). lia. }
  rewrite Hz.
  set (k := (if 0 <=? prec then prec
             else if zero && negb minus && (0 <=? wid) then wid - (if (n <? 0) || plus || space then 1 else 0) else 0)
            - len (digits base upper (Z.abs n))).
  exists k.
  set (body := if sharp then _ else _).
  assert (Hb : body = body_of sharp base upper (zeros k ++ digits base upper (Z.abs n))) by reflexivity.
  set (signed_body := if n <? 0 then _ else _).
  assert (Hs : signed_body = lead_of n plus space ++ sign_of n plus ++ body).
  { unfold signed_body, lead_of, sign_of. destruct (n <? 0); [reflexivity|]. destruct plus; [reflexivity|].
    destruct space; reflexivity. }
  assert (Hlead : Forall sp (lead_of n plus space)).
  { unfold lead_of. destruct (n <? 0); [constructor|]. destruct plus; [constructor|].
    destruct space; [|constructor]. constructor; [reflexivity|constructor]. }
  rewrite Hs, Hb. unfold fmt_pad.
  destruct (wid <=? 0).
  - exists (lead_of n plus space), []. split; [assumption|]. split; [constructor|]. now rewrite !app_nil_r.
  - destruct minus.
    + eexists (lead_of n plus space), _. split; [assumption|]. split; [apply sp_spaces|].
      rewrite <- !app_assoc. reflexivity.
    + eexists (_ ++ lead_of n plus space), []. split; [apply Forall_app; split; [apply sp_spaces|assumption]|].
      split; [constructor|]. rewrite !app_nil_r, <- !app_assoc. reflexivity.
Qed.

(* ------------------------------------------------------------------------------------------ *)
(* zero fill does not change the digits' value *)

Lemma digit_vals_zeros base k ds dv :
  2 <= base -> digit_vals base ds = Some dv ->
  exists dv', digit_vals base (zeros k ++ ds) = Some dv' /\ of_digits base dv' = of_digits base dv.
Proof.
  intros Hb Hv. unfold zeros. induction (Z.to_nat k) as [|m IH]; [exists dv; auto|].
  destruct IH as (dv' & Hv' & Ho'). cbn [repeat app].
  destruct (digit_vals_zero base _ dv' Hb Hv') as [Hv0 Ho0]. exists (0 :: dv'). split; [assumption | congruence].
Qed.

Lemma oct_match (ds : str) :
  oct_pre ds = ds /\ (exists r, ds = 48%N :: r) \/ oct_pre ds = 48%N :: ds.
Proof.
  unfold oct_pre. destruct ds as [|c r]; [right; reflexivity|]. destruct c as [|p]; [right; reflexivity|].
  repeat (destruct p as [p|p|]; try (right; reflexivity)). left. split; [reflexivity | now exists r].
Qed.

(* the constructor on sign ++ (prefix of the alternate form) ++ digits *)
Lemma int_new_body base upper sharp sg ds dv :
  In base [2; 8; 10; 16] -> sign_ok sg -> ds <> [] -> digit_vals base ds = Some dv ->
  in_int64 (signed sg (of_digits base dv)) = true ->
  int_new (sg ++ body_of sharp base upper ds) base = Some (signed sg (of_digits base dv)).
Proof.
  intros Hb Hs Hne Hv Hr. unfold body_of. destruct sharp; [|now apply int_new_plain].
  cbn [In] in Hb. destruct Hb as [<- | [<- | [<- | [<- | []]]]].
  - change (2 =? 2) with true. cbv iota.
    apply int_new_prefixed; [right; auto | assumption | assumption | assumption | assumption].
  - change (8 =? 2) with false. change (8 =? 8) with true. cbv iota.
    destruct (oct_match ds) as [[-> _] | ->].
    + apply int_new_plain; [cbn; auto | assumption | assumption | assumption | assumption].
    + now apply int_new_octal.
  - change (10 =? 2) with false. change (10 =? 8) with false. change (10 =? 16) with false. cbv iota.
    apply int_new_plain; [cbn; auto | assumption | assumption | assumption | assumption].
  - change (16 =? 2) with false. change (16 =? 8) with false. change (16 =? 16) with true. cbv iota.
    destruct upper; (apply int_new_prefixed; [left; auto | assumption | assumption | assumption | assumption]).
Qed.

Lemma nsp_sign n plus : Forall nsp (sign_of n plus).
Proof.
  unfold sign_of. destruct (n <? 0); [constructor; [reflexivity|constructor]|].
  destruct plus; [constructor; [reflexivity|constructor]|constructor].
Qed.

Lemma nsp_body sharp base upper ds : Forall nsp ds -> Forall nsp (body_of sharp base upper ds).
Proof.
  intros H. unfold body_of. destruct sharp; [|assumption].
  destruct (base =? 2); [repeat (constructor; [reflexivity|]); assumption|].
  destruct (base =? 8).
  { destruct (oct_match ds) as [[-> _] | ->]; [assumption | constructor; [reflexivity|assumption]]. }
  destruct (base =? 16); [|assumption].
  destruct upper; repeat (constructor; [reflexivity|]); assumption.
Qed.

Lemma body_nonempty sharp base upper ds : ds <> [] -> body_of sharp base upper ds <> [].
Proof.
  intros H. unfold body_of. destruct sharp; [|assumption].
  destruct (base =? 2); [discriminate|]. destruct (base =? 8).
  { destruct (oct_match ds) as [[-> _] | ->]; [assumption | discriminate]. }
  destruct (base =? 16); [discriminate | assumption].
Qed.

Lemma nsp_zeros k : Forall nsp (zeros k).
Proof. unfold zeros. apply Forall_forall. intros c Hc. apply repeat_spec in Hc. subst c. reflexivity. Qed.

(* what the zero filled digit string of |n| is to the constructor *)
Lemma filled_digits base upper k n :
  In base [2; 8; 10; 16] -> in_int64 n = true ->
  let ds := zeros k ++ digits base upper (Z.abs n) in
  ds <> [] /\ Forall (dig base) ds /\
  exists dv, digit_vals base ds = Some dv /\ of_digits base dv = Z.abs n.
Proof.
  intros Hb Hn ds. pose proof (abs_int64 n Hn) as Hu.
  destruct (digits_roundtrip base upper (Z.abs n) Hb Hu) as (dv & Hdv & Ho).
  assert (Hb2 : 2 <= base) by (cbn in Hb; lia).
  destruct (digit_vals_zeros base k _ dv Hb2 Hdv) as (dv' & Hdv' & Ho').
  split.
  { unfold ds. intros E. apply app_eq_nil in E. destruct E as [_ E]. exact (digits_nonempty _ _ _ E). }
  split; [exact (digit_vals_all base ds dv' Hdv')|].
  exists dv'. split; [assumption | congruence].
Qed.

Definition base_of_verb (verb : N) : Z :=
  if N.eqb verb 100 then 10 else if N.eqb verb 111 then 8 else if N.eqb verb 98 then 2 else 16.

(* %d %x %X %o %b under any flags, width, precision *)
Theorem radix_roundtrip_padded_verb f verb n :
  in_int64 n = true -> In verb [100; 120; 88; 111; 98]%N -> (f_prec f = 0 -> n <> 0) ->
  int_new (trim_space (go_fmt_int f verb n)) (radix_of verb) = Some n.
Proof.
  intros Hn Hv H0. unfold go_fmt_int. fold (base_of_verb verb).
  assert (Hb : In (base_of_verb verb) [2; 8; 10; 16] /\ radix_of verb = base_of_verb verb).
  { cbn [In] in Hv. destruct Hv as [<- | [<- | [<- | [<- | [<- | []]]]]]; cbn; auto 10. }
  destruct Hb as [Hb Hr]. rewrite Hr. set (base := base_of_verb verb) in *.
  set (plus := N.eqb (f_plus f) 43). set (upper := N.eqb verb 88).
  destruct (fmt_integer_shape (f_alt f) (f_zero f) plus (N.eqb (f_plus f) 32) (f_left f) (f_width f) (f_prec f)
                              base upper n H0) as (k & lead & trail & Hl & Ht & ->).
  destruct (filled_digits base upper k n Hb Hn) as (Hne & Hall & dv & Hdv & Ho).
  rewrite trim_core; try assumption.
  - rewrite (int_new_body base upper (f_alt f) (sign_of n plus) _ dv Hb (sign_of_ok n plus) Hne Hdv).
    + rewrite Ho, signed_sign_of. reflexivity.
    + rewrite Ho, signed_sign_of. assumption.
  - apply Forall_app. split; [apply nsp_sign|]. apply nsp_body.
    eapply Forall_impl; [|exact Hall]. intros c Hc. exact (dig_nsp base c Hc).
  - intros E. apply app_eq_nil in E. destruct E as [_ E]. exact (body_nonempty _ _ _ _ Hne E).
Qed.

(* %B: strings.Replace(text of %b, "0b", "0B", 1) *)
Lemma replace_0b_none s : Forall (fun c => N.eqb c 98 = false) s -> replace_0b s = s.
Proof.
  intros H. induction H as [|a s Ha Hs IH]; [reflexivity|]. cbn [replace_0b].
  destruct s as [|b r]; [reflexivity|]. inversion Hs as [|? ? Hb _]; subst.
  rewrite Hb, andb_false_r. now rewrite IH.
Qed.

Lemma replace_0b_pre pre r :
  Forall (fun c => N.eqb c 48 = false) pre -> replace_0b (pre ++ 48%N :: 98%N :: r) = pre ++ 48%N :: 66%N :: r.
Proof.
  intros H. induction H as [|a s Ha _ IH]; [reflexivity|]. cbn [app].
  rewrite replace_0b_skip by assumption. now rewrite IH.
Qed.

Lemma dig2_not_98 c : dig 2 c -> N.eqb c 98 = false.
Proof.
  intros Hc. pose proof (dig_not_b c Hc) as H. unfold lower_b in H.
  destruct (N.eqb_spec c 98) as [->|]; [discriminate H | reflexivity].
Qed.

Theorem radix_roundtrip_padded_B f n :
  in_int64 n = true -> (f_prec f = 0 -> n <> 0) ->
  int_new (trim_space (replace_0b (go_fmt_int f 98 n))) 2 = Some n.
Proof.
  intros Hn H0. unfold go_fmt_int. cbn [N.eqb Pos.eqb].
  set (plus := N.eqb (f_plus f) 43).
  destruct (fmt_integer_shape (f_alt f) (f_zero f) plus (N.eqb (f_plus f) 32) (f_left f) (f_width f) (f_prec f)
                              2 false n H0) as (k & lead & trail & Hl & Ht & ->).
  assert (Hb : In 2 [2; 8; 10; 16]) by (cbn; auto).
  destruct (filled_digits 2 false k n Hb Hn) as (Hne & Hall & dv & Hdv & Ho).
  set (ds := zeros k ++ digits 2 false (Z.abs n)) in *.
  pose proof (sign_of_ok n plus) as Hs.
  assert (Hres : in_int64 (signed (sign_of n plus) (of_digits 2 dv)) = true /\ signed (sign_of n plus) (of_digits 2 dv) = n)
    by (rewrite Ho, signed_sign_of; auto).
  destruct Hres as [Hr He].
  assert (Hnds : Forall nsp ds) by (eapply Forall_impl; [|exact Hall]; intros c Hc; exact (dig_nsp 2 c Hc)).
  unfold body_of. destruct (f_alt f).
  - change (2 =? 2) with true. cbv iota.
    replace (lead ++ (sign_of n plus ++ 48%N :: 98%N :: ds) ++ trail)
      with ((lead ++ sign_of n plus) ++ 48%N :: 98%N :: (ds ++ trail))
      by (rewrite <- !app_assoc; reflexivity).
    rewrite replace_0b_pre.
    2:{ apply Forall_app. split.
        - eapply Forall_impl; [|exact Hl]. intros c Hc. exact (proj1 (sp_not_48_98 c Hc)).
        - destruct Hs as [-> | [-> | ->]]; repeat constructor. }
    replace ((lead ++ sign_of n plus) ++ 48%N :: 66%N :: ds ++ trail)
      with (lead ++ (sign_of n plus ++ 48%N :: 66%N :: ds) ++ trail)
      by (rewrite <- !app_assoc; reflexivity).
    rewrite trim_core; try assumption.
    + rewrite <- He at 2. apply int_new_prefixed; [right; auto | assumption | assumption | assumption | assumption].
    + apply Forall_app. split; [apply nsp_sign|]. repeat (constructor; [reflexivity|]). assumption.
    + intros E. apply app_eq_nil in E. destruct E as [_ E]. discriminate E.
  - rewrite replace_0b_none.
    2:{ apply Forall_app. split; [eapply Forall_impl; [|exact Hl]; intros c Hc; exact (proj2 (sp_not_48_98 c Hc))|].
        apply Forall_app. split; [|eapply Forall_impl; [|exact Ht]; intros c Hc; exact (proj2 (sp_not_48_98 c Hc))].
        apply Forall_app. split; [destruct Hs as [-> | [-> | ->]]; repeat constructor|].
        eapply Forall_impl; [|exact Hall]. intros c Hc. exact (dig2_not_98 c Hc). }
    rewrite trim_core; try assumption.
    + rewrite <- He at 2. apply int_new_plain; [cbn; auto | assumption | assumption | assumption | assumption].
    + apply Forall_app. split; [apply nsp_sign | assumption].
    + intros E. apply app_eq_nil in E. destruct E as [_ E]. exact (Hne E).
Qed.

(* through the value's ToString: Integer n under any format with letter d x X o b B *)
Theorem radix_roundtrip_padded o f n t :
  in_int64 n = true -> mem (f_char f) l_dxXobB = true -> (f_prec f = 0 -> n <> 0) ->
  render_scalar o f (VInt n) = OText t -> int_new (trim_space t) (radix_of (f_char f)) = Some n.
Proof.
  intros Hn Hc H0. cbn [render_scalar]. unfold render_int_top, render_integer. cbv zeta.
  destruct (mem (f_char f) l_xXodb) eqn:E1.
  - intros H. injection H as <-. apply radix_roundtrip_padded_verb; try assumption.
    apply mem_true in E1. cbn in E1. cbn. intuition.
  - destruct (N.eqb (f_char f) 66) eqn:E2.
    + intros H. injection H as <-. apply N.eqb_eq in E2. rewrite E2. now apply radix_roundtrip_padded_B.
    + exfalso. assert (Hf : mem (f_char f) l_dxXobB = false).
      { apply (mem_cover (f_char f) l_dxXobB [l_xXodb; [66%N]] eq_refl). cbn [forallb mem existsb]. rewrite E1, E2. reflexivity. }
      congruence.
Qed.

(* a rendering that carries no space - zero fill, precision fill, no width - converts back as it is *)
Theorem radix_roundtrip_filled o f n t :
  in_int64 n = true -> mem (f_char f) l_dxXobB = true -> (f_prec f = 0 -> n <> 0) ->
  render_scalar o f (VInt n) = OText t -> Forall nsp t -> int_new t (radix_of (f_char f)) = Some n.
Proof.
  intros Hn Hc H0 H Hns. rewrite <- (trim_id t Hns) at 1. now apply (radix_roundtrip_padded o f n t).
Qed.

Lemma radix_of_ok c : radix_ok (radix_of c) = true.
Proof.
  unfold radix_of. destruct (N.eqb c 98 || N.eqb c 66); [reflexivity|]. destruct (N.eqb c 111); [reflexivity|].
  destruct (N.eqb c 120 || N.eqb c 88); reflexivity.
Qed.

Definition abs_given (abs : option bool) : bool := match abs with Some true => true | _ => false end.

(* both dispatches of the constructor, with or without the abs argument *)
Theorem radix_roundtrip_ctor o f n t form abs :
  in_int64 n = true -> mem (f_char f) l_dxXobB = true -> (f_prec f = 0 -> n <> 0) ->
  render_scalar o f (VInt n) = OText t ->
  int_ctor form (trim_space t) (radix_of (f_char f)) abs
  = Some (if abs_given abs && (n <? 0) then wrap64 (- n) else n).
Proof.
  intros Hn Hc H0 H. unfold int_ctor. rewrite radix_of_ok, (radix_roundtrip_padded o f n t Hn Hc H0 H). reflexivity.
Qed.

(* the same through px.NewFormatContext3(Integer n, directive) + ToString *)
Theorem radix_roundtrip_ctor_directive o s f n t form :
  parse_format s None None CfNone = ROk f -> in_int64 n = true -> mem (f_char f) l_dxXobB = true ->
  (f_prec f = 0 -> n <> 0) ->
  format_value o (VInt n) (FStr s) = Some (OText t) ->
  int_ctor form (trim_space t) (radix_of (f_char f)) None = Some n.
Proof.
  intros Hp Hn Hc H0 H. rewrite (format_value_scalar o (VInt n) s f eq_refl Hp) in H.
  injection H as H. exact (radix_roundtrip_ctor o f n t form None Hn Hc H0 H).
Qed.
