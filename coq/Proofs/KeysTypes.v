(* KeysTypes.v — C07, the types: ty_eqb a b = true <-> tkey a = tkey b, for both call directions. *)
From Coq Require Import ZArith NArith Bool Lia List.
From PcoreV Require Import Model.Base Model.Keys Proofs.KeysOrder Proofs.KeysCode.
Import ListNotations.
Open Scope Z_scope.

(* ------------------------------------------------------------------------------------------ *)
(* induction over types with the induction hypothesis for the members of Tuple and Variant *)

Section TyInd.
  Variable P : ty -> Prop.
  Hypothesis Hnullary : forall n, P (TNullary n).
  Hypothesis Hboolean : forall v, P (TBoolean v).
  Hypothesis Hinteger : forall lo hi, P (TInteger lo hi).
  Hypothesis Hfloat : forall lo hi, P (TFloat lo hi).
  Hypothesis Hstringsz : forall lo hi, P (TStringSz lo hi).
  Hypothesis Hstringval : forall s, P (TStringVal s).
  Hypothesis Henum : forall ci vs, P (TEnum ci vs).
  Hypothesis Hpattern : forall rxs, P (TPattern rxs).
  Hypothesis Hregexp : forall s, P (TRegexp s).
  Hypothesis Hcollection : forall lo hi, P (TCollection lo hi).
  Hypothesis Harray : forall e lo hi, P e -> P (TArray e lo hi).
  Hypothesis Hhash : forall k v lo hi, P k -> P v -> P (THash k v lo hi).
  Hypothesis Htuple : forall ts lo hi, Forall P ts -> P (TTuple ts lo hi).
  Hypothesis Hvariant : forall ts, Forall P ts -> P (TVariant ts).
  Hypothesis Hun : forall u x, P x -> P (TUn u x).

  Fixpoint ty_ind2 (t : ty) : P t :=
    match t with
    | TNullary n => Hnullary n
    | TBoolean v => Hboolean v
    | TInteger lo hi => Hinteger lo hi
    | TFloat lo hi => Hfloat lo hi
    | TStringSz lo hi => Hstringsz lo hi
    | TStringVal s => Hstringval s
    | TEnum ci vs => Henum ci vs
    | TPattern rxs => Hpattern rxs
    | TRegexp s => Hregexp s
    | TCollection lo hi => Hcollection lo hi
    | TArray e lo hi => Harray e lo hi (ty_ind2 e)
    | THash k v lo hi => Hhash k v lo hi (ty_ind2 k) (ty_ind2 v)
    | TTuple ts lo hi =>
        Htuple ts lo hi ((fix go (l : list ty) : Forall P l :=
                            match l with
                            | [] => Forall_nil P
                            | x :: l' => Forall_cons x (ty_ind2 x) (go l')
                            end) ts)
    | TVariant ts =>
        Hvariant ts ((fix go (l : list ty) : Forall P l :=
                        match l with
                        | [] => Forall_nil P
                        | x :: l' => Forall_cons x (ty_ind2 x) (go l')
                        end) ts)
    | TUn u x => Hun u x (ty_ind2 x)
    end.
End TyInd.

(* ------------------------------------------------------------------------------------------ *)
(* small facts *)

Lemma cons_inj {A} (x y : A) a b : x :: a = y :: b -> x = y /\ a = b.
Proof. intros H. injection H. auto. Qed.

Ltac lsplit H :=
  let H1 := fresh "Hhd" in
  apply cons_inj in H; destruct H as [H1 H].

Lemma forallb_Forall {A} (f : A -> bool) l : forallb f l = true <-> Forall (fun x => f x = true) l.
Proof. rewrite forallb_forall, Forall_forall. tauto. Qed.

Lemma nullary_eqb_eq n m : nullary_eqb n m = true <-> n = m.
Proof. destruct n, m; cbn; split; intros H; try reflexivity; try discriminate. Qed.
Lemma unary_eqb_eq n m : unary_eqb n m = true <-> n = m.
Proof. destruct n, m; cbn; split; intros H; try reflexivity; try discriminate. Qed.
Lemma nullary_eqb_sym n m : nullary_eqb n m = nullary_eqb m n.
Proof. destruct n, m; reflexivity. Qed.
Lemma unary_eqb_sym n m : unary_eqb n m = unary_eqb m n.
Proof. destruct n, m; reflexivity. Qed.
Lemma feq_sym a b : feq a b = feq b a.
Proof. unfold feq. rewrite (N.eqb_sym (fnorm a)). destruct (f_is_nan a), (f_is_nan b); reflexivity. Qed.
Lemma str_eqb_sym a b : str_eqb a b = str_eqb b a.
Proof. destruct (str_eqb_spec a b), (str_eqb_spec b a); congruence. Qed.
Lemma bool_eqb_sym a b : Bool.eqb a b = Bool.eqb b a.
Proof. destruct a, b; reflexivity. Qed.
Lemma option_bool_eqb_sym a b : option_eqb Bool.eqb a b = option_eqb Bool.eqb b a.
Proof. destruct a as [[]|], b as [[]|]; reflexivity. Qed.
Lemma option_bool_eqb_eq a b : option_eqb Bool.eqb a b = true <-> a = b.
Proof. destruct a as [[]|], b as [[]|]; cbn; split; intros H; try reflexivity; try discriminate. Qed.

Lemma is_any_eq t : is_any t = true -> t = TAny.
Proof. destruct t as [[]| | | | | | | | | | | | | |]; cbn; intros H; try discriminate; reflexivity. Qed.
Lemma is_unit_eq t : is_unit t = true -> t = TUnit.
Proof. destruct t as [[]| | | | | | | | | | | | | |]; cbn; intros H; try discriminate; reflexivity. Qed.

(* the element-wise loops of TupleType.Equals as top-level functions *)
Fixpoint ty_eqb_list (xs ys : list ty) : bool :=
  match xs, ys with
  | [], _ => true
  | x :: xs', y :: ys' => ty_eqb x y && ty_eqb_list xs' ys'
  | _ :: _, [] => false
  end.
Fixpoint ty_eqb_flip_list (xs ys : list ty) : bool :=
  match xs, ys with
  | [], _ => true
  | x :: xs', y :: ys' => ty_eqb_flip x y && ty_eqb_flip_list xs' ys'
  | _ :: _, [] => false
  end.

Lemma ty_eqb_tuple ts lo hi ts' lo' hi' :
  ty_eqb (TTuple ts lo hi) (TTuple ts' lo' hi') =
  Nat.eqb (length ts) (length ts') && ((lo =? lo') && (hi =? hi')) && ty_eqb_list ts ts'.
Proof. reflexivity. Qed.
Lemma ty_eqb_flip_tuple ts lo hi ts' lo' hi' :
  ty_eqb_flip (TTuple ts lo hi) (TTuple ts' lo' hi') =
  Nat.eqb (length ts') (length ts) && ((lo' =? lo) && (hi' =? hi)) && ty_eqb_flip_list ts ts'.
Proof. reflexivity. Qed.

Lemma ty_eqb_list_Forall2 xs ys :
  length xs = length ys -> (ty_eqb_list xs ys = true <-> Forall2 (fun x y => ty_eqb x y = true) xs ys).
Proof.
  revert ys; induction xs as [|x xs IH]; intros [|y ys] Hl; cbn in *; try discriminate.
  - split; [constructor|reflexivity].
  - injection Hl as Hl. rewrite andb_true_iff, (IH ys Hl). split.
    + intros [H1 H2]. constructor; assumption.
    + intros H. inversion H; subst. auto.
Qed.

(* ------------------------------------------------------------------------------------------ *)
(* the same answer whichever operand receives the call *)

Lemma contains_all_flip a b c d : contains_all a b && contains_all c d = contains_all c d && contains_all a b.
Proof. apply andb_comm. Qed.

Theorem ty_eqb_flip_spec a : forall b, ty_eqb_flip a b = ty_eqb a b.
Proof.
  induction a as [n|v|lo hi|lo hi|lo hi|s|ci vs|rxs|s|lo hi|e lo hi IHe|k v lo hi IHk IHv|ts lo hi IH|ts IH|u x IHx]
    using ty_ind2; intros b.
  - destruct b; try reflexivity. cbn. apply nullary_eqb_sym.
  - destruct b; try reflexivity. cbn. apply option_bool_eqb_sym.
  - destruct b; try reflexivity. cbn. rewrite (Z.eqb_sym lo), (Z.eqb_sym hi). reflexivity.
  - destruct b; try reflexivity. cbn. rewrite (feq_sym lo), (feq_sym hi). reflexivity.
  - destruct b; try reflexivity. cbn. rewrite (Z.eqb_sym lo), (Z.eqb_sym hi). reflexivity.
  - destruct b; try reflexivity. cbn. apply str_eqb_sym.
  - destruct b; try reflexivity. cbn. rewrite (bool_eqb_sym ci). rewrite <- !andb_assoc. f_equal. apply andb_comm.
  - destruct b; try reflexivity. cbn. apply andb_comm.
  - destruct b; try reflexivity. cbn. apply str_eqb_sym.
  - destruct b; try reflexivity. cbn. rewrite (Z.eqb_sym lo), (Z.eqb_sym hi). reflexivity.
  - destruct b; try reflexivity. cbn. rewrite IHe, (Z.eqb_sym lo), (Z.eqb_sym hi). reflexivity.
  - destruct b; try reflexivity. cbn. rewrite IHk, IHv, (Z.eqb_sym lo), (Z.eqb_sym hi). reflexivity.
  - destruct b as [| | | | | | | | | | | |ts' lo' hi'| |]; try reflexivity.
    rewrite ty_eqb_tuple, ty_eqb_flip_tuple, (Z.eqb_sym lo), (Z.eqb_sym hi), (Nat.eqb_sym (length ts')).
    f_equal. clear lo hi lo' hi'. revert ts'. induction IH as [|x ts Hx _ IHts]; intros [|y ts']; try reflexivity.
    cbn. rewrite Hx, IHts. reflexivity.
  - destruct b; try reflexivity. cbn. apply andb_comm.
  - destruct b; try reflexivity. cbn. rewrite IHx, (unary_eqb_sym u). reflexivity.
Qed.

Lemma forallb_ext' {A} (f g : A -> bool) l : (forall x, f x = g x) -> forallb f l = forallb g l.
Proof. intros H. induction l as [|x l IH]; cbn; [reflexivity|]. rewrite H, IH. reflexivity. Qed.
Lemma existsb_ext' {A} (f g : A -> bool) l : (forall x, f x = g x) -> existsb f l = existsb g l.
Proof. intros H. induction l as [|x l IH]; cbn; [reflexivity|]. rewrite H, IH. reflexivity. Qed.

(* VariantType.Equals with every recursive call on a member of the first operand *)
Lemma ty_eqb_variant ts ts' :
  ty_eqb (TVariant ts) (TVariant ts') =
  forallb (fun v => existsb (fun ov => ty_eqb v ov) ts') ts && forallb (fun v => existsb (fun ov => ty_eqb ov v) ts) ts'.
Proof.
  cbn [ty_eqb]. f_equal. apply forallb_ext'. intros v. apply existsb_ext'. intros ov. apply ty_eqb_flip_spec.
Qed.

(* ------------------------------------------------------------------------------------------ *)
(* names *)

Definition ncls (t : ty) : nat :=
  match t with
  | TNullary NAny => 0 | TNullary NUnit => 1 | TNullary NUndef => 2 | TNullary NDefault => 3
  | TNullary NNumeric => 4 | TNullary NScalar => 5 | TNullary NScalarData => 6 | TNullary NBinary => 7
  | TNullary NString => 8 | TStringSz _ _ => 8 | TStringVal _ => 8
  | TBoolean _ => 9 | TInteger _ _ => 10 | TFloat _ _ => 11 | TEnum _ _ => 12 | TPattern _ => 13
  | TRegexp _ => 14 | TCollection _ _ => 15 | TArray _ _ _ => 16 | THash _ _ _ _ => 17
  | TTuple _ _ _ => 18 | TVariant _ => 19
  | TUn UOptional _ => 20 | TUn UNotUndef _ => 21 | TUn UType _ => 22 | TUn USensitive _ => 23
  | TUn UIterable _ => 24
  end%nat.

Definition name_of_cls (c : nat) : list N :=
  match c with
  | 0 => nm_Any | 1 => nm_Unit | 2 => nm_Undef | 3 => nm_Default | 4 => nm_Numeric | 5 => nm_Scalar
  | 6 => nm_ScalarData | 7 => nm_Binary | 8 => nm_String | 9 => nm_Boolean | 10 => nm_Integer
  | 11 => nm_Float | 12 => nm_Enum | 13 => nm_Pattern | 14 => nm_Regexp | 15 => nm_Collection
  | 16 => nm_Array | 17 => nm_Hash | 18 => nm_Tuple | 19 => nm_Variant | 20 => nm_Optional
  | 21 => nm_NotUndef | 22 => nm_Type | 23 => nm_Sensitive | _ => nm_Iterable
  end%nat.

Lemma tname_cls t : tname t = name_of_cls (ncls t).
Proof. destruct t as [[]| | | | | | | | | | | | | |[] ?]; reflexivity. Qed.

Lemma ncls_bound t : (ncls t <= 24)%nat.
Proof. destruct t as [[]| | | | | | | | | | | | | |[] ?]; cbn; lia. Qed.

Lemma name_of_cls_inj c d : (c <= 24)%nat -> (d <= 24)%nat -> name_of_cls c = name_of_cls d -> c = d.
Proof.
  intros Hc Hd.
  do 25 (destruct c as [|c]; [do 25 (destruct d as [|d]; [vm_compute; intros H; try reflexivity; discriminate H|]); exfalso; lia|]).
  exfalso; lia.
Qed.

Lemma tname_eq_cls a b : tname a = tname b -> ncls a = ncls b.
Proof. rewrite !tname_cls. apply name_of_cls_inj; apply ncls_bound. Qed.

Lemma tname_ok t : name_ok (tname t).
Proof.
  unfold name_ok. apply Forall_forall. intros b Hb.
  assert (forallb (N.ltb 4) (tname t) = true) as H
    by (destruct t as [[]| | | | | | | | | | | | | |[] ?]; reflexivity).
  rewrite forallb_forall in H. apply N.ltb_lt. apply H. assumption.
Qed.

(* ------------------------------------------------------------------------------------------ *)
(* parameter keys *)

Ltac bsplit :=
  repeat match goal with
         | H : _ && _ = true |- _ => apply andb_true_iff in H; destruct H
         end.

Lemma int_params_Key lo hi : Forall Key (int_params lo hi).
Proof.
  unfold int_params. destruct (lo =? min_int64), (hi =? max_int64);
    repeat constructor; try apply Key_int; apply Key_default.
Qed.
Lemma size_params_Key lo hi : Forall Key (size_params lo hi).
Proof.
  unfold size_params. destruct (hi =? max_int64); repeat constructor; try apply Key_int; apply Key_default.
Qed.
Lemma float_params_Key lo hi : Forall Key (float_params lo hi).
Proof.
  unfold float_params. destruct (lo =? neg_max_float)%N, (hi =? max_float)%N;
    repeat constructor; try apply Key_float; apply Key_default.
Qed.

Lemma default_not_int z : k_default <> k_int z.
Proof. unfold k_default, k_int. intros H. apply cons2_inj in H. destruct H as (_ & H & _). discriminate H. Qed.
Lemma default_not_float z : k_default <> k_float z.
Proof. unfold k_default, k_float. intros H. apply cons2_inj in H. destruct H as (_ & H & _). discriminate H. Qed.

Lemma size_params_inj lo hi lo' hi' :
  in_int64 lo = true -> in_int64 hi = true -> in_int64 lo' = true -> in_int64 hi' = true ->
  size_params lo hi = size_params lo' hi' -> lo = lo' /\ hi = hi'.
Proof.
  unfold size_params. intros Hlo Hhi Hlo' Hhi' H. lsplit H. lsplit H. clear H.
  apply k_int_inj in Hhd; [|assumption|assumption]. split; [assumption|].
  destruct (Z.eqb_spec hi max_int64), (Z.eqb_spec hi' max_int64).
  - congruence.
  - exfalso. eapply default_not_int; eassumption.
  - exfalso. eapply default_not_int; symmetry; eassumption.
  - apply k_int_inj; assumption.
Qed.

Lemma int_params_nil lo hi : int_params lo hi = [] -> lo = min_int64 /\ hi = max_int64.
Proof.
  unfold int_params. destruct (Z.eqb_spec lo min_int64), (Z.eqb_spec hi max_int64); intros H; try discriminate H. auto.
Qed.

Ltac params_solve H :=
  repeat (let h := fresh "Hh" in apply cons_inj in H; destruct H as [h H]);
  repeat match goal with
         | E : k_int _ = k_int _ |- _ => apply k_int_inj in E; [|assumption|assumption]
         | E : k_float _ = k_float _ |- _ => apply k_float_inj in E; [|assumption|assumption]
         | E : k_default = k_int _ |- _ => exfalso; exact (default_not_int _ E)
         | E : k_int _ = k_default |- _ => exfalso; exact (default_not_int _ (eq_sym E))
         | E : k_default = k_float _ |- _ => exfalso; exact (default_not_float _ E)
         | E : k_float _ = k_default |- _ => exfalso; exact (default_not_float _ (eq_sym E))
         end;
  subst; auto.

Lemma int_params_inj lo hi lo' hi' :
  in_int64 lo = true -> in_int64 hi = true -> in_int64 lo' = true -> in_int64 hi' = true ->
  int_params lo hi = int_params lo' hi' -> lo = lo' /\ hi = hi'.
Proof.
  unfold int_params. intros Hlo Hhi Hlo' Hhi'.
  destruct (Z.eqb_spec lo min_int64), (Z.eqb_spec hi max_int64), (Z.eqb_spec lo' min_int64), (Z.eqb_spec hi' max_int64);
    intros H; try discriminate H; params_solve H.
Qed.

Lemma float_params_feq lo hi lo' hi' :
  feq lo lo' = true -> feq hi hi' = true -> float_params lo hi = float_params lo' hi'.
Proof.
  intros H1 H2. apply feq_true in H1, H2. destruct H1 as (_ & _ & H1), H2 as (_ & _ & H2).
  assert ((lo =? neg_max_float)%N = (lo' =? neg_max_float)%N) as E1.
  { destruct (N.eqb_spec lo neg_max_float) as [->|], (N.eqb_spec lo' neg_max_float) as [->|]; try reflexivity; exfalso.
    - apply n. apply fnorm_eq_const; [reflexivity|discriminate|]. rewrite <- H1. reflexivity.
    - apply n. apply fnorm_eq_const; [reflexivity|discriminate|]. rewrite H1. reflexivity. }
  assert ((hi =? max_float)%N = (hi' =? max_float)%N) as E2.
  { destruct (N.eqb_spec hi max_float) as [->|], (N.eqb_spec hi' max_float) as [->|]; try reflexivity; exfalso.
    - apply n. apply fnorm_eq_const; [reflexivity|discriminate|]. rewrite <- H2. reflexivity.
    - apply n. apply fnorm_eq_const; [reflexivity|discriminate|]. rewrite H2. reflexivity. }
  unfold float_params, k_float. rewrite E1, E2, H1, H2. reflexivity.
Qed.

Lemma float_params_inj lo hi lo' hi' :
  bits64 lo = true -> bits64 hi = true -> bits64 lo' = true -> bits64 hi' = true ->
  float_params lo hi = float_params lo' hi' -> fnorm lo = fnorm lo' /\ fnorm hi = fnorm hi'.
Proof.
  unfold float_params. intros Hlo Hhi Hlo' Hhi'.
  destruct (N.eqb_spec lo neg_max_float), (N.eqb_spec hi max_float), (N.eqb_spec lo' neg_max_float), (N.eqb_spec hi' max_float);
    intros H; try discriminate H; params_solve H.
Qed.

(* views of the parameters of Optional/NotUndef/..., Array *)
Definition un_special (u : unary) (x : ty) : option str :=
  match u, x with
  | UOptional, TStringVal ((_ :: _) as s) => Some s
  | UNotUndef, TStringVal ((_ :: _) as s) => Some s
  | _, _ => None
  end.
Lemma un_view u x :
  tparams (TUn u x) = if is_any x then [] else match un_special u x with Some s => [k_str s] | None => [tkey x] end.
Proof.
  destruct u, x as [[]| | | | |[|c s]| | | | | | | | |]; reflexivity.
Qed.
Lemma un_special_some u x s : un_special u x = Some s -> x = TStringVal s.
Proof.
  destruct u, x as [[]| | | | |[|c s']| | | | | | | | |]; cbn; intros H; try discriminate H; injection H as <-; reflexivity.
Qed.
Lemma un_special_strval u s : un_special u (TStringVal s) = un_special u (TStringVal s).
Proof. reflexivity. Qed.

Definition arr_show_elem e lo hi := negb (is_unit e && sz_zero lo hi) && (negb (is_any e) || sz_zero lo hi).
Definition arr_show_size e lo hi := (is_unit e && sz_zero lo hi) || negb (sz_positive lo hi).
Lemma arr_view e lo hi :
  tparams (TArray e lo hi) =
  (if arr_show_elem e lo hi then [tkey e] else []) ++ (if arr_show_size e lo hi then size_params lo hi else []).
Proof.
  cbn [tparams]. unfold arr_show_elem, arr_show_size, tkey.
  destruct (is_unit e && sz_zero lo hi); cbn [negb andb orb app]; [reflexivity|].
  destruct (negb (is_any e) || sz_zero lo hi), (sz_positive lo hi); reflexivity.
Qed.

Definition is_tk (k : list N) : Prop := exists rest, k = (1 :: 116 :: rest)%N.
Definition starts_int (sp : list (list N)) : Prop :=
  match sp with [] => True | k :: _ => exists rest, k = (1 :: 105 :: rest)%N end.

Lemma tkey_is_tk t : is_tk (tkey t).
Proof. unfold is_tk, tkey, k_type. eexists. reflexivity. Qed.
Lemma size_params_starts_int lo hi : starts_int (size_params lo hi).
Proof. unfold starts_int, size_params, k_int. eexists. reflexivity. Qed.

Lemma tk_size_split ks : forall ks' sp sp',
  Forall is_tk ks -> Forall is_tk ks' -> starts_int sp -> starts_int sp' ->
  ks ++ sp = ks' ++ sp' -> ks = ks' /\ sp = sp'.
Proof.
  induction ks as [|k ks IH]; intros [|k' ks'] sp sp' Hk Hk' Hs Hs' H; cbn [app] in H.
  - auto.
  - exfalso. subst sp. cbn in Hs. destruct Hs as [rest E]. inversion Hk' as [|? ? [rest' E'] _]; subst.
    apply cons2_inj in E'. destruct E' as (_ & E' & _). discriminate E'.
  - exfalso. subst sp'. cbn in Hs'. destruct Hs' as [rest E]. inversion Hk as [|? ? [rest' E'] _]; subst.
    apply cons2_inj in E'. destruct E' as (_ & E' & _). discriminate E'.
  - lsplit H. subst k'. inversion Hk; inversion Hk'; subst.
    destruct (IH ks' sp sp') as [-> ->]; auto.
Qed.

Lemma Forall_map_tkey ts : Forall is_tk (map tkey ts).
Proof. apply Forall_forall. intros k Hk. apply in_map_iff in Hk. destruct Hk as (t & <- & _). apply tkey_is_tk. Qed.

Lemma starts_int_if (c : bool) sp : starts_int sp -> starts_int (if c then sp else []).
Proof. destruct c; cbn; auto. Qed.
Lemma starts_int_if' (c : bool) sp : starts_int sp -> starts_int (if c then [] else sp).
Proof. destruct c; cbn; auto. Qed.

(* ------------------------------------------------------------------------------------------ *)
(* every parameter key is a key, so type keys decode uniquely *)

Lemma Forall_lenok_kstr vs : forallb lenok vs = true -> Forall Key (map k_str vs).
Proof.
  rewrite forallb_forall. intros H. apply Forall_forall. intros k Hk.
  apply in_map_iff in Hk. destruct Hk as (s & <- & Hs). apply Key_str. auto.
Qed.
Lemma Forall_lenok_kregexp vs : forallb lenok vs = true -> Forall Key (map k_regexp vs).
Proof.
  rewrite forallb_forall. intros H. apply Forall_forall. intros k Hk.
  apply in_map_iff in Hk. destruct Hk as (s & <- & Hs). apply Key_regexp. auto.
Qed.

Lemma tkey_Key0 t : Forall Key (tparams t) -> Key (k_type (tname t) (tparams t)).
Proof. intros H. apply Key_type; [apply tname_ok|assumption]. Qed.

Ltac keys :=
  repeat first [ apply size_params_Key | apply int_params_Key | apply float_params_Key
               | apply Forall_nil | apply Forall_cons | apply Key_bool | apply Key_int | apply Key_default
               | apply Key_float | apply Key_str | apply Key_regexp | assumption ].

Lemma tparams_Key t : wf_ty t = true -> Forall Key (tparams t).
Proof.
  induction t as [n|v|lo hi|lo hi|lo hi|s|ci vs|rxs|s|lo hi|e lo hi IHe|k v lo hi IHk IHv|ts lo hi IH|ts IH|u x IHx]
    using ty_ind2; intros Hw; cbn [wf_ty] in Hw; bsplit.
  - constructor.
  - destruct v; cbn [tparams]; keys.
  - apply int_params_Key.
  - apply float_params_Key.
  - apply int_params_Key.
  - cbn [tparams]. keys.
  - cbn [tparams]. apply sort_dedup_Forall. apply Forall_app. split; [apply Forall_lenok_kstr; assumption|].
    destruct ci; keys.
  - cbn [tparams]. apply sort_dedup_Forall. apply Forall_lenok_kregexp. assumption.
  - destruct s; cbn [tparams]; keys.
  - cbn [tparams]. destruct (sz_positive lo hi); keys.
  - rewrite arr_view. apply Forall_app. split.
    + destruct (arr_show_elem e lo hi); keys. apply tkey_Key0; auto.
    + destruct (arr_show_size e lo hi); keys.
  - cbn [tparams]. destruct (is_any k && is_any v && sz_positive lo hi); [constructor|].
    destruct (is_unit k && is_unit v && sz_zero lo hi); [keys|].
    apply Forall_app. split.
    + constructor; [|constructor; [|constructor]]; apply tkey_Key0; auto.
    + destruct (sz_positive lo hi); keys.
  - cbn [tparams]. apply Forall_app. split.
    + apply Forall_forall. intros k Hk. apply in_map_iff in Hk. destruct Hk as (x & <- & Hx).
      rewrite Forall_forall in IH. rewrite forallb_forall in H0.
      apply tkey_Key0; auto.
    + cbv zeta. match goal with |- Forall Key (if ?c then _ else _) => destruct c end; keys.
  - cbn [tparams]. apply sort_dedup_Forall. apply Forall_forall. intros k Hk.
    apply in_map_iff in Hk. destruct Hk as (x & <- & Hx).
    rewrite Forall_forall in IH. rewrite forallb_forall in Hw.
    apply tkey_Key0; auto.
  - rewrite un_view. destruct (is_any x); [constructor|].
    destruct (un_special u x) as [s|] eqn:E.
    + apply un_special_some in E. subst x. cbn [wf_ty] in Hw. keys.
    + keys. apply tkey_Key0; auto.
Qed.

Lemma tkey_Key t : wf_ty t = true -> Key (tkey t).
Proof. intros H. apply Key_type; [apply tname_ok|apply tparams_Key; assumption]. Qed.

Lemma tkey_parts a b : wf_ty a = true -> wf_ty b = true -> tkey a = tkey b ->
  ncls a = ncls b /\ tparams a = tparams b.
Proof.
  intros Ha Hb H. unfold tkey in H.
  apply k_type_inj in H; [|apply tname_ok|apply tname_ok|apply tparams_Key; assumption|apply tparams_Key; assumption].
  destruct H as [Hn Hp]. split; [apply tname_eq_cls|]; assumption.
Qed.

(* ------------------------------------------------------------------------------------------ *)
(* equality of types *)

Lemma contains_all_spec a b : contains_all a b = true <-> (forall s, In s b -> In s a).
Proof.
  unfold contains_all. rewrite forallb_forall. split; intros H s Hs.
  - apply H in Hs. apply existsb_exists in Hs. destruct Hs as (v & Hv & E).
    apply str_eqb_eq in E. subst. assumption.
  - apply existsb_exists. exists s. split; [auto|apply str_eqb_refl].
Qed.
Lemma includes_all_str_spec a b : includes_all_str a b = true <-> (forall v, In v a -> In v b).
Proof.
  unfold includes_all_str. rewrite forallb_forall. split; intros H s Hs.
  - apply H in Hs. apply existsb_exists in Hs. destruct Hs as (v & Hv & E).
    apply str_eqb_eq in E. subst. assumption.
  - apply existsb_exists. exists s. split; [auto|apply str_eqb_refl].
Qed.

Lemma ty_eqb_is_any a b : ty_eqb a b = true -> is_any a = is_any b /\ is_unit a = is_unit b.
Proof.
  intros H. destruct a, b; cbn in H; try discriminate H; try (apply nullary_eqb_eq in H; subst); auto.
Qed.

Lemma ty_eqb_un_special u a b : ty_eqb a b = true -> un_special u a = un_special u b.
Proof.
  intros H. destruct a; destruct b; cbn [ty_eqb] in H; try discriminate H; try (destruct u; reflexivity).
  apply str_eqb_eq in H. subst. reflexivity.
Qed.

Lemma kstr_not_kbool s b : k_str s <> k_bool b.
Proof. unfold k_str, k_bool. intros H. apply cons2_inj in H. destruct H as (_ & H & _). discriminate H. Qed.
Lemma kstr_not_tkey s t : k_str s <> tkey t.
Proof. unfold k_str, tkey, k_type. intros H. apply cons2_inj in H. destruct H as (_ & H & _). discriminate H. Qed.
Lemma kint_not_tkey z t : k_int z <> tkey t.
Proof. unfold k_int, tkey, k_type. intros H. apply cons2_inj in H. destruct H as (_ & H & _). discriminate H. Qed.
Lemma kint_not_kstr z s : k_int z <> k_str s.
Proof. unfold k_int, k_str. intros H. apply cons2_inj in H. destruct H as (_ & H & _). discriminate H. Qed.
Lemma kdefault_not_kstr s : k_default <> k_str s.
Proof. unfold k_default, k_str. intros H. apply cons2_inj in H. destruct H as (_ & H & _). discriminate H. Qed.

Lemma in_map_kstr vs s : forallb lenok vs = true -> lenok s = true -> (In (k_str s) (map k_str vs) <-> In s vs).
Proof.
  rewrite forallb_forall. intros Hvs Hs. rewrite in_map_iff. split.
  - intros (x & E & Hx). apply k_str_inj in E; [subst; assumption|auto|assumption].
  - intros H. exists s. auto.
Qed.
Lemma in_map_kregexp vs s : forallb lenok vs = true -> lenok s = true -> (In (k_regexp s) (map k_regexp vs) <-> In s vs).
Proof.
  rewrite forallb_forall. intros Hvs Hs. rewrite in_map_iff. split.
  - intros (x & E & Hx). apply k_regexp_inj in E; [subst; assumption|auto|assumption].
  - intros H. exists s. auto.
Qed.

Definition enum_keys (ci : bool) (vs : list str) : list (list N) :=
  map k_str vs ++ (if ci then [k_bool true] else []).

Lemma enum_keys_str ci vs s : In (k_str s) (enum_keys ci vs) <-> In (k_str s) (map k_str vs).
Proof.
  unfold enum_keys. rewrite in_app_iff. split; [|auto].
  intros [H|H]; [assumption|]. destruct ci; cbn in H; [|tauto].
  destruct H as [H|[]]. exfalso. eapply kstr_not_kbool. symmetry. eassumption.
Qed.
Lemma enum_keys_bool ci vs : In (k_bool true) (enum_keys ci vs) <-> ci = true.
Proof.
  unfold enum_keys. rewrite in_app_iff. split.
  - intros [H|H].
    + apply in_map_iff in H. destruct H as (x & E & _). exfalso. eapply kstr_not_kbool. eassumption.
    + destruct ci; [reflexivity|destruct H].
  - intros ->. right. cbn. auto.
Qed.

(* a.Equals(b) implies that neither holds a NaN bound *)
Lemma ty_eqb_clean a : forall b, ty_eqb a b = true -> clean_ty a = true /\ clean_ty b = true.
Proof.
  induction a as [n|v|lo hi|lo hi|lo hi|s|ci vs|rxs|s|lo hi|e lo hi IHe|k v lo hi IHk IHv|ts lo hi IH|ts IH|u x IHx]
    using ty_ind2; intros b H; destruct b; try (cbn [ty_eqb] in H; discriminate H); try (cbn; auto; fail).
  - cbn [ty_eqb] in H. bsplit. cbn. match goal with H1 : feq lo _ = true, H2 : feq hi _ = true |- _ => apply feq_true in H1, H2; destruct H1 as (? & ? & _), H2 as (? & ? & _) end.
    rewrite !andb_true_iff, !negb_true_iff. auto.
  - cbn [ty_eqb] in H. bsplit. cbn [clean_ty]. apply IHe. assumption.
  - cbn [ty_eqb] in H. bsplit. cbn [clean_ty]. rewrite !andb_true_iff.
    match goal with H1 : ty_eqb k _ = true, H2 : ty_eqb v _ = true |- _ => apply IHk in H1; apply IHv in H2 end. tauto.
  - rewrite ty_eqb_tuple in H. bsplit. cbn [clean_ty].
    match goal with Hl : Nat.eqb _ _ = true |- _ => apply Nat.eqb_eq in Hl; rename Hl into Hlen end.
    match goal with Hl : ty_eqb_list _ _ = true |- _ => apply ty_eqb_list_Forall2 in Hl; [rename Hl into HF|assumption] end.
    clear - IH HF. induction HF as [|x y xs ys Hxy HF IHF]; [auto|].
    inversion IH as [|? ? Hx IH']; subst. destruct (Hx _ Hxy) as [Hcx Hcy]. destruct (IHF IH') as [Hc1 Hc2].
    cbn. rewrite Hcx, Hcy. auto.
  - rewrite ty_eqb_variant in H. bsplit. cbn [clean_ty]. rewrite !forallb_forall in *. rewrite Forall_forall in IH.
    split; intros x Hx.
    + match goal with H1 : forall x, In x ts -> existsb _ _ = true |- _ => pose proof (H1 x Hx) as E end.
      apply existsb_exists in E. destruct E as (ov & _ & E). apply (IH x Hx) in E. tauto.
    + match goal with H1 : forall x, In x ts0 -> existsb _ _ = true |- _ => pose proof (H1 x Hx) as E end.
      apply existsb_exists in E. destruct E as (ov & Hov & E). apply (IH ov Hov) in E. tauto.
  - cbn [ty_eqb] in H. bsplit. cbn [clean_ty]. apply IHx. assumption.
Qed.

(* ------------------------------------------------------------------------------------------ *)
(* per constructor: equal parameter keys give equal types (premises = induction hypotheses) *)

Ltac zprops :=
  repeat match goal with
         | H : _ && _ = true |- _ => apply andb_true_iff in H; destruct H
         | H : (_ =? _) = true |- _ => apply Z.eqb_eq in H
         | H : (_ <? _) = true |- _ => apply Z.ltb_lt in H
         end.

Lemma size_opt_inj lo hi lo' hi' :
  in_int64 lo = true -> in_int64 hi = true -> in_int64 lo' = true -> in_int64 hi' = true ->
  (if sz_positive lo hi then [] else size_params lo hi) = (if sz_positive lo' hi' then [] else size_params lo' hi') ->
  lo = lo' /\ hi = hi'.
Proof.
  intros Hlo Hhi Hlo' Hhi'. destruct (sz_positive lo hi) eqn:E, (sz_positive lo' hi') eqn:E'; intros H.
  - unfold sz_positive in *. zprops. subst. auto.
  - unfold size_params in H. discriminate H.
  - unfold size_params in H. discriminate H.
  - apply size_params_inj; assumption.
Qed.

Lemma ty_eqb_TAny : ty_eqb TAny TAny = true. Proof. reflexivity. Qed.
Lemma ty_eqb_TUnit : ty_eqb TUnit TUnit = true. Proof. reflexivity. Qed.

Lemma arr_params_inj e lo hi e' lo' hi' :
  in_int64 lo = true -> in_int64 hi = true -> in_int64 lo' = true -> in_int64 hi' = true ->
  (tkey e = tkey e' -> ty_eqb e e' = true) ->
  tparams (TArray e lo hi) = tparams (TArray e' lo' hi') ->
  ty_eqb (TArray e lo hi) (TArray e' lo' hi') = true.
Proof.
  intros Hlo Hhi Hlo' Hhi' IH Hp. rewrite !arr_view in Hp.
  apply tk_size_split in Hp.
  2,3: match goal with |- Forall is_tk (if ?c then _ else _) => destruct c; repeat constructor; apply tkey_is_tk end.
  2,3: apply starts_int_if, size_params_starts_int.
  destruct Hp as [Hks Hsp].
  assert (lo = lo' /\ hi = hi') as [<- <-].
  { destruct (arr_show_size e lo hi) eqn:E, (arr_show_size e' lo' hi') eqn:E'.
    - apply size_params_inj; assumption.
    - unfold size_params in Hsp. discriminate Hsp.
    - unfold size_params in Hsp. discriminate Hsp.
    - unfold arr_show_size in E, E'. apply orb_false_iff in E, E'. destruct E as [_ E], E' as [_ E'].
      apply negb_false_iff in E, E'. unfold sz_positive in *. zprops. subst. auto. }
  cbn [ty_eqb]. rewrite !Z.eqb_refl. cbn [andb].
  destruct (arr_show_elem e lo hi) eqn:E, (arr_show_elem e' lo hi) eqn:E'; try discriminate Hks.
  - lsplit Hks. auto.
  - unfold arr_show_elem in E, E'. destruct (sz_zero lo hi).
    + rewrite !andb_true_r, !orb_true_r, !andb_true_r in E, E'. apply negb_false_iff in E, E'.
      apply is_unit_eq in E, E'. subst. reflexivity.
    + rewrite !andb_false_r, !orb_false_r in E, E'. cbn [negb andb] in E, E'. apply negb_false_iff in E, E'.
      apply is_any_eq in E, E'. subst. reflexivity.
Qed.

Definition hash_c1 k v lo hi := is_any k && is_any v && sz_positive lo hi.
Definition hash_c2 k v lo hi := is_unit k && is_unit v && sz_zero lo hi.
Lemma hash_view k v lo hi :
  tparams (THash k v lo hi) =
  (if negb (hash_c1 k v lo hi) && negb (hash_c2 k v lo hi) then [tkey k; tkey v] else [])
  ++ (if hash_c1 k v lo hi then [] else if hash_c2 k v lo hi then [k_int 0; k_int 0]
      else if sz_positive lo hi then [] else size_params lo hi).
Proof.
  cbn [tparams]. unfold hash_c1, hash_c2, tkey.
  destruct (is_any k && is_any v && sz_positive lo hi); [reflexivity|].
  destruct (is_unit k && is_unit v && sz_zero lo hi); reflexivity.
Qed.

Lemma hash_params_inj k v lo hi k' v' lo' hi' :
  in_int64 lo = true -> in_int64 hi = true -> in_int64 lo' = true -> in_int64 hi' = true ->
  (tkey k = tkey k' -> ty_eqb k k' = true) -> (tkey v = tkey v' -> ty_eqb v v' = true) ->
  tparams (THash k v lo hi) = tparams (THash k' v' lo' hi') ->
  ty_eqb (THash k v lo hi) (THash k' v' lo' hi') = true.
Proof.
  intros Hlo Hhi Hlo' Hhi' IHk IHv Hp. rewrite !hash_view in Hp.
  apply tk_size_split in Hp.
  2,3: match goal with |- Forall is_tk (if ?c then _ else _) => destruct c; repeat constructor; apply tkey_is_tk end.
  2,3: repeat match goal with |- starts_int (if ?c then _ else _) => destruct c end;
       first [exact I | (unfold starts_int, size_params, k_int; eexists; reflexivity)].
  destruct Hp as [Hks Hsp]. cbn [ty_eqb].
  destruct (hash_c1 k v lo hi) eqn:C1, (hash_c2 k v lo hi) eqn:C2, (hash_c1 k' v' lo' hi') eqn:C1', (hash_c2 k' v' lo' hi') eqn:C2';
    cbn [negb andb] in Hks; try discriminate Hks; try discriminate Hsp;
    try (unfold size_params in Hsp; destruct (sz_positive lo hi); discriminate Hsp);
    try (unfold size_params in Hsp; destruct (sz_positive lo' hi'); discriminate Hsp).
  1-4: unfold hash_c1, sz_positive in C1, C1'; zprops;
       repeat match goal with H : is_any _ = true |- _ => apply is_any_eq in H end; subst; reflexivity.
  - unfold hash_c2, sz_zero in C2, C2'. zprops.
    repeat match goal with H : is_unit _ = true |- _ => apply is_unit_eq in H end. subst. reflexivity.
  - lsplit Hks. lsplit Hks.
    destruct (size_opt_inj lo hi lo' hi' Hlo Hhi Hlo' Hhi' Hsp) as [<- <-].
    rewrite !Z.eqb_refl, IHk, IHv by assumption. reflexivity.
Qed.

Lemma map_tkey_Forall2 ts ts' : map tkey ts = map tkey ts' -> Forall2 (fun x y => tkey x = tkey y) ts ts'.
Proof.
  revert ts'; induction ts as [|x ts IH]; intros [|y ts'] H; cbn [map] in H; try discriminate H.
  - constructor.
  - lsplit H. constructor; auto.
Qed.

Lemma tuple_view ts lo hi :
  tparams (TTuple ts lo hi) =
  map tkey ts ++ (if ((Z.of_nat (length ts) =? 0) && sz_positive lo hi)
                     || ((0 <? Z.of_nat (length ts)) && (lo =? Z.of_nat (length ts)) && (hi =? Z.of_nat (length ts)))
                  then [] else size_params lo hi).
Proof. reflexivity. Qed.

Lemma tuple_params_inj ts lo hi ts' lo' hi' :
  in_int64 lo = true -> in_int64 hi = true -> in_int64 lo' = true -> in_int64 hi' = true ->
  Forall (fun x => forall y, In y ts' -> tkey x = tkey y -> ty_eqb x y = true) ts ->
  tparams (TTuple ts lo hi) = tparams (TTuple ts' lo' hi') ->
  ty_eqb (TTuple ts lo hi) (TTuple ts' lo' hi') = true.
Proof.
  intros Hlo Hhi Hlo' Hhi' IH Hp. rewrite !tuple_view in Hp.
  apply tk_size_split in Hp; [|apply Forall_map_tkey|apply Forall_map_tkey
                              |apply starts_int_if', size_params_starts_int|apply starts_int_if', size_params_starts_int].
  destruct Hp as [Hks Hsp].
  assert (length ts = length ts') as Hlen by (rewrite <- (map_length tkey ts), Hks, map_length; reflexivity).
  rewrite <- Hlen in Hsp.
  assert (lo = lo' /\ hi = hi') as [<- <-].
  { set (top := Z.of_nat (length ts)) in *.
    destruct ((top =? 0) && sz_positive lo hi || (0 <? top) && (lo =? top) && (hi =? top)) eqn:E,
             ((top =? 0) && sz_positive lo' hi' || (0 <? top) && (lo' =? top) && (hi' =? top)) eqn:E'.
    - unfold sz_positive in *. apply orb_true_iff in E, E'. destruct E as [E|E], E' as [E'|E']; zprops; subst; try lia; auto.
    - unfold size_params in Hsp. discriminate Hsp.
    - unfold size_params in Hsp. discriminate Hsp.
    - apply size_params_inj; assumption. }
  rewrite ty_eqb_tuple, Hlen, Nat.eqb_refl, !Z.eqb_refl. cbn [andb].
  apply ty_eqb_list_Forall2; [assumption|].
  apply map_tkey_Forall2 in Hks. clear - IH Hks.
  induction Hks as [|x y xs ys Hxy HF IHF]; [constructor|].
  inversion IH as [|? ? Hx IH']; subst. constructor.
  - apply Hx; [left; reflexivity|assumption].
  - apply IHF. eapply Forall_impl; [|exact IH']. cbn. intros a Ha z Hz. apply Ha. right. assumption.
Qed.

Lemma un_params_inj u x x' :
  wf_ty x = true -> wf_ty x' = true ->
  (tkey x = tkey x' -> ty_eqb x x' = true) ->
  tparams (TUn u x) = tparams (TUn u x') -> ty_eqb (TUn u x) (TUn u x') = true.
Proof.
  intros Hw Hw' IH Hp. rewrite !un_view in Hp. cbn [ty_eqb].
  replace (unary_eqb u u) with true by (symmetry; apply unary_eqb_eq; reflexivity). cbn [andb].
  destruct (is_any x) eqn:A, (is_any x') eqn:A'.
  - apply is_any_eq in A, A'. subst. reflexivity.
  - destruct (un_special u x'); discriminate Hp.
  - destruct (un_special u x); discriminate Hp.
  - destruct (un_special u x) as [s|] eqn:S, (un_special u x') as [s'|] eqn:S'.
    + apply un_special_some in S, S'. subst. cbn [wf_ty] in Hw, Hw'. lsplit Hp.
      apply k_str_inj in Hhd; [|assumption|assumption]. subst. cbn. apply str_eqb_refl.
    + lsplit Hp. exfalso. eapply kstr_not_tkey. eassumption.
    + lsplit Hp. exfalso. eapply kstr_not_tkey. symmetry. eassumption.
    + lsplit Hp. auto.
Qed.

(* ------------------------------------------------------------------------------------------ *)
(* the main theorem about types *)

Definition TyGood (a : ty) : Prop :=
  forall b, wf_ty a = true -> wf_ty b = true ->
    (ty_eqb a b = true -> tkey a = tkey b) /\
    (clean_ty a = true -> clean_ty b = true -> tkey a = tkey b -> ty_eqb a b = true).

Lemma wf_strsz_not_full lo hi : wf_ty (TStringSz lo hi) = true -> int_params lo hi <> [].
Proof.
  cbn [wf_ty]. intros H E. apply int_params_nil in E. destruct E as [-> ->]. bsplit.
  match goal with H : negb _ = true |- _ => vm_compute in H; discriminate H end.
Qed.

Lemma strsz_not_strval lo hi s : int_params lo hi <> [k_str s].
Proof.
  unfold int_params. destruct (lo =? min_int64), (hi =? max_int64); intros H; try discriminate H;
    lsplit H; eapply kint_not_kstr; eassumption.
Qed.

Theorem ty_good a : TyGood a.
Proof.
  induction a as [n|v|lo hi|lo hi|lo hi|s|ci vs|rxs|s|lo hi|e lo hi IHe|k v lo hi IHk IHv|ts lo hi IH|ts IH|u x IHx]
    using ty_ind2; intros b Hwa Hwb;
    (split; [intros He | intros Hca Hcb Hk; destruct (tkey_parts _ _ Hwa Hwb Hk) as [Hc Hp]; clear Hk]).
  - (* nullary *)
    destruct b; cbn [ty_eqb] in He; try discriminate He. apply nullary_eqb_eq in He. subst. reflexivity.
  - destruct n, b as [[]| | | | | | | | | | | | | |[] ?]; cbn [ncls] in Hc; try discriminate Hc; try reflexivity.
    + exfalso. cbn [tparams] in Hp. symmetry in Hp. revert Hp. apply wf_strsz_not_full. assumption.
    + cbn [tparams] in Hp. discriminate Hp.
  - (* Boolean *)
    destruct b; cbn [ty_eqb] in He; try discriminate He. apply option_bool_eqb_eq in He. subst. reflexivity.
  - destruct b as [[]| | | | | | | | | | | | | |[] ?]; cbn [ncls] in Hc; try discriminate Hc.
    destruct v as [[]|], v0 as [[]|]; cbn in Hp; try discriminate Hp; reflexivity.
  - (* Integer *)
    destruct b; cbn [ty_eqb] in He; try discriminate He. zprops. subst. reflexivity.
  - destruct b as [[]| | | | | | | | | | | | | |[] ?]; cbn [ncls] in Hc; try discriminate Hc.
    cbn [tparams] in Hp. cbn [wf_ty] in Hwa, Hwb. bsplit.
    apply int_params_inj in Hp; try assumption. destruct Hp as [<- <-]. cbn. rewrite !Z.eqb_refl. reflexivity.
  - (* Float *)
    destruct b; cbn [ty_eqb] in He; try discriminate He. bsplit. unfold tkey. cbn [tname tparams].
    erewrite float_params_feq; [reflexivity|eassumption|eassumption].
  - destruct b as [[]| | | | | | | | | | | | | |[] ?]; cbn [ncls] in Hc; try discriminate Hc.
    cbn [tparams] in Hp. cbn [wf_ty clean_ty] in *. bsplit.
    apply float_params_inj in Hp; try assumption. destruct Hp as [E1 E2].
    cbn [ty_eqb]. apply andb_true_iff. split; apply feq_true;
      repeat match goal with H : negb _ = true |- _ => apply negb_true_iff in H end; auto.
  - (* String[size] *)
    destruct b; cbn [ty_eqb] in He; try discriminate He. zprops. subst. reflexivity.
  - destruct b as [[]| | | | | | | | | | | | | |[] ?]; cbn [ncls] in Hc; try discriminate Hc; cbn [tparams] in Hp.
    + exfalso. revert Hp. apply wf_strsz_not_full. assumption.
    + pose proof Hwa as Hwa'. pose proof Hwb as Hwb'. cbn [wf_ty] in Hwa', Hwb'. bsplit.
      apply int_params_inj in Hp; try assumption. destruct Hp as [<- <-]. cbn. rewrite !Z.eqb_refl. reflexivity.
    + exfalso. revert Hp. apply strsz_not_strval.
  - (* String[value] *)
    destruct b; cbn [ty_eqb] in He; try discriminate He. apply str_eqb_eq in He. subst. reflexivity.
  - destruct b as [[]| | | | | | | | | | | | | |[] ?]; cbn [ncls] in Hc; try discriminate Hc; cbn [tparams] in Hp.
    + discriminate Hp.
    + exfalso. symmetry in Hp. revert Hp. apply strsz_not_strval.
    + lsplit Hp. cbn [wf_ty] in Hwa, Hwb. apply k_str_inj in Hhd; try assumption. subst. cbn. apply str_eqb_refl.
  - (* Enum *)
    destruct b as [| | | | | |ci' vs'| | | | | | | |]; cbn [ty_eqb] in He; try discriminate He. bsplit.
    match goal with H : Bool.eqb _ _ = true |- _ => apply eqb_prop in H; subst ci' end.
    repeat match goal with H : contains_all _ _ = true |- _ => rewrite contains_all_spec in H end.
    unfold tkey. cbn [tname tparams]. f_equal. apply sort_dedup_ext. intros z.
    rewrite !in_app_iff, !in_map_iff.
    split; (intros [(x & E & Hx)|Hb]; [left; exists x; split; auto|right; assumption]).
  - destruct b as [[]| | | | | |ci' vs'| | | | | | | |[] ?]; cbn [ncls] in Hc; try discriminate Hc.
    cbn [tparams] in Hp. fold (enum_keys ci vs) in Hp. fold (enum_keys ci' vs') in Hp.
    rewrite sort_dedup_eq_iff in Hp. cbn [wf_ty] in Hwa, Hwb. cbn [ty_eqb].
    assert (ci = ci') as <-.
    { destruct ci, ci'; try reflexivity.
      - apply (proj2 (enum_keys_bool true vs)) in Hca. apply Hp in Hca. apply enum_keys_bool in Hca. discriminate Hca.
      - apply (proj2 (enum_keys_bool true vs')) in Hcb. apply Hp in Hcb. apply enum_keys_bool in Hcb. discriminate Hcb. }
    rewrite eqb_reflx. cbn [andb]. apply andb_true_iff. split; apply contains_all_spec; intros s Hs.
    + assert (lenok s = true) as Hl by (rewrite forallb_forall in Hwb; auto).
      apply (in_map_kstr vs s Hwa Hl). apply (enum_keys_str ci). apply Hp. apply enum_keys_str.
      apply (in_map_kstr vs' s Hwb Hl). assumption.
    + assert (lenok s = true) as Hl by (rewrite forallb_forall in Hwa; auto).
      apply (in_map_kstr vs' s Hwb Hl). apply (enum_keys_str ci). apply Hp. apply enum_keys_str.
      apply (in_map_kstr vs s Hwa Hl). assumption.
  - (* Pattern *)
    destruct b as [| | | | | | |rxs'| | | | | | |]; cbn [ty_eqb] in He; try discriminate He. bsplit.
    repeat match goal with H : includes_all_str _ _ = true |- _ => rewrite includes_all_str_spec in H end.
    unfold tkey. cbn [tname tparams]. f_equal. apply sort_dedup_ext. intros z.
    rewrite !in_map_iff. split; intros (x & E & Hx); exists x; auto.
  - destruct b as [[]| | | | | | |rxs'| | | | | | |[] ?]; cbn [ncls] in Hc; try discriminate Hc.
    cbn [tparams] in Hp. rewrite sort_dedup_eq_iff in Hp. cbn [wf_ty] in Hwa, Hwb. cbn [ty_eqb].
    apply andb_true_iff. split; apply includes_all_str_spec; intros s Hs.
    + assert (lenok s = true) as Hl by (rewrite forallb_forall in Hwa; auto).
      apply (in_map_kregexp rxs' s Hwb Hl). apply Hp. apply (in_map_kregexp rxs s Hwa Hl). assumption.
    + assert (lenok s = true) as Hl by (rewrite forallb_forall in Hwb; auto).
      apply (in_map_kregexp rxs s Hwa Hl). apply Hp. apply (in_map_kregexp rxs' s Hwb Hl). assumption.
  - (* Regexp *)
    destruct b; cbn [ty_eqb] in He; try discriminate He. apply str_eqb_eq in He. subst. reflexivity.
  - destruct b as [[]| | | | | | | |s'| | | | | |[] ?]; cbn [ncls] in Hc; try discriminate Hc.
    cbn [wf_ty] in Hwa, Hwb. destruct s, s'; cbn [tparams] in Hp; try discriminate Hp; [reflexivity|].
    lsplit Hp. apply k_regexp_inj in Hhd; try assumption. rewrite Hhd. cbn [ty_eqb]. apply str_eqb_refl.
  - (* Collection *)
    destruct b; cbn [ty_eqb] in He; try discriminate He. zprops. subst. reflexivity.
  - destruct b as [[]| | | | | | | | | | | | | |[] ?]; cbn [ncls] in Hc; try discriminate Hc.
    cbn [tparams] in Hp. cbn [wf_ty] in Hwa, Hwb. bsplit.
    apply size_opt_inj in Hp; try assumption. destruct Hp as [<- <-]. cbn. rewrite !Z.eqb_refl. reflexivity.
  - (* Array *)
    destruct b as [| | | | | | | | | |e' lo' hi'| | | |]; cbn [ty_eqb] in He; try discriminate He.
    cbn [wf_ty] in Hwa, Hwb. zprops. subst lo' hi'.
    match goal with H : ty_eqb e e' = true |- _ => rename H into Hee end.
    destruct (ty_eqb_is_any _ _ Hee) as [Ha Hu].
    assert (tkey e = tkey e') as Hke by (apply (IHe e'); assumption).
    unfold tkey. cbn [tname]. f_equal. rewrite !arr_view. unfold arr_show_elem, arr_show_size.
    rewrite Ha, Hu, Hke. reflexivity.
  - destruct b as [[]| | | | | | | | | |e' lo' hi'| | | |[] ?]; cbn [ncls] in Hc; try discriminate Hc.
    cbn [wf_ty clean_ty] in *. bsplit. apply arr_params_inj; try assumption.
    intros Hke. apply (IHe e'); assumption.
  - (* Hash *)
    destruct b as [| | | | | | | | | | |k' v' lo' hi'| | |]; cbn [ty_eqb] in He; try discriminate He.
    cbn [wf_ty] in Hwa, Hwb. zprops. subst lo' hi'.
    match goal with H1 : ty_eqb k k' = true, H2 : ty_eqb v v' = true |- _ => rename H1 into Hkk; rename H2 into Hvv end.
    destruct (ty_eqb_is_any _ _ Hkk) as [Hak Huk]. destruct (ty_eqb_is_any _ _ Hvv) as [Hav Huv].
    assert (tkey k = tkey k') as Hkey_k by (apply (IHk k'); assumption).
    assert (tkey v = tkey v') as Hkey_v by (apply (IHv v'); assumption).
    unfold tkey. cbn [tname]. f_equal. rewrite !hash_view. unfold hash_c1, hash_c2.
    rewrite Hak, Huk, Hav, Huv, Hkey_k, Hkey_v. reflexivity.
  - destruct b as [[]| | | | | | | | | | |k' v' lo' hi'| | |[] ?]; cbn [ncls] in Hc; try discriminate Hc.
    cbn [wf_ty clean_ty] in *. bsplit. apply hash_params_inj; try assumption.
    + intros Hke. apply (IHk k'); assumption.
    + intros Hke. apply (IHv v'); assumption.
  - (* Tuple *)
    destruct b as [| | | | | | | | | | | |ts' lo' hi'| |]; try (cbn [ty_eqb] in He; discriminate He).
    rewrite ty_eqb_tuple in He. cbn [wf_ty] in Hwa, Hwb. zprops. subst lo' hi'.
    match goal with H : Nat.eqb _ _ = true |- _ => apply Nat.eqb_eq in H; rename H into Hlen end.
    match goal with H : ty_eqb_list _ _ = true |- _ => apply ty_eqb_list_Forall2 in H; [rename H into HF|assumption] end.
    assert (map tkey ts = map tkey ts') as Hm.
    { repeat match goal with H : forallb wf_ty _ = true |- _ => rewrite forallb_Forall in H end.
      match goal with H1 : Forall _ ts, H2 : Forall _ ts' |- _ => revert H1 H2 end. clear - IH HF.
      induction HF as [|x y xs ys Hxy HF IHF]; intros Hw1 Hw2; [reflexivity|].
      inversion IH; inversion Hw1; inversion Hw2; subst. cbn [map]. f_equal.
      - match goal with H : TyGood x |- _ => apply (H y) end; assumption.
      - apply IHF; assumption. }
    unfold tkey. cbn [tname]. f_equal. rewrite !tuple_view, Hm, Hlen. reflexivity.
  - destruct b as [[]| | | | | | | | | | | |ts' lo' hi'| |[] ?]; cbn [ncls] in Hc; try discriminate Hc.
    cbn [wf_ty clean_ty] in *. bsplit. apply tuple_params_inj; try assumption.
    repeat match goal with H : forallb _ _ = true |- _ => rewrite forallb_forall in H end.
    rewrite Forall_forall in *. intros x Hx y Hy Hke. apply (IH x Hx y); auto.
  - (* Variant *)
    destruct b as [| | | | | | | | | | | | |ts'|]; try (cbn [ty_eqb] in He; discriminate He).
    rewrite ty_eqb_variant in He. cbn [wf_ty] in Hwa, Hwb. bsplit.
    repeat match goal with H : forallb _ _ = true |- _ => rewrite forallb_forall in H end.
    rewrite Forall_forall in IH.
    unfold tkey. cbn [tname tparams]. f_equal. apply sort_dedup_ext. intros z.
    change (fun x : ty => k_type (tname x) (tparams x)) with tkey.
    rewrite !in_map_iff. split; intros (x & <- & Hx).
    + match goal with H1 : forall x, In x ts -> existsb _ ts' = true |- _ => pose proof (H1 x Hx) as E end.
      apply existsb_exists in E. destruct E as (ov & Hov & E). exists ov. split; [|assumption].
      symmetry. apply (IH x Hx ov); auto.
    + match goal with H1 : forall x, In x ts' -> existsb _ ts = true |- _ => pose proof (H1 x Hx) as E end.
      apply existsb_exists in E. destruct E as (ov & Hov & E). exists ov. split; [|assumption].
      apply (IH ov Hov x); auto.
  - destruct b as [[]| | | | | | | | | | | | |ts'|[] ?]; cbn [ncls] in Hc; try discriminate Hc.
    cbn [tparams] in Hp. change (fun x : ty => k_type (tname x) (tparams x)) with tkey in Hp.
    rewrite sort_dedup_eq_iff in Hp. cbn [wf_ty clean_ty] in *.
    repeat match goal with H : forallb _ _ = true |- _ => rewrite forallb_forall in H end.
    rewrite Forall_forall in IH. rewrite ty_eqb_variant. apply andb_true_iff.
    split; apply forallb_forall; intros x Hx; apply existsb_exists.
    + assert (In (tkey x) (map tkey ts')) as Hin by (apply Hp; apply in_map; assumption).
      apply in_map_iff in Hin. destruct Hin as (ov & E & Hov). exists ov. split; [assumption|].
      apply (IH x Hx ov); auto.
    + assert (In (tkey x) (map tkey ts)) as Hin by (apply Hp; apply in_map; assumption).
      apply in_map_iff in Hin. destruct Hin as (ov & E & Hov). exists ov. split; [assumption|].
      apply (IH ov Hov x); auto.
  - (* Optional, NotUndef, Type, Sensitive, Iterable *)
    destruct b as [| | | | | | | | | | | | | |u' x']; cbn [ty_eqb] in He; try discriminate He. bsplit.
    match goal with H : unary_eqb _ _ = true |- _ => apply unary_eqb_eq in H; subst u' end.
    match goal with H : ty_eqb x x' = true |- _ => rename H into Hxx end.
    cbn [wf_ty] in Hwa, Hwb.
    destruct (ty_eqb_is_any _ _ Hxx) as [Ha _]. pose proof (ty_eqb_un_special u _ _ Hxx) as Hs.
    assert (tkey x = tkey x') as Hke by (apply (IHx x'); assumption).
    unfold tkey. replace (tname (TUn u x')) with (tname (TUn u x)) by (destruct u; reflexivity).
    f_equal. rewrite !un_view, Ha, Hs, Hke. reflexivity.
  - destruct b as [[]| | | | | | | | | | | | | |u' x']; try (destruct u; cbn [ncls] in Hc; discriminate Hc).
    assert (u = u') as <- by (destruct u, u'; cbn [ncls] in Hc; try discriminate Hc; reflexivity).
    cbn [wf_ty clean_ty] in *. apply un_params_inj; try assumption.
    intros Hke. apply (IHx x'); assumption.
Qed.

Corollary ty_eqb_key a b : wf_ty a = true -> wf_ty b = true -> ty_eqb a b = true -> tkey a = tkey b.
Proof. intros Ha Hb. apply (ty_good a b Ha Hb). Qed.

Corollary ty_key_eqb a b : wf_ty a = true -> wf_ty b = true -> clean_ty a = true -> clean_ty b = true ->
  tkey a = tkey b -> ty_eqb a b = true.
Proof. intros Ha Hb. apply (ty_good a b Ha Hb). Qed.
