(* C13 - a file based loader whose SmartPath serves several namespaces (Model/ConcNs.v): whatever the number of
   threads, the namespaces through which they ask and the schedule, a file is instantiated at most once.  The lock
   table is keyed by the name of the FIRST namespace, the mark is stored under that name before the lock is released for
   the first time, and the table entry is deleted only by threads that have seen the mark: while the name of the first
   namespace has no entry, every thread on its way into the instantiation of that file uses one and the same mutex. *)
From Coq Require Import NArith Arith Bool List Lia.
From PcoreV Require Import Model.ConcNs.
Import ListNotations.

Definition pcof (st : nstate) (t : ntid) : npc := nt_pc (ns_thr st t).

Definition nholds (p : npc) : option nlockid :=
  match p with NLocked _ _ lk | NChecked _ _ lk | NMarked _ _ lk => Some lk | _ => None end.
Definition waits_b (p : npc) : option (N * nlockid) :=
  match p with NBeforeLock _ b lk | NLocked _ b lk | NChecked _ b lk => Some (b, lk) | _ => None end.
Definition checked_b (p : npc) : option N := match p with NChecked _ b _ => Some b | _ => None end.
Definition marked_b (p : npc) : option N := match p with NMarked _ b _ => Some b | _ => None end.
Definition unlocked_b (p : npc) : option N := match p with NUnlocked _ b _ _ => Some b | _ => None end.
Definition bset0_b (p : npc) : option N := match p with NBeforeSet 0 b => Some b | _ => None end.

Record ninv (c : ncfg) (st : nstate) : Prop := mkNInv {
  i_held : forall t lk, nholds (pcof st t) = Some lk -> nheld (ns_sh st) lk = Some t;
  i_lk : forall t b lk, nents (ns_sh st) 0 b = None -> waits_b (pcof st t) = Some (b, lk) ->
                        nlockmap (ns_sh st) 0 b = Some lk;
  i_file : forall t b lk, waits_b (pcof st t) = Some (b, lk) -> has_file c b = true;
  i_chk : forall t b, checked_b (pcof st t) = Some b -> nents (ns_sh st) 0 b = None;
  i_none : forall b, nents (ns_sh st) 0 b = None ->
                     nsparse b (ns_log st) = 0 /\
                     (forall t, marked_b (pcof st t) <> Some b) /\ (forall t, unlocked_b (pcof st t) <> Some b);
  i_mk1 : forall t1 t2 b, marked_b (pcof st t1) = Some b -> marked_b (pcof st t2) = Some b -> t1 = t2;
  i_mk0 : forall t b, marked_b (pcof st t) = Some b -> nsparse b (ns_log st) = 0;
  i_once : forall b, nsparse b (ns_log st) <= 1;
  i_bset : forall t b, bset0_b (pcof st t) = Some b -> has_file c b = true -> nents (ns_sh st) 0 b <> None
}.

(* ---- small facts ------------------------------------------------------------------------------------------ *)

Lemma nupd1_same : forall A (f : nat -> A) k a, nupd1 f k a k = a.
Proof. intros. unfold nupd1. now rewrite Nat.eqb_refl. Qed.
Lemma nupd1_other : forall A (f : nat -> A) k a k', k' <> k -> nupd1 f k a k' = f k'.
Proof. intros A f k a k' H. unfold nupd1. destruct (Nat.eqb k' k) eqn:E; [apply Nat.eqb_eq in E; contradiction|reflexivity]. Qed.

Lemma nupd2_same : forall A (f : nsid -> N -> A) s b a, nupd2 f s b a s b = a.
Proof. intros. unfold nupd2. now rewrite Nat.eqb_refl, N.eqb_refl. Qed.
Lemma nupd2_other_b : forall A (f : nsid -> N -> A) s b a s' b', b' <> b -> nupd2 f s b a s' b' = f s' b'.
Proof.
  intros A f s b a s' b' H. unfold nupd2. destruct (N.eqb b' b) eqn:E; [apply N.eqb_eq in E; contradiction|].
  now rewrite andb_false_r.
Qed.
Lemma nupd2_mono : forall (f : nsid -> N -> option nentry) s b e s' b',
  nupd2 f s b (Some e) s' b' = None -> f s' b' = None.
Proof. intros f s b e s' b'. unfold nupd2. destruct (Nat.eqb s' s && N.eqb b' b); [discriminate|auto]. Qed.

Lemma pcof_upd : forall sh thr log t th t0,
  pcof (mkNSt sh (nupd1 thr t th) log) t0 = if Nat.eqb t0 t then nt_pc th else nt_pc (thr t0).
Proof. intros. unfold pcof, nupd1. cbn [ns_thr]. destruct (Nat.eqb t0 t); reflexivity. Qed.

Lemma nsparse_app : forall b l1 l2, nsparse b (l1 ++ l2) = nsparse b l1 + nsparse b l2.
Proof.
  intros b l1 l2. induction l1 as [|e l1 IH]; cbn [app nsparse]; [reflexivity|].
  destruct e; rewrite IH; lia.
Qed.
Lemma nsparse_res : forall b l t o r, nsparse b (l ++ [NvRes t o r]) = nsparse b l.
Proof. intros. rewrite nsparse_app. cbn. lia. Qed.
Lemma nsparse_nil : forall b l, nsparse b (l ++ []) = nsparse b l.
Proof. intros. now rewrite app_nil_r. Qed.
Lemma nsparse_parse_same : forall b l t, nsparse b (l ++ [NvParse t b]) = S (nsparse b l).
Proof. intros. rewrite nsparse_app. cbn. rewrite N.eqb_refl. lia. Qed.
Lemma nsparse_parse_other : forall b b' l t, b <> b' -> nsparse b (l ++ [NvParse t b']) = nsparse b l.
Proof.
  intros b b' l t H. rewrite nsparse_app. cbn. destruct (N.eqb b' b) eqn:E; [apply N.eqb_eq in E; congruence|lia].
Qed.

(* nset_hole only adds an entry *)
Lemma nset_hole_mono : forall sh s b s' b', nents (nset_hole sh s b) s' b' = None -> nents sh s' b' = None.
Proof.
  intros sh s b s' b'. unfold nset_hole. destruct (nents sh s b); [auto|].
  cbn [nset_ents nents]. apply nupd2_mono.
Qed.
Lemma nset_hole_other : forall sh s b s' b', b' <> b -> nents (nset_hole sh s b) s' b' = nents sh s' b'.
Proof.
  intros sh s b s' b' H. unfold nset_hole. destruct (nents sh s b); [reflexivity|].
  cbn [nset_ents nents]. now apply nupd2_other_b.
Qed.
Lemma nset_hole_bound : forall sh s b, nents (nset_hole sh s b) s b <> None.
Proof.
  intros sh s b. unfold nset_hole. destruct (nents sh s b) eqn:E; [congruence|].
  cbn [nset_ents nents]. rewrite nupd2_same. discriminate.
Qed.
Lemma nset_hole_rest : forall sh s b,
  nlockmap (nset_hole sh s b) = nlockmap sh /\ nheld (nset_hole sh s b) = nheld sh /\ nnext (nset_hole sh s b) = nnext sh.
Proof. intros sh s b. unfold nset_hole. destruct (nents sh s b); cbn; auto. Qed.

(* the instantiator only adds entries, and only for the names of its file *)
Lemma bind_from_facts : forall count sh b k s sh' ok,
  bind_from sh b k s count = (sh', ok) ->
  nlockmap sh' = nlockmap sh /\ nheld sh' = nheld sh /\ nnext sh' = nnext sh /\
  (forall s' b', nents sh' s' b' = None -> nents sh s' b' = None) /\
  (forall s' b', b' <> b -> nents sh' s' b' = nents sh s' b').
Proof.
  induction count as [|count IH]; intros sh b k s sh' ok H; cbn [bind_from] in H.
  - injection H as <- <-. repeat split; auto.
  - destruct (nents sh s b) as [[v|]|] eqn:E.
    + injection H as <- <-. repeat split; auto.
    + apply IH in H. destruct H as (H1 & H2 & H3 & H4 & H5). cbn [nset_ents nlockmap nheld nnext nents] in *.
      repeat split; auto.
      * intros s' b' Hn. apply H4 in Hn. now apply nupd2_mono in Hn.
      * intros s' b' Hne. rewrite H5 by exact Hne. now apply nupd2_other_b.
    + apply IH in H. destruct H as (H1 & H2 & H3 & H4 & H5). cbn [nset_ents nlockmap nheld nnext nents] in *.
      repeat split; auto.
      * intros s' b' Hn. apply H4 in Hn. now apply nupd2_mono in Hn.
      * intros s' b' Hne. rewrite H5 by exact Hne. now apply nupd2_other_b.
Qed.

Lemma ninv_init : forall c p, ninv c (ninit p).
Proof.
  intros c p. constructor; unfold pcof; cbn; intros; try discriminate; auto.
  repeat split; intros; discriminate.
Qed.

(* ---- one thread moves: what has to be shown about the others, and about the place it moves to -------------- *)

Lemma ninv_move : forall c st t p' todo sh' log',
  ninv c st ->
  (forall s b, nents sh' s b = None -> nents (ns_sh st) s b = None) ->
  (forall t0 lk0, t0 <> t -> nholds (pcof st t0) = Some lk0 -> nheld sh' lk0 = Some t0) ->
  (forall t0 b0 lk0, t0 <> t -> nents sh' 0 b0 = None -> waits_b (pcof st t0) = Some (b0, lk0) ->
                     nlockmap sh' 0 b0 = Some lk0) ->
  (forall t0 b0, t0 <> t -> checked_b (pcof st t0) = Some b0 -> nents sh' 0 b0 = None) ->
  (forall b0, nsparse b0 log' = nsparse b0 (ns_log st) \/
              (marked_b (pcof st t) = Some b0 /\ nsparse b0 log' = S (nsparse b0 (ns_log st)))) ->
  (forall lk, nholds p' = Some lk -> nheld sh' lk = Some t) ->
  (forall b lk, waits_b p' = Some (b, lk) ->
                has_file c b = true /\ (nents sh' 0 b = None -> nlockmap sh' 0 b = Some lk)) ->
  (forall b, checked_b p' = Some b -> nents sh' 0 b = None) ->
  (forall b, marked_b p' = Some b -> nents (ns_sh st) 0 b = None /\ nents sh' 0 b <> None) ->
  (forall b, unlocked_b p' = Some b -> nents sh' 0 b <> None) ->
  (forall b, bset0_b p' = Some b -> has_file c b = true -> nents sh' 0 b <> None) ->
  ninv c (mkNSt sh' (nupd1 (ns_thr st) t (mkNT p' todo)) log').
Proof.
  intros c st t p' todo sh' log' H He Hheld Hlm Hchk Hlog Hh Hw Hc Hm Hu Hb.
  assert (Hpc : forall t0, pcof (mkNSt sh' (nupd1 (ns_thr st) t (mkNT p' todo)) log') t0 =
                           if Nat.eqb t0 t then p' else pcof st t0).
  { intros t0. rewrite pcof_upd. reflexivity. }
  constructor; cbn [ns_sh ns_log].
  - intros t0 lk Hx. rewrite Hpc in Hx. destruct (Nat.eqb_spec t0 t) as [Heq|Hne]; [subst t0|]; [now apply Hh | now apply Hheld].
  - intros t0 b lk Hn Hx. rewrite Hpc in Hx. destruct (Nat.eqb_spec t0 t) as [Heq|Hne]; [subst t0|].
    + now apply (Hw b lk Hx).
    + now apply (Hlm t0 b lk).
  - intros t0 b lk Hx. rewrite Hpc in Hx. destruct (Nat.eqb_spec t0 t) as [Heq|Hne]; [subst t0|].
    + now apply (Hw b lk Hx).
    + exact (i_file c st H t0 b lk Hx).
  - intros t0 b Hx. rewrite Hpc in Hx. destruct (Nat.eqb_spec t0 t) as [Heq|Hne]; [subst t0|]; [now apply Hc | now apply (Hchk t0)].
  - intros b Hn. pose proof (He 0 b Hn) as Hn0. destruct (i_none c st H b Hn0) as (Hp & Hmk & Hul).
    split; [|split].
    + destruct (Hlog b) as [->|[Hx _]]; [exact Hp | exfalso; exact (Hmk t Hx)].
    + intros t0 Hx. rewrite Hpc in Hx. destruct (Nat.eqb_spec t0 t) as [Heq|Hne]; [subst t0|].
      * destruct (Hm b Hx) as [_ Hy]. contradiction.
      * exact (Hmk t0 Hx).
    + intros t0 Hx. rewrite Hpc in Hx. destruct (Nat.eqb_spec t0 t) as [Heq|Hne]; [subst t0|].
      * exact (Hu b Hx Hn).
      * exact (Hul t0 Hx).
  - intros t1 t2 b H1 H2. rewrite Hpc in H1, H2.
    destruct (Nat.eqb_spec t1 t) as [->|Hne1], (Nat.eqb_spec t2 t) as [->|Hne2]; try reflexivity.
    + destruct (Hm b H1) as [Hn _]. destruct (i_none c st H b Hn) as (_ & Hmk & _). exfalso. exact (Hmk t2 H2).
    + destruct (Hm b H2) as [Hn _]. destruct (i_none c st H b Hn) as (_ & Hmk & _). exfalso. exact (Hmk t1 H1).
    + exact (i_mk1 c st H t1 t2 b H1 H2).
  - intros t0 b Hx. rewrite Hpc in Hx. destruct (Nat.eqb_spec t0 t) as [Heq|Hne]; [subst t0|].
    + destruct (Hm b Hx) as [Hn _]. destruct (i_none c st H b Hn) as (Hp & Hmk & _).
      destruct (Hlog b) as [->|[Hy _]]; [exact Hp | exfalso; exact (Hmk t Hy)].
    + pose proof (i_mk0 c st H t0 b Hx) as Hp.
      destruct (Hlog b) as [->|[Hy _]]; [exact Hp|].
      exfalso. apply Hne. exact (i_mk1 c st H t0 t b Hx Hy).
  - intros b. pose proof (i_once c st H b) as Hp.
    destruct (Hlog b) as [->|[Hy ->]]; [exact Hp|]. rewrite (i_mk0 c st H t b Hy). lia.
  - intros t0 b Hx Hf. rewrite Hpc in Hx. destruct (Nat.eqb_spec t0 t) as [Heq|Hne]; [subst t0|].
    + now apply Hb.
    + intros Hn. exact (i_bset c st H t0 b Hx Hf (He 0 b Hn)).
Qed.

(* the same when the shared state does not change *)
Lemma ninv_move_same : forall c st t p' todo log',
  ninv c st ->
  (forall b0, nsparse b0 log' = nsparse b0 (ns_log st)) ->
  (forall lk, nholds p' = Some lk -> nheld (ns_sh st) lk = Some t) ->
  (forall b lk, waits_b p' = Some (b, lk) ->
                has_file c b = true /\ (nents (ns_sh st) 0 b = None -> nlockmap (ns_sh st) 0 b = Some lk)) ->
  (forall b, checked_b p' = Some b -> nents (ns_sh st) 0 b = None) ->
  marked_b p' = None ->
  (forall b, unlocked_b p' = Some b -> nents (ns_sh st) 0 b <> None) ->
  (forall b, bset0_b p' = Some b -> has_file c b = true -> nents (ns_sh st) 0 b <> None) ->
  ninv c (mkNSt (ns_sh st) (nupd1 (ns_thr st) t (mkNT p' todo)) log').
Proof.
  intros c st t p' todo log' H Hlog Hh Hw Hc Hm Hu Hb.
  apply ninv_move; auto.
  - intros t0 lk0 _ Hx. exact (i_held c st H t0 lk0 Hx).
  - intros t0 b0 lk0 _ Hn Hx. exact (i_lk c st H t0 b0 lk0 Hn Hx).
  - intros t0 b0 _ Hx. exact (i_chk c st H t0 b0 Hx).
  - intros b Hx. rewrite Hm in Hx. discriminate.
Qed.

(* ---- every step of the code (KeyMapped) keeps the invariant ---------------------------------------------------- *)

Lemma nfinish_plain : forall t s b e, exists r, nfinish t s b e = (NIdle, [NvRes t (NLoad s b) r]).
Proof. intros t s b e. destruct e; unfold nfinish, nfin; eauto. Qed.

Lemma ninv_step : forall c st t, ninv c st -> ninv c (nstep KeyMapped c st t).
Proof.
  intros c st t H. unfold nstep.
  assert (Hpcof : pcof st t = nt_pc (ns_thr st t)) by reflexivity.
  destruct (nt_pc (ns_thr st t)) as [|s b|s b|s b|s b lk|s b lk|s b lk|s b lk|s b lk r] eqn:Hpc.
  - (* NIdle: the next operation starts *)
    destruct (nt_todo (ns_thr st t)) as [|o todo]; [exact H|].
    destruct o as [s b|s b]; cbn [nstart nfin].
    + apply ninv_move_same; cbn; auto; try discriminate. intros b0. now rewrite nsparse_nil.
    + apply ninv_move_same; cbn; auto; try discriminate. intros b0. now rewrite nsparse_res.
  - (* NBetween *)
    cbn [nseg]. destruct (nget (ns_sh st) s b) eqn:Hg.
    + apply ninv_move_same; cbn; auto; try discriminate. intros b0. now rewrite nsparse_nil.
    + destruct (nfinish_plain t s b NdHole) as [r ->].
      apply ninv_move_same; cbn; auto; try discriminate. intros b0. now rewrite nsparse_res.
    + destruct (nfinish_plain t s b (NdVal k)) as [r ->].
      apply ninv_move_same; cbn; auto; try discriminate. intros b0. now rewrite nsparse_res.
  - (* NBeforeFind *)
    cbn [nseg lock_ns]. destruct (Nat.leb s (n_extra c) && has_file c b) eqn:Hf.
    + apply andb_true_iff in Hf. destruct Hf as [_ Hf].
      destruct (nlockmap (ns_sh st) 0 b) as [lk|] eqn:Hlm.
      * apply ninv_move_same; cbn; auto; try discriminate.
        -- intros b0. now rewrite nsparse_nil.
        -- intros b0 lk0 Hx. injection Hx as <- <-. auto.
      * (* a new mutex *)
        apply ninv_move; cbn [nbump nset_lockmap nents nheld nlockmap nnext]; auto; try discriminate.
        -- intros t0 lk0 _ Hx. exact (i_held c st H t0 lk0 Hx).
        -- intros t0 b0 lk0 _ Hn Hx. pose proof (i_lk c st H t0 b0 lk0 Hn Hx) as Hy.
           destruct (N.eq_dec b0 b) as [->|Hne]; [congruence|]. now rewrite nupd2_other_b.
        -- intros t0 b0 _ Hx. exact (i_chk c st H t0 b0 Hx).
        -- intros b0. left. now rewrite nsparse_nil.
        -- intros b0 lk0 Hx. cbn in Hx. injection Hx as <- <-. split; [exact Hf|]. intros _. now rewrite nupd2_same.
    + apply ninv_move_same; cbn; auto; try discriminate.
      * intros b0. now rewrite nsparse_nil.
      * intros b0 Hx Hf0. destruct s; [|discriminate]. injection Hx as <-. cbn in Hf. congruence.
  - (* NBeforeSet: the miss is cached *)
    cbn [nseg]. destruct (nfinish_plain t s b NdHole) as [r ->].
    destruct (nset_hole_rest (ns_sh st) s b) as (Hr1 & Hr2 & Hr3).
    apply ninv_move; cbn; auto; try discriminate.
    + intros s0 b0. apply nset_hole_mono.
    + intros t0 lk0 _ Hx. rewrite Hr2. exact (i_held c st H t0 lk0 Hx).
    + intros t0 b0 lk0 _ Hn Hx. rewrite Hr1. apply nset_hole_mono in Hn. exact (i_lk c st H t0 b0 lk0 Hn Hx).
    + intros t0 b0 Hne Hx. pose proof (i_chk c st H t0 b0 Hx) as Hn.
      destruct (N.eq_dec b0 b) as [->|Hnb]; [|now rewrite nset_hole_other].
      destruct s as [|s'].
      * (* the name of the first namespace of a file that somebody is about to mark: excluded by i_bset *)
        exfalso. destruct (pcof st t0) eqn:Hp0; try discriminate. cbn in Hx. injection Hx as ->.
        assert (Hw : waits_b (pcof st t0) = Some (b, lk)) by now rewrite Hp0.
        apply (i_bset c st H t b); [now rewrite Hpcof | exact (i_file c st H t0 b lk Hw) | exact Hn].
      * unfold nset_hole. destruct (nents (ns_sh st) (S s') b); [exact Hn|].
        cbn [nset_ents nents]. unfold nupd2. cbn. exact Hn.
    + intros b0. left. now rewrite nsparse_res.
  - (* NBeforeLock *)
    cbn [nseg]. destruct (nheld (ns_sh st) lk) eqn:Hh; [exact H|].
    apply ninv_move; cbn [nset_held nents nheld nlockmap nnext]; auto; try discriminate.
    + intros t0 lk0 Hne Hx. pose proof (i_held c st H t0 lk0 Hx) as Hy.
      destruct (Nat.eq_dec lk0 lk) as [->|Hnl]; [congruence|]. now rewrite nupd1_other.
    + intros t0 b0 lk0 _ Hn Hx. exact (i_lk c st H t0 b0 lk0 Hn Hx).
    + intros t0 b0 _ Hx. exact (i_chk c st H t0 b0 Hx).
    + intros b0. left. now rewrite nsparse_nil.
    + intros lk0 Hx. cbn in Hx. injection Hx as <-. now rewrite nupd1_same.
    + intros b0 lk0 Hx. cbn in Hx. injection Hx as <- <-.
      assert (Hw : waits_b (pcof st t) = Some (b, lk)) by now rewrite Hpcof.
      split; [exact (i_file c st H t b lk Hw)|]. intros Hn. exact (i_lk c st H t b lk Hn Hw).
  - (* NLocked *)
    cbn [nseg].
    assert (Hw : waits_b (pcof st t) = Some (b, lk)) by now rewrite Hpcof.
    assert (Hho : nholds (pcof st t) = Some lk) by now rewrite Hpcof.
    destruct (nget (ns_sh st) 0 b) eqn:Hg.
    + (* nothing under the name of the first namespace *)
      assert (Hn : nents (ns_sh st) 0 b = None).
      { unfold nget in Hg. destruct (nents (ns_sh st) 0 b) as [[?|]|]; [discriminate|discriminate|reflexivity]. }
      apply ninv_move_same; cbn; auto; try discriminate.
      * intros b0. now rewrite nsparse_nil.
      * intros lk0 Hx. injection Hx as <-. exact (i_held c st H t lk Hho).
      * intros b0 lk0 Hx. injection Hx as <- <-. split; [exact (i_file c st H t b lk Hw)|].
        intros Hn0. exact (i_lk c st H t b lk Hn0 Hw).
      * intros b0 Hx. injection Hx as <-. exact Hn.
    + (* marked or bound: hand out the entry of the requested name *)
      assert (Hnn : nents (ns_sh st) 0 b <> None).
      { unfold nget in Hg. destruct (nents (ns_sh st) 0 b); [discriminate|discriminate]. }
      apply ninv_move; cbn [nset_held nents nheld nlockmap nnext]; auto; try discriminate.
      * intros t0 lk0 Hne Hx. pose proof (i_held c st H t0 lk0 Hx) as Hy.
        destruct (Nat.eq_dec lk0 lk) as [->|Hnl]; [|now rewrite nupd1_other].
        pose proof (i_held c st H t lk Hho). congruence.
      * intros t0 b0 lk0 _ Hn Hx. exact (i_lk c st H t0 b0 lk0 Hn Hx).
      * intros t0 b0 _ Hx. exact (i_chk c st H t0 b0 Hx).
      * intros b0. left. now rewrite nsparse_nil.
      * intros b0 Hx. cbn in Hx. injection Hx as <-. exact Hnn.
    + assert (Hnn : nents (ns_sh st) 0 b <> None).
      { unfold nget in Hg. destruct (nents (ns_sh st) 0 b); [discriminate|discriminate]. }
      apply ninv_move; cbn [nset_held nents nheld nlockmap nnext]; auto; try discriminate.
      * intros t0 lk0 Hne Hx. pose proof (i_held c st H t0 lk0 Hx) as Hy.
        destruct (Nat.eq_dec lk0 lk) as [->|Hnl]; [|now rewrite nupd1_other].
        pose proof (i_held c st H t lk Hho). congruence.
      * intros t0 b0 lk0 _ Hn Hx. exact (i_lk c st H t0 b0 lk0 Hn Hx).
      * intros t0 b0 _ Hx. exact (i_chk c st H t0 b0 Hx).
      * intros b0. left. now rewrite nsparse_nil.
      * intros b0 Hx. cbn in Hx. injection Hx as <-. exact Hnn.
  - (* NChecked: the mark *)
    cbn [nseg].
    assert (Hw : waits_b (pcof st t) = Some (b, lk)) by now rewrite Hpcof.
    assert (Hho : nholds (pcof st t) = Some lk) by now rewrite Hpcof.
    assert (Hck : checked_b (pcof st t) = Some b) by now rewrite Hpcof.
    pose proof (i_chk c st H t b Hck) as Hn.
    destruct (nset_hole_rest (ns_sh st) 0 b) as (Hr1 & Hr2 & Hr3).
    apply ninv_move; cbn; auto; try discriminate.
    + intros s0 b0. apply nset_hole_mono.
    + intros t0 lk0 _ Hx. rewrite Hr2. exact (i_held c st H t0 lk0 Hx).
    + intros t0 b0 lk0 _ Hn0 Hx. rewrite Hr1. apply nset_hole_mono in Hn0. exact (i_lk c st H t0 b0 lk0 Hn0 Hx).
    + intros t0 b0 Hne Hx. pose proof (i_chk c st H t0 b0 Hx) as Hn0.
      destruct (N.eq_dec b0 b) as [->|Hnb]; [|now rewrite nset_hole_other].
      (* two threads that have both seen 'nothing' hold one and the same mutex *)
      exfalso. destruct (pcof st t0) eqn:Hp0; try discriminate. cbn in Hx. injection Hx as ->.
      assert (Hw0 : waits_b (pcof st t0) = Some (b, lk0)) by now rewrite Hp0.
      assert (Hho0 : nholds (pcof st t0) = Some lk0) by now rewrite Hp0.
      pose proof (i_lk c st H t b lk Hn Hw) as E1. pose proof (i_lk c st H t0 b lk0 Hn Hw0) as E2.
      assert (lk0 = lk) as -> by congruence.
      pose proof (i_held c st H t lk Hho) as E3. pose proof (i_held c st H t0 lk Hho0) as E4. congruence.
    + intros b0. left. now rewrite nsparse_nil.
    + intros lk0 Hx. injection Hx as <-. rewrite Hr2. exact (i_held c st H t lk Hho).
    + intros b0 Hx. injection Hx as <-. split; [exact Hn | apply nset_hole_bound].
  - (* NMarked: the instantiator *)
    cbn [nseg].
    assert (Hho : nholds (pcof st t) = Some lk) by now rewrite Hpcof.
    assert (Hmk : marked_b (pcof st t) = Some b) by now rewrite Hpcof.
    assert (Hnn : nents (ns_sh st) 0 b <> None).
    { intros Hn. destruct (i_none c st H b Hn) as (_ & Hx & _). exact (Hx t Hmk). }
    assert (Hlogb : forall b0, nsparse b0 (ns_log st ++ [NvParse t b]) = nsparse b0 (ns_log st) \/
                              marked_b (pcof st t) = Some b0 /\ nsparse b0 (ns_log st ++ [NvParse t b]) = S (nsparse b0 (ns_log st))).
    { intros b0. destruct (N.eq_dec b0 b) as [->|Hnb]; [right; split; [exact Hmk | apply nsparse_parse_same] | left; now apply nsparse_parse_other]. }
    assert (Hothers : forall sh1,
      nlockmap sh1 = nlockmap (ns_sh st) -> nheld sh1 = nheld (ns_sh st) ->
      (forall s' b', nents sh1 s' b' = None -> nents (ns_sh st) s' b' = None) ->
      (forall s' b', b' <> b -> nents sh1 s' b' = nents (ns_sh st) s' b') ->
      forall r, ninv c (mkNSt (nset_held sh1 lk None) (nupd1 (ns_thr st) t (mkNT (NUnlocked s b lk r) (nt_todo (ns_thr st t))))
                              (ns_log st ++ [NvParse t b]))).
    { intros sh1 E1 E2 Emono Eother r.
      apply ninv_move; cbn [nset_held nents nheld nlockmap nnext]; auto; try discriminate.
      - intros t0 lk0 Hne Hx. pose proof (i_held c st H t0 lk0 Hx) as Hy. rewrite E2.
        destruct (Nat.eq_dec lk0 lk) as [->|Hnl]; [|now rewrite nupd1_other].
        pose proof (i_held c st H t lk Hho). congruence.
      - intros t0 b0 lk0 _ Hn Hx. rewrite E1. apply Emono in Hn. exact (i_lk c st H t0 b0 lk0 Hn Hx).
      - intros t0 b0 Hne Hx. pose proof (i_chk c st H t0 b0 Hx) as Hn0.
        destruct (N.eq_dec b0 b) as [->|Hnb]; [contradiction|]. now rewrite Eother.
      - intros b0 Hx. cbn in Hx. injection Hx as <-. intros Hn. apply Emono in Hn. contradiction. }
    destruct (is_bad c b).
    + apply Hothers; auto.
    + unfold bind_all. destruct (bind_from (ns_sh st) b (nsparse b (ns_log st)) 0 (S (n_extra c))) as [sh1 ok] eqn:Hb.
      apply bind_from_facts in Hb. destruct Hb as (E1 & E2 & E3 & E4 & E5).
      destruct ok; apply Hothers; auto.
  - (* NUnlocked: the mutex leaves the table *)
    cbn [nseg lock_ns].
    assert (Hul : unlocked_b (pcof st t) = Some b) by now rewrite Hpcof.
    assert (Hnn : nents (ns_sh st) 0 b <> None).
    { intros Hn. destruct (i_none c st H b Hn) as (_ & _ & Hx). exact (Hx t Hul). }
    assert (Hgen : forall p' evs, (forall b0, nsparse b0 (ns_log st ++ evs) = nsparse b0 (ns_log st)) ->
              nholds p' = None -> waits_b p' = None -> checked_b p' = None -> marked_b p' = None -> unlocked_b p' = None ->
              (forall b0, bset0_b p' = Some b0 -> b0 = b) ->
              ninv c (mkNSt (nset_lockmap (ns_sh st) 0 b None) (nupd1 (ns_thr st) t (mkNT p' (nt_todo (ns_thr st t)))) (ns_log st ++ evs))).
    { intros p' evs Hlog Q1 Q2 Q3 Q4 Q5 Q6.
      apply ninv_move; cbn [nset_lockmap nents nheld nlockmap nnext]; auto.
      - intros t0 lk0 _ Hx. exact (i_held c st H t0 lk0 Hx).
      - intros t0 b0 lk0 _ Hn Hx. destruct (N.eq_dec b0 b) as [->|Hnb]; [contradiction|].
        rewrite nupd2_other_b by exact Hnb. exact (i_lk c st H t0 b0 lk0 Hn Hx).
      - intros t0 b0 _ Hx. exact (i_chk c st H t0 b0 Hx).
      - intros lk0 Hx. congruence.
      - intros b0 lk0 Hx. congruence.
      - intros b0 Hx. congruence.
      - intros b0 Hx. congruence.
      - intros b0 Hx. congruence.
      - intros b0 Hx _. apply Q6 in Hx. subst b0. exact Hnn. }
    destruct r as [e|].
    + destruct e.
      * apply Hgen; cbn; auto. intros b0. now rewrite nsparse_nil.
        intros b0 Hx. destruct s; [injection Hx as <-; reflexivity | discriminate].
      * destruct (nfinish_plain t s b NdHole) as [r ->]. apply Hgen; cbn; auto; try discriminate.
        intros b0. now rewrite nsparse_res.
      * destruct (nfinish_plain t s b (NdVal k)) as [r ->]. apply Hgen; cbn; auto; try discriminate.
        intros b0. now rewrite nsparse_res.
    + cbn [nfin]. apply Hgen; cbn; auto; try discriminate. intros b0. now rewrite nsparse_res.
Qed.

Lemma ninv_exec : forall c p s, ninv c (nexec KeyMapped c p s).
Proof.
  intros c p s. unfold nexec. generalize (ninv_init c p). generalize (ninit p).
  induction s as [|t s IH]; intros st H; cbn [fold_left]; [exact H|].
  apply IH. apply ninv_step. exact H.
Qed.

(* a file is instantiated at most once, through whichever namespaces and in whichever order it is asked for *)
Lemma ns_instantiate_once : forall c p s b, nsparse b (ntrace KeyMapped c p s) <= 1.
Proof. intros c p s b. unfold ntrace. apply (i_once c _ (ninv_exec c p s)). Qed.

(* whoever nholds a name mutex is a thread inside the critical section of instantiate *)
Lemma ns_lock_holder : forall c p s t lk, nholds (pcof (nexec KeyMapped c p s) t) = Some lk ->
  nheld (ns_sh (nexec KeyMapped c p s)) lk = Some t.
Proof. intros c p s. apply (i_held c _ (ninv_exec c p s)). Qed.

(* the lock table keyed by the requested name (C13-m8): step/Na and definition/Na instantiate one file twice *)
Definition cfg_one : ncfg := mkNC [0%N] [] 2.
Lemma key_requested_refuted :
  nsparse 0%N (ntrace KeyRequested cfg_one [[NLoad 0 0%N]; [NLoad 1 0%N]] [0;0;0;0;0; 1;1;1;1;1; 0;0;0; 1;1;1]) = 2.
Proof. vm_compute. reflexivity. Qed.

(* ... and a load through the second namespace that meets the mark does not wait for it: "not found" *)
Lemma key_requested_not_found :
  nresults_of 1 (ntrace KeyRequested cfg_one [[NLoad 0 0%N]; [NLoad 1 0%N]] [0;0;0;0;0;0; 1;1;1;1;1;1;1; 0;0]) = [NFound None] /\
  nresults_of 1 (ntrace KeyMapped cfg_one [[NLoad 0 0%N]; [NLoad 1 0%N]] [0;0;0;0;0;0; 1;1;1;1;1;1;1; 0;0; 1;1;1;1]) = [NFound (Some 0)].
Proof. vm_compute. split; reflexivity. Qed.
