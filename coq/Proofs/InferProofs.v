(* InferProofs.v — C04: inferred types contain their values; generalisation and the common type are bounds.
   Part 1: basic facts, `infer_detailed_inst`, `generalize_ub`. *)
From Coq Require Import ZArith NArith Bool List Lia.
From PcoreV Require Import Model.Base Model.Ty Model.Lattice Model.Infer Proofs.LatticeUnfold Proofs.LatticeBasics.
Import ListNotations.
Open Scope Z_scope.

(* ---------------------------------------------------------------------------------------------- *)
(* structural equality decides Leibniz equality *)

Lemma str_eqb_list_eq a b : str_eqb_list a b = true -> a = b.
Proof.
  revert b; induction a as [|x a IH]; intros [|y b] H; cbn in H; try discriminate; [reflexivity|].
  apply andb_true_iff in H. destruct H as [H1 H2]. apply str_eqb_eq in H1. subst. f_equal. auto.
Qed.

Lemma str_eqb_list_refl a : str_eqb_list a a = true.
Proof. induction a as [|x a IH]; cbn; [reflexivity|]. now rewrite str_eqb_refl, IH. Qed.

Definition tlist_eqb := fix go (l l' : list ty) {struct l} : bool :=
  match l, l' with
  | [], [] => true
  | x :: r, y :: r' => ty_eqb x y && go r r'
  | _, _ => false
  end.
Definition mlist_eqb := fix go (l l' : list (str * (ty * ty))) {struct l} : bool :=
  match l, l' with
  | [], [] => true
  | (n, (k, v)) :: r, (n', (k', v')) :: r' => str_eqb n n' && ty_eqb k k' && ty_eqb v v' && go r r'
  | _, _ => false
  end.

Ltac split_andb H :=
  repeat match type of H with
         | (_ && _) = true => let H1 := fresh H in apply andb_true_iff in H; destruct H as [H H1]
         end.

(* destruct every conjunction among the hypotheses and turn boolean equalities into Leibniz ones *)
Ltac bools :=
  repeat match goal with
         | H : (_ && _) = true |- _ => apply andb_true_iff in H; destruct H
         end;
  repeat match goal with
         | H : (_ =? _) = true |- _ => apply Z.eqb_eq in H
         | H : str_eqb _ _ = true |- _ => apply str_eqb_eq in H
         | H : str_eqb_list _ _ = true |- _ => apply str_eqb_list_eq in H
         | H : Bool.eqb _ _ = true |- _ => apply eqb_prop in H
         | IH : forall b, ty_eqb ?a b = true -> ?a = b, H : ty_eqb ?a _ = true |- _ => apply IH in H
         end.

Lemma ty_eqb_eq : forall a b, ty_eqb a b = true -> a = b.
Proof.
  induction a using ty_ind'; intros b Hb; destruct b; cbn [ty_eqb] in Hb; try discriminate; try reflexivity.
  - destruct v, v0; cbn in Hb; try discriminate; try reflexivity. apply eqb_prop in Hb. now subst.
  - bools. now subst.
  - bools. now subst.
  - bools. now subst.
  - bools. now subst.
  - bools. now subst.
  - bools. now subst.
  - bools. now subst.
  - bools. now subst.
  - bools. now subst.
  - bools. now subst.
  - change (tlist_eqb ts ts0 && Bool.eqb g given && (lo =? lo0) && (hi =? hi0) = true) in Hb.
    bools. subst. f_equal.
    match goal with Hl : tlist_eqb ts ts0 = true |- _ => revert ts0 Hl end.
    induction H as [|x ts Hx Hts IH]; intros [|y ts0] Hb; cbn in Hb; try discriminate; [reflexivity|].
    apply andb_true_iff in Hb. destruct Hb as [Hb1 Hb2]. f_equal; auto.
  - change (mlist_eqb ms ms0 = true) in Hb. f_equal.
    revert ms0 Hb. induction H as [|[n [k v]] ms Hx Hms IH]; intros [|[n' [k' v']] ms0] Hb; cbn in Hb; try discriminate; [reflexivity|].
    cbn in Hx. destruct Hx as [Hk Hv]. bools. subst. f_equal. auto.
  - change (tlist_eqb ts ts0 = true) in Hb. f_equal.
    revert ts0 Hb. induction H as [|x ts Hx Hts IH]; intros [|y ts0] Hb; cbn in Hb; try discriminate; [reflexivity|].
    apply andb_true_iff in Hb. destruct Hb as [Hb1 Hb2]. f_equal; auto.
  - f_equal; auto.
  - f_equal; auto.
  - f_equal; auto.
  - f_equal; auto.
  - bools. now subst.
Qed.

Lemma ty_eqb_refl : forall a, ty_eqb a a = true.
Proof.
  induction a using ty_ind'; cbn [ty_eqb]; try reflexivity;
    repeat rewrite Z.eqb_refl; repeat rewrite str_eqb_refl; repeat rewrite str_eqb_list_refl; repeat rewrite eqb_reflx;
    try reflexivity.
  - destruct v as [[|]|]; reflexivity.
  - now rewrite IHa.
  - now rewrite IHa1, IHa2.
  - rewrite !andb_true_r. induction H as [|x ts Hx Hts IH]; [reflexivity|]. now rewrite Hx, IH.
  - induction H as [|[n [k v]] ms Hx Hms IH]; [reflexivity|]. cbn in Hx. destruct Hx as [Hk Hv].
    now rewrite str_eqb_refl, Hk, Hv, IH.
  - induction H as [|x ts Hx Hts IH]; [reflexivity|]. now rewrite Hx, IH.
  - assumption.
  - assumption.
  - assumption.
  - assumption.
Qed.

(* ---------------------------------------------------------------------------------------------- *)
(* dedup: every element keeps a representative with the same hash key; `dedup_exact l`: the representative
   is even structurally equal (no two members are key-equal without being equal) *)

Definition dedup_exact (l : list ty) : bool := forallb (fun t => existsb (ty_eqb t) (udedup l)) l.

Lemma dedup_exact_in l t : dedup_exact l = true -> In t l -> In t (udedup l).
Proof.
  unfold dedup_exact. rewrite forallb_forall. intros H Ht. apply H in Ht.
  apply existsb_exists in Ht. destruct Ht as (u & Hu & He). apply ty_eqb_eq in He. now subst.
Qed.

Lemma udedup_from_incl seen l t : In t (udedup_from seen l) -> In t l.
Proof.
  revert seen; induction l as [|x l IH]; intros seen Ht; cbn in Ht; [destruct Ht|].
  destruct (existsb (fun s => tkeq s x) seen).
  - right. eapply IH. eassumption.
  - destruct Ht as [<-|Ht]; [left; reflexivity|right; eapply IH; eassumption].
Qed.

Lemma udedup_incl l t : In t (udedup l) -> In t l.
Proof.
  destruct l as [|x [|y l]]; cbn [udedup]; auto. apply udedup_from_incl.
Qed.

(* ---------------------------------------------------------------------------------------------- *)
(* one-level facts about asg *)

Section AsgFacts.
  Variable rx : str -> str -> bool.
  Variable hs : bool.
  Notation A := (asg rx hs).
  Notation R := (recv rx hs (asg rx hs)).

  Lemma asg_any_l b : A TAny b = true.
  Proof. rewrite asg_unfold. reflexivity. Qed.

  Lemma asg_unit_r a : A a TUnit = true.
  Proof. rewrite asg_unfold. unfold gstep. destruct (is_any a); reflexivity. Qed.

  Lemma asg_variant_r a ts : A a (TVariant ts) = is_any a || forallb (A a) ts.
  Proof. rewrite asg_unfold. unfold gstep. destruct (is_any a); reflexivity. Qed.

  Lemma asg_optional_r a t : A a (TOptional t) = is_any a || (Lattice.nullable a && A a t).
  Proof. rewrite asg_unfold. unfold gstep. destruct (is_any a); [reflexivity|]. cbn. destruct (Lattice.nullable a); reflexivity. Qed.

  Lemma asg_notundef_r a t :
    A a (TNotUndef t) = is_any a || (A a t || (Lattice.nullable t && R a (TNotUndef t))).
  Proof.
    rewrite asg_unfold. unfold gstep. destruct (is_any a); [reflexivity|]. cbn [orb].
    destruct (A a t); [reflexivity|]. cbn [orb]. destruct (Lattice.nullable t); reflexivity.
  Qed.

  (* b is not decomposed by GuardedIsAssignable *)
  Definition plain (b : ty) : bool :=
    match b with TUnit | TNotUndef _ | TOptional _ | TVariant _ => false | _ => true end.

  Lemma asg_plain a b : plain b = true -> A a b = is_any a || R a b.
  Proof. intros Hp. rewrite asg_unfold. unfold gstep. destruct (is_any a); [reflexivity|]. destruct b; try discriminate; reflexivity. Qed.

  Lemma is_any_false_recv a b : plain b = true -> R a b = true -> A a b = true.
  Proof. intros Hp Hr. rewrite asg_plain by assumption. rewrite Hr. apply orb_true_r. Qed.

  (* ---- introduction rules for the three wrappers on the left: by induction on the right operand ---- *)

  Lemma nullable_variant ts : Lattice.nullable (TVariant ts) = existsb Lattice.nullable ts.
  Proof. reflexivity. Qed.

  (* whoever is accepted by g and does not accept Undef is accepted by NotUndef[g] *)
  Lemma notundef_intro g : forall t, Lattice.nullable t = false -> A g t = true -> A (TNotUndef g) t = true.
  Proof.
    induction t using ty_ind'; intros Hn Ha; try discriminate Hn;
      try (apply is_any_false_recv; [reflexivity|]; cbn [recv]; rewrite Hn, Ha; reflexivity).
    - (* Variant *) rewrite asg_variant_r in Ha |- *. cbn [is_any orb].
      rewrite nullable_variant in Hn.
      assert (Hall : forall x, In x ts -> A g x = true).
      { intros x Hx. destruct (is_any g) eqn:Eg; [apply is_any_eq in Eg; subst; apply asg_any_l|].
        cbn in Ha. rewrite forallb_forall in Ha. auto. }
      apply forallb_forall. intros x Hx. rewrite Forall_forall in H. apply H; auto.
      destruct (Lattice.nullable x) eqn:Ex; [|reflexivity].
      assert (existsb Lattice.nullable ts = true) by (apply existsb_exists; eauto). congruence.
    - (* NotUndef *) rewrite asg_notundef_r in Ha |- *. cbn [is_any orb].
      destruct (Lattice.nullable t) eqn:Et.
      + (* recv (NotUndef g) (NotUndef t) = true && A g (NotUndef t) *)
        apply orb_true_iff. right. cbn [andb recv Lattice.nullable negb].
        rewrite asg_notundef_r, Et. exact Ha.
      + apply orb_true_iff. left. apply IHt; [reflexivity|].
        destruct (is_any g) eqn:Eg; [apply is_any_eq in Eg; subst; apply asg_any_l|].
        cbn [orb andb] in Ha. rewrite orb_false_r in Ha. exact Ha.
  Qed.

  (* whoever is accepted by g is accepted by Optional[g] *)
  Lemma optional_intro g : forall t, A g t = true -> A (TOptional g) t = true.
  Proof.
    induction t using ty_ind'; intros Ha;
      try (apply is_any_false_recv; [reflexivity|]; cbn [recv]; rewrite Ha; apply orb_true_r).
    - apply asg_unit_r.
    - (* Variant *) rewrite asg_variant_r in Ha |- *. cbn [is_any orb].
      apply forallb_forall. intros x Hx. rewrite Forall_forall in H. apply H; auto.
      destruct (is_any g) eqn:Eg; [apply is_any_eq in Eg; subst; apply asg_any_l|].
      cbn in Ha. rewrite forallb_forall in Ha. auto.
    - (* Optional *) rewrite asg_optional_r in Ha |- *. cbn [is_any orb Lattice.nullable andb].
      apply IHt. destruct (is_any g) eqn:Eg; [apply is_any_eq in Eg; subst; apply asg_any_l|].
      cbn in Ha. apply andb_true_iff in Ha. tauto.
    - (* NotUndef *) rewrite asg_notundef_r in Ha |- *. cbn [is_any orb].
      destruct (is_any g) eqn:Eg.
      + apply is_any_eq in Eg; subst. rewrite IHt by apply asg_any_l. reflexivity.
      + cbn [orb] in Ha. apply orb_true_iff in Ha. destruct Ha as [Ha|Ha].
        * rewrite IHt by assumption. reflexivity.
        * apply andb_true_iff in Ha. destruct Ha as [Hn Hr]. rewrite Hn. cbn [andb].
          apply orb_true_iff. right. cbn [recv].
          assert (Hg : A g (TNotUndef t) = true) by (rewrite asg_notundef_r, Eg, Hn, Hr; cbn; apply orb_true_r).
          rewrite Hg. apply orb_true_r.
  Qed.

  (* whoever is accepted by a member is accepted by the Variant *)
  Lemma variant_intro us u : In u us -> forall t, A u t = true -> A (TVariant us) t = true.
  Proof.
    intros Hu. induction t using ty_ind'; intros Ha;
      try (apply is_any_false_recv; [reflexivity|]; cbn [recv]; apply existsb_exists; exists u; split; assumption).
    - apply asg_unit_r.
    - (* Variant *) rewrite asg_variant_r in Ha |- *. cbn [is_any orb].
      apply forallb_forall. intros x Hx. rewrite Forall_forall in H. apply H; auto.
      destruct (is_any u) eqn:Eg; [apply is_any_eq in Eg; subst; apply asg_any_l|].
      cbn in Ha. rewrite forallb_forall in Ha. auto.
    - (* Optional *) rewrite asg_optional_r in Ha |- *. cbn [is_any orb].
      destruct (is_any u) eqn:Eg.
      + apply is_any_eq in Eg; subst.
        assert (Hn : Lattice.nullable (TVariant us) = true) by (rewrite nullable_variant; apply existsb_exists; exists TAny; auto).
        rewrite Hn. cbn [andb]. apply IHt. apply asg_any_l.
      + cbn [orb] in Ha. apply andb_true_iff in Ha. destruct Ha as [Hn Ha].
        assert (Hn' : Lattice.nullable (TVariant us) = true) by (rewrite nullable_variant; apply existsb_exists; exists u; auto).
        rewrite Hn'. cbn [andb]. auto.
    - (* NotUndef *) rewrite asg_notundef_r in Ha |- *. cbn [is_any orb].
      destruct (is_any u) eqn:Eg.
      + apply is_any_eq in Eg; subst. rewrite IHt by apply asg_any_l. reflexivity.
      + cbn [orb] in Ha. apply orb_true_iff in Ha. destruct Ha as [Ha|Ha].
        * rewrite IHt by assumption. reflexivity.
        * apply andb_true_iff in Ha. destruct Ha as [Hn Hr]. rewrite Hn. cbn [andb].
          apply orb_true_iff. right. cbn [recv]. apply existsb_exists. exists u. split; [assumption|].
          rewrite asg_notundef_r, Eg, Hn, Hr. cbn. apply orb_true_r.
  Qed.
End AsgFacts.

(* ---------------------------------------------------------------------------------------------- *)
(* generalize_ub: the generalisation of a type accepts that type *)

(* What the statement needs of the type (all guaranteed by the Go constructors for finite bounds):
   integer bounds are int64, float bounds are finite, sizes are non-negative int64, Struct member names are
   distinct, no constructor outside the model, and — `dedup_exact` — UniqueTypes drops from the generalised
   members of a Variant only structurally equal duplicates. *)
Fixpoint gen_ok (t : ty) : bool :=
  match t with
  | TInteger lo hi => (MinI <=? lo) && (hi <=? MaxI)
  | TFloat lo hi => (- MaxF <=? lo) && (hi <=? MaxF)
  | TCollection lo hi => (0 <=? lo) && (hi <=? MaxI)
  | TArray e lo hi => (0 <=? lo) && (hi <=? MaxI) && gen_ok e
  | THash k v lo hi => (0 <=? lo) && (hi <=? MaxI) && gen_ok k && gen_ok v
  | TTuple ts _ _ _ => forallb gen_ok ts
  | TStruct ms => distinct (map fst ms) && forallb (fun m => gen_ok (fst (snd m)) && gen_ok (snd (snd m))) ms
  | TVariant ts => forallb gen_ok ts && dedup_exact (map (gen true) ts)
  | TOptional t | TNotUndef t | TType t | TSensitive t => gen_ok t
  | TOther _ => false
  | _ => true
  end.

Lemma filter_all {A} (f : A -> bool) l : (forall x, In x l -> f x = true) -> filter f l = l.
Proof.
  induction l as [|x l IH]; intros H; [reflexivity|]. cbn. rewrite (H x) by (left; reflexivity).
  f_equal. apply IH. intros y Hy. apply H. right. assumption.
Qed.

Lemma mem_str_refl_all l : forallb (fun p => mem_str p l) l = true.
Proof.
  apply forallb_forall. intros p Hp. unfold mem_str. apply existsb_exists. exists p. split; [assumption|apply str_eqb_refl].
Qed.

Lemma find_member_distinct ms : distinct (map fst ms) = true ->
  forall n kv, In (n, kv) ms -> find_member n ms = Some kv.
Proof.
  induction ms as [|[n0 kv0] ms IH]; intros Hd n kv Hin; [destruct Hin|].
  cbn in Hd. apply andb_true_iff in Hd. destruct Hd as [Hn0 Hd]. cbn [find_member].
  destruct Hin as [He|Hin].
  - inversion He; subst. now rewrite str_eqb_refl.
  - destruct (str_eqb_spec n n0) as [->|Hne]; [|auto].
    exfalso. apply negb_true_iff in Hn0.
    assert (mem_str n0 (map fst ms) = true); [|congruence].
    unfold mem_str. apply existsb_exists. exists n0. split; [|apply str_eqb_refl].
    change n0 with (fst (n0, kv)). apply in_map. assumption.
Qed.

Section GenUb.
  Variable rx : str -> str -> bool.
  Variable hs : bool.
  Notation A := (asg rx hs).

  Lemma tpairs_map (f : ty -> ty) ts :
    Forall (fun t => A (f t) t = true) ts -> tpairs A (map f ts) ts = true.
  Proof.
    induction 1 as [|t r Ht Hr IH]; [reflexivity|]. destruct r as [|x r'].
    - cbn. now rewrite Ht.
    - change (A (f t) t && tpairs A (map f (x :: r')) (x :: r') = true). now rewrite Ht, IH.
  Qed.

  Ltac atom := apply is_any_false_recv; [reflexivity|]; cbn [recv gen is_undef]; try reflexivity.

  Theorem gen_ub : forall t d, gen_ok t = true -> A (gen d t) t = true.
  Proof.
    induction t using ty_ind'; intros d Hok; cbn [gen_ok] in Hok.
    - apply asg_any_l.
    - apply asg_unit_r.
    - atom.
    - atom.
    - atom.
    - (* Integer *) atom. unfold size_sub. exact Hok.
    - (* Float *) atom. unfold size_sub. exact Hok.
    - atom.
    - atom.
    - atom.
    - (* String *) destruct d; atom.
    - (* StringSz *) destruct d; atom. unfold size_sub. now rewrite !Z.leb_refl.
    - (* StringVal *) destruct d; atom. apply str_eqb_refl.
    - (* Enum *) atom.
    - (* Pattern *) destruct d; atom. destruct rxs as [|p rxs]; [reflexivity|].
      change (forallb (fun q => mem_str q (p :: rxs)) (p :: rxs) = true). apply mem_str_refl_all.
    - (* Regexp *) destruct d; atom. rewrite str_eqb_refl. apply orb_true_r.
    - atom.
    - (* Collection *) atom. unfold size_sub. exact Hok.
    - (* Array *) bools. cbn [gen]. destruct (is_any t) eqn:Ea.
      + atom. unfold size_sub. rewrite H, H1. cbn [andb]. rewrite asg_any_l. apply orb_true_r.
      + atom. unfold size_sub. rewrite H, H1. cbn [andb]. rewrite IHt by assumption. apply orb_true_r.
    - (* Hash *) bools. atom. unfold size_sub. rewrite H, H2. cbn [andb]. rewrite IHt1, IHt2 by assumption. apply orb_true_r.
    - (* Tuple *) atom. unfold size_sub. rewrite !Z.leb_refl. cbn [andb].
      destruct ts as [|t0 ts]; [reflexivity|]. set (l := t0 :: ts) in *.
      assert (Hp : tpairs A (map (gen true) l) l = true).
      { apply tpairs_map. rewrite forallb_forall in Hok. rewrite Forall_forall in H |- *. intros x Hx. apply H; auto. }
      subst l. cbn [map] in Hp |- *. rewrite Hp. apply orb_true_r.
    - (* Struct *) bools. atom.
      rewrite forallb_forall in H1. rewrite Forall_forall in H.
      assert (Hfind : forall m', In m' (map (fun m => match m with (n, (k, v)) => (n, (gen false k, gen false v)) end) ms) ->
                exists n k v, In (n, (k, v)) ms /\ m' = (n, (gen false k, gen false v)) /\ find_member n ms = Some (k, v)).
      { intros m' Hm'. apply in_map_iff in Hm'. destruct Hm' as ([n [k v]] & <- & Hin).
        exists n, k, v. repeat split; [assumption|]. apply find_member_distinct; assumption. }
      apply andb_true_iff. split.
      + apply forallb_forall. intros m' Hm'. destruct (Hfind m' Hm') as (n & k & v & Hin & -> & Hf).
        cbn [fst snd]. rewrite Hf. specialize (H _ Hin). specialize (H1 _ Hin). cbn [fst snd] in H, H1.
        destruct H as [Hk Hv]. apply andb_true_iff in H1. destruct H1 as [Hgk Hgv].
        now rewrite Hk, Hv.
      + rewrite filter_all.
        * unfold zlen. rewrite map_length. apply Z.eqb_refl.
        * intros m' Hm'. destruct (Hfind m' Hm') as (n & k & v & Hin & -> & Hf). cbn [fst]. now rewrite Hf.
    - (* Variant *) bools. cbn [gen]. rewrite asg_variant_r. cbn [is_any orb].
      apply forallb_forall. intros x Hx. rewrite forallb_forall in H0. rewrite Forall_forall in H.
      apply variant_intro with (u := gen true x).
      + apply dedup_exact_in; [assumption|]. apply in_map. assumption.
      + apply H; auto.
    - (* Optional *) cbn [gen]. rewrite asg_optional_r. cbn [is_any orb Lattice.nullable andb].
      apply optional_intro. apply IHt. assumption.
    - (* NotUndef *) cbn [gen]. rewrite asg_notundef_r. cbn [is_any orb].
      destruct (Lattice.nullable t) eqn:En.
      + apply orb_true_iff. right. cbn [andb recv Lattice.nullable negb].
        rewrite asg_notundef_r. rewrite IHt by assumption. cbn [orb]. apply orb_true_r.
      + apply orb_true_iff. left. apply notundef_intro; [assumption|]. apply IHt. assumption.
    - (* Type *) atom. apply IHt. assumption.
    - (* Sensitive *) atom. apply IHt. assumption.
    - discriminate.
  Qed.
End GenUb.

(* ---------------------------------------------------------------------------------------------- *)
(* infer_detailed_inst: every value is an instance of its detailed type *)

Definition walk (I : ty -> value -> bool) := fix walk (ts : list ty) (vs : list value) {struct ts} : bool :=
  match ts, vs with
  | [], _ => true
  | _, [] => true
  | [t], v :: vs' => I t v && forallb (I t) vs'
  | t :: ts', v :: vs' => I t v && walk ts' vs'
  end.

Lemma name_of_some k n : name_of k = Some n -> k = VStr n /\ n <> [].
Proof. destruct k; try discriminate. destruct s; [discriminate|]. intros H; inversion H; subst. split; congruence. Qed.

Lemma hash_get_distinct es : distinct_keys (map fst es) = true ->
  forall n x, In (VStr n, x) es -> hash_get (is_vstr n) es = Some x.
Proof.
  induction es as [|[k0 x0] es IH]; intros Hd n x Hin; [destruct Hin|].
  cbn [map fst distinct_keys] in Hd. apply andb_true_iff in Hd. destruct Hd as [Hk0 Hd]. cbn [hash_get].
  destruct Hin as [He|Hin].
  - inversion He; subst. cbn [is_vstr]. now rewrite str_eqb_refl.
  - destruct (is_vstr n k0) eqn:Ek; [|auto].
    exfalso. destruct k0; try discriminate. cbn [is_vstr] in Ek. apply str_eqb_eq in Ek. subst s.
    cbn [vstr_of] in Hk0. apply negb_true_iff in Hk0.
    assert (existsb (is_vstr n) (map fst es) = true); [|congruence].
    apply existsb_exists. exists (VStr n). split; [|cbn; apply str_eqb_refl].
    change (VStr n) with (fst (VStr n, x)). apply in_map. assumption.
Qed.

Section Detailed.
  Variable rx : str -> str -> bool.
  Notation A := (asg rx true).
  Notation I := (inst rx true).
  Notation D := (infer_detailed rx).

  Definition is_named (e : value * value) : bool := match name_of (fst e) with Some _ => true | None => false end.
  Definition smember (e : value * value) : str * (ty * ty) :=
    match e with
    | (k, x) =>
        let n := match name_of k with Some n => n | None => [] end in
        let dv := D x in
        (n, (if A dv TUndef then TOptional (TStringVal n) else TStringVal n, dv))
    end.
  Definition dkeys (es : list (value * value)) : list ty := map (fun e => match e with (k, _) => D k end) es.
  Definition dvals (es : list (value * value)) : list ty := map (fun e => match e with (_, x) => D x end) es.

  Lemma D_arr_cons x r : D (VArr (x :: r)) = TTuple (map D (x :: r)) false (zlen (x :: r)) (zlen (x :: r)).
  Proof. reflexivity. Qed.
  Lemma D_hash_cons e r :
    D (VHash (e :: r)) =
    if forallb is_named (e :: r) then TStruct (map smember (e :: r))
    else THash (mk_variant (udedup (dkeys (e :: r)))) (mk_variant (udedup (dvals (e :: r)))) (zlen (e :: r)) (zlen (e :: r)).
  Proof. reflexivity. Qed.

  Lemma inst_tuple ts g lo hi vs : I (TTuple ts g lo hi) (VArr vs) = in_size lo hi (zlen vs) && walk I ts vs.
  Proof. reflexivity. Qed.
  Lemma inst_struct ms es :
    I (TStruct ms) (VHash es) =
    forallb (fun m => match hash_get (is_vstr (fst m)) es with
                      | None => key_optional (fst (snd m))
                      | Some x => I (snd (snd m)) x
                      end) ms &&
    Z.eqb (zlen (filter (fun m => match hash_get (is_vstr (fst m)) es with Some _ => true | None => false end) ms)) (zlen es).
  Proof. reflexivity. Qed.
  Lemma inst_hash k x lo hi es :
    I (THash k x lo hi) (VHash es) = in_size lo hi (zlen es) && forallb (fun e => I k (fst e) && I x (snd e)) es.
  Proof. reflexivity. Qed.

  Lemma in_size_refl n : in_size n n n = true.
  Proof. unfold in_size. now rewrite Z.leb_refl. Qed.

  Lemma walk_map_self (f : value -> ty) vs : Forall (fun v => I (f v) v = true) vs -> walk I (map f vs) vs = true.
  Proof.
    induction 1 as [|v r Hv Hr IH]; [reflexivity|]. destruct r as [|x r'].
    - cbn. now rewrite Hv.
    - change (I (f v) v && walk I (map f (x :: r')) (x :: r') = true). now rewrite Hv, IH.
  Qed.

  Lemma inst_mk_variant us v : (exists u, In u us /\ I u v = true) -> I (mk_variant us) v = true.
  Proof.
    intros (u & Hu & Hi). destruct us as [|u0 [|u1 us]].
    - destruct Hu.
    - destruct Hu as [<-|[]]. exact Hi.
    - cbn [mk_variant]. change (existsb (fun t => I t v) (u0 :: u1 :: us) = true). apply existsb_exists. eauto.
  Qed.

  (* the values the theorems range over: no NaN (finding C04/nonfinite-float), nothing outside the model,
     hash keys that are strings are pairwise different (C09's invariant), a type used as a value accepts itself
     (in the code by the pointer shortcut `a == b` of GuardedIsAssignable, types.go:113), and UniqueTypes drops
     only structurally equal duplicates from the detailed key/value types of a hash *)
  Fixpoint dv_ok (v : value) : bool :=
    match v with
    | VNaN | VOther _ => false
    | VType t => A t t
    | VArr vs => forallb dv_ok vs
    | VHash es =>
        distinct_keys (map fst es) && forallb (fun e => dv_ok (fst e) && dv_ok (snd e)) es &&
        dedup_exact (dkeys es) && dedup_exact (dvals es)
    | VSensitive x => dv_ok x
    | _ => true
    end.

  Lemma is_named_key e : is_named e = true -> exists n, fst e = VStr n /\ n <> [] /\ fst (smember e) = n.
  Proof.
    unfold is_named. destruct e as [k x]. cbn [fst]. destruct (name_of k) as [n|] eqn:En; [|discriminate].
    intros _. apply name_of_some in En. destruct En as [-> Hn]. exists n. repeat split; try assumption.
    cbn [smember]. destruct n; [congruence|]. reflexivity.
  Qed.

  Lemma smember_value e : snd (snd (smember e)) = D (snd e).
  Proof. destruct e as [k x]. reflexivity. Qed.

  Theorem detailed_inst : forall v, dv_ok v = true -> I (D v) v = true.
  Proof.
    induction v using value_ind'; intros Hok; cbn [dv_ok] in Hok; try discriminate; try reflexivity.
    - (* Bool *) cbn. apply eqb_reflx.
    - (* Int *) cbn. apply in_size_refl.
    - (* Float *) cbn. apply in_size_refl.
    - (* Str *) cbn. apply str_eqb_refl.
    - (* Regexp *) cbn. rewrite str_eqb_refl. apply orb_true_r.
    - (* Arr *) destruct vs as [|x r]; [reflexivity|]. rewrite D_arr_cons, inst_tuple, in_size_refl. cbn [andb].
      apply walk_map_self. rewrite forallb_forall in Hok. rewrite Forall_forall in H |- *. auto.
    - (* Hash *) destruct es as [|e r]; [reflexivity|]. set (es := e :: r) in *.
      bools. rename H0 into Hkeys, H3 into Hall, H2 into Hdk, H1 into Hdv.
      rewrite forallb_forall in Hall. rewrite Forall_forall in H.
      unfold es at 1. rewrite D_hash_cons. fold es. destruct (forallb is_named es) eqn:Enamed.
      + (* Struct *) rewrite forallb_forall in Enamed. rewrite inst_struct.
        assert (Hget : forall m, In m (map smember es) -> exists e0, In e0 es /\ m = smember e0 /\
                                  hash_get (is_vstr (fst m)) es = Some (snd e0)).
        { intros m Hm. apply in_map_iff in Hm. destruct Hm as (e0 & <- & He0). exists e0. repeat split; [assumption|].
          destruct (is_named_key e0 (Enamed _ He0)) as (n & Hk & Hn & ->).
          apply hash_get_distinct; [assumption|]. destruct e0 as [k0 x0]. cbn [fst snd] in *. now subst. }
        apply andb_true_iff. split.
        * apply forallb_forall. intros m Hm. destruct (Hget m Hm) as (e0 & He0 & -> & ->).
          rewrite smember_value. destruct (H _ He0) as [_ Hx]. apply Hx.
          specialize (Hall _ He0). apply andb_true_iff in Hall. tauto.
        * rewrite filter_all.
          -- unfold zlen. rewrite map_length. apply Z.eqb_refl.
          -- intros m Hm. destruct (Hget m Hm) as (e0 & He0 & -> & ->). reflexivity.
      + (* Hash of variants *) rewrite inst_hash, in_size_refl. cbn [andb].
        apply forallb_forall. intros [k x] He0. cbn [fst snd].
        destruct (H _ He0) as [Hk Hx]. cbn [fst snd] in Hk, Hx.
        specialize (Hall _ He0). cbn [fst snd] in Hall. apply andb_true_iff in Hall. destruct Hall as [Hok1 Hok2].
        rewrite !inst_mk_variant; [reflexivity| |].
        * exists (D x). split; [|auto]. apply dedup_exact_in; [assumption|].
          unfold dvals. change (D x) with ((fun e => match e with (_, x') => D x' end) (k, x)). apply in_map. assumption.
        * exists (D k). split; [|auto]. apply dedup_exact_in; [assumption|].
          unfold dkeys. change (D k) with ((fun e => match e with (k', _) => D k' end) (k, x)). apply in_map. assumption.
    - (* Type *) cbn. exact Hok.
    - (* Sensitive *) cbn. apply IHv. assumption.
  Qed.
End Detailed.
