(* InferProofs.v — C04: inferred types contain their values; generalisation and the common type are bounds.
   Part 1: basic facts, `infer_detailed_inst`, `generalize_ub`. *)
From Coq Require Import ZArith NArith Bool List Lia.
From PcoreV Require Import Model.Base Model.Ty Model.Lattice Model.Infer Proofs.LatticeUnfold Proofs.LatticeBasics.
Import ListNotations.
Open Scope Z_scope.

(* ---------------------------------------------------------------------------------------------- *)
(* structural equality decides Leibniz equality *)

Lemma str_eqb_list_eq a b : str_eqb_list a b = true -> a = b.
Proof.
  revert b; induction a as [|x a IH]; intros [|y b] H; cbn in H; try discriminate; [reflexivity|].
  apply andb_true_iff in H. destruct H as [H1 H2]. apply str_eqb_eq in H1. subst. f_equal. auto.
Qed.

Lemma str_eqb_list_refl a : str_eqb_list a a = true.
Proof. induction a as [|x a IH]; cbn; [reflexivity|]. now rewrite str_eqb_refl, IH. Qed.

Definition tlist_eqb := fix go (l l' : list ty) {struct l} : bool :=
  match l, l' with
  | [], [] => true
  | x :: r, y :: r' => ty_eqb x y && go r r'
  | _, _ => false
  end.
Definition mlist_eqb := fix go (l l' : list (str * (ty * ty))) {struct l} : bool :=
  match l, l' with
  | [], [] => true
  | (n, (k, v)) :: r, (n', (k', v')) :: r' => str_eqb n n' && ty_eqb k k' && ty_eqb v v' && go r r'
  | _, _ => false
  end.

Ltac split_andb H :=
  repeat match type of H with
         | (_ && _) = true => let H1 := fresh H in apply andb_true_iff in H; destruct H as [H H1]
         end.

(* destruct every conjunction among the hypotheses and turn boolean equalities into Leibniz ones *)
Ltac bools :=
  repeat match goal with
         | H : (_ && _) = true |- _ => apply andb_true_iff in H; destruct H
         end;
  repeat match goal with
         | H : (_ =? _) = true |- _ => apply Z.eqb_eq in H
         | H : str_eqb _ _ = true |- _ => apply str_eqb_eq in H
         | H : str_eqb_list _ _ = true |- _ => apply str_eqb_list_eq in H
         | H : Bool.eqb _ _ = true |- _ => apply eqb_prop in H
         | IH : forall b, ty_eqb ?a b = true -> ?a = b, H : ty_eqb ?a _ = true |- _ => apply IH in H
         end.

Lemma ty_eqb_eq : forall a b, ty_eqb a b = true -> a = b.
Proof.
  induction a using ty_ind'; intros b Hb; destruct b; cbn [ty_eqb] in Hb; try discriminate; try reflexivity.
  - destruct v, v0; cbn in Hb; try discriminate; try reflexivity. apply eqb_prop in Hb. now subst.
  - bools. now subst.
  - bools. now subst.
  - bools. now subst.
  - bools. now subst.
  - bools. now subst.
  - bools. now subst.
  - bools. now subst.
  - bools. now subst.
  - bools. now subst.
  - bools. now subst.
  - change (tlist_eqb ts ts0 && Bool.eqb g given && (lo =? lo0) && (hi =? hi0) = true) in Hb.
    bools. subst. f_equal.
    match goal with Hl : tlist_eqb ts ts0 = true |- _ => revert ts0 Hl end.
    induction H as [|x ts Hx Hts IH]; intros [|y ts0] Hb; cbn in Hb; try discriminate; [reflexivity|].
    apply andb_true_iff in Hb. destruct Hb as [Hb1 Hb2]. f_equal; auto.
  - change (mlist_eqb ms ms0 = true) in Hb. f_equal.
    revert ms0 Hb. induction H as [|[n [k v]] ms Hx Hms IH]; intros [|[n' [k' v']] ms0] Hb; cbn in Hb; try discriminate; [reflexivity|].
    cbn in Hx. destruct Hx as [Hk Hv]. bools. subst. f_equal. auto.
  - change (tlist_eqb ts ts0 = true) in Hb. f_equal.
    revert ts0 Hb. induction H as [|x ts Hx Hts IH]; intros [|y ts0] Hb; cbn in Hb; try discriminate; [reflexivity|].
    apply andb_true_iff in Hb. destruct Hb as [Hb1 Hb2]. f_equal; auto.
  - f_equal; auto.
  - f_equal; auto.
  - f_equal; auto.
  - f_equal; auto.
  - bools. now subst.
Qed.

Lemma ty_eqb_refl : forall a, ty_eqb a a = true.
Proof.
  induction a using ty_ind'; cbn [ty_eqb]; try reflexivity;
    repeat rewrite Z.eqb_refl; repeat rewrite str_eqb_refl; repeat rewrite str_eqb_list_refl; repeat rewrite eqb_reflx;
    try reflexivity.
  - destruct v as [[|]|]; reflexivity.
  - now rewrite IHa.
  - now rewrite IHa1, IHa2.
  - rewrite !andb_true_r. induction H as [|x ts Hx Hts IH]; [reflexivity|]. now rewrite Hx, IH.
  - induction H as [|[n [k v]] ms Hx Hms IH]; [reflexivity|]. cbn in Hx. destruct Hx as [Hk Hv].
    now rewrite str_eqb_refl, Hk, Hv, IH.
  - induction H as [|x ts Hx Hts IH]; [reflexivity|]. now rewrite Hx, IH.
  - assumption.
  - assumption.
  - assumption.
  - assumption.
Qed.

(* ---------------------------------------------------------------------------------------------- *)
(* dedup: every element keeps a representative with the same hash key; `dedup_exact l`: the representative
   is even structurally equal (no two members are key-equal without being equal) *)

Definition dedup_exact (l : list ty) : bool := forallb (fun t => existsb (ty_eqb t) (udedup l)) l.

Lemma dedup_exact_in l t : dedup_exact l = true -> In t l -> In t (udedup l).
Proof.
  unfold dedup_exact. rewrite forallb_forall. intros H Ht. apply H in Ht.
  apply existsb_exists in Ht. destruct Ht as (u & Hu & He). apply ty_eqb_eq in He. now subst.
Qed.

Lemma udedup_from_incl seen l t : In t (udedup_from seen l) -> In t l.
Proof.
  revert seen; induction l as [|x l IH]; intros seen Ht; cbn in Ht; [destruct Ht|].
  destruct (existsb (fun s => tkeq s x) seen).
  - right. eapply IH. eassumption.
  - destruct Ht as [<-|Ht]; [left; reflexivity|right; eapply IH; eassumption].
Qed.

Lemma udedup_incl l t : In t (udedup l) -> In t l.
Proof.
  destruct l as [|x [|y l]]; cbn [udedup]; auto. apply udedup_from_incl.
Qed.

(* ---------------------------------------------------------------------------------------------- *)
(* one-level facts about asg *)

Section AsgFacts.
  Variable rx : str -> str -> bool.
  Variable hs : bool.
  Notation A := (asg rx hs).
  Notation R := (recv rx hs (asg rx hs)).

  Lemma asg_any_l b : A TAny b = true.
  Proof. rewrite asg_unfold. reflexivity. Qed.

  Lemma asg_unit_r a : A a TUnit = true.
  Proof. rewrite asg_unfold. unfold gstep. destruct (is_any a); reflexivity. Qed.

  Lemma asg_variant_r a ts : A a (TVariant ts) = is_any a || forallb (A a) ts.
  Proof. rewrite asg_unfold. unfold gstep. destruct (is_any a); reflexivity. Qed.

  Lemma asg_optional_r a t : A a (TOptional t) = is_any a || (Lattice.nullable a && A a t).
  Proof. rewrite asg_unfold. unfold gstep. destruct (is_any a); [reflexivity|]. cbn. destruct (Lattice.nullable a); reflexivity. Qed.

  Lemma asg_notundef_r a t :
    A a (TNotUndef t) = is_any a || (A a t || (Lattice.nullable t && R a (TNotUndef t))).
  Proof.
    rewrite asg_unfold. unfold gstep. destruct (is_any a); [reflexivity|]. cbn [orb].
    destruct (A a t); [reflexivity|]. cbn [orb]. destruct (Lattice.nullable t); reflexivity.
  Qed.

  (* b is not decomposed by GuardedIsAssignable *)
  Definition plain (b : ty) : bool :=
    match b with TUnit | TNotUndef _ | TOptional _ | TVariant _ => false | _ => true end.

  Lemma asg_plain a b : plain b = true -> A a b = is_any a || R a b.
  Proof. intros Hp. rewrite asg_unfold. unfold gstep. destruct (is_any a); [reflexivity|]. destruct b; try discriminate; reflexivity. Qed.

  Lemma is_any_false_recv a b : plain b = true -> R a b = true -> A a b = true.
  Proof. intros Hp Hr. rewrite asg_plain by assumption. rewrite Hr. apply orb_true_r. Qed.

  (* ---- introduction rules for the three wrappers on the left: by induction on the right operand ---- *)

  Lemma nullable_variant ts : Lattice.nullable (TVariant ts) = existsb Lattice.nullable ts.
  Proof. reflexivity. Qed.

  (* whoever is accepted by g and does not accept Undef is accepted by NotUndef[g] *)
  Lemma notundef_intro g : forall t, Lattice.nullable t = false -> A g t = true -> A (TNotUndef g) t = true.
  Proof.
    induction t using ty_ind'; intros Hn Ha; try discriminate Hn;
      try (apply is_any_false_recv; [reflexivity|]; cbn [recv]; rewrite Hn, Ha; reflexivity).
    - (* Variant *) rewrite asg_variant_r in Ha |- *. cbn [is_any orb].
      rewrite nullable_variant in Hn.
      assert (Hall : forall x, In x ts -> A g x = true).
      { intros x Hx. destruct (is_any g) eqn:Eg; [apply is_any_eq in Eg; subst; apply asg_any_l|].
        cbn in Ha. rewrite forallb_forall in Ha. auto. }
      apply forallb_forall. intros x Hx. rewrite Forall_forall in H. apply H; auto.
      destruct (Lattice.nullable x) eqn:Ex; [|reflexivity].
      assert (existsb Lattice.nullable ts = true) by (apply existsb_exists; eauto). congruence.
    - (* NotUndef *) rewrite asg_notundef_r in Ha |- *. cbn [is_any orb].
      destruct (Lattice.nullable t) eqn:Et.
      + (* recv (NotUndef g) (NotUndef t) = true && A g (NotUndef t) *)
        apply orb_true_iff. right. cbn [andb recv Lattice.nullable negb].
        rewrite asg_notundef_r, Et. exact Ha.
      + apply orb_true_iff. left. apply IHt; [reflexivity|].
        destruct (is_any g) eqn:Eg; [apply is_any_eq in Eg; subst; apply asg_any_l|].
        cbn [orb andb] in Ha. rewrite orb_false_r in Ha. exact Ha.
  Qed.

  (* whoever is accepted by g is accepted by Optional[g] *)
  Lemma optional_intro g : forall t, A g t = true -> A (TOptional g) t = true.
  Proof.
    induction t using ty_ind'; intros Ha;
      try (apply is_any_false_recv; [reflexivity|]; cbn [recv]; rewrite Ha; apply orb_true_r).
    - apply asg_unit_r.
    - (* Variant *) rewrite asg_variant_r in Ha |- *. cbn [is_any orb].
      apply forallb_forall. intros x Hx. rewrite Forall_forall in H. apply H; auto.
      destruct (is_any g) eqn:Eg; [apply is_any_eq in Eg; subst; apply asg_any_l|].
      cbn in Ha. rewrite forallb_forall in Ha. auto.
    - (* Optional *) rewrite asg_optional_r in Ha |- *. cbn [is_any orb Lattice.nullable andb].
      apply IHt. destruct (is_any g) eqn:Eg; [apply is_any_eq in Eg; subst; apply asg_any_l|].
      cbn in Ha. apply andb_true_iff in Ha. tauto.
    - (* NotUndef *) rewrite asg_notundef_r in Ha |- *. cbn [is_any orb].
      destruct (is_any g) eqn:Eg.
      + apply is_any_eq in Eg; subst. rewrite IHt by apply asg_any_l. reflexivity.
      + cbn [orb] in Ha. apply orb_true_iff in Ha. destruct Ha as [Ha|Ha].
        * rewrite IHt by assumption. reflexivity.
        * apply andb_true_iff in Ha. destruct Ha as [Hn Hr]. rewrite Hn. cbn [andb].
          apply orb_true_iff. right. cbn [recv].
          assert (Hg : A g (TNotUndef t) = true) by (rewrite asg_notundef_r, Eg, Hn, Hr; cbn; apply orb_true_r).
          rewrite Hg. apply orb_true_r.
  Qed.

  (* whoever is accepted by a member is accepted by the Variant *)
  Lemma variant_intro us u : In u us -> forall t, A u t = true -> A (TVariant us) t = true.
  Proof.
    intros Hu. induction t using ty_ind'; intros Ha;
      try (apply is_any_false_recv; [reflexivity|]; cbn [recv]; apply existsb_exists; exists u; split; assumption).
    - apply asg_unit_r.
    - (* Variant *) rewrite asg_variant_r in Ha |- *. cbn [is_any orb].
      apply forallb_forall. intros x Hx. rewrite Forall_forall in H. apply H; auto.
      destruct (is_any u) eqn:Eg; [apply is_any_eq in Eg; subst; apply asg_any_l|].
      cbn in Ha. rewrite forallb_forall in Ha. auto.
    - (* Optional *) rewrite asg_optional_r in Ha |- *. cbn [is_any orb].
      destruct (is_any u) eqn:Eg.
      + apply is_any_eq in Eg; subst.
        assert (Hn : Lattice.nullable (TVariant us) = true) by (rewrite nullable_variant; apply existsb_exists; exists TAny; auto).
        rewrite Hn. cbn [andb]. apply IHt. apply asg_any_l.
      + cbn [orb] in Ha. apply andb_true_iff in Ha. destruct Ha as [Hn Ha].
        assert (Hn' : Lattice.nullable (TVariant us) = true) by (rewrite nullable_variant; apply existsb_exists; exists u; auto).
        rewrite Hn'. cbn [andb]. auto.
    - (* NotUndef *) rewrite asg_notundef_r in Ha |- *. cbn [is_any orb].
      destruct (is_any u) eqn:Eg.
      + apply is_any_eq in Eg; subst. rewrite IHt by apply asg_any_l. reflexivity.
      + cbn [orb] in Ha. apply orb_true_iff in Ha. destruct Ha as [Ha|Ha].
        * rewrite IHt by assumption. reflexivity.
        * apply andb_true_iff in Ha. destruct Ha as [Hn Hr]. rewrite Hn. cbn [andb].
          apply orb_true_iff. right. cbn [recv]. apply existsb_exists. exists u. split; [assumption|].
          rewrite asg_notundef_r, Eg, Hn, Hr. cbn. apply orb_true_r.
  Qed.
End AsgFacts.

(* ---------------------------------------------------------------------------------------------- *)
(* generalize_ub: the generalisation of a type accepts that type *)

(* What the statement needs of the type (all guaranteed by the Go constructors):
   integer bounds are int64, float bounds are order keys of floats (between the keys of -Inf and +Inf), sizes are non-negative int64, Struct member names are
   distinct, no constructor outside the model, and — `dedup_exact` — UniqueTypes drops from the generalised
   members of a Variant only structurally equal duplicates. *)
Fixpoint gen_ok (t : ty) : bool :=
  match t with
  | TInteger lo hi => (MinI <=? lo) && (hi <=? MaxI)
  | TFloat lo hi => (- InfF <=? lo) && (hi <=? InfF)
  | TCollection lo hi => (0 <=? lo) && (hi <=? MaxI)
  | TArray e lo hi => (0 <=? lo) && (hi <=? MaxI) && gen_ok e
  | THash k v lo hi => (0 <=? lo) && (hi <=? MaxI) && gen_ok k && gen_ok v
  | TTuple ts _ _ _ => forallb gen_ok ts
  | TStruct ms => distinct (map fst ms) && forallb (fun m => gen_ok (fst (snd m)) && gen_ok (snd (snd m))) ms
  | TVariant ts => forallb gen_ok ts && dedup_exact (map (gen true) ts)
  | TOptional t | TNotUndef t | TType t | TSensitive t => gen_ok t
  | TOther _ => false
  | _ => true
  end.

Lemma filter_all {A} (f : A -> bool) l : (forall x, In x l -> f x = true) -> filter f l = l.
Proof.
  induction l as [|x l IH]; intros H; [reflexivity|]. cbn. rewrite (H x) by (left; reflexivity).
  f_equal. apply IH. intros y Hy. apply H. right. assumption.
Qed.

Lemma filter_none {A} (f : A -> bool) l : (forall x, In x l -> f x = false) -> filter f l = [].
Proof.
  induction l as [|x l IH]; intros H; [reflexivity|]. cbn. rewrite (H x) by (left; reflexivity).
  apply IH. intros y Hy. apply H. right. assumption.
Qed.

Lemma mem_str_refl_all l : forallb (fun p => mem_str p l) l = true.
Proof.
  apply forallb_forall. intros p Hp. unfold mem_str. apply existsb_exists. exists p. split; [assumption|apply str_eqb_refl].
Qed.

Lemma find_member_distinct ms : distinct (map fst ms) = true ->
  forall n kv, In (n, kv) ms -> find_member n ms = Some kv.
Proof.
  induction ms as [|[n0 kv0] ms IH]; intros Hd n kv Hin; [destruct Hin|].
  cbn in Hd. apply andb_true_iff in Hd. destruct Hd as [Hn0 Hd]. cbn [find_member].
  destruct Hin as [He|Hin].
  - inversion He; subst. now rewrite str_eqb_refl.
  - destruct (str_eqb_spec n n0) as [->|Hne]; [|auto].
    exfalso. apply negb_true_iff in Hn0.
    assert (mem_str n0 (map fst ms) = true); [|congruence].
    unfold mem_str. apply existsb_exists. exists n0. split; [|apply str_eqb_refl].
    change n0 with (fst (n0, kv)). apply in_map. assumption.
Qed.

Section GenUb.
  Variable rx : str -> str -> bool.
  Variable hs : bool.
  Notation A := (asg rx hs).

  Lemma tpairs_map (f : ty -> ty) ts :
    Forall (fun t => A (f t) t = true) ts -> tpairs A (map f ts) ts = true.
  Proof.
    induction 1 as [|t r Ht Hr IH]; [reflexivity|]. destruct r as [|x r'].
    - cbn. now rewrite Ht.
    - change (A (f t) t && tpairs A (map f (x :: r')) (x :: r') = true). now rewrite Ht, IH.
  Qed.

  Ltac atom := apply is_any_false_recv; [reflexivity|]; cbn [recv gen is_undef]; try reflexivity.

  Theorem gen_ub : forall t d, gen_ok t = true -> A (gen d t) t = true.
  Proof.
    induction t using ty_ind'; intros d Hok; cbn [gen_ok] in Hok.
    - apply asg_any_l.
    - apply asg_unit_r.
    - atom.
    - atom.
    - atom.
    - (* Integer *) atom. unfold size_sub. exact Hok.
    - (* Float *) atom. unfold size_sub. exact Hok.
    - atom.
    - atom.
    - atom.
    - (* String *) destruct d; atom.
    - (* StringSz *) destruct d; atom. unfold size_sub. now rewrite !Z.leb_refl.
    - (* StringVal *) destruct d; atom. apply str_eqb_refl.
    - (* Enum *) atom.
    - (* Pattern *) destruct d; atom. destruct rxs as [|p rxs]; [reflexivity|].
      change (forallb (fun q => mem_str q (p :: rxs)) (p :: rxs) = true). apply mem_str_refl_all.
    - (* Regexp *) destruct d; atom. rewrite str_eqb_refl. apply orb_true_r.
    - atom.
    - (* Collection *) atom. unfold size_sub. exact Hok.
    - (* Array *) bools. cbn [gen]. destruct (is_any t) eqn:Ea.
      + atom. unfold size_sub. rewrite H, H1. cbn [andb]. rewrite asg_any_l. apply orb_true_r.
      + atom. unfold size_sub. rewrite H, H1. cbn [andb]. rewrite IHt by assumption. apply orb_true_r.
    - (* Hash *) bools. atom. unfold size_sub. rewrite H, H2. cbn [andb]. rewrite IHt1, IHt2 by assumption. apply orb_true_r.
    - (* Tuple *) atom. unfold size_sub. rewrite !Z.leb_refl. cbn [andb].
      destruct ts as [|t0 ts]; [reflexivity|]. set (l := t0 :: ts) in *.
      assert (Hp : tpairs A (map (gen true) l) l = true).
      { apply tpairs_map. rewrite forallb_forall in Hok. rewrite Forall_forall in H |- *. intros x Hx. apply H; auto. }
      subst l. cbn [map] in Hp |- *. rewrite Hp. apply orb_true_r.
    - (* Struct *) bools. atom.
      rewrite forallb_forall in H1. rewrite Forall_forall in H.
      assert (Hfind : forall m', In m' (map (fun m => match m with (n, (k, v)) => (n, (gen false k, gen false v)) end) ms) ->
                exists n k v, In (n, (k, v)) ms /\ m' = (n, (gen false k, gen false v)) /\ find_member n ms = Some (k, v)).
      { intros m' Hm'. apply in_map_iff in Hm'. destruct Hm' as ([n [k v]] & <- & Hin).
        exists n, k, v. repeat split; [assumption|]. apply find_member_distinct; assumption. }
      apply andb_true_iff. split.
      + apply forallb_forall. intros m' Hm'. destruct (Hfind m' Hm') as (n & k & v & Hin & -> & Hf).
        cbn [fst snd]. rewrite Hf. specialize (H _ Hin). specialize (H1 _ Hin). cbn [fst snd] in H, H1.
        destruct H as [Hk Hv]. apply andb_true_iff in H1. destruct H1 as [Hgk Hgv].
        now rewrite Hk, Hv.
      + rewrite filter_all.
        * unfold zlen. rewrite map_length. apply Z.eqb_refl.
        * intros m' Hm'. destruct (Hfind m' Hm') as (n & k & v & Hin & -> & Hf). cbn [fst]. now rewrite Hf.
    - (* Variant *) bools. cbn [gen]. rewrite asg_variant_r. cbn [is_any orb].
      apply forallb_forall. intros x Hx. rewrite forallb_forall in H0. rewrite Forall_forall in H.
      apply variant_intro with (u := gen true x).
      + apply dedup_exact_in; [assumption|]. apply in_map. assumption.
      + apply H; auto.
    - (* Optional *) cbn [gen]. rewrite asg_optional_r. cbn [is_any orb Lattice.nullable andb].
      apply optional_intro. apply IHt. assumption.
    - (* NotUndef *) cbn [gen]. rewrite asg_notundef_r. cbn [is_any orb].
      destruct (Lattice.nullable t) eqn:En.
      + apply orb_true_iff. right. cbn [andb recv Lattice.nullable negb].
        rewrite asg_notundef_r. rewrite IHt by assumption. cbn [orb]. apply orb_true_r.
      + apply orb_true_iff. left. apply notundef_intro; [assumption|]. apply IHt. assumption.
    - (* Type *) atom. apply IHt. assumption.
    - (* Sensitive *) atom. apply IHt. assumption.
    - discriminate.
  Qed.
End GenUb.

(* ---------------------------------------------------------------------------------------------- *)
(* infer_detailed_inst: every value is an instance of its detailed type *)

Definition walk (I : ty -> value -> bool) := fix walk (ts : list ty) (vs : list value) {struct ts} : bool :=
  match ts, vs with
  | [], _ => true
  | _, [] => true
  | [t], v :: vs' => I t v && forallb (I t) vs'
  | t :: ts', v :: vs' => I t v && walk ts' vs'
  end.

Lemma name_of_some k n : name_of k = Some n -> k = VStr n /\ n <> [].
Proof. destruct k; try discriminate. destruct s; [discriminate|]. intros H; inversion H; subst. split; congruence. Qed.

Lemma hash_get_distinct es : distinct_keys (map fst es) = true ->
  forall n x, In (VStr n, x) es -> hash_get (is_vstr n) es = Some x.
Proof.
  induction es as [|[k0 x0] es IH]; intros Hd n x Hin; [destruct Hin|].
  cbn [map fst distinct_keys] in Hd. apply andb_true_iff in Hd. destruct Hd as [Hk0 Hd]. cbn [hash_get].
  destruct Hin as [He|Hin].
  - inversion He; subst. cbn [is_vstr]. now rewrite str_eqb_refl.
  - destruct (is_vstr n k0) eqn:Ek; [|auto].
    exfalso. destruct k0; try discriminate. cbn [is_vstr] in Ek. apply str_eqb_eq in Ek. subst s.
    cbn [vstr_of] in Hk0. apply negb_true_iff in Hk0.
    assert (existsb (is_vstr n) (map fst es) = true); [|congruence].
    apply existsb_exists. exists (VStr n). split; [|cbn; apply str_eqb_refl].
    change (VStr n) with (fst (VStr n, x)). apply in_map. assumption.
Qed.

Lemma hash_get_in' f es x : hash_get f es = Some x -> exists k, In (k, x) es.
Proof.
  induction es as [|[k0 x0] es IH]; cbn [hash_get]; [discriminate|]. destruct (f k0).
  - intros H. inversion H; subst. exists k0. left. reflexivity.
  - intros H. destruct (IH H) as (k & Hk). exists k. right. assumption.
Qed.

Section Detailed.
  Variable rx : str -> str -> bool.
  Notation A := (asg rx true).
  Notation I := (inst rx true).
  Notation D := (infer_detailed rx).

  Definition is_named (e : value * value) : bool := match name_of (fst e) with Some _ => true | None => false end.
  Definition smember (e : value * value) : str * (ty * ty) :=
    match e with
    | (k, x) =>
        let n := match name_of k with Some n => n | None => [] end in
        let dv := D x in
        (n, (if A dv TUndef then TOptional (TStringVal n) else TStringVal n, dv))
    end.
  Definition dkeys (es : list (value * value)) : list ty := map (fun e => match e with (k, _) => D k end) es.
  Definition dvals (es : list (value * value)) : list ty := map (fun e => match e with (_, x) => D x end) es.

  Lemma D_arr_cons x r : D (VArr (x :: r)) = TTuple (map D (x :: r)) false (zlen (x :: r)) (zlen (x :: r)).
  Proof. reflexivity. Qed.
  Lemma D_hash_cons e r :
    D (VHash (e :: r)) =
    if forallb is_named (e :: r) then TStruct (map smember (e :: r))
    else THash (mk_variant (udedup (dkeys (e :: r)))) (mk_variant (udedup (dvals (e :: r)))) (zlen (e :: r)) (zlen (e :: r)).
  Proof. reflexivity. Qed.

  Lemma inst_tuple ts g lo hi vs : I (TTuple ts g lo hi) (VArr vs) = in_size lo hi (zlen vs) && walk I ts vs.
  Proof. reflexivity. Qed.
  Lemma inst_struct ms es :
    I (TStruct ms) (VHash es) =
    forallb (fun m => match hash_get (is_vstr (fst m)) es with
                      | None => key_optional (fst (snd m))
                      | Some x => I (snd (snd m)) x
                      end) ms &&
    Z.eqb (zlen (filter (fun m => match hash_get (is_vstr (fst m)) es with Some _ => true | None => false end) ms)) (zlen es).
  Proof. reflexivity. Qed.
  Lemma inst_array e lo hi vs : I (TArray e lo hi) (VArr vs) = in_size lo hi (zlen vs) && (is_any e || forallb (I e) vs).
  Proof. reflexivity. Qed.
  Lemma inst_hash k x lo hi es :
    I (THash k x lo hi) (VHash es) = in_size lo hi (zlen es) && forallb (fun e => I k (fst e) && I x (snd e)) es.
  Proof. reflexivity. Qed.

  Lemma in_size_refl n : in_size n n n = true.
  Proof. unfold in_size. now rewrite Z.leb_refl. Qed.

  Lemma walk_map_self (f : value -> ty) vs : Forall (fun v => I (f v) v = true) vs -> walk I (map f vs) vs = true.
  Proof.
    induction 1 as [|v r Hv Hr IH]; [reflexivity|]. destruct r as [|x r'].
    - cbn. now rewrite Hv.
    - change (I (f v) v && walk I (map f (x :: r')) (x :: r') = true). now rewrite Hv, IH.
  Qed.

  Lemma inst_mk_variant us v : (exists u, In u us /\ I u v = true) -> I (mk_variant us) v = true.
  Proof.
    intros (u & Hu & Hi). destruct us as [|u0 [|u1 us]].
    - destruct Hu.
    - destruct Hu as [<-|[]]. exact Hi.
    - cbn [mk_variant]. change (existsb (fun t => I t v) (u0 :: u1 :: us) = true). apply existsb_exists. eauto.
  Qed.

  (* the values the theorems range over: nothing outside the model,
     hash keys that are strings are pairwise different (C09's invariant), a type used as a value accepts itself
     (in the code by the pointer shortcut `a == b` of GuardedIsAssignable, types.go:113), and UniqueTypes drops
     only structurally equal duplicates from the detailed key/value types of a hash *)
  Fixpoint dv_ok (v : value) : bool :=
    match v with
    | VOther _ => false
    | VType t => A t t
    | VArr vs => forallb dv_ok vs
    | VHash es =>
        distinct_keys (map fst es) && forallb (fun e => dv_ok (fst e) && dv_ok (snd e)) es &&
        dedup_exact (dkeys es) && dedup_exact (dvals es)
    | VSensitive x => dv_ok x
    | _ => true
    end.

  Lemma is_named_key e : is_named e = true -> exists n, fst e = VStr n /\ n <> [] /\ fst (smember e) = n.
  Proof.
    unfold is_named. destruct e as [k x]. cbn [fst]. destruct (name_of k) as [n|] eqn:En; [|discriminate].
    intros _. apply name_of_some in En. destruct En as [-> Hn]. exists n. repeat split; try assumption.
    cbn [smember]. destruct n; [congruence|]. reflexivity.
  Qed.

  Lemma smember_value e : snd (snd (smember e)) = D (snd e).
  Proof. destruct e as [k x]. reflexivity. Qed.

  Theorem detailed_inst : forall v, dv_ok v = true -> I (D v) v = true.
  Proof.
    induction v using value_ind'; intros Hok; cbn [dv_ok] in Hok; try discriminate; try reflexivity.
    - (* Bool *) cbn. apply eqb_reflx.
    - (* Int *) cbn. apply in_size_refl.
    - (* Float *) cbn. rewrite in_size_refl. reflexivity.
    - (* Str *) cbn. apply str_eqb_refl.
    - (* Regexp *) cbn. rewrite str_eqb_refl. apply orb_true_r.
    - (* Arr *) destruct vs as [|x r]; [reflexivity|]. rewrite D_arr_cons, inst_tuple, in_size_refl. cbn [andb].
      apply walk_map_self. rewrite forallb_forall in Hok. rewrite Forall_forall in H |- *. auto.
    - (* Hash *) destruct es as [|e r]; [reflexivity|]. set (es := e :: r) in *.
      bools. rename H0 into Hkeys, H3 into Hall, H2 into Hdk, H1 into Hdv.
      rewrite forallb_forall in Hall. rewrite Forall_forall in H.
      unfold es at 1. rewrite D_hash_cons. fold es. destruct (forallb is_named es) eqn:Enamed.
      + (* Struct *) rewrite forallb_forall in Enamed. rewrite inst_struct.
        assert (Hget : forall m, In m (map smember es) -> exists e0, In e0 es /\ m = smember e0 /\
                                  hash_get (is_vstr (fst m)) es = Some (snd e0)).
        { intros m Hm. apply in_map_iff in Hm. destruct Hm as (e0 & <- & He0). exists e0. repeat split; [assumption|].
          destruct (is_named_key e0 (Enamed _ He0)) as (n & Hk & Hn & ->).
          apply hash_get_distinct; [assumption|]. destruct e0 as [k0 x0]. cbn [fst snd] in *. now subst. }
        apply andb_true_iff. split.
        * apply forallb_forall. intros m Hm. destruct (Hget m Hm) as (e0 & He0 & -> & ->).
          rewrite smember_value. destruct (H _ He0) as [_ Hx]. apply Hx.
          specialize (Hall _ He0). apply andb_true_iff in Hall. tauto.
        * rewrite filter_all.
          -- unfold zlen. rewrite map_length. apply Z.eqb_refl.
          -- intros m Hm. destruct (Hget m Hm) as (e0 & He0 & -> & ->). reflexivity.
      + (* Hash of variants *) rewrite inst_hash, in_size_refl. cbn [andb].
        apply forallb_forall. intros [k x] He0. cbn [fst snd].
        destruct (H _ He0) as [Hk Hx]. cbn [fst snd] in Hk, Hx.
        specialize (Hall _ He0). cbn [fst snd] in Hall. apply andb_true_iff in Hall. destruct Hall as [Hok1 Hok2].
        rewrite !inst_mk_variant; [reflexivity| |].
        * exists (D x). split; [|auto]. apply dedup_exact_in; [assumption|].
          unfold dvals. change (D x) with ((fun e => match e with (_, x') => D x' end) (k, x)). apply in_map. assumption.
        * exists (D k). split; [|auto]. apply dedup_exact_in; [assumption|].
          unfold dkeys. change (D k) with ((fun e => match e with (k', _) => D k' end) (k, x)). apply in_map. assumption.
    - (* Type *) cbn. exact Hok.
    - (* Sensitive *) cbn. apply IHv. assumption.
  Qed.
End Detailed.

(* ---------------------------------------------------------------------------------------------- *)
(* detailed_sound: a type that accepts the detailed type of a value has the value as an instance
   (the by-specification rule Struct <- Hash excluded by the syntactic guard rule_free of C01) *)
From PcoreV Require Import Proofs.LatticeRule.

Section DetailedSound.
  Variable rx : str -> str -> bool.
  Notation A := (asg rx true).
  Notation R := (recv rx true (asg rx true)).
  Notation I := (inst rx true).
  Notation D := (infer_detailed rx).
  Notation plain := (plain).

  Lemma D_plain v : plain (D v) = true.
  Proof.
    destruct v; try reflexivity.
    - destruct vs; reflexivity.
    - destruct es as [|e r]; [reflexivity|]. rewrite D_hash_cons. destruct (forallb is_named (e :: r)); reflexivity.
  Qed.

  Lemma D_nullable v : Lattice.nullable (D v) = true -> v = VUndef.
  Proof.
    destruct v; try reflexivity; try (cbn; discriminate).
    - destruct vs; cbn; discriminate.
    - destruct es as [|e r]; [cbn; discriminate|]. rewrite D_hash_cons. destruct (forallb is_named (e :: r)); cbn; discriminate.
  Qed.

  Lemma flat_plain c d : plain d = true -> flat c d = flat_recv c d.
  Proof. destruct d; try discriminate; reflexivity. Qed.

  Definition base (T : ty) : bool :=
    match T with TAny | TUnit | TVariant _ | TOptional _ | TNotUndef _ => false | _ => true end.

  Definition P (v : value) : Prop := forall T, rule_free T (D v) = true -> A T (D v) = true -> I T v = true.

  (* the wrappers on the left are handled once for all values *)
  Lemma sound_wrap v :
    (forall T, base T = true -> rule_free T (D v) = true -> R T (D v) = true -> I T v = true) -> P v.
  Proof.
    intros Hbase. unfold P. pose proof (D_plain v) as Hp.
    induction T using ty_ind'; intros Hrf Ha; rewrite (asg_plain rx true _ _ Hp) in Ha;
      try (apply Hbase; [reflexivity|exact Hrf|exact Ha]).
    - reflexivity.
    - reflexivity.
    - (* Variant *) cbn [is_any orb recv] in Ha. apply existsb_exists in Ha. destruct Ha as (t & Ht & Ha).
      cbn [inst]. apply existsb_exists. exists t. split; [assumption|]. rewrite Forall_forall in H. apply H; auto.
      unfold rule_free in *. cbn [no_struct] in Hrf. apply orb_true_iff in Hrf. destruct Hrf as [Hrf|Hrf].
      + rewrite forallb_forall in Hrf. rewrite (Hrf t Ht). reflexivity.
      + rewrite Hrf. apply orb_true_r.
    - (* Optional *) cbn [is_any orb recv] in Ha. apply orb_true_iff in Ha. destruct Ha as [Ha|Ha].
      + rewrite (flat_plain _ _ Hp) in Ha.
        assert (Hn : Lattice.nullable (D v) = true) by (destruct (D v); try discriminate; reflexivity).
        apply D_nullable in Hn. subst. reflexivity.
      + assert (Hi : I T v = true) by (apply IHT; assumption). destruct v; exact Hi || reflexivity.
    - (* NotUndef *) cbn [is_any orb recv] in Ha. apply andb_true_iff in Ha. destruct Ha as [Hn Ha].
      assert (Hi : I T v = true) by (apply IHT; assumption).
      destruct v; try exact Hi. cbn in Hn. discriminate.
  Qed.

  Lemma walk_nil_r (J : ty -> value -> bool) ts : walk J ts [] = true.
  Proof. destruct ts as [|t [|t' ts]]; reflexivity. Qed.

  Lemma tpairs_walk ts : forall vs,
    tpairs A ts (map D vs) = true ->
    (forall t x, In t ts -> In x vs -> A t (D x) = true -> I t x = true) ->
    walk I ts vs = true.
  Proof.
    induction ts as [|t ts IH]; intros vs Hp Hs; [reflexivity|].
    destruct vs as [|x vs]; [apply walk_nil_r|]. destruct ts as [|t' ts].
    - cbn in Hp. apply andb_true_iff in Hp. destruct Hp as [H0 Hall]. cbn.
      rewrite (Hs t x) by (cbn; auto). cbn [andb]. apply forallb_forall. intros y Hy.
      rewrite forallb_forall in Hall. apply Hs; cbn; auto. apply Hall. apply in_map. assumption.
    - destruct vs as [|x' vs].
      + change (A t (D x) && forallb (fun u => A u (D x)) (t' :: ts) = true) in Hp.
        apply andb_true_iff in Hp. destruct Hp as [H0 _].
        change (I t x && walk I (t' :: ts) [] = true). rewrite walk_nil_r, (Hs t x) by (cbn; auto). reflexivity.
      + change (A t (D x) && tpairs A (t' :: ts) (map D (x' :: vs)) = true) in Hp.
        apply andb_true_iff in Hp. destruct Hp as [H0 Hp].
        change (I t x && walk I (t' :: ts) (x' :: vs) = true). rewrite (Hs t x) by (cbn; auto). cbn [andb].
        apply IH; [exact Hp|]. intros u y Hu Hy. apply Hs; right; assumption.
  Qed.

  Lemma zlen_cons_pos {X} (x : X) r : (zlen (x :: r) <=? 0) = false.
  Proof. unfold zlen. cbn [length]. apply Z.leb_gt. lia. Qed.

  Lemma asg_mk_variant k us : A k (mk_variant us) = true -> forall u, In u us -> A k u = true.
  Proof.
    intros Ha u Hu. destruct us as [|u0 [|u1 us]].
    - destruct Hu.
    - destruct Hu as [<-|[]]. exact Ha.
    - cbn [mk_variant] in Ha. rewrite asg_variant_r in Ha. destruct (is_any k) eqn:Ek.
      + apply is_any_eq in Ek. subst. apply asg_any_l.
      + cbn [orb] in Ha. rewrite forallb_forall in Ha. auto.
  Qed.

  (* member lookup in the detailed Struct type = entry lookup in the hash *)
  Lemma find_member_smember n es : forallb is_named es = true ->
    find_member n (map (smember rx) es) =
    match hash_get (is_vstr n) es with
    | Some x => Some (if A (D x) TUndef then TOptional (TStringVal n) else TStringVal n, D x)
    | None => None
    end.
  Proof.
    induction es as [|[k x] es IH]; intros Hn; [reflexivity|]. cbn [forallb] in Hn. apply andb_true_iff in Hn.
    destruct Hn as [Hk Hn]. destruct (is_named_key rx _ Hk) as (m & Hm & Hne & Hf). cbn [fst] in Hm. subst k.
    cbn [map hash_get is_vstr]. destruct m as [|c m]; [congruence|].
    cbn [smember name_of find_member]. destruct (str_eqb_spec n (c :: m)) as [->|Hneq]; [reflexivity|].
    apply IH. assumption.
  Qed.

  Lemma filter_len_le {X} (f : X -> bool) l : (length (filter f l) <= length l)%nat.
  Proof. induction l as [|x l IH]; cbn; [lia|]. destruct (f x); cbn; lia. Qed.

  Lemma struct_required_le ms : struct_required ms <= zlen ms.
  Proof. unfold struct_required, zlen. apply Nat2Z.inj_le. apply filter_len_le. Qed.

  Lemma no_hash_struct_member ms m : no_hash (TStruct ms) = true -> In m ms -> no_hash (snd (snd m)) = true.
  Proof. cbn. rewrite forallb_forall. intros H Hm. apply H in Hm. apply andb_true_iff in Hm. tauto. Qed.

  Lemma smember_key e n : fst e = VStr n -> n <> [] -> actual_key (fst (snd (smember rx e))) = TStringVal n /\ fst (smember rx e) = n.
  Proof.
    destruct e as [k x]. cbn [fst]. intros -> Hn. destruct n as [|c n]; [congruence|]. cbn [smember name_of fst snd].
    split; [|reflexivity]. destruct (A (D x) TUndef); reflexivity.
  Qed.

  Ltac dead Hr :=
    solve [ discriminate Hr
          | repeat (match type of Hr with context [match ?x with _ => _ end] => destruct x end; try discriminate Hr) ].

  Theorem detailed_sound_core : forall v, dv_ok rx v = true -> P v.
  Proof.
    induction v using value_ind'; intros Hok; cbn [dv_ok] in Hok; try discriminate; apply sound_wrap; intros T Hb Hrf Hr.
    - (* Undef *) destruct T; try discriminate Hb; cbn in Hr; try (dead Hr); reflexivity.
    - (* Default *) destruct T; try discriminate Hb; cbn in Hr; try (dead Hr); reflexivity.
    - (* Bool *) destruct T; try discriminate Hb; cbn in Hr; try (dead Hr); try reflexivity.
      cbn. destruct v as [x|]; [|reflexivity]. cbn in Hr. apply eqb_prop in Hr. subst. apply eqb_reflx.
    - (* Int *) destruct T; try discriminate Hb; cbn in Hr; try (dead Hr); try reflexivity. exact Hr.
    - (* Float *) destruct T; try discriminate Hb; cbn in Hr; try (dead Hr); try reflexivity.
      change (in_size lo hi k = true) in Hr. cbn [inst]. rewrite Hr. reflexivity.
    - (* NaN: its type is the unbounded Float type *)
      destruct T; try discriminate Hb; cbn in Hr; try (dead Hr); try reflexivity. exact Hr.
    - (* Str *) destruct T; try discriminate Hb; cbn in Hr; try (dead Hr); try reflexivity; cbn [inst infer_detailed infer recv] in *.
      + exact Hr.
      + exact Hr.
      + destruct vs; [reflexivity|exact Hr].
      + destruct rxs; [reflexivity|]. rewrite Hr. apply orb_true_r.
    - (* Regexp *) destruct T; try discriminate Hb; cbn in Hr; try (dead Hr); try reflexivity. exact Hr.
    - (* Binary *) destruct T; try discriminate Hb; cbn in Hr; try (dead Hr); reflexivity.
    - (* Arr *) destruct vs as [|x r].
      + (* [] *) destruct T; try discriminate Hb; cbn [infer_detailed infer recv flat flat_recv Lattice.nullable is_undef orb] in Hr; try (dead Hr).
        * exact Hr.
        * apply andb_true_iff in Hr. destruct Hr as [Hsz _]. rewrite inst_array.
          change (in_size lo hi 0 && (is_any T || true) = true). rewrite orb_true_r, andb_true_r. exact Hsz.
        * apply andb_true_iff in Hr. destruct Hr as [Hsz _]. rewrite inst_tuple, walk_nil_r, andb_true_r. exact Hsz.
      + set (vs := x :: r) in *. rewrite forallb_forall in Hok. rewrite Forall_forall in H.
        unfold vs in Hr, Hrf. rewrite D_arr_cons in Hr, Hrf. fold vs in Hr, Hrf.
        destruct T; try discriminate Hb; cbn [recv flat flat_recv Lattice.nullable is_undef orb] in Hr; try (dead Hr).
        * (* Collection *) cbn. exact Hr.
        * (* Array *) apply andb_true_iff in Hr. destruct Hr as [Hsz Hr]. unfold vs at 1 in Hr. rewrite zlen_cons_pos in Hr.
          cbn [orb map] in Hr. fold vs in Hr. change (forallb (A T) (map D vs) = true) in Hr.
          cbn [inst]. change (in_size lo hi (zlen vs) && (is_any T || forallb (I T) vs) = true).
          unfold size_sub in Hsz. unfold in_size. rewrite Hsz. cbn [andb]. apply orb_true_iff. right.
          apply forallb_forall. intros y Hy. apply (H y Hy); [auto| |].
          -- unfold rule_free in *. cbn [no_struct no_hash] in Hrf. apply orb_true_iff in Hrf. destruct Hrf as [->|Hrf]; [reflexivity|].
             rewrite forallb_forall in Hrf. rewrite (Hrf (D y)) by (apply in_map; assumption). apply orb_true_r.
          -- rewrite forallb_forall in Hr. apply Hr. apply in_map. assumption.
        * (* Tuple *) apply andb_true_iff in Hr. destruct Hr as [Hsz Hr]. rewrite inst_tuple.
          unfold size_sub in Hsz. unfold in_size. rewrite Hsz. cbn [andb].
          destruct ts as [|t0 ts]; [reflexivity|]. unfold vs at 1 in Hr. rewrite zlen_cons_pos in Hr. cbn [orb] in Hr.
          unfold vs in Hr. cbn [map] in Hr. fold vs in Hr. change (tpairs A (t0 :: ts) (map D vs) = true) in Hr.
          apply tpairs_walk; [exact Hr|]. intros t y Ht Hy Ha. apply (H y Hy); [auto| |exact Ha].
          unfold rule_free in *. cbn [no_struct no_hash] in Hrf. apply orb_true_iff in Hrf. destruct Hrf as [Hrf|Hrf].
          -- rewrite forallb_forall in Hrf. rewrite (Hrf t Ht). reflexivity.
          -- rewrite forallb_forall in Hrf. rewrite (Hrf (D y)) by (apply in_map; assumption). apply orb_true_r.
    - (* Hash *) destruct es as [|e r].
      + (* {} *) destruct T; try discriminate Hb; cbn [infer_detailed infer recv flat flat_recv Lattice.nullable is_undef orb] in Hr; try (dead Hr).
        * exact Hr.
        * apply andb_true_iff in Hr. destruct Hr as [Hsz _]. rewrite inst_hash.
          change (in_size lo hi 0 && true = true). rewrite andb_true_r. exact Hsz.
        * (* Struct: only by the by-specification rule *) cbn in Hrf. discriminate.
      + set (es := e :: r) in *. bools. rename H0 into Hkeys, H3 into Hall, H2 into Hdk, H1 into Hdv.
        rewrite forallb_forall in Hall. rewrite Forall_forall in H.
        assert (HP : forall k x, In (k, x) es -> P k /\ P x).
        { intros k x Hin. destruct (H _ Hin) as [Hk Hx]. specialize (Hall _ Hin). cbn [fst snd] in *.
          apply andb_true_iff in Hall. destruct Hall. split; auto. }
        unfold es in Hr, Hrf. rewrite D_hash_cons in Hr, Hrf. fold es in Hr, Hrf.
        destruct (forallb is_named es) eqn:Enamed.
        * (* detailed type: Struct *)
          pose proof (find_member_smember) as Hfm. rewrite forallb_forall in Enamed.
          assert (Hlen : zlen (map (smember rx) es) = zlen es) by (unfold zlen; now rewrite map_length).
          destruct T; try discriminate Hb; cbn [recv flat flat_recv Lattice.nullable is_undef orb] in Hr; try (dead Hr).
          -- (* Collection *) cbn [inst]. unfold size_sub in Hr. rewrite Hlen in Hr. unfold in_size.
             pose proof (struct_required_le (map (smember rx) es)) as Hle. rewrite Hlen in Hle.
             apply andb_true_iff in Hr. destruct Hr as [H1 H2]. apply Z.leb_le in H1, H2.
             apply andb_true_iff. split; apply Z.leb_le; lia.
          -- (* Hash *) apply andb_true_iff in Hr. destruct Hr as [Hsz Hr]. rewrite inst_hash.
             unfold size_sub in Hsz. rewrite Hlen in Hsz. unfold in_size.
             pose proof (struct_required_le (map (smember rx) es)) as Hle. rewrite Hlen in Hle.
             apply andb_true_iff in Hsz. destruct Hsz as [H1 H2]. apply Z.leb_le in H1, H2.
             apply andb_true_iff. split; [apply andb_true_iff; split; apply Z.leb_le; lia|].
             apply forallb_forall. intros [k x] Hin. cbn [fst snd].
             rewrite forallb_forall in Hr. specialize (Hr (smember rx (k, x)) (in_map _ _ _ Hin)).
             apply andb_true_iff in Hr. destruct Hr as [Hrk Hrx].
             destruct (is_named_key rx _ (Enamed _ Hin)) as (n & Hk & Hne & Hf). cbn [fst] in Hk. subst k.
             destruct (smember_key (VStr n, x) n eq_refl Hne) as [Hak _]. rewrite Hak in Hrk.
             destruct (HP _ _ Hin) as [Pk Px].
             unfold rule_free in Hrf. cbn [no_struct no_hash] in Hrf.
             assert (Hns : no_struct T1 = true /\ no_struct T2 = true \/ no_hash (TStruct (map (smember rx) es)) = true).
             { apply orb_true_iff in Hrf. destruct Hrf as [Hrf|Hrf]; [left; apply andb_true_iff; exact Hrf|right; exact Hrf]. }
             apply andb_true_iff. split.
             ++ apply Pk; [|exact Hrk]. destruct Hns as [[Hn1 _]|Hnh]; [apply rule_free_l; assumption|apply rule_free_r; reflexivity].
             ++ pose proof (smember_value rx (VStr n, x)) as Hsv. cbn [snd] in Hsv. rewrite Hsv in Hrx.
                apply Px; [|exact Hrx].
                destruct Hns as [[_ Hn2]|Hnh]; [apply rule_free_l; assumption|].
                apply rule_free_r. rewrite <- Hsv.
                apply (no_hash_struct_member _ _ Hnh). apply in_map. assumption.
          -- (* Struct *) apply andb_true_iff in Hr. destruct Hr as [Hmem Hcnt]. rewrite inst_struct.
             assert (Hnamed : forallb is_named es = true) by (apply forallb_forall; exact Enamed).
             assert (Hnh : no_hash (TStruct (map (smember rx) es)) = true).
             { unfold rule_free in Hrf. cbn [no_struct orb] in Hrf. exact Hrf. }
             apply andb_true_iff. split.
             ++ apply forallb_forall. intros m Hm. rewrite forallb_forall in Hmem. specialize (Hmem m Hm).
                rewrite (Hfm (fst m) es Hnamed) in Hmem.
                destruct (hash_get (is_vstr (fst m)) es) as [x|] eqn:Eg; [|exact Hmem].
                apply andb_true_iff in Hmem. destruct Hmem as [_ Hv].
                apply hash_get_in' in Eg. destruct Eg as (k & Hin). destruct (HP _ _ Hin) as [_ Px].
                pose proof (smember_value rx (k, x)) as Hsv. cbn [snd] in Hsv.
                apply Px; [|exact Hv]. apply rule_free_r. rewrite <- Hsv.
                apply (no_hash_struct_member _ _ Hnh). apply in_map. assumption.
             ++ rewrite Hlen in Hcnt. erewrite filter_ext; [exact Hcnt|]. intros m. cbv beta.
                rewrite (Hfm (fst m) es Hnamed). destruct (hash_get (is_vstr (fst m)) es); reflexivity.
        * (* detailed type: Hash of variants *)
          destruct T; try discriminate Hb; cbn [recv flat flat_recv Lattice.nullable is_undef orb] in Hr; try (dead Hr).
          -- cbn. exact Hr.
          -- apply andb_true_iff in Hr. destruct Hr as [Hsz Hr]. unfold es at 1 in Hr. rewrite zlen_cons_pos in Hr. cbn [orb] in Hr.
             apply andb_true_iff in Hr. destruct Hr as [Hrk Hrx]. rewrite inst_hash.
             unfold size_sub in Hsz. unfold in_size. rewrite Hsz. cbn [andb].
             unfold rule_free in Hrf. cbn [no_struct no_hash] in Hrf. rewrite orb_false_r in Hrf.
             apply andb_true_iff in Hrf. destruct Hrf as [Hn1 Hn2].
             apply forallb_forall. intros [k x] Hin. cbn [fst snd]. destruct (HP _ _ Hin) as [Pk Px].
             apply andb_true_iff. split.
             ++ apply Pk; [apply rule_free_l; assumption|]. apply (asg_mk_variant _ _ Hrk).
                apply dedup_exact_in; [assumption|]. unfold dkeys.
                change (D k) with ((fun e => match e with (k', _) => D k' end) (k, x)). apply in_map. assumption.
             ++ apply Px; [apply rule_free_l; assumption|]. apply (asg_mk_variant _ _ Hrx).
                apply dedup_exact_in; [assumption|]. unfold dvals.
                change (D x) with ((fun e => match e with (_, x') => D x' end) (k, x)). apply in_map. assumption.
          -- cbn in Hrf. discriminate.
    - (* Type *) destruct T; try discriminate Hb; cbn in Hr; try (dead Hr). exact Hr.
    - (* Sensitive *) destruct T; try discriminate Hb; cbn [infer_detailed infer recv flat flat_recv Lattice.nullable is_undef orb] in Hr; try (dead Hr). cbn [inst].
      apply IHv; [assumption| |exact Hr]. exact Hrf.
  Qed.
End DetailedSound.

(* ---------------------------------------------------------------------------------------------- *)
(* detailed_complete: for a value without undef-valued hash entry, every type that has the value as an
   instance accepts its detailed type *)
From PcoreV Require Import Proofs.StructCount.

Definition is_vundef (v : value) : bool := match v with VUndef => true | _ => false end.

(* the exclusion the property names: no hash entry (at any depth) whose value is undef *)
Fixpoint no_undef_entry (v : value) : bool :=
  match v with
  | VArr vs => forallb no_undef_entry vs
  | VHash es => forallb (fun e => negb (is_vundef (snd e)) && no_undef_entry (fst e) && no_undef_entry (snd e)) es
  | VSensitive x => no_undef_entry x
  | _ => true
  end.

(* a float value is the order key of a float: between the keys of -Inf and +Inf (types.VerifFloatKey; true of every
   float the implementation can hold - not an exclusion, the infinities are inside) *)
Fixpoint fin_val (v : value) : bool :=
  match v with
  | VFloat k => in_size (- InfF) InfF k
  | VArr vs => forallb fin_val vs
  | VHash es => forallb (fun e => fin_val (fst e) && fin_val (snd e)) es
  | VSensitive x => fin_val x
  | _ => true
  end.

Definition is_nil {X} (l : list X) : bool := match l with [] => true | _ => false end.

(* nothing outside the model, string hash keys pairwise different (C09's invariant): all that detailed_complete needs
   of the value besides the exclusion the property names (no reflexivity, no condition on UniqueTypes) *)
Fixpoint kv_ok (v : value) : bool :=
  match v with
  | VOther _ => false
  | VArr vs => forallb kv_ok vs
  | VHash es => distinct_keys (map fst es) && forallb (fun e => kv_ok (fst e) && kv_ok (snd e)) es
  | VSensitive x => kv_ok x
  | _ => true
  end.

(* what the statement needs of T: Struct types as NewStructType/NewStructElement build them (distinct, non-empty
   member names, key String[name] or Optional[String[name]]), and — finding C04/tuple-slots-beyond-size — no
   Tuple with more element types than its minimum size *)
Fixpoint cwf (t : ty) : bool :=
  match t with
  | TTuple ts _ lo _ => (zlen ts <=? lo) && forallb cwf ts
  | TStruct ms =>
      distinct (map fst ms) &&
      forallb (fun m => negb (is_nil (fst m)) && key_ok (fst m) (fst (snd m)) && cwf (snd (snd m))) ms
  | TArray e _ _ => cwf e
  | THash k v _ _ => cwf k && cwf v
  | TVariant ts => forallb cwf ts
  | TOptional t | TNotUndef t | TSensitive t => cwf t
  | _ => true
  end.

Section DetailedComplete.
  Variable rx : str -> str -> bool.
  Notation A := (asg rx true).
  Notation R := (recv rx true (asg rx true)).
  Notation I := (inst rx true).
  Notation D := (infer_detailed rx).

  Definition Q (v : value) : Prop := forall T, cwf T = true -> I T v = true -> A T (D v) = true.

  Lemma complete_wrap v :
    (forall T, base T = true -> cwf T = true -> I T v = true -> R T (D v) = true) -> Q v.
  Proof.
    intros Hbase. unfold Q. pose proof (D_plain rx v) as Hp.
    induction T using ty_ind'; intros Hw Hi;
      try (apply (is_any_false_recv rx true _ _ Hp); apply Hbase; [reflexivity|exact Hw|exact Hi]).
    - apply asg_any_l.
    - apply (is_any_false_recv rx true _ _ Hp). reflexivity.
    - (* Variant *) cbn [inst] in Hi. apply existsb_exists in Hi. destruct Hi as (t & Ht & Hi).
      cbn [cwf] in Hw. rewrite forallb_forall in Hw. rewrite Forall_forall in H.
      apply (variant_intro rx true ts t Ht). apply H; auto.
    - (* Optional *) cbn [cwf] in Hw. destruct (is_vundef v) eqn:Ev.
      + destruct v; try discriminate. apply (is_any_false_recv rx true); reflexivity.
      + apply optional_intro. apply IHT; [assumption|]. destruct v; try exact Hi. discriminate.
    - (* NotUndef *) cbn [cwf] in Hw. assert (Hv : I T v = true /\ is_vundef v = false).
      { destruct v; try discriminate; split; try exact Hi; reflexivity. }
      destruct Hv as [Hi' Hv]. apply notundef_intro; [|apply IHT; assumption].
      destruct (Lattice.nullable (D v)) eqn:En; [|reflexivity]. apply D_nullable in En. subst. discriminate.
  Qed.

  (* only undef has a detailed type that accepts Undef *)
  Lemma D_accepts_undef x : A (D x) TUndef = true -> x = VUndef.
  Proof.
    intros Ha. rewrite (asg_plain rx true) in Ha by reflexivity.
    destruct x; try reflexivity; try (cbn in Ha; discriminate).
    - destruct vs; cbn in Ha; discriminate.
    - destruct es as [|e r]; [cbn in Ha; discriminate|]. rewrite D_hash_cons in Ha.
      destruct (forallb is_named (e :: r)); cbn in Ha; discriminate.
  Qed.

  Lemma walk_tpairs ts : forall vs,
    (length ts <= length vs)%nat -> walk I ts vs = true ->
    (forall t x, In t ts -> In x vs -> I t x = true -> A t (D x) = true) ->
    tpairs A ts (map D vs) = true.
  Proof.
    induction ts as [|t ts IH]; intros vs Hlen Hw Hc; [reflexivity|].
    destruct vs as [|x vs]; [cbn in Hlen; lia|]. destruct ts as [|t' ts].
    - cbn in Hw. apply andb_true_iff in Hw. destruct Hw as [H0 Hall]. cbn.
      rewrite (Hc t x) by (cbn; auto). cbn [andb]. apply forallb_forall. intros d Hd.
      apply in_map_iff in Hd. destruct Hd as (y & <- & Hy). rewrite forallb_forall in Hall. apply Hc; cbn; auto.
    - destruct vs as [|x' vs]; [cbn in Hlen; lia|].
      change (I t x && walk I (t' :: ts) (x' :: vs) = true) in Hw. apply andb_true_iff in Hw. destruct Hw as [H0 Hw].
      change (A t (D x) && tpairs A (t' :: ts) (map D (x' :: vs)) = true).
      rewrite (Hc t x) by (cbn; auto). cbn [andb]. apply IH; [cbn in Hlen |- *; lia|exact Hw|].
      intros u y Hu Hy. apply Hc; right; assumption.
  Qed.

  Lemma asg_mk_variant_intro k us : (forall u, In u us -> A k u = true) -> A k (mk_variant us) = true.
  Proof.
    intros H. destruct us as [|u0 [|u1 us]].
    - cbn [mk_variant]. rewrite asg_variant_r. apply orb_true_r.
    - apply H. left. reflexivity.
    - cbn [mk_variant]. rewrite asg_variant_r. apply orb_true_iff. right. apply forallb_forall. exact H.
  Qed.

  Lemma key_ok_accepts n k : key_ok n k = true -> A k (TStringVal n) = true.
  Proof.
    destruct k; try discriminate; cbn [key_ok].
    - intros H. apply str_eqb_eq in H. subst. apply (is_any_false_recv rx true); [reflexivity|]. cbn. apply str_eqb_refl.
    - destruct k; try discriminate. intros H. apply str_eqb_eq in H. subst.
      apply (is_any_false_recv rx true); [reflexivity|]. cbn [recv].
      assert (Hs : A (TStringVal n) (TStringVal n) = true)
        by (apply (is_any_false_recv rx true); [reflexivity|]; cbn; apply str_eqb_refl).
      rewrite Hs. apply orb_true_r.
  Qed.

  Ltac dead Hi :=
    solve [ discriminate Hi
          | repeat (match type of Hi with context [match ?x with _ => _ end] => destruct x end; try discriminate Hi) ].

  Definition cv_ok (v : value) : bool := dv_ok rx v && no_undef_entry v && fin_val v.
  Definition cv_ok0 (v : value) : bool := kv_ok v && no_undef_entry v && fin_val v.

  Lemma dv_kv : forall v, dv_ok rx v = true -> kv_ok v = true.
  Proof.
    induction v using value_ind'; intros Hok; cbn [dv_ok kv_ok] in *; try reflexivity; try discriminate Hok.
    - rewrite forallb_forall in Hok. rewrite Forall_forall in H. apply forallb_forall. intros y Hy. apply (H y Hy). auto.
    - apply andb_true_iff in Hok. destruct Hok as [Hok _]. apply andb_true_iff in Hok. destruct Hok as [Hok _].
      apply andb_true_iff in Hok. destruct Hok as [Hk Hall]. rewrite Hk. cbn [andb].
      rewrite forallb_forall in Hall. rewrite Forall_forall in H. apply forallb_forall. intros e He.
      specialize (Hall e He). apply andb_true_iff in Hall. destruct Hall as [H1 H2]. destruct (H e He) as [I1 I2].
      rewrite (I1 H1), (I2 H2). reflexivity.
    - auto.
  Qed.

  Lemma cv_ok_cv_ok0 v : cv_ok v = true -> cv_ok0 v = true.
  Proof.
    unfold cv_ok, cv_ok0. intros H. apply andb_true_iff in H. destruct H as [H H3]. apply andb_true_iff in H.
    destruct H as [H1 H2]. rewrite (dv_kv v H1), H2, H3. reflexivity.
  Qed.

  Lemma cv_ok_split v : cv_ok0 v = true -> kv_ok v = true /\ no_undef_entry v = true /\ fin_val v = true.
  Proof. unfold cv_ok0. intros H. apply andb_true_iff in H. destruct H as [H H3]. apply andb_true_iff in H. tauto. Qed.

  Lemma cv_ok_join v : kv_ok v = true -> no_undef_entry v = true -> fin_val v = true -> cv_ok0 v = true.
  Proof. unfold cv_ok0. now intros -> -> ->. Qed.

  Lemma cv_ok_arr vs y : cv_ok0 (VArr vs) = true -> In y vs -> cv_ok0 y = true.
  Proof.
    intros H Hy. apply cv_ok_split in H. destruct H as (H1 & H2 & H3). cbn [kv_ok no_undef_entry fin_val] in *.
    rewrite forallb_forall in H1, H2, H3. apply cv_ok_join; auto.
  Qed.

  Lemma cv_ok_hash es k x : cv_ok0 (VHash es) = true -> In (k, x) es ->
    cv_ok0 k = true /\ cv_ok0 x = true /\ is_vundef x = false.
  Proof.
    intros H Hin. apply cv_ok_split in H. destruct H as (H1 & H2 & H3). cbn [kv_ok no_undef_entry fin_val] in *.
    apply andb_true_iff in H1. destruct H1 as [_ H1].
    rewrite forallb_forall in H1, H2, H3. specialize (H1 _ Hin). specialize (H2 _ Hin). specialize (H3 _ Hin).
    cbn [fst snd] in *. apply andb_true_iff in H1. destruct H1 as [D1 D2].
    apply andb_true_iff in H2. destruct H2 as [N0 N2]. apply andb_true_iff in N0. destruct N0 as [N0 N1].
    apply andb_true_iff in H3. destruct H3 as [F1 F2]. apply negb_true_iff in N0.
    repeat split; [apply cv_ok_join; assumption|apply cv_ok_join; assumption|assumption].
  Qed.

  (* the guard cv_ok0 asks nothing about types used as values (no reflexivity) nor about UniqueTypes: the proof only
     needs that every member of the deduplicated list is a member of the list (udedup_incl) *)
  Theorem detailed_complete_core0 : forall v, cv_ok0 v = true -> Q v.
  Proof.
    induction v using value_ind'; intros Hok; apply complete_wrap; intros T Hb Hw Hi.
    - (* Undef *) destruct T; try discriminate Hb; cbn in Hi; try (dead Hi); reflexivity.
    - (* Default *) destruct T; try discriminate Hb; cbn in Hi; try (dead Hi); reflexivity.
    - (* Bool *) destruct T; try discriminate Hb; cbn in Hi; try (dead Hi); try reflexivity.
      cbn. destruct v as [x|]; [|reflexivity]. cbn. apply eqb_prop in Hi. subst. apply eqb_reflx.
    - (* Int *) destruct T; try discriminate Hb; cbn in Hi; try (dead Hi); try reflexivity. exact Hi.
    - (* Float *) unfold cv_ok0 in Hok. cbn [kv_ok no_undef_entry fin_val andb] in Hok.
      destruct T; try discriminate Hb; cbn in Hi; try (dead Hi); try reflexivity.
      + (* Float[lo, hi]: k is inside, or the range is unbounded and k is a float key *)
        cbn [infer_detailed infer recv]. unfold in_size, float_unbounded, size_sub in *. lia.
      + (* ScalarData: its Float member is the unbounded Float type *)
        cbn [infer_detailed infer recv flat flat_recv orb]. exact Hok.
    - (* NaN: an instance of the unbounded Float type only, which is its type *)
      destruct T; try discriminate Hb; cbn in Hi; try (dead Hi); try reflexivity. exact Hi.
    - (* Str *) destruct T; try discriminate Hb; cbn in Hi; try (dead Hi); try reflexivity; cbn [infer_detailed infer recv].
      + exact Hi.
      + exact Hi.
      + destruct vs; [reflexivity|exact Hi].
      + destruct rxs; [reflexivity|exact Hi].
    - (* Regexp *) destruct T; try discriminate Hb; cbn in Hi; try (dead Hi); try reflexivity. exact Hi.
    - (* Binary *) destruct T; try discriminate Hb; cbn in Hi; try (dead Hi); reflexivity.
    - (* Arr *) destruct vs as [|x r].
      + (* [] *) destruct T; try discriminate Hb; try (cbn in Hi; discriminate Hi).
        * exact Hi.
        * rewrite inst_array in Hi. apply andb_true_iff in Hi. destruct Hi as [Hsz _].
          cbn [infer_detailed recv]. change (size_sub lo hi 0 0 = true) in Hsz. rewrite Hsz. reflexivity.
        * rewrite inst_tuple in Hi. apply andb_true_iff in Hi. destruct Hi as [Hsz _].
          cbn [infer_detailed recv]. change (size_sub lo hi 0 0 = true) in Hsz. rewrite Hsz. reflexivity.
      + set (vs := x :: r) in *. rewrite Forall_forall in H.
        assert (HQ : forall y, In y vs -> Q y) by (intros y Hy; apply (H y Hy); apply (cv_ok_arr vs y Hok Hy)).
        unfold vs at 1. rewrite D_arr_cons. fold vs.
        destruct T; try discriminate Hb; try (cbn in Hi; discriminate Hi).
        * (* Collection *) exact Hi.
        * (* Array *) rewrite inst_array in Hi. apply andb_true_iff in Hi. destruct Hi as [Hsz Hi].
          cbn [recv]. change (size_sub lo hi (zlen vs) (zlen vs) = true) in Hsz. rewrite Hsz. cbn [andb].
          unfold vs at 1. rewrite zlen_cons_pos. cbn [orb]. unfold vs. cbn [map]. fold vs.
          change (forallb (A T) (map D vs) = true). apply forallb_forall. intros d Hd.
          apply in_map_iff in Hd. destruct Hd as (y & <- & Hy). cbn [cwf] in Hw.
          apply orb_true_iff in Hi. destruct Hi as [Hi|Hi].
          -- apply is_any_eq in Hi. subst. apply asg_any_l.
          -- rewrite forallb_forall in Hi. apply (HQ y Hy); auto.
        * (* Tuple *) rewrite inst_tuple in Hi. apply andb_true_iff in Hi. destruct Hi as [Hsz Hi].
          cbn [recv]. change (size_sub lo hi (zlen vs) (zlen vs) = true) in Hsz. rewrite Hsz. cbn [andb].
          destruct ts as [|t0 ts]; [reflexivity|]. unfold vs at 1. rewrite zlen_cons_pos. cbn [orb].
          unfold vs. cbn [map]. fold vs. change (tpairs A (t0 :: ts) (map D vs) = true).
          cbn [cwf] in Hw. apply andb_true_iff in Hw. destruct Hw as [Htight Hw]. rewrite forallb_forall in Hw.
          apply walk_tpairs; [|exact Hi|].
          -- unfold size_sub in Hsz. apply andb_true_iff in Hsz. destruct Hsz as [Hlo _].
             apply Z.leb_le in Hlo, Htight. unfold zlen in *. lia.
          -- intros t y Ht Hy Hity. apply (HQ y Hy); auto.
    - (* Hash *) destruct es as [|e r].
      + (* {} *) destruct T; try discriminate Hb; try (cbn in Hi; discriminate Hi).
        * exact Hi.
        * rewrite inst_hash in Hi. apply andb_true_iff in Hi. destruct Hi as [Hsz _].
          cbn [infer_detailed recv]. change (size_sub lo hi 0 0 = true) in Hsz. rewrite Hsz. reflexivity.
        * (* Struct: every member optional *) rewrite inst_struct in Hi. apply andb_true_iff in Hi. destruct Hi as [Hall _].
          cbn [hash_get] in Hall. cbn [infer_detailed recv andb].
          assert (Hreq : struct_required ms = 0).
          { unfold struct_required. rewrite filter_none; [reflexivity|].
            intros m Hm. rewrite forallb_forall in Hall. rewrite (Hall m Hm). reflexivity. }
          rewrite Hreq.
          assert (Hf : forallb (fun m : str * (ty * ty) => key_optional (fst (snd m)) || A (snd (snd m)) TUnit) ms = true).
          { apply forallb_forall. intros m Hm. rewrite forallb_forall in Hall. rewrite (Hall m Hm). reflexivity. }
          assert (Hs : size_sub 0 (zlen ms) 0 0 = true).
          { unfold size_sub. apply andb_true_iff. split; apply Z.leb_le; unfold zlen; lia. }
          rewrite Hf, Hs. reflexivity.
      + set (es := e :: r) in *. rewrite Forall_forall in H.
        assert (HQ : forall k x, In (k, x) es -> Q k /\ Q x /\ is_vundef x = false).
        { intros k x Hin. destruct (H _ Hin) as [Hk Hx]. destruct (cv_ok_hash es k x Hok Hin) as (H1 & H2 & H3).
          cbn [fst snd] in *. auto. }
        assert (Hkeys : distinct_keys (map fst es) = true).
        { destruct (cv_ok_split _ Hok) as (Hkv & _ & _). cbn [kv_ok] in Hkv. apply andb_true_iff in Hkv. tauto. }
        unfold es at 1. rewrite D_hash_cons. fold es.
        destruct (forallb is_named es) eqn:Enamed.
        * (* detailed type: Struct, every key required *)
          pose proof (find_member_smember rx) as Hfm.
          assert (Hnamed := Enamed). rewrite forallb_forall in Enamed.
          assert (Hlen : zlen (map (smember rx) es) = zlen es) by (unfold zlen; now rewrite map_length).
          assert (Hkeyreq : forall e0, In e0 es -> key_optional (fst (snd (smember rx e0))) = false).
          { intros [k x] Hin. destruct (HQ _ _ Hin) as (_ & _ & Hx). cbn [smember fst snd].
            destruct (A (D x) TUndef) eqn:Ea; [apply D_accepts_undef in Ea; subst; discriminate|]. reflexivity. }
          assert (Hreq : struct_required (map (smember rx) es) = zlen es).
          { unfold struct_required. rewrite filter_all; [exact Hlen|]. intros m Hm.
            apply in_map_iff in Hm. destruct Hm as (e0 & <- & He0). rewrite (Hkeyreq _ He0). reflexivity. }
          destruct T; try discriminate Hb; try (cbn in Hi; discriminate Hi).
          -- (* Collection *) cbn [recv]. rewrite Hreq, Hlen. exact Hi.
          -- (* Hash *) rewrite inst_hash in Hi. apply andb_true_iff in Hi. destruct Hi as [Hsz Hi].
             cbn [recv]. rewrite Hreq, Hlen. change (size_sub lo hi (zlen es) (zlen es) = true) in Hsz. rewrite Hsz. cbn [andb].
             cbn [cwf] in Hw. apply andb_true_iff in Hw. destruct Hw as [Hw1 Hw2].
             apply forallb_forall. intros m Hm. apply in_map_iff in Hm. destruct Hm as ([k x] & <- & Hin).
             rewrite forallb_forall in Hi. specialize (Hi _ Hin). cbn [fst snd] in Hi. apply andb_true_iff in Hi. destruct Hi as [Hik Hix].
             destruct (is_named_key rx _ (Enamed _ Hin)) as (n & Hk & Hne & Hf). cbn [fst] in Hk. subst k.
             destruct (smember_key rx (VStr n, x) n eq_refl Hne) as [Hak _]. rewrite Hak.
             pose proof (smember_value rx (VStr n, x)) as Hsv. cbn [snd] in Hsv. rewrite Hsv.
             destruct (HQ _ _ Hin) as (Qk & Qx & _). pose proof (Qk T1 Hw1 Hik) as Hk1. cbn [infer_detailed infer] in Hk1.
             rewrite Hk1. rewrite (Qx T2 Hw2 Hix). reflexivity.
          -- (* Struct *) rewrite inst_struct in Hi. apply andb_true_iff in Hi. destruct Hi as [Hmem Hcnt].
             cbn [cwf] in Hw. apply andb_true_iff in Hw. destruct Hw as [Hdist Hw]. rewrite forallb_forall in Hw.
             cbn [recv]. apply andb_true_iff. split.
             ++ apply forallb_forall. intros m Hm. rewrite forallb_forall in Hmem. specialize (Hmem m Hm).
                rewrite (Hfm (fst m) es Hnamed).
                destruct (hash_get (is_vstr (fst m)) es) as [x|] eqn:Eg; [|exact Hmem].
                destruct (hash_get_in' _ _ _ Eg) as (k & Hin). destruct (HQ _ _ Hin) as (_ & Qx & Hx).
                destruct (A (D x) TUndef) eqn:Ea; [apply D_accepts_undef in Ea; subst; discriminate|].
                specialize (Hw m Hm). apply andb_true_iff in Hw. destruct Hw as [Hw Hcw].
                apply andb_true_iff in Hw. destruct Hw as [Hnn Hko].
                cbv beta iota. apply andb_true_iff. split; [exact (key_ok_accepts _ _ Hko)|apply Qx; assumption].
             ++ rewrite Hlen. erewrite filter_ext; [exact Hcnt|]. intros m. cbv beta.
                rewrite (Hfm (fst m) es Hnamed). destruct (hash_get (is_vstr (fst m)) es); reflexivity.
        * (* detailed type: Hash of variants *)
          destruct T; try discriminate Hb; try (cbn in Hi; discriminate Hi).
          -- exact Hi.
          -- rewrite inst_hash in Hi. apply andb_true_iff in Hi. destruct Hi as [Hsz Hi].
             cbn [recv]. change (size_sub lo hi (zlen es) (zlen es) = true) in Hsz. rewrite Hsz. cbn [andb].
             unfold es at 1. rewrite zlen_cons_pos. cbn [orb].
             cbn [cwf] in Hw. apply andb_true_iff in Hw. destruct Hw as [Hw1 Hw2]. rewrite forallb_forall in Hi.
             apply andb_true_iff. split; apply asg_mk_variant_intro; intros u Hu; apply udedup_incl in Hu;
               apply in_map_iff in Hu; destruct Hu as ([k x] & <- & Hin); specialize (Hi _ Hin); cbn [fst snd] in Hi;
               apply andb_true_iff in Hi; destruct Hi as [Hik Hix]; destruct (HQ _ _ Hin) as (Qk & Qx & _); auto.
          -- (* Struct: every entry would have to be a member, but some key is not a non-empty string *)
             exfalso. rewrite inst_struct in Hi. apply andb_true_iff in Hi. destruct Hi as [_ Hcnt].
             cbn [cwf] in Hw. apply andb_true_iff in Hw. destruct Hw as [Hdist Hw]. rewrite forallb_forall in Hw.
             pose proof (cover fst ms es Hdist Hkeys Hcnt) as Hcov.
             assert (forallb is_named es = true); [|congruence].
             apply forallb_forall. intros [k x] Hin. destruct (Hcov k x Hin) as (m & Hm & -> & _).
             specialize (Hw m Hm). apply andb_true_iff in Hw. destruct Hw as [Hw _].
             apply andb_true_iff in Hw. destruct Hw as [Hnn _]. unfold is_named.
             destruct m as [n kv]. cbn [fst] in *. destruct n; [discriminate Hnn|reflexivity].
    - (* Type *) destruct T; try discriminate Hb; cbn in Hi; try (dead Hi). exact Hi.
    - (* Sensitive *) destruct T; try discriminate Hb; try (cbn in Hi; discriminate Hi). cbn [inst] in Hi.
      cbn [infer_detailed recv]. cbn [cwf] in Hw. apply IHv; [|assumption|assumption].
      unfold cv_ok0 in *. cbn [kv_ok no_undef_entry fin_val] in Hok. exact Hok.
    - (* Other *) unfold cv_ok0 in Hok. cbn in Hok. discriminate.
  Qed.

  Theorem detailed_complete_core : forall v, cv_ok v = true -> Q v.
  Proof. intros v H. exact (detailed_complete_core0 v (cv_ok_cv_ok0 v H)). Qed.
End DetailedComplete.
