(* C13 - the several-namespace loader inside a chain of parented loaders (Model/ConcNsChain.v): nobody waits for ever.
   The pass-through steps of the parented loaders are always enabled and finite in number (the loaders above M are passed
   upwards, those below M downwards); inside M the measure of ConcNsLiveProofs decreases; whoever holds a name mutex is a
   thread inside M.LoadEntry at locked/checked/marked. *)
From Coq Require Import NArith Arith Bool List Lia.
From PcoreV Require Import Model.ConcNs Model.ConcNsChain Proofs.ConcNsProofs Proofs.ConcNsLoadProofs Proofs.ConcNsLiveProofs
  Proofs.ConcNsChainProofs.
Import ListNotations.

Definition cenabled (st : cstate) (t : ntid) : bool :=
  match ct_pc (cs_thr st t) with
  | CIdle => match ct_todo (cs_thr st t) with [] => false | _ => true end
  | CInM _ _ _ => nenabled (cs_in st) t
  | _ => true
  end.

Definition copw (c : ccfg) (o : cop) : nat := match o with CLoad l _ _ => 13 + l + c_above c | CHas _ _ _ => 1 end.
Fixpoint ctodow (c : ccfg) (os : list cop) : nat := match os with [] => 0 | o :: r => copw c o + ctodow c r end.
Definition crank (c : ccfg) (inner : nstate) (t : ntid) (p : cpc) : nat :=
  match p with
  | CIdle => 0
  | CAfter _ _ _ => 1
  | CBelow l _ _ j => 2 + (l - j)
  | CInM l _ _ => 3 + l + nrank (nt_pc (ns_thr inner t))
  | CAbove l _ _ j => 12 + l + (c_above c + 1 - j)
  end.
Definition ctm (c : ccfg) (st : cstate) (t : ntid) : nat :=
  crank c (cs_in st) t (ct_pc (cs_thr st t)) + ctodow c (ct_todo (cs_thr st t)).
Fixpoint ctotal (c : ccfg) (st : cstate) (k : nat) : nat :=
  match k with 0 => 0 | S k' => ctm c st k' + ctotal c st k' end.

(* ---- a step of t leaves the other threads alone ---------------------------------------------------------------------- *)

Lemma cstep_other : forall c st t t0, t0 <> t ->
  cs_thr (cstep c st t) t0 = cs_thr st t0 /\ ns_thr (cs_in (cstep c st t)) t0 = ns_thr (cs_in st) t0.
Proof.
  intros c st t t0 Hne. unfold cstep.
  assert (U : forall th, nupd1 (cs_thr st) t th t0 = cs_thr st t0) by (intros th; now apply nupd1_other).
  destruct (ct_pc (cs_thr st t)) as [|l s b j|l s b|l s b j|l s b].
  - destruct (ct_todo (cs_thr st t)) as [|o todo]; [auto|]. destruct o as [l s b|l s b].
    + destruct (Nat.leb 1 l && Nat.leb l (c_above c + 1 + c_below c))%bool.
      * destruct (c_above c); [unfold center|unfold cset]; cbn [cs_thr cs_in]; rewrite U; [|auto].
        split; [reflexivity|now apply nstep_enter_other].
      * unfold cfinish. cbn [cs_thr cs_in]. rewrite U. auto.
    + unfold cfinish. cbn [cs_thr cs_in]. rewrite U. auto.
  - destruct (Nat.eqb j l).
    + unfold cown. destruct (cs_miss st l s b); unfold cfinish, cset; cbn [cs_thr cs_in]; rewrite U; auto.
    + destruct (Nat.eqb j (c_above c)); [unfold center|unfold cset]; cbn [cs_thr cs_in]; rewrite U; [|auto].
      split; [reflexivity|now apply nstep_enter_other].
  - destruct (nt_pc (ns_thr (nstep KeyMapped (c_m c) (cs_in st) t) t)).
    + destruct (nlast_res (ns_log (nstep KeyMapped (c_m c) (cs_in st) t))) as [[v|]| | | |];
        try (unfold cfinish; cbn [cs_thr cs_in cs_miss cs_log]; rewrite U; split; [reflexivity|now apply nstep_other]).
      destruct (Nat.eqb l (c_above c + 1)); unfold cfinish, cset; cbn [cs_thr cs_in cs_miss cs_log]; rewrite U;
        (split; [reflexivity|now apply nstep_other]).
    + cbn [cs_thr cs_in]. split; [reflexivity|now apply nstep_other].
    + cbn [cs_thr cs_in]. split; [reflexivity|now apply nstep_other].
    + cbn [cs_thr cs_in]. split; [reflexivity|now apply nstep_other].
    + cbn [cs_thr cs_in]. split; [reflexivity|now apply nstep_other].
    + cbn [cs_thr cs_in]. split; [reflexivity|now apply nstep_other].
    + cbn [cs_thr cs_in]. split; [reflexivity|now apply nstep_other].
    + cbn [cs_thr cs_in]. split; [reflexivity|now apply nstep_other].
    + cbn [cs_thr cs_in]. split; [reflexivity|now apply nstep_other].
  - destruct (Nat.eqb j l).
    + unfold cown. destruct (cs_miss st l s b); unfold cfinish, cset; cbn [cs_thr cs_in]; rewrite U; auto.
    + unfold cset. cbn [cs_thr cs_in]. rewrite U. auto.
  - unfold cfinish. cbn [cs_thr cs_in cs_miss cs_log]. rewrite U. auto.
Qed.

Lemma ctm_other : forall c st t t0, t0 <> t -> ctm c (cstep c st t) t0 = ctm c st t0.
Proof.
  intros c st t t0 Hne. destruct (cstep_other c st t t0 Hne) as [E1 E2]. unfold ctm. rewrite E1.
  destruct (ct_pc (cs_thr st t0)); cbn [crank]; try reflexivity. now rewrite E2.
Qed.

(* ---- what is known of every reachable state ---------------------------------------------------------------------------- *)

Record clive (c : ccfg) (p : cprog) (st : cstate) : Prop := mkCLive {
  cl_idle : cidle st;
  cl_res : cres c st;
  cl_bel : forall t l s b j, ct_pc (cs_thr st t) = CBelow l s b j -> j <= l;
  cl_h : nhinv (cs_in st);
  cl_bey : forall t, length p <= t -> cs_thr st t = mkCT CIdle []
}.

Lemma nhinv_enter : forall st t s b, nhinv st -> nt_pc (ns_thr st t) = NIdle -> nhinv (nenter st t s b).
Proof. intros st t s b H Hi lk t0 Hx. rewrite pcof_nenter by exact Hi. exact (H lk t0 Hx). Qed.

Lemma cbel_step : forall c st t, cres c st ->
  (forall t0 l s b j, ct_pc (cs_thr st t0) = CBelow l s b j -> j <= l) ->
  forall t0 l s b j, ct_pc (cs_thr (cstep c st t) t0) = CBelow l s b j -> j <= l.
Proof.
  intros c st t HR H t0 l0 s0 b0 j0. destruct (Nat.eq_dec t0 t) as [->|Hne];
    [|destruct (cstep_other c st t t0 Hne) as [E _]; rewrite E; apply H].
  unfold cstep. pose proof (cr_pc c st HR t) as Hq. pose proof (H t) as Ht.
  destruct (ct_pc (cs_thr st t)) as [|l s b j|l s b|l s b j|l s b]; cbn [cq] in Hq.
  - destruct (ct_todo (cs_thr st t)) as [|o todo]; [rewrite ?Hq; intros Q; discriminate Q + (apply H in Q; exact Q)|].
    destruct o as [l s b|l s b].
    + destruct (Nat.leb 1 l && Nat.leb l (c_above c + 1 + c_below c))%bool.
      * destruct (c_above c); [unfold center|unfold cset]; cbn [cs_thr]; rewrite nupd1_same; intros Q; discriminate Q.
      * unfold cfinish. cbn [cs_thr]. rewrite nupd1_same. intros Q; discriminate Q.
    + unfold cfinish. cbn [cs_thr]. rewrite nupd1_same. intros Q; discriminate Q.
  - destruct (Nat.eqb j l).
    + unfold cown. destruct (cs_miss st l s b); unfold cfinish, cset; cbn [cs_thr]; rewrite nupd1_same; intros Q; discriminate Q.
    + destruct (Nat.eqb j (c_above c)); [unfold center|unfold cset]; cbn [cs_thr]; rewrite nupd1_same; intros Q; discriminate Q.
  - destruct Hq as [_ Hle].
    destruct (nt_pc (ns_thr (nstep KeyMapped (c_m c) (cs_in st) t) t)) eqn:Hin;
      try (cbn [cs_thr]; intros Q; exact (H t _ _ _ _ Q)).
    destruct (nlast_res (ns_log (nstep KeyMapped (c_m c) (cs_in st) t))) as [[v|]| | | |];
      try (unfold cfinish; cbn [cs_thr]; rewrite nupd1_same; intros Q; discriminate Q).
    destruct (Nat.eqb_spec l (c_above c + 1)) as [Heq|Hnl]; unfold cfinish, cset; cbn [cs_thr]; rewrite nupd1_same; intros Q;
      [discriminate Q|]. cbn [ct_pc] in Q. injection Q as <- _ _ <-. lia.
  - specialize (Ht l s b j eq_refl). destruct (Nat.eqb_spec j l) as [Heq|Hnl].
    + unfold cown. destruct (cs_miss st l s b); unfold cfinish, cset; cbn [cs_thr]; rewrite nupd1_same; intros Q; discriminate Q.
    + unfold cset. cbn [cs_thr]. rewrite nupd1_same. intros Q. cbn [ct_pc] in Q. injection Q as <- _ _ <-. lia.
  - unfold cfinish. cbn [cs_thr cs_in cs_miss cs_log]. rewrite nupd1_same. intros Q; discriminate Q.
Qed.

Lemma cbey_step : forall c (p : cprog) st t, (forall t0, length p <= t0 -> cs_thr st t0 = mkCT CIdle []) ->
  forall t0, length p <= t0 -> cs_thr (cstep c st t) t0 = mkCT CIdle [].
Proof.
  intros c p st t H t0 Ht0. destruct (Nat.eq_dec t0 t) as [->|Hne];
    [|destruct (cstep_other c st t t0 Hne) as [E _]; rewrite E; now apply H].
  unfold cstep. rewrite (H t Ht0). cbn [ct_pc ct_todo]. now apply H.
Qed.

Lemma clive_init : forall c p, clive c p (cinit p).
Proof.
  intros c p. constructor.
  - apply cidle_init.
  - constructor; cbn; [intros; contradiction | intros; exact I].
  - intros t l s b j Q. discriminate Q.
  - intros lk t Q. discriminate Q.
  - intros t Ht. unfold cinit. cbn [cs_thr]. now rewrite nth_overflow.
Qed.

Lemma clive_step : forall c p st t, clive c p st -> clive c p (cstep c st t).
Proof.
  intros c p st t [H1 H2 H3 H4 H5]. destruct (cstep_sim c st t H1) as [M C]. constructor.
  - exact C.
  - now apply cres_step.
  - now apply cbel_step.
  - revert M H4. generalize (cs_in st) (cs_in (cstep c st t)). intros a b M Ha.
    destruct M as [|t'|t' s' b' Hi]; [exact Ha | now apply nhinv_step | apply nhinv_step; now apply nhinv_enter].
  - now apply (cbey_step c p).
Qed.

Lemma clive_exec : forall c p s, clive c p (cexec c p s).
Proof.
  intros c p s. unfold cexec. generalize (clive_init c p). generalize (cinit p).
  induction s as [|t s IH]; intros st H; cbn [fold_left]; [exact H|]. apply IH. now apply clive_step.
Qed.

(* ---- every step of an enabled thread decreases its measure ------------------------------------------------------------- *)

Ltac cdec_tac := unfold ctm; cbn [cs_thr cs_in cs_miss cs_log]; rewrite nupd1_same; cbn [ct_pc ct_todo crank ctodow copw]; try lia.

Lemma cstep_dec : forall c p st t, clive c p st -> cenabled st t = true -> ctm c (cstep c st t) t < ctm c st t.
Proof.
  intros c p st t [H1 H2 H3 H4 H5] He. unfold cenabled in He. unfold cstep.
  pose proof (cr_pc c st H2 t) as Hq. pose proof (H3 t) as Hb.
  unfold ctm at 2.
  destruct (ct_pc (cs_thr st t)) as [|l s b j|l s b|l s b j|l s b] eqn:Hpc; cbn [cq] in Hq; cbn [crank].
  - destruct (ct_todo (cs_thr st t)) as [|o todo]; [discriminate|]. cbn [ctodow].
    destruct o as [l s b|l s b]; cbn [copw].
    + destruct (Nat.leb 1 l && Nat.leb l (c_above c + 1 + c_below c))%bool.
      * destruct (c_above c) eqn:Ha; [unfold center|unfold cset]; cdec_tac.
        rewrite nstep_enter_thr. cbn [nt_pc nrank]. lia.
      * unfold cfinish. cdec_tac.
    + unfold cfinish. cdec_tac.
  - destruct Hq as [Hja Hjl]. destruct (Nat.eqb_spec j l) as [Heq|Hnl].
    + unfold cown. destruct (cs_miss st l s b); unfold cfinish, cset; cdec_tac.
    + destruct (Nat.eqb_spec j (c_above c)) as [Hja'|Hna]; [unfold center|unfold cset]; cdec_tac.
      rewrite nstep_enter_thr. cbn [nt_pc nrank]. lia.
  - pose proof (nstep_dec (c_m c) (cs_in st) t He) as Hd. unfold ntm in Hd.
    rewrite (nstep_todo_nil KeyMapped (c_m c) (cs_in st) t (proj1 (H1 t))) in Hd. rewrite (proj1 (H1 t)) in Hd.
    cbn [ntodow] in Hd.
    destruct (nt_pc (ns_thr (nstep KeyMapped (c_m c) (cs_in st) t) t)) eqn:Hin.
    + destruct (nlast_res (ns_log (nstep KeyMapped (c_m c) (cs_in st) t))) as [[v|]| | | |];
        try (unfold cfinish; cdec_tac).
      destruct (Nat.eqb l (c_above c + 1)); unfold cfinish, cset; cdec_tac.
    + unfold ctm. cbn [cs_thr cs_in]. rewrite Hpc. cbn [crank]. rewrite Hin. lia.
    + unfold ctm. cbn [cs_thr cs_in]. rewrite Hpc. cbn [crank]. rewrite Hin. lia.
    + unfold ctm. cbn [cs_thr cs_in]. rewrite Hpc. cbn [crank]. rewrite Hin. lia.
    + unfold ctm. cbn [cs_thr cs_in]. rewrite Hpc. cbn [crank]. rewrite Hin. lia.
    + unfold ctm. cbn [cs_thr cs_in]. rewrite Hpc. cbn [crank]. rewrite Hin. lia.
    + unfold ctm. cbn [cs_thr cs_in]. rewrite Hpc. cbn [crank]. rewrite Hin. lia.
    + unfold ctm. cbn [cs_thr cs_in]. rewrite Hpc. cbn [crank]. rewrite Hin. lia.
    + unfold ctm. cbn [cs_thr cs_in]. rewrite Hpc. cbn [crank]. rewrite Hin. lia.
  - specialize (Hb l s b j eq_refl). destruct (Nat.eqb_spec j l) as [Heq|Hnl].
    + unfold cown. destruct (cs_miss st l s b); unfold cfinish, cset; cdec_tac.
    + unfold cset. cdec_tac.
  - unfold cfinish. cdec_tac.
Qed.

Lemma ctotal_same : forall c k st st', (forall t0, t0 < k -> ctm c st' t0 = ctm c st t0) -> ctotal c st' k = ctotal c st k.
Proof.
  induction k as [|k IH]; intros st st' H; cbn [ctotal]; [reflexivity|].
  rewrite H by lia. rewrite (IH st st'); [reflexivity|]. intros t0 Ht0. apply H. lia.
Qed.
Lemma ctotal_lt : forall c k st st' t, t < k -> (forall t0, t0 <> t -> ctm c st' t0 = ctm c st t0) ->
  ctm c st' t < ctm c st t -> ctotal c st' k < ctotal c st k.
Proof.
  induction k as [|k IH]; intros st st' t Ht Ho Hd; [lia|]. cbn [ctotal].
  destruct (Nat.eq_dec t k) as [->|Hne].
  - rewrite (ctotal_same c k st st'); [lia|]. intros t0 Ht0. apply Ho. lia.
  - rewrite (Ho k) by lia. pose proof (IH st st' t ltac:(lia) Ho Hd). lia.
Qed.

Lemma call_done_false : forall st k, call_done st k = false ->
  exists t, t < k /\ (ct_pc (cs_thr st t) <> CIdle \/ ct_todo (cs_thr st t) <> []).
Proof.
  intros st k. induction k as [|k IH]; cbn [call_done]; [discriminate|]. intros H.
  apply andb_false_iff in H. destruct H as [H|H].
  - exists k. split; [lia|]. destruct (ct_pc (cs_thr st k)); [|left; discriminate ..].
    destruct (ct_todo (cs_thr st k)); [discriminate|right; discriminate].
  - destruct (IH H) as (t & Ht & Hx). exists t. split; [lia|exact Hx].
Qed.

(* while some thread of the program has not finished, some thread of the program can move *)
Lemma chain_no_deadlock_st : forall c p st, clive c p st -> call_done st (length p) = false ->
  exists t, t < length p /\ cenabled st t = true.
Proof.
  intros c p st [H1 H2 H3 H4 H5] Hd. destruct (call_done_false st _ Hd) as (t & Ht & Hx).
  destruct (cenabled st t) eqn:He; [exists t; auto|].
  unfold cenabled in He. pose proof (cr_pc c st H2 t) as Hq.
  destruct (ct_pc (cs_thr st t)) as [|l s b j|l s b|l s b j|l s b] eqn:Hpc; try discriminate; cbn [cq] in Hq.
  - destruct (ct_todo (cs_thr st t)); [|discriminate]. destruct Hx as [Hx|Hx]; contradiction.
  - destruct Hq as [Hcur _]. unfold nenabled in He. unfold pcof in Hcur.
    destruct (nt_pc (ns_thr (cs_in st) t)) eqn:Hin; try discriminate.
    destruct (nheld (ns_sh (cs_in st)) lk) as [t'|] eqn:Hheld; [|discriminate].
    pose proof (H4 lk t' Hheld) as Hho. unfold pcof in Hho.
    assert (Hm : in_m (ct_pc (cs_thr st t')) = true).
    { destruct (in_m (ct_pc (cs_thr st t'))) eqn:E; [reflexivity|]. rewrite (proj2 (H1 t') E) in Hho. discriminate. }
    exists t'. split.
    + destruct (Nat.lt_ge_cases t' (length p)) as [Hlt|Hge]; [exact Hlt|]. rewrite (H5 t' Hge) in Hm. discriminate.
    + unfold cenabled. destruct (ct_pc (cs_thr st t')); try discriminate.
      unfold nenabled. destruct (nt_pc (ns_thr (cs_in st) t')); try discriminate; reflexivity.
Qed.

Lemma chain_can_complete_st : forall c p n st, clive c p st -> ctotal c st (length p) <= n ->
  exists s', call_done (fold_left (cstep c) s' st) (length p) = true.
Proof.
  intros c p n. induction n as [|n IH]; intros st HL Hn.
  - destruct (call_done st (length p)) eqn:Hd; [exists []; exact Hd|].
    destruct (chain_no_deadlock_st c p st HL Hd) as (t & Ht & He).
    pose proof (ctotal_lt c (length p) st (cstep c st t) t Ht (fun t0 H0 => ctm_other c st t t0 H0) (cstep_dec c p st t HL He)). lia.
  - destruct (call_done st (length p)) eqn:Hd; [exists []; exact Hd|].
    destruct (chain_no_deadlock_st c p st HL Hd) as (t & Ht & He).
    pose proof (ctotal_lt c (length p) st (cstep c st t) t Ht (fun t0 H0 => ctm_other c st t t0 H0) (cstep_dec c p st t HL He)) as Hlt.
    destruct (IH (cstep c st t) (clive_step c p st t HL) ltac:(lia)) as [s' Hs']. exists (t :: s'). exact Hs'.
Qed.

Lemma chain_no_deadlock : forall c p s, call_done (cexec c p s) (length p) = false ->
  exists t, t < length p /\ cenabled (cexec c p s) t = true.
Proof. intros c p s. apply (chain_no_deadlock_st c p). apply clive_exec. Qed.

Lemma chain_can_complete : forall c p s, exists s', call_done (cexec c p (s ++ s')) (length p) = true.
Proof.
  intros c p s. destruct (chain_can_complete_st c p _ (cexec c p s) (clive_exec c p s) (le_n _)) as [s' Hs'].
  exists s'. unfold cexec in *. now rewrite fold_left_app.
Qed.

(* ---- every operation of the program has exactly one result, in program order ------------------------------------------ *)

Definition ccur (p : cpc) : list cop :=
  match p with
  | CIdle => []
  | CAbove l s b _ | CBelow l s b _ => [CLoad l s b]
  | CInM l s b | CAfter l s b => [CLoad l s b]
  end.
Fixpoint cevs_of (t : ntid) (log : list cevent) : list (cop * nres) :=
  match log with
  | [] => []
  | (t', o, r) :: log' => if Nat.eqb t' t then (o, r) :: cevs_of t log' else cevs_of t log'
  end.
Lemma cevs_of_app : forall t l1 l2, cevs_of t (l1 ++ l2) = cevs_of t l1 ++ cevs_of t l2.
Proof.
  intros t l1 l2. induction l1 as [|[[t' o] r] l1 IH]; cbn [app cevs_of]; [reflexivity|].
  destruct (Nat.eqb t' t); rewrite IH; reflexivity.
Qed.
Lemma cevs_of_in : forall t o r log, In (o, r) (cevs_of t log) -> In (t, o, r) log.
Proof.
  intros t o r log. induction log as [|[[t' o'] r'] log IH]; cbn [cevs_of]; [auto|].
  destruct (Nat.eqb_spec t' t) as [->|Hne].
  - intros [H|H]; [injection H as -> ->; now left | right; now apply IH].
  - intros H. right. now apply IH.
Qed.

Definition cpinv (p : cprog) (st : cstate) : Prop :=
  forall t, map fst (cevs_of t (cs_log st)) ++ ccur (ct_pc (cs_thr st t)) ++ ct_todo (cs_thr st t) = nth t p [].

Lemma cpinv_fin : forall p st t inner' miss' todo' o r, cpinv p st ->
  o :: todo' = ccur (ct_pc (cs_thr st t)) ++ ct_todo (cs_thr st t) ->
  cpinv p (mkCSt inner' (nupd1 (cs_thr st) t (mkCT CIdle todo')) miss' (cs_log st ++ [(t, o, r)])).
Proof.
  intros p st t inner' miss' todo' o r H Hm t0. cbn [cs_log cs_thr]. rewrite cevs_of_app, map_app.
  destruct (Nat.eq_dec t0 t) as [->|Hne].
  - rewrite nupd1_same. cbn [ct_pc ct_todo ccur cevs_of]. rewrite Nat.eqb_refl. cbn [map fst app].
    rewrite <- app_assoc. cbn [app]. rewrite Hm. apply H.
  - rewrite nupd1_other by exact Hne. cbn [cevs_of]. destruct (Nat.eqb_spec t t0) as [Heq|_]; [congruence|].
    cbn [map]. rewrite app_nil_r. apply H.
Qed.
Lemma cpinv_set : forall p st t inner' miss' th', cpinv p st ->
  ccur (ct_pc th') ++ ct_todo th' = ccur (ct_pc (cs_thr st t)) ++ ct_todo (cs_thr st t) ->
  cpinv p (mkCSt inner' (nupd1 (cs_thr st) t th') miss' (cs_log st)).
Proof.
  intros p st t inner' miss' th' H Hm t0. cbn [cs_log cs_thr]. destruct (Nat.eq_dec t0 t) as [->|Hne].
  - rewrite nupd1_same. rewrite Hm. apply H.
  - rewrite nupd1_other by exact Hne. apply H.
Qed.

Lemma cpinv_step : forall c p st t, cpinv p st -> cpinv p (cstep c st t).
Proof.
  intros c p st t H. unfold cstep.
  destruct (ct_pc (cs_thr st t)) as [|l s b j|l s b|l s b j|l s b] eqn:Hpc.
  - destruct (ct_todo (cs_thr st t)) as [|o todo] eqn:Htodo; [exact H|]. destruct o as [l s b|l s b].
    + destruct (Nat.leb 1 l && Nat.leb l (c_above c + 1 + c_below c))%bool.
      * destruct (c_above c); [unfold center|unfold cset]; apply cpinv_set; auto; rewrite Hpc, Htodo; reflexivity.
      * unfold cfinish. apply cpinv_fin; auto. rewrite Hpc, Htodo. reflexivity.
    + unfold cfinish. apply cpinv_fin; auto. rewrite Hpc, Htodo. reflexivity.
  - destruct (Nat.eqb j l).
    + unfold cown. destruct (cs_miss st l s b); unfold cfinish, cset;
        [apply cpinv_fin | apply cpinv_set]; auto; rewrite Hpc; reflexivity.
    + destruct (Nat.eqb j (c_above c)); [unfold center|unfold cset]; apply cpinv_set; auto; rewrite Hpc; reflexivity.
  - destruct (nt_pc (ns_thr (nstep KeyMapped (c_m c) (cs_in st) t) t)); try exact H.
    destruct (nlast_res (ns_log (nstep KeyMapped (c_m c) (cs_in st) t))) as [[v|]| | | |];
      try (unfold cfinish; cbn [cs_in cs_thr cs_miss cs_log]; apply cpinv_fin; auto; rewrite Hpc; reflexivity).
    destruct (Nat.eqb l (c_above c + 1)); unfold cfinish, cset; cbn [cs_in cs_thr cs_miss cs_log];
      [apply cpinv_fin | apply cpinv_set]; auto; rewrite Hpc; reflexivity.
  - destruct (Nat.eqb j l).
    + unfold cown. destruct (cs_miss st l s b); unfold cfinish, cset;
        [apply cpinv_fin | apply cpinv_set]; auto; rewrite Hpc; reflexivity.
    + unfold cset. apply cpinv_set; auto; rewrite Hpc; reflexivity.
  - unfold cfinish. cbn [cs_in cs_thr cs_miss cs_log]. apply cpinv_fin; auto. rewrite Hpc. reflexivity.
Qed.

Lemma cpinv_exec : forall c p s, cpinv p (cexec c p s).
Proof.
  intros c p s. unfold cexec.
  assert (H0 : cpinv p (cinit p)) by (intros t; reflexivity).
  revert H0. generalize (cinit p).
  induction s as [|t s IH]; intros st H; cbn [fold_left]; [exact H|]. apply IH. now apply cpinv_step.
Qed.

Lemma call_done_true : forall st k, call_done st k = true ->
  forall t, t < k -> ct_pc (cs_thr st t) = CIdle /\ ct_todo (cs_thr st t) = [].
Proof.
  intros st k. induction k as [|k IH]; cbn [call_done]; intros H t Ht; [lia|].
  apply andb_true_iff in H. destruct H as [H1 H2]. destruct (Nat.eq_dec t k) as [->|Hne]; [|apply IH; [exact H2|lia]].
  destruct (ct_pc (cs_thr st k)); try discriminate. destruct (ct_todo (cs_thr st k)); [auto|discriminate].
Qed.

Lemma chain_all_results : forall c p s, call_done (cexec c p s) (length p) = true ->
  forall t, map fst (cevs_of t (cs_log (cexec c p s))) = nth t p [].
Proof.
  intros c p s Hd t. pose proof (cpinv_exec c p s t) as H.
  assert (E : ct_pc (cs_thr (cexec c p s) t) = CIdle /\ ct_todo (cs_thr (cexec c p s) t) = []).
  { destruct (Nat.lt_ge_cases t (length p)) as [Hlt|Hge]; [exact (call_done_true _ _ Hd t Hlt)|].
    rewrite (cl_bey c p _ (clive_exec c p s) t Hge). auto. }
  destruct E as [E1 E2]. rewrite E1, E2 in H. cbn [ccur app] in H. now rewrite app_nil_r in H.
Qed.

(* liveness + result for every chain: every schedule can be continued until every operation has returned; then each
   thread has one result per operation, in program order, and every load of a good file through a namespace other than
   the first, through M or a loader below M, has returned the value of the file *)
Lemma chain_every_load_returns_value : forall c p s,
  exists s', call_done (cexec c p (s ++ s')) (length p) = true /\
    forall t, map fst (cevs_of t (cs_log (cexec c p (s ++ s')))) = nth t p [] /\
      forall l sn b r, has_file (c_m c) b = true -> is_bad (c_m c) b = false -> 1 <= sn -> sn <= n_extra (c_m c) ->
        c_above c + 1 <= l -> l <= c_above c + 1 + c_below c ->
        In (CLoad l sn b, r) (cevs_of t (cs_log (cexec c p (s ++ s')))) -> r = NFound (Some 0).
Proof.
  intros c p s. destruct (chain_can_complete c p s) as [s' Hs']. exists s'. split; [exact Hs'|].
  intros t. split; [now apply chain_all_results|].
  intros l sn b r Hf Hb H1 Hs Hl Hl2 Hin. apply cevs_of_in in Hin.
  exact (chain_load_finds_value c p (s ++ s') t l sn b r Hf Hb H1 Hs Hl Hl2 Hin).
Qed.
