(* KeysRichProofs.v — C07: lemmas about Model/KeysRich.v (Timestamp, Timespan and Runtime types). *)
From Coq Require Import ZArith NArith Bool String List Lia.
From PcoreV Require Import Model.Base Model.Keys Model.KeysRich Proofs.KeysCode Proofs.KeysTypes.
Import ListNotations.
Open Scope Z_scope.

Lemma name_ok_Timestamp : name_ok (bytes_of "Timestamp"). Proof. vm_compute. repeat constructor. Qed.
Lemma name_ok_Timespan : name_ok (bytes_of "Timespan"). Proof. vm_compute. repeat constructor. Qed.
Lemma name_ok_Runtime : name_ok (bytes_of "Runtime"). Proof. vm_compute. repeat constructor. Qed.

Lemma kdefault_ne_kstr s : k_default <> k_str s.
Proof. unfold k_default, k_str. discriminate. Qed.

(* ------------------------------------------------------------------------------------------ *)
(* Timestamp types *)

Definition ts_insts (t : tstype) : Z * Z := (t_inst (ts_min t), t_inst (ts_max t)).

Lemma time_equal_l a b : t_mono a = None -> time_equal a b = (t_inst a =? t_inst b).
Proof. unfold time_equal. intros ->. reflexivity. Qed.
Lemma time_equal_r a b : t_mono b = None -> time_equal a b = (t_inst a =? t_inst b).
Proof. unfold time_equal. intros ->. destruct (t_mono a); reflexivity. Qed.

Lemma ts_okb_ok t : ts_okb t = true <-> ts_ok t.
Proof.
  unfold ts_okb, ts_ok. destruct (t_mono (ts_min t)), (t_mono (ts_max t)); split; intros H;
    try discriminate; try (destruct H; discriminate); auto.
Qed.

(* every constructor establishes the invariant *)
Lemma convert_arg_nomono first b : t_mono (convert_arg first b) = None.
Proof. destruct b, first; reflexivity. Qed.
Lemma new_timestamp_type_ok lo hi : ts_ok (new_timestamp_type lo hi).
Proof. split; reflexivity. Qed.
Lemma new_timestamp_type2_ok lo hi : ts_ok (new_timestamp_type2 lo hi).
Proof. split; cbn [new_timestamp_type2 ts_min ts_max]; [apply convert_arg_nomono|destruct hi; [apply convert_arg_nomono|reflexivity]]. Qed.
Lemma default_timestamp_type_ok : ts_ok default_timestamp_type.
Proof. split; reflexivity. Qed.

(* Equals of a type in order compares the instants, whatever the other operand holds *)
Lemma ts_equals_l a b : ts_ok a ->
  ts_equals a b = (t_inst (ts_min a) =? t_inst (ts_min b)) && (t_inst (ts_max a) =? t_inst (ts_max b)).
Proof. intros [H1 H2]. unfold ts_equals. rewrite (time_equal_l _ _ H1), (time_equal_l _ _ H2). reflexivity. Qed.
Lemma ts_equals_r a b : ts_ok b ->
  ts_equals a b = (t_inst (ts_min a) =? t_inst (ts_min b)) && (t_inst (ts_max a) =? t_inst (ts_max b)).
Proof. intros [H1 H2]. unfold ts_equals. rewrite (time_equal_r _ _ H1), (time_equal_r _ _ H2). reflexivity. Qed.

Lemma ts_equals_true a b : ts_ok a -> (ts_equals a b = true <-> ts_insts a = ts_insts b).
Proof.
  intros Ha. rewrite (ts_equals_l _ _ Ha). unfold ts_insts. rewrite andb_true_iff, !Z.eqb_eq. split.
  - intros [-> ->]. reflexivity.
  - intros H. injection H as -> ->. auto.
Qed.

Lemma ts_equals_refl a : ts_ok a -> ts_equals a a = true.
Proof. intros Ha. apply ts_equals_true; auto. Qed.
Lemma ts_equals_sym a b : ts_ok a -> ts_ok b -> ts_equals a b = ts_equals b a.
Proof. intros Ha Hb. rewrite (ts_equals_l a b Ha), (ts_equals_l b a Hb), (Z.eqb_sym (t_inst (ts_min a))), (Z.eqb_sym (t_inst (ts_max a))). reflexivity. Qed.
Lemma ts_equals_trans a b c : ts_ok a -> ts_ok b ->
  ts_equals a b = true -> ts_equals b c = true -> ts_equals a c = true.
Proof.
  intros Ha Hb H1 H2. apply (ts_equals_true a b Ha) in H1. apply (ts_equals_true b c Hb) in H2.
  apply (ts_equals_true a c Ha). congruence.
Qed.

Lemma utc_inst a b : t_inst a = t_inst b -> utc a = utc b.
Proof. unfold utc. intros ->. reflexivity. Qed.

(* the parameters (hence the text and the key) are a function of the two instants: no zone, no reading *)
Lemma ts_params_insts render a b : ts_insts a = ts_insts b -> ts_params render a = ts_params render b.
Proof.
  unfold ts_insts. intros H. injection H as H1 H2. unfold ts_params.
  rewrite !(time_equal_r _ max_time eq_refl), !(time_equal_r _ min_time eq_refl), H1, H2.
  rewrite (utc_inst _ _ H1), (utc_inst _ _ H2). reflexivity.
Qed.

Section TsKey.
  Variable render : gotime -> str.
  (* what is assumed of Timestamp.String(): on times in UTC the text determines the instant; a Go string is shorter than 2^64 *)
  Hypothesis render_inj : forall a b, render (utc a) = render (utc b) -> t_inst a = t_inst b.
  Hypothesis render_len : forall g, lenok (render g) = true.

  Lemma ts_params_Key t : Forall Key (map vkey (ts_params render t)).
  Proof.
    unfold ts_params. destruct (time_equal (ts_max t) max_time), (time_equal (ts_min t) min_time); cbn [map vkey];
      repeat (apply Forall_cons || apply Forall_nil); first [apply Key_default|apply Key_str, render_len].
  Qed.

  Lemma ts_key_insts a b : ts_key render a = ts_key render b -> ts_insts a = ts_insts b.
  Proof.
    unfold ts_key. intros H.
    apply k_type_inj in H; [|apply name_ok_Timestamp|apply name_ok_Timestamp|apply ts_params_Key|apply ts_params_Key].
    destruct H as [_ H]. revert H. unfold ts_params, ts_insts.
    rewrite !(time_equal_r _ max_time eq_refl), !(time_equal_r _ min_time eq_refl).
    destruct (t_inst (ts_max a) =? t_inst max_time) eqn:Ea; destruct (t_inst (ts_min a) =? t_inst min_time) eqn:Ea';
    destruct (t_inst (ts_max b) =? t_inst max_time) eqn:Eb; destruct (t_inst (ts_min b) =? t_inst min_time) eqn:Eb';
      cbn [map vkey]; intros H; try discriminate H;
      repeat match goal with E : (_ =? _) = true |- _ => apply Z.eqb_eq in E end.
    all: repeat match goal with
           | H : _ :: _ = _ :: _ |- _ => apply cons_inj in H; destruct H
           | H : k_default = k_str _ |- _ => exfalso; exact (kdefault_ne_kstr _ H)
           | H : k_str _ = k_default |- _ => exfalso; symmetry in H; exact (kdefault_ne_kstr _ H)
           | H : k_str _ = k_str _ |- _ => apply k_str_inj in H; [|apply render_len|apply render_len]
           | H : render _ = render _ |- _ => apply render_inj in H
           end; congruence.
  Qed.

  Theorem ts_key_iff_eq a b : ts_ok a -> (ts_key render a = ts_key render b <-> ts_equals a b = true).
  Proof.
    intros Ha. rewrite (ts_equals_true a b Ha). split.
    - apply ts_key_insts.
    - intros H. unfold ts_key. rewrite (ts_params_insts render a b H). reflexivity.
  Qed.
End TsKey.

(* construction routes *)
Inductive ts_route :=
 | TRDefault
 | TRNew (lo hi : gotime)                       (* NewTimestampType *)
 | TRNew2 (lo : bound) (hi : option bound).     (* Timestamp[...] / the meta type *)

Definition ts_build (r : ts_route) : tstype :=
  match r with
  | TRDefault => default_timestamp_type
  | TRNew lo hi => new_timestamp_type lo hi
  | TRNew2 lo hi => new_timestamp_type2 lo hi
  end.

(* the instant a bound denotes *)
Definition bound_inst (first : bool) (b : bound) : Z :=
  match b with
  | BValue g => t_inst g
  | BParsed i _ => i
  | BInt n _ => mk_inst n 0
  | BDefault => if first then t_inst min_time else t_inst max_time
  end.
Definition ts_denote (r : ts_route) : Z * Z :=
  match r with
  | TRDefault => (t_inst min_time, t_inst max_time)
  | TRNew lo hi => (t_inst lo, t_inst hi)
  | TRNew2 lo hi => (bound_inst true lo, match hi with Some h => bound_inst false h | None => t_inst max_time end)
  end.

Lemma ts_build_ok r : ts_ok (ts_build r).
Proof. destruct r; [apply default_timestamp_type_ok|apply new_timestamp_type_ok|apply new_timestamp_type2_ok]. Qed.

Lemma convert_arg_inst first b : t_inst (convert_arg first b) = bound_inst first b.
Proof. destruct b, first; reflexivity. Qed.

Lemma ts_build_insts r : ts_insts (ts_build r) = ts_denote r.
Proof.
  destruct r as [|lo hi|lo hi]; try reflexivity.
  unfold ts_insts. cbn [ts_build new_timestamp_type2 ts_min ts_max ts_denote].
  rewrite convert_arg_inst. destruct hi; [rewrite convert_arg_inst|]; reflexivity.
Qed.

Theorem ts_route_not_observable render r1 r2 : ts_denote r1 = ts_denote r2 ->
  ts_equals (ts_build r1) (ts_build r2) = true /\
  ts_key render (ts_build r1) = ts_key render (ts_build r2) /\
  forall c, ts_equals (ts_build r1) c = ts_equals (ts_build r2) c /\ ts_equals c (ts_build r1) = ts_equals c (ts_build r2).
Proof.
  intros H. pose proof (ts_build_ok r1) as O1. pose proof (ts_build_ok r2) as O2.
  assert (HI : ts_insts (ts_build r1) = ts_insts (ts_build r2)) by (rewrite !ts_build_insts; exact H).
  split; [apply ts_equals_true; assumption|]. split.
  - unfold ts_key. rewrite (ts_params_insts render _ _ HI). reflexivity.
  - intros c. rewrite (ts_equals_l _ c O1), (ts_equals_l _ c O2), (ts_equals_r c _ O1), (ts_equals_r c _ O2).
    unfold ts_insts in HI. injection HI as -> ->. auto.
Qed.

(* ------------------------------------------------------------------------------------------ *)
(* Timespan types *)

Lemma sp_equals_true a b : sp_equals a b = true <-> a = b.
Proof.
  unfold sp_equals. rewrite andb_true_iff, !Z.eqb_eq. destruct a as [la ha], b as [lb hb]; cbn [sp_min sp_max]. split.
  - intros [-> ->]. reflexivity.
  - intros H. injection H as -> ->. auto.
Qed.
Lemma sp_equals_refl a : sp_equals a a = true. Proof. apply sp_equals_true. reflexivity. Qed.
Lemma sp_equals_sym a b : sp_equals a b = sp_equals b a.
Proof. unfold sp_equals. rewrite (Z.eqb_sym (sp_min a)), (Z.eqb_sym (sp_max a)). reflexivity. Qed.
Lemma sp_equals_trans a b c : sp_equals a b = true -> sp_equals b c = true -> sp_equals a c = true.
Proof. rewrite !sp_equals_true. congruence. Qed.

Section SpKey.
  Variable render : Z -> str.
  (* what is needed of Timespan.SerializationString(): the text determines the duration (int64) and is a Go string;
     proved for the modelled text sp_text in Proofs/KeysRichText.v *)
  Hypothesis render_inj : forall a b, in_int64 a = true -> in_int64 b = true -> render a = render b -> a = b.
  Hypothesis render_len : forall d, in_int64 d = true -> lenok (render d) = true.

  Lemma sp_params_Key t : sp_wf t = true -> Forall Key (map vkey (sp_params render t)).
  Proof.
    unfold sp_wf. intros W. apply andb_true_iff in W. destruct W as [W1 W2].
    unfold sp_params. destruct (sp_max t =? max_int64), (sp_min t =? min_int64); cbn [map vkey];
      repeat (apply Forall_cons || apply Forall_nil); first [apply Key_default|apply Key_str, render_len; assumption].
  Qed.

  Theorem sp_key_iff_eq a b : sp_wf a = true -> sp_wf b = true ->
    (sp_key render a = sp_key render b <-> sp_equals a b = true).
  Proof.
    intros Wa Wb. rewrite sp_equals_true. split; [|intros ->; reflexivity].
    unfold sp_key. intros H.
    apply k_type_inj in H; [|apply name_ok_Timespan|apply name_ok_Timespan|apply sp_params_Key; assumption|apply sp_params_Key; assumption].
    destruct H as [_ H]. revert H. unfold sp_params. destruct a as [la ha], b as [lb hb].
    unfold sp_wf in Wa, Wb. cbn [sp_min sp_max] in *.
    apply andb_true_iff in Wa. destruct Wa as [Wa1 Wa2]. apply andb_true_iff in Wb. destruct Wb as [Wb1 Wb2].
    destruct (ha =? max_int64) eqn:Ea; destruct (la =? min_int64) eqn:Ea';
    destruct (hb =? max_int64) eqn:Eb; destruct (lb =? min_int64) eqn:Eb';
      cbn [map vkey]; intros H; try discriminate H;
      repeat match goal with E : (_ =? _) = true |- _ => apply Z.eqb_eq in E end.
    all: repeat match goal with
           | H : _ :: _ = _ :: _ |- _ => apply cons_inj in H; destruct H
           | H : k_default = k_str _ |- _ => exfalso; exact (kdefault_ne_kstr _ H)
           | H : k_str _ = k_default |- _ => exfalso; symmetry in H; exact (kdefault_ne_kstr _ H)
           | H : k_str _ = k_str _ |- _ => apply k_str_inj in H; [|apply render_len; assumption|apply render_len; assumption]
           | H : render _ = render _ |- _ => apply render_inj in H; [|assumption|assumption]
           end; congruence.
  Qed.
End SpKey.

Inductive sp_route := SRDefault | SRNew (lo hi : Z) | SRNew2 (lo : sbound) (hi : option sbound).
Definition sp_build (r : sp_route) : sptype :=
  match r with
  | SRDefault => mkSp min_int64 max_int64
  | SRNew lo hi => new_timespan_type lo hi
  | SRNew2 lo hi => new_timespan_type2 lo hi
  end.
(* the duration a bound denotes *)
Definition sp_denote (r : sp_route) : Z * Z :=
  match r with
  | SRDefault => (min_int64, max_int64)
  | SRNew lo hi => (lo, hi)
  | SRNew2 lo hi => (sconvert_arg true lo, match hi with Some h => sconvert_arg false h | None => max_int64 end)
  end.

Theorem sp_route_not_observable r1 r2 : sp_denote r1 = sp_denote r2 -> sp_build r1 = sp_build r2.
Proof.
  destruct r1 as [|l1 h1|l1 h1], r2 as [|l2 h2|l2 h2]; unfold sp_denote, sp_build, new_timespan_type, new_timespan_type2;
    intros H; apply pair_equal_spec in H; destruct H as [H1 H2]; congruence.
Qed.

Lemma wrap64_id z : in_int64 z = true -> wrap64 z = z.
Proof.
  unfold in_int64, wrap64, min_int64, max_int64, two64. intros H. apply andb_true_iff in H. destruct H as [H1 H2].
  apply Z.leb_le in H1, H2. rewrite Z.mod_small; lia.
Qed.

(* ------------------------------------------------------------------------------------------ *)
(* Runtime types *)

Lemma opt_nat_eqb_eq a b : opt_nat_eqb a b = true <-> a = b.
Proof.
  destruct a, b; cbn [opt_nat_eqb]; try rewrite Nat.eqb_eq; split; intros H; try discriminate; try congruence; auto.
Qed.

Theorem rt_equals_true a b : rt_equals a b = true <-> a = b.
Proof.
  destruct a as [r n p g], b as [r' n' p' g']. unfold rt_equals. cbn [rt_runtime rt_name rt_pattern rt_gotype]. split.
  - destruct (str_eqb r r' && str_eqb n n' && opt_nat_eqb g g') eqn:E; [|discriminate].
    apply andb_true_iff in E. destruct E as [E E3]. apply andb_true_iff in E. destruct E as [E1 E2].
    apply str_eqb_eq in E1, E2. apply opt_nat_eqb_eq in E3. subst.
    destruct p, p'; cbn [ty_eqb is_nil andb]; intros H; try discriminate H; [apply str_eqb_eq in H; subst|]; reflexivity.
  - intros H. injection H as -> -> -> ->. rewrite !str_eqb_refl. rewrite (proj2 (opt_nat_eqb_eq g' g') eq_refl).
    cbn [andb]. destruct p'; cbn [ty_eqb is_nil andb]; [apply str_eqb_refl|reflexivity].
Qed.

Lemma rt_equals_refl a : rt_equals a a = true. Proof. apply rt_equals_true. reflexivity. Qed.
Lemma rt_equals_sym a b : rt_equals a b = rt_equals b a.
Proof.
  destruct (rt_equals a b) eqn:E, (rt_equals b a) eqn:E'; try reflexivity.
  - apply rt_equals_true in E. subst. rewrite rt_equals_refl in E'. discriminate.
  - apply rt_equals_true in E'. subst. rewrite rt_equals_refl in E. discriminate.
Qed.
Lemma rt_equals_trans a b c : rt_equals a b = true -> rt_equals b c = true -> rt_equals a c = true.
Proof. rewrite !rt_equals_true. congruence. Qed.

(* what follows the parameter keys starts with a byte that no key starts with *)
Definition hi (x : list N) : Prop := match x with b :: _ => (4 <= b)%N | [] => False end.

Lemma seq_decode_hi ks : Forall Key ks -> forall ks' x x', Forall Key ks' -> hi x -> hi x' ->
  concat ks ++ x = concat ks' ++ x' -> ks = ks' /\ x = x'.
Proof.
  induction ks as [|k ks IH]; intros HK [|k' ks'] x x' HK' Hx Hx' H; cbn [concat app] in H.
  - auto.
  - exfalso. pose proof (Forall_inv HK') as Hk'.
    destruct (Key_head k' Hk') as (t & rest & -> & Ht). rewrite H in Hx. cbn in Hx. lia.
  - exfalso. pose proof (Forall_inv HK) as Hk.
    destruct (Key_head k Hk) as (t & rest & -> & Ht). rewrite <- H in Hx'. cbn in Hx'. lia.
  - pose proof (Forall_inv HK) as Hk. pose proof (Forall_inv_tail HK) as HK0.
    pose proof (Forall_inv HK') as Hk'. pose proof (Forall_inv_tail HK') as HK0'.
    rewrite <- !app_assoc in H.
    destruct (Key_inj_app _ _ _ _ Hk Hk' H) as [-> H2].
    destruct (IH HK0 ks' x x' HK0' Hx Hx' H2) as [-> ->]. auto.
Qed.

(* a text is cut at its last '#' in one way *)
Lemma split_last_hash a : forall a' p p', ~ In 35%N p -> ~ In 35%N p' ->
  a ++ 35%N :: p = a' ++ 35%N :: p' -> a = a' /\ p = p'.
Proof.
  induction a as [|c a IH]; intros [|c' a'] p p' Hp Hp' H; cbn [app] in H.
  - injection H as ->. auto.
  - exfalso. injection H as <- H. apply Hp. rewrite H. apply in_or_app. right. left. reflexivity.
  - exfalso. injection H as -> H. apply Hp'. rewrite <- H. apply in_or_app. right. left. reflexivity.
  - injection H as -> H. destruct (IH a' p p' Hp Hp' H) as [-> ->]. auto.
Qed.

Lemma kstr_ne_tkey s t : k_str s <> tkey t.
Proof. unfold k_str, tkey, k_type. discriminate. Qed.

Lemma tkey_regexp_inj p q : lenok p = true -> lenok q = true -> tkey (TRegexp p) = tkey (TRegexp q) -> p = q.
Proof.
  intros Hp Hq H. unfold tkey in H. cbn [tname tparams] in H.
  assert (K : forall s, lenok s = true -> Forall Key match s with [] => [] | _ => [k_regexp s] end).
  { intros s Hs. destruct s; repeat (apply Forall_cons || apply Forall_nil). apply Key_regexp. exact Hs. }
  apply k_type_inj in H; [|apply (tname_ok (TRegexp p))|apply (tname_ok (TRegexp q))|apply K; assumption|apply K; assumption].
  destruct H as [_ H]. destruct p as [|c p], q as [|d q]; try discriminate H; [reflexivity|].
  apply cons_inj in H. destruct H as [H _]. apply k_regexp_inj in H; assumption.
Qed.

Lemma rt_params_Key t : rt_wf t = true -> Forall Key (map vkey (rt_params t)).
Proof.
  destruct t as [r n p g]. unfold rt_wf, rt_params. cbn [rt_runtime rt_name rt_pattern]. intros H.
  apply andb_true_iff in H. destruct H as [H H3]. apply andb_true_iff in H. destruct H as [H1 H2].
  destruct (is_empty r && is_empty n && is_nil p); [constructor|].
  cbn [map app vkey]. constructor; [apply Key_str; exact H1|].
  rewrite map_app. apply Forall_app. split.
  - destruct (is_empty n); cbn [map vkey]; repeat (apply Forall_cons || apply Forall_nil). apply Key_str. exact H2.
  - destruct p as [p|]; cbn [map vkey]; repeat (apply Forall_cons || apply Forall_nil).
    apply tkey_Key0. cbn [tparams]. destruct p; repeat (apply Forall_cons || apply Forall_nil). apply Key_regexp. exact H3.
Qed.

(* the parameters determine runtime, name and pattern *)
Lemma rt_params_inj a b : rt_wf a = true -> rt_wf b = true ->
  map vkey (rt_params a) = map vkey (rt_params b) ->
  rt_runtime a = rt_runtime b /\ rt_name a = rt_name b /\ rt_pattern a = rt_pattern b.
Proof.
  destruct a as [r n p g], b as [r' n' p' g']. unfold rt_wf, rt_params. cbn [rt_runtime rt_name rt_pattern].
  intros Ha Hb.
  apply andb_true_iff in Ha. destruct Ha as [Ha A3]. apply andb_true_iff in Ha. destruct Ha as [A1 A2].
  apply andb_true_iff in Hb. destruct Hb as [Hb B3]. apply andb_true_iff in Hb. destruct Hb as [B1 B2].
  destruct r as [|c r], n as [|d n], p as [p|], r' as [|c' r'], n' as [|d' n'], p' as [p'|];
    cbn [is_empty is_nil andb map app vkey]; intros H; try discriminate H; try (repeat split; reflexivity);
    repeat match goal with
           | H : _ :: _ = _ :: _ |- _ => apply cons_inj in H; destruct H
           end;
    repeat match goal with
           | H : k_str _ = tkey _ |- _ => exfalso; exact (kstr_ne_tkey _ _ H)
           | H : tkey _ = k_str _ |- _ => exfalso; symmetry in H; exact (kstr_ne_tkey _ _ H)
           | H : k_str _ = k_str _ |- _ => apply k_str_inj in H; [|assumption|assumption]
           | H : tkey (TRegexp _) = tkey (TRegexp _) |- _ => apply tkey_regexp_inj in H; [|assumption|assumption]
           end;
    repeat split; congruence.
Qed.

Section RtKey.
  Variable o : gooracle.
  (* what is assumed of reflect.Type: PkgPath() and the text %p hold no byte <= 4, %p holds no '#', and different
     type descriptors have different addresses *)
  Hypothesis pkg_ok : forall i, name_ok (go_pkg o i).
  Hypothesis ptr_ok : forall i, name_ok (go_ptr o i) /\ ~ In 35%N (go_ptr o i).
  Hypothesis ptr_inj : forall i j, go_ptr o i = go_ptr o j -> i = j.

  Lemma suffix_hi t : hi (rt_suffix o t ++ [4%N]).
  Proof.
    unfold rt_suffix. destruct (rt_gotype t) as [i|]; [|cbn; lia].
    pose proof (pkg_ok i) as H. destruct (go_pkg o i) as [|b l]; [cbn; lia|].
    inversion H; subst. cbn. lia.
  Qed.

  Theorem rt_key_iff_eq a b : rt_wf a = true -> rt_wf b = true -> (rt_key o a = rt_key o b <-> rt_equals a b = true).
  Proof.
    intros Wa Wb. rewrite rt_equals_true. split; [|intros ->; reflexivity].
    unfold rt_key. intros H. apply cons2_inj in H. destruct H as (_ & _ & H). apply app_inv_head in H.
    destruct (seq_decode_hi _ (rt_params_Key a Wa) _ _ _ (rt_params_Key b Wb) (suffix_hi a) (suffix_hi b) H) as [HP HS].
    apply app_inv_tail in HS.
    destruct (rt_params_inj a b Wa Wb HP) as (E1 & E2 & E3).
    destruct a as [r n p g], b as [r' n' p' g']. cbn [rt_runtime rt_name rt_pattern] in E1, E2, E3. subst.
    unfold rt_suffix in HS. cbn [rt_gotype] in HS.
    destruct g as [i|], g' as [j|].
    - destruct (split_last_hash _ _ _ _ (proj2 (ptr_ok i)) (proj2 (ptr_ok j)) HS) as [_ HS2].
      apply ptr_inj in HS2. subst. reflexivity.
    - exfalso. destruct (go_pkg o i); discriminate HS.
    - exfalso. destruct (go_pkg o j); discriminate HS.
    - reflexivity.
  Qed.
End RtKey.

Lemma new_runtime_type_parts r n p t : new_runtime_type r n p = Some t ->
  rt_runtime t = r /\ rt_name t = n /\ rt_pattern t = p /\ rt_gotype t = None.
Proof.
  unfold new_runtime_type. destruct (is_empty r && is_empty n && is_nil p) eqn:E.
  - intros H. injection H as <-. apply andb_true_iff in E. destruct E as [E E3]. apply andb_true_iff in E. destruct E as [E1 E2].
    destruct r, n, p; try discriminate. repeat split; reflexivity.
  - destruct (str_eqb r (bytes_of "go") && negb (is_empty n)); [discriminate|].
    intros H. injection H as <-. repeat split; reflexivity.
Qed.

(* whichever constructor: the type is determined by the three parts (a Runtime type that is not a Go type) *)
Theorem rt_route_not_observable r n p r' n' p' t t' :
  new_runtime_type r n p = Some t -> new_runtime_type r' n' p' = Some t' ->
  (rt_equals t t' = true <-> r = r' /\ n = n' /\ p = p').
Proof.
  intros H H'. apply new_runtime_type_parts in H, H'. destruct H as (A1 & A2 & A3 & A4), H' as (B1 & B2 & B3 & B4).
  rewrite rt_equals_true. destruct t as [tr tn tp tg], t' as [tr' tn' tp' tg']. cbn [rt_runtime rt_name rt_pattern rt_gotype] in *. subst. split.
  - intros H. injection H as -> -> ->. auto.
  - intros (-> & -> & ->). reflexivity.
Qed.

(* a Go runtime type is decided by the identity of its reflect.Type: two types with one text are not equal *)
Theorem go_runtime_by_identity o i j : rt_equals (new_go_runtime_type o i) (new_go_runtime_type o j) = true <-> i = j.
Proof.
  rewrite rt_equals_true. unfold new_go_runtime_type. split.
  - intros H. injection H as _ H. exact H.
  - intros ->. reflexivity.
Qed.
