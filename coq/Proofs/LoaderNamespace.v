(* LoaderNamespace.v — the namespace clause of property C12: typed names of different namespaces have different
   map keys, and the bindings of one namespace are invisible to every lookup in another:
   * state level (any state of the specification): resolution of a name n through any loader is the resolution in
     the state restricted to the bindings of n's namespace (`resolve_restrict`);
   * history level: erasing from a history every definition and lookup of names of other namespaces changes no
     result of a definition or lookup in the namespace (`namespace_noninterference`), transferred from the
     specification to the model through the refinement theorem of Proofs/LoaderProofs.v;
   * full history language (px.AddTypes, declarations): px.Load after any history answers from the bindings of the
     name's namespace alone (`xnamespace_load`). *)
From Coq Require Import Arith NArith Bool List Lia.
From PcoreV Require Import Model.Base Model.Loader Model.LoaderSpec Model.LoaderSpecNs Model.LoaderAdd
  Proofs.LoaderNames Proofs.LoaderProofs Proofs.LoaderCorollaries Proofs.LoaderAddProofs.
Import ListNotations.

(* ---------------------------------------------------------------------------------------------- *)
(* keys *)

Lemma in_ns_map_key ns n : tn_wf n = true -> in_ns ns (map_key n) = str_eqb (ns_of n) ns.
Proof. intros H. unfold in_ns. rewrite (tn_of_key_map_key n H). reflexivity. Qed.

(* the key of a well-formed name decodes to a name of the same namespace (lower case) *)
Theorem key_namespace n :
  tn_wf n = true -> exists tn, tn_of_key (map_key n) = Some tn /\ tn_ns tn = ns_of n /\ map_key tn = map_key n.
Proof.
  intros H. exists (lowered n). split; [apply tn_of_key_map_key; exact H|]. split; [reflexivity|apply map_key_lowered].
Qed.

(* names of different namespaces never have the same key *)
Theorem keys_disjoint n n' :
  tn_wf n = true -> tn_wf n' = true -> ns_of n <> ns_of n' -> map_key n <> map_key n'.
Proof.
  intros H H' Hd E. pose proof (map_key_same_lower n n' H H' E) as L.
  unfold lowered in L. injection L as _ Hn _. apply Hd. exact Hn.
Qed.

(* ... so a loader's own map never answers a lookup with what was stored under a name of another namespace *)
Theorem own_lookup_namespace (bs : list (str * val)) n n' :
  tn_wf n = true -> tn_wf n' = true -> ns_of n <> ns_of n' ->
  forall v, assoc (map_key n) (bs ++ [(map_key n', v)]) = assoc (map_key n) bs.
Proof.
  intros H H' Hd v. pose proof (keys_disjoint n n' H H' Hd) as Hk.
  induction bs as [|[k x] bs IH]; cbn [app assoc].
  - destruct (str_eqb (map_key n') (map_key n)) eqn:E; [|reflexivity]. apply str_eqb_eq in E. congruence.
  - destruct (str_eqb k (map_key n)); [reflexivity|exact IH].
Qed.

(* ---------------------------------------------------------------------------------------------- *)
(* the restricted state *)

Lemma assoc_filter {V} (P : str -> bool) k : forall (l : list (str * V)), P k = true ->
  assoc k (filter (fun kv => P (fst kv)) l) = assoc k l.
Proof.
  induction l as [|[k' v] l IH]; intros HP; [reflexivity|].
  cbn [filter fst assoc]. destruct (str_eqb k' k) eqn:E.
  - apply str_eqb_eq in E. subst k'. rewrite HP. cbn [assoc]. rewrite str_eqb_refl. reflexivity.
  - destruct (P k'); cbn [assoc]; [rewrite E|]; apply IH; exact HP.
Qed.

Lemma nth_restrict ns a l : nth_error (ns_restrict ns a) l = option_map (restrict_node ns) (nth_error a l).
Proof. unfold ns_restrict. apply nth_error_map. Qed.

Lemma restrict_length ns a : length (ns_restrict ns a) = length a.
Proof. apply map_length. Qed.

Lemma own_binds_restrict ns a l :
  own_binds (ns_restrict ns a) l = filter (fun kv => in_ns ns (fst kv)) (own_binds a l).
Proof. unfold own_binds. rewrite nth_restrict. destruct (nth_error a l); reflexivity. Qed.

Lemma def_target_restrict ns : forall f a l, def_target f (ns_restrict ns a) l = def_target f a l.
Proof.
  induction f as [|f IH]; intros a l; [reflexivity|]. cbn [def_target]. rewrite nth_restrict.
  destruct (nth_error a l) as [nd|]; [|reflexivity]. cbn [option_map restrict_node akind].
  destruct (akind nd); try reflexivity. apply IH.
Qed.

Lemma restrict_set_binds ns : forall a t bs,
  ns_restrict ns (set_binds a t bs) = set_binds (ns_restrict ns a) t (filter (fun kv => in_ns ns (fst kv)) bs).
Proof.
  induction a as [|nd a IH]; intros t bs; [reflexivity|].
  destruct t as [|t]; cbn [set_binds ns_restrict map]; [reflexivity|].
  f_equal. apply IH.
Qed.

Lemma set_binds_own ns : forall a t,
  set_binds (ns_restrict ns a) t (filter (fun kv => in_ns ns (fst kv)) (own_binds a t)) = ns_restrict ns a.
Proof.
  induction a as [|nd a IH]; intros t; [reflexivity|].
  destruct t as [|t]; cbn [set_binds ns_restrict map]; [reflexivity|].
  f_equal. apply IH.
Qed.

(* resolution of a name sees the bindings of its namespace only *)
Theorem resolve_restrict ns : forall f a l n,
  tn_wf n = true -> ns_of n = ns -> spec_resolve f (ns_restrict ns a) l n = spec_resolve f a l n.
Proof.
  induction f as [|f IH]; intros a l n Hw Hn; [reflexivity|].
  cbn [spec_resolve]. rewrite nth_restrict.
  destruct (nth_error a l) as [nd|]; [|reflexivity]. cbn [option_map restrict_node akind abind].
  assert (Hk : in_ns ns (map_key n) = true).
  { rewrite (in_ns_map_key ns n Hw), Hn. apply str_eqb_refl. }
  destruct (akind nd) as [| |p|p ts].
  - rewrite (assoc_filter (in_ns ns) _ _ Hk). reflexivity.
  - rewrite (assoc_filter (in_ns ns) _ _ Hk). reflexivity.
  - rewrite (IH a p n Hw Hn). destruct (spec_resolve f a p n) as [[v|]|]; try reflexivity.
    rewrite (assoc_filter (in_ns ns) _ _ Hk). reflexivity.
  - destruct (ts_get_type ts n); [reflexivity|].
    rewrite (IH a p n Hw Hn). destruct (spec_resolve f a p n) as [[v|]|]; try reflexivity.
    destruct (relative_to n (ts_typed_name ts)) as [c|] eqn:R; [|reflexivity].
    destruct (relative_to_wf _ _ _ Hw R) as (Hc & _ & _ & Hns).
    apply IH; [exact Hc|]. unfold ns_of in *. rewrite Hns. exact Hn.
Qed.

(* ---------------------------------------------------------------------------------------------- *)
(* one operation *)

Lemma spec_define_in ns a l n v :
  tn_wf n = true -> ns_of n = ns ->
  spec_define (ns_restrict ns a) l n v = (ns_restrict ns (fst (spec_define a l n v)), snd (spec_define a l n v)).
Proof.
  intros Hw Hn.
  assert (Hk : in_ns ns (map_key n) = true).
  { rewrite (in_ns_map_key ns n Hw), Hn. apply str_eqb_refl. }
  unfold spec_define. rewrite def_target_restrict.
  destruct (def_target (S l) a l) as [t|]; [|reflexivity].
  rewrite own_binds_restrict, (assoc_filter (in_ns ns) _ _ Hk).
  destruct (assoc (map_key n) (own_binds a t)); cbn [fst snd]; [reflexivity|].
  rewrite restrict_set_binds, filter_app. cbn [filter fst]. rewrite Hk. reflexivity.
Qed.

Lemma spec_define_out ns a l n v :
  tn_wf n = true -> ns_of n <> ns -> ns_restrict ns (fst (spec_define a l n v)) = ns_restrict ns a.
Proof.
  intros Hw Hn.
  assert (Hk : in_ns ns (map_key n) = false).
  { rewrite (in_ns_map_key ns n Hw). apply str_eqb_neq. exact Hn. }
  unfold spec_define. destruct (def_target (S l) a l) as [t|]; [|reflexivity].
  destruct (assoc (map_key n) (own_binds a t)); cbn [fst]; [reflexivity|].
  rewrite restrict_set_binds, filter_app. cbn [filter fst]. rewrite Hk, app_nil_r. apply set_binds_own.
Qed.

Lemma restrict_add ns a k : ns_restrict ns (a ++ [mkA k []]) = ns_restrict ns a ++ [mkA k []].
Proof. unfold ns_restrict. rewrite map_app. reflexivity. Qed.

Lemma foreign_false ns o n : foreign ns o = false -> op_name o = Some n -> ns_of n = ns.
Proof. unfold foreign. intros H E. rewrite E in H. apply negb_false_iff in H. apply str_eqb_eq. exact H. Qed.

Lemma step_restrict_fst cfg ns a o :
  op_wf o = true -> foreign ns o = false ->
  fst (spec_step cfg (ns_restrict ns a) o) = ns_restrict ns (fst (spec_step cfg a o)).
Proof.
  intros Hw Hf.
  destruct o as [|l|l|l t|l n v|l n|l n|l n|l n|l p]; cbn [spec_step]; rewrite ?restrict_length;
    try (destruct (Nat.ltb l (length a)); reflexivity).
  - unfold spec_add. cbn [fst]. symmetry. apply restrict_add.
  - destruct (Nat.ltb l (length a)); [|reflexivity]. unfold spec_add. cbn [fst]. symmetry. apply restrict_add.
  - destruct (Nat.ltb l (length a)); [|reflexivity]. unfold spec_add. cbn [fst]. symmetry. apply restrict_add.
  - destruct (Nat.ltb l (length a)); [|reflexivity]. destruct (nth_error (cfg_tsets cfg) t); [|reflexivity].
    unfold spec_add. cbn [fst]. symmetry. apply restrict_add.
  - destruct (Nat.ltb l (length a)); [|reflexivity].
    rewrite (spec_define_in ns a l (norm n) v Hw (foreign_false ns _ _ Hf eq_refl)). reflexivity.
Qed.

Lemma step_restrict_snd cfg ns a q :
  op_wf q = true -> ns_query ns q = true ->
  snd (spec_step cfg (ns_restrict ns a) q) = snd (spec_step cfg a q).
Proof.
  intros Hw Hq.
  assert (Hn : forall n, op_name q = Some n -> ns_of n = ns).
  { intros n E. unfold ns_query in Hq. rewrite E in Hq. apply str_eqb_eq. exact Hq. }
  destruct q as [|l|l|l t|l n v|l n|l n|l n|l n|l p]; try discriminate Hq;
    cbn [spec_step]; rewrite ?restrict_length; (destruct (Nat.ltb l (length a)); [|reflexivity]);
    cbn [op_wf] in Hw; specialize (Hn _ eq_refl).
  - rewrite (spec_define_in ns a l (norm n) v Hw Hn). reflexivity.
  - cbn [snd]. unfold spec_resolve_top. rewrite (resolve_restrict ns _ a l (norm n) Hw Hn). reflexivity.
  - cbn [snd]. unfold spec_resolve_top. rewrite (resolve_restrict ns _ a l (norm n) Hw Hn). reflexivity.
  - cbn [snd]. rewrite own_binds_restrict. rewrite (assoc_filter (in_ns ns)); [reflexivity|].
    rewrite (in_ns_map_key ns _ Hw), Hn. apply str_eqb_refl.
  - cbn [snd]. unfold spec_resolve_top. rewrite (resolve_restrict ns _ a l (norm n) Hw Hn). reflexivity.
Qed.

Lemma step_foreign cfg ns a o :
  op_wf o = true -> foreign ns o = true -> ns_restrict ns (fst (spec_step cfg a o)) = ns_restrict ns a.
Proof.
  intros Hw Hf.
  destruct o as [|l|l|l t|l n v|l n|l n|l n|l n|l p]; try discriminate Hf; cbn [spec_step];
    try (destruct (Nat.ltb l (length a)); reflexivity).
  destruct (Nat.ltb l (length a)); [|reflexivity].
  apply spec_define_out; [exact Hw|]. unfold foreign in Hf. cbn [op_name] in Hf.
  apply negb_true_iff in Hf. apply str_eqb_neq. exact Hf.
Qed.

(* ---------------------------------------------------------------------------------------------- *)
(* histories *)

Lemma spec_run_from_cons_fst cfg a o ops :
  fst (spec_run_from cfg a (o :: ops)) = fst (spec_run_from cfg (fst (spec_step cfg a o)) ops).
Proof.
  cbn [spec_run_from]. destruct (spec_step cfg a o) as [a1 r]. cbn [fst].
  destruct (spec_run_from cfg a1 ops). reflexivity.
Qed.

Lemma run_restrict cfg ns : forall ops a,
  forallb op_wf ops = true ->
  ns_restrict ns (fst (spec_run_from cfg a ops)) = fst (spec_run_from cfg (ns_restrict ns a) (erase_foreign ns ops)).
Proof.
  induction ops as [|o ops IH]; intros a Hw; [reflexivity|].
  cbn [forallb] in Hw. apply andb_prop in Hw. destruct Hw as [Ho Hw].
  rewrite spec_run_from_cons_fst, (IH _ Hw). unfold erase_foreign. cbn [filter].
  destruct (foreign ns o) eqn:Hf; cbn [negb].
  - rewrite (step_foreign cfg ns a o Ho Hf). reflexivity.
  - rewrite spec_run_from_cons_fst, (step_restrict_fst cfg ns a o Ho Hf). reflexivity.
Qed.

Lemma filter_idem {A} (f : A -> bool) : forall l, filter f (filter f l) = filter f l.
Proof.
  induction l as [|x l IH]; [reflexivity|]. cbn [filter]. destruct (f x) eqn:E; [|exact IH].
  cbn [filter]. rewrite E, IH. reflexivity.
Qed.

Lemma forallb_filter {A} (f g : A -> bool) : forall l, forallb f l = true -> forallb f (filter g l) = true.
Proof.
  induction l as [|x l IH]; intros H; [reflexivity|]. cbn [forallb] in H. apply andb_prop in H. destruct H as [Hx Hl].
  cbn [filter]. destruct (g x); [cbn [forallb]; rewrite Hx|]; apply IH; exact Hl.
Qed.

Lemma erase_wf ns ops : forallb op_wf ops = true -> forallb op_wf (erase_foreign ns ops) = true.
Proof. apply forallb_filter. Qed.

(* the bindings of a namespace after a history are those after the history without the foreign operations *)
Theorem erase_same_bindings cfg ns ops :
  forallb op_wf ops = true ->
  ns_restrict ns (fst (spec_run cfg ops)) = ns_restrict ns (fst (spec_run cfg (erase_foreign ns ops))).
Proof.
  intros Hw. unfold spec_run. rewrite (run_restrict cfg ns ops _ Hw).
  rewrite (run_restrict cfg ns (erase_foreign ns ops) _ (erase_wf ns ops Hw)).
  unfold erase_foreign. rewrite filter_idem. reflexivity.
Qed.

Lemma result_after_spec cfg ops q :
  cfg_wf cfg = true -> forallb op_wf ops = true -> op_wf q = true ->
  project (result_after cfg ops q) = snd (spec_step cfg (fst (spec_run cfg ops)) q).
Proof.
  intros Hc Hw Hq. destruct (result_after_sim cfg ops q Hc Hw Hq) as [_ H].
  rewrite (loader_state_refines cfg ops Hc Hw) in H. rewrite H. reflexivity.
Qed.

(* Erasing every definition and lookup of names of other namespaces from a history changes no result of a definition
   or lookup of a name of the namespace (`project`: a cached miss and an absent entry are both a miss). *)
Theorem namespace_noninterference cfg ns ops q :
  cfg_wf cfg = true -> forallb op_wf ops = true -> op_wf q = true -> ns_query ns q = true ->
  project (result_after cfg (erase_foreign ns ops) q) = project (result_after cfg ops q).
Proof.
  intros Hc Hw Hq Hn.
  rewrite (result_after_spec cfg ops q Hc Hw Hq), (result_after_spec cfg _ q Hc (erase_wf ns ops Hw) Hq).
  rewrite <- (step_restrict_snd cfg ns (fst (spec_run cfg ops)) q Hq Hn).
  rewrite <- (step_restrict_snd cfg ns (fst (spec_run cfg (erase_foreign ns ops))) q Hq Hn).
  rewrite (erase_same_bindings cfg ns ops Hw). reflexivity.
Qed.

(* for px.Load, HasEntry and definitions the result itself *)
Definition not_entry_op (q : op) : bool :=
  match q with ODefine _ _ _ | OLoad _ _ | OHas _ _ => true | _ => false end.

Lemma project_id_ok o r : out_ok o r = true -> not_entry_op o = true -> project r = r.
Proof. destruct o; try discriminate; destruct r as [| | | |[| |]| | | | |]; try reflexivity; discriminate. Qed.

Lemma result_after_ok cfg ops q :
  cfg_wf cfg = true -> forallb op_wf ops = true -> op_wf q = true -> out_ok q (result_after cfg ops q) = true.
Proof.
  intros Hc Hw Hq. pose proof (reachable_inv cfg ops Hc Hw) as Hi. unfold result_after.
  destruct (step cfg (fst (run cfg ops)) q) as [st' r] eqn:E.
  destruct (step_sim cfg _ q st' r Hi Hq E) as (_ & _ & Hok). exact Hok.
Qed.

Theorem namespace_noninterference_load cfg ns ops q :
  cfg_wf cfg = true -> forallb op_wf ops = true -> op_wf q = true -> ns_query ns q = true ->
  not_entry_op q = true ->
  result_after cfg (erase_foreign ns ops) q = result_after cfg ops q.
Proof.
  intros Hc Hw Hq Hn He.
  rewrite <- (project_id_ok q _ (result_after_ok cfg ops q Hc Hw Hq) He).
  rewrite <- (project_id_ok q _ (result_after_ok cfg _ q Hc (erase_wf ns ops Hw) Hq) He).
  apply namespace_noninterference; assumption.
Qed.

(* ---------------------------------------------------------------------------------------------- *)
(* the full history language: after any history (px.AddTypes, declarations, ...) a definition or lookup of a name
   answers from the bindings of the name's namespace alone *)
Theorem xnamespace_local cfg ns xs q :
  cfg_wf cfg = true -> forallb (xop_wf cfg) xs = true -> op_wf q = true -> ns_query ns q = true ->
  xresult_after cfg xs (XOp q) =
    XR (snd (step cfg (fst (xrun cfg xs)) q)) /\
  project (snd (step cfg (fst (xrun cfg xs)) q)) =
    snd (spec_step cfg (ns_restrict ns (abs (fst (xrun cfg xs)))) q).
Proof.
  intros Hc Hw Hq Hn. split.
  - unfold xresult_after. cbn [xstep]. destruct (step cfg (fst (xrun cfg xs)) q). reflexivity.
  - pose proof (xreachable_inv cfg xs Hc Hw) as Hi.
    destruct (step cfg (fst (xrun cfg xs)) q) as [st' r] eqn:E.
    destruct (step_sim cfg _ q st' r Hi Hq E) as (_ & Hs & _). cbn [snd].
    rewrite (step_restrict_snd cfg ns _ q Hq Hn), Hs. reflexivity.
Qed.

(* the same on the model's states *)
Theorem erase_same_bindings_model cfg ns ops :
  cfg_wf cfg = true -> forallb op_wf ops = true ->
  ns_restrict ns (abs (fst (run cfg ops))) = ns_restrict ns (abs (fst (run cfg (erase_foreign ns ops)))).
Proof.
  intros Hc Hw. rewrite (loader_state_refines cfg ops Hc Hw), (loader_state_refines cfg _ Hc (erase_wf ns ops Hw)).
  apply erase_same_bindings. exact Hw.
Qed.
