(* LoaderDepCorollaries.v — what the refinement of the dependency loader (Proofs/LoaderDepProofs.v) gives for every
   history: module-qualified routing, first-in-order for the other names, and the write-once law of the dependency
   loader's own answers. *)
From Coq Require Import NArith Bool List Lia PeanoNat Arith.
From PcoreV Require Import Model.Base Model.Loader Model.LoaderSpec Model.LoaderDep
  Proofs.LoaderNames Proofs.LoaderProofs Proofs.LoaderDepProofs.
Import ListNotations.

Local Arguments Nat.ltb : simpl never.

Ltac splits := repeat match goal with |- _ /\ _ => split end.

(* ---------------------------------------------------------------------------------------------- *)
(* results after a history, through the specification *)

Lemma drun_from_app cfg mods : forall ds1 ds2 s,
  drun_from cfg mods s (ds1 ++ ds2) =
  (fst (drun_from cfg mods (fst (drun_from cfg mods s ds1)) ds2),
   snd (drun_from cfg mods s ds1) ++ snd (drun_from cfg mods (fst (drun_from cfg mods s ds1)) ds2)).
Proof.
  induction ds1 as [|d ds1 IH]; intros ds2 s.
  - cbn. destruct (drun_from cfg mods s ds2). reflexivity.
  - cbn [app drun_from]. destruct (dstep cfg mods s d) as [s1 r]. rewrite IH.
    destruct (drun_from cfg mods s1 ds1) as [s2 rs]. cbn [fst snd].
    destruct (drun_from cfg mods s2 ds2). reflexivity.
Qed.

Lemma drun_snoc cfg pre mods ds d :
  fst (drun cfg pre mods (ds ++ [d])) = fst (dstep cfg mods (fst (drun cfg pre mods ds)) d).
Proof.
  unfold drun. rewrite drun_from_app. cbn [fst drun_from].
  destruct (dstep cfg mods _ d). reflexivity.
Qed.

Lemma forallb_dwf_app ds ds' : forallb dop_wf (ds ++ ds') = forallb dop_wf ds && forallb dop_wf ds'.
Proof. apply forallb_app. Qed.

Section Reach.
Variables (cfg : config) (pre : list op) (mods : modset).
Hypothesis Hc : cfg_wf cfg = true.
Hypothesis Hp : forallb op_wf pre = true.
Hypothesis Hm : mods_ok (fst (run cfg pre)) mods = true.

Lemma dresult_after_sim ds d :
  forallb dop_wf ds = true -> dop_wf d = true ->
  dspec_step cfg mods (dabs (fst (drun cfg pre mods ds))) d =
    (dabs (fst (dstep cfg mods (fst (drun cfg pre mods ds)) d)), dproject (dresult_after cfg pre mods ds d)).
Proof.
  intros Hd Hw. pose proof (dep_reachable_inv cfg pre mods ds Hc Hp Hm Hd) as Hi.
  unfold dresult_after. destruct (dstep cfg mods (fst (drun cfg pre mods ds)) d) as [s' r] eqn:Hs.
  destruct (dstep_sim cfg mods _ d s' r Hi Hw Hs) as (_ & Hsp & _). exact Hsp.
Qed.

Lemma dresult_after_ok ds d :
  forallb dop_wf ds = true -> dop_wf d = true -> dout_ok d (dresult_after cfg pre mods ds d) = true.
Proof.
  intros Hd Hw. pose proof (dep_reachable_inv cfg pre mods ds Hc Hp Hm Hd) as Hi.
  unfold dresult_after. destruct (dstep cfg mods (fst (drun cfg pre mods ds)) d) as [s' r] eqn:Hs.
  destruct (dstep_sim cfg mods _ d s' r Hi Hw Hs) as (_ & _ & Hok). exact Hok.
Qed.

(* ---- routing: a name qualified by the name of a module goes to the loader of that module, and to no other ---- *)

Lemma dep_index_pos ms m l : dep_index ms m = Some l -> index_pos ms = true.
Proof.
  intros H. destruct (index_pos ms) eqn:E; [reflexivity|]. rewrite (index_pos_false ms m E) in H. discriminate.
Qed.

Lemma dep_routing_st st own n m rest l :
  dinv mods (st, own) -> tn_wf n = true ->
  parts n = m :: rest -> rest <> [] -> dep_index mods m = Some l -> b_get own n = None ->
  exists st1 e own1,
    ml_load st l n = (st1, LEnt e) /\
    dep_load_entry st mods own n = (st1, own1, LEnt (Some (flat e)), [l]) /\
    abs_ents own1 = match flat e with Some v => abs_ents own ++ [(map_key n, v)] | None => abs_ents own end.
Proof.
  intros [Hi Hmo Hnd Hnm] Hw Hpa Hr Hix Hg. cbn [fst snd] in *.
  assert (Hl : l < length st) by (apply dep_index_in in Hix; apply (mods_ok_in st mods _ Hmo Hix)).
  destruct (ml_load_sim st l n Hi Hw Hl) as (st1 & e & H1 & _).
  unfold dep_load_entry, dep_find. rewrite Hg.
  assert (Hq : is_qualified n = true).
  { unfold is_qualified. rewrite Hpa. destruct rest; [contradiction|]. reflexivity. }
  rewrite (dep_index_pos mods m l Hix), Hq, Hpa. cbn [andb]. rewrite Hix, H1.
  destruct e as [[v|]|]; cbn [flat].
  - destruct (b_set_val_sim own n v Hnd) as (own' & r & Hb & _ & Hd & Hrr).
    unfold binds_define in Hd. rewrite (b_get_abs own n Hnd), Hg in Hd. cbn [flat] in Hd.
    rewrite Hb. injection Hd as Hd1 Hd2.
    destruct r as [[v'|]|c|]; try discriminate; try contradiction.
    exists st1, (Some (Some v)), own'. splits; [reflexivity|reflexivity|symmetry; exact Hd1].
  - exists st1, (Some None), own. splits; reflexivity.
  - exists st1, None, own. splits; reflexivity.
Qed.

Theorem dep_routing ds n0 m rest l :
  forallb dop_wf ds = true -> tn_wf (norm n0) = true ->
  parts (norm n0) = m :: rest -> rest <> [] -> dep_index mods m = Some l ->
  dresult_after cfg pre mods ds (DGetEntry n0) = DR (REntry ENone) [] ->
  exists x,
    dresult_after cfg pre mods ds (DBase (OLoadEntry l n0)) = DB x /\
    dproject (dresult_after cfg pre mods ds (DLoadEntry n0)) = DR (project x) [l] /\
    fst (fst (dstep cfg mods (fst (drun cfg pre mods ds)) (DLoadEntry n0))) =
    fst (fst (dstep cfg mods (fst (drun cfg pre mods ds)) (DBase (OLoadEntry l n0)))).
Proof.
  intros Hd Hw Hpa Hr Hix Hget.
  pose proof (dep_reachable_inv cfg pre mods ds Hc Hp Hm Hd) as Hi.
  unfold dresult_after in *. destruct (fst (drun cfg pre mods ds)) as [st own].
  assert (Hg : b_get own (norm n0) = None).
  { cbn [dstep snd] in Hget. destruct (b_get own (norm n0)) as [[v|]|]; [discriminate|discriminate|reflexivity]. }
  destruct (dep_routing_st st own (norm n0) m rest l Hi Hw Hpa Hr Hix Hg) as (st1 & e & own1 & H1 & H2 & _).
  assert (Hl : l < length st).
  { destruct Hi as [_ Hmo _ _]. cbn [fst] in Hmo. apply dep_index_in in Hix. apply (mods_ok_in st mods _ Hmo Hix). }
  cbn [dstep step]. apply Nat.ltb_lt in Hl. rewrite Hl. unfold ml_load in H1. rewrite H1, H2.
  cbn [fst snd]. eexists. splits; [reflexivity| |reflexivity].
  cbn [dproject out_of_lres]. destruct e as [[v|]|]; reflexivity.
Qed.

(* ---- the other names: the module loaders in their order, the first that resolves the name ---- *)

Lemma spec_find_loop_found a n v : forall ms tr,
  spec_find_loop a ms n = Some (Some v, tr) <->
  exists ms1 k l ms2, ms = ms1 ++ (k, l) :: ms2 /\
    (forall kv, In kv ms1 -> spec_resolve_top a (snd kv) n = Some None) /\
    spec_resolve_top a l n = Some (Some v) /\ tr = map snd ms1 ++ [l].
Proof.
  induction ms as [|[k l] ms IH]; intros tr; cbn [spec_find_loop].
  - split; [discriminate|]. intros (ms1 & k & l & ms2 & E & _). destruct ms1; discriminate.
  - destruct (spec_resolve_top a l n) as [[w|]|] eqn:Hr.
    + split.
      * intros E. injection E as <- <-. exists [], k, l, ms. splits; [reflexivity|intros kv []|exact Hr|reflexivity].
      * intros (ms1 & k' & l' & ms2 & E & Hall & Hv & ->). destruct ms1 as [|kv1 ms1]; cbn [app] in E.
        -- inversion E; subst. rewrite Hr in Hv. injection Hv as ->. reflexivity.
        -- inversion E; subst. specialize (Hall (k, l) (or_introl eq_refl)). cbn [snd] in Hall. congruence.
    + split.
      * destruct (spec_find_loop a ms n) as [[r tr']|] eqn:Hf; [|discriminate].
        intros E. injection E as -> <-. destruct (proj1 (IH tr') eq_refl) as (ms1 & k' & l' & ms2 & -> & Hall & Hv & ->).
        exists ((k, l) :: ms1), k', l', ms2. splits; [reflexivity| |exact Hv|reflexivity].
        intros kv [<-|Hin]; [exact Hr|apply Hall; exact Hin].
      * intros (ms1 & k' & l' & ms2 & E & Hall & Hv & ->). destruct ms1 as [|kv1 ms1]; cbn [app] in E.
        -- inversion E; subst. congruence.
        -- inversion E; subst.
           assert (H : spec_find_loop a (ms1 ++ (k', l') :: ms2) n = Some (Some v, map snd ms1 ++ [l'])).
           { apply IH. exists ms1, k', l', ms2. splits; try reflexivity; [|exact Hv].
             intros kv Hin. apply Hall. right. exact Hin. }
           rewrite H. reflexivity.
    + split; [discriminate|].
      intros (ms1 & k' & l' & ms2 & E & Hall & Hv & ->). destruct ms1 as [|kv1 ms1]; cbn [app] in E.
      * inversion E; subst. congruence.
      * inversion E; subst. specialize (Hall (k, l) (or_introl eq_refl)). cbn [snd] in Hall. congruence.
Qed.

Lemma spec_find_loop_miss a n : forall ms tr,
  spec_find_loop a ms n = Some (None, tr) <->
  (forall kv, In kv ms -> spec_resolve_top a (snd kv) n = Some None) /\ tr = map snd ms.
Proof.
  induction ms as [|[k l] ms IH]; intros tr; cbn [spec_find_loop map snd].
  - split.
    + intros E. injection E as <-. split; [intros kv []|reflexivity].
    + intros [_ ->]. reflexivity.
  - destruct (spec_resolve_top a l n) as [[w|]|] eqn:Hr.
    + split; [discriminate|]. intros [Hall _]. specialize (Hall (k, l) (or_introl eq_refl)). cbn [snd] in Hall. congruence.
    + split.
      * destruct (spec_find_loop a ms n) as [[r tr']|] eqn:Hf; [|discriminate].
        intros E. injection E as -> <-. destruct (proj1 (IH tr') eq_refl) as [Hall ->].
        split; [|reflexivity]. intros kv [<-|Hin]; [exact Hr|apply Hall; exact Hin].
      * intros [Hall ->].
        assert (H : spec_find_loop a ms n = Some (None, map snd ms)).
        { apply IH. split; [|reflexivity]. intros kv Hin. apply Hall. right. exact Hin. }
        rewrite H. reflexivity.
    + split; [discriminate|]. intros [Hall _]. specialize (Hall (k, l) (or_introl eq_refl)). cbn [snd] in Hall. congruence.
Qed.

(* what a lookup of a name the dependency loader has no binding for, and that no module name qualifies, answers *)
Theorem dep_first_wins ds n0 r tr :
  forallb dop_wf ds = true -> tn_wf (norm n0) = true ->
  route mods (norm n0) = None ->
  dresult_after cfg pre mods ds (DGetEntry n0) = DR (REntry ENone) [] ->
  dproject (dresult_after cfg pre mods ds (DLoadEntry n0)) = DR r tr ->
  let a := abs (fst (fst (drun cfg pre mods ds))) in
  (exists v ms1 k l ms2, r = REntry (EVal v) /\ mods = ms1 ++ (k, l) :: ms2 /\
      (forall kv, In kv ms1 -> spec_resolve_top a (snd kv) (norm n0) = Some None) /\
      spec_resolve_top a l (norm n0) = Some (Some v) /\ tr = map snd ms1 ++ [l])
  \/ (r = REntry ENone /\ (forall kv, In kv mods -> spec_resolve_top a (snd kv) (norm n0) = Some None) /\ tr = map snd mods).
Proof.
  intros Hd Hw Hro Hget Hres a.
  pose proof (dresult_after_ok ds (DLoadEntry n0) Hd Hw) as Hok.
  pose proof (dresult_after_sim ds (DLoadEntry n0) Hd Hw) as Hs. rewrite Hres in Hs.
  pose proof (dresult_after_sim ds (DGetEntry n0) Hd Hw) as Hsg. rewrite Hget in Hsg.
  subst a. revert Hs Hsg.
  generalize (dabs (fst (dstep cfg mods (fst (drun cfg pre mods ds)) (DLoadEntry n0)))).
  generalize (dabs (fst (dstep cfg mods (fst (drun cfg pre mods ds)) (DGetEntry n0)))).
  destruct (fst (drun cfg pre mods ds)) as [st own]. unfold dabs. cbn [fst snd].
  set (a := abs st). set (bs := abs_ents own). intros sg sl Hs Hsg.
  cbn [dspec_step dproject project] in Hs, Hsg.
  assert (Hb : assoc (map_key (norm n0)) bs = None).
  { injection Hsg as _ Hsg. destruct (assoc (map_key (norm n0)) bs); [discriminate|reflexivity]. }
  unfold dep_spec_lookup, spec_find in Hs. rewrite Hb, Hro in Hs.
  destruct (spec_find_loop a mods (norm n0)) as [[[v|] tr']|] eqn:Hf.
  - injection Hs as _ <- <-. left. apply spec_find_loop_found in Hf.
    destruct Hf as (ms1 & k & l & ms2 & E & Hall & Hv & Et). exists v, ms1, k, l, ms2. splits; try assumption. reflexivity.
  - injection Hs as _ <- <-. right. apply spec_find_loop_miss in Hf. destruct Hf as [Hall Et].
    splits; try assumption. reflexivity.
  - exfalso. injection Hs as _ <- _. clear -Hres Hok.
    destruct (dresult_after cfg pre mods ds (DLoadEntry n0)) as [x|x t|l]; cbn [dproject] in Hres; try discriminate.
    injection Hres as Hx _. cbn [dout_ok] in Hok.
    destruct x as [| | | |[| |]| | | | |]; cbn [project] in Hx; discriminate.
Qed.

(* ---- the answers of the dependency loader are write-once ---- *)

Lemma binds_define_mono bs n v k w : assoc k bs = Some w -> assoc k (fst (binds_define bs n v)) = Some w.
Proof.
  intros H. unfold binds_define. destruct (assoc (map_key n) bs); cbn [fst]; [exact H|].
  rewrite assoc_app, H. reflexivity.
Qed.

Lemma dep_spec_lookup_mono a bs n bs' r tr k w :
  dep_spec_lookup a mods bs n = Some (bs', r, tr) -> assoc k bs = Some w -> assoc k bs' = Some w.
Proof.
  unfold dep_spec_lookup. intros H Hk. destruct (assoc (map_key n) bs).
  - injection H as <- _ _. exact Hk.
  - destruct (spec_find a mods n) as [[[v|] tr']|]; [| |discriminate]; injection H as <- _ _; [|exact Hk].
    rewrite assoc_app, Hk. reflexivity.
Qed.

Lemma dspec_step_mono s d k w :
  assoc k (snd s) = Some w -> assoc k (snd (fst (dspec_step cfg mods s d))) = Some w.
Proof.
  destruct s as [a bs]. cbn [snd]. intros H.
  destruct d as [o|n0|n0|n0|n0|n0 v|m]; cbn [dspec_step].
  - destruct (spec_step cfg a o). exact H.
  - destruct (dep_spec_lookup a mods bs (norm n0)) as [[[bs' r] tr]|] eqn:E; cbn [fst snd]; [|exact H].
    eapply dep_spec_lookup_mono; eauto.
  - destruct (negb (str_eqb (tn_auth (norm n0)) (cfg_auth cfg))); [exact H|].
    destruct (dep_spec_lookup a mods bs (norm n0)) as [[[bs' r] tr]|] eqn:E; cbn [fst snd]; [|exact H].
    eapply dep_spec_lookup_mono; eauto.
  - exact H.
  - exact H.
  - pose proof (binds_define_mono bs (norm n0) v k w H) as Hb. destruct (binds_define bs (norm n0) v). exact Hb.
  - exact H.
Qed.

Lemma dspec_run_from_mono k w : forall ds s,
  assoc k (snd s) = Some w -> assoc k (snd (fst (dspec_run_from cfg mods s ds))) = Some w.
Proof.
  induction ds as [|d ds IH]; intros s H; [exact H|].
  cbn [dspec_run_from]. pose proof (dspec_step_mono s d k w H) as H1.
  destruct (dspec_step cfg mods s d) as [s1 r]. cbn [fst] in H1.
  specialize (IH s1 H1). destruct (dspec_run_from cfg mods s1 ds). exact IH.
Qed.

Lemma dproject_val r v tr : dproject r = DR (REntry (EVal v)) tr -> r = DR (REntry (EVal v)) tr.
Proof.
  destruct r as [x|x t|l]; cbn [dproject]; try discriminate.
  intros E. injection E as E ->. destruct x as [| | | |[| |]| | | | |]; cbn [project] in E; try discriminate; congruence.
Qed.

(* once the dependency loader answered a name with a value - found through a module loader, or defined - it
   answers every name of the same key with that value ever after, whatever the history does, asking no module loader *)
Theorem dep_sticky ds ds' n0 n1 v tr :
  forallb dop_wf ds = true -> forallb dop_wf ds' = true -> tn_wf (norm n0) = true -> tn_wf (norm n1) = true ->
  map_key (norm n1) = map_key (norm n0) ->
  dresult_after cfg pre mods ds (DLoadEntry n0) = DR (REntry (EVal v)) tr ->
  dresult_after cfg pre mods (ds ++ DLoadEntry n0 :: ds') (DLoadEntry n1) = DR (REntry (EVal v)) [].
Proof.
  intros Hd Hd' Hw0 Hw1 Hk Hres.
  pose proof (dresult_after_sim ds (DLoadEntry n0) Hd Hw0) as Hs. rewrite Hres in Hs.
  assert (Hall : forallb dop_wf (ds ++ DLoadEntry n0 :: ds') = true).
  { rewrite forallb_dwf_app, Hd. cbn [forallb dop_wf andb]. rewrite Hw0, Hd'. reflexivity. }
  pose proof (dresult_after_sim (ds ++ DLoadEntry n0 :: ds') (DLoadEntry n1) Hall Hw1) as Hs1.
  apply dproject_val.
  (* the abstract state after ds ++ [DLoadEntry n0] binds the key *)
  assert (Hb0 : assoc (map_key (norm n0)) (snd (dabs (fst (dstep cfg mods (fst (drun cfg pre mods ds)) (DLoadEntry n0))))) = Some v).
  { revert Hs. generalize (dabs (fst (dstep cfg mods (fst (drun cfg pre mods ds)) (DLoadEntry n0)))).
    destruct (dabs (fst (drun cfg pre mods ds))) as [a bs]. intros s1. cbn [dspec_step dproject project].
    unfold dep_spec_lookup. destruct (assoc (map_key (norm n0)) bs) as [w|] eqn:Ea.
    - intros E. inversion E; subst. exact Ea.
    - destruct (spec_find a mods (norm n0)) as [[[w|] tr']|]; intros E; inversion E; subst.
      cbn [snd]. rewrite assoc_app, Ea. cbn [assoc].
      destruct (str_eqb_spec (map_key (norm n0)) (map_key (norm n0))) as [_|C]; [reflexivity|contradiction]. }
  (* and so does the abstract state after the whole history *)
  assert (Hb1 : assoc (map_key (norm n0)) (snd (dabs (fst (drun cfg pre mods (ds ++ DLoadEntry n0 :: ds'))))) = Some v).
  { replace (ds ++ DLoadEntry n0 :: ds') with ((ds ++ [DLoadEntry n0]) ++ ds') by (rewrite <- app_assoc; reflexivity).
    assert (Hw01 : forallb dop_wf (ds ++ [DLoadEntry n0]) = true).
    { rewrite forallb_dwf_app, Hd. cbn [forallb dop_wf andb]. rewrite Hw0. reflexivity. }
    unfold drun. rewrite drun_from_app. cbn [fst].
    pose proof (dep_reachable_inv cfg pre mods (ds ++ [DLoadEntry n0]) Hc Hp Hm Hw01) as Hi.
    destruct (drun_from_sim cfg mods ds' _ Hi Hd') as (_ & Hsp & _).
    fold (drun cfg pre mods (ds ++ [DLoadEntry n0])).
    apply (f_equal fst) in Hsp. cbn [fst] in Hsp. unfold drun in Hsp |- *. rewrite <- Hsp.
    apply dspec_run_from_mono. fold (drun cfg pre mods (ds ++ [DLoadEntry n0])). rewrite drun_snoc. exact Hb0. }
  rewrite <- Hk in Hb1.
  revert Hs1 Hb1. destruct (dabs (fst (drun cfg pre mods (ds ++ DLoadEntry n0 :: ds')))) as [a bs].
  cbn [dspec_step snd]. unfold dep_spec_lookup. intros Hs1 Hb1. rewrite Hb1 in Hs1.
  apply (f_equal snd) in Hs1. cbn [snd eobs_of_val] in Hs1. symmetry. exact Hs1.
Qed.

End Reach.
