(* LoaderXCorollaries.v — the corollaries of Proofs/LoaderCorollaries.v (stated there for histories of Model/Loader.v
   operations) over the FULL history language `xop` of Model/LoaderAdd.v: operations, px.AddTypes of object types and
   type sets, declarations.  Each is first proved of a STATE that satisfies the invariant (`inv`, `tsets_ok`) and then
   of the state any well-formed history reaches.  New: completeness of Discover along chains WITH type-set loaders and
   stable resolution under the weaker hypothesis "no ancestor gains a binding OF THE NAME", both with the boolean
   guard `not_relative` (Model/LoaderSpecX.v). *)
From Coq Require Import Arith NArith Bool List Lia.
From PcoreV Require Import Model.Base Model.Loader Model.LoaderSpec Model.LoaderAdd Model.LoaderSpecX Proofs.LoaderNames Proofs.LoaderProofs
  Proofs.LoaderCorollaries Proofs.LoaderAddProofs Proofs.LoaderAddScoped Proofs.LoaderAddCorollaries.
Import ListNotations.

(* ---------------------------------------------------------------------------------------------- *)
(* histories: one more operation *)

Lemma xop_after cfg xs o : xresult_after cfg xs (XOp o) = XR (snd (step cfg (fst (xrun cfg xs)) o)).
Proof. unfold xresult_after. cbn [xstep]. destruct (step cfg (fst (xrun cfg xs)) o). reflexivity. Qed.

Lemma xrun_snoc_op cfg xs o : fst (xrun cfg (xs ++ [XOp o])) = fst (step cfg (fst (xrun cfg xs)) o).
Proof. rewrite xrun_snoc. cbn [fst xstep]. destruct (step cfg (fst (xrun cfg xs)) o). reflexivity. Qed.

Lemma xr_inj r r' : XR r = XR r' -> r = r'.
Proof. intros H. injection H as H. exact H. Qed.

Lemma xforallb_app cfg xs xs' :
  forallb (xop_wf cfg) (xs ++ xs') = true -> forallb (xop_wf cfg) xs = true /\ forallb (xop_wf cfg) xs' = true.
Proof. rewrite forallb_app. apply andb_prop. Qed.

Lemma xrun_ext cfg xs xs' :
  cfg_wf cfg = true -> forallb (xop_wf cfg) (xs ++ xs') = true ->
  ext (abs (fst (xrun cfg xs))) (abs (fst (xrun cfg (xs ++ xs')))).
Proof.
  intros Hc Hw. destruct (xforallb_app _ _ _ Hw) as [Hw1 _].
  rewrite (xloader_state_refines cfg _ Hc Hw), (xloader_state_refines cfg _ Hc Hw1).
  unfold spec_xrun. rewrite spec_xrun_from_app. apply spec_xrun_from_ext.
Qed.

(* ---------------------------------------------------------------------------------------------- *)
(* every type-set loader of a reachable state - those px.AddTypes made too - holds a well-formed type set *)
Section Tsets.
  Variable cfg : config.
  Hypothesis Hc : cfg_wf cfg = true.
  Variables L base : nat.

  Lemma exec_set_tsets a r n v a' o :
    atsets_ok a -> exec_set (spec_step cfg) L base a r n v = (a', o) -> atsets_ok a'.
  Proof.
    intros Ha. unfold exec_set. destruct (spec_step cfg a (ODefine (ref_idx L base r) n v)) as [a1 r1] eqn:E.
    intros H. injection H as <- _. eapply spec_step_tsets; eauto.
  Qed.

  Lemma exec_act_tsets a x a' o :
    atsets_ok a -> exec_act (spec_step cfg) L base a x = (a', o) -> atsets_ok a'.
  Proof.
    intros Ha. destruct x as [r n v|r n v]; cbn [exec_act]; [apply exec_set_tsets; exact Ha|].
    destruct (spec_step cfg a (OLoadEntry (ref_idx L base r) n)) as [a1 r1] eqn:E.
    pose proof (spec_step_tsets cfg _ _ _ _ Hc Ha E) as Ha1.
    intros H. destruct r1 as [| | | |[| |]| | | | |];
      try (injection H as <- _; exact Ha1);
      (eapply exec_set_tsets; [exact Ha1|exact H]).
  Qed.

  Lemma exec_acts_tsets : forall acts a a' o,
    atsets_ok a -> exec_acts (spec_step cfg) L base a acts = (a', o) -> atsets_ok a'.
  Proof.
    induction acts as [|x acts IH]; intros a a' o Ha H; cbn [exec_acts] in H.
    - injection H as <- _. exact Ha.
    - destruct (exec_act (spec_step cfg) L base a x) as [a1 o1] eqn:E.
      pose proof (exec_act_tsets _ _ _ _ Ha E) as Ha1.
      destruct o1; try (injection H as <- _; exact Ha1).
      eapply IH; eauto.
  Qed.

  Lemma exec_instr_tsets a i a' o :
    instr_wf i = true -> atsets_ok a ->
    exec_instr (spec_step cfg) spec_add (@length anode) L base a i = (a', o) -> atsets_ok a'.
  Proof.
    intros Hw Ha. destruct i as [x|p ts|r n body|ca]; cbn [exec_instr instr_wf] in *.
    4: { intros H. injection H as <- _. exact Ha. }
    - apply exec_act_tsets. exact Ha.
    - destruct (Nat.ltb (ref_idx L base p) (length a)); intros H.
      + unfold spec_add in H. injection H as <- _. apply atsets_ok_app; [exact Ha|].
        intros p0 ts0 K. injection K as _ <-. exact Hw.
      + injection H as <- _. exact Ha.
    - destruct (spec_step cfg a (OLoadEntry (ref_idx L base r) n)) as [a1 r1] eqn:E.
      pose proof (spec_step_tsets cfg _ _ _ _ Hc Ha E) as Ha1.
      intros H. destruct r1 as [| | | |[| |]| | | | |];
        try (injection H as <- _; exact Ha1);
        (eapply exec_acts_tsets; [exact Ha1|exact H]).
  Qed.

  Lemma exec_tsets : forall is a a' o,
    forallb instr_wf is = true -> atsets_ok a ->
    exec (spec_step cfg) spec_add (@length anode) L base a is = (a', o) -> atsets_ok a'.
  Proof.
    induction is as [|i is IH]; intros a a' o Hw Ha H; cbn [exec forallb] in *.
    - injection H as <- _. exact Ha.
    - apply andb_prop in Hw. destruct Hw as [Hwi Hw].
      destruct (exec_instr (spec_step cfg) spec_add (@length anode) L base a i) as [a1 o1] eqn:E.
      pose proof (exec_instr_tsets _ _ _ _ Hwi Ha E) as Ha1.
      destruct o1; try (injection H as <- _; exact Ha1).
      eapply IH; eauto.
  Qed.
End Tsets.

Lemma spec_xstep_tsets cfg a x a' r :
  cfg_wf cfg = true -> xop_wf cfg x = true -> atsets_ok a -> spec_xstep cfg a x = (a', r) -> atsets_ok a'.
Proof.
  intros Hc Hw Ha. destruct x as [o|l ts|l ts]; cbn [spec_xstep xop_wf] in *.
  - destruct (spec_step cfg a o) as [a1 r1] eqn:E. intros H. injection H as <- _. eapply spec_step_tsets; eauto.
  - destruct (Nat.ltb l (length a)).
    + destruct (exec (spec_step cfg) spec_add (@length anode) l (length a) a (compile (cfg_auth cfg) ts)) as [a1 o1] eqn:E.
      intros H. injection H as <- _. eapply exec_tsets; eauto.
    + intros H. injection H as <- _. exact Ha.
  - destruct (Nat.ltb l (length a)).
    + destruct (exec (spec_step cfg) spec_add (@length anode) l (length a) a (compile_decl (cfg_auth cfg) ts)) as [a1 o1] eqn:E.
      intros H. injection H as <- _. eapply exec_tsets; eauto.
    + intros H. injection H as <- _. exact Ha.
Qed.

Lemma spec_xrun_from_tsets cfg : forall xs a,
  cfg_wf cfg = true -> forallb (xop_wf cfg) xs = true -> atsets_ok a -> atsets_ok (fst (spec_xrun_from cfg a xs)).
Proof.
  induction xs as [|x xs IH]; intros a Hc Hw Ha; [exact Ha|].
  cbn [forallb] in Hw. apply andb_prop in Hw. destruct Hw as [Hwx Hw].
  cbn [spec_xrun_from]. destruct (spec_xstep cfg a x) as [a1 r] eqn:E.
  specialize (IH a1 Hc Hw (spec_xstep_tsets cfg a x a1 r Hc Hwx Ha E)).
  destruct (spec_xrun_from cfg a1 xs). exact IH.
Qed.

Lemma xreachable_tsets cfg xs :
  cfg_wf cfg = true -> forallb (xop_wf cfg) xs = true -> tsets_ok (fst (xrun cfg xs)).
Proof.
  intros Hc Hw l nd p ts E K.
  assert (A : atsets_ok (abs (fst (xrun cfg xs)))).
  { rewrite (xloader_state_refines cfg xs Hc Hw). unfold spec_xrun. apply spec_xrun_from_tsets; [exact Hc|exact Hw|].
    intros [|[|l0]] nd0 p0 ts0 E0 K0; cbn in E0; try discriminate. injection E0 as <-. discriminate. }
  eapply (A l (abs_node nd) p ts); [rewrite nth_abs, E; reflexivity|exact K].
Qed.

(* ---------------------------------------------------------------------------------------------- *)
(* one operation in a state that satisfies the invariant *)
Section State.
  Variable cfg : config.

  Lemma step_spec st o : inv st -> op_wf o = true ->
    spec_step cfg (abs st) o = (abs (fst (step cfg st o)), project (snd (step cfg st o))) /\ inv (fst (step cfg st o)).
  Proof.
    intros Hi Ho. destruct (step cfg st o) as [st' r] eqn:E.
    destruct (step_sim cfg st o st' r Hi Ho E) as (Hi' & Hs & _). split; assumption.
  Qed.

  Lemma load_spec st l n : inv st -> op_wf (OLoad l n) = true ->
    abs (fst (step cfg st (OLoad l n))) = abs st /\
    snd (step cfg st (OLoad l n)) =
      if Nat.ltb l (length st) then
        if negb (str_eqb (tn_auth (norm n)) (cfg_auth cfg)) then RFound None
        else match spec_resolve_top (abs st) l (norm n) with Some r => RFound r | None => RStuck end
      else RBadLoader.
  Proof.
    intros Hi Ho. destruct (step_spec st _ Hi Ho) as [Hs _].
    cbn [spec_step] in Hs. rewrite abs_length in Hs.
    destruct (Nat.ltb l (length st)).
    - injection Hs as Ha Hr. split; [symmetry; exact Ha|]. apply project_inv; [symmetry; exact Hr|].
      intros e. destruct (negb _); [discriminate|]. destruct (spec_resolve_top _ _ _); discriminate.
    - injection Hs as Ha Hr. split; [symmetry; exact Ha|]. apply project_inv; [symmetry; exact Hr|discriminate].
  Qed.

  Lemma redefine_st st l n v old : inv st -> op_wf (ODefine l n v) = true -> l < length st ->
    spec_own_binding (abs st) l (norm n) = Some old ->
    abs (fst (step cfg st (ODefine l n v))) = abs st /\
    snd (step cfg st (ODefine l n v)) =
      if val_same old v || val_equals old v then RDefined old
      else if vty old && vty v then RErr ERedefineType else RErr ERedefine.
  Proof.
    intros Hi Ho Hl Hb. destruct (step_spec st _ Hi Ho) as [Hs _].
    cbn [spec_step] in Hs. rewrite abs_length in Hs.
    destruct (Nat.ltb_spec l (length st)) as [_|]; [|lia].
    unfold spec_define in Hs. unfold spec_own_binding in Hb.
    destruct (def_target (S l) (abs st) l) as [t|]; [|discriminate].
    rewrite Hb in Hs. injection Hs as Ha Hr. split; [symmetry; exact Ha|].
    apply project_inv; [symmetry; exact Hr|].
    intros e. destruct (val_same old v || val_equals old v); [discriminate|].
    destruct (vty old && vty v); discriminate.
  Qed.

  (* a failed lookup, then a definition through the same loader, then the lookup again *)
  Lemma miss_not_sticky_st st l n v : inv st -> op_wf (OLoad l n) = true -> tn_auth (norm n) = cfg_auth cfg ->
    snd (step cfg st (OLoad l n)) = RFound None ->
    snd (step cfg (fst (step cfg st (OLoad l n))) (ODefine l n v)) = RDefined v /\
    snd (step cfg (fst (step cfg (fst (step cfg st (OLoad l n))) (ODefine l n v))) (OLoad l n)) = RFound (Some v).
  Proof.
    intros Hi Ho Hau H.
    assert (Hod : op_wf (ODefine l n v) = true) by exact Ho.
    destruct (load_spec st l n Hi Ho) as [Ha1 H1]. rewrite H in H1.
    destruct (step_spec st _ Hi Ho) as [_ Hi1].
    set (st1 := fst (step cfg st (OLoad l n))) in *.
    pose proof (tree_ok_abs _ Hi) as Ht.
    destruct (Nat.ltb_spec l (length st)) as [Hl|Hl]; [|discriminate].
    rewrite Hau, str_eqb_refl in H1. cbn [negb] in H1.
    destruct (spec_resolve_top (abs st) l (norm n)) as [x|] eqn:Hr; [|discriminate].
    injection H1 as <-.
    destruct (set_entry_sim (S l) _ l (norm n) None Hi Hl ltac:(lia)) as (t & nd & Hd & _).
    pose proof (miss_target_unbound _ _ _ _ _ _ Hr Hd) as Hn.
    (* the definition *)
    destruct (step_spec st1 _ Hi1 Hod) as [Hs Hi2].
    set (st2 := fst (step cfg st1 (ODefine l n v))) in *.
    cbn [spec_step] in Hs. rewrite Ha1, abs_length in Hs.
    destruct (Nat.ltb_spec l (length st)) as [_|]; [|lia].
    unfold spec_define in Hs. rewrite Hd, Hn in Hs. injection Hs as Ha2 Hr2.
    split; [apply project_inv; [symmetry; exact Hr2|discriminate]|].
    (* the second lookup *)
    destruct (load_spec st2 l n Hi2 Ho) as [_ H3]. rewrite H3.
    assert (Hlen : length st2 = length st) by (rewrite <- !abs_length, <- Ha2, set_binds_length; reflexivity).
    rewrite Hlen. destruct (Nat.ltb_spec l (length st)) as [_|]; [|lia].
    rewrite Hau, str_eqb_refl. cbn [negb]. rewrite <- Ha2. unfold spec_resolve_top in *.
    rewrite (define_resolves _ _ _ l (norm n) v t Ht Hd Hn Hr). reflexivity.
  Qed.

  (* Discover in a state that satisfies the invariant *)
  Lemma discover_exact_st st l P ks : inv st -> tsets_ok st ->
    discover (S l) st l P = DNames ks ->
    strictly_sorted ks /\ NoDup ks /\
    (forall k, In k ks <-> exists tn, listed (abs st) l tn /\ map_key tn = k /\ P tn = true) /\
    (forall k tn, In k ks -> tn_of_key k = Some tn -> tn_wf tn = true -> map_key tn = k -> spec_has (abs st) l tn = true).
  Proof.
    intros Hi Hts H.
    destruct (Nat.lt_ge_cases l (length st)) as [Hl|Hl].
    - destruct (discover_sim (S l) _ l P Hi Hl ltac:(lia)) as (ks' & Hd & Hs & Hsorted).
      rewrite Hd in H. injection H as <-.
      pose proof (discover_nodup _ _ _ _ _ Hi Hts Hl Hs) as Hnd.
      split; [apply sorted_nodup_strict; assumption|]. split; [exact Hnd|]. split.
      + apply (discover_members _ _ _ _ _ (keys_ok_abs _ Hi) Hs).
      + intros k tn. eapply discover_has; eauto.
    - rewrite discover_S in H. destruct (nth_error st l) eqn:E; [|discriminate].
      assert (l < length st) by (apply nth_error_Some; congruence). lia.
  Qed.

  (* an operation that leaves the abstract state as it is leaves every discovery as it is *)
  Lemma discover_abs_eq st st' l P : inv st -> inv st' -> abs st' = abs st ->
    discover (S l) st' l P = discover (S l) st l P.
  Proof.
    intros Hi Hi' Ha.
    destruct (Nat.lt_ge_cases l (length st)) as [Hl|Hl].
    - assert (Hl' : l < length st') by (rewrite (abs_eq_length _ _ Ha); exact Hl).
      destruct (discover_sim (S l) _ l P Hi Hl ltac:(lia)) as (ks & Hd & Hsp & _).
      destruct (discover_sim (S l) _ l P Hi' Hl' ltac:(lia)) as (ks' & Hd' & Hsp' & _).
      rewrite Hd, Hd'. rewrite Ha, Hsp in Hsp'. injection Hsp' as ->. reflexivity.
    - rewrite !discover_S.
      assert (E1 : nth_error st l = None) by (apply nth_error_None; exact Hl).
      assert (E2 : nth_error st' l = None) by (apply nth_error_None; rewrite (abs_eq_length _ _ Ha); exact Hl).
      rewrite E1, E2. reflexivity.
  Qed.

  Lemma lookup_abs st o : inv st -> op_wf o = true ->
    (match o with OLoad _ _ | OLoadEntry _ _ | OGetEntry _ _ | OHas _ _ | ODiscover _ _ => True | _ => False end) ->
    abs (fst (step cfg st o)) = abs st.
  Proof.
    intros Hi Ho Hk. destruct (step_spec st o Hi Ho) as [Hs _].
    destruct o; try contradiction; cbn [spec_step] in Hs; rewrite abs_length in Hs;
      destruct (Nat.ltb _ _); injection Hs as Hs _; symmetry; exact Hs.
  Qed.
End State.

(* ---------------------------------------------------------------------------------------------- *)
(* completeness of Discover along ANY chain, type-set loaders included *)

Lemma dc_fold_spec name : forall l acc c,
  fold_left (dc_step name) l acc = Some c -> acc = Some c \/ (In c (map fst l) /\ to_lower c = name).
Proof.
  induction l as [|kv l IH]; intros acc c H; cbn [fold_left] in H; [left; exact H|].
  destruct (IH _ _ H) as [Hacc|[I E]]; [|right; split; [right; exact I|exact E]].
  unfold dc_step in Hacc. destruct (str_eqb_spec (to_lower (fst kv)) name) as [Ek|_]; [|left; exact Hacc].
  injection Hacc as <-. right. split; [left; reflexivity|exact Ek].
Qed.

(* a name the type set answers is, up to letter case, the name of one of its types *)
Lemma ts_get_type_member ts tn tp :
  ts_wf ts = true -> ts_get_type ts tn = Some tp ->
  exists kv, In kv (ts_types ts) /\ tn_case_variant tn (ts_tn ts kv) = true.
Proof.
  intros Hw H. unfold ts_get_type in H.
  destruct (str_eqb_spec (tn_ns tn) ns_type) as [Ens|_]; [|discriminate].
  destruct (str_eqb_spec (tn_auth tn) (ts_auth ts)) as [Eau|_]; [|discriminate].
  cbn [andb negb] in H.
  destruct (parts tn) as [|first [|? ?]] eqn:Ep; try discriminate.
  unfold parts, split_cc in Ep. apply split_cc_aux_single in Ep. cbn [rev app] in Ep.
  assert (Hkv : exists kv, In kv (ts_types ts) /\ to_lower (fst kv) = to_lower (tn_name tn)).
  { unfold ts_get_type2 in H. destruct (assoc first (ts_types ts)) as [v|] eqn:Ea.
    - apply assoc_in in Ea. exists (first, v). split; [exact Ea|]. cbn [fst]. rewrite Ep. apply to_lower_idem.
    - destruct (dc_to_cc ts first) as [cc|] eqn:Ed; [|discriminate].
      unfold dc_to_cc in Ed.
      change (fun (acc : option str) (kv0 : str * val) =>
         if str_eqb (to_lower (fst kv0)) first then Some (fst kv0) else acc) with (dc_step first) in Ed.
      destruct (dc_fold_spec first _ _ _ Ed) as [Hn|[_ Hl]]; [discriminate|].
      apply assoc_in in H. exists (cc, tp). split; [exact H|]. cbn [fst]. rewrite Hl, Ep. reflexivity. }
  destruct Hkv as (kv & I & El). exists kv. split; [exact I|].
  unfold ts_wf in Hw. apply andb_prop in Hw. destruct Hw as [Hw _]. apply andb_prop in Hw. destruct Hw as [_ Hall].
  rewrite forallb_forall in Hall. specialize (Hall kv I).
  apply andb_prop in Hall. destruct Hall as [_ Hst]. apply negb_true_iff in Hst.
  unfold tn_case_variant, ts_tn, new_typed_name. cbn [tn_auth tn_ns tn_name].
  rewrite (trim_cc_not_starts _ Hst), Eau, Ens, El, !str_eqb_refl. reflexivity.
Qed.

Lemma cv_refl_b tn : tn_case_variant tn tn = true.
Proof. unfold tn_case_variant. rewrite !str_eqb_refl. reflexivity. Qed.

Lemma mem_key_in k l : mem_key k l = true -> In k l.
Proof.
  unfold mem_key. intros H. apply existsb_exists in H. destruct H as (x & I & E).
  apply str_eqb_eq in E. subst x. exact I.
Qed.

Lemma not_parent_not_relative n p : is_parent p n = false -> relative_to n p = None.
Proof. unfold relative_to. intros ->. reflexivity. Qed.

Lemma has_listed : forall f st l tn,
  inv st -> tsets_ok st -> l < length st -> l < f -> no_relative f (abs st) l tn = true ->
  tn_of_key (map_key tn) = Some tn -> tn_wf tn = true ->
  spec_has (abs st) l tn = true ->
  exists tn', tn_case_variant tn tn' = true /\ listed (abs st) l tn'.
Proof.
  induction f as [|f IH]; intros st l tn Hi Hts Hl Hf Hg T Hw Hh; [lia|].
  destruct (nth_error st l) as [nd|] eqn:E; [|apply nth_error_None in E; lia].
  assert (Ea : nth_error (abs st) l = Some (abs_node nd)) by (rewrite nth_abs, E; reflexivity).
  cbn [no_relative] in Hg. rewrite Ea in Hg. cbn [abs_node akind] in Hg.
  pose proof Hh as Hh'. unfold spec_has, spec_resolve_top, fuel_of in Hh'.
  rewrite spec_resolve_S, Ea in Hh'. cbn [abs_node akind abind] in Hh'.
  assert (Hroot : forall v, assoc (map_key tn) (abs_ents (nents nd)) = Some v ->
            In (map_key tn) (map fst (abind (abs_node nd)))).
  { intros v Hv. apply assoc_in in Hv. cbn [abs_node abind]. change (map_key tn) with (fst (map_key tn, v)).
    apply in_map. exact Hv. }
  destruct (nkind nd) as [| |p|p ts] eqn:K.
  - destruct (assoc (map_key tn) (abs_ents (nents nd))) as [v|] eqn:Hv; [|discriminate].
    exists tn. split; [apply cv_refl_b|]. eapply listed_root; eauto. cbn [abs_node akind]. rewrite K. reflexivity.
  - destruct (assoc (map_key tn) (abs_ents (nents nd))) as [v|] eqn:Hv; [|discriminate].
    exists tn. split; [apply cv_refl_b|]. eapply listed_root; eauto. cbn [abs_node akind]. rewrite K. reflexivity.
  - assert (Hp : p < l) by (eapply inv_parent; eauto; rewrite K; reflexivity).
    destruct (spec_has (abs st) p tn) eqn:Hhp.
    + destruct (IH st p tn Hi Hts ltac:(lia) ltac:(lia) Hg T Hw Hhp) as (tn' & Hcv & Hlp).
      exists tn'. split; [exact Hcv|]. eapply listed_parent; [exact Ea|cbn [abs_node akind]; exact K|exact Hlp].
    + rewrite (resolve_of_has_false st p tn (l + length (tn_name tn)) Hi Hw ltac:(lia) ltac:(lia) Hhp) in Hh'.
      destruct (assoc (map_key tn) (abs_ents (nents nd))) as [v|] eqn:Hv; [|discriminate].
      exists tn. split; [apply cv_refl_b|]. eapply listed_own; eauto.
  - assert (Hp : p < l) by (eapply inv_parent; eauto; rewrite K; reflexivity).
    pose proof (tsets_ok_nth st l nd p ts Hts E K) as Htw.
    apply andb_prop in Hg. destruct Hg as [Hnp Hg]. apply negb_true_iff in Hnp.
    destruct (ts_get_type ts tn) as [tp|] eqn:G.
    + destruct (ts_get_type_member ts tn tp Htw G) as (kv & I & Hcv).
      exists (ts_tn ts kv). split; [exact Hcv|]. eapply listed_tset; [exact Ea|cbn [abs_node akind]; exact K|exact I].
    + destruct (spec_has (abs st) p tn) eqn:Hhp.
      * destruct (IH st p tn Hi Hts ltac:(lia) ltac:(lia) Hg T Hw Hhp) as (tn' & Hcv & Hlp).
        exists tn'. split; [exact Hcv|].
        eapply listed_tset_parent; [exact Ea|cbn [abs_node akind]; exact K|exact Hlp|].
        destruct (mem_key (map_key tn') (map (fun kv => map_key (ts_tn ts kv)) (ts_types ts))) eqn:Hm; [|reflexivity].
        exfalso. apply mem_key_in in Hm. apply in_map_iff in Hm. destruct Hm as (kv & Mk & I).
        rewrite <- (cv_map_key _ _ (cv_of_bool _ _ Hcv)) in Mk.
        pose proof (tn_of_key_map_key _ (ts_wf_tn ts kv Htw I)) as T'. rewrite Mk, T in T'. injection T' as ->.
        destruct (ts_get_type_lowered ts kv Htw I) as (v & Hv). rewrite Hv in G. discriminate.
      * rewrite (resolve_of_has_false st p tn (l + length (tn_name tn)) Hi Hw ltac:(lia) ltac:(lia) Hhp) in Hh'.
        rewrite (not_parent_not_relative _ _ Hnp) in Hh'. discriminate.
Qed.

Lemma plain_chainb_sound : forall f a l, tree_ok a -> l < f -> plain_chainb f a l = true -> plain_chain a l.
Proof.
  induction f as [|f IH]; intros a l Ht Hf H; [lia|].
  cbn [plain_chainb] in H.
  intros q nd0 p0 ts0 Hq E0 K0.
  destruct (nth_error a l) as [nd|] eqn:E.
  2: { destruct Hq as [->|Hq]; [congruence|]. inversion Hq; congruence. }
  destruct Hq as [->|Hq].
  - rewrite E in E0. injection E0 as <-. rewrite K0 in H. discriminate.
  - assert (Hpar : forall p, parent_of (akind nd) = Some p -> plain_chainb f a p = true -> False).
    { intros p Hp Hb. assert (Hlt : p < l) by (eapply Ht; eauto).
      apply (IH a p Ht ltac:(lia) Hb q nd0 p0 ts0); [|exact E0|exact K0].
      inversion Hq as [l1 nd1 p1 E1 P1|l1 nd1 p1 q1 E1 P1 A1]; subst; rewrite E in E1; injection E1 as <-;
        rewrite Hp in P1; injection P1 as <-; [left; reflexivity|right; exact A1]. }
    destruct (akind nd) as [| |p|p ts] eqn:K.
    + inversion Hq as [l1 nd1 p1 E1 P1|l1 nd1 p1 q1 E1 P1 A1]; subst; rewrite E in E1; injection E1 as <-; rewrite K in P1; discriminate.
    + inversion Hq as [l1 nd1 p1 E1 P1|l1 nd1 p1 q1 E1 P1 A1]; subst; rewrite E in E1; injection E1 as <-; rewrite K in P1; discriminate.
    + eapply Hpar; [reflexivity|exact H].
    + discriminate.
Qed.

Lemma plain_not_relative : forall f a l n, plain_chainb f a l = true -> no_relative f a l n = true.
Proof.
  induction f as [|f IH]; intros a l n H; [reflexivity|].
  cbn [plain_chainb no_relative] in *. destruct (nth_error a l) as [nd|]; [|reflexivity].
  destruct (akind nd); try reflexivity; [apply IH; exact H|discriminate].
Qed.

(* every predicate the harness hands to Discover answers alike on names that differ in letter case *)
Lemma pred_eval_cv p n n' : tn_case_variant n n' = true -> pred_eval p n = pred_eval p n'.
Proof.
  intros H. apply cv_of_bool in H. pose proof (cv_parts _ _ H) as Hp. destruct H as (A & B & C).
  destruct p as [|s|s|]; cbn [pred_eval]; [reflexivity|rewrite B; reflexivity|rewrite C; reflexivity|].
  unfold is_qualified. rewrite Hp. reflexivity.
Qed.

(* ---------------------------------------------------------------------------------------------- *)
(* stable resolution under the weaker hypothesis: no ancestor gains a binding OF THE NAME *)

Lemma resolve_same_key : forall f g a a' p n,
  tree_ok a -> same_kinds a a' -> p < length a -> p < g -> no_relative g a p n = true ->
  (forall q, q = p \/ ancestor a p q -> assoc (map_key n) (own_binds a' q) = assoc (map_key n) (own_binds a q)) ->
  spec_resolve f a' p n = spec_resolve f a p n.
Proof.
  induction f as [|f IH]; intros g a a' p n Ht Hk Hp Hg Hnr Hq; [reflexivity|].
  destruct g as [|g]; [lia|].
  rewrite !spec_resolve_S.
  destruct (nth_error a p) as [nd|] eqn:E; [|apply nth_error_None in E; lia].
  cbn [no_relative] in Hnr. rewrite E in Hnr.
  destruct (Hk p nd E) as (nd' & E' & K). rewrite E', K.
  assert (Hb : assoc (map_key n) (abind nd') = assoc (map_key n) (abind nd)).
  { rewrite <- (own_binds_nth _ _ _ E), <- (own_binds_nth _ _ _ E'). apply Hq. left. reflexivity. }
  rewrite Hb.
  destruct (akind nd) as [| |p0|p0 ts] eqn:Kd; try reflexivity.
  - assert (Hp0 : p0 < p) by (eapply Ht; eauto; rewrite Kd; reflexivity).
    rewrite (IH g a a' p0 n Ht Hk ltac:(lia) ltac:(lia) Hnr); [reflexivity|].
    intros q [->|Hq']; apply Hq; right.
    + eapply anc_parent; eauto. rewrite Kd. reflexivity.
    + eapply anc_step; eauto. rewrite Kd. reflexivity.
  - assert (Hp0 : p0 < p) by (eapply Ht; eauto; rewrite Kd; reflexivity).
    apply andb_prop in Hnr. destruct Hnr as [Hnp Hnr]. apply negb_true_iff in Hnp.
    rewrite (IH g a a' p0 n Ht Hk ltac:(lia) ltac:(lia) Hnr).
    + rewrite (not_parent_not_relative _ _ Hnp). reflexivity.
    + intros q [->|Hq']; apply Hq; right.
      * eapply anc_parent; eauto. rewrite Kd. reflexivity.
      * eapply anc_step; eauto. rewrite Kd. reflexivity.
Qed.

Lemma resolve_stable_key f g a a' l n v :
  tree_ok a -> ext a a' -> l < length a -> l < g -> no_relative g a l n = true ->
  (forall p, ancestor a l p -> assoc (map_key n) (own_binds a' p) = assoc (map_key n) (own_binds a p)) ->
  spec_resolve f a l n = Some (Some v) -> spec_resolve f a' l n = Some (Some v).
Proof.
  intros Ht He Hl Hg Hnr Ha H. destruct f as [|f]; [discriminate|]. destruct g as [|g]; [lia|].
  rewrite spec_resolve_S in *.
  destruct (nth_error a l) as [nd|] eqn:E; [|discriminate].
  cbn [no_relative] in Hnr. rewrite E in Hnr.
  destruct (He l nd E) as (nd' & E' & K & Hb). rewrite E', K.
  pose proof (ext_same_kinds _ _ He) as Hk.
  assert (Hanc : forall p, parent_of (akind nd) = Some p ->
            forall q, q = p \/ ancestor a p q -> assoc (map_key n) (own_binds a' q) = assoc (map_key n) (own_binds a q)).
  { intros p Hpp q [->|Hq]; apply Ha; [eapply anc_parent; eauto|eapply anc_step; eauto]. }
  destruct (akind nd) as [| |p|p ts] eqn:Kd.
  - injection H as H. f_equal. apply Hb. exact H.
  - injection H as H. f_equal. apply Hb. exact H.
  - assert (Hp : p < l) by (eapply Ht; eauto; rewrite Kd; reflexivity).
    rewrite (resolve_same_key f g a a' p n Ht Hk ltac:(lia) ltac:(lia) Hnr (Hanc p eq_refl)).
    destruct (spec_resolve f a p n) as [[v'|]|]; [exact H| |discriminate].
    injection H as H. f_equal. apply Hb. exact H.
  - assert (Hp : p < l) by (eapply Ht; eauto; rewrite Kd; reflexivity).
    apply andb_prop in Hnr. destruct Hnr as [Hnp Hnr]. apply negb_true_iff in Hnp.
    destruct (ts_get_type ts n); [exact H|].
    rewrite (resolve_same_key f g a a' p n Ht Hk ltac:(lia) ltac:(lia) Hnr (Hanc p eq_refl)).
    destruct (spec_resolve f a p n) as [[v'|]|]; [exact H| |discriminate].
    rewrite (not_parent_not_relative _ _ Hnp) in *. discriminate.
Qed.

(* the proper ancestors of a loader, as a list (for concrete instances of the hypotheses `forall p, ancestor a l p -> ...`) *)
Fixpoint chain (fuel : nat) (a : astate) (l : nat) : list nat :=
  match fuel with
  | O => []
  | S f =>
    match nth_error a l with
    | None => []
    | Some nd => match parent_of (akind nd) with Some p => p :: chain f a p | None => [] end
    end
  end.

Lemma ancestor_in_chain : forall f a l p, tree_ok a -> l < f -> ancestor a l p -> In p (chain f a l).
Proof.
  induction f as [|f IH]; intros a l p Ht Hf H; [lia|].
  cbn [chain]. inversion H as [l1 nd1 p1 E1 P1|l1 nd1 p1 q1 E1 P1 A1]; subst; rewrite E1, P1.
  - left. reflexivity.
  - right. apply IH; [exact Ht| |exact A1]. pose proof (Ht _ _ _ E1 P1). lia.
Qed.

Lemma xreachable_tree cfg xs :
  cfg_wf cfg = true -> forallb (xop_wf cfg) xs = true -> tree_ok (abs (fst (xrun cfg xs))).
Proof. intros Hc Hw. apply tree_ok_abs. apply xreachable_inv; assumption. Qed.

(* ---------------------------------------------------------------------------------------------- *)
(* The corollaries over every history of the full language *)

Theorem xredefine cfg xs l n v old :
  cfg_wf cfg = true -> forallb (xop_wf cfg) (xs ++ [XOp (ODefine l n v)]) = true ->
  l < length (fst (xrun cfg xs)) ->
  spec_own_binding (abs (fst (xrun cfg xs))) l (norm n) = Some old ->
  abs (fst (xrun cfg (xs ++ [XOp (ODefine l n v)]))) = abs (fst (xrun cfg xs)) /\
  xresult_after cfg xs (XOp (ODefine l n v)) =
    XR (if val_same old v || val_equals old v then RDefined old
        else if vty old && vty v then RErr ERedefineType else RErr ERedefine).
Proof.
  intros Hc Hw Hl Hb. apply forallb_snoc in Hw. destruct Hw as [Hw Ho].
  pose proof (xreachable_inv cfg xs Hc Hw) as Hi.
  destruct (redefine_st cfg _ l n v old Hi Ho Hl Hb) as [Ha Hr].
  rewrite xrun_snoc_op, xop_after, Hr. split; [exact Ha|reflexivity].
Qed.

Theorem xstable_resolution cfg xs xs' l n v :
  cfg_wf cfg = true -> forallb (xop_wf cfg) (xs ++ xs') = true -> op_wf (OLoad l n) = true ->
  xresult_after cfg xs (XOp (OLoad l n)) = XR (RFound (Some v)) ->
  (forall p, ancestor (abs (fst (xrun cfg xs))) l p ->
     own_binds (abs (fst (xrun cfg (xs ++ xs')))) p = own_binds (abs (fst (xrun cfg xs))) p) ->
  xresult_after cfg (xs ++ xs') (XOp (OLoad l n)) = XR (RFound (Some v)).
Proof.
  intros Hc Hw Ho H Ha. destruct (xforallb_app _ _ _ Hw) as [Hw1 _].
  pose proof (xreachable_inv cfg xs Hc Hw1) as Hi. pose proof (xreachable_inv cfg _ Hc Hw) as Hi'.
  rewrite xop_after in *. apply xr_inj in H. f_equal.
  destruct (load_spec cfg _ l n Hi Ho) as [_ H1]. rewrite H in H1.
  destruct (load_spec cfg _ l n Hi' Ho) as [_ H2]. rewrite H2.
  pose proof (xrun_ext cfg xs xs' Hc Hw) as He.
  pose proof (tree_ok_abs _ Hi) as Ht.
  destruct (Nat.ltb_spec l (length (fst (xrun cfg xs)))) as [Hl|Hl]; [|discriminate].
  pose proof (ext_length _ _ He) as Hlen. rewrite !abs_length in Hlen.
  destruct (Nat.ltb_spec l (length (fst (xrun cfg (xs ++ xs'))))) as [_|Hl']; [|lia].
  destruct (negb (str_eqb (tn_auth (norm n)) (cfg_auth cfg))); [discriminate|].
  unfold spec_resolve_top in *.
  destruct (spec_resolve (fuel_of l (norm n)) (abs (fst (xrun cfg xs))) l (norm n)) as [x|] eqn:Hr; [|discriminate].
  injection H1 as <-.
  rewrite (resolve_stable _ _ _ l (norm n) v Ht He ltac:(rewrite abs_length; exact Hl) Ha Hr). reflexivity.
Qed.

(* ... it is enough that no proper ancestor gains a binding OF THE NAME, provided the name is not qualified by the
   name of a type set on the way (guard `not_relative`; needed: Properties/C12.v C12_x_guard_needed) *)
Theorem xstable_resolution_name cfg xs xs' l n v :
  cfg_wf cfg = true -> forallb (xop_wf cfg) (xs ++ xs') = true -> op_wf (OLoad l n) = true ->
  xresult_after cfg xs (XOp (OLoad l n)) = XR (RFound (Some v)) ->
  not_relative (abs (fst (xrun cfg xs))) l (norm n) = true ->
  (forall p, ancestor (abs (fst (xrun cfg xs))) l p ->
     assoc (map_key (norm n)) (own_binds (abs (fst (xrun cfg xs))) p) = None ->
     assoc (map_key (norm n)) (own_binds (abs (fst (xrun cfg (xs ++ xs')))) p) = None) ->
  xresult_after cfg (xs ++ xs') (XOp (OLoad l n)) = XR (RFound (Some v)).
Proof.
  intros Hc Hw Ho H Hnr Ha. destruct (xforallb_app _ _ _ Hw) as [Hw1 _].
  pose proof (xreachable_inv cfg xs Hc Hw1) as Hi. pose proof (xreachable_inv cfg _ Hc Hw) as Hi'.
  rewrite xop_after in *. apply xr_inj in H. f_equal.
  destruct (load_spec cfg _ l n Hi Ho) as [_ H1]. rewrite H in H1.
  destruct (load_spec cfg _ l n Hi' Ho) as [_ H2]. rewrite H2.
  pose proof (xrun_ext cfg xs xs' Hc Hw) as He.
  pose proof (tree_ok_abs _ Hi) as Ht.
  destruct (Nat.ltb_spec l (length (fst (xrun cfg xs)))) as [Hl|Hl]; [|discriminate].
  pose proof (ext_length _ _ He) as Hlen. rewrite !abs_length in Hlen.
  destruct (Nat.ltb_spec l (length (fst (xrun cfg (xs ++ xs'))))) as [_|Hl']; [|lia].
  destruct (negb (str_eqb (tn_auth (norm n)) (cfg_auth cfg))); [discriminate|].
  unfold spec_resolve_top in *.
  destruct (spec_resolve (fuel_of l (norm n)) (abs (fst (xrun cfg xs))) l (norm n)) as [x|] eqn:Hr; [|discriminate].
  injection H1 as <-.
  assert (Ha' : forall p, ancestor (abs (fst (xrun cfg xs))) l p ->
            assoc (map_key (norm n)) (own_binds (abs (fst (xrun cfg (xs ++ xs')))) p) =
            assoc (map_key (norm n)) (own_binds (abs (fst (xrun cfg xs))) p)).
  { intros p Hp. destruct (assoc (map_key (norm n)) (own_binds (abs (fst (xrun cfg xs))) p)) as [w|] eqn:Eb.
    - unfold own_binds in *. destruct (nth_error (abs (fst (xrun cfg xs))) p) as [nd|] eqn:En; [|discriminate].
      destruct (He p nd En) as (nd' & En' & _ & Hb). rewrite En'. apply Hb. exact Eb.
    - apply Ha; assumption. }
  rewrite (resolve_stable_key _ (S l) _ _ l (norm n) v Ht He ltac:(rewrite abs_length; exact Hl) ltac:(lia) Hnr Ha' Hr).
  reflexivity.
Qed.

Theorem xmiss_not_sticky cfg xs l n v :
  cfg_wf cfg = true -> forallb (xop_wf cfg) xs = true -> op_wf (OLoad l n) = true ->
  tn_auth (norm n) = cfg_auth cfg ->
  xresult_after cfg xs (XOp (OLoad l n)) = XR (RFound None) ->
  xresult_after cfg (xs ++ [XOp (OLoad l n)]) (XOp (ODefine l n v)) = XR (RDefined v) /\
  xresult_after cfg (xs ++ [XOp (OLoad l n); XOp (ODefine l n v)]) (XOp (OLoad l n)) = XR (RFound (Some v)).
Proof.
  intros Hc Hw Ho Hau H. pose proof (xreachable_inv cfg xs Hc Hw) as Hi.
  rewrite xop_after in H. apply xr_inj in H.
  destruct (miss_not_sticky_st cfg _ l n v Hi Ho Hau H) as [H1 H2].
  change (xs ++ [XOp (OLoad l n); XOp (ODefine l n v)]) with (xs ++ [XOp (OLoad l n)] ++ [XOp (ODefine l n v)]).
  rewrite app_assoc, !xop_after, !xrun_snoc_op, H1, H2. split; reflexivity.
Qed.

Theorem xdiscover_exact cfg xs l P ks :
  cfg_wf cfg = true -> forallb (xop_wf cfg) xs = true ->
  discover (S l) (fst (xrun cfg xs)) l P = DNames ks ->
  strictly_sorted ks /\ NoDup ks /\
  (forall k, In k ks <-> exists tn, listed (abs (fst (xrun cfg xs))) l tn /\ map_key tn = k /\ P tn = true) /\
  (forall k tn, In k ks -> tn_of_key k = Some tn -> tn_wf tn = true -> map_key tn = k ->
     spec_has (abs (fst (xrun cfg xs))) l tn = true).
Proof.
  intros Hc Hw. apply discover_exact_st; [apply xreachable_inv|apply xreachable_tsets]; assumption.
Qed.

(* completeness along any chain: a name that resolves through the loader, is not qualified by the name of a type set
   on the way and satisfies the predicate is discovered - for predicates that do not look at the letter case of the name
   (a type of a type set is listed under the name the set gives it, `Car`; the map key is `car`) *)
Theorem xdiscover_complete cfg xs l P ks tn :
  cfg_wf cfg = true -> forallb (xop_wf cfg) xs = true ->
  discover (S l) (fst (xrun cfg xs)) l P = DNames ks ->
  not_relative (abs (fst (xrun cfg xs))) l tn = true ->
  tn_of_key (map_key tn) = Some tn -> tn_wf tn = true ->
  spec_has (abs (fst (xrun cfg xs))) l tn = true ->
  (forall n n', tn_case_variant n n' = true -> P n = P n') -> P tn = true ->
  In (map_key tn) ks.
Proof.
  intros Hc Hw Hd Hnr T Hwf Hh Hcv HP.
  pose proof (xreachable_inv cfg xs Hc Hw) as Hi. pose proof (xreachable_tsets cfg xs Hc Hw) as Hts.
  destruct (discover_exact_st _ l P ks Hi Hts Hd) as (_ & _ & Hm & _).
  destruct (Nat.lt_ge_cases l (length (fst (xrun cfg xs)))) as [Hl|Hl].
  - destruct (has_listed (S l) _ l tn Hi Hts Hl ltac:(lia) Hnr T Hwf Hh) as (tn' & Hv & Hlis).
    apply Hm. exists tn'. split; [exact Hlis|]. split.
    + symmetry. apply cv_map_key. apply cv_of_bool. exact Hv.
    + rewrite <- (Hcv _ _ Hv). exact HP.
  - unfold spec_has, spec_resolve_top, fuel_of in Hh. rewrite spec_resolve_S in Hh.
    assert (E : nth_error (abs (fst (xrun cfg xs))) l = None) by (apply nth_error_None; rewrite abs_length; exact Hl).
    rewrite E in Hh. discriminate.
Qed.

Theorem xdiscover_complete_pred cfg xs l p ks tn :
  cfg_wf cfg = true -> forallb (xop_wf cfg) xs = true ->
  xresult_after cfg xs (XOp (ODiscover l p)) = XR (RNames ks) ->
  not_relative (abs (fst (xrun cfg xs))) l tn = true ->
  tn_of_key (map_key tn) = Some tn -> tn_wf tn = true ->
  spec_has (abs (fst (xrun cfg xs))) l tn = true -> pred_eval p tn = true ->
  In (map_key tn) ks.
Proof.
  intros Hc Hw H Hnr T Hwf Hh HP. rewrite xop_after in H. apply xr_inj in H. cbn [step] in H.
  destruct (Nat.ltb l (length (fst (xrun cfg xs)))); [|discriminate]. cbn [snd] in H.
  destruct (discover (S l) (fst (xrun cfg xs)) l (pred_eval p)) as [ks'| |] eqn:Hd; try discriminate.
  injection H as ->.
  eapply (xdiscover_complete cfg xs l (pred_eval p) ks tn); eauto. intros n n'. apply pred_eval_cv.
Qed.

Theorem xdiscover_complete_plain cfg xs l P ks tn :
  cfg_wf cfg = true -> forallb (xop_wf cfg) xs = true ->
  discover (S l) (fst (xrun cfg xs)) l P = DNames ks ->
  plain_chain (abs (fst (xrun cfg xs))) l ->
  tn_of_key (map_key tn) = Some tn -> tn_wf tn = true ->
  spec_has (abs (fst (xrun cfg xs))) l tn = true -> P tn = true ->
  In (map_key tn) ks.
Proof.
  intros Hc Hw Hd Hpc T Hwf Hh HP.
  pose proof (xreachable_inv cfg xs Hc Hw) as Hi. pose proof (xreachable_tsets cfg xs Hc Hw) as Hts.
  destruct (discover_exact_st _ l P ks Hi Hts Hd) as (_ & _ & Hm & _).
  apply Hm. exists tn. split; [|tauto].
  destruct (Nat.lt_ge_cases l (length (fst (xrun cfg xs)))) as [Hl|Hl].
  - apply (has_listed_plain (S l) _ l tn Hi Hl ltac:(lia) Hpc T Hwf Hh).
  - unfold spec_has, spec_resolve_top, fuel_of in Hh. rewrite spec_resolve_S in Hh.
    assert (E : nth_error (abs (fst (xrun cfg xs))) l = None) by (apply nth_error_None; rewrite abs_length; exact Hl).
    rewrite E in Hh. discriminate.
Qed.

Theorem xlookup_not_discovered cfg xs o l P :
  cfg_wf cfg = true -> forallb (xop_wf cfg) (xs ++ [XOp o]) = true ->
  (match o with OLoad _ _ | OLoadEntry _ _ | OGetEntry _ _ | OHas _ _ | ODiscover _ _ => True | _ => False end) ->
  discover (S l) (fst (xrun cfg (xs ++ [XOp o]))) l P = discover (S l) (fst (xrun cfg xs)) l P.
Proof.
  intros Hc Hw Ho. pose proof Hw as Hw'. apply forallb_snoc in Hw'. destruct Hw' as [Hw1 Hwo].
  pose proof (xreachable_inv cfg xs Hc Hw1) as Hi. pose proof (xreachable_inv cfg _ Hc Hw) as Hi'.
  apply discover_abs_eq; [exact Hi|exact Hi'|].
  rewrite xrun_snoc_op. apply lookup_abs; assumption.
Qed.
