(* ValuePrintProofs.v — property C05: the printer of container values on an object graph with aliasing.
   On every graph without cycles (any amount of sharing, any depth) the printer with the shared recursion
   detector writes exactly the tokens of the tree the graph stands for, never the `<recursive reference>`
   marker, and leaves the detector as it found it. *)
From Coq Require Import ZArith NArith Bool List Arith Lia.
From PcoreV Require Import Model.Base Model.QuoteLex Model.TokenParse Model.ValuePrint.
Import ListNotations.

Open Scope nat_scope.
Local Arguments Nat.ltb : simpl never.
Local Arguments Nat.eqb : simpl never.

(* ---- the detector ---- *)

Lemma g_mem_false_iff a g : g_mem a g = false <-> ~ In a g.
Proof.
  unfold g_mem. induction g as [|x r IH]; cbn [existsb In].
  - split; [intros _ []|reflexivity].
  - rewrite orb_false_iff, IH. split.
    + intros [Hx Hr] [E|Hin]; [subst; rewrite Nat.eqb_refl in Hx; discriminate|exact (Hr Hin)].
    + intros Hn. split; [apply Nat.eqb_neq; intros E; apply Hn; left; symmetry; exact E|intros Hin; apply Hn; right; exact Hin].
Qed.

Lemma g_del_absent a g : ~ In a g -> g_del a g = g.
Proof.
  induction g as [|x r IH]; intros Hn; cbn [g_del]; [reflexivity|].
  destruct (Nat.eqb a x) eqn:E.
  - apply Nat.eqb_eq in E. exfalso. apply Hn. left. symmetry. exact E.
  - rewrite IH; [reflexivity|]. intros Hin. apply Hn. right. exact Hin.
Qed.

Lemma g_del_add a g : ~ In a g -> g_del a (g_add a g) = g.
Proof.
  intros Hn. unfold g_add. cbn [g_del]. rewrite Nat.eqb_refl. apply g_del_absent. exact Hn.
Qed.

(* ---- tokens ---- *)

Lemma map_sep_by {A B} (f : A -> B) (sep : list A) (l : list (list A)) :
  map f (sep_by sep l) = sep_by (map f sep) (map (map f) l).
Proof.
  induction l as [|x r IH]; [reflexivity|].
  destruct r as [|y r']; [reflexivity|].
  change (sep_by sep (x :: y :: r')) with (x ++ sep ++ sep_by sep (y :: r')).
  change (sep_by (map f sep) (map (map f) (x :: y :: r')))
    with (map f x ++ map f sep ++ sep_by (map f sep) (map (map f) (y :: r'))).
  rewrite !map_app, IH. reflexivity.
Qed.

Lemma strip_map_PT ts : strip (map PT ts) = ts.
Proof. induction ts as [|t r IH]; [reflexivity|]. cbn [map strip]. rewrite IH. reflexivity. Qed.

Lemma no_rec_map_PT ts : existsb is_rec (map PT ts) = false.
Proof. induction ts as [|t r IH]; [reflexivity|]. cbn [map existsb is_rec orb]. exact IH. Qed.

(* ---- graphs without cycles ---- *)

Lemma acyclic_from_nth n h i nd :
  acyclic_from n h = true -> nth_error h i = Some nd -> node_below (n + i) nd = true.
Proof.
  revert n i. induction h as [|x r IH]; intros n i Hac Hnth.
  - destruct i; discriminate.
  - cbn [acyclic_from] in Hac. apply andb_true_iff in Hac. destruct Hac as [Hx Hr].
    destruct i as [|i]; cbn [nth_error] in Hnth.
    + injection Hnth as <-. rewrite Nat.add_0_r. exact Hx.
    + replace (n + S i) with (S n + i) by lia. apply (IH (S n) i Hr Hnth).
Qed.

(* rank: one more than the address; a leaf has rank 0 *)
Definition rank (r : ref) : nat := match r with RLeaf _ => 0 | RNode a => S a end.

Lemma ref_below_rank n r : ref_below n r = true -> rank r <= n.
Proof. destruct r as [ts|a]; cbn [ref_below rank]; [lia|]. intros H. apply Nat.ltb_lt in H. lia. Qed.

Section Acyclic.
  Variable h : heap.
  Hypothesis Hac : acyclic h = true.

  (* the statement for one reference, at a given fuel *)
  Definition prints_tree (fuel : nat) (r : ref) : Prop :=
    forall g, (forall x, In x g -> rank r <= x) ->
      exists t, unfold fuel h r = Some t /\ print_ref fuel h g r = VOk (map PT (tokens_tree t), g).

  Lemma refs_print f a es :
    (forall r, rank r <= a -> rank r <= length h -> prints_tree f r) ->
    a <= length h ->
    forallb (ref_below a) es = true ->
    forall g, (forall x, In x g -> a <= x) ->
      exists ts, unfold_refs (unfold f h) es = Some ts /\
                 print_refs (print_ref f h) es g = VOk (map (fun t => map PT (tokens_tree t)) ts, g).
  Proof.
    intros IH Ha. induction es as [|x r IHes]; intros Hb g Hg.
    - exists []. split; reflexivity.
    - cbn [forallb] in Hb. apply andb_true_iff in Hb. destruct Hb as [Hx Hr].
      pose proof (ref_below_rank _ _ Hx) as Hrk.
      destruct (IH x Hrk ltac:(lia) g) as [t [Hu Hp]].
      { intros y Hy. specialize (Hg y Hy). lia. }
      destruct (IHes Hr g Hg) as [ts [Hus Hps]].
      exists (t :: ts). cbn [unfold_refs print_refs map]. rewrite Hu, Hus, Hp, Hps. split; reflexivity.
  Qed.

  Lemma pairs_print f a kvs :
    (forall r, rank r <= a -> rank r <= length h -> prints_tree f r) ->
    a <= length h ->
    forallb (fun kv => ref_below a (fst kv) && ref_below a (snd kv)) kvs = true ->
    forall g, (forall x, In x g -> a <= x) ->
      exists ts, unfold_pairs (unfold f h) kvs = Some ts /\
                 print_pairs (print_ref f h) kvs g =
                 VOk (map (fun kv => map PT (tokens_tree (fst kv)) ++ PT KRocket :: map PT (tokens_tree (snd kv))) ts, g).
  Proof.
    intros IH Ha. induction kvs as [|[k v] r IHes]; intros Hb g Hg.
    - exists []. split; reflexivity.
    - cbn [forallb fst snd] in Hb. apply andb_true_iff in Hb. destruct Hb as [Hkv Hr].
      apply andb_true_iff in Hkv. destruct Hkv as [Hk Hv].
      pose proof (ref_below_rank _ _ Hk) as Hrk. pose proof (ref_below_rank _ _ Hv) as Hrv.
      destruct (IH k Hrk ltac:(lia) g) as [tk [Huk Hpk]].
      { intros y Hy. specialize (Hg y Hy). lia. }
      destruct (IH v Hrv ltac:(lia) g) as [tv [Huv Hpv]].
      { intros y Hy. specialize (Hg y Hy). lia. }
      destruct (IHes Hr g Hg) as [ts [Hus Hps]].
      exists ((tk, tv) :: ts). cbn [unfold_pairs print_pairs map fst snd]. rewrite Huk, Huv, Hus, Hpk, Hpv, Hps.
      split; reflexivity.
  Qed.

  Lemma print_ref_tree : forall fuel r, rank r < fuel -> rank r <= length h -> prints_tree fuel r.
  Proof.
    induction fuel as [|f IH]; intros r Hfuel Hlen; [lia|].
    intros g Hg. destruct r as [ts|a].
    - exists (TLeaf ts). split; reflexivity.
    - cbn [rank] in Hfuel, Hlen, Hg.
      assert (Hnot : ~ In a g) by (intros Hin; specialize (Hg a Hin); lia).
      cbn [unfold print_ref]. rewrite (proj2 (g_mem_false_iff a g) Hnot).
      destruct (nth_error h a) as [nd|] eqn:Hnth.
      2:{ apply nth_error_None in Hnth. lia. }
      pose proof (acyclic_from_nth 0 h a nd Hac Hnth) as Hbelow. cbn [Nat.add] in Hbelow.
      assert (IH' : forall r, rank r <= a -> rank r <= length h -> prints_tree f r).
      { intros r Hr Hl. apply IH; [lia|exact Hl]. }
      assert (Hg1 : forall x, In x (g_add a g) -> a <= x).
      { intros x [E|Hin]; [lia|specialize (Hg x Hin); lia]. }
      destruct nd as [es|kvs]; cbn [node_below] in Hbelow.
      + destruct (refs_print f a es IH' ltac:(lia) Hbelow (g_add a g) Hg1) as [ts [Hu Hp]].
        rewrite Hu, Hp. exists (TArr ts). split; [reflexivity|].
        rewrite (g_del_add a g Hnot). cbn [tokens_tree map].
        rewrite map_app, map_sep_by, map_map. reflexivity.
      + destruct (pairs_print f a kvs IH' ltac:(lia) Hbelow (g_add a g) Hg1) as [ts [Hu Hp]].
        rewrite Hu, Hp. exists (THsh ts). split; [reflexivity|].
        rewrite (g_del_add a g Hnot). cbn [tokens_tree map].
        rewrite map_app, map_sep_by, map_map.
        f_equal. f_equal. f_equal. f_equal. f_equal.
        apply map_ext. intros [tk tv]. cbn [fst snd]. rewrite map_app. reflexivity.
  Qed.
End Acyclic.

(* the value a reference stands for in a heap: its unfolding at the fuel the printer uses *)
Definition value_of (h : heap) (r : ref) : option tval := unfold (print_fuel h) h r.

Theorem print_value_shared h r :
  acyclic h = true -> ref_below (length h) r = true ->
  exists t, value_of h r = Some t /\ print_value h r = VOk (map PT (tokens_tree t), []).
Proof.
  intros Hac Hr. unfold value_of, print_value.
  pose proof (ref_below_rank _ _ Hr) as Hrk.
  apply (print_ref_tree h Hac (print_fuel h) r); [unfold print_fuel; lia|exact Hrk|intros x []].
Qed.

Corollary print_value_no_marker h r :
  acyclic h = true -> ref_below (length h) r = true ->
  exists out, print_value h r = VOk (out, []) /\ existsb is_rec out = false /\
              exists t, value_of h r = Some t /\ strip out = tokens_tree t.
Proof.
  intros Hac Hr. destruct (print_value_shared h r Hac Hr) as [t [Hv Hp]].
  exists (map PT (tokens_tree t)). split; [exact Hp|]. split; [apply no_rec_map_PT|].
  exists t. split; [exact Hv|apply strip_map_PT].
Qed.

(* a literal value of layer L2, seen as a tree, has the tokens layer L2 gives it *)
Lemma tokens_tree_of : forall v, tokens_tree (tree_of v) = tokens_of v.
Proof.
  fix IH 1. intros v. destruct v as [| | b | z | t | s | s | es | kvs | k x | n ps]; try reflexivity.
  - cbn [tree_of tokens_tree tokens_of]. rewrite map_map.
    assert (H : map (fun x => tokens_tree (tree_of x)) es = map tokens_of es).
    { clear -IH. revert es. fix IHl 1. intros [|e r]; [reflexivity|].
      cbn [map]. rewrite (IH e), (IHl r). reflexivity. }
    rewrite H. reflexivity.
  - cbn [tree_of tokens_tree tokens_of]. rewrite map_map. cbn [fst snd].
    assert (H : map (fun kv : pval * pval =>
                       tokens_tree (tree_of (fst kv)) ++ KRocket :: tokens_tree (tree_of (snd kv))) kvs =
                map (fun kv => tokens_of (fst kv) ++ KRocket :: tokens_of (snd kv)) kvs).
    { clear -IH. revert kvs. fix IHl 1. intros [|[k x] r]; [reflexivity|].
      cbn [map fst snd]. rewrite (IH k), (IH x), (IHl r). reflexivity. }
    rewrite H. reflexivity.
Qed.
