(* InferTransCommon.v — C04: the common type accepts both operands, Tuple/Tuple merges included.
   commonType of two Tuple types is Array[commonType(cet ts, cet ts')] where `cet` folds commonType over the element
   types; that the result accepts every element type needs transitivity of assignability along the fold
   (LatticeTrans.asg_trans_code), hence its side conditions on the element types: Unit-free, and the
   by-specification Struct<-Hash rule cannot fire (all element types Struct-free, or all of them Hash-free). *)
From Coq Require Import ZArith NArith Bool List Lia.
From PcoreV Require Import Model.Base Model.Ty Model.Lattice Model.Infer Proofs.LatticeUnfold Proofs.LatticeBasics
  Proofs.LatticeRule Proofs.LatticeSound Proofs.LatticeOrder Proofs.LatticeTrans Proofs.InferProofs Proofs.InferCommon
  Proofs.InferTransKeq.
Import ListNotations.
Open Scope Z_scope.

(* the side conditions of transitivity for a family of types: no Unit, and either no Struct at all or no Hash at all
   (then rule_free holds of every pair of them, and of every pair of common types computed from them) *)
Definition tfree (ts : list ty) : bool :=
  forallb no_unit ts && (forallb no_struct ts || forallb no_hash ts).

Section CommonTuple.
  Variable rx : str -> str -> bool.
  Notation A := (asg rx true).
  Notation C := (common_f rx).

  (* the guard along a fold of commonType: every step satisfies the guard `ok` and yields neither an alias nor the
     out-of-fuel marker *)
  Fixpoint fold_okc (ok : ty -> ty -> bool) (Cn : ty -> ty -> ty) (acc : ty) (ts : list ty) : bool :=
    match ts with
    | [] => true
    | t :: r => ok acc t && no_other (Cn acc t) && fold_okc ok Cn (Cn acc t) r
    end.
  Definition cet_ok (ok : ty -> ty -> bool) (Cn : ty -> ty -> ty) (ts : list ty) : bool :=
    match ts with [] => true | t :: r => fold_okc ok Cn t r end.

  (* InferCommon.merge_ok with the Tuple/Tuple exclusion replaced by the side conditions of transitivity, and without
     the condition on UniqueTypes for Variant/Variant (key-equal members accept each other: InferTransKeq.tkeq_asg) *)
  Definition merge_ok2 (ok : ty -> ty -> bool) (Cn : ty -> ty -> ty) (a b : ty) : bool :=
    match a, b with
    | TArray e _ _, TArray e' _ _ => ok e e'
    | TNotUndef t, TNotUndef t' => ok t t'
    | TType t, TType t' => ok t t'
    | TTuple ts _ _ _, TTuple ts' _ _ _ =>
        tfree (ts ++ ts') && cet_ok ok Cn ts && cet_ok ok Cn ts' && ok (cet Cn ts) (cet Cn ts')
    | _, _ => true
    end.

  Fixpoint common_ok2 (n : nat) (a b : ty) {struct n} : bool :=
    match n with
    | O => true
    | S n' =>
        if is_unit a then true else if is_unit b then true
        else if A a b then true else if A b a then true
        else match string_merge a b with
             | Some _ => true
             | None => merge_ok2 (common_ok2 n') (C n') a b
             end
    end.

  (* the guard of the earlier theorem (no Tuple/Tuple merge anywhere) implies this one *)
  Lemma common_ok_ok2 : forall n a b, common_ok rx n a b = true -> common_ok2 n a b = true.
  Proof.
    induction n as [|n IH]; intros a b H; [reflexivity|]. cbn [common_ok common_ok2] in *.
    destruct (is_unit a); [reflexivity|]. destruct (is_unit b); [reflexivity|].
    destruct (A a b); [reflexivity|]. destruct (A b a); [reflexivity|].
    destruct (string_merge a b); [reflexivity|].
    destruct a; try reflexivity; destruct b; try reflexivity; cbn [merge_ok merge_ok2] in *;
      try (apply IH; exact H); try exact H; try discriminate H.
  Qed.

  (* ---- predicates preserved by commonType ---- *)
  Section Pres.
    Variable p : ty -> bool.
    Hypothesis p_sm : forall a b c, p a = true -> p b = true -> string_merge a b = Some c -> p c = true.
    Hypothesis p_ladder : forall a b, no_other (ladder rx a b) = true -> p (ladder rx a b) = true.
    Hypothesis p_arr : forall e lo hi, p (TArray e lo hi) = p e.
    Hypothesis p_nu : forall t, p (TNotUndef t) = p t.
    Hypothesis p_ty : forall t, p (TType t) = p t.
    Hypothesis p_float : forall lo hi, p (TFloat lo hi) = true.
    Hypothesis p_int : forall lo hi, p (TInteger lo hi) = true.
    Hypothesis p_pat : forall l, p (TPattern l) = true.
    Hypothesis p_tuple : forall ts g lo hi, p (TTuple ts g lo hi) = true -> forallb p ts = true.
    Hypothesis p_variant : forall ts, p (TVariant ts) = forallb p ts.
    Hypothesis p_any : p TAny = true.

    Definition PresAt (n : nat) : Prop := forall a b,
      common_ok2 n a b = true -> no_other (C n a b) = true -> p a = true -> p b = true -> p (C n a b) = true.

    Lemma fold_pres n (IH : PresAt n) : forall r acc,
      p acc = true -> forallb p r = true -> fold_okc (common_ok2 n) (C n) acc r = true ->
      p (fold_left (C n) r acc) = true.
    Proof.
      induction r as [|t r IHr]; intros acc Hacc Hr Hok; [exact Hacc|].
      cbn [forallb] in Hr. apply andb_true_iff in Hr. destruct Hr as [Ht Hr].
      cbn [fold_okc] in Hok. apply andb_true_iff in Hok. destruct Hok as [Hok Hrest].
      apply andb_true_iff in Hok. destruct Hok as [Hok Hno]. cbn [fold_left].
      apply IHr; [apply IH; assumption|exact Hr|exact Hrest].
    Qed.

    Lemma cet_pres n (IH : PresAt n) ts :
      forallb p ts = true -> cet_ok (common_ok2 n) (C n) ts = true -> p (cet (C n) ts) = true.
    Proof.
      destruct ts as [|t r]; intros Hp Hok; [exact p_any|]. cbn [forallb] in Hp. apply andb_true_iff in Hp.
      destruct Hp as [Ht Hr]. cbn [cet cet_ok] in *. apply fold_pres; assumption.
    Qed.

    Lemma p_mk_variant l : forallb p l = true -> p (mk_variant l) = true.
    Proof.
      intros H. destruct l as [|x [|y l]].
      - cbn [mk_variant]. rewrite p_variant. reflexivity.
      - cbn in H. rewrite andb_true_r in H. exact H.
      - cbn [mk_variant]. rewrite p_variant. exact H.
    Qed.

    Lemma C_pres : forall n, PresAt n.
    Proof.
      induction n as [|n IH]; intros a b Hok Hno Ha Hb; [discriminate Hno|].
      cbn [common_f common_ok2] in *.
      destruct (is_unit a); [exact Hb|]. destruct (is_unit b); [exact Ha|].
      destruct (A a b); [exact Ha|]. destruct (A b a); [exact Hb|].
      destruct (string_merge a b) as [c|] eqn:Es; [exact (p_sm a b c Ha Hb Es)|].
      destruct a; try (apply p_ladder; exact Hno); destruct b; try (apply p_ladder; exact Hno);
        cbn [merge_same merge_ok2 common_range fst snd] in *.
      - apply p_int.
      - apply p_float.
      - apply p_pat.
      - (* Array *) rewrite p_arr in *. cbn [no_other] in Hno. apply IH; assumption.
      - (* Tuple *) rewrite p_arr. cbn [no_other] in Hno.
        apply andb_true_iff in Hok. destruct Hok as [Hok Hokc]. apply andb_true_iff in Hok. destruct Hok as [Hok Hok2].
        apply andb_true_iff in Hok. destruct Hok as [_ Hok1].
        apply p_tuple in Ha, Hb.
        apply IH; [exact Hokc|exact Hno|apply cet_pres; assumption|apply cet_pres; assumption].
      - (* Variant *) rewrite p_variant in Ha, Hb. rewrite forallb_forall in Ha, Hb.
        apply p_mk_variant. apply forallb_forall. intros t Ht. apply udedup_incl in Ht.
        apply in_app_or in Ht. destruct Ht; auto.
      - (* NotUndef *) rewrite p_nu in *. cbn [no_other] in Hno. apply IH; assumption.
      - (* Type *) rewrite p_ty in *. cbn [no_other] in Hno. apply IH; assumption.
    Qed.
  End Pres.

  Ltac ladder_cases :=
    unfold ladder;
    repeat match goal with
           | |- context [if ?c then _ else _] => destruct c
           end.

  Lemma sm_shape a b c : string_merge a b = Some c ->
    c = TString \/ (exists lo hi, c = mk_string_sz lo hi) \/ (exists U cc, c = mk_enum U cc) \/ (exists s s', c = TEnum false [s; s']).
  Proof.
    intros H. destruct a; try discriminate H; destruct b; try discriminate H; cbn [string_merge] in H;
      injection H as <-; eauto 8.
  Qed.

  Lemma no_unit_C n a b : common_ok2 n a b = true -> no_other (C n a b) = true ->
    no_unit a = true -> no_unit b = true -> no_unit (C n a b) = true.
  Proof.
    apply (C_pres no_unit); try reflexivity.
    - intros x y c _ _ H. destruct (sm_shape x y c H) as [->|[(lo & hi & ->)|[(U & cc & ->)|(s & s' & ->)]]]; try reflexivity.
      unfold mk_string_sz. destruct (_ && _); reflexivity.
    - intros x y _. ladder_cases; reflexivity.
    - intros ts g lo hi H. exact H.
  Qed.

  Lemma no_struct_C n a b : common_ok2 n a b = true -> no_other (C n a b) = true ->
    no_struct a = true -> no_struct b = true -> no_struct (C n a b) = true.
  Proof.
    apply (C_pres no_struct); try reflexivity.
    - intros x y c _ _ H. destruct (sm_shape x y c H) as [->|[(lo & hi & ->)|[(U & cc & ->)|(s & s' & ->)]]]; try reflexivity.
      unfold mk_string_sz. destruct (_ && _); reflexivity.
    - intros x y _. ladder_cases; reflexivity.
    - intros ts g lo hi H. exact H.
  Qed.

  Lemma no_hash_C n a b : common_ok2 n a b = true -> no_other (C n a b) = true ->
    no_hash a = true -> no_hash b = true -> no_hash (C n a b) = true.
  Proof.
    apply (C_pres no_hash); try reflexivity.
    - intros x y c _ _ H. destruct (sm_shape x y c H) as [->|[(lo & hi & ->)|[(U & cc & ->)|(s & s' & ->)]]]; try reflexivity.
      unfold mk_string_sz. destruct (_ && _); reflexivity.
    - intros x y _. ladder_cases; reflexivity.
    - intros ts g lo hi H. exact H.
  Qed.

  Lemma wf_mk_enum U cc : wf_ty (mk_enum U cc) = true.
  Proof.
    unfold mk_enum. cbn [wf_ty]. destruct cc; [|reflexivity]. apply forallb_forall. intros s Hs.
    apply in_map_iff in Hs. destruct Hs as (u & <- & _). unfold is_lower. rewrite lower_idem. apply str_eqb_refl.
  Qed.

  Lemma wf_C n a b : common_ok2 n a b = true -> no_other (C n a b) = true ->
    wf_ty a = true -> wf_ty b = true -> wf_ty (C n a b) = true.
  Proof.
    apply (C_pres wf_ty); try reflexivity.
    - intros x y c _ _ H. destruct (sm_shape x y c H) as [->|[(lo & hi & ->)|[(U & cc & ->)|(s & s' & ->)]]]; try reflexivity.
      + unfold mk_string_sz. destruct (_ && _); reflexivity.
      + apply wf_mk_enum.
    - intros x y. ladder_cases; intros H; try reflexivity; discriminate H.
    - intros ts g lo hi H. cbn [wf_ty] in H. apply andb_true_iff in H. tauto.
  Qed.

  (* ---- folds of commonType over types that satisfy the side conditions of transitivity ---- *)
  Definition UbAt (n : nat) : Prop := forall a b,
    common_ok2 n a b = true -> wf_ty a = true -> wf_ty b = true -> no_other (C n a b) = true ->
    A (C n a b) a = true /\ A (C n a b) b = true.

  Section Mode.
    Variable m : ty -> bool.        (* no_struct or no_hash *)
    Hypothesis m_rf : forall a b, m a = true -> m b = true -> rule_free a b = true.
    Hypothesis m_C : forall n a b, common_ok2 n a b = true -> no_other (C n a b) = true ->
      m a = true -> m b = true -> m (C n a b) = true.
    Hypothesis m_any : m TAny = true.

    Definition G3 (t : ty) : Prop := wf_ty t = true /\ no_unit t = true /\ m t = true.

    Lemma trans3 a b c : G3 a -> G3 b -> G3 c -> A a b = true -> A b c = true -> A a c = true.
    Proof.
      intros (Wa & Ua & Ma) (Wb & Ub & Mb) (Wc & Uc & Mc).
      apply asg_trans_code; auto.
    Qed.

    Lemma G3_C n a b : common_ok2 n a b = true -> no_other (C n a b) = true -> G3 a -> G3 b -> G3 (C n a b).
    Proof.
      intros Hok Hno (Wa & Ua & Ma) (Wb & Ub & Mb). repeat split; [apply wf_C|apply no_unit_C|apply m_C]; assumption.
    Qed.

    Lemma fold_ub n (IH : UbAt n) : forall r acc,
      G3 acc -> (forall t, In t r -> G3 t) -> fold_okc (common_ok2 n) (C n) acc r = true ->
      G3 (fold_left (C n) r acc) /\ A (fold_left (C n) r acc) acc = true /\
      (forall t, In t r -> A (fold_left (C n) r acc) t = true).
    Proof.
      induction r as [|t r IHr]; intros acc Hacc Hr Hok.
      - cbn [fold_left]. split; [exact Hacc|]. split; [apply refl; apply Hacc|intros t []].
      - cbn [fold_okc] in Hok. apply andb_true_iff in Hok. destruct Hok as [Hok Hrest].
        apply andb_true_iff in Hok. destruct Hok as [Hok Hno]. cbn [fold_left].
        assert (Ht : G3 t) by (apply Hr; left; reflexivity).
        assert (Hc : G3 (C n acc t)) by (apply G3_C; assumption).
        destruct (IH acc t Hok (proj1 Hacc) (proj1 Ht) Hno) as [Hca Hct].
        destruct (IHr (C n acc t) Hc (fun u Hu => Hr u (or_intror Hu)) Hrest) as (Hs & Hsc & Hsr).
        split; [exact Hs|]. split.
        + exact (trans3 _ _ _ Hs Hc Hacc Hsc Hca).
        + intros u [<-|Hu]; [exact (trans3 _ _ _ Hs Hc Ht Hsc Hct)|apply Hsr; exact Hu].
    Qed.

    Lemma cet_ub n (IH : UbAt n) ts :
      (forall t, In t ts -> G3 t) -> cet_ok (common_ok2 n) (C n) ts = true ->
      G3 (cet (C n) ts) /\ (forall t, In t ts -> A (cet (C n) ts) t = true).
    Proof.
      destruct ts as [|t0 r]; intros Hts Hok.
      - split; [|intros t []]. split; [reflexivity|]. split; [reflexivity|exact m_any].
      - cbn [cet cet_ok] in *.
        destruct (fold_ub n IH r t0 (Hts t0 (or_introl eq_refl)) (fun u Hu => Hts u (or_intror Hu)) Hok) as (Hs & Hs0 & Hsr).
        split; [exact Hs|]. intros u [<-|Hu]; [exact Hs0|apply Hsr; exact Hu].
    Qed.

    Lemma tuple_ub n (IH : UbAt n) ts ts' :
      (forall t, In t ts -> G3 t) -> (forall t, In t ts' -> G3 t) ->
      cet_ok (common_ok2 n) (C n) ts = true -> cet_ok (common_ok2 n) (C n) ts' = true ->
      common_ok2 n (cet (C n) ts) (cet (C n) ts') = true ->
      no_other (C n (cet (C n) ts) (cet (C n) ts')) = true ->
      let E := C n (cet (C n) ts) (cet (C n) ts') in
      A E (cet (C n) ts) = true /\ A E (cet (C n) ts') = true /\
      (forall t, In t ts -> A E t = true) /\ (forall t, In t ts' -> A E t = true).
    Proof.
      intros Hts Hts' Hok1 Hok2 Hokc Hno E.
      destruct (cet_ub n IH ts Hts Hok1) as (Gc & Hc). destruct (cet_ub n IH ts' Hts' Hok2) as (Gc' & Hc').
      destruct (IH _ _ Hokc (proj1 Gc) (proj1 Gc') Hno) as [H1 H2]. fold E in H1, H2.
      assert (GE : G3 E) by (apply G3_C; assumption).
      split; [exact H1|]. split; [exact H2|]. split.
      - intros t Ht. exact (trans3 _ _ _ GE Gc (Hts t Ht) H1 (Hc t Ht)).
      - intros t Ht. exact (trans3 _ _ _ GE Gc' (Hts' t Ht) H2 (Hc' t Ht)).
    Qed.
  End Mode.

  Lemma forallb_app_l {X} (f : X -> bool) l l' : forallb f (l ++ l') = true -> forallb f l = true /\ forallb f l' = true.
  Proof. rewrite forallb_app. apply andb_true_iff. Qed.

  Lemma tuple_ub_any n (IH : UbAt n) ts ts' :
    tfree (ts ++ ts') = true -> forallb wf_ty ts = true -> forallb wf_ty ts' = true ->
    cet_ok (common_ok2 n) (C n) ts = true -> cet_ok (common_ok2 n) (C n) ts' = true ->
    common_ok2 n (cet (C n) ts) (cet (C n) ts') = true ->
    no_other (C n (cet (C n) ts) (cet (C n) ts')) = true ->
    let E := C n (cet (C n) ts) (cet (C n) ts') in
    A E (cet (C n) ts) = true /\ A E (cet (C n) ts') = true /\
    (forall t, In t ts -> A E t = true) /\ (forall t, In t ts' -> A E t = true).
  Proof.
    intros Hfree Hw Hw' Hok1 Hok2 Hokc Hno. unfold tfree in Hfree. apply andb_true_iff in Hfree.
    destruct Hfree as [Hu Hm]. apply forallb_app_l in Hu. destruct Hu as [Hu Hu'].
    rewrite forallb_forall in Hw, Hw', Hu, Hu'.
    apply orb_true_iff in Hm. destruct Hm as [Hm|Hm]; apply forallb_app_l in Hm; destruct Hm as [Hm Hm'];
      rewrite forallb_forall in Hm, Hm'.
    - apply (tuple_ub no_struct); try assumption.
      + intros a b Ha _. apply rule_free_l. exact Ha.
      + exact no_struct_C.
      + reflexivity.
      + intros t Ht. repeat split; auto.
      + intros t Ht. repeat split; auto.
    - apply (tuple_ub no_hash); try assumption.
      + intros a b _ Hb. apply rule_free_r. exact Hb.
      + exact no_hash_C.
      + reflexivity.
      + intros t Ht. repeat split; auto.
      + intros t Ht. repeat split; auto.
  Qed.

  Lemma array_accepts_tuple E lo hi ts g lo' hi' :
    size_sub lo hi lo' hi' = true -> (ts = [] -> A E TAny = true) -> (forall t, In t ts -> A E t = true) ->
    A (TArray E lo hi) (TTuple ts g lo' hi') = true.
  Proof.
    intros Hsz Hnil Hall. apply (is_any_false_recv rx true); [reflexivity|]. cbn [recv]. rewrite Hsz. cbn [andb].
    apply orb_true_iff. right. destruct ts as [|t0 ts]; [apply Hnil; reflexivity|].
    apply forallb_forall. exact Hall.
  Qed.

  Theorem common_f_ub2 : forall n, UbAt n.
  Proof.
    induction n as [|n IH]; intros a b Hok Hwa Hwb Hno; [discriminate Hno|].
    cbn [common_f common_ok2] in *.
    destruct (is_unit a) eqn:Ua.
    { apply is_unit_eq in Ua. subst. split; [apply asg_unit_r|apply refl; assumption]. }
    destruct (is_unit b) eqn:Ub.
    { apply is_unit_eq in Ub. subst. split; [apply refl; assumption|apply asg_unit_r]. }
    destruct (A a b) eqn:Hab; [split; [apply refl; assumption|exact Hab]|].
    destruct (A b a) eqn:Hba; [split; [exact Hba|apply refl; assumption]|].
    destruct (string_merge a b) as [c|] eqn:Es; [eapply string_merge_ub; eassumption|].
    destruct a; try (apply ladder_ub; exact Hno); destruct b; try (apply ladder_ub; exact Hno);
      cbn [merge_same merge_ok2 common_range fst snd] in *.
    - (* Integer *) split; apply (is_any_false_recv rx true); try reflexivity; cbn [recv];
        [apply size_sub_minmax_l|apply size_sub_minmax_r].
    - (* Float *) split; apply (is_any_false_recv rx true); try reflexivity; cbn [recv];
        [apply size_sub_minmax_l|apply size_sub_minmax_r].
    - (* Pattern *)
      assert (Hne : rxs <> []) by (intros ->; rewrite pattern_nil_accepts in Hab by reflexivity; discriminate).
      assert (Hne' : rxs0 <> []) by (intros ->; rewrite pattern_nil_accepts in Hba by reflexivity; discriminate).
      split; apply pattern_merge_accepts; try assumption; intros p Hp; apply sdedup_in; apply in_or_app; auto.
    - (* Array *) cbn [wf_ty no_other] in *. destruct (IH a b Hok Hwa Hwb Hno) as [H1 H2].
      split; apply (is_any_false_recv rx true); try reflexivity; cbn [recv].
      + rewrite size_sub_minmax_l, H1. cbn [andb]. apply orb_true_r.
      + rewrite size_sub_minmax_r, H2. cbn [andb]. apply orb_true_r.
    - (* Tuple: the element types of both are accepted by the common type of the two common element types *)
      apply andb_true_iff in Hok. destruct Hok as [Hok Hokc]. apply andb_true_iff in Hok. destruct Hok as [Hok Hok2].
      apply andb_true_iff in Hok. destruct Hok as [Hfree Hok1].
      cbn [wf_ty] in Hwa, Hwb. apply andb_true_iff in Hwa, Hwb. destruct Hwa as [_ Hwa]. destruct Hwb as [_ Hwb].
      cbn [no_other] in Hno.
      destruct (tuple_ub_any n IH ts ts0 Hfree Hwa Hwb Hok1 Hok2 Hokc Hno) as (H1 & H2 & H3 & H4).
      split; apply array_accepts_tuple.
      + apply size_sub_minmax_l.
      + intros ->. exact H1.
      + exact H3.
      + apply size_sub_minmax_r.
      + intros ->. exact H2.
      + exact H4.
    - (* Variant: UniqueTypes keeps of every member the member itself or one with the same hash key, which accepts it *)
      cbn [wf_ty] in Hwa, Hwb.
      assert (Hw : forallb wf_ty (ts ++ ts0) = true) by (rewrite forallb_app, Hwa, Hwb; reflexivity).
      split; rewrite asg_variant_r; apply orb_true_iff; right;
        apply forallb_forall; intros t Ht; apply mk_variant_udedup_accepts; try exact Hw; apply in_or_app; auto.
    - (* NotUndef *) cbn [wf_ty no_other] in *. destruct (IH a b Hok Hwa Hwb Hno) as [H1 H2].
      split; apply LatticeOrder.mono_notundef; assumption.
    - (* Type *) cbn [wf_ty no_other] in *. destruct (IH a b Hok Hwa Hwb Hno) as [H1 H2].
      split; apply LatticeOrder.mono_type; assumption.
  Qed.

  Theorem common_ub2 a b :
    common_ok2 (S (tsize a + tsize b)) a b = true -> wf_ty a = true -> wf_ty b = true ->
    no_other (common rx a b) = true ->
    A (common rx a b) a = true /\ A (common rx a b) b = true.
  Proof. apply common_f_ub2. Qed.
End CommonTuple.
