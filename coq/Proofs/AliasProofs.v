(* AliasProofs.v — C02: an alias is an instance test of the type it stands for. *)
From Coq Require Import ZArith NArith Bool List Lia.
From PcoreV Require Import Model.Base Model.Ty Model.Lattice Model.Spec Model.Alias
  Proofs.LatticeBasics Proofs.SpecProofs.
Import ListNotations.
Open Scope Z_scope.

Definition walkG {T} (I : T -> value -> bool) := fix walk (ts : list T) (vs : list value) {struct ts} : bool :=
  match ts, vs with
  | [], _ => true
  | _, [] => true
  | [t], v :: vs' => I t v && forallb (I t) vs'
  | t :: ts', v :: vs' => I t v && walk ts' vs'
  end.

Lemma walkG_map {T U} (I : T -> value -> bool) (J : U -> value -> bool) (f : T -> U) ts :
  Forall (fun t => forall v, I t v = J (f t) v) ts -> forall vs, walkG I ts vs = walkG J (map f ts) vs.
Proof.
  induction 1 as [|t ts Ht Hts IH]; intros vs; [reflexivity|].
  destruct vs as [|v vs]; [destruct ts; reflexivity|].
  destruct ts as [|t' ts].
  - cbn [walkG map]. rewrite Ht. f_equal.
    clear - Ht. induction vs as [|x r IHr]; [reflexivity|]. cbn [forallb]. now rewrite Ht, IHr.
  - change (I t v && walkG I (t' :: ts) vs = J (f t) v && walkG J (map f (t' :: ts)) vs).
    now rewrite Ht, IH.
Qed.

Section AliasEq.
  Variable rx : str -> str -> bool.
  Notation inst := (inst rx true).
  Notation instA := (instA rx).

  Lemma instA_tuple ts g lo hi vs :
    instA (ATuple ts g lo hi) (VArr vs) = in_size lo hi (zlen vs) && walkG instA ts vs.
  Proof. reflexivity. Qed.
  Lemma inst_tuple ts g lo hi vs :
    inst (TTuple ts g lo hi) (VArr vs) = in_size lo hi (zlen vs) && walkG inst ts vs.
  Proof. reflexivity. Qed.

  Lemma forallb_ext' {A} (f g : A -> bool) l : (forall x, f x = g x) -> forallb f l = forallb g l.
  Proof. intros E. induction l as [|x r IH]; [reflexivity|]. cbn [forallb]. now rewrite E, IH. Qed.

  (* the instance test through aliases is the instance test of the resolved type *)
  Theorem instA_resolve : forall a v, instA a v = inst (resolve a) v.
  Proof.
    induction a using aty_ind'; intros u.
    - reflexivity.
    - cbn [instA resolve]. apply IHa.
    - (* Array *) cbn [instA resolve inst]. destruct u; try reflexivity. f_equal.
      rewrite (forallb_ext' (instA a) (inst (resolve a)) vs IHa).
      destruct (is_anyA a) eqn:EA.
      + destruct a as [[]| | | | | | | | |]; try discriminate EA. reflexivity.
      + destruct (is_any (resolve a)) eqn:ER; [|reflexivity].
        apply is_any_eq in ER. rewrite ER. cbn [orb]. clear. induction vs as [|x r IH]; [reflexivity|]. exact IH.
    - (* Hash *) cbn [instA resolve inst]. destruct u; try reflexivity. f_equal.
      apply forallb_ext'. intros e. now rewrite IHa1, IHa2.
    - (* Tuple *) destruct u; try reflexivity. cbn [resolve]. rewrite instA_tuple, inst_tuple. f_equal.
      apply walkG_map. exact H.
    - (* Struct *) cbn [instA resolve inst]. destruct u; try reflexivity.
      f_equal.
      + induction H as [|m ms Hm Hms IH]; [reflexivity|]. cbn [forallb map fst snd]. rewrite IH. f_equal.
        destruct (hash_get (is_vstr (fst m)) es); [apply Hm|reflexivity].
      + f_equal. clear H. unfold zlen. f_equal.
        induction ms as [|m ms IH]; [reflexivity|]. cbn [filter map fst snd].
        destruct (hash_get (is_vstr (fst m)) es); cbn [length]; now rewrite IH.
    - (* Variant *) cbn [instA resolve inst]. induction H as [|t ts Ht Hts IH]; [reflexivity|].
      cbn [existsb map]. now rewrite Ht, IH.
    - cbn [instA resolve inst]. destruct u; try reflexivity; apply IHa.
    - cbn [instA resolve inst]. destruct u; try reflexivity; apply IHa.
    - cbn [instA resolve inst]. destruct u; try reflexivity; apply IHa.
  Qed.

  (* instance through aliases <-> member of the set of the resolved type; an alias adds nothing to the set *)
  Theorem instA_is_denA : forall a, wf_ty (resolve a) = true -> forall v, wfv v = true ->
    (instA a v = true <-> denA rx a v).
  Proof. intros a Hw v Hv. rewrite instA_resolve. apply (inst_is_den rx true _ Hw v Hv). Qed.

  Theorem denA_alias n b v : denA rx (AAlias n b) v <-> denA rx b v.
  Proof. reflexivity. Qed.

  Theorem instA_alias n b v : instA (AAlias n b) v = instA b v.
  Proof. reflexivity. Qed.
End AliasEq.
