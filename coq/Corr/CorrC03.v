(* Correspondence obligations of C03: Equals answers vs. ty_eqb, assignability answers vs. asg. *)
From Coq Require Import ZArith NArith Bool List.
From PcoreV Require Import Model.Base Model.Ty Model.Lattice Model.TyEq Corr.CorrC01.
Import ListNotations.

Definition eq_check (c : ty * ty * bool * bool) : bool :=
  let '(a, b, e, _) := c in Bool.eqb (ty_eqb a b) e.
Definition eq_mismatches (cs : list (ty * ty * bool * bool)) : list N := failing eq_check cs.

Definition asg2_check (o : oracle) (c : ty * ty * bool * bool) : bool :=
  let '(a, b, _, r) := c in Bool.eqb (asg (rx_of o) true a b) r.
Definition asg2_mismatches (o : oracle) (cs : list (ty * ty * bool * bool)) : list N := failing (asg2_check o) cs.
