(* Correspondence obligations for C06: the lexer and parser models on the byte strings the implementation ran.
   A case holds the input, the oracle tables observed on it (unicode.IsLetter on its non-ASCII runes,
   strconv.ParseFloat on its float tokens, regexp.Compile on its regexp tokens) and what the implementation did:
   the token stream of the lexer (hook types.VerifTokens: kind, unescaped text, reader line and column after each
   token, and how the stream ended) and the outcome of types.Parse (class, line, column, and the value). *)
From Coq Require Import ZArith NArith Bool List.
From PcoreV Require Import Model.Base Model.Lexer Model.Parser Model.Resolve.
Import ListNotations.
Open Scope Z_scope.

Record c06case := mkCase {
  cc_input : str;
  cc_letters : list N;                      (* non-ASCII runes of the input for which unicode.IsLetter holds *)
  cc_floats : list (str * option Z);        (* float token text -> bits / error *)
  cc_regexps : list (str * bool);           (* regexp token text -> compiles *)
  cc_tokens : list (nat * str * Z * Z);     (* kind, text, line, column *)
  cc_lexend : nat * Z * Z;                  (* 0 end token | 1 error at line, column | 2 runtime fault *)
  cc_result : nat * Z * Z;                  (* 0 value | 1 PARSE_ERROR at line, column | 2 runtime fault, raw or wrapped
                                               | 3 anything else (timeout, other panic) *)
  cc_value : option pv }.                   (* the value, when the harness could decode it *)

Definition letters_oracle (ls : list N) (r : N) : bool := existsb (N.eqb r) ls.

Fixpoint assoc_str {A} (l : list (str * A)) (k : str) : option A :=
  match l with
  | [] => None
  | (k', v) :: t => if str_eqb k k' then Some v else assoc_str t k
  end.

Definition floats_oracle (l : list (str * option Z)) (k : str) : option Z :=
  match assoc_str l k with Some r => r | None => None end.
Definition regexps_oracle (l : list (str * bool)) (k : str) : bool :=
  match assoc_str l k with Some r => r | None => false end.

Definition tok_obs (p : ptok) : nat * str * Z * Z := (tkind_code (pt_kind p), pt_text p, pt_line p, pt_col p).
Definition tok_obs_eqb (a b : nat * str * Z * Z) : bool :=
  let '(k, s, l, c) := a in let '(k', s', l', c') := b in
  Nat.eqb k k' && str_eqb s s' && Z.eqb l l' && Z.eqb c c'.
Definition end_obs (e : lex_end) : nat * Z * Z :=
  match e with
  | EEnd => (0%nat, 0, 0)
  | ELexErr l c => (1%nat, l, c)
  | ELexFault => (2%nat, 0, 0)
  | ELexOutOfFuel => (9%nat, 0, 0)
  end.
Definition triple_eqb (a b : nat * Z * Z) : bool :=
  let '(k, l, c) := a in let '(k', l', c') := b in Nat.eqb k k' && Z.eqb l l' && Z.eqb c c'.

Definition lex_check (c : c06case) : bool :=
  let '(toks, e) := lex (letters_oracle (cc_letters c)) (cc_input c) in
  list_eqb tok_obs_eqb (map tok_obs toks) (cc_tokens c) && triple_eqb (end_obs e) (cc_lexend c).

Definition model_parse (c : c06case) : pres pv :=
  parse_string (floats_oracle (cc_floats c)) (regexps_oracle (cc_regexps c)) (letters_oracle (cc_letters c)) (cc_input c).

Definition parse_check (c : c06case) : bool :=
  match model_parse c with
  | POk v =>
    triple_eqb (0%nat, 0, 0) (cc_result c) &&
    match cc_value c with Some w => pv_eqb v w | None => true end
  | PErr l col => triple_eqb (1%nat, l, col) (cc_result c)
  | PFault => triple_eqb (2%nat, 0, 0) (cc_result c)
  | POutOfFuel => false
  end.

Definition lex_mismatches (cs : list c06case) : list N := failing lex_check cs.
Definition parse_mismatches (cs : list c06case) : list N := failing parse_check cs.

(* ---- the resolve stage (Model/Resolve.v) ------------------------------------------------------------------

   A case holds the parameters of a type expression as types.Parse built them and what Context.ParseType did:
   kind 0  Enum[parameters], all parameters plain (resolveValue hands them to the creator unchanged): the Enum type's
           values and flag (EnumType.Get), or the index of the ILLEGAL_ARGUMENT_TYPE raised by `Enum[]`;
   kind 1  T[Deferred(name, plain arguments)] for any type name T but TypeSet: whether the outcome is UNKNOWN_VARIABLE
           (and for which name) - the scope of resolveValue is empty, so this is the outcome exactly when
           deferred.Resolve takes the name for a variable.
   rc_lower is the table of strings.ToLower on the strings among the parameters. *)
Record c06rcase := mkRCase {
  rc_kind : nat;
  rc_args : list pv;                 (* kind 0: the parameters; kind 1: [PCall name arguments] *)
  rc_lower : list (str * str);
  rc_class : nat;                    (* 0 a type (kind 0: an Enum type) | 1 ILLEGAL_ARGUMENT_TYPE of Enum[] at rc_index
                                        | 2 Go runtime fault, raw or wrapped | 3 anything else | 4 UNKNOWN_VARIABLE rc_name *)
  rc_index : Z;
  rc_values : list str;
  rc_ci : bool;
  rc_name : str }.

Definition lower_oracle (l : list (str * str)) (k : str) : str :=
  match assoc_str l k with Some r => r | None => k end.

Definition resolve_check (c : c06rcase) : bool :=
  match rc_kind c with
  | 0%nat =>
    all_plain (rc_args c) &&
    match enum_create (lower_oracle (rc_lower c)) (rc_args c) with
    | EOk vs ci => Nat.eqb (rc_class c) 0 && list_eqb str_eqb vs (rc_values c) && Bool.eqb ci (rc_ci c)
    | EErr i => Nat.eqb (rc_class c) 1 && Z.eqb i (rc_index c)
    | EFault => Nat.eqb (rc_class c) 2
    | EOutOfFuel => false
    end
  | 1%nat =>
    match rc_args c with
    | [PCall name args] =>
      all_plain args &&
      match deferred_target name with
      | DVar vn => Nat.eqb (rc_class c) 4 && str_eqb vn (rc_name c)
      | DFunc _ => negb (Nat.eqb (rc_class c) 4) && negb (Nat.eqb (rc_class c) 2)
      | DFault => Nat.eqb (rc_class c) 2
      end
    | _ => false
    end
  | _ => false
  end.

Definition resolve_mismatches (cs : list c06rcase) : list N := failing resolve_check cs.
